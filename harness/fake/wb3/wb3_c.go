package wb3

import "github.com/quasilyte/go-ruleguard/dsl"

func wu1(m dsl.Matcher) {
	m.Import("example.com/wk/a/util")
	m.Match(`probe(util.G($*_))`).Report(`wu1 is a/util`)
}

func wu2(m dsl.Matcher) {
	m.Match(`probe(util.G($*_))`).Report(`wu2 is anything named util`)
	m.Match(`util.F()`).Report(`wu2 F`)
}
