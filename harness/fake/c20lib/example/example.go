// Package example: its base name is the first label of the host in `example.com/io.Reader` -- a fully-qualified name whose
// text up to its FIRST dot is an identifier that a group may have bound (C20).
package example

type T struct{ E int }

type Reader interface{ ReadExample() }

type Impl struct{}

func (Impl) ReadExample() {}
