// Package lib: also present as a vendored copy in the target universe (C20).
package lib

type T struct{ X int }

type Doer interface{ Do() }

type Impl struct{}

func (Impl) Do() {}
