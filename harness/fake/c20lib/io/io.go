// Package io: a third package named io (after the standard library's and example.com/io), for groups that bind one base
// name several times (C20).
package io

// Reader has the name of the stdlib interface and a method set of its own.
type Reader interface{ ReadThird() bool }

// Writer is a struct here as well.
type Writer struct{ M int }

// Impl implements this package's Reader only.
type Impl struct{}

func (Impl) ReadThird() bool { return false }

// OnlyThird exists in this package only.
type OnlyThird struct{}
