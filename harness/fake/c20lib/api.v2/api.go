// Package api: import path example.com/c20/lib/api.v2 -- a dot in the last path element; example.com/c20/lib/api is another
// package (C20).
package api

type T struct{ V2 int }

type Handler interface{ HandleV2() }

type Impl struct{}

func (Impl) HandleV2() {}
