// Package api: import path example.com/c20/lib/api -- NOT example.com/c20/lib/api.v2; a fully-qualified name of api.v2 that is
// cut anywhere but at its last dot may end up here (C20).
package api

type T struct{ Plain int }

type Handler interface{ HandlePlain() }

type Impl struct{}

func (Impl) HandlePlain() {}
