// Package check: import path example.com/c20/lib/check.v1 -- a dot in the last path element (C20).
package check

type C struct{ N int }

type Checker interface{ CheckV1() bool }

type Impl struct{}

func (Impl) CheckV1() bool { return true }
