// Package gopkg: its base name is the first label of the host in `gopkg.in/yaml.v3.Marshaler` (C20).
package gopkg

type T struct{ G int }

type Marshaler interface{ MarshalGopkg() }

type Impl struct{}

func (Impl) MarshalGopkg() {}
