module example.com/c20/lib

go 1.22.0
