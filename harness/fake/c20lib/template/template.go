// Package template: a third package named template (after text/template and html/template), for groups that bind one
// base name several times (C20).
package template

type Template struct{ Third string }

type FuncMap map[string]int
