// Package multi: import path example.com/c20/lib/multi.dot.v2 -- two dots in the last path element (C20).
package multi

type T struct{ M int }

type Iface interface{ MD() }

type Impl struct{}

func (Impl) MD() {}
