// Package plain: import path example.com/c20/lib/v1.2/plain -- a dot in a middle path element (C20).
package plain

type T struct{ P int }

type Iface interface{ MP() }

type Impl struct{}

func (Impl) MP() {}
