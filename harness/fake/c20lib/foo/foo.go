// Package foo (lib/foo): a third package named foo (after example.com/a/foo and example.com/b/foo), for groups that bind
// one base name several times (C20).
package foo

type T struct{ C bool }

type Iface interface{ MC() }

type Impl struct{}

func (Impl) MC() {}

type OnlyC struct{}
