// Package foo (a): base name collides with example.com/b/foo (C20).
package foo

type T struct{ A int }

type Iface interface{ MA() }

type Impl struct{}

func (Impl) MA() {}

type OnlyA struct{}
