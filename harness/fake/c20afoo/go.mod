module example.com/a/foo

go 1.22.0
