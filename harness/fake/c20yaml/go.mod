module gopkg.in/yaml.v3

go 1.22.0
