// Package yaml stands for a package whose import path has a dot in its LAST element (gopkg.in/yaml.v3): a fully-qualified
// name of it, `gopkg.in/yaml.v3.Marshaler`, has its package/object boundary at the last dot of the whole string (C20).
package yaml

type Node struct{ Kind int }

type Marshaler interface {
	MarshalYAML() (interface{}, error)
}

type Impl struct{}

func (Impl) MarshalYAML() (interface{}, error) { return nil, nil }
