// Package gtypes serialises go/types types into terms of the Coq type `gtype` (coq/theories/Types/GType.v)
// and builds "universes": independent type-checks of the same set of in-memory packages.
//
//	gtype := T (h : head) (args : list gtype)
//
// The serialisation is canonical: interface methods in go/types' sorted order with their Id, struct field
// headers with the package path only for unexported names, parameter names dropped, named types by
// (universe, package path, name, type arguments), type parameters by (universe, declaration position).
package gtypes

import (
	"fmt"
	"go/ast"
	"go/parser"
	"go/token"
	"go/types"
	"sort"
	"strings"
)

// Universe is one independent type-check of a set of packages given as source text.
type Universe struct {
	ID    int
	Fset  *token.FileSet
	Pkgs  map[string]*types.Package
	Infos map[string]*types.Info
	Files map[string]*ast.File
	srcs  map[string]string
	extra types.Importer
}

// NewUniverse type-checks the packages (import path -> source of its single file) from scratch.
// Imports are resolved among the given packages first, then through extra (may be nil).
func NewUniverse(id int, srcs map[string]string, extra types.Importer) (*Universe, error) {
	u := &Universe{ID: id, Fset: token.NewFileSet(), Pkgs: map[string]*types.Package{}, Infos: map[string]*types.Info{},
		Files: map[string]*ast.File{}, srcs: srcs, extra: extra}
	paths := make([]string, 0, len(srcs))
	for p := range srcs {
		paths = append(paths, p)
	}
	sort.Strings(paths)
	for _, p := range paths {
		if _, err := u.Import(p); err != nil {
			return nil, err
		}
	}
	return u, nil
}

// Import implements types.Importer.
func (u *Universe) Import(path string) (*types.Package, error) {
	if path == "unsafe" {
		return types.Unsafe, nil
	}
	if p, ok := u.Pkgs[path]; ok {
		if p == nil {
			return nil, fmt.Errorf("import cycle through %s", path)
		}
		return p, nil
	}
	src, ok := u.srcs[path]
	if !ok {
		if u.extra != nil {
			return u.extra.Import(path)
		}
		return nil, fmt.Errorf("unknown package %s", path)
	}
	u.Pkgs[path] = nil
	f, err := parser.ParseFile(u.Fset, path+"/src.go", src, 0)
	if err != nil {
		return nil, err
	}
	info := &types.Info{
		Types:      map[ast.Expr]types.TypeAndValue{},
		Defs:       map[*ast.Ident]types.Object{},
		Uses:       map[*ast.Ident]types.Object{},
		Implicits:  map[ast.Node]types.Object{},
		Selections: map[*ast.SelectorExpr]*types.Selection{},
		Scopes:     map[ast.Node]*types.Scope{},
		Instances:  map[*ast.Ident]types.Instance{},
	}
	conf := types.Config{Importer: u}
	pkg, err := conf.Check(path, u.Fset, []*ast.File{f}, info)
	if err != nil {
		return nil, fmt.Errorf("typecheck %s: %v", path, err)
	}
	u.Pkgs[path] = pkg
	u.Infos[path] = info
	u.Files[path] = f
	return pkg, nil
}

// Ser serialises types of known universes.
type Ser struct {
	pkgU map[*types.Package]int
	fset map[int]*token.FileSet
	// Unsupported is set to a description when a type outside the modelled fragment was met.
	Unsupported string
	istack      []*types.Interface
}

func NewSer(us ...*Universe) *Ser {
	s := &Ser{pkgU: map[*types.Package]int{}, fset: map[int]*token.FileSet{}}
	for _, u := range us {
		s.Add(u)
	}
	return s
}

func (s *Ser) Add(u *Universe) {
	for _, p := range u.Pkgs {
		s.pkgU[p] = u.ID
	}
	s.fset[u.ID] = u.Fset
}

// AddPkg registers a package created outside a Universe (go/types constructors, importers).
func (s *Ser) AddPkg(p *types.Package, uid int) { s.pkgU[p] = uid }

func coqStr(x string) string {
	var b strings.Builder
	b.WriteByte('"')
	for _, c := range []byte(x) {
		switch {
		case c == '"':
			b.WriteString(`""`)
		case c < 32 || c > 126:
			fmt.Fprintf(&b, "\\x%02x", c) // kept printable; never produced for the ASCII pools used here
		default:
			b.WriteByte(c)
		}
	}
	b.WriteByte('"')
	return b.String()
}

func (s *Ser) univ(p *types.Package) int {
	if p == nil {
		return 0
	}
	if u, ok := s.pkgU[p]; ok {
		return u
	}
	s.Unsupported = "package of unknown universe: " + p.Path()
	return 99
}

func pkgPath(p *types.Package) string {
	if p == nil {
		return ""
	}
	return p.Path()
}

func asciiExported(name string) bool { return name != "" && name[0] >= 'A' && name[0] <= 'Z' }

func (s *Ser) list(ts []types.Type) string {
	parts := make([]string, len(ts))
	for i, t := range ts {
		parts[i] = s.Term(t)
	}
	return "[" + strings.Join(parts, "; ") + "]"
}

func tupleTypes(t *types.Tuple) []types.Type {
	var out []types.Type
	for i := 0; i < t.Len(); i++ {
		out = append(out, t.At(i).Type())
	}
	return out
}

// Term returns the Coq term for t.
func (s *Ser) Term(t types.Type) string {
	switch t := t.(type) {
	case *types.Basic:
		return fmt.Sprintf("T (HBasic %d) []", int(t.Kind()))
	case *types.Pointer:
		return "T HPointer [" + s.Term(t.Elem()) + "]"
	case *types.Slice:
		return "T HSlice [" + s.Term(t.Elem()) + "]"
	case *types.Array:
		return fmt.Sprintf("T (HArray (%d)) [%s]", t.Len(), s.Term(t.Elem()))
	case *types.Map:
		return "T HMap [" + s.Term(t.Key()) + "; " + s.Term(t.Elem()) + "]"
	case *types.Chan:
		return fmt.Sprintf("T (HChan %d) [%s]", int(t.Dir()), s.Term(t.Elem()))
	case *types.Tuple:
		return "T HTuple " + s.list(tupleTypes(t))
	case *types.Signature:
		if t.TypeParams().Len() != 0 {
			s.Unsupported = "generic signature " + t.String()
		}
		v := "false"
		if t.Variadic() {
			v = "true"
		}
		return fmt.Sprintf("T (HSig %s) [T HTuple %s; T HTuple %s]", v, s.list(tupleTypes(t.Params())), s.list(tupleTypes(t.Results())))
	case *types.Struct:
		hdrs := make([]string, t.NumFields())
		var ts []types.Type
		for i := 0; i < t.NumFields(); i++ {
			f := t.Field(i)
			if f.Exported() != asciiExported(f.Name()) {
				s.Unsupported = "non-ASCII field name " + f.Name()
			}
			pp := ""
			if !f.Exported() {
				pp = pkgPath(f.Pkg())
			}
			emb := "false"
			if f.Embedded() {
				emb = "true"
			}
			hdrs[i] = fmt.Sprintf("FH %s %s %s %s", emb, coqStr(f.Name()), coqStr(pp), coqStr(t.Tag(i)))
			ts = append(ts, f.Type())
		}
		return "T (HStruct [" + strings.Join(hdrs, "; ") + "]) " + s.list(ts)
	case *types.Interface:
		if !t.IsMethodSet() {
			s.Unsupported = "constraint interface " + t.String()
		}
		for _, prev := range s.istack {
			if prev == t {
				s.Unsupported = "cyclic anonymous interface " + t.String()
				return "T (HInterface []) []"
			}
		}
		s.istack = append(s.istack, t)
		defer func() { s.istack = s.istack[:len(s.istack)-1] }()
		ids := make([]string, t.NumMethods())
		var ts []types.Type
		for i := 0; i < t.NumMethods(); i++ {
			m := t.Method(i)
			ids[i] = coqStr(m.Id())
			ts = append(ts, m.Type())
		}
		return "T (HInterface [" + strings.Join(ids, "; ") + "]) " + s.list(ts)
	case *types.Named:
		obj := t.Obj()
		if obj.Pkg() != nil && obj.Parent() != obj.Pkg().Scope() {
			s.Unsupported = "function-local named type " + t.String()
		}
		var args []types.Type
		for i := 0; i < t.TypeArgs().Len(); i++ {
			args = append(args, t.TypeArgs().At(i))
		}
		return fmt.Sprintf("T (HNamed %d %s %s) %s", s.univ(obj.Pkg()), coqStr(pkgPath(obj.Pkg())), coqStr(obj.Name()), s.list(args))
	case *types.TypeParam:
		obj := t.Obj()
		u := s.univ(obj.Pkg())
		pos := ""
		if fs := s.fset[u]; fs != nil {
			pos = fs.Position(obj.Pos()).String()
		}
		return fmt.Sprintf("T (HTypeParam %d %s) []", u, coqStr(fmt.Sprintf("%s#%d@%s", obj.Name(), t.Index(), pos)))
	case *types.Alias:
		obj := t.Obj()
		if t.TypeArgs().Len() != 0 {
			s.Unsupported = "generic alias " + t.String()
		}
		return fmt.Sprintf("T (HAlias %d %s %s) [%s]", s.univ(obj.Pkg()), coqStr(pkgPath(obj.Pkg())), coqStr(obj.Name()), s.Term(t.Rhs()))
	default:
		s.Unsupported = fmt.Sprintf("type outside the modelled fragment: %T %v", t, t)
		return "T (HBasic 0) []"
	}
}
