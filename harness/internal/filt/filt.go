// Package filt: shared machinery of the filter-family harnesses (C17, C02, C07):
//   - DExpr, the abstract Where() expression that renders both to DSL source and to the Coq model's `dexpr`,
//   - rules files with one group per filter (group i matches the probe function p<i mod W>),
//   - batched engine runs and the mapping report -> (group, probe site),
//   - dumping irconv's ir.FilterExpr as a Coq `fexpr` term.
package filt

import (
	"fmt"
	"go/ast"
	"go/importer"
	"go/parser"
	"go/token"
	"go/types"
	"os"
	"path/filepath"
	"strconv"
	"strings"

	"verif/harness/internal/hutil"

	"github.com/quasilyte/go-ruleguard/ruleguard"
	"github.com/quasilyte/go-ruleguard/ruleguard/ir"
	"github.com/quasilyte/go-ruleguard/ruleguard/irconv"
)

// ---------------------------------------------------------------- DSL expressions

type DExpr struct {
	K    string // str int paren unary binary sel call index ident
	Tok  string // go/token name for unary/binary: NOT LAND LOR EQL NEQ LSS LEQ GTR GEQ
	S    string
	Z    int64
	Path string
	Var  string
	Args []*DExpr
	X, Y *DExpr
	// Raw, when set, is the Go spelling of a constant expression (e.g. `2+3`, a named constant); Z/S hold its value
	Raw string
}

func Str(s string) *DExpr                { return &DExpr{K: "str", S: s} }
func Int(z int64) *DExpr                 { return &DExpr{K: "int", Z: z} }
func RawInt(src string, z int64) *DExpr  { return &DExpr{K: "int", Z: z, Raw: src} }
func RawStr(src string, s string) *DExpr { return &DExpr{K: "str", S: s, Raw: src} }
func Paren(x *DExpr) *DExpr              { return &DExpr{K: "paren", X: x} }
func Not(x *DExpr) *DExpr                { return &DExpr{K: "unary", Tok: "NOT", X: x} }
func Bin(tok string, x, y *DExpr) *DExpr { return &DExpr{K: "binary", Tok: tok, X: x, Y: y} }
func And(x, y *DExpr) *DExpr             { return Bin("LAND", x, y) }
func Or(x, y *DExpr) *DExpr              { return Bin("LOR", x, y) }
func Sel(path, v string) *DExpr          { return &DExpr{K: "sel", Path: path, Var: v} }
func Call(path, v string, args ...*DExpr) *DExpr {
	return &DExpr{K: "call", Path: path, Var: v, Args: args}
}
func Index(v string) *DExpr { return &DExpr{K: "index", Var: v} }
func Ident(n string) *DExpr { return &DExpr{K: "ident", S: n} }

var tokSpelling = map[string]string{"NOT": "!", "LAND": "&&", "LOR": "||", "EQL": "==", "NEQ": "!=", "LSS": "<", "LEQ": "<=", "GTR": ">", "GEQ": ">=",
	"SUB": "-", "ADD": "+"}

// path components that are method calls in the middle of a chain (dsl.go)
var midMethods = map[string]bool{"Underlying": true, "Parent": true, "File": true, "GoVersion": true}

func renderPath(path, v string) string {
	var sb strings.Builder
	sb.WriteString("m")
	if v != "" {
		sb.WriteString("[" + strconv.Quote(v) + "]")
	}
	parts := strings.Split(path, ".")
	for i, p := range parts {
		sb.WriteString("." + p)
		if i < len(parts)-1 && midMethods[p] {
			sb.WriteString("()")
		}
	}
	return sb.String()
}

// Go renders the expression as DSL source (matcher variable m).
func (d *DExpr) Go() string {
	switch d.K {
	case "str":
		if d.Raw != "" {
			return d.Raw
		}
		return strconv.Quote(d.S)
	case "int":
		if d.Raw != "" {
			return d.Raw
		}
		return strconv.FormatInt(d.Z, 10)
	case "paren":
		return "(" + d.X.Go() + ")"
	case "unary":
		return tokSpelling[d.Tok] + d.X.Go()
	case "binary":
		return d.X.Go() + " " + tokSpelling[d.Tok] + " " + d.Y.Go()
	case "sel":
		return renderPath(d.Path, d.Var)
	case "call":
		args := make([]string, len(d.Args))
		for i, a := range d.Args {
			args[i] = a.Go()
		}
		return renderPath(d.Path, d.Var) + "(" + strings.Join(args, ", ") + ")"
	case "index":
		return "m[" + strconv.Quote(d.Var) + "]"
	case "ident":
		return d.S
	}
	panic("bad DExpr kind " + d.K)
}

func CoqString(s string) string {
	for i := 0; i < len(s); i++ {
		if (s[i] < 32 && s[i] != '\n' && s[i] != '\t') || s[i] > 126 {
			panic(fmt.Sprintf("CoqString: non-printable byte in %q", s))
		}
	}
	return `"` + strings.ReplaceAll(s, `"`, `""`) + `"`
}

func CoqZ(z int64) string { return fmt.Sprintf("(%d)%%Z", z) }

// Coq renders the expression as a term of RG.Filters.FilterIR.dexpr.
func (d *DExpr) Coq() string {
	switch d.K {
	case "str":
		return "(DStr " + CoqString(d.S) + ")"
	case "int":
		return "(DInt " + CoqZ(d.Z) + ")"
	case "paren":
		return "(DParen " + d.X.Coq() + ")"
	case "unary":
		return "(DUnary " + CoqString(d.Tok) + " " + d.X.Coq() + ")"
	case "binary":
		return "(DBinary " + CoqString(d.Tok) + " " + d.X.Coq() + " " + d.Y.Coq() + ")"
	case "sel":
		return "(DSel " + CoqString(d.Path) + " " + CoqString(d.Var) + ")"
	case "call":
		args := make([]string, len(d.Args))
		for i, a := range d.Args {
			args[i] = a.Coq()
		}
		return "(DCall " + CoqString(d.Path) + " " + CoqString(d.Var) + " [" + strings.Join(args, "; ") + "])"
	case "index":
		return "(DIndex " + CoqString(d.Var) + ")"
	case "ident":
		return "(DIdent " + CoqString(d.S) + ")"
	}
	panic("bad DExpr kind " + d.K)
}

// Respelled returns the expression with every string / integer constant written in another way that has the same value --
// style 0: a raw string literal / a hexadecimal literal; 1: escape sequences / a legacy octal literal; 2: a concatenation / a
// sum; 3: the name of a constant, whose declarations are returned as lines for Rule.Locals. changed: a constant was found.
func Respelled(d *DExpr, style int) (out *DExpr, locals string, changed bool) {
	n := 0
	var sb strings.Builder
	var walk func(d *DExpr, operand bool) *DExpr
	walk = func(d *DExpr, operand bool) *DExpr { // operand: of a comparison (a Text: the constant must stay untyped)
		if d == nil {
			return nil
		}
		c := *d
		switch {
		case d.K == "str" && d.Raw == "":
			changed = true
			lit := strconv.Quote(d.S)
			switch style {
			case 0:
				if !strings.ContainsAny(d.S, "`\r") {
					lit = "`" + d.S + "`"
				}
			case 1:
				var e strings.Builder
				e.WriteByte('"')
				for i := 0; i < len(d.S); i++ {
					if i%2 == 0 {
						fmt.Fprintf(&e, "\\x%02x", d.S[i])
					} else {
						fmt.Fprintf(&e, "\\%03o", d.S[i])
					}
				}
				e.WriteByte('"')
				lit = e.String()
			case 2:
				k := len(d.S) / 2
				lit = strconv.Quote(d.S[:k]) + " + " + strconv.Quote(d.S[k:])
			default:
				name := fmt.Sprintf("kArg%d", n)
				n++
				if operand {
					fmt.Fprintf(&sb, "\tconst %s = %s\n", name, lit)
				} else {
					fmt.Fprintf(&sb, "\tconst %s string = %s\n", name, lit)
				}
				lit = name
			}
			c.Raw = lit
			return &c
		case d.K == "int" && d.Raw == "":
			changed = true
			abs, sign := d.Z, ""
			if abs < 0 {
				abs, sign = -abs, "-"
			}
			lit := strconv.FormatInt(d.Z, 10)
			switch style {
			case 0:
				lit = sign + "0x" + strconv.FormatInt(abs, 16)
			case 1:
				lit = sign + "0" + strconv.FormatInt(abs, 8)
			case 2:
				lit = fmt.Sprintf("(%d + 1)", d.Z-1)
			default:
				name := fmt.Sprintf("kArg%d", n)
				n++
				fmt.Fprintf(&sb, "\tconst %s = %s\n", name, lit)
				lit = name
			}
			c.Raw = lit
			return &c
		}
		c.X, c.Y = walk(d.X, d.K == "binary"), walk(d.Y, d.K == "binary")
		c.Args = nil
		for _, a := range d.Args {
			c.Args = append(c.Args, walk(a, false))
		}
		return &c
	}
	out = walk(d, false)
	return out, sb.String(), changed
}

// Depth of the expression tree.
func (d *DExpr) Depth() int {
	n := 0
	for _, c := range []*DExpr{d.X, d.Y} {
		if c != nil && c.Depth() > n {
			n = c.Depth()
		}
	}
	return n + 1
}

// ---------------------------------------------------------------- IR dump

func opConstName(op ir.FilterOp) string { return "Filter" + op.String() + "Op" }

// CoqFExpr renders an ir.FilterExpr as a term of RG.Filters.FilterIR.fexpr.
func CoqFExpr(f ir.FilterExpr) string {
	val := "VNone"
	switch v := f.Value.(type) {
	case nil:
	case string:
		val = "(VStr " + CoqString(v) + ")"
	case int64:
		val = "(VInt " + CoqZ(v) + ")"
	default:
		val = fmt.Sprintf("(VStr \"<unexpected %T>\")", v)
	}
	args := make([]string, len(f.Args))
	for i, a := range f.Args {
		args[i] = CoqFExpr(a)
	}
	return "(FE " + CoqString(opConstName(f.Op)) + " " + val + " [" + strings.Join(args, "; ") + "])"
}

// ConvertRules type-checks a rules file like the engine does and runs irconv on it.
func ConvertRules(src string) (f *ir.File, err error) {
	defer func() {
		if r := recover(); r != nil {
			err = fmt.Errorf("irconv panic: %v", r)
		}
	}()
	fset := token.NewFileSet()
	af, err := parser.ParseFile(fset, "rules.go", src, parser.ParseComments)
	if err != nil {
		return nil, err
	}
	info := &types.Info{Types: map[ast.Expr]types.TypeAndValue{}, Uses: map[*ast.Ident]types.Object{}, Defs: map[*ast.Ident]types.Object{}}
	conf := types.Config{Importer: importer.ForCompiler(fset, "source", nil)}
	pkg, err := conf.Check("gorules", fset, []*ast.File{af}, info)
	if err != nil {
		return nil, err
	}
	return irconv.ConvertFile(&irconv.Context{Pkg: pkg, Types: info, Fset: fset, Src: []byte(src)}, af)
}

// ---------------------------------------------------------------- rules files

type Rule struct {
	Name    string // group name
	Pattern string // gogrep pattern
	Where   *DExpr // nil: no Where()
	// WhereSrc overrides Where.Go() (for expressions outside the DExpr grammar)
	WhereSrc string
	Extra    string // appended after Report(...), e.g. `.At(m["x"])`
	Report   string // report template; default: the group name
	// Locals is placed at the top of the group function's body (local constant declarations, local macro functions)
	Locals string
	// Comment: the pattern is a regexp for m.MatchComment
	Comment bool
	// Do, when set, is the name of a func(*dsl.DoContext) that replaces Report()
	Do string
}

const RulesHeader = "package gorules\n\nimport (\n\t\"github.com/quasilyte/go-ruleguard/dsl\"\n\t\"github.com/quasilyte/go-ruleguard/dsl/types\"\n)\n\nvar _ = types.Identical\n\n"

// RulesFile renders the groups; prelude holds custom filter functions etc.
func RulesFile(prelude string, rules []Rule) string {
	var sb strings.Builder
	sb.WriteString(RulesHeader)
	sb.WriteString(prelude)
	for _, r := range rules {
		fmt.Fprintf(&sb, "\nfunc %s(m dsl.Matcher) {\n", r.Name)
		if r.Locals != "" {
			sb.WriteString(r.Locals)
		}
		if r.Comment {
			fmt.Fprintf(&sb, "\tm.MatchComment(`%s`)", r.Pattern)
		} else {
			fmt.Fprintf(&sb, "\tm.Match(`%s`)", r.Pattern)
		}
		w := r.WhereSrc
		if w == "" && r.Where != nil {
			w = r.Where.Go()
		}
		if w != "" {
			fmt.Fprintf(&sb, ".\n\t\tWhere(%s)", w)
		}
		rep := r.Report
		if rep == "" {
			rep = r.Name
		}
		if r.Do != "" {
			fmt.Fprintf(&sb, ".\n\t\tDo(%s)%s\n}\n", r.Do, r.Extra)
			continue
		}
		fmt.Fprintf(&sb, ".\n\t\tReport(`%s`)%s\n}\n", rep, r.Extra)
	}
	return sb.String()
}

// Load loads one rules file into a fresh engine.
func Load(fset *token.FileSet, src string) (e *ruleguard.Engine, err error) {
	defer func() {
		if r := recover(); r != nil {
			err = fmt.Errorf("load panic: %v", r)
		}
	}()
	return hutil.LoadEngine(fset, map[string]string{"rules.go": src}, []string{"rules.go"})
}

// LoadFiles loads several rules files, in order, into one fresh engine.
func LoadFiles(fset *token.FileSet, names []string, srcs map[string]string) (e *ruleguard.Engine, err error) {
	defer func() {
		if r := recover(); r != nil {
			err = fmt.Errorf("load panic: %v", r)
		}
	}()
	return hutil.LoadEngine(fset, srcs, names)
}

// ---------------------------------------------------------------- probe sites

// Site is one call `p<J>(args...)` in the target file.
type Site struct {
	I, J int // expression index, probe function index
	Call *ast.CallExpr
	Pos  int // byte offset of the call
}

// IndexSites finds every call of a function named p<digits> in the file; I is assigned by order of appearance per J.
func IndexSites(t *hutil.Target) (byPos map[int]*Site, byJ map[int][]*Site) {
	byPos = map[int]*Site{}
	byJ = map[int][]*Site{}
	ast.Inspect(t.File, func(n ast.Node) bool {
		ce, ok := n.(*ast.CallExpr)
		if !ok {
			return true
		}
		id, ok := ce.Fun.(*ast.Ident)
		if !ok || len(id.Name) < 2 || id.Name[0] != 'p' {
			return true
		}
		j, err := strconv.Atoi(id.Name[1:])
		if err != nil {
			return true
		}
		s := &Site{I: len(byJ[j]), J: j, Call: ce, Pos: t.Fset.Position(ce.Pos()).Offset}
		byPos[s.Pos] = s
		byJ[j] = append(byJ[j], s)
		return true
	})
	return
}

// CheckDetachedTarget parses and type-checks src under the file name `path` without making the file's bytes available
// there: with disk == nil nothing exists at path (an in-memory file: generated code, an editor buffer never saved), otherwise
// `disk` is what the file system holds (an editor overlay whose saved version differs from the analysed one). The engine
// reads file bytes from the path the FileSet names, so what it can slice and what it must print depends on `disk`.
func CheckDetachedTarget(path string, src, disk []byte) (*hutil.Target, error) {
	if err := os.MkdirAll(filepath.Dir(path), 0o755); err != nil {
		return nil, err
	}
	if disk == nil {
		if err := os.Remove(path); err != nil && !os.IsNotExist(err) {
			return nil, err
		}
	} else if err := os.WriteFile(path, disk, 0o644); err != nil {
		return nil, err
	}
	fset := token.NewFileSet()
	f, err := parser.ParseFile(fset, path, src, parser.ParseComments)
	if err != nil {
		return nil, err
	}
	info := hutil.NewInfo()
	conf := types.Config{Importer: importer.ForCompiler(fset, "source", nil), Error: func(error) {}}
	pkg, err := conf.Check(f.Name.Name, fset, []*ast.File{f}, info)
	if err != nil {
		return nil, fmt.Errorf("typecheck %s: %v", path, err)
	}
	return &hutil.Target{Fset: fset, File: f, Info: info, Pkg: pkg, Src: src, Path: path}, nil
}

// Text returns the exact source bytes of a node.
func Text(t *hutil.Target, n ast.Node) string {
	return string(t.Src[t.Fset.Position(n.Pos()).Offset:t.Fset.Position(n.End()).Offset])
}
