// Package hutil: helpers shared by the harness commands (engine set-up, running rules on source text).
package hutil

import (
	"fmt"
	"go/ast"
	"go/importer"
	"go/parser"
	"go/token"
	"go/types"
	"os"
	"path/filepath"
	"strings"

	"github.com/quasilyte/go-ruleguard/ruleguard"
)

// Report is the canonical, position-as-offset form of a ruleguard report.
type Report struct {
	Group   string `json:"group"`
	Line    int    `json:"line"`
	Pos     int    `json:"pos"`
	End     int    `json:"end"`
	Message string `json:"message"`
	HasSugg bool   `json:"has_sugg"`
	SuggFrom int   `json:"sugg_from"`
	SuggTo   int   `json:"sugg_to"`
	Sugg    string `json:"sugg"`
	NilNode bool   `json:"nil_node"`
}

// Target is a parsed and type-checked Go file.
type Target struct {
	Fset  *token.FileSet
	File  *ast.File
	Info  *types.Info
	Pkg   *types.Package
	Src   []byte
	Path  string
}

// NewInfo allocates a fully populated types.Info.
func NewInfo() *types.Info {
	return &types.Info{
		Types:      map[ast.Expr]types.TypeAndValue{},
		Defs:       map[*ast.Ident]types.Object{},
		Uses:       map[*ast.Ident]types.Object{},
		Implicits:  map[ast.Node]types.Object{},
		Selections: map[*ast.SelectorExpr]*types.Selection{},
		Scopes:     map[ast.Node]*types.Scope{},
		Instances:  map[*ast.Ident]types.Instance{},
	}
}

// CheckTarget writes src to dir/name (the engine reads file bytes from disk), parses and type-checks it.
func CheckTarget(dir, name string, src []byte) (*Target, error) {
	path := filepath.Join(dir, name)
	if err := os.MkdirAll(filepath.Dir(path), 0o755); err != nil {
		return nil, err
	}
	if err := os.WriteFile(path, src, 0o644); err != nil {
		return nil, err
	}
	fset := token.NewFileSet()
	f, err := parser.ParseFile(fset, path, src, parser.ParseComments)
	if err != nil {
		return nil, err
	}
	info := NewInfo()
	conf := types.Config{Importer: importer.ForCompiler(fset, "source", nil), Error: func(error) {}}
	pkg, err := conf.Check(f.Name.Name, fset, []*ast.File{f}, info)
	if err != nil {
		return nil, fmt.Errorf("typecheck %s: %v", name, err)
	}
	return &Target{Fset: fset, File: f, Info: info, Pkg: pkg, Src: src, Path: path}, nil
}

// CheckTargetPkg is CheckTarget with an explicit package path (what RunContext.Pkg.Path() returns).
func CheckTargetPkg(dir, name string, src []byte, pkgPath string) (*Target, error) {
	path := filepath.Join(dir, name)
	if err := os.MkdirAll(filepath.Dir(path), 0o755); err != nil {
		return nil, err
	}
	if err := os.WriteFile(path, src, 0o644); err != nil {
		return nil, err
	}
	fset := token.NewFileSet()
	f, err := parser.ParseFile(fset, path, src, parser.ParseComments)
	if err != nil {
		return nil, err
	}
	info := NewInfo()
	conf := types.Config{Importer: importer.ForCompiler(fset, "source", nil), Error: func(error) {}}
	pkg, err := conf.Check(pkgPath, fset, []*ast.File{f}, info)
	if err != nil {
		return nil, fmt.Errorf("typecheck %s: %v", name, err)
	}
	return &Target{Fset: fset, File: f, Info: info, Pkg: pkg, Src: src, Path: path}, nil
}

// LoadEngine loads rule sources (name -> text) into a fresh engine.
func LoadEngine(fset *token.FileSet, rules map[string]string, order []string) (*ruleguard.Engine, error) {
	e := ruleguard.NewEngine()
	ctx := &ruleguard.LoadContext{Fset: fset}
	for _, name := range order {
		if err := e.Load(ctx, name, strings.NewReader(rules[name])); err != nil {
			return nil, err
		}
	}
	return e, nil
}

// Run runs the engine over the target and returns canonical reports; a panic is returned as an error string.
func Run(e *ruleguard.Engine, t *Target, truncateLen int, goVersion string, state *ruleguard.RunnerState) (reports []Report, panicMsg string) {
	defer func() {
		if r := recover(); r != nil {
			panicMsg = fmt.Sprint(r)
		}
	}()
	ctx := &ruleguard.RunContext{
		Pkg:         t.Pkg,
		Types:       t.Info,
		Sizes:       types.SizesFor("gc", "amd64"),
		Fset:        t.Fset,
		TruncateLen: truncateLen,
		State:       state,
		Report: func(data *ruleguard.ReportData) {
			r := Report{Message: data.Message, Line: data.RuleInfo.Line}
			if data.RuleInfo.Group != nil {
				r.Group = data.RuleInfo.Group.Name
			}
			if data.Node == nil {
				r.NilNode = true
			} else {
				r.Pos = t.Fset.Position(data.Node.Pos()).Offset
				r.End = t.Fset.Position(data.Node.End()).Offset
			}
			if data.Suggestion != nil {
				r.HasSugg = true
				r.SuggFrom = t.Fset.Position(data.Suggestion.From).Offset
				r.SuggTo = t.Fset.Position(data.Suggestion.To).Offset
				r.Sugg = string(data.Suggestion.Replacement)
			}
			reports = append(reports, r)
		},
	}
	if goVersion != "" {
		v, err := ruleguard.ParseGoVersion(goVersion)
		if err != nil {
			return nil, "bad go version: " + err.Error()
		}
		ctx.GoVersion = v
	}
	if err := e.Run(ctx, t.File); err != nil {
		return reports, "run error: " + err.Error()
	}
	return reports, ""
}
