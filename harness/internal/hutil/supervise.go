package hutil

import (
	"bufio"
	"bytes"
	"encoding/json"
	"fmt"
	"io"
	"os"
	"os/exec"
	"runtime/debug"
	"strconv"
	"strings"
	"time"
)

// MaxChildStack caps the goroutine stacks of a supervised child: unbounded recursion dies quickly with a fatal
// "stack overflow" instead of growing to the 1 GB default first.
const MaxChildStack = 96 << 20

// ChildInit is called first thing by the child process.
func ChildInit() { debug.SetMaxStack(MaxChildStack) }

// Supervise runs the calling binary again as a child (args + "-child -skip N") and copies the child's output lines to
// stdout.  The child announces every case before it runs it with a line {"begin":<id>,...}; announcements are not copied.
// If the child dies (a fatal runtime error no recover() catches: stack overflow, out of memory) or stays silent for
// 60 s in two runs, the announced case is reported through crashLine(announcement, "crash"|"timeout", detail) and the
// child is restarted behind that case.  Returns the exit code for the supervisor.
func Supervise(args []string, crashLine func(begin []byte, kind, detail string) []byte) int {
	out := bufio.NewWriter(os.Stdout)
	defer out.Flush()
	skip := 0
	retried := map[int]bool{}
	for restarts := 0; restarts < 250; restarts++ {
		cmd := exec.Command(os.Args[0], append(append([]string{}, args...), "-child", "-skip", strconv.Itoa(skip))...)
		cmd.Env = os.Environ()
		pipe, err := cmd.StdoutPipe()
		if err != nil {
			fmt.Fprintln(os.Stderr, err)
			return 3
		}
		var stderr bytes.Buffer
		cmd.Stderr = &limitedWriter{w: &stderr, n: 1 << 16}
		if err := cmd.Start(); err != nil {
			fmt.Fprintln(os.Stderr, err)
			return 3
		}
		lines := make(chan string, 64)
		go func() {
			rd := bufio.NewReaderSize(pipe, 1<<20)
			for {
				line, err := rd.ReadString('\n')
				if line != "" {
					lines <- line
				}
				if err != nil {
					close(lines)
					return
				}
			}
		}()
		var cur []byte
		curID := 0
		silent := false
	loop:
		for {
			select {
			case line, ok := <-lines:
				if !ok {
					break loop
				}
				if strings.HasPrefix(line, `{"begin":`) {
					var b struct {
						Begin int `json:"begin"`
					}
					if json.Unmarshal([]byte(line), &b) == nil {
						cur, curID = []byte(line), b.Begin
					}
					continue
				}
				cur = nil
				out.WriteString(line)
			case <-time.After(60 * time.Second):
				silent = true
				cmd.Process.Kill()
				break loop
			}
		}
		if silent {
			for range lines {
			}
		}
		werr := cmd.Wait()
		if werr == nil && !silent {
			return 0
		}
		if cur == nil {
			fmt.Fprintf(os.Stderr, "supervised child failed outside any case: %v\n%s\n", werr, stderr.String())
			return 3
		}
		if silent && !retried[curID] {
			// a stall of the machine (the source importer runs `go list`) looks the same: run the case once more
			retried[curID] = true
			skip = curID - 1
			continue
		}
		if silent {
			out.Write(crashLine(cur, "timeout", "no answer within 60 s, twice; the process was killed"))
		} else {
			out.Write(crashLine(cur, "crash", crashSummary(werr, stderr.String())))
		}
		out.WriteString("\n")
		skip = curID
	}
	// enough dead children: the remaining cases are not run (the check has its failing inputs)
	fmt.Fprintln(os.Stderr, "too many restarts of the supervised child, the remaining cases were not run")
	return 0
}

type limitedWriter struct {
	w io.Writer
	n int
}

func (l *limitedWriter) Write(p []byte) (int, error) {
	if l.n > 0 {
		q := p
		if len(q) > l.n {
			q = q[:l.n]
		}
		l.w.Write(q)
		l.n -= len(q)
	}
	return len(p), nil
}

// the first lines of the runtime's report and the first frames inside the repository
func crashSummary(werr error, stderr string) string {
	var keep []string
	for _, ln := range strings.Split(stderr, "\n") {
		t := strings.TrimSpace(ln)
		if strings.HasPrefix(t, "fatal error:") || strings.HasPrefix(t, "runtime: goroutine stack exceeds") || strings.HasPrefix(t, "panic:") ||
			(strings.HasPrefix(t, "github.com/quasilyte/go-ruleguard/") && len(keep) < 8) {
			if i := strings.Index(t, "(0x"); i > 0 {
				t = t[:i]
			}
			if i := strings.Index(t, "({0x"); i > 0 {
				t = t[:i]
			}
			keep = append(keep, t)
		}
	}
	return fmt.Sprintf("%v: %s", werr, strings.Join(keep, " | "))
}
