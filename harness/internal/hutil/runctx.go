package hutil

import (
	"fmt"
	"go/types"

	"github.com/quasilyte/go-ruleguard/ruleguard"
)

// CtxRunner keeps ONE RunContext (and optionally one RunnerState) alive across several runs, the way a
// long-lived linter driver does; only the fields the caller changes between runs change.
type CtxRunner struct {
	Ctx     *ruleguard.RunContext
	t       *Target
	reports []Report
}

// NewCtxRunner builds the shared context for target t.
func NewCtxRunner(t *Target, state *ruleguard.RunnerState) *CtxRunner {
	r := &CtxRunner{t: t}
	r.Ctx = &ruleguard.RunContext{
		Pkg:   t.Pkg,
		Types: t.Info,
		Sizes: types.SizesFor("gc", "amd64"),
		Fset:  t.Fset,
		State: state,
		Report: func(data *ruleguard.ReportData) {
			rep := Report{Message: data.Message, Line: data.RuleInfo.Line}
			if data.RuleInfo.Group != nil {
				rep.Group = data.RuleInfo.Group.Name
			}
			if data.Node == nil {
				rep.NilNode = true
			} else {
				rep.Pos = t.Fset.Position(data.Node.Pos()).Offset
				rep.End = t.Fset.Position(data.Node.End()).Offset
			}
			if data.Suggestion != nil {
				rep.HasSugg = true
				rep.SuggFrom = t.Fset.Position(data.Suggestion.From).Offset
				rep.SuggTo = t.Fset.Position(data.Suggestion.To).Offset
				rep.Sugg = string(data.Suggestion.Replacement)
			}
			r.reports = append(r.reports, rep)
		},
	}
	return r
}

// Run runs the engine once more with the same context object.
func (r *CtxRunner) Run(e *ruleguard.Engine) (reports []Report, panicMsg string) {
	defer func() {
		if p := recover(); p != nil {
			panicMsg = fmt.Sprint(p)
		}
	}()
	r.reports = nil
	if err := e.Run(r.Ctx, r.t.File); err != nil {
		return r.reports, "run error: " + err.Error()
	}
	return r.reports, ""
}
