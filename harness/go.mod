module verif/harness

go 1.22.0

require (
	github.com/quasilyte/go-ruleguard v0.0.0
	github.com/quasilyte/go-ruleguard/dsl v0.3.22
	github.com/quasilyte/gogrep v0.5.0
	golang.org/x/tools v0.30.0
)

replace github.com/quasilyte/go-ruleguard => /repo
