module verif/harness

go 1.22.0

require (
	example.com/wb1 v0.0.0
	example.com/wb2 v0.0.0
	example.com/wb3 v0.0.0
	example.com/wb4 v0.0.0
	example.com/a/foo v0.0.0
	example.com/b/foo v0.0.0
	example.com/c20/lib v0.0.0
	example.com/c20bundle v0.0.0
	gopkg.in/yaml.v3 v3.0.0
	example.com/chk v0.0.0
	example.com/c19b v0.0.0
	example.com/c03b v0.0.0
	example.com/io v0.0.0
	example.com/rb1 v0.0.0
	example.com/rb2 v0.0.0
	github.com/quasilyte/go-ruleguard v0.0.0
	github.com/quasilyte/go-ruleguard/dsl v0.3.22
	github.com/quasilyte/gogrep v0.5.0
	github.com/quasilyte/stdinfo v0.0.0-20220114132959-f7386bf02567
	golang.org/x/tools v0.30.0
)

require (
	github.com/go-toolsmith/astcopy v1.0.2 // indirect
	github.com/go-toolsmith/astequal v1.0.3 // indirect
	golang.org/x/exp/typeparams v0.0.0-20240213143201-ec583247a57a // indirect
)

replace github.com/quasilyte/go-ruleguard => /repo

// rule bundles imported by the C13 load-history files
replace example.com/rb1 => ./fake/rb1

replace example.com/rb2 => ./fake/rb2

// third-party packages for the C20 import-table scenarios (base names collide with each other and with the stdlib)
replace example.com/io => ./fake/c20io

replace example.com/a/foo => ./fake/c20afoo

replace example.com/b/foo => ./fake/c20bfoo

replace example.com/c20/lib => ./fake/c20lib

// rule bundle whose groups have Import() sets of their own (C20)
replace example.com/c20bundle => ./fake/c20bundle

// a package whose import path has a dot in its last element (C20: fully-qualified names are split at their last dot)
replace gopkg.in/yaml.v3 => ./fake/c20yaml

// third-party package for the C05 generated rules files
replace example.com/chk => ./fake/c05chk

// rule bundles imported by the C01 load histories (wb1: last file has only comment rules, wb4: no syntax rules at all)
replace example.com/wb1 => ./fake/wb1

replace example.com/wb2 => ./fake/wb2

replace example.com/wb3 => ./fake/wb3

replace example.com/wb4 => ./fake/wb4

// rule bundle for the C19 scenarios
replace example.com/c19b => ./fake/c19bundle

// rule bundle with At() / Suggest() rules for the C03 engine-level runs
replace example.com/c03b => ./fake/c03bundle
