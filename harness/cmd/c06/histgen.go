package main

// stream "hist": several Loads on ONE engine. Earlier Loads fail in every way a name can fail to resolve (every resolver of the
// load path: the engine-wide type lookup behind Type.Implements / Type.HasMethod, the group's import table, type strings, the rules
// file's own imports, bundle imports, custom filter functions and the functions they call) or in one of the ordinary ways (syntax,
// types, unbound variable, bad pattern); later Loads use the same machinery with names that resolve. Every Load must return: nil or
// a located error. A failed Load that leaves something of the engine behind (a lock, a half-made table entry) shows up as a later
// Load that hangs or panics.

import (
	"fmt"
	"math/rand"
	"strings"
	"time"

	"github.com/quasilyte/go-ruleguard/ruleguard"
)

type histFile struct {
	name string // what it exercises
	ok   bool   // expected to load
	body string // declarations; GROUP is replaced by a fresh group name, FLT by a fresh function name
	imp  string // extra imports of the rules file
}

func whereFile(name string, ok bool, where string) histFile {
	return histFile{name: name, ok: ok, body: "func GROUP(m dsl.Matcher) {\n\tm.Match(`$x + $y`).\n\t\tWhere(" + where + ").\n\t\tReport(`msg`)\n}\n"}
}

// the resolvers and the ways their argument fails / resolves
var histPool = func() []histFile {
	var out []histFile
	add := func(f histFile) { out = append(out, f) }
	// Type.Implements: engine-wide type lookup (FindType), then the import table + importer
	for _, a := range []struct {
		arg string
		ok  bool
	}{
		{"io.NoSuchInterface", false}, // importable package, no such name
		{"io.nosuch", false},          //
		{"nosuch/pkg.T", false},       // package that cannot be imported
		{"nosuchpkg.T", false},        // unqualified unknown package
		{"NoDot", false},              // not a qualified name
		{"io.EOF", true},              // a variable whose type is an interface: the lookup answers with the type of any object
		{"io.Copy", false},            // a function
		{"io.SeekStart", false},       // a constant
		{"io.PipeReader", false},      // a struct type
		{"io.", false},                //
		{".Reader", false},            //
		{"io.Reader.Read", false},     // a method
		{"encoding/nosuch.Marshaler", false},
		{"golang.org/x/nosuch.T", false},
		{"io.Reader", true},
		{"io.Writer", true},
		{"io.ReadWriteCloser", true},
		{"error", true},
		{"fmt.Stringer", true},
		{"encoding.TextMarshaler", true},
		{"sort.Interface", true},
	} {
		add(whereFile("Implements("+a.arg+")", a.ok, "m[`x`].Type.Implements(`"+a.arg+"`)"))
	}
	// Type.HasMethod: pkg.Type.Method through the same lookup
	for _, a := range []struct {
		arg string
		ok  bool
	}{
		{"io.NoSuchInterface.Write", false},
		{"nosuch/pkg.T.M", false},
		{"nosuchpkg.T.M", false},
		{"io.Reader.NoSuchMethod", false},
		{"io.EOF.Error", true},
		{"io.PipeReader.Read", false},
		{"io.Reader", false},
		{"Read", false},
		{"io.Reader.Read()", false},
		{"io.Reader.Read", true},
		{"io.Writer.Write", true},
		{"fmt.Stringer.String", true},
		{"sort.Interface.Less", true},
	} {
		add(whereFile("HasMethod("+a.arg+")", a.ok, "m[`x`].Type.HasMethod(`"+a.arg+"`)"))
	}
	// the group's import table: Import() of a path, then a type pattern / interface that names it
	imp := func(name string, ok bool, path, where string) {
		add(histFile{name: name, ok: ok, body: "func GROUP(m dsl.Matcher) {\n\tm.Import(`" + path + "`)\n\tm.Match(`$x + $y`).\n\t\tWhere(" + where + ").\n\t\tReport(`msg`)\n}\n"})
	}
	imp("Import(nosuch/pkg)+Type.Is", true, "nosuch/pkg", "m[`x`].Type.Is(`pkg.T`)")
	imp("Import(nosuch/pkg)+Implements", false, "nosuch/pkg", "m[`x`].Type.Implements(`pkg.T`)")
	imp("Import(nosuch/pkg)+HasMethod", false, "nosuch/pkg", "m[`x`].Type.HasMethod(`pkg.T.M`)")
	imp("Import(io)+Implements(io.Nosuch)", false, "io", "m[`x`].Type.Implements(`io.Nosuch`)")
	imp("Import(text/template)+Implements(template.Nosuch)", false, "text/template", "m[`x`].Type.Implements(`template.Nosuch`)")
	imp("Import(io)+Type.Is(io.Reader)", true, "io", "m[`x`].Type.Is(`io.Reader`)")
	imp("Import(io)+Implements(io.Reader)", true, "io", "m[`x`].Type.Implements(`io.Reader`)")
	imp("Import(io/fs)+Implements(fs.FileInfo)", true, "io/fs", "m[`x`].Type.Implements(`fs.FileInfo`)")
	imp("Import(io/fs)+HasMethod(fs.File.Close)", true, "io/fs", "m[`x`].Type.HasMethod(`fs.File.Close`)")
	// type strings
	add(whereFile("Type.Is(nosuch.T)", false, "m[`x`].Type.Is(`nosuch.T`)"))
	add(whereFile("Type.Is(io.Reader)", true, "m[`x`].Type.Is(`io.Reader`)"))
	add(whereFile("ConvertibleTo(nosuch.T)", false, "m[`x`].Type.ConvertibleTo(`nosuch.T`)"))
	add(whereFile("AssignableTo(io.Reader)", false, "m[`x`].Type.AssignableTo(`io.Reader`)"))
	add(whereFile("ConvertibleTo([]byte)", true, "m[`x`].Type.ConvertibleTo(`[]byte`)"))
	add(whereFile("SinkType.Is(nosuch.T)", false, "m[`$$`].SinkType.Is(`nosuch.T`)"))
	add(whereFile("SinkType.Is(io.Reader)", true, "m[`$$`].SinkType.Is(`io.Reader`)"))
	// the rules file's own imports and bundles
	add(histFile{name: "import nosuch/pkg", ok: false, imp: "import _ \"nosuch/pkg\"\n", body: "func GROUP(m dsl.Matcher) { m.Match(`$x + $y`).Report(`msg`) }\n"})
	add(histFile{name: "import nosuch bundle", ok: false, imp: "import nb \"nosuch/bundle\"\n", body: "func init() { dsl.ImportRules(`p`, nb.Bundle) }\nfunc GROUP(m dsl.Matcher) { m.Match(`$x + $y`).Report(`msg`) }\n"})
	add(histFile{name: "ImportRules of a non-bundle", ok: false, body: "var b dsl.Bundle\nfunc init() { dsl.ImportRules(`p`, b) }\nfunc GROUP(m dsl.Matcher) { m.Match(`$x + $y`).Report(`msg`) }\n"})
	add(histFile{name: "import strings (unused value)", ok: true, imp: "import \"strings\"\n", body: "var _ = strings.ToUpper\nfunc GROUP(m dsl.Matcher) { m.Match(`$x + $y`).Report(`msg`) }\n"})
	// custom filter functions and what they call
	flt := func(name string, ok bool, imports, body string) {
		add(histFile{name: name, ok: ok, imp: imports, body: "func FLT(ctx *dsl.VarFilterContext) bool { " + body + " }\nfunc GROUP(m dsl.Matcher) {\n\tm.Match(`$x + $y`).\n\t\tWhere(m[`x`].Filter(FLT)).\n\t\tReport(`msg`)\n}\n"})
	}
	flt("Filter: unknown function", false, "", "return nosuchFunc(ctx)")
	flt("Filter: unknown package function", false, "import \"strings\"\n", "return strings.NoSuch(`a`)")
	flt("Filter: function the bytecode has no binding for", false, "import \"os\"\n", "return os.Getenv(`a`) == ``")
	flt("Filter: GetInterface(io.NoSuch)", true, "", "return ctx.GetInterface(`io.NoSuch`) != nil") // resolved at run time
	flt("Filter: GetType(nosuch.T)", true, "", "return ctx.GetType(`nosuch.T`) != nil")
	flt("Filter: strings.HasPrefix", true, "import \"strings\"\n", "return strings.HasPrefix(`ab`, `a`)")
	flt("Filter: GetInterface(io.Reader)", true, "import \"go/types\"\n", "return types.Implements(ctx.Type, ctx.GetInterface(`io.Reader`))")
	add(histFile{name: "Filter(undeclared)", ok: false, body: "func GROUP(m dsl.Matcher) { m.Match(`$x + $y`).Where(m[`x`].Filter(nosuchFilter)).Report(`msg`) }\n"})
	// Do functions
	add(histFile{name: "Do: unknown function", ok: false, body: "func FLT(ctx *dsl.DoContext) { ctx.SetReport(nosuch()) }\nfunc GROUP(m dsl.Matcher) { m.Match(`$x + $y`).Do(FLT) }\n"})
	add(histFile{name: "Do: ok", ok: true, body: "func FLT(ctx *dsl.DoContext) { ctx.SetReport(ctx.Var(`x`).Text()) }\nfunc GROUP(m dsl.Matcher) { m.Match(`$x + $y`).Do(FLT) }\n"})
	// ordinary failures
	add(histFile{name: "syntax error", ok: false, body: "func GROUP(m dsl.Matcher) { m.Match(`$x + $y`).Report(`msg` }\n"})
	add(histFile{name: "type error", ok: false, body: "func GROUP(m dsl.Matcher) { m.Match(1).Report(`msg`) }\n"})
	add(whereFile("unbound variable", false, "m[`nosuch`].Pure"))
	add(histFile{name: "bad pattern", ok: false, body: "func GROUP(m dsl.Matcher) { m.Match(`$x +`).Report(`msg`) }\n"})
	add(histFile{name: "bad regexp", ok: false, body: "func GROUP(m dsl.Matcher) { m.Match(`$x + $y`).Where(m[`x`].Text.Matches(`(`)).Report(`msg`) }\n"})
	add(histFile{name: "Contains: bad pattern", ok: false, body: "func GROUP(m dsl.Matcher) { m.Match(`$x + $y`).Where(m[`x`].Contains(`$y +`)).Report(`msg`) }\n"})
	add(histFile{name: "plain rule", ok: true, body: "func GROUP(m dsl.Matcher) { m.Match(`$x + $y`).Where(m[`x`].Pure).Report(`msg`) }\n"})
	return out
}()

func (f histFile) render(k int) string {
	b := strings.ReplaceAll(strings.ReplaceAll(f.body, "GROUP", fmt.Sprintf("g%d", k)), "FLT", fmt.Sprintf("flt%d", k))
	return "package gorules\n\nimport \"github.com/quasilyte/go-ruleguard/dsl\"\n" + f.imp + "\n" + b
}

type HistStep struct {
	What string `json:"what"`
	Want bool   `json:"want_ok"`
	Obs  Obs    `json:"obs"`
}

// histChain: how many failing files a systematic history holds (each followed by a valid file that goes through the same lookups)
const histChain = 6

func histSplit() (bad, good []histFile) {
	for _, f := range histPool {
		if f.ok {
			good = append(good, f)
		} else {
			bad = append(bad, f)
		}
	}
	return
}

// nSystematic: the number of systematic histories; together they contain every failing file of the pool
func nSystematic() int {
	bad, _ := histSplit()
	return (len(bad) + histChain - 1) / histChain
}

// genHistory: the i-th systematic history is a chain on one engine: failing file, valid file(s) that use the engine-wide lookups,
// next failing file, ... (a Load that hangs ends the chain: what follows is not run); the others are random, 2..5 files, with at
// least one failing file before the last, valid, one
func genHistory(rng *rand.Rand, i int) []histFile {
	bad, good := histSplit()
	var lookups []histFile
	for _, f := range good {
		if strings.HasPrefix(f.name, "Implements(") || strings.HasPrefix(f.name, "HasMethod(") || strings.HasPrefix(f.name, "Import(") {
			lookups = append(lookups, f)
		}
	}
	if i < nSystematic() {
		var h []histFile
		for k := i * histChain; k < (i+1)*histChain && k < len(bad); k++ {
			h = append(h, bad[k])
			if k%3 == 2 {
				h = append(h, bad[rng.Intn(len(bad))]) // two failures in a row
			}
			h = append(h, lookups[rng.Intn(len(lookups))])
			if k%2 == 0 {
				h = append(h, good[rng.Intn(len(good))])
			}
		}
		return h
	}
	n := 2 + rng.Intn(4)
	var h []histFile
	for k := 0; k < n-1; k++ {
		if rng.Intn(3) != 0 {
			h = append(h, bad[rng.Intn(len(bad))])
		} else {
			h = append(h, good[rng.Intn(len(good))])
		}
	}
	if rng.Intn(8) != 0 {
		h[rng.Intn(len(h))] = bad[rng.Intn(len(bad))]
	}
	if rng.Intn(2) == 0 {
		return append(h, lookups[rng.Intn(len(lookups))])
	}
	return append(h, good[rng.Intn(len(good))])
}

// runHistory loads the files one after the other into one engine. A Load that does not return within the limit ends the history
// (the engine cannot be used any more): that step and the remaining ones are reported as timeout / not run.
func runHistory(fsetOf func() *ruleguard.LoadContext, files []string, limit time.Duration) []Obs {
	e := ruleguard.NewEngine()
	out := make([]Obs, 0, len(files))
	for _, src := range files {
		ch := make(chan Obs, 1)
		go func(src string) {
			var o Obs
			defer func() {
				if p := recover(); p != nil {
					o = Obs{Kind: "panic", Err: fmt.Sprint(p)}
				}
				ch <- o
			}()
			err := e.Load(fsetOf(), "rules.go", strings.NewReader(src))
			if err != nil {
				o = Obs{Kind: "error", Err: err.Error(), Located: namesLine(err.Error(), []byte(src))}
			} else {
				o = Obs{Kind: "ok"}
			}
		}(src)
		select {
		case o := <-ch:
			out = append(out, o)
		case <-time.After(limit):
			out = append(out, Obs{Kind: "timeout"})
			return out
		}
	}
	return out
}

func histHasTimeout(obs []Obs) bool {
	for _, o := range obs {
		if o.Kind == "timeout" {
			return true
		}
	}
	return false
}

func histFlaky(obs []Obs) bool {
	for _, o := range obs {
		if strings.Contains(o.Err, importFlake) {
			return true
		}
	}
	return false
}
