package main

// stream "fn": what may stand INSIDE the functions of a rules file. Every declared function that is not a rule group is compiled
// by the bytecode compiler (custom filters, Do handlers, helpers nobody calls, methods); the body of a local helper of a rule
// group is a template irconv copies, rewrites and converts; the argument of Where() is converted directly. The catalogues below
// list the statement and expression forms of the Go grammar (every ast.Stmt / ast.Expr node kind, with the variants a compiler
// distinguishes: blank / several / redeclared left-hand sides, init statements, labels, every kind of for / switch / select,
// closures, method values, conversions, composite literals, builtins, calls of every kind of callee ...), valid Go nearly always,
// mostly NOT supported by the engine. No model predicts the verdict: Load must return nil or an error that names a line of the
// construct (the declaration the snippet stands in), never crash.
//
// A catalogue entry is put into one host per run (the host rotates with the seed); the catalogue itself does not depend on the seed.

import (
	"fmt"
	"math/rand"
	"regexp"
	"strings"
)

var reV = regexp.MustCompile(`\bV\b`)

// a generated file with the line span of the construct under test: an error must name a line lo..hi
type spanFile struct {
	what   string
	src    string
	lo, hi int
	debug  string // Load is asked for the disassembly of this function
}

type fileBuilder struct{ lines []string }

func (b *fileBuilder) add(s string) (lo, hi int) {
	lo = len(b.lines) + 1
	b.lines = append(b.lines, strings.Split(strings.TrimRight(s, "\n"), "\n")...)
	return lo, len(b.lines)
}
func (b *fileBuilder) String() string { return strings.Join(b.lines, "\n") + "\n" }

type snippet struct {
	pre  string // package-level declarations the snippet needs (part of the construct)
	body string // statements (stmt catalogue) or a bool expression (expr catalogue)
	imp  string // extra import ("fmt", "strings", "strconv": each costs a type check from source, used sparingly)
	only string // "" any host; "b": the bytecode hosts; "q" / "qf" / "qd": those with a ctx / the filter / the Do handler; "d": the DSL hosts (mentions m)
}

// ---- statements. In scope: n int, s string, b bool (locals or parameters, depending on the host) and ctx in bytecode hosts.
var stmtCatalogue = []snippet{
	// assignments
	{body: "_ = n"}, {body: "_ = s"}, {body: "_ = b"}, {body: "_, _ = n, s"}, {body: "_ = 1"}, {body: "_ = \"a\""}, {body: "_ = n + 1"},
	{body: "n = 2"}, {body: "n = n"}, {body: "s = \"b\""}, {body: "b = !b"}, {body: "n, s = 2, \"b\""}, {body: "n, _ = 1, 2"}, {body: "_, n = 1, 2"},
	{body: "(n) = 2"}, {body: "n, n = 1, 2"},
	{body: "n += 1"}, {body: "n -= 1"}, {body: "n *= 2"}, {body: "n /= 2"}, {body: "n %= 2"}, {body: "n <<= 1"}, {body: "n >>= 1"}, {body: "n &= 1"},
	{body: "n |= 1"}, {body: "n ^= 1"}, {body: "n &^= 1"}, {body: "s += \"x\""},
	{body: "x := n; n = x"}, {body: "x := 2; n = x"}, {body: "x, y := n, s; n, s = x, y"}, {body: "x, _ := n, s; n = x"}, {body: "_, x := n, s; s = x"},
	{body: "x := n; x, y := 2, 3; n = x + y"}, {body: "x := s; s = x + x"}, {body: "x := b; b = x"}, {body: "x := 1.5; b = x > 1"},
	{body: "x := 'a'; b = x == 'a'"}, {body: "x := interface{}(n); b = x != nil"}, {body: "x := &n; *x = 2"}, {body: "x := &n; b = x != nil"},
	{body: "x := []int{1}; x[0] = 2; n = x[0]"}, {body: "x := map[string]int{}; x[\"a\"] = 1; n = x[\"a\"]"},
	{body: "x := struct{ a int }{}; x.a = 1; n = x.a"}, {body: "x := [2]int{}; x[1] = n; n = x[0]"},
	{body: "x := n; { x := 2; n = x }; n = x"}, {body: "n := 2; b = n == 2"}, {body: "s := s; b = s == \"\""},
	// declarations
	{body: "var x int; n = x"}, {body: "var x = 2; n = x"}, {body: "var x, y = 1, \"a\"; n, s = x, y"}, {body: "var (\n\tx int\n\ty string\n); n, s = x, y"},
	{body: "var x int = n; n = x"}, {body: "var _ = n"}, {body: "var _ int"}, {body: "const k = 2; n = k"}, {body: "const k, l = 2, \"a\"; n, s = k, l"},
	{body: "const (\n\tk = iota\n\tl\n); n = l"}, {body: "type T2 int; var x T2; b = x == 0"}, {body: "type T2 = int; var x T2; n = x"},
	{body: "type T2 struct{ a int }; x := T2{a: 1}; n = x.a"}, {body: "var x interface{} = n; b = x == nil"}, {body: "var p *int; b = p == nil"},
	{body: "var f func(); b = f == nil"}, {body: "var e error; b = e == nil"}, {body: "var x [2]string; s = x[0]"}, {body: "var ch chan int; b = ch == nil"},
	// inc / dec
	{body: "n++"}, {body: "n--"}, {body: "(n)++"}, {body: "x := []int{1}; x[0]++"}, {body: "p := &n; *p++"}, {body: "x := 1; x++; n = x"}, {body: "x := 1; x--; n = x"},
	// expression statements
	{body: "println(n)"}, {body: "println(s)"}, {body: "println(b)"}, {body: "println()"}, {body: "println(n, s)"}, {body: "print(n)"}, {body: "panic(\"x\")"},
	{body: "panic(n)"}, {body: "recover()"}, {body: "copy([]int{1}, []int{2})"}, {body: "delete(map[string]int{}, s)"}, {body: "clear(map[string]int{})"},
	{body: "x := []int{1}; clear(x)"}, {body: "new(int)"}, {body: "var ch chan int; close(ch)"}, {body: "func() {}()"}, {body: "func(a int) { n = a }(1)"}, {body: "(func() {})()"}, {body: "println(1)"}, {body: "println(\"a\")"},
	{body: "println(n + 1)"}, {body: "println(len(s))"}, {body: "(println(n))"},
	{pre: "func vfn() {}", body: "vfn()"}, {pre: "func vfn(n int) {}", body: "vfn(n)"}, {pre: "func ifn() int { return 1 }", body: "ifn()"},
	{pre: "func vfn(n int, s string) {}", body: "vfn(n, s)"}, {pre: "func vfn(xs ...int) {}", body: "vfn(1, 2)"}, {pre: "func vfn(xs ...int) {}", body: "vfn()"},
	{pre: "func two() (int, string) { return 1, \"a\" }", body: "n, s = two()"}, {pre: "func two() (int, string) { return 1, \"a\" }", body: "x, y := two(); n, s = x, y"},
	{pre: "func two() (int, string) { return 1, \"a\" }\nfunc vfn(n int, s string) {}", body: "vfn(two())"},
	{pre: "func two() (int, string) { return 1, \"a\" }", body: "two()"}, {pre: "func two() (int, string) { return 1, \"a\" }", body: "_, _ = two()"},
	{pre: "type T struct{ a int }\nfunc (T) vm() {}", body: "T{}.vm()"}, {pre: "type T struct{ a int }\nfunc (t *T) vm() {}", body: "t := &T{}; t.vm()"},
	{pre: "type T struct{ a int }\nfunc (t T) get() int { return t.a }", body: "n = T{a: 1}.get()"},
	{pre: "type T struct{ a int }\nfunc (T) vm() {}", body: "f := T{}.vm; f()"}, {pre: "type T struct{ a int }\nfunc (T) vm() {}", body: "f := T.vm; f(T{})"},
	{pre: "type T struct{ a int }\nfunc (T) vm() {}", body: "(*T).vm(&T{})"},
	{pre: "func id[E any](x E) E { return x }", body: "n = id(n)"}, {pre: "func id[E any](x E) E { return x }", body: "n = id[int](n)"},
	{pre: "func id[E any](x E) E { return x }", body: "f := id[string]; s = f(s)"}, {pre: "type G[E any] struct{ v E }", body: "x := G[int]{v: 1}; n = x.v"},
	{pre: "type G[E any] struct{ v E }\nfunc (g G[E]) get() E { return g.v }", body: "n = G[int]{v: 1}.get()"},
	{pre: "func rec(n int) int { if n > 0 { return rec(n - 1) }; return 0 }", body: "n = rec(n)"},
	{pre: "func ra(n int) int { return rb(n) }\nfunc rb(n int) int { return ra(n) }", body: "n = ra(n)"},
	{pre: "var gv int", body: "gv = n"}, {pre: "var gv int", body: "n = gv"}, {pre: "var gv = []int{1}", body: "n = gv[0]"}, {pre: "const gc = 3", body: "n = gc"},
	{pre: "type E int\nconst ea E = 1", body: "b = ea == 1"}, {pre: "type E int\nfunc (e E) String() string { return \"e\" }", body: "s = E(1).String()"},
	{pre: "type S string", body: "x := S(s); s = string(x)"}, {pre: "type I interface{ M() }", body: "var x I; b = x == nil"},
	{pre: "var fv = func(n int) int { return n }", body: "n = fv(n)"},
	// go / defer
	{body: "go println(n)"}, {body: "defer println(n)"}, {body: "defer func() {}()"}, {body: "go func() {}()"}, {body: "defer func() { recover() }()"},
	// if
	{body: "if n > 0 { }"}, {body: "if n > 0 { n = 1 }"}, {body: "if b { n = 1 } else { n = 2 }"}, {body: "if b { n = 1 } else if n > 1 { n = 2 } else { n = 3 }"},
	{body: "if x := n; x > 0 { n = x }"}, {body: "if x := n; x > 0 { n = x } else { n = -x }"}, {body: "if _ = n; b { }"}, {body: "if n++; b { }"},
	{body: "if n = 2; b { }"}, {body: "if x, y := n, s; x > 0 { s = y }"}, {body: "if println(n); b { }"}, {body: "if (b) { }"}, {body: "if true { n = 1 }"},
	{body: "if false { n = 1 } else { n = 2 }"}, {body: "if !b { return b }"}, {body: "if b { if n > 0 { n = 1 } }"}, {body: "if b && n > 0 || s == \"a\" { n = 1 }"},
	{body: "if x := s; x != \"\" { s = x }"}, {body: "if var1 := n; var1 > 0 { if var2 := var1; var2 > 0 { n = var2 } }"},
	// for
	{body: "for { break }"}, {body: "for n < 3 { n++ }"}, {body: "for i := 0; i < 3; i++ { n += i }"}, {body: "for ; n < 3; { n++ }"}, {body: "for ; ; n++ { break }"},
	{body: "for i := 0; ; { n = i; break }"}, {body: "for i := 0; i < 3; { i++ }"}, {body: "for ; n < 3; n++ { }"}, {body: "for { if b { break }; n++ }"},
	{body: "for n < 3 { n++; continue }"}, {body: "for { continue }"}, {body: "for { if n > 3 { break }; n++; if b { continue }; n++ }"},
	{body: "for b { b = false }"}, {body: "for (n < 3) { n++ }"}, {body: "for true { break }"}, {body: "for false { }"}, {body: "for n < 3 { for n < 2 { n++; break }; n++ }"},
	{body: "for { for { break }; break }"}, {body: "for n < 3 { x := n; n = x + 1 }"}, {body: "for n < 3 { if n == 1 { break }; n++ }"},
	{body: "L:\n\tfor { break L }"}, {body: "L:\n\tfor n < 3 { n++; continue L }"}, {body: "L:\n\tfor { for { break L } }"}, {body: "L:\n\tfor { for { continue L } }"},
	{body: "for range s { n++ }"}, {body: "for i := range s { n = i }"}, {body: "for i, c := range s { n = i + int(c) }"}, {body: "for _, c := range s { b = c == 'a' }"},
	{body: "for _, v := range []int{1} { n = v }"}, {body: "for k, v := range map[string]int{\"a\": 1} { s, n = k, v }"}, {body: "for range 3 { n++ }"},
	{body: "for i := range 3 { n = i }"}, {body: "var i int; for i = range s { n = i }"}, {body: "for range []int{} { }"}, {body: "for _ = range s { }"},
	{body: "var ch chan int; for v := range ch { n = v }"}, {body: "for i := range n { n = i; break }"},
	// switch
	{body: "switch { }"}, {body: "switch n { }"}, {body: "switch n { case 1: s = \"b\" }"}, {body: "switch n { case 1, 2: n = 0; default: n = 1 }"},
	{body: "switch { case n > 1: n = 0; default: }"}, {body: "switch x := n; x { case 1: n = 2 }"}, {body: "switch x := n; { case x > 1: n = 2 }"},
	{body: "switch n { case 1: fallthrough; case 2: n = 0 }"}, {body: "switch n { default: n = 1 }"}, {body: "switch s { case \"a\": n = 1 }"},
	{body: "switch n { case 1: break }"}, {body: "L:\n\tswitch n { case 1: break L }"}, {body: "switch b { case true: n = 1 }"},
	{body: "switch x := interface{}(n).(type) { case int: n = x }"}, {body: "switch interface{}(n).(type) { }"}, {body: "switch interface{}(n).(type) { case int, string: n = 1; case nil: ; default: }"},
	{body: "var x interface{} = s; switch y := x.(type) { case string: s = y; default: _ = y }"},
	// select / channels
	{body: "select { default: }"}, {body: "var ch chan int; select { case <-ch: default: }"}, {body: "var ch chan int; select { case v := <-ch: n = v; default: }"},
	{body: "var ch chan int; select { case ch <- 1: default: }"}, {body: "var ch chan int; select { case v, ok := <-ch: n, b = v, ok; default: }"},
	{body: "ch := make(chan int, 1); ch <- 1; n = <-ch"}, {body: "ch := make(chan int, 1); ch <- 1; v, ok := <-ch; n, b = v, ok"}, {body: "var ch chan int; close(ch)"},
	{body: "if false { select { } }"},
	// labels / goto / blocks / empty
	{body: "goto L\nL:"}, {body: "goto L\nL:\n\tn = 1"}, {body: "L:\n\tn++\n\tif n < 3 { goto L }"}, {body: "L:\n\t{ break L }"}, {body: "L:\n\t{ n = 1; if b { break L }; n = 2 }"},
	{body: "{ }"}, {body: "{ n := 2; b = n == 2 }"}, {body: "{ { n = 1 } }"}, {body: ";"}, {body: "{ x := 1; { x := \"a\"; s = x }; n = x }"},
	// return
	{body: "if b { return true }"}, {body: "if b { return false }"}, {body: "if b { return b }"}, {body: "if b { return n > 0 }"}, {body: "if b { return (true) }"},
	{body: "if b { return !b }"}, {body: "if b { return b == true }"}, {body: "if b { return s == \"a\" || n == 1 }"},
	// closures, function values
	{body: "f := func() {}; f()"}, {body: "f := func(a int) int { return a }; n = f(1)"}, {body: "f := func() int { return n }; n = f()"},
	{body: "f := func() { n++ }; f()"}, {body: "f := println; f(n)", only: ""}, {body: "f := func(a ...int) int { return len(a) }; n = f(1, 2)"},
	{body: "f := func() (int, string) { return 1, \"a\" }; n, s = f()"}, {body: "var f func(int) int; f = func(a int) int { return a }; n = f(1)"},
	{body: "n = func() int { return 1 }()"}, {body: "b = func() bool { return func() bool { return true }() }()"},
	// the context objects of the hosts
	{body: "t := ctx.Type; b = t != nil", only: "qf"}, {body: "x := ctx; b = x != nil", only: "q"}, {body: "ctx = nil", only: "q"}, {body: "_ = ctx", only: "q"},
	{body: "f := ctx.SizeOf; n = f(ctx.Type)", only: "qf"}, {body: "f := ctx.Type.String; s = f()", only: "qf"}, {body: "s = ctx.Type.String()", only: "qf"},
	{body: "s = ctx.Type.Underlying().String()", only: "qf"}, {body: "n = ctx.SizeOf(ctx.Type)", only: "qf"}, {body: "t := ctx.GetType(\"int\"); b = t == nil", only: "qf"},
	{body: "t := ctx.GetType(s); b = t == nil", only: "qf"}, {body: "i := ctx.GetInterface(\"error\"); b = types.Implements(ctx.Type, i)", only: "qf"},
	{body: "p := types.AsPointer(ctx.Type); b = p != nil && p.Elem() != nil", only: "qf"}, {body: "b = types.Identical(ctx.Type, ctx.Type)", only: "qf"},
	{body: "a := types.AsArray(ctx.Type); n = a.Len()", only: "qf"}, {body: "st := types.AsStruct(ctx.Type); n = st.NumFields()", only: "qf"},
	{body: "st := types.AsStruct(ctx.Type); s = st.Field(0).Name()", only: "qf"}, {body: "x := types.NewArray(ctx.Type, 4); n = ctx.SizeOf(x)", only: "qf"},
	{body: "var t types.Type; b = t == nil", only: "qf"}, {body: "var t types.Type = ctx.Type; b = t == nil", only: "qf"}, {body: "t := ctx.Type; t = nil; b = t == nil", only: "qf"},
	{body: "v := ctx.Var(\"x\"); s = v.Text()", only: "qd"}, {body: "ctx.SetReport(s)", only: "qd"}, {body: "ctx.SetSuggest(s)", only: "qd"},
	{body: "ctx.SetReport(ctx.Var(\"x\").Text() + s)", only: "qd"}, {body: "t := ctx.Var(\"x\").Type(); s = t.String()", only: "qd"},
	{body: "f := ctx.SetReport; f(s)", only: "qd"}, {body: "v := ctx.Var(s); s = v.Text()", only: "qd"}, {body: "ctx.Var(\"x\")", only: "qd"},
	// the limits and the corners of the bytecode compiler
	{pre: "func nk() (r int) { return }", body: "n = nk()", only: "b"}, {pre: "func nk() (r int) { r = 1; return r }", body: "n = nk()", only: "b"}, {pre: "func rf() float64 { return 1 }", body: "b = rf() > 0", only: "b"},
	{pre: "func rs() []int { return nil }", body: "b = rs() == nil", only: "b"}, {pre: "func re() error { return nil }", body: "b = re() == nil", only: "b"}, {pre: "func rp() *int { return nil }", body: "b = rp() == nil", only: "b"},
	{pre: "type PS struct{ a int }\nfunc rps() *PS { return nil }", body: "b = rps() == nil", only: "b"}, {pre: "func pf(f float64) bool { return f > 0 }", body: "b = pf(1)", only: "b"},
	{pre: "func pe(e interface{}) bool { return e == nil }", body: "b = pe(n)", only: "b"}, {pre: "func pe(e interface{}) bool { return e == nil }", body: "b = pe(nil)", only: "b"},
	{body: "x := 1i; b = real(x) == 0", only: "b"}, {body: "x := uint64(1 << 63); b = x > 1", only: "b"}, {body: "x := 1 << 62; n = x", only: "b"}, {body: "b = float64(n) + float64(n) > 1", only: "b"}, {body: "x := float64(n) + float64(n); b = x > 1", only: "b"}, {body: "x := b; y := x == b; b = y", only: "b"},
	{body: "n = len([]int{1}[0:1:1])", only: "b"}, {body: "n = len([]int{1}[1:])", only: "b"}, {body: "s = s[n:]", only: "b"}, {body: "s = s[:n]", only: "b"}, {body: "s = s[:]", only: "b"}, {body: "s = s[1:n]", only: "b"}, {body: "s = (s + s)[1:]", only: "b"},
	// the packages the bytecode knows (each of these files costs a type check of the package from source)
	{imp: "strconv", body: "println(strconv.Atoi(s))"}, {imp: "fmt", body: "s = fmt.Sprint(fmt.Sscan(s))"},
	{imp: "os", body: "s = os.Getenv(s)"}, {imp: "str \"strings", body: "s = str.ToUpper(s)"}, {imp: ". \"strings", body: "s = ToUpper(s)"},
	{imp: "fmt", body: "s = fmt.Sprintf(\"%d %s\", n, s)"}, {imp: "fmt", body: "s = fmt.Sprint(n, s, b)"}, {imp: "fmt", body: "x := []interface{}{n}; s = fmt.Sprint(x...)"},
	{imp: "strings", body: "b = strings.Contains(s, \"a\") && strings.HasPrefix(s, s)"}, {imp: "strings", body: "f := strings.ToUpper; s = f(s)"},
	{imp: "strconv", body: "x, err := strconv.Atoi(s); b = err == nil && x == n"}, {imp: "strconv", body: "x, _ := strconv.Atoi(s); n = x"},
	{imp: "strconv", body: "s = strconv.Itoa(n) + strconv.Quote(s)"}, {imp: "fmt", body: "fmt.Println(n)"},
}

// ---- bool expressions. In scope: n int, s string, b bool; ctx in bytecode hosts; m and (in the helper host) v dsl.Var in DSL hosts.
var exprCatalogue = []snippet{
	// literals, identifiers, parentheses
	{body: "true"}, {body: "false"}, {body: "b"}, {body: "(b)"}, {body: "((b))"}, {body: "!b"}, {body: "!!b"}, {body: "!(b)"}, {body: "n == 1"}, {body: "1 == n"}, {body: "n == 0x10"},
	{body: "n == 0b1"}, {body: "n == 0o7"}, {body: "n == 1_0"}, {body: "n == 'a'"}, {body: "s == \"a\""}, {body: "s == `a`"}, {body: "\"a\" == s"}, {body: "s == \"\\x61\""},
	{body: "n == 9223372036854775807"}, {body: "n == -9223372036854775808"}, {body: "1.5 > 1"}, {body: "1i == 1i"}, {body: "float64(n) == 1.5"}, {body: "1e3 == 1000"},
	{body: "1 == 1"}, {body: "\"a\" == \"a\""}, {body: "\"a\" != \"b\""}, {body: "2 > 1"}, {body: "true == true"}, {body: "b == true"}, {body: "true != b"}, {body: "b == b"},
	{body: "nil == nil"}, {body: "interface{}(nil) == nil"}, {body: "(*int)(nil) == nil"}, {body: "[]int(nil) == nil"},
	// unary and binary operators
	{body: "-n == 1"}, {body: "+n == 1"}, {body: "^n == 1"}, {body: "- -n == 1"}, {body: "*(&n) == 1"}, {body: "&n != nil"}, {body: "n + 1 == 2"}, {body: "n - 1 == 0"},
	{body: "n * 2 == 2"}, {body: "n / 2 == 0"}, {body: "n % 2 == 1"}, {body: "n & 1 == 1"}, {body: "n | 1 == 1"}, {body: "n ^ 1 == 0"}, {body: "n << 1 == 2"}, {body: "n >> 1 == 0"},
	{body: "n &^ 1 == 0"}, {body: "n / 0 == 1"}, {body: "1 << n == 2"}, {body: "n < 1"}, {body: "n <= 1"}, {body: "n > 1"}, {body: "n >= 1"}, {body: "n != 1"}, {body: "s < \"b\""},
	{body: "s >= \"a\""}, {body: "s + \"b\" == \"ab\""}, {body: "s + s == s"}, {body: "\"a\" + \"b\" == s"}, {body: "b && b"}, {body: "b || b"}, {body: "b && (b || !b)"},
	{body: "b != b"}, {body: "b && n > 0 || s == \"a\" && !b"}, {body: "n + n*n - n/1%7 == 0"}, {body: "(n + 1) * 2 == 4"}, {body: "n == n"}, {body: "s == s"}, {body: "s != s"},
	{body: "n < n"}, {body: "1 + 2 == 3"}, {body: "len(\"abc\") == 3"}, {body: "n == 1 == b"}, {body: "(n == 1) != (s == \"a\")"},
	// index, slice, selector
	{body: "s[0] == 'a'"}, {body: "s[n] == 'a'"}, {body: "s[1:] == \"a\""}, {body: "s[:1] == \"a\""}, {body: "s[1:2] == \"a\""}, {body: "s[:] == \"a\""}, {body: "s[n:n+1] == \"a\""},
	{body: "[]int{1}[0] == n"}, {body: "[]int{1, 2}[0:1:1][0] == n"}, {body: "[2]int{}[1] == n"}, {body: "map[string]int{\"a\": 1}[s] == n"}, {body: "[]string{s}[0][0] == 'a'"},
	{body: "struct{ a int }{1}.a == n"}, {body: "(&struct{ a int }{1}).a == n"}, {body: "[]struct{ a int }{{1}}[0].a == n"}, {body: "[...]int{1, 2}[1] == n"},
	{body: "map[string][]int{\"a\": {1}}[\"a\"][0] == n"}, {body: "\"abc\"[1] == 'b'"}, {body: "\"abc\"[1:] == s"}, {body: "\"abc\"[n] == 'b'"},
	// builtins and conversions
	{body: "len(s) == n"}, {body: "len([]int{1}) == n"}, {body: "cap([]int{1}) == n"}, {body: "len(append([]int{}, 1)) == n"}, {body: "len(make([]int, 1)) == n"},
	{body: "*new(int) == n"}, {body: "copy([]int{1}, []int{2}) == n"}, {body: "min(1, n) == 1"}, {body: "max(n, 2) == 2"}, {body: "real(1i) == 0"}, {body: "len(map[int]int{}) == 0"},
	{body: "len([2]int{}) == 2"}, {body: "len(s[1:]) == n"}, {body: "len(s + s) == n"}, {body: "len((s)) == n"}, {body: "(len)(s) == n"}, {body: "len(string(s)) == n"},
	{body: "int(n) == 1"}, {body: "int64(n) == 1"}, {body: "int(int64(n)) == 1"}, {body: "uint8(n) == 1"}, {body: "float64(n) > 1"}, {body: "string(s) == \"a\""},
	{body: "string(rune(n)) == \"a\""}, {body: "string([]byte(s)) == \"a\""}, {body: "len([]byte(s)) == n"}, {body: "len([]rune(s)) == n"}, {body: "interface{}(n) != nil"},
	{body: "interface{}(n) == interface{}(1)"}, {body: "interface{}(n).(int) == 1"}, {body: "interface{}(s).(string) == \"a\""}, {body: "bool(b)"}, {body: "(int)(n) == 1"},
	{body: "any(n) != nil"}, {body: "interface{ M() }(nil) == nil"}, {body: "error(nil) == nil"}, {body: "(func())(nil) == nil"}, {body: "(chan int)(nil) == nil"},
	// composite literals, function literals, type assertions
	{body: "len([]int{0: 1, 2: 3}) == 3"}, {body: "len([][]int{{1}, {2}}) == 2"}, {body: "len(map[string]struct{}{\"a\": {}}) == 1"}, {body: "&struct{}{} != nil"},
	{body: "func() bool { return true }()"}, {body: "func(a int) bool { return a == 1 }(n)"}, {body: "func() bool { return b }()"}, {body: "(func() bool { return true })()"},
	{body: "func() func() bool { return func() bool { return true } }()()"}, {body: "func(a ...int) bool { return len(a) == 0 }()"}, {body: "func() (r bool) { return }()"},
	{body: "func() bool { x := 1; return x == 1 }()"}, {body: "func() bool { for { return true } }()"}, {body: "func() bool { defer func() {}(); return true }()"},
	// calls of every kind of callee
	{pre: "func bf() bool { return true }", body: "bf()"}, {pre: "func bf(n int) bool { return n > 0 }", body: "bf(n)"}, {pre: "func bf(n int) bool { return n > 0 }", body: "bf(1)"},
	{pre: "func bf(n int, s string) bool { return n > len(s) }", body: "bf(n, s)"}, {pre: "func bf(xs ...int) bool { return len(xs) > 0 }", body: "bf(1, n)"},
	{pre: "func bf(xs ...int) bool { return len(xs) > 0 }", body: "bf([]int{1}...)"}, {pre: "func bf(b bool) bool { return !b }", body: "bf(bf(b))"},
	{pre: "func sf(s string) string { return s + s }", body: "sf(sf(s)) == s"}, {pre: "func nf(n int) int { return n + 1 }", body: "nf(nf(n)) == 3"},
	{pre: "func bf(n int) bool { return n > 0 }", body: "(bf)(n)"}, {pre: "func bf(n int) bool { return n > 0 }", body: "func() bool { f := bf; return f(n) }()"},
	{pre: "func two() (int, string) { return 1, \"a\" }\nfunc bf(n int, s string) bool { return n > len(s) }", body: "bf(two())"},
	{pre: "type T struct{ a int }\nfunc (t T) bm() bool { return t.a > 0 }", body: "T{a: 1}.bm()"}, {pre: "type T struct{ a int }\nfunc (t *T) bm() bool { return t != nil }", body: "(&T{}).bm()"},
	{pre: "type T struct{ a int }\nfunc (t T) bm() bool { return t.a > 0 }", body: "T.bm(T{})"}, {pre: "type T struct{ a int }\nfunc (t T) bm() bool { return t.a > 0 }", body: "T{}.bm"},
	{pre: "type T struct{ a int }\nvar tv T", body: "tv.a == n"}, {pre: "type T struct{ in struct{ a int } }\nvar tv T", body: "tv.in.a == n"}, {pre: "type T struct{ a int }\nvar tp *T", body: "tp.a == n"},
	{pre: "type E int\nfunc (e E) bm() bool { return e > 0 }", body: "E(n).bm()"}, {pre: "type I interface{ bm() bool }\nvar iv I", body: "iv.bm()"}, {pre: "type I interface{ bm() bool }\nvar iv I", body: "iv != nil && iv.bm()"},
	{pre: "func gen[E comparable](x, y E) bool { return x == y }", body: "gen(n, 1)"}, {pre: "func gen[E comparable](x, y E) bool { return x == y }", body: "gen[string](s, s)"},
	{pre: "type G[E any] struct{ v E }\nfunc (g G[E]) ok() bool { return true }", body: "G[int]{}.ok()"}, {pre: "var bv bool", body: "bv"}, {pre: "var bv = true", body: "bv && b"},
	{pre: "const bc = true", body: "bc"}, {pre: "const bc = true", body: "bc && b"}, {pre: "const nc, sc = 1, \"a\"", body: "n == nc && s == sc"}, {pre: "const nc = 1 << 40", body: "n < nc"},
	{pre: "const fc = 1.5", body: "float64(n) < fc"}, {pre: "const big = 1 << 70", body: "big > 1"}, {pre: "var fnv = func() bool { return true }", body: "fnv()"},
	{pre: "var fnv func() bool", body: "fnv != nil && fnv()"}, {pre: "var arr = []bool{true}", body: "arr[0]"}, {pre: "var mp = map[string]bool{}", body: "mp[s]"},
	// the context objects (bytecode hosts)
	{body: "ctx != nil", only: "q"}, {body: "nil != ctx", only: "q"}, {body: "ctx.Type != nil", only: "qf"}, {body: "nil == ctx.Type", only: "qf"}, {body: "ctx.Type == ctx.Type", only: "qf"},
	{body: "ctx.Type.String() == s", only: "qf"}, {body: "ctx.Type.Underlying() != nil", only: "qf"}, {body: "ctx.SizeOf(ctx.Type) > n", only: "qf"}, {body: "ctx.GetType(s) == nil", only: "qf"},
	{body: "ctx.GetInterface(\"error\") != nil", only: "qf"}, {body: "types.Implements(ctx.Type, ctx.GetInterface(`io.Reader`))", only: "qf"}, {body: "types.Identical(ctx.Type, ctx.GetType(`int`))", only: "qf"},
	{body: "types.AsPointer(ctx.Type) != nil", only: "qf"}, {body: "types.AsPointer(ctx.Type).Elem().String() == s", only: "qf"}, {body: "types.AsStruct(ctx.Type).NumFields() > n", only: "qf"},
	{body: "types.AsStruct(ctx.Type).Field(n).Name() == s", only: "qf"}, {body: "types.AsInterface(ctx.Type) != nil", only: "qf"}, {body: "types.AsArray(ctx.Type).Len() == n", only: "qf"},
	{body: "ctx.SizeOf(types.NewPointer(ctx.Type)) == 8", only: "qf"}, {body: "ctx.Type.(types.Type) != nil", only: "qf"}, {body: "(ctx).Type != nil", only: "qf"}, {body: "(*ctx).Type != nil", only: "qf"},
	{body: "ctx.Var(\"x\").Text() == s", only: "qd"}, {body: "ctx.Var(s).Text() == s", only: "qd"}, {body: "ctx.Var(\"x\").Type().String() == s", only: "qd"}, {body: "ctx.Var(\"x\").Type() != nil", only: "qd"},
	{body: "len(ctx.Var(\"x\").Text()) > n", only: "qd"}, {body: "ctx.Var(\"x\") != nil", only: "qd"},
	// the DSL (hosts where / helper); v is the helper's dsl.Var parameter (m["x"] in the where host)
	{body: "V.Pure", only: "d"}, {body: "(V).Pure", only: "d"}, {body: "(V.Pure)", only: "d"}, {body: "!V.Pure", only: "d"}, {body: "V.Pure == true", only: "d"}, {body: "V.Pure != V.Const", only: "d"},
	{body: "V.Pure && b", only: "d"}, {body: "b || V.Pure", only: "d"}, {body: "V.Pure && true", only: "d"}, {body: "false || V.Pure", only: "d"}, {body: "V.Text == s", only: "d"}, {body: "s == V.Text", only: "d"},
	{body: "V.Text == \"a\" + \"b\"", only: "d"}, {body: "V.Text + \"a\" == \"b\"", only: "d"}, {body: "V.Text == V.Text", only: "d"}, {body: "V.Text > \"a\"", only: "d"}, {body: "V.Text != (\"a\")", only: "d"},
	{body: "V.Line == n", only: "d"}, {body: "V.Line + 1 == 2", only: "d"}, {body: "V.Line == 1 + 1", only: "d"}, {body: "-V.Line == 1", only: "d"}, {body: "V.Type.Size == 1 << 3", only: "d"},
	{body: "V.Type.Size == 1.0", only: "d"}, {body: "V.Type.Size == 'a'", only: "d"}, {body: "V.Type.Size > V.Line", only: "d"}, {body: "V.Value.Int() == n", only: "d"}, {body: "V.Value.Int() + 1 == 2", only: "d"},
	{body: "V.Value.Int() == 9223372036854775807", only: "d"}, {body: "V.Type.Is(s)", only: "d"}, {body: "V.Type.Is(\"int\" + \"\")", only: "d"}, {body: "V.Type.Is((\"int\"))", only: "d"},
	{body: "V.Type.Is(string(\"int\"))", only: "d"}, {body: "V.Type.Is(`[`)", only: "d"}, {body: "(V.Type).Is(`int`)", only: "d"}, {body: "(V.Type.Is)(`int`)", only: "d"}, {body: "V.Type.Underlying().Is(`int`)", only: "d"},
	{body: "V.Type.Underlying().Underlying().Is(`int`)", only: "d"}, {body: "(V.Type.Underlying()).Is(`int`)", only: "d"}, {body: "V.Type.Is(`int`) == V.Type.Is(`uint`)", only: "d"},
	{body: "V.Type.IdenticalTo(V)", only: "d"}, {body: "V.Type.IdenticalTo((V))", only: "d"}, {body: "V.Type.IdenticalTo(m[s])", only: "d"}, {body: "V.Type.IdenticalTo(m[\"y\"+\"\"])", only: "d"},
	{pre: "var dv dsl.Var", body: "V.Type.IdenticalTo(dv)", only: "d"}, {pre: "var dv dsl.Var", body: "dv.Pure", only: "d"}, {pre: "var dm dsl.Matcher", body: "dm[\"x\"].Pure", only: "d"},
	{pre: "var dm dsl.Matcher", body: "dm.Deadcode()", only: "d"}, {pre: "var dvs []dsl.Var", body: "dvs[0].Pure", only: "d"}, {pre: "var dmm map[string]dsl.Matcher", body: "dmm[\"x\"][\"y\"].Pure", only: "d"},
	{pre: "func mk() dsl.Var { return dsl.Var{} }", body: "mk().Pure", only: "d"}, {body: "dsl.Var{}.Pure", only: "d"}, {body: "dsl.Matcher{}[\"x\"].Pure", only: "d"}, {body: "(&V).Pure", only: "d"},
	{body: "V.Filter(nil)", only: "d"}, {body: "V.Filter(func(ctx *dsl.VarFilterContext) bool { return true })", only: "d"}, {pre: "func flt2(ctx *dsl.VarFilterContext) bool { return true }", body: "V.Filter(flt2)", only: "d"},
	{pre: "func flt2(ctx *dsl.VarFilterContext) bool { return true }", body: "V.Filter((flt2))", only: "d"}, {pre: "var fltv func(*dsl.VarFilterContext) bool", body: "V.Filter(fltv)", only: "d"},
	{pre: "type FT struct{}\nfunc (FT) flt(ctx *dsl.VarFilterContext) bool { return true }", body: "V.Filter(FT{}.flt)", only: "d"}, {body: "V.Filter(nosuch)", only: "d"},
	{pre: "func flt2(ctx *dsl.VarFilterContext) bool { return true }\nfunc flt3(ctx *dsl.VarFilterContext) bool { return false }", body: "V.Filter(flt2) && !V.Filter(flt3)", only: "d"},
	{body: "V.Contains(s)", only: "d"}, {body: "V.Contains(`$_ +`)", only: "d"}, {body: "V.Contains(`g(`)", only: "d"}, {body: "V.Contains(``)", only: "d"}, {body: "!V.Contains(`if {`)", only: "d"},
	{body: "b && V.Contains(`$y +`)", only: "d"}, {body: "V.Text.Matches(s)", only: "d"}, {body: "V.Text.Matches(`(`)", only: "d"}, {body: "V.Text.Matches(`a` + `b`)", only: "d"}, {body: "V.Node.Is(s)", only: "d"},
	{body: "V.Node.Is(`Nosuch`)", only: "d"}, {body: "V.Node.Parent().Is(`Ident`)", only: "d"}, {body: "V.Object.Is(`Nosuch`)", only: "d"}, {body: "V.Object.IsGlobal()", only: "d"}, {body: "V.SinkType.Is(`int`)", only: "d"},
	{body: "V.Type.HasMethod(``)", only: "d"}, {body: "V.Text.Matches(``)", only: "d"}, {body: "V.Type.Implements(``)", only: "d"}, {body: "V.Type.HasMethod(`f().T.M`)", only: "d"},
	{body: "V.Type.HasMethod(`a.b.c.d`)", only: "d"}, {body: "V.Type.HasMethod(`io.Reader.Read()`)", only: "d"}, {body: "V.Type.Is(``)", only: "d"}, {body: "V.Type.ConvertibleTo(``)", only: "d"},
	{body: "V.Node.Is(``)", only: "d"}, {body: "V.Object.Is(``)", only: "d"}, {body: "V.Type.OfKind(``)", only: "d"}, {body: "V.SinkType.Is(``)", only: "d"}, {body: "m[\"$$\"].SinkType.Is(``)", only: "d"},
	{body: "V.Type.OfKind(`nosuch`)", only: "d"}, {body: "V.Type.Implements(`nosuch.T`)", only: "d"}, {body: "V.Type.HasMethod(`(`)", only: "d"}, {body: "V.Type.HasPointers()", only: "d"},
	{body: "V.Type.ConvertibleTo(`[`)", only: "d"}, {body: "V.Type.AssignableTo(s)", only: "d"}, {body: "m.Deadcode()", only: "d"}, {body: "(m).Deadcode()", only: "d"}, {body: "(m.Deadcode)()", only: "d"},
	{body: "m.GoVersion().Eq(s)", only: "d"}, {body: "m.GoVersion().Eq(`1.x`)", only: "d"}, {body: "m.GoVersion().GreaterEqThan(`1.` + `16`)", only: "d"}, {body: "m.File().Imports(s)", only: "d"},
	{body: "m.File().Imports(`fmt`)", only: "d"}, {body: "m.File().Name.Matches(`[`)", only: "d"}, {body: "m.File().PkgPath.Matches(s)", only: "d"}, {body: "(m.File()).Imports(`fmt`)", only: "d"},
	{body: "m[s].Pure", only: "d"}, {body: "m[\"x\" + \"s\"].Pure", only: "d"}, {body: "m[(\"x\")].Pure", only: "d"}, {body: "(m)[\"x\"].Pure", only: "d"}, {body: "(m[\"x\"]).Pure", only: "d"}, {body: "m[``].Pure", only: "d"},
	{body: "m[\"$$\"].Pure", only: "d"}, {body: "m[\"$x\"].Pure", only: "d"}, {body: "m[\"x\"].Type.Size == m[\"y\"].Type.Size + 1", only: "d"}, {body: "m[\"x\"].Text == m[\"y\"].Text + m[\"x\"].Text", only: "d"},
	{body: "func() bool { return V.Pure }()", only: "d"}, {body: "func(w dsl.Var) bool { return w.Pure }(V)", only: "d"}, {body: "[]bool{V.Pure}[0]", only: "d"}, {body: "map[bool]bool{V.Pure: true}[true]", only: "d"},
	{body: "struct{ p bool }{V.Pure}.p", only: "d"}, {body: "interface{}(V.Pure).(bool)", only: "d"}, {body: "bool(V.Pure)", only: "d"}, {body: "*(&[]bool{V.Pure}[0])", only: "d"},
	{body: "len(V.Text) == n", only: "d"}, {body: "string(V.Text) == s", only: "d"}, {body: "V.Text[0] == 'a'", only: "d"}, {body: "V.Text[1:] == s", only: "d"}, {body: "int(V.Line) == n", only: "d"},
}

// binder positions: a helper parameter named NAME, and the same name in a position of the template that is not a use of the
// parameter (a name declared or selected inside the template). The template is rewritten by name.
var binderForms = []snippet{
	{body: "func(NAME int) bool { return NAME == 1 }(1)"}, {body: "func(NAME, o int) bool { return NAME == o }(1, 2)"}, {body: "func() (NAME bool) { return }()"}, {body: "func() (NAME bool) { NAME = true; return }()"},
	{body: "func(NAME ...int) bool { return len(NAME) == 0 }()"}, {body: "struct{ NAME int }{1}.NAME == 1"}, {body: "struct{ NAME, o int }{1, 2}.o == 1"}, {body: "struct{ NAME int }{NAME: 1}.NAME == 1"},
	{body: "interface{ NAME() }(nil) == nil"}, {body: "interface{ M(NAME int) }(nil) == nil"}, {body: "(func(NAME int) bool)(nil) == nil"}, {body: "(func() (NAME int))(nil) == nil"},
	{pre: "type BT struct{ NAME int }", body: "BT{NAME: 1}.NAME == 1"}, {pre: "type BT struct{ NAME int }\nvar btv BT", body: "btv.NAME == 1"}, {pre: "type BT struct{}\nfunc (BT) NAME() bool { return true }\nvar btv BT", body: "btv.NAME()"},
	{body: "func() bool { NAME := true; return NAME }()"}, {body: "func() bool { var NAME = 1; return NAME == 1 }()"}, {body: "func() bool { var NAME, o = 1, 2; return NAME == o }()"},
	{body: "func() bool { const NAME = 1; return NAME == 1 }()"}, {body: "func() bool { type NAME int; return NAME(1) == 1 }()"}, {body: "func() bool { type o struct{ NAME int }; return o{}.NAME == 0 }()"},
	{body: "func() bool {\n\tNAME:\n\t\tfor { break NAME }\n\t\treturn true\n\t}()"}, {body: "func() bool {\n\t\tgoto NAME\n\tNAME:\n\t\treturn true\n\t}()"},
	{body: "func() bool {\n\tNAME:\n\t\tfor { continue NAME }\n\t}()"}, {body: "func() bool { for NAME := range \"ab\" { if NAME > 0 { return true } }; return false }()"},
	{body: "func() bool { for NAME, o := range \"ab\" { if NAME > 0 && o > 0 { return true } }; return false }()"}, {body: "func() bool { if NAME := 1; NAME > 0 { return true }; return false }()"},
	{body: "func() bool { switch NAME := interface{}(1).(type) { case int: return NAME == 1 }; return false }()"}, {body: "func() bool { switch NAME := 1; NAME { case 1: return true }; return false }()"},
	{body: "func() bool { var ch chan int; select { case NAME := <-ch: return NAME == 1; default: return false } }()"}, {body: "func() bool { func(NAME int) {}(1); return true }()"},
	{body: "func() bool { f := func(NAME int) bool { return NAME > 0 }; return f(1) }()"}, {body: "func() bool { var NAME interface{ NAME() }; return NAME == nil }()"},
	{body: "map[string]int{\"NAME\": 1}[\"NAME\"] == 1"},
}

// types in the signatures of the functions the bytecode compiler meets: every kind of Go type as a parameter, as the result, as a
// local variable and as the receiver (the position rotates with the seed)
var sigTypes = []snippet{
	{body: "int"}, {body: "string"}, {body: "bool"}, {body: "byte"}, {body: "rune"}, {body: "int64"}, {body: "uint"}, {body: "uintptr"}, {body: "float64"}, {body: "complex128"},
	{body: "error"}, {body: "interface{}"}, {body: "any"}, {body: "interface{ M() }"}, {body: "*int"}, {body: "**int"}, {body: "*string"}, {body: "[]int"}, {body: "[2]int"}, {body: "[]string"},
	{body: "map[string]int"}, {body: "chan int"}, {body: "<-chan int"}, {body: "func()"}, {body: "func(int) bool"}, {body: "struct{}"}, {body: "struct{ a int }"}, {body: "*struct{ a int }"},
	{body: "ST", pre: "type ST struct{ a int }"}, {body: "*ST", pre: "type ST struct{ a int }"}, {body: "**ST", pre: "type ST struct{ a int }"}, {body: "[]*ST", pre: "type ST struct{ a int }"},
	{body: "NI", pre: "type NI int"}, {body: "NS", pre: "type NS string"}, {body: "NB", pre: "type NB bool"}, {body: "*NI", pre: "type NI int"}, {body: "NP", pre: "type ST struct{ a int }\ntype NP *ST"},
	{body: "NF", pre: "type NF func()"}, {body: "NIF", pre: "type NIF interface{ M() }"}, {body: "AL", pre: "type AL = int"}, {body: "ALP", pre: "type ST struct{ a int }\ntype ALP = *ST"},
	{body: "REC", pre: "type REC struct{ next *REC }"}, {body: "*REC", pre: "type REC struct{ next *REC }"}, {body: "G[int]", pre: "type G[E any] struct{ v E }"}, {body: "*G[int]", pre: "type G[E any] struct{ v E }"},
	{body: "GI[int]", pre: "type GI[E any] interface{ M() E }"}, {body: "*dsl.VarFilterContext"}, {body: "dsl.VarFilterContext"}, {body: "*dsl.DoContext"}, {body: "dsl.Var"}, {body: "*dsl.Var"}, {body: "dsl.Matcher"},
	{body: "dsl.MatchedText"}, {body: "dsl.ExprType"}, {body: "dsl.Bundle"}, {body: "*dsl.Bundle"}, {body: "types.Type"}, {body: "*types.Pointer"}, {body: "types.Pointer"}, {body: "*types.Var"}, {body: "[]types.Type"},
}

// renderSig: the type in one position of an otherwise trivial function
func renderSig(sn snippet, pos int, what string) spanFile {
	var fb fileBuilder
	fb.add(fnHeader)
	if strings.Contains(sn.body, "types.") {
		fb.add("import \"github.com/quasilyte/go-ruleguard/dsl/types\"")
	}
	fb.add("")
	fb.add("var _ dsl.Matcher")
	fb.add("")
	lo := len(fb.lines) + 1
	if sn.pre != "" {
		fb.add(sn.pre)
		fb.add("")
	}
	t := sn.body
	switch pos {
	case 0: // parameter
		fb.add("func sg(x " + t + ", n int) bool {\n\treturn n > 0\n}")
	case 1: // result
		fb.add("func sg(x " + t + ") " + t + " {\n\treturn x\n}\n\nfunc sg2(x " + t + ") bool {\n\ty := sg(x)\n\treturn sg(y) == x\n}")
	case 2: // local variable
		fb.add("func sg(x " + t + ") bool {\n\ty := x\n\tz := y\n\treturn z == x\n}")
	case 3: // variadic parameter
		fb.add("func sg(n int, xs ..." + t + ") bool {\n\treturn n > 0\n}\n\nfunc sg2(x " + t + ") bool {\n\treturn sg(1, x, x) && sg(2)\n}")
	case 4: // unnamed / blank parameters
		fb.add("func sg(" + t + ", int) bool {\n\treturn true\n}\n\nfunc sg2(_ " + t + ", _ int) bool {\n\treturn false\n}")
	default: // receiver
		fb.add("type RT struct{ f " + t + " }\n\nfunc (r RT) sg(n int) bool {\n\treturn n > 0\n}\n\nfunc (r *RT) sg2(n int) bool {\n\treturn r != nil && n > 0\n}")
	}
	hi := len(fb.lines)
	fb.add("")
	fb.add("func g(m dsl.Matcher) {\n\tm.Match(`$x + $y`).Report(`r`)\n}")
	return spanFile{what: what, src: fb.String(), lo: lo, hi: hi, debug: "sg"}
}

var binderNames = []string{"x", "v", "n", "Pure", "m", "f", "int", "true", "dsl", "len", "_"}

type fnHost int

const (
	hostFilter fnHost = iota // func flt(ctx *dsl.VarFilterContext) bool, used by Filter(flt)
	hostDo                   // func do(ctx *dsl.DoContext), used by Do(do)
	hostAux                  // a function nobody calls: n, s, b are parameters
	hostMethod               // a method nobody calls
	hostGroup                // statements of the rule group itself (stmt catalogue only)
	hostWhere                // Where(EXPR) (expr catalogue only)
	hostHelper               // f := func(v dsl.Var, n int, s string, b bool) bool { return EXPR } (expr catalogue only)
	nHosts
)

var hostNames = [...]string{"filter", "do", "aux", "method", "group", "where", "helper"}

func (sn snippet) fits(h fnHost, isExpr bool) bool {
	q := h == hostFilter || h == hostDo || h == hostAux || h == hostMethod
	switch sn.only {
	case "q":
		return h == hostFilter || h == hostDo
	case "qf":
		return h == hostFilter
	case "qd":
		return h == hostDo
	case "d":
		return h == hostWhere || h == hostHelper
	case "b":
		return q
	}
	if isExpr {
		return h != hostGroup
	}
	return q || h == hostGroup
}

const fnHeader = "package gorules\n\nimport \"github.com/quasilyte/go-ruleguard/dsl\"\n"

// renderFn puts the snippet into the host; the span is the snippet's declarations plus the hosting declaration
func renderFn(sn snippet, h fnHost, isExpr bool, what string) spanFile {
	var fb fileBuilder
	fb.add(fnHeader)
	if strings.Contains(sn.imp, "\"") { // import <name> "path": the entry carries the name and the opening quote
		fb.add("import " + sn.imp + "\"")
	} else if sn.imp != "" {
		fb.add("import \"" + sn.imp + "\"")
	}
	if strings.Contains(sn.body+sn.pre, "types.") {
		fb.add("import \"github.com/quasilyte/go-ruleguard/dsl/types\"")
	}
	fb.add("")
	fb.add("var _ dsl.Matcher")
	fb.add("")
	body := sn.body
	lo := len(fb.lines) + 1
	if sn.pre != "" {
		fb.add(sn.pre)
		fb.add("")
	}
	stmts := func(ret string) string {
		if isExpr {
			if ret == "" {
				return "\tif " + body + " {\n\t\treturn\n\t}\n"
			}
			return "\tif " + body + " {\n\t\treturn false\n\t}\n"
		}
		return "\t" + body + "\n"
	}
	rule := "m.Match(`$x + $y`).Report(`r`)"
	switch h {
	case hostFilter:
		fb.add("func flt(ctx *dsl.VarFilterContext) bool {\n\tn := 1\n\ts := \"a\"\n\tb := n == len(s)\n" + stmts("b") + "\treturn b\n}")
		rule = "m.Match(`$x + $y`).Where(m[\"x\"].Filter(flt)).Report(`r`)"
	case hostDo:
		fb.add("func do(ctx *dsl.DoContext) {\n\tn := 1\n\ts := \"a\"\n\tb := n == len(s)\n" + stmts("") + "\tif b {\n\t\treturn\n\t}\n}")
		rule = "m.Match(`$x + $y`).Do(do)"
	case hostAux:
		fb.add("func aux(n int, s string, b bool) bool {\n" + stmts("b") + "\treturn b && n == len(s)\n}")
	case hostMethod:
		fb.add("type MT struct{}\n\nfunc (mt MT) aux(n int, s string, b bool) bool {\n" + stmts("b") + "\treturn b && n == len(s)\n}")
	}
	_, hi := 0, len(fb.lines)
	if h == hostFilter || h == hostDo || h == hostAux || h == hostMethod {
		fb.add("")
		fb.add("func g(m dsl.Matcher) {\n\t" + rule + "\n}")
		return spanFile{what: what, src: fb.String(), lo: lo, hi: hi, debug: map[fnHost]string{hostFilter: "flt", hostDo: "do", hostAux: "aux", hostMethod: "aux"}[h]}
	}
	// DSL hosts: n, s, b are package-level variables (not constants: nothing folds)
	switch h {
	case hostGroup:
		fb.add("func g(m dsl.Matcher) {\n\tvar n = 1\n\tvar s = \"a\"\n\tvar b = n == len(s)\n\t" + body + "\n\tm.Match(`$x + $y`).Where(b).Report(`r`)\n}")
	case hostWhere:
		fb.add("var (\n\tn int\n\ts string\n\tb bool\n)\n")
		fb.add("func g(m dsl.Matcher) {\n\tm.Match(`$x + $y`).\n\t\tWhere(" + reV.ReplaceAllString(body, "m[\"x\"]") + ").\n\t\tReport(`r`)\n}")
	case hostHelper:
		fb.add("func g(m dsl.Matcher) {\n\tf := func(v dsl.Var, n int, s string, b bool) bool {\n\t\treturn " + reV.ReplaceAllString(body, "v") +
			"\n\t}\n\tm.Match(`$x + $y`).\n\t\tWhere(f(m[\"x\"], 1, \"a\", true)).\n\t\tReport(`r`)\n}")
	}
	return spanFile{what: what, src: fb.String(), lo: lo, hi: len(fb.lines)}
}

// the helper of the binder catalogue: parameter NAME of type dsl.Var, used once outside the form
func renderBinder(sn snippet, name string, what string) spanFile {
	var fb fileBuilder
	fb.add(fnHeader)
	fb.add("")
	fb.add("var _ dsl.Matcher")
	fb.add("")
	lo := len(fb.lines) + 1
	if sn.pre != "" {
		fb.add(strings.ReplaceAll(sn.pre, "NAME", name))
		fb.add("")
	}
	use := name + ".Pure"
	if name == "_" {
		use = "true"
	}
	fb.add("func g(m dsl.Matcher) {\n\tf := func(" + name + " dsl.Var) bool {\n\t\treturn " + strings.ReplaceAll(sn.body, "NAME", name) + " && " + use +
		"\n\t}\n\tm.Match(`$x + $y`).\n\t\tWhere(f(m[\"x\"])).\n\t\tReport(`r`)\n}")
	return spanFile{what: what, src: fb.String(), lo: lo, hi: len(fb.lines)}
}

func hostsFor(sn snippet, isExpr bool) []fnHost {
	var hs []fnHost
	for h := fnHost(0); h < nHosts; h++ {
		if sn.fits(h, isExpr) {
			hs = append(hs, h)
		}
	}
	return hs
}

// the limits of the bytecode compiler: more locals / constants / parameters than an operand byte addresses, a jump that does
// not fit into 16 bits
func bigSnippets() []snippet {
	rep := func(n int, f func(i int) string) string {
		var sb strings.Builder
		for i := 0; i < n; i++ {
			sb.WriteString(f(i))
		}
		return sb.String()
	}
	params := strings.TrimSuffix(rep(257, func(i int) string { return fmt.Sprintf("a%d, ", i) }), ", ")
	return []snippet{
		{body: rep(12, func(i int) string { return fmt.Sprintf("x%d := %d; n = x%d\n\t", i, i, i) }) + "n++"},
		{body: rep(300, func(i int) string { return fmt.Sprintf("s = \"k%d\"\n\t", i) }) + "n++"},
		{body: rep(300, func(i int) string { return fmt.Sprintf("n = %d\n\t", 1000+i) }) + "n++"},
		{pre: "func many(" + params + " int) int { return a0 }", body: "n++"},
		{pre: "func many(" + strings.ReplaceAll(params, ", ", " string, ") + " string) string { return a0 }", body: "n++"},
		{body: "x := 0\n\tfor x < 3 {\n\t" + rep(17000, func(i int) string { return "x++\n\t" }) + "}\n\tn = x"},
		{body: "x := 0\n\tif b {\n\t" + rep(17000, func(i int) string { return "x++\n\t" }) + "}\n\tn = x"},
	}
}

// fnFiles: every catalogue entry once (host chosen by entry index + seed), every binder form once (parameter name chosen
// likewise), then nrand files that combine two or three catalogue statements and an expression in one function
func fnFiles(seed int64, rng *rand.Rand, nrand int) []spanFile {
	var out []spanFile
	rot := int(seed % 1000)
	if rot < 0 {
		rot = -rot
	}
	for i, sn := range stmtCatalogue {
		hs := hostsFor(sn, false)
		h := hs[(i+rot)%len(hs)]
		if sn.imp != "" { // the importing files: bytecode hosts only, there the package is usable
			h = []fnHost{hostFilter, hostAux}[(i+rot)%2]
		}
		out = append(out, renderFn(sn, h, false, fmt.Sprintf("stmt %d in %s: %s", i, hostNames[h], sn.body)))
	}
	for i, sn := range exprCatalogue {
		hs := hostsFor(sn, true)
		h := hs[(i+rot)%len(hs)]
		out = append(out, renderFn(sn, h, true, fmt.Sprintf("expr %d in %s: %s", i, hostNames[h], sn.body)))
	}
	for i, sn := range bigSnippets() {
		h := []fnHost{hostFilter, hostDo}[(i+rot)%2]
		out = append(out, renderFn(sn, h, false, fmt.Sprintf("limit %d in %s", i, hostNames[h])))
	}
	sigPos := []string{"a parameter", "the result", "a local variable", "a variadic parameter", "unnamed and blank parameters", "a field of the receiver"}
	for i, sn := range sigTypes {
		pos := (i + rot) % len(sigPos)
		out = append(out, renderSig(sn, pos, fmt.Sprintf("type %s as %s", sn.body, sigPos[pos])))
	}
	for i, sn := range binderForms {
		name := binderNames[(i+rot)%len(binderNames)]
		out = append(out, renderBinder(sn, name, fmt.Sprintf("binder %d, parameter %s: %s", i, name, sn.body)))
	}
	plain := func(cat []snippet) []snippet {
		var xs []snippet
		for _, sn := range cat {
			if sn.only == "" && sn.imp == "" && sn.pre == "" && !strings.Contains(sn.body, ":=") && !strings.Contains(sn.body, "L:") && !strings.Contains(sn.body, "var ") {
				xs = append(xs, sn)
			}
		}
		return xs
	}
	ps, pe := plain(stmtCatalogue), plain(exprCatalogue)
	for i := 0; i < nrand; i++ {
		k := 2 + rng.Intn(2)
		var parts []string
		for j := 0; j < k; j++ {
			parts = append(parts, ps[rng.Intn(len(ps))].body)
		}
		e := pe[rng.Intn(len(pe))].body
		body := strings.Join(parts, "\n\t")
		switch rng.Intn(4) {
		case 0:
			body = "for n < 3 {\n\t" + body + "\n\tn++\n\t}"
		case 1:
			body = "if " + e + " {\n\t" + body + "\n\t}"
		case 2:
			body += "\n\tif " + e + " {\n\t\tn = 0\n\t}"
		}
		h := []fnHost{hostFilter, hostDo, hostAux, hostMethod}[rng.Intn(4)]
		out = append(out, renderFn(snippet{body: body}, h, false, fmt.Sprintf("random statements in %s", hostNames[h])))
	}
	return out
}
