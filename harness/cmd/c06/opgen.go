package main

// Where atoms built from the regenerated filter-op table (go2coq optable, -ops): one generator for EVERY op whose DSL form takes a
// pattern variable (`m[$Value]...`). The form the op generator documents is the source text; $Value becomes the variable, $Args[0]
// an argument chosen per op. An op of the table this file has no argument for is an error (the table grew: extend opArg).

import (
	"encoding/json"
	"fmt"
	"math/rand"
	"os"
	"sort"
	"strings"

	"github.com/quasilyte/go-ruleguard/ruleguard/ir"
)

type OpInfo struct {
	Name      string `json:"name"`
	Num       int    `json:"num"`
	Form      string `json:"form"`
	ValueType string `json:"value_type"`
	HasVar    bool   `json:"has_var"`
	IsBinary  bool   `json:"is_binary"`
	IsLit     bool   `json:"is_lit"`
}

var (
	opTable []OpInfo
	varOps  []OpInfo           // the ops whose DSL form takes a variable
	opByNum = map[int]OpInfo{} // by op number
)

const varSlot = "m[$Value]"

func loadOpTable(path string) error {
	b, err := os.ReadFile(path)
	if err != nil {
		return err
	}
	var t struct {
		Ops []OpInfo `json:"ops"`
	}
	if err := json.Unmarshal(b, &t); err != nil {
		return err
	}
	opTable = t.Ops
	for _, op := range opTable {
		opByNum[op.Num] = op
		if strings.Contains(op.Form, varSlot) {
			varOps = append(varOps, op)
		}
		// the table read from the source is the table the linked implementation has
		if got := ir.FilterOp(op.Num).String(); got != op.Name {
			return fmt.Errorf("op table: op %d is %s in the source and %q in the linked package", op.Num, op.Name, got)
		}
	}
	if len(varOps) == 0 {
		return fmt.Errorf("op table: no op takes a variable")
	}
	// every generator of this file belongs to an op of the table
	for name := range opArg {
		found := false
		for _, op := range varOps {
			found = found || op.Name == name
		}
		if !found {
			return fmt.Errorf("op table: generator for %s, which is not an op that takes a variable", name)
		}
	}
	return nil
}

// probeArgs: the systematic probes use an argument that is known to be fine (the first of each pool), so that only the variable decides
var probeArgs bool

func pickArg(rng *rand.Rand, xs []string) string {
	if probeArgs {
		return xs[0]
	}
	return pick(rng, xs)
}

type argSpec struct {
	src   string // source of $Args[0]
	chk   string // name table the argument is checked against
	arg   string
	extra string // a second variable the argument mentions
	decl  bool   // needs the custom filter function flt
}

// the value-typed forms are compared with a constant: operand class (Validate.v) and the literal
var opValueCls = map[string][2]string{
	"VarText":     {"text", `"a"`},
	"VarLine":     {"line", "4"},
	"VarValueInt": {"valueint", "4"},
	"VarTypeSize": {"size", "4"},
}

var opArg = map[string]func(rng *rand.Rand) argSpec{
	"VarFilter": func(rng *rand.Rand) argSpec { return argSpec{src: "flt", decl: true} },
	"VarNodeIs": func(rng *rand.Rand) argSpec {
		a := pickArg(rng, tagPool)
		return argSpec{src: fmt.Sprintf("%q", a), chk: "tag", arg: a}
	},
	"VarObjectIs": func(rng *rand.Rand) argSpec {
		a := pickArg(rng, objPool)
		return argSpec{src: fmt.Sprintf("%q", a), chk: "object", arg: a}
	},
	"VarTypeIs": func(rng *rand.Rand) argSpec {
		return argSpec{src: bq(pick(rng, []string{"int", "[]$t", "error", "map[$k]$v", "*$t", "func($_) $_"}))}
	},
	"VarTypeUnderlyingIs": func(rng *rand.Rand) argSpec {
		return argSpec{src: bq(pick(rng, []string{"int", "[]$t", "struct{$*_}", "map[$k]$v", "*$t"}))}
	},
	"VarTypeIdenticalTo": func(rng *rand.Rand) argSpec {
		w := pick(rng, varPool)
		return argSpec{src: fmt.Sprintf("m[%q]", w), extra: w}
	},
	"VarTypeOfKind": func(rng *rand.Rand) argSpec {
		a := pickArg(rng, kindPool)
		return argSpec{src: fmt.Sprintf("%q", a), chk: "kind", arg: a}
	},
	"VarTypeUnderlyingOfKind": func(rng *rand.Rand) argSpec {
		a := pickArg(rng, kindPool)
		return argSpec{src: fmt.Sprintf("%q", a), chk: "kind", arg: a}
	},
	"VarTypeConvertibleTo": func(rng *rand.Rand) argSpec {
		return argSpec{src: bq(pick(rng, []string{"int", "[]byte", "string", "map[string]int", "*int", "[4]int"}))}
	},
	"VarTypeAssignableTo": func(rng *rand.Rand) argSpec {
		return argSpec{src: bq(pick(rng, []string{"int", "[]byte", "string", "error", "interface{}"}))}
	},
	"VarTypeImplements": func(rng *rand.Rand) argSpec { return argSpec{src: "`error`"} },
	"VarTypeHasMethod":  func(rng *rand.Rand) argSpec { return argSpec{src: "`io.Writer.Write`"} },
	"VarTextMatches": func(rng *rand.Rand) argSpec {
		return argSpec{src: bq(pick(rng, []string{"^a", "a+b", `\d`, "(?i)x"}))}
	},
	"VarContains": func(rng *rand.Rand) argSpec {
		return argSpec{src: bq(pick(rng, []string{"$_ + 1", "f($*_)", "$q"}))}
	},
}

// opAtom: the atom that applies op to variable v. (An op without $Args needs no generator; an op with an argument and without
// an entry in opArg is an error.)
func opAtom(rng *rand.Rand, op OpInfo, v string) (Atom, error) {
	src := strings.ReplaceAll(op.Form, "$Value", fmt.Sprintf("%q", v))
	a := Atom{Vars: []string{v}, Uses: [][2]string{{op.Name, v}}, Extra: []string{}}
	if cl, ok := opValueCls[op.Name]; ok {
		a.Src = src + " == " + cl[1]
		a.Chk, a.Eq, a.L, a.R = "binary", true, cl[0], "lit"
		return a, nil
	}
	if strings.Contains(src, "$Args[1]") || strings.Count(src, "$Value") > 0 {
		return a, fmt.Errorf("op %s: form %q is not understood", op.Name, op.Form)
	}
	if strings.Contains(src, "$Args[0]") {
		g := opArg[op.Name]
		if g == nil {
			return a, fmt.Errorf("op %s (%s) takes a variable and an argument: the harness has no argument generator for it", op.Name, op.Form)
		}
		s := g(rng)
		src = strings.ReplaceAll(src, "$Args[0]", s.src)
		a.Chk, a.Arg, a.Decl = s.chk, s.arg, s.decl
		if s.extra != "" {
			a.Vars = append(a.Vars, s.extra)
			a.Extra = append(a.Extra, s.extra)
		}
	}
	if strings.Contains(src, "$Args") || strings.Contains(src, "$Value") {
		return a, fmt.Errorf("op %s: form %q has a placeholder the harness does not know", op.Name, op.Form)
	}
	a.Src = src
	return a, nil
}

// opProbeRules: for every op that takes a variable, rules that apply it to a variable that no alternative binds / that only the
// first of two alternatives binds (plain, negated, inside && and ||), and to a bound variable (the control: the op and its
// argument are fine). For ops whose argument mentions a second variable the probe is also put there.
func opProbeRules(rng *rand.Rand) ([]RuleDesc, error) {
	probeArgs = true
	defer func() { probeArgs = false }()
	one := []Alt{compileAlt("$x + $y")}
	two := []Alt{compileAlt("$x + $y"), compileAlt("$x - $z")}
	bound := Atom{Src: `m["x"].Pure`, Vars: []string{"x"}, Uses: [][2]string{{"VarPure", "x"}}, Extra: []string{}}
	var out []RuleDesc
	for _, op := range varOps {
		mk := func(alts []Alt, v string, shape int, second bool) error {
			var a Atom
			var err error
			if second {
				// the probe variable in the argument position
				a, err = opAtom(rng, op, "x")
				if err != nil {
					return err
				}
				if len(a.Extra) != 1 {
					return nil
				}
				a.Src = strings.Replace(a.Src, fmt.Sprintf("m[%q])", a.Extra[0]), fmt.Sprintf("m[%q])", v), 1)
				a.Extra[0] = v
				a.Vars[len(a.Vars)-1] = v
			} else {
				a, err = opAtom(rng, op, v)
				if err != nil {
					return err
				}
				for i, e := range a.Extra { // the second variable is a bound one: only the probe decides
					a.Src = strings.Replace(a.Src, fmt.Sprintf("m[%q])", e), `m["x"])`, 1)
					a.Extra[i] = "x"
					a.Vars[len(a.Vars)-1] = "x"
				}
			}
			d := RuleDesc{Alts: alts, Report: "msg", Probe: op.Name + ":" + v}
			switch shape {
			case 0:
				d.Where, d.Atoms = a.Src, []Atom{a}
			case 1:
				d.Where, d.Atoms = "!("+a.Src+")", []Atom{a}
			case 2:
				d.Where, d.Atoms = bound.Src+" && "+a.Src, []Atom{bound, a}
			default:
				d.Where, d.Atoms = "("+a.Src+" || "+bound.Src+")", []Atom{a, bound}
			}
			out = append(out, d)
			return nil
		}
		for shape := 0; shape < 4; shape++ {
			if shape != 3 {
				if err := mk(one, "nosuch", shape, false); err != nil {
					return nil, err
				}
			}
			if shape == 0 || shape == 3 {
				if err := mk(two, "y", shape, false); err != nil {
					return nil, err
				}
			}
		}
		if err := mk(two, "x", 0, false); err != nil {
			return nil, err
		}
		if cl, ok := opValueCls[op.Name]; ok {
			// value-typed forms: the probe as the right operand of a comparison, and behind a constant that is moved to the right
			form := func(v string) string { return strings.ReplaceAll(op.Form, "$Value", fmt.Sprintf("%q", v)) }
			for _, pv := range []struct {
				alts []Alt
				v    string
			}{{one, "nosuch"}, {two, "y"}, {two, "x"}} {
				right := Atom{Src: form("x") + " == " + form(pv.v), Vars: []string{"x", pv.v}, Uses: [][2]string{{op.Name, "x"}, {op.Name, pv.v}},
					Extra: []string{}, Chk: "binary", Eq: true, L: cl[0], R: cl[0]}
				swapped := Atom{Src: cl[1] + " != " + form(pv.v), Vars: []string{pv.v}, Uses: [][2]string{{op.Name, pv.v}},
					Extra: []string{}, Chk: "binary", Eq: true, L: "lit", R: cl[0]}
				for _, a := range []Atom{right, swapped} {
					out = append(out, RuleDesc{Alts: pv.alts, Report: "msg", Probe: op.Name + ":" + pv.v, Where: a.Src, Atoms: []Atom{a}})
				}
			}
		}
		if err := mk(one, "nosuch", 0, true); err != nil {
			return nil, err
		}
		if err := mk(two, "z", 2, true); err != nil {
			return nil, err
		}
	}
	return out, nil
}

// irUses: the (op, variable) pairs of the IR nodes whose DSL form takes a variable, and the variables that appear as the
// argument of Type.IdenticalTo, of a converted Where expression -- what the description of the rule must list
func irUses(e ir.FilterExpr, uses *[]string, extra *[]string) {
	if op, ok := opByNum[int(e.Op)]; ok && strings.Contains(op.Form, varSlot) {
		if s, ok := e.Value.(string); ok {
			*uses = append(*uses, op.Name+":"+s)
		} else {
			*uses = append(*uses, fmt.Sprintf("%s:<%T>", op.Name, e.Value))
		}
		if op.Name == "VarTypeIdenticalTo" && len(e.Args) == 1 {
			if s, ok := e.Args[0].Value.(string); ok {
				*extra = append(*extra, s)
			}
			return
		}
	}
	for _, a := range e.Args {
		irUses(a, uses, extra)
	}
}

func descUses(d *RuleDesc) (uses, extra []string) {
	for _, a := range d.Atoms {
		for _, u := range a.Uses {
			uses = append(uses, u[0]+":"+u[1])
		}
		extra = append(extra, a.Extra...)
	}
	return
}

func sameMultiset(a, b []string) bool {
	a, b = append([]string{}, a...), append([]string{}, b...)
	sort.Strings(a)
	sort.Strings(b)
	return strings.Join(a, "\x00") == strings.Join(b, "\x00") && len(a) == len(b)
}
