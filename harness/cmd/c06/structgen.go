// stream "struct": the structure of a rules file around the rules -- which functions are rule groups, what a group body may
// contain, local helper functions (signature x body x call), custom filter functions (statements, native calls with many
// arguments), init functions.  The generator writes type-correct Go most of the time and deviates in one place at a time.
// No model predicts the verdict here: only "no panic / crash / hang, errors are located" is judged.
package main

import (
	"fmt"
	"math/rand"
	"regexp"
	"strings"
)

func oneOf(rng *rand.Rand, xs ...string) string { return xs[rng.Intn(len(xs))] }

func argFor(rng *rand.Rand, typ string) string {
	switch typ {
	case "dsl.Var":
		return oneOf(rng, `m["x"]`, `m["y"]`, `(m["x"])`, `m["$$"]`, `m[cX]`, `m["x"+"s"]`, `m["x"]`, `m["y"]`)
	case "string":
		return oneOf(rng, `"int"`, "`a`", "cA", `"a" + "b"`, `("a")`)
	case "int":
		return oneOf(rng, "4", "c4", "0x10", "010", "2 + 2", "(8)", "1_0")
	case "dsl.Matcher":
		return "m"
	default:
		return oneOf(rng, "true", "false", `m["x"].Pure`)
	}
}

// a local helper definition, one call of it, and whether the call is a bool expression
func genHelper(rng *rand.Rand, name string) (def, call string, isBool bool) {
	types := []string{"dsl.Var", "dsl.Var", "dsl.Var", "string", "int", "dsl.Matcher", "bool"}
	names := []string{"v", "w", "s", "n", "Text", "u", "ok", "xs", "Pure"}
	rng.Shuffle(len(names), func(i, j int) { names[i], names[j] = names[j], names[i] })
	np := rng.Intn(4)
	var ps, args []string
	firstVar := ""
	variadic := np > 0 && rng.Intn(10) == 0
	unnamedAll := rng.Intn(30) == 0
	for i := 0; i < np; i++ {
		typ := types[rng.Intn(len(types))]
		pname := names[i]
		switch {
		case rng.Intn(30) == 0:
			pname = "_"
		case rng.Intn(40) == 0:
			pname = "m"
		}
		t := typ
		last := i == np-1
		if variadic && last {
			t = "..." + typ
		}
		group := !variadic && rng.Intn(10) == 0 // a, b T
		switch {
		case unnamedAll:
			ps = append(ps, t)
		case group:
			ps = append(ps, pname+", "+pname+"2 "+t)
		case rng.Intn(80) == 0: // mixed named and unnamed: a parse error
			ps = append(ps, t)
		default:
			ps = append(ps, pname+" "+t)
		}
		n := 1
		if group {
			n = 2
		}
		if variadic && last {
			n = rng.Intn(4) // 0..3 arguments for the variadic parameter
		}
		for k := 0; k < n; k++ {
			args = append(args, argFor(rng, typ))
		}
		if typ == "dsl.Var" && !(variadic && last) && !unnamedAll && pname != "_" && firstVar == "" {
			firstVar = pname
		}
	}
	v := firstVar
	if v == "" {
		v = `m["x"]`
	}
	boolBodies := []string{
		"return " + v + ".Pure",
		"return " + v + `.Type.Is("int") && ` + v + ".Type.Size == 010",
		"return " + v + ".Pure || !" + v + ".Const",
		"return (" + v + ".Const)",
		"return " + v + `.Text == "a" + "b"`,
		"return " + v + ".Type.Size >= 1<<2",
		"return " + v + ".Text.Matches(`[`)",
		"return " + v + ".Node.Is(`Ident`)",
		"return true",
		"return 'a' == 'a'",
		"return 1 == 1",
		"return func() bool { return true }()",
		"if " + v + ".Pure { return true }; return false",
		"ok2 := " + v + ".Pure; return ok2",
		"panic(1)",
		"",
		"return",
	}
	result, body := "bool", boolBodies[rng.Intn(8)]
	if rng.Intn(6) == 0 {
		body = boolBodies[rng.Intn(len(boolBodies)-2)]
	}
	isBool = true
	switch rng.Intn(40) {
	case 0:
		result, body = "(res bool)", oneOf(rng, "return", "res = "+v+".Pure; return", "return "+v+".Pure", "return res")
	case 1:
		result, body = "(bool, error)", "return "+v+".Pure, nil"
		isBool = false
	case 2:
		result, body = "", oneOf(rng, "", "return", "_ = "+v)
		isBool = false
	case 3:
		result, body = "int", "return 1"
		isBool = false
	case 4:
		result, body = "(a, b bool)", oneOf(rng, "return", "return true, false")
		isBool = false
	case 5:
		result, body = "(_ bool)", oneOf(rng, "return", "return "+v+".Pure")
	case 6:
		body = boolBodies[len(boolBodies)-1-rng.Intn(2)] // missing return / not enough values: type errors
	}
	def = fmt.Sprintf("%s := func(%s) %s { %s }", name, strings.Join(ps, ", "), result, body)
	switch rng.Intn(60) {
	case 0:
		def = fmt.Sprintf("%s, %sB := func(%s) %s { %s }, 1; _ = %sB", name, name, strings.Join(ps, ", "), result, body, name)
	case 1:
		def = fmt.Sprintf("var %s = func(%s) %s { %s }", name, strings.Join(ps, ", "), result, body)
	case 2:
		def = fmt.Sprintf("%s := (func(%s) %s { %s })", name, strings.Join(ps, ", "), result, body)
	}
	call = name + "(" + strings.Join(args, ", ") + ")"
	if rng.Intn(40) == 0 && len(args) > 0 {
		call = name + "(" + strings.Join(args[:len(args)-1], ", ") + ")"
	}
	if variadic && rng.Intn(6) == 0 {
		call = name + "(" + strings.Join(args, ", ") + "...)"
	}
	return def, call, isBool
}

var oneVarParam = regexp.MustCompile(`^\w+ := func\(\w+ dsl\.Var\) bool `)

var otherStmts = []string{
	"m.Import(`fmt`)", "var x = 1; _ = x", "const k4 = 4", "_ = m", "if true { }", "for { }", "return", "x := 1; _ = x",
	"type T int", "{ }", "L: for { break L }", "defer func() {}()", "go func() {}()", "m.Import(`os`)", "m.Match(`$x`)",
	"var _ dsl.Var = m[`x`]", "m.Import(``)", "m.Import(`a/` + `b`)", "var f2 func(dsl.Var) bool; _ = f2", ";",
}

func genGroupBody(rng *rand.Rand) string {
	var stmts []string
	var calls []string
	nh := rng.Intn(3)
	hnames := []string{"f", "h", "k"}
	for i := 0; i < nh; i++ {
		name := hnames[i]
		if i > 0 && rng.Intn(40) == 0 {
			name = hnames[0] // redefinition in the same scope
		}
		d, c, isBool := genHelper(rng, name)
		stmts = append(stmts, d)
		if isBool {
			calls = append(calls, c)
		} else {
			stmts = append(stmts, oneOf(rng, "_ = "+name, "_ = "+name, c))
		}
		if i == 0 && isBool && oneVarParam.MatchString(d) && rng.Intn(2) == 0 { // a helper that calls the previous one
			stmts = append(stmts, "n2 := func(z dsl.Var) bool { return "+name+"(z) || z.Const }")
			calls = append(calls, `n2(m["y"])`)
		}
	}
	if rng.Intn(10) == 0 {
		k := rng.Intn(len(stmts) + 1)
		stmts = append(stmts[:k], append([]string{otherStmts[rng.Intn(len(otherStmts))]}, stmts[k:]...)...)
	}
	where := ""
	for i, c := range calls {
		if rng.Intn(4) == 0 {
			c = "!" + c
		}
		if i == 0 {
			where = c
		} else {
			where += oneOf(rng, " && ", " || ") + c
		}
	}
	if where == "" && rng.Intn(2) == 0 {
		where = `m["x"].Pure`
	} else if where != "" && rng.Intn(4) == 0 {
		where = `m["y"].Pure || (` + where + ")"
	}
	rule := "m.Match(`$x + $y`)"
	if where != "" {
		rule += ".Where(" + where + ")"
	}
	rule += oneOf(rng, ".Report(`msg $x`)", ".Report(`msg $x`)", ".Suggest(`$y + $x`)", ".Report(`r`).At(m[`y`])", ".Report(`msg $y`)")
	if rng.Intn(40) == 0 {
		rule = "m.Match(`$x + $y`)"
	}
	stmts = append(stmts, rule)
	if rng.Intn(20) == 0 {
		stmts = append(stmts, otherStmts[rng.Intn(len(otherStmts))])
	}
	return "\t" + strings.Join(stmts, "\n\t") + "\n"
}

// a custom filter function: statements of the bytecode compiler's language, native calls with many arguments
func genFilterFunc(rng *rand.Rand, name string) string {
	manyArgs := func(n int) string {
		var sb strings.Builder
		for i := 0; i < n; i++ {
			sb.WriteString(oneOf(rng, ", 1", `, "s"`, ", n", ", s"))
		}
		return sb.String()
	}
	counts := []int{0, 1, 2, 3, 17, 254, 255, 256, 257, 300}
	n := counts[rng.Intn(len(counts))]
	if rng.Intn(40) == 0 {
		n = 5000
	}
	exprs := []string{
		`fmt.Sprintf("%d"` + manyArgs(n) + `) == ""`,
		`fmt.Sprintf("%d"` + manyArgs(n) + `) == ""`,
		`fmt.Sprint(` + strings.TrimPrefix(manyArgs(n+1), ", ") + `) == ""`,
		`strings.Contains(s, "a")`,
		`strings.Replace(s, "a", "b", n) == s`,
		`strconv.Itoa(n) == s`,
		`len(s) == n`,
		`s[0] == 'a'`,
		`s[1:n] == "a"`,
		name + `Aux(n, s) > 0`,
		`ctx.SizeOf(ctx.Type) > n && types.Identical(ctx.Type, ctx.GetType("int"))`,
		`ctx.GetInterface("io.Reader") != nil`,
		`n+n*n-n/1%7 == 0 || !(s != "")`,
		`func() bool { return true }()`,
		`[]int{1}[0] == n`,
		`len([]int{}) == 0`,
		`strings.NewReplacer(s, s) != nil`,
		`strings.Join([]string{s}, s) == s`,
	}
	extra := []string{
		"", "", "", "for n < 3 { n++ }", "if n > 0 { n = 1 } else if n < 0 { n = 2 } else { n = 3 }", "for i := 0; i < 3; i++ { n += i }",
		"switch n { case 1: s = \"b\" }", "n++", "{ n := 2; _ = n }", "goto L; L:", "defer println(n)", "println(n, s)", "_ = []string{s}",
		"for range s { n++ }", "var p *int = &n; _ = p", "n += 1", "n, s = 2, \"b\"", "var q int; _ = q", "s += \"x\"",
	}
	expr := exprs[rng.Intn(len(exprs))]
	if rng.Intn(3) == 0 {
		expr = exprs[rng.Intn(3)] // the variadic native calls
	}
	body := "n := 1; s := ctx.Type.String(); " + extra[rng.Intn(len(extra))] + "; _, _ = n, s; return " + expr
	sig := "func " + name + "(ctx *dsl.VarFilterContext) bool"
	switch rng.Intn(30) {
	case 0:
		sig = "func " + name + "(ctx *dsl.VarFilterContext) (ok bool)"
	case 1:
		sig = "func " + name + "(ctx *dsl.VarFilterContext, extra ...int) bool"
	}
	aux := []string{
		"func " + name + "Aux(n int, s string) int { return n + len(s) }\n",
		"func " + name + "Aux(n int, s string) int { return n + len(s) }\n",
		"func " + name + "Aux(n int, s string) int { return " + name + "Aux(n, s) }\n",
		"func " + name + "Aux(n int, s ...string) int { return n }\n",
		"func " + name + "Aux(n int, s string) (r int) { r = n; return }\n",
		"func " + name + "Aux(_ int, _ string) int { return 0 }\n",
		"func " + name + "Aux(n int, s string) int { if fmt.Sprintf(\"\"" + manyArgs(n) + ") == \"\" { return 1 }; return 0 }\n",
	}[rng.Intn(7)]
	out := sig + " { " + body + " }\n"
	if rng.Intn(2) == 0 {
		return aux + out
	}
	return out + aux
}

func genStructFile(rng *rand.Rand) string {
	var sb strings.Builder
	sb.WriteString("package gorules\n\nimport \"github.com/quasilyte/go-ruleguard/dsl\"\n")
	// custom filter functions need the packages the bytecode compiler knows; importing them costs a type check from source
	withFlt := rng.Intn(10) == 0
	if withFlt {
		sb.WriteString("import (\n\t\"fmt\"\n\t\"strconv\"\n\t\"strings\"\n\t\"github.com/quasilyte/go-ruleguard/dsl/types\"\n)\n\nvar _ = fmt.Sprint\nvar _ = strconv.Itoa\nvar _ = strings.Contains\nvar _ types.Type\n")
	}
	sb.WriteString("\nvar _ dsl.Matcher\n\nconst (\n\tcA = \"a\"\n\tcX = \"x\"\n\tc4 = 4\n)\n\ntype A struct{}\ntype B struct{}\n\n")
	nd := 1 + rng.Intn(4)
	haveFlt := false
	gnames := []string{"g", "h", "k", "l"}
	for i := 0; i < nd; i++ {
		switch k := rng.Intn(10); {
		case k < 6: // a rule group, possibly a method, possibly named like another one
			name := gnames[i]
			if rng.Intn(4) == 0 {
				name = "_"
			}
			recv := ""
			if rng.Intn(6) == 0 {
				recv = oneOf(rng, "(A) ", "(B) ", "(a *A) ", "(_ B) ")
				if rng.Intn(2) == 0 {
					name = "meth"
				}
			}
			sig := "(m dsl.Matcher)"
			if rng.Intn(30) == 0 {
				sig = oneOf(rng, "(_ dsl.Matcher)", "(m dsl.Matcher) bool", "(m, n dsl.Matcher)", "(m ...dsl.Matcher)", "(m *dsl.Matcher)", "()", "(dsl.Matcher)")
			}
			body := genGroupBody(rng)
			if haveFlt && rng.Intn(2) == 0 {
				body = "\tm.Match(`$x + $y`).Where(m[`x`].Filter(flt)).Report(`f`)\n" + body
			}
			doc := ""
			if rng.Intn(5) == 0 {
				doc = oneOf(rng, "//doc:summary s\n", "//doc:tags a b\n", "//doc:before x\n//doc:after y\n", "//doc:nosuch\n", "//doc:summary\n", "//doc:note n\n")
			}
			fmt.Fprintf(&sb, "%sfunc %s%s%s {\n%s}\n\n", doc, recv, name, sig, body)
		case k < 8:
			if !haveFlt && withFlt {
				sb.WriteString(genFilterFunc(rng, "flt") + "\n")
				haveFlt = true
			}
		case k == 8 && rng.Intn(4) == 0:
			sb.WriteString(oneOf(rng,
				"func init() { dsl.ImportRules(`p`, Bundle) }\nvar Bundle = dsl.Bundle{}\n\n",
				"func init() { dsl.ImportRules(cA, dsl.Bundle{}) }\n\n",
				"func init() { }\n\nfunc init() { }\n\n",
				"func init() { var b dsl.Bundle; dsl.ImportRules(`p`, b) }\n\n",
				"func init() { dsl.ImportRules(`p`, (dsl.Bundle{})) }\n\n",
			))
		case k == 9:
			sb.WriteString(oneOf(rng,
				"var V = 1\n\n", "type T struct{ x int }\n\nfunc (T) g(m dsl.Matcher) { m.Match(`$x + 1`).Report(`t`) }\n\n", "func helper() {}\n\n",
				"var fn = func(m dsl.Matcher) {}\n\n", "func (A) Error() string { return `` }\n\n", "func gen[T any](m dsl.Matcher) {}\n\n",
				"func (A) _(m dsl.Matcher) { m.Match(`$x + 2`).Report(`t`) }\n\n",
			))
		}
	}
	if withFlt && !haveFlt {
		sb.WriteString(genFilterFunc(rng, "flt") + "\n")
		haveFlt = true
	}
	if haveFlt && rng.Intn(2) == 0 {
		sb.WriteString("func last(m dsl.Matcher) {\n\tm.Match(`$x + $y`).Where(m[`x`].Filter(flt)).Report(`f`)\n}\n")
	}
	return sb.String()
}
