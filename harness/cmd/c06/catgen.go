package main

// Generated parts of the notdsl catalogue (fixed lists crossed with each other; nothing is drawn from the seed except which of the
// secondary positions an index expression is put in):
//
//	typeStringEntries  a name typematch cannot resolve, in every syntactic position of a type string, under every filter that
//	                   takes a type string
//	indexVarEntries    index expressions over maps / arrays / slices of dsl.Var that are NOT the matcher, with constant indices
//	                   of every kind (and the matcher itself with constant indices that are not plain literals), in every
//	                   position of the DSL that takes a dsl.Var
//
// Oracle: the one of stream notdsl (no panic / crash / hang, located error, line moves with the source); entries with want ==
// "error" must in addition be rejected (a dsl.Var that does not come from the matcher names no pattern variable).

import (
	"fmt"
	"strings"
)

type catEntry struct {
	body string
	want string // "" or "error"
}

// unresolvable / unsupported things where a type is expected
var tsNames = []string{
	"unknownpkg.T",     // package the import table does not know
	"undeclared",       // unqualified name that is no builtin
	"interface{ M() }", // a type form typematch does not convert
	"io.NoSuch",        // known package without the name
	"a.b.c",            // selector of a selector
	"[...]int",         // array of unknown length
	"struct{ x int }",  // struct types are not supported
}

// every position of a type string a type can stand in (%s = the name)
var tsPositions = []string{
	"%s", "*%s", "**%s", "(%s)", "[]%s", "[4]%s", "[$n]%s", "[][]%s", "map[%s]int", "map[int]%s", "map[string][]%s", "chan %s", "<-chan %s", "chan<- %s",
	"func(%s)", "func(int, %s)", "func(%s, int)", "func(%s) int", "func() %s", "func(int) %s", "func() (int, %s)", "func() (%s, int)",
	"func(%s) %s", "func(*%s)", "func() []%s", "func($t, %s)", "func($t) %s",
	"func($*_) %s", "func($*_, %s)", "func(%s, $*_)", "func() ($*_, %s)", "func() (%s, $*_)",
	"func(func(%s))", "func(func() %s)", "func() func() %s", "func() func(%s)", "[]func(%s)", "[]func() %s", "map[string]func(int) %s", "*func(int) %s",
	"chan func(%s)", "func(x %s)", "func() (x %s)", "func(...%s)", "struct{ x %s }", "struct{ %s }", "func(struct{ x %s })",
}

// the filters that take a type string (%s = the quoted type string)
var tsHosts = []string{
	"m[`x`].Type.Is(%s)",
	"m[`x`].Type.Underlying().Is(%s)",
	"m[`$$`].SinkType.Is(%s)",
	"m[`x`].Type.ConvertibleTo(%s)",
	"m[`x`].Type.AssignableTo(%s)",
	"!m[`x`].Type.Is(%s) && m[`y`].Pure",
	"m[`$$`].Type.Is(%s)",
}

func typeStringEntries() []catEntry {
	var out []catEntry
	for pi, pos := range tsPositions {
		for ni, name := range tsNames {
			ts := strings.ReplaceAll(pos, "%s", name)
			// one host per (position, name) pair: with 7 names and 7 hosts every position stands under every host once
			hosts := []string{tsHosts[(pi+ni)%len(tsHosts)]}
			for _, h := range hosts {
				where := fmt.Sprintf(h, "`"+ts+"`")
				out = append(out, catEntry{body: "func g(m dsl.Matcher) { m.Match(`$x + $y`).Where(" + where + ").Report(`x`) }"})
			}
		}
	}
	// through a local helper, with the type string as an argument
	for i, ts := range []string{"func(unknownpkg.T)", "func() undeclared", "func(int, a.b.c) int", "[]func(io.NoSuch)"} {
		h := tsHosts[i%3]
		out = append(out, catEntry{body: "func g(m dsl.Matcher) { f := func(s string) bool { return " + fmt.Sprintf(h, "s") +
			" }; m.Match(`$x + $y`).Where(f(`" + ts + "`)).Report(`x`) }"})
		out = append(out, catEntry{body: "func g(m dsl.Matcher) { f := func(v dsl.Var) bool { return " +
			strings.ReplaceAll(fmt.Sprintf(h, "`"+ts+"`"), "m[`x`]", "v") + " }; m.Match(`$x + $y`).Where(f(m[`x`])).Report(`x`) }"})
		out = append(out, catEntry{body: "const ts = `" + ts + "`\nfunc g(m dsl.Matcher) { m.Match(`$x + $y`).Where(" + fmt.Sprintf(h, "ts") + ").Report(`x`) }"})
	}
	return out
}

// package-level declarations every index entry starts with
const ixPrelude = `type MS string

const idx = 1
const zero = 0
const (
	i0 = iota
	i1
)
const tc int8 = 1
const bc = true
const fc = 2.5
const rc = 'a'
const sc = "x"
const msc MS = "x"

var (
	vars  [3]dsl.Var
	vs    []dsl.Var
	pa    *[3]dsl.Var
	mi    map[int]dsl.Var
	flags map[bool]dsl.Var
	mf    map[float64]dsl.Var
	mr    map[rune]dsl.Var
	mc    map[complex128]dsl.Var
	ms    map[string]dsl.Var
	mn    map[MS]dsl.Var
	mm    dsl.Matcher
	ma    map[interface{}]dsl.Var
	mvs   map[string][]dsl.Var
	st    struct {
		v  dsl.Var
		vs [2]dsl.Var
	}
	n  int
	dv dsl.Var
)

func flt(ctx *dsl.VarFilterContext) bool { return ctx.Type != nil }
`

type ixExpr struct {
	expr    string
	matcher bool // rooted at the group's matcher parameter (or at another map with string keys): no verdict is expected
}

func indexVarExprs() []ixExpr {
	var out []ixExpr
	add := func(root string, idxs ...string) {
		for _, k := range idxs {
			// a string-keyed container that is not the matcher: whether `ms["x"]` may stand for `m["x"]` is not judged here
			str := root == "ms" || root == "mn" || root == "mm" || (root == "ma" && (k == "`x`" || k == "sc" || k == "msc"))
			out = append(out, ixExpr{expr: root + "[" + k + "]", matcher: root == "m" || root == "(m)" || str})
		}
	}
	add("vars", "1", "idx", "1-1", "zero", "i1", "tc", "len(`ab`)", "1.0", "'\\x01'", "(1)", "1<<1", "+1", "int(idx)", "n", "idx*2", "0x1", "2 % 2")
	add("vs", "0", "idx", "1-1", "i0")
	add("pa", "idx", "2")
	add("(*pa)", "idx")
	add("(vars)", "idx")
	add("mi", "1", "idx", "-1", "1-1", "i1", "-idx", "n", "1e3")
	add("flags", "true", "false", "bc", "!true", "1 == 1", "idx > 0", "!bc", "sc == `x`", "n > 0")
	add("mf", "fc", "2.5", "1", "1/2.0", "-fc", "idx")
	add("mr", "rc", "'a'", "'a'+1", "97")
	add("mc", "1i", "2", "fc", "1+2i")
	add("ms", "`x`", "sc", "`x`+`y`", "sc+`y`", "\"x\"", "string(rc)")
	add("mn", "msc", "`x`", "MS(`x`)", "msc+`y`", "MS(sc)")
	add("mm", "`x`", "sc", "`x`+`y`")
	add("ma", "1", "idx", "`x`", "sc", "true", "nil", "2.5", "rc", "msc", "1i", "n")
	add("st.vs", "idx", "0")
	add("vars[idx:]", "0", "zero")
	add("[3]dsl.Var{}", "idx", "1")
	add("map[bool]dsl.Var{}", "true", "bc")
	add("map[int]dsl.Var{1: dv}", "idx", "1")
	add("[]dsl.Var{dv}", "zero", "0")
	add("mvs[`x`]", "idx", "1")
	add("mvs[sc]", "zero")
	// the matcher itself with a constant index that is not a plain string literal
	add("m", "sc", "`x`+``", "(`x`)", "string(`x`)", "sc+``", "string(rune(120))", "`x`[:]", "\"x\"")
	add("(m)", "`x`", "sc")
	return out
}

// the positions of the DSL that take a dsl.Var (%s = the expression); the first two are the ones whose ARGUMENT is a dsl.Var
var ixPositions = []string{
	"m.Match(`$x + $y`).At(%s).Report(`x`)",
	"m.Match(`$x + $y`).Where(m[`x`].Type.IdenticalTo(%s)).Report(`x`)",
	"m.Match(`$x + $y`).Where(%s.Pure).Report(`x`)",
	"m.Match(`$x + $y`).Where(%s.Type.Is(`int`)).Report(`x`)",
	"m.Match(`$x + $y`).Where(%s.Text == `a`).Report(`x`)",
	"m.Match(`$x + $y`).Where(`a` != %s.Text).Report(`x`)",
	"f := func(v dsl.Var) bool { return v.Pure }; m.Match(`$x + $y`).Where(f(%s)).Report(`x`)",
	"f := func(v dsl.Var) bool { return v.Type.IdenticalTo(%s) }; m.Match(`$x + $y`).Where(f(m[`x`])).Report(`x`)",
	"f := func(v, w dsl.Var) bool { return w.Type.IdenticalTo(v) }; m.Match(`$x + $y`).Where(f(%s, m[`x`])).Report(`x`)",
	"m.Match(`$x + $y`).Where(!%s.Const && m[`x`].Pure).Report(`x`)",
	"m.Match(`$x + $y`).Where(%s.Filter(flt)).Report(`x`)",
	"m.Match(`$x + $y`).Where(%s.Type.IdenticalTo(m[`x`])).Report(`x`)",
	"m.Match(`$x + $y`).Where(m[`x`].Pure).At(%s).Report(`x`)",
	"m.Match(`$x + $y`).Where(m[`x`].Pure || m[`y`].Type.IdenticalTo(%s)).Suggest(`$x`)",
	"m.Match(`$x + $y`).Where(%s.Contains(`$y`)).Report(`x`)",
	"m.Match(`$x + $y`).Where(%s.Line == 1 || %s.Value.Int() == 1).Report(`x`)",
	"m.Match(`$x + $y`).Where(%s.Node.Is(`Ident`) && %s.Object.Is(`Var`)).Report(`x`)",
	"m.Match(`$x + $y`).Where(%s.Type.Size == %s.Type.Size).Report(`x`)",
	"m.MatchComment(`x`).At(%s).Report(`x`)",
	"m.Match(`$x + $y`, `$x - $y`).At(%s).Report(`x`)",
}

func indexVarEntries(seed int64) []catEntry {
	var out []catEntry
	rest := ixPositions[2:]
	for i, x := range indexVarExprs() {
		ps := []string{ixPositions[0], ixPositions[1], rest[(i+int(seed))%len(rest)]}
		for _, p := range ps {
			e := catEntry{body: ixPrelude + "\nfunc g(m dsl.Matcher) { " + strings.ReplaceAll(p, "%s", x.expr) + " }"}
			if !x.matcher {
				e.want = "error"
			}
			out = append(out, e)
		}
	}
	return out
}
