// c06: Load never crashes or hangs; bad rules are rejected with a located error; accepted rules are well-bound.
// Three input streams, one JSON line per case on stdout:
//
//	bytes   arbitrary bytes and mutated fixture rules files                       (only panic / timeout / located matter)
//	notdsl  type-correct Go that is not valid DSL                                  (only panic / timeout / located matter)
//	dsl     valid DSL generated from an abstract rule description that is printed along, so that the Coq validation model
//	        can predict accept / reject; accepted rules are also run on a probe file (nil nodes, panics)
//	struct  generated file structures: several matcher functions (equal names, blank names, methods), local helper
//	        functions of every signature / body shape with matching calls, custom filter functions with native calls of
//	        many arguments, init functions, statements that are not rules      (only panic / timeout / located matter)
//
// Process structure: the command started by the check is a supervisor. It re-executes itself as a child (-child) that
// generates the cases deterministically and announces each one ({"begin":...}) before loading it. A fatal runtime error
// (stack overflow, out of memory: not recoverable by recover()) or a silent child is attributed to the announced case, which
// is reported with obs.kind "crash" / "timeout"; the child is restarted behind that case (-skip). The child's goroutine
// stacks are capped (debug.SetMaxStack) so that unbounded recursion dies quickly instead of eating 1 GB first.
package main

import (
	"bufio"
	"bytes"
	"encoding/json"
	"flag"
	"fmt"
	"go/token"
	"math/rand"
	"os"
	"path/filepath"
	"regexp"
	"sort"
	"strconv"
	"strings"
	"time"

	"verif/harness/internal/hutil"

	"github.com/quasilyte/go-ruleguard/ruleguard"
	"github.com/quasilyte/gogrep"
)

type Obs struct {
	Kind    string `json:"kind"` // ok | error | panic | timeout | crash (the process died: fatal runtime error)
	Err     string `json:"err,omitempty"`
	Located bool   `json:"located"`
}

// an error is located when it names a line of the rules file: rules.go:<n> with 1 <= n <= number of lines
func namesLine(msg string, src []byte) bool {
	m := lineRe.FindStringSubmatch(msg)
	if m == nil {
		return false
	}
	n, err := strconv.Atoi(m[1])
	return err == nil && n >= 1 && n <= bytes.Count(src, []byte("\n"))+1
}

// spanProblem: the line the error names lies in the construct the file was built around ("" = it does, or there is no located error)
func spanProblem(o Obs, lo, hi int) string {
	if o.Kind != "error" || !o.Located {
		return ""
	}
	m := lineRe.FindStringSubmatch(o.Err)
	n, _ := strconv.Atoi(m[1])
	if n < lo || n > hi {
		return fmt.Sprintf("the error names line %d; the construct that is wrong (or unsupported) stands on lines %d..%d", n, lo, hi)
	}
	return ""
}

const importFlake = "could not import github.com/quasilyte/go-ruleguard/dsl"

// debugFunc: the LoadContext asks for the disassembly of the custom function of that name (and for the importer's trace):
// the debug output is part of Load
var debugFunc string

func loadObs(fset *token.FileSet, src []byte) (e *ruleguard.Engine, o Obs) {
	for try := 0; try < 4; try++ {
		e, o = loadObs1(fset, src, 5*time.Second)
		if o.Kind == "timeout" {
			// a stalled machine (the source importer runs `go list`) looks like a hang: only a Load that does not
			// return within 30 s either is reported
			e, o = loadObs1(fset, src, 30*time.Second)
		}
		if !strings.Contains(o.Err, importFlake) {
			break
		}
	}
	return e, o
}

func loadObs1(fset *token.FileSet, src []byte, limit time.Duration) (*ruleguard.Engine, Obs) {
	type res struct {
		e *ruleguard.Engine
		o Obs
	}
	ch := make(chan res, 1)
	go func() {
		var r res
		defer func() {
			if p := recover(); p != nil {
				r = res{nil, Obs{Kind: "panic", Err: fmt.Sprint(p)}}
			}
			ch <- r
		}()
		e := ruleguard.NewEngine()
		lc := &ruleguard.LoadContext{Fset: fset}
		if debugFunc != "" {
			lc.DebugFunc, lc.DebugImports, lc.DebugPrint = debugFunc, true, func(string) {}
		}
		err := e.Load(lc, "rules.go", strings.NewReader(string(src)))
		if err != nil {
			r = res{nil, Obs{Kind: "error", Err: err.Error(), Located: namesLine(err.Error(), []byte(src))}}
		} else {
			r = res{e, Obs{Kind: "ok"}}
		}
	}()
	select {
	case r := <-ch:
		return r.e, r.o
	case <-time.After(limit):
		return nil, Obs{Kind: "timeout"}
	}
}

// ------------------------------------------------------------------ stream "dsl": abstract rules

type Alt struct {
	Src  string   `json:"src"`
	OK   bool     `json:"ok"`   // gogrep / regexp accept it
	Tag  int      `json:"tag"`  // root tag (syntax patterns)
	Vars []string `json:"vars"` // variables it binds
}

type Atom struct {
	Src  string   `json:"src"`
	Vars []string `json:"vars"`          // variables the atom refers to ("$$" included)
	Chk  string   `json:"chk,omitempty"` // kind | object | tag | version | binary | "" : which name table the argument is checked against
	Arg  string   `json:"arg,omitempty"`
	// binary: a comparison of two operands; operand classes lit (literal / named constant / folded constant expression),
	// line, size, valueint, text (of a variable)
	Eq bool   `json:"eq,omitempty"` // the operator is == or !=
	L  string `json:"l,omitempty"`
	R  string `json:"r,omitempty"`
	// the IR nodes of the atom whose DSL form takes a variable, as (op name, variable), and the variables that are the argument of
	// Type.IdenticalTo: the input of the Coq model, which decides with the regenerated flag table which of them the loader records
	Uses  [][2]string `json:"uses"`
	Extra []string    `json:"extra"`
	Decl  bool        `json:"-"` // the atom calls the custom filter function flt
}

var clsOp = map[string]string{"text": "VarText", "line": "VarLine", "size": "VarTypeSize", "valueint": "VarValueInt"}

// u: the uses of an atom as (op, variable) pairs
func u(pairs ...string) [][2]string {
	out := [][2]string{}
	for i := 0; i+1 < len(pairs); i += 2 {
		out = append(out, [2]string{pairs[i], pairs[i+1]})
	}
	return out
}

func compileAlt(src string) Alt {
	a := Alt{Src: src, Vars: []string{}}
	p, info, err := gogrep.Compile(gogrep.CompileConfig{Fset: token.NewFileSet(), Src: src, WithTypes: true})
	if err == nil {
		a.OK = true
		a.Tag = int(p.NodeTag())
		for nm := range info.Vars {
			a.Vars = append(a.Vars, nm)
		}
		sort.Strings(a.Vars)
	}
	return a
}

type operand struct {
	src, cls, v string
}

// an operand of a comparison; str selects the string-typed family (Text, string constants)
func genOperand(rng *rand.Rand, str bool) operand {
	v := pick(rng, varPool)
	mv := fmt.Sprintf("m[%q]", v)
	if str {
		switch rng.Intn(7) {
		case 0:
			return operand{`"a"`, "lit", ""}
		case 1:
			return operand{"`b`", "lit", ""}
		case 2:
			return operand{"cA", "lit", ""}
		case 3:
			return operand{`("a" + "b")`, "lit", ""}
		case 4:
			return operand{"cA + cB", "lit", ""}
		default:
			return operand{mv + ".Text", "text", v}
		}
	}
	switch rng.Intn(12) {
	case 0:
		return operand{"4", "lit", ""}
	case 1:
		return operand{"c4", "lit", ""}
	case 2:
		return operand{"(2 + 2)", "lit", ""}
	case 3:
		return operand{"0x10", "lit", ""}
	case 4:
		return operand{"c4 * c8", "lit", ""}
	case 5, 6:
		return operand{mv + ".Line", "line", v}
	case 7, 8:
		return operand{mv + ".Type.Size", "size", v}
	default:
		return operand{mv + ".Value.Int()", "valueint", v}
	}
}

func genBinaryAtom(rng *rand.Rand) Atom {
	str := rng.Intn(3) == 0
	l, r := genOperand(rng, str), genOperand(rng, str)
	if rng.Intn(4) == 0 { // both constant: Go folds the comparison to a bool, irconv still converts the operands
		for l.cls != "lit" {
			l = genOperand(rng, str)
		}
		for r.cls != "lit" {
			r = genOperand(rng, str)
		}
	}
	op := []string{"==", "!=", "<", "<=", ">", ">="}[rng.Intn(6)]
	if rng.Intn(2) == 0 {
		op = []string{"==", "!="}[rng.Intn(2)]
	}
	a := Atom{Src: l.src + " " + op + " " + r.src, Chk: "binary", Eq: op == "==" || op == "!=", L: l.cls, R: r.cls, Vars: []string{}, Uses: u(), Extra: []string{}}
	for _, o := range []operand{l, r} {
		if o.v != "" {
			a.Vars = append(a.Vars, o.v)
			a.Uses = append(a.Uses, [2]string{clsOp[o.cls], o.v})
		}
	}
	return a
}

type RuleDesc struct {
	Comment bool   `json:"comment"`
	Alts    []Alt  `json:"alts"`
	Atoms   []Atom `json:"atoms"`
	Where   string `json:"where"`
	At      string `json:"at"`
	Report  string `json:"report"`
	Suggest string `json:"suggest"`
	Probe   string `json:"probe,omitempty"` // op:variable of the systematic bound-variable probes
}

var synPats = []string{
	"$x + $y", "$x - $z", "f($x, $y)", "f($*xs)", "$x = $y", "if $x { $*_ }", "$x[$y]", "-$x", "$xs[$x]",
	"$x", "$x; $y", "$x, $y", "func $f() {}; func $g() {}", "func $f($x int) {}", "var $x = $y", "$x +", "", "(((", "$_", "$*_",
	"{ $*xs }", "for $x := range $y { $*_ }", "type $x struct{}", "import $x", "return $x, $y", "$x.$y", "&$x{}", "$x := <-$y",
}
var comPats = []string{
	`TODO`, `TODO\((?P<x>\w+)\)`, `(?P<x>a)(?P<y>b)?`, `(`, `(?P<x>`, `[a-`, `(?P<xs>\w+)-(?P<x>\d)`, `\p{Foo}`, `(?i)fixme(?P<z>.)`, ``,
}
var varPool = []string{"x", "y", "z", "xs", "f", "nosuch", "$$", "x", "y"}
var kindPool = []string{"integer", "unsigned", "float", "complex", "untyped", "numeric", "signed", "int", "uint", "bool", "Integer", "string", "", "ptr"}
var objPool = []string{"Func", "Var", "Const", "TypeName", "Label", "PkgName", "Builtin", "Nil", "func", "Type", "", "Package"}
var tagPool = []string{"Ident", "BinaryExpr", "CallExpr", "Expr", "Stmt", "Node", "StmtList", "ExprList", "NumBuckets", "Unknown", "ident", "", "File", "ValueSpec", "Foo"}
var verPool = []string{"1.16", "1.2", "1", "1.x", "1.16.3", "", ".", "1.", ".5", "+1.+2", "-1.5", "01.002", "1_0.2", " 1.2", "9223372036854775807.1", "9223372036854775808.1", "0x1.2", "1.2\n"}

func pick(rng *rand.Rand, xs []string) string { return xs[rng.Intn(len(xs))] }

func genAtom(rng *rand.Rand) Atom {
	a := genAtom1(rng)
	if a.Uses == nil {
		a.Uses = u()
	}
	if a.Extra == nil {
		a.Extra = []string{}
	}
	if a.Vars == nil {
		a.Vars = []string{}
	}
	return a
}

func genAtom1(rng *rand.Rand) Atom {
	if len(varOps) > 0 && rng.Intn(3) == 0 { // any op of the regenerated table that takes a variable
		a, err := opAtom(rng, varOps[rng.Intn(len(varOps))], pick(rng, varPool))
		if err != nil {
			fmt.Fprintln(os.Stderr, "c06:", err)
			os.Exit(3)
		}
		return a
	}
	v, w := pick(rng, varPool), pick(rng, varPool)
	q := func(s string) string { return fmt.Sprintf("%q", s) }
	mv := fmt.Sprintf("m[%q]", v)
	mw := fmt.Sprintf("m[%q]", w)
	if rng.Intn(5) == 0 {
		return genBinaryAtom(rng)
	}
	switch rng.Intn(17) {
	case 0:
		return Atom{Src: mv + ".Pure", Vars: []string{v}, Uses: u("VarPure", v)}
	case 1:
		return Atom{Src: mv + `.Text == "a"`, Vars: []string{v}, Uses: u("VarText", v), Chk: "binary", Eq: true, L: "text", R: "lit"}
	case 2:
		return Atom{Src: `"a" != ` + mv + `.Text`, Vars: []string{v}, Uses: u("VarText", v), Chk: "binary", Eq: true, L: "lit", R: "text"}
	case 3:
		return Atom{Src: mv + ".Type.Size > 4", Vars: []string{v}, Uses: u("VarTypeSize", v), Chk: "binary", Eq: false, L: "size", R: "lit"}
	case 4:
		return Atom{Src: mv + ".Line == " + mw + ".Line", Vars: []string{v, w}, Uses: u("VarLine", v, "VarLine", w), Chk: "binary", Eq: true, L: "line", R: "line"}
	case 5:
		return Atom{Src: mv + ".Type.IdenticalTo(" + mw + ")", Vars: []string{v, w}, Uses: u("VarTypeIdenticalTo", v), Extra: []string{w}}
	case 6:
		a := pick(rng, kindPool)
		return Atom{Src: mv + ".Type.OfKind(" + q(a) + ")", Vars: []string{v}, Uses: u("VarTypeOfKind", v), Chk: "kind", Arg: a}
	case 7:
		a := pick(rng, kindPool)
		return Atom{Src: mv + ".Type.Underlying().OfKind(" + q(a) + ")", Vars: []string{v}, Uses: u("VarTypeUnderlyingOfKind", v), Chk: "kind", Arg: a}
	case 8:
		a := pick(rng, objPool)
		return Atom{Src: mv + ".Object.Is(" + q(a) + ")", Vars: []string{v}, Uses: u("VarObjectIs", v), Chk: "object", Arg: a}
	case 9:
		a := pick(rng, tagPool)
		return Atom{Src: mv + ".Node.Is(" + q(a) + ")", Vars: []string{v}, Uses: u("VarNodeIs", v), Chk: "tag", Arg: a}
	case 10:
		a := pick(rng, verPool)
		m := []string{"Eq", "LessThan", "GreaterThan", "LessEqThan", "GreaterEqThan"}[rng.Intn(5)]
		return Atom{Src: "m.GoVersion()." + m + "(" + q(a) + ")", Chk: "version", Arg: a}
	case 11:
		return Atom{Src: mv + ".Type.Size == " + mw + ".Type.Size", Vars: []string{v, w}, Uses: u("VarTypeSize", v, "VarTypeSize", w), Chk: "binary", Eq: true, L: "size", R: "size"}
	case 12:
		return Atom{Src: mv + ".Value.Int() > " + mw + ".Value.Int()", Vars: []string{v, w}, Uses: u("VarValueInt", v, "VarValueInt", w), Chk: "binary", Eq: false, L: "valueint", R: "valueint"}
	case 13:
		return Atom{Src: "m.Deadcode()"}
	case 14:
		return Atom{Src: mv + ".Addressable", Vars: []string{v}, Uses: u("VarAddressable", v)}
	case 15:
		return Atom{Src: mv + ".Text != " + mw + ".Text", Vars: []string{v, w}, Uses: u("VarText", v, "VarText", w), Chk: "binary", Eq: true, L: "text", R: "text"}
	default:
		a := pick(rng, tagPool)
		return Atom{Src: `m["$$"].Node.Parent().Is(` + q(a) + ")", Vars: []string{"$$"}, Chk: "tag", Arg: a}
	}
}

func genWhere(rng *rand.Rand, d *RuleDesc, depth int) string {
	if depth > 2 || rng.Intn(3) != 0 {
		a := genAtom(rng)
		d.Atoms = append(d.Atoms, a)
		return a.Src
	}
	switch rng.Intn(3) {
	case 0:
		return "(" + genWhere(rng, d, depth+1) + " && " + genWhere(rng, d, depth+1) + ")"
	case 1:
		return "(" + genWhere(rng, d, depth+1) + " || " + genWhere(rng, d, depth+1) + ")"
	default:
		return "!(" + genWhere(rng, d, depth+1) + ")"
	}
}

func genTemplate(rng *rand.Rand) string {
	parts := []string{"msg", "$x", "$y", "$xs", "$$", "$z", "$", "$nosuch", " ", "$x$y", "$xy", "$f()", "cost $5", "$_"}
	n := rng.Intn(4)
	var sb strings.Builder
	for i := 0; i <= n; i++ {
		sb.WriteString(pick(rng, parts))
	}
	return sb.String()
}

// rules that are valid except possibly for what their templates refer to: several alternatives with different variable sets,
// a valid filter or none, Report / Suggest templates with and without interpolation
func genTemplateRule(rng *rand.Rand) RuleDesc {
	var d RuleDesc
	pats := []string{"f($x)", "g($x, $y)", "$x + $y", "$x - $z", "$x = $y", "$xs[$x]", "-$x", "f($*xs)"}
	n := 2 + rng.Intn(2)
	for i := 0; i < n; i++ {
		var a Alt
		a.Src = pick(rng, pats)
		p, info, err := gogrep.Compile(gogrep.CompileConfig{Fset: token.NewFileSet(), Src: a.Src, WithTypes: true})
		if err == nil {
			a.OK = true
			a.Tag = int(p.NodeTag())
			for nm := range info.Vars {
				a.Vars = append(a.Vars, nm)
			}
			sort.Strings(a.Vars)
		}
		if a.Vars == nil {
			a.Vars = []string{}
		}
		d.Alts = append(d.Alts, a)
	}
	d.Atoms = []Atom{}
	if rng.Intn(2) == 0 {
		a := Atom{Src: `m["x"].Pure`, Vars: []string{"x"}, Uses: u("VarPure", "x"), Extra: []string{}}
		d.Atoms = append(d.Atoms, a)
		d.Where = a.Src
	}
	tm := func() string {
		return pick(rng, []string{"msg", "use h instead", "$x", "$y", "$$", "h($x, $y)", "$z", "$xs", "$x$y", "cost $5", "$x and $$"})
	}
	d.Report = tm()
	if rng.Intn(2) == 0 {
		d.Suggest = tm()
	}
	if rng.Intn(4) == 0 {
		d.At = pick(rng, []string{"x", "y", "$$"})
	}
	return d
}

func genRule(rng *rand.Rand) RuleDesc {
	if rng.Intn(6) == 0 {
		return genTemplateRule(rng)
	}
	var d RuleDesc
	d.Comment = rng.Intn(5) == 0
	n := 1 + rng.Intn(3)
	if rng.Intn(3) != 0 {
		n = 1
	}
	for i := 0; i < n; i++ {
		var a Alt
		if d.Comment {
			a.Src = pick(rng, comPats)
			re, err := regexp.Compile(a.Src)
			if err == nil {
				a.OK = true
				for _, nm := range re.SubexpNames() {
					if nm != "" {
						a.Vars = append(a.Vars, nm)
					}
				}
			}
		} else {
			a.Src = pick(rng, synPats)
			p, info, err := gogrep.Compile(gogrep.CompileConfig{Fset: token.NewFileSet(), Src: a.Src, WithTypes: true})
			if err == nil {
				a.OK = true
				a.Tag = int(p.NodeTag())
				for nm := range info.Vars {
					a.Vars = append(a.Vars, nm)
				}
				sort.Strings(a.Vars)
			}
		}
		if a.Vars == nil {
			a.Vars = []string{}
		}
		d.Alts = append(d.Alts, a)
	}
	if rng.Intn(4) != 0 {
		d.Where = genWhere(rng, &d, 0)
	}
	if rng.Intn(3) == 0 {
		d.At = pick(rng, varPool)
	}
	d.Report = genTemplate(rng)
	if rng.Intn(3) == 0 {
		d.Suggest = genTemplate(rng)
	}
	if d.Atoms == nil {
		d.Atoms = []Atom{}
	}
	return d
}

func bq(s string) string {
	if strings.ContainsAny(s, "`\r") || s == "" {
		return fmt.Sprintf("%q", s)
	}
	return "`" + s + "`"
}

func renderRule(d RuleDesc) string {
	var sb strings.Builder
	sb.WriteString(dslPrelude)
	if needsFlt(d) {
		sb.WriteString("func flt(ctx *dsl.VarFilterContext) bool { return true }\n\n")
	}
	sb.WriteString("func g(m dsl.Matcher) {\n" + renderStmt(d) + "\n}\n")
	return sb.String()
}

// renderStmt: the statement of the rule (no newline at the end)
func renderStmt(d RuleDesc) string {
	var sb strings.Builder
	sb.WriteString("\tm.")
	var alts []string
	for _, a := range d.Alts {
		alts = append(alts, bq(a.Src))
	}
	if d.Comment {
		sb.WriteString("MatchComment(" + strings.Join(alts, ", ") + ")")
	} else {
		sb.WriteString("Match(" + strings.Join(alts, ",\n\t\t") + ")")
	}
	if d.Where != "" {
		sb.WriteString(".\n\t\tWhere(" + d.Where + ")")
	}
	if d.At != "" {
		sb.WriteString(fmt.Sprintf(".\n\t\tAt(m[%q])", d.At))
	}
	sb.WriteString(".\n\t\tReport(" + bq(d.Report) + ")")
	if d.Suggest != "" {
		sb.WriteString(".\n\t\tSuggest(" + bq(d.Suggest) + ")")
	}
	return sb.String()
}

func mustRegexp(s string) *regexp.Regexp {
	re, err := regexp.Compile(s)
	if err != nil {
		return nil
	}
	return re
}

// ------------------------------------------------------------------ stream "notdsl"

var notDSL = []string{
	"func g(dsl.Matcher) {}",
	"func g(_ dsl.Matcher) { }",
	"func g(m dsl.Matcher) { pat := `$x`; m.Match(pat).Report(`x`) }",
	"var pat = `$x + $y`\nfunc g(m dsl.Matcher) { m.Match(pat).Report(`x`) }",
	"func g(m dsl.Matcher) { s := `msg`; m.Match(`$x + $y`).Report(s) }",
	"func g(m dsl.Matcher) { f := func(Text dsl.Var) bool { return Text.Text == `a` }; m.Match(`$x + $y`).Where(f(m[`x`])).Report(`x`) }",
	"func g(m dsl.Matcher) { f := func(x dsl.Var) bool { return x.Pure }; m.Match(`$x + $y`).Where(f(m[`x`]) && f(m[`y`])).Report(`x`) }",
	"func g(m dsl.Matcher) { f := func(dsl.Var) bool { return true }; m.Match(`$x + $y`).Where(f(m[`x`])).Report(`x`) }",
	"func g(m dsl.Matcher) { f := func(x dsl.Var, _ dsl.Var) bool { return x.Pure }; m.Match(`$x + $y`).Where(f(m[`x`], m[`y`])).Report(`x`) }",
	"func g(m dsl.Matcher) { f := func(m dsl.Var) bool { return m.Pure }; m.Match(`$x + $y`).Where(f(m[`x`])).Report(`x`) }",
	"func g(m dsl.Matcher) { f := func(x dsl.Var) bool { return x.Type.Is(`int`) }; h := func(y dsl.Var) bool { return f(y) || y.Const }; m.Match(`$x + $y`).Where(h(m[`x`])).Report(`x`) }",
	"func g(m dsl.Matcher) { f := func(x ...dsl.Var) bool { return true }; m.Match(`$x + $y`).Where(f(m[`x`])).Report(`x`) }",
	"func g(m dsl.Matcher) { f := func() bool { return true }; m.Match(`$x + $y`).Where(f()).Report(`x`) }",
	"func g(m dsl.Matcher) { f := func(s string) bool { return m[`x`].Type.Is(s) }; m.Match(`$x + $y`).Where(f(`int`)).Report(`x`) }",
	"func g(m dsl.Matcher) { f := func(x dsl.Var) bool { return x.Pure }; m.Match(`$x + $y`).Where(f((m[`x`]))).Report(`x`) }",
	"func g(m dsl.Matcher) { f := func(x dsl.Var) bool { return x.Pure }; m.Match(`$x + $y`).Where(f(m[`x`+`s`])).Report(`x`) }",
	"func g(m dsl.Matcher) { m.Match(`$x`) }",
	"func g(m dsl.Matcher) { _ = m }",
	"func g(m dsl.Matcher) { var v dsl.Var = m[`x`]; _ = v; m.Match(`$x + $y`).Where(v.Pure).Report(`x`) }",
	"func g(m dsl.Matcher) { x := m.Match(`$x + $y`); x.Report(`x`) }",
	"func g(m dsl.Matcher) { m.Match(`$x + $y`).Where(true).Report(`x`) }",
	"func g(m dsl.Matcher) { m.Match(`$x + $y`).Where(1 == 1).Report(`x`) }",
	"func g(m dsl.Matcher) { m.Match(`$x + $y`).Where(m[`x`].Type.Size == 1+2*3).Report(`x`) }",
	"func g(m dsl.Matcher) { m.Match(`$x + $y`).Where(m[`x`].Text == m[`y`].Text + `a`).Report(`x`) }",
	"func g(m dsl.Matcher) { m.Match(`$x + $y`).Where(m[`x`].Type.Size + 1 == 2).Report(`x`) }",
	"func g(m dsl.Matcher) { m.Match(`$x + $y`).Where(!m[`x`].Type.Is(`int`) == true).Report(`x`) }",
	"func g(m dsl.Matcher) { m.Match(`$x + $y`).At(m[`x`]).At(m[`y`]).Report(`x`) }",
	"func g(m dsl.Matcher) { m.Match(`$x + $y`).Report(`x`).Report(`y`) }",
	"func g(m dsl.Matcher) { m.Match(`$x + $y`).Do(nil) }",
	"func g(m dsl.Matcher) { m.Match(`$x + $y`).Do(func(ctx *dsl.DoContext) {}) }",
	"func do(ctx *dsl.DoContext) { ctx.SetReport(ctx.Var(`nosuch`).Text()) }\nfunc g(m dsl.Matcher) { m.Match(`$x + $y`).Do(do) }",
	"func flt(ctx *dsl.VarFilterContext) bool { for { } }\nfunc g(m dsl.Matcher) { m.Match(`$x + $y`).Where(m[`x`].Filter(flt)).Report(`x`) }",
	"func flt(ctx *dsl.VarFilterContext) bool { return flt(ctx) }\nfunc g(m dsl.Matcher) { m.Match(`$x + $y`).Where(m[`x`].Filter(flt)).Report(`x`) }",
	"func flt(ctx *dsl.VarFilterContext) bool { var a [4]int; return a[0] == 0 }\nfunc g(m dsl.Matcher) { m.Match(`$x + $y`).Where(m[`x`].Filter(flt)).Report(`x`) }",
	"type T struct{}\nfunc (T) g(m dsl.Matcher) { m.Match(`$x + $y`).Report(`x`) }",
	"func (m dsl.Matcher) g() { }",
	"func g(m dsl.Matcher) int { return 0 }",
	"func g(m, n dsl.Matcher) { }",
	"func g(m dsl.Matcher) { m.Import(`fmt`); m.Match(`$x + $y`).Report(`x`); m.Import(`os`) }",
	"func g(m dsl.Matcher) { m.Import(\"a\\x00b\"); m.Match(`$x + $y`).Report(`x`) }",
	"func init() { dsl.ImportRules(``, dsl.Bundle{}) }",
	"func init() { x := 1; _ = x }",
	"func init() { dsl.ImportRules(`p`, b) }\nvar b dsl.Bundle",
	"//doc:foo bar\nfunc g(m dsl.Matcher) { m.Match(`$x + $y`).Report(`x`) }",
	"//doc:tags\nfunc g(m dsl.Matcher) { m.Match(`$x + $y`).Report(`x`) }",
	"func g(m dsl.Matcher) { m.Match(`$x + $y`).Where(m[`x`].Type.Is(`[`)).Report(`x`) }",
	"func g(m dsl.Matcher) { m.Match(`$x + $y`).Where(m[`x`].Type.Implements(`io.`)).Report(`x`) }",
	"func g(m dsl.Matcher) { m.Match(`$x + $y`).Where(m[`x`].Type.Implements(`(`)).Report(`x`) }",
	"func g(m dsl.Matcher) { m.Match(`$x + $y`).Where(m[`x`].Type.HasMethod(`io.Reader.(`)).Report(`x`) }",
	"func g(m dsl.Matcher) { m.Match(`$x + $y`).Where(m[`x`].Type.HasMethod(`x`)).Report(`x`) }",
	"func g(m dsl.Matcher) { m.Match(`$x + $y`).Where(m[`x`].Type.HasMethod(`io.Reader.Read`)).Report(`x`) }",
	"func g(m dsl.Matcher) { m.Match(`$x + $y`).Where(m[`x`].Type.HasMethod(`f()`)).Report(`x`) }",
	"func g(m dsl.Matcher) { m.Match(`$x + $y`).Where(m[`x`].Type.ConvertibleTo(``)).Report(`x`) }",
	"func g(m dsl.Matcher) { m.Match(`$x + $y`).Where(m[`x`].Type.AssignableTo(`map[`)).Report(`x`) }",
	"func g(m dsl.Matcher) { m.Match(`$x + $y`).Where(m[`x`].Text.Matches(`(`)).Report(`x`) }",
	"func g(m dsl.Matcher) { m.Match(`$x + $y`).Where(m[`x`].Contains(`$y +`)).Report(`x`) }",
	"func g(m dsl.Matcher) { m.Match(`$x + $y`).Where(m.File().Name.Matches(`[`)).Report(`x`) }",
	"func g(m dsl.Matcher) { m.Match(`$x + $y`).Where(m.File().PkgPath.Matches(`*`)).Report(`x`) }",
	"func g(m dsl.Matcher) { m.Match(`$x + $y`).Where(m[`x`].SinkType.Is(`int`)).Report(`x`) }",
	"func g(m dsl.Matcher) { m.Match(`$x + $y`).Where(m[`$$`].SinkType.Is(``)).Report(`x`) }",
	"func g(m dsl.Matcher) { m.Match(`$x + $y`).Where(m[`x`].Node.Parent().Is(`Ident`)).Report(`x`) }",
	"const c = 5\nfunc g(m dsl.Matcher) { m.Match(`$x + $y`).Where(m[`x`].Type.Size == c).Report(`x`) }",
	"func g(m dsl.Matcher) { m.Match(`$x + $y`).Where(m[`x`].Type.Size == 99999999999999999999).Report(`x`) }",
	"func g(m dsl.Matcher) { m.Match(`$x + $y`).Where(m[`x`].Value.Int() == 1.5).Report(`x`) }",
	"func g(m dsl.Matcher) { m.Match(`$x + $y`).Suggest(``) }",
	"func g(m dsl.Matcher) { m.MatchComment(`x`).Do(nil) }",
	// shapes that used to crash Load (fixed in /repo; kept as a regression catalogue)
	"func _(m dsl.Matcher) { m.Match(`$x + $y`).Report(`x`) }\nfunc _(m dsl.Matcher) { m.Match(`$x - $y`).Report(`y`) }",
	"type A struct{}\ntype B struct{}\nfunc (A) g(m dsl.Matcher) { m.Match(`$x + $y`).Report(`x`) }\nfunc (B) g(m dsl.Matcher) { m.Match(`$x - $y`).Report(`y`) }",
	"type A struct{}\nfunc (A) g(m dsl.Matcher) { m.Match(`$x + $y`).Report(`x`) }\nfunc g(m dsl.Matcher) { m.Match(`$x - $y`).Report(`y`) }",
	"func g(m dsl.Matcher) { f := func(xs ...int) bool { return true }; m.Match(`$x + $y`).Where(f(1, 2)).Report(`x`) }",
	"func g(m dsl.Matcher) { f := func(v dsl.Var, xs ...int) bool { return v.Pure }; m.Match(`$x + $y`).Where(f(m[`x`])).Report(`x`) }",
	"func g(m dsl.Matcher) { f := func(v dsl.Var, xs ...dsl.Var) bool { return v.Pure }; m.Match(`$x + $y`).Where(f(m[`x`], m[`y`], m[`x`])).Report(`x`) }",
	"func g(m dsl.Matcher) { f := func() (ok bool) { return }; m.Match(`$x + $y`).Where(f()).Report(`x`) }",
	"func g(m dsl.Matcher) { f := func(v dsl.Var) (ok bool) { return }; m.Match(`$x + $y`).Where(f(m[`x`])).Report(`x`) }",
	"import \"fmt\"\nfunc flt(ctx *dsl.VarFilterContext) bool { return fmt.Sprintf(\"\"" + strings.Repeat(", 1", 256) + ") == \"\" }\nfunc g(m dsl.Matcher) { m.Match(`$x + $y`).Where(m[`x`].Filter(flt)).Report(`x`) }",
	"import \"fmt\"\nfunc flt(ctx *dsl.VarFilterContext) bool { return fmt.Sprint(" + strings.Repeat("1, ", 300) + "1) == \"\" }\nfunc g(m dsl.Matcher) { m.Match(`$x + $y`).Where(m[`x`].Filter(flt)).Report(`x`) }",
	"import \"fmt\"\nfunc flt(ctx *dsl.VarFilterContext) bool { return fmt.Sprintf(\"\"" + strings.Repeat(", 1", 255) + ") == \"\" }\nfunc g(m dsl.Matcher) { m.Match(`$x + $y`).Where(m[`x`].Filter(flt)).Report(`x`) }",
	// comparisons of two constants (Go folds them to a bool, irconv converts the operands)
	"func g(m dsl.Matcher) { m.Match(`$x + $y`).Where(\"a\" != \"b\").Report(`x`) }",
	"func g(m dsl.Matcher) { m.Match(`$x + $y`).Where(m[`x`].Pure && \"a\" == \"a\").Report(`x`) }",
	"const c1, c2 = 1, 2\nfunc g(m dsl.Matcher) { m.Match(`$x + $y`).Where(c1 != c2 || m[`x`].Pure).Report(`x`) }",
	"func g(m dsl.Matcher) { m.Match(`$x + $y`).Where(2 > 1).Report(`x`) }",
	"func g(m dsl.Matcher) { m.Match(`$x + $y`).Where(4 < m[`x`].Type.Size).Report(`x`) }",
	"func g(m dsl.Matcher) { m.Match(`$x + $y`).Where(4 == m[`x`].Type.Size && \"a\" != m[`x`].Text).Report(`x`) }",
	"func g(m dsl.Matcher) { m.Match(`$x + $y`).Where(m[`x`].Line == m[`y`].Type.Size).Report(`x`) }",
	// a local helper named like something else that is in scope where it is defined, calling that
	"func f(v dsl.Var) bool { return v.Pure }\nfunc g(m dsl.Matcher) { f := func(v dsl.Var) bool { return f(v) }; m.Match(`$x + $y`).Where(f(m[`x`])).Report(`x`) }",
	"func f(s string) bool { return s == `` }\nfunc g(m dsl.Matcher) { f := func(v dsl.Var) bool { return f(`a`) && v.Pure }; m.Match(`$x + $y`).Where(f(m[`x`])).Report(`x`) }",
	"func f(s string) bool { return s == `` }\nfunc g(m dsl.Matcher) { h := func(v dsl.Var) bool { return f(`a`) && v.Pure }; f := func(s string) bool { return m[`x`].Text.Matches(s) }; m.Match(`$x + $y`).Where(h(m[`x`]) && f(`a`)).Report(`x`) }",
	"func f(v dsl.Var) bool { return true }\nfunc h(v dsl.Var) bool { return true }\nfunc g(m dsl.Matcher) { f := func(v dsl.Var) bool { return h(v) }; h := func(v dsl.Var) bool { return f(v) }; m.Match(`$x + $y`).Where(h(m[`x`])).Report(`x`) }",
	"func f(v dsl.Var) bool { return true }\nfunc h(v dsl.Var) bool { return true }\nfunc g(m dsl.Matcher) { h := func(v dsl.Var) bool { return f(v) }; f := func(v dsl.Var) bool { return h(v) }; m.Match(`$x + $y`).Where(f(m[`x`])).Report(`x`) }",
	"func f(n int) bool { return n > 1 }\nfunc g(m dsl.Matcher) { h := func(v dsl.Var) bool { return f(8) && v.Pure }; f := func() bool { return m[`x`].Pure }; m.Match(`$x + $y`).Where(h(m[`x`]) && f()).Report(`x`) }",
	"func f(n int) bool { return n > 1 }\nfunc g(m dsl.Matcher) { h := func(v dsl.Var) bool { return f(8) && v.Pure }; f := func(v, w dsl.Var) bool { return v.Pure && w.Pure }; m.Match(`$x + $y`).Where(h(m[`x`]) && f(m[`x`], m[`y`])).Report(`x`) }",
	"type T int\nfunc g(m dsl.Matcher) { h := func(v dsl.Var) bool { return T(1) == 1 && v.Pure }; T := func() bool { return m[`x`].Pure }; m.Match(`$x + $y`).Where(h(m[`x`]) && T()).Report(`x`) }",
	"func g(m dsl.Matcher) { var f func(dsl.Var) bool; h := func(v dsl.Var) bool { return f(v) }; f := func(v dsl.Var) bool { return h(v) }; m.Match(`$x + $y`).Where(f(m[`x`])).Report(`x`) }",
	"func g(m dsl.Matcher) { len := func(v dsl.Var) bool { return len(`a`) == 1 && v.Pure }; m.Match(`$x + $y`).Where(len(m[`x`])).Report(`x`) }",
	"func g(m dsl.Matcher) { g := func(v dsl.Var) bool { return v.Pure }; m.Match(`$x + $y`).Where(g(m[`x`])).Report(`x`) }",
	"func g(m dsl.Matcher) { string := func(v dsl.Var) bool { return v.Pure }; m.Match(`$x + $y`).Where(string(m[`x`])).Report(`x`) }",
	"type T struct{}\nfunc g(m dsl.Matcher) { T := func(v dsl.Var) bool { return v.Type.Is(`T`) }; m.Match(`$x + $y`).Where(T(m[`x`])).Report(`x`) }",
	"func g(m dsl.Matcher) { dsl := func(v dsl.Var) bool { return v.Pure }; m.Match(`$x + $y`).Where(dsl(m[`x`])).Report(`x`) }",
	"func g(m dsl.Matcher) { f := func(pred func(dsl.Var) bool, v dsl.Var) bool { return pred(v) }; p := func(v dsl.Var) bool { return v.Pure }; m.Match(`$x + $y`).Where(f(p, m[`x`])).Report(`x`) }",
	"func g(m dsl.Matcher) { f := func(f func(dsl.Var) bool, v dsl.Var) bool { return f(v) }; p := func(v dsl.Var) bool { return v.Pure }; m.Match(`$x + $y`).Where(f(p, m[`x`])).Report(`x`) }",
	"func g(m dsl.Matcher) { f := func(pred func(dsl.Var) bool, v dsl.Var) bool { return pred(v) }; m.Match(`$x + $y`).Where(f(f, m[`x`])).Report(`x`) }",
	"func g(m dsl.Matcher) { f := func(pred func(dsl.Var) bool, v dsl.Var) bool { return pred(v) }; m.Match(`$x + $y`).Where(f(nil, m[`x`])).Report(`x`) }",
	"func g(m dsl.Matcher) { a, b := func(v dsl.Var) bool { return v.Pure }, 1; _ = b; m.Match(`$x + $y`).Where(a(m[`x`])).Report(`x`) }",
	"func g(m dsl.Matcher) { a, b := 1, 2; _, _ = a, b; m.Match(`$x + $y`).Report(`x`) }",
	// functions without a body, init functions that do something else
	"func nobody(n int) int\nfunc g(m dsl.Matcher) { m.Match(`$x + $y`).Report(`x`) }",
	"func g(m dsl.Matcher)",
	"func helper() {}\nfunc init() { helper() }",
	"type T struct{}\nfunc (T) vm() {}\nfunc init() { T{}.vm() }",
	"func init() { func() {}() }",
	"func init() { dsl.ImportRules(`p`, dsl.Bundle{}); return }",
	"func init() { go dsl.ImportRules(`p`, dsl.Bundle{}) }",
	"var sv = `p`\nfunc init() { dsl.ImportRules(sv, dsl.Bundle{}) }",
	"func init() { (dsl.ImportRules)(`p`, dsl.Bundle{}) }",
	"func g(m dsl.Matcher) { m.MatchComment().Report(`x`) }",
	"func g(m dsl.Matcher) { m.Match().Report(`x`) }",
	// the ways a file can import the dsl package (entries that begin with the package clause are taken as they are), and values
	// that are merely NAMED dsl in files that do not import it under that name
	"package gorules\n\nimport d \"github.com/quasilyte/go-ruleguard/dsl\"\n\nfunc g(m d.Matcher) { m.Match(`$x + $y`).Where(m[`x`].Pure).Report(`x`) }\n",
	"package gorules\n\nimport d \"github.com/quasilyte/go-ruleguard/dsl\"\n\nfunc g(m d.Matcher) { m.Match(`$x + $y`).Report(`x`) }\n\nfunc init() { d.ImportRules(`p`, d.Bundle{}) }\n",
	"package gorules\n\nimport . \"github.com/quasilyte/go-ruleguard/dsl\"\n\nfunc g(m Matcher) { m.Match(`$x + $y`).Where(m[`x`].Pure).Report(`x`) }\n\nfunc init() { ImportRules(`p`, Bundle{}) }\n",
	"package gorules\n\nimport . \"github.com/quasilyte/go-ruleguard/dsl\"\n\nfunc flt(ctx *VarFilterContext) bool { return ctx.Type != nil }\n\nfunc g(m Matcher) { m.Match(`$x + $y`).Where(m[`x`].Filter(flt)).Report(`x`) }\n",
	"package gorules\n\nimport d \"github.com/quasilyte/go-ruleguard/dsl\"\n\nfunc flt(ctx *d.VarFilterContext) bool { return ctx.Type != nil }\n\nfunc g(m d.Matcher) { m.Match(`$x + $y`).Where(m[`x`].Filter(flt)).Report(`x`) }\n",
	"package gorules\n\nimport (\n\td \"github.com/quasilyte/go-ruleguard/dsl\"\n\t\"github.com/quasilyte/go-ruleguard/dsl\"\n)\n\nfunc g(m d.Matcher) { m.Match(`$x + $y`).Report(`x`) }\n\nfunc init() { d.ImportRules(`p`, dsl.Bundle{}) }\n",
	"package gorules\n\nimport _ \"github.com/quasilyte/go-ruleguard/dsl\"\n\nfunc helper() {}\n",
	"package gorules\n\nfunc helper(n int) int { return n }\n",
	"package gorules\n",
	"package gorules\n\ntype T struct{}\n\nfunc (T) ImportRules() {}\n\nvar dsl T\n\nfunc init() { dsl.ImportRules() }\n",
	"package gorules\n\ntype T struct{}\n\nfunc (T) ImportRules(a string) {}\n\nvar dsl T\n\nfunc init() { dsl.ImportRules(`p`) }\n",
	"package gorules\n\ntype T struct{ f int }\n\nfunc (T) ImportRules(a string, b int) {}\n\nvar dsl T\n\nfunc init() { dsl.ImportRules(`p`, dsl.f) }\n",
	"package gorules\n\ntype T struct{}\n\nfunc (T) ImportRules(a, b int) {}\n\nvar dsl T\n\nfunc init() { dsl.ImportRules(1, 2) }\n",
	"package gorules\n\nimport d \"github.com/quasilyte/go-ruleguard/dsl\"\n\ntype T struct{}\n\nfunc (T) ImportRules() {}\n\nvar dsl T\n\nfunc g(m d.Matcher) { m.Match(`$x + $y`).Report(`x`) }\n\nfunc init() { dsl.ImportRules() }\n",
	"package gorules\n\nimport . \"github.com/quasilyte/go-ruleguard/dsl\"\n\ntype T struct{}\n\nfunc (T) ImportRules() {}\n\nvar dsl T\n\nfunc g(m Matcher) { m.Match(`$x + $y`).Report(`x`) }\n\nfunc init() { dsl.ImportRules() }\n",
	"package gorules\n\nimport dsl \"strings\"\n\nfunc init() { dsl.ToUpper(`a`) }\n",
	"package gorules\n\nimport \"github.com/quasilyte/go-ruleguard/dsl\"\n\ntype T struct{ b dsl.Bundle }\n\nvar tv T\n\nfunc init() { dsl.ImportRules(`p`, tv.b) }\n",
	"package gorules\n\nimport \"github.com/quasilyte/go-ruleguard/dsl\"\n\nfunc init() { dsl.ImportRules(`p`, (dsl.Bundle{})) }\n\nfunc init() { dsl.ImportRules(`q`, dsl.Bundle{}) }\n",
}

// ------------------------------------------------------------------ stream "bytes"

func mutate(rng *rand.Rand, src []byte) []byte {
	out := append([]byte(nil), src...)
	n := 1 + rng.Intn(4)
	for i := 0; i < n && len(out) > 0; i++ {
		switch rng.Intn(7) {
		case 0: // truncate
			out = out[:rng.Intn(len(out))]
		case 1: // delete a span
			a := rng.Intn(len(out))
			b := a + rng.Intn(40)
			if b > len(out) {
				b = len(out)
			}
			out = append(out[:a], out[b:]...)
		case 2: // flip a byte
			out[rng.Intn(len(out))] = byte(rng.Intn(256))
		case 3: // duplicate a span
			a := rng.Intn(len(out))
			b := a + rng.Intn(60)
			if b > len(out) {
				b = len(out)
			}
			out = append(out[:b], append(append([]byte(nil), out[a:b]...), out[b:]...)...)
		case 4: // break a string literal / pattern
			if i := strings.IndexAny(string(out[rng.Intn(len(out)):]), "`\""); i >= 0 {
				p := len(out) - len(out[rng.Intn(len(out)):])
				_ = p
			}
			idx := indexesOf(out, '`')
			if len(idx) > 1 {
				k := idx[rng.Intn(len(idx))]
				ins := []string{"$", "$*", "(", "{", ";", "$x +", "\x00", "\xff\xfe", "func", "$$$"}[rng.Intn(10)]
				out = append(out[:k+1], append([]byte(ins), out[k+1:]...)...)
			}
		case 5: // swap two lines
			lines := strings.Split(string(out), "\n")
			if len(lines) > 2 {
				a, b := rng.Intn(len(lines)), rng.Intn(len(lines))
				lines[a], lines[b] = lines[b], lines[a]
				out = []byte(strings.Join(lines, "\n"))
			}
		default: // replace an identifier-ish token
			words := []string{"Where", "Report", "Match", "At", "Suggest", "m", "dsl", "Matcher", "Type", "Is", "Text", "func", "return"}
			w := words[rng.Intn(len(words))]
			r := words[rng.Intn(len(words))]
			out = []byte(strings.Replace(string(out), w, r, 1))
		}
	}
	return out
}

func indexesOf(b []byte, c byte) []int {
	var out []int
	for i, x := range b {
		if x == c {
			out = append(out, i)
		}
	}
	return out
}

const target = `package target

func f(a, b int, xs []int, ok bool) int {
	// TODO(ab): note
	_ = a + b
	_ = a - b
	_ = xs[a]
	a = b
	g(a, b)
	if ok {
		return -a
	}
	return a
}

func g(x, y int) {}
`

var lineRe = regexp.MustCompile(`rules\.go:([0-9]+)`)

const shiftLines = 3

// shiftProblem: the line an error names must be a line of the source: with blank lines inserted after the first line of the file
// the same error must name a line that many lines further down (an error located on line 1 stays there). Returns a description
// of the disagreement, "" when there is none.
func shiftProblem(fset *token.FileSet, src []byte, o Obs) string {
	if o.Kind != "error" || !o.Located {
		return ""
	}
	nl := bytes.IndexByte(src, '\n')
	if nl < 0 {
		return ""
	}
	shifted := append(append(append([]byte{}, src[:nl+1]...), bytes.Repeat([]byte("\n"), shiftLines)...), src[nl+1:]...)
	_, o2 := loadObs(fset, shifted)
	if o2.Kind != "error" {
		return fmt.Sprintf("with %d blank lines after line 1 Load answers %s %s", shiftLines, o2.Kind, o2.Err)
	}
	m1, m2 := lineRe.FindStringSubmatch(o.Err), lineRe.FindStringSubmatch(o2.Err)
	if m1 == nil || m2 == nil {
		return fmt.Sprintf("with %d blank lines after line 1 the error is: %s", shiftLines, o2.Err)
	}
	l1, _ := strconv.Atoi(m1[1])
	l2, _ := strconv.Atoi(m2[1])
	want := l1 + shiftLines
	if l1 <= 1 {
		want = l1
	}
	if l2 != want {
		return fmt.Sprintf("the error names line %d; with %d blank lines inserted after line 1 it names line %d (want %d): %s", l1, shiftLines, l2, want, o2.Err)
	}
	return ""
}

// irDiff converts the file with the engine's own converter and compares the variable uses of the rule's Where expression with the
// ones the description lists ("" = they agree, or the file does not convert)
func irDiff(fset *token.FileSet, src []byte, d *RuleDesc) string {
	f, err := ruleguard.VerifConvertAST(ruleguard.NewEngine(), &ruleguard.LoadContext{Fset: fset}, "rules.go", src)
	if err != nil || f == nil || len(f.RuleGroups) != 1 || len(f.RuleGroups[0].Rules) != 1 {
		return ""
	}
	var uses, extra []string
	irUses(f.RuleGroups[0].Rules[0].WhereExpr, &uses, &extra)
	du, de := descUses(d)
	if !sameMultiset(uses, du) || !sameMultiset(extra, de) {
		return fmt.Sprintf("IR: uses %v extra %v; description: uses %v extra %v", uses, extra, du, de)
	}
	return ""
}

type Case struct {
	Shift  string    `json:"shift,omitempty"` // the named line does not move with the source (see shiftProblem)
	Span   string    `json:"span,omitempty"`  // the named line is not a line of the construct under test (see spanProblem)
	What   string    `json:"what,omitempty"`  // fn / chain: the catalogue entry
	Want   string    `json:"want,omitempty"`  // notdsl (generated entries): "error" = Load must reject the file
	Stream string    `json:"stream"`
	ID     int       `json:"id"`
	Src    string    `json:"src,omitempty"`
	Rule   *RuleDesc `json:"rule,omitempty"`
	Obs    Obs       `json:"obs"`
	Run    string    `json:"run,omitempty"` // panic / error of Run on the probe file
	NilRep int       `json:"nil_reports"`
	NRep   int       `json:"nrep"`
	// dsl: the (op, variable) uses the description lists differ from the ones of the converted IR
	IRDiff string `json:"ir_diff,omitempty"`
	// hist: the Loads of the history, in order; Obs is the first one that violates the property (else the last one)
	Steps []HistStep `json:"steps,omitempty"`
	// group: the rules of every group, and what Load answers to each rule when it stands alone
	Groups []GroupDesc `json:"groups,omitempty"`
	Alone  [][]Obs     `json:"alone,omitempty"`
	// group: whether a rule loads depends on something its description does not say (no verdict of the Coq model)
	NoModel bool `json:"no_model,omitempty"`
}

// Begin announces a case before it is loaded: if the process dies, the supervisor knows which input did it.
type Begin struct {
	Begin  int    `json:"begin"`
	Stream string `json:"stream"`
	Src    string `json:"src"`
}

func crashCase(begin []byte, kind, detail string) []byte {
	var b Begin
	json.Unmarshal(begin, &b)
	out, _ := json.Marshal(Case{Stream: b.Stream, ID: b.Begin, Src: b.Src, Obs: Obs{Kind: kind, Err: detail}})
	return out
}

func main() {
	seed := flag.Int64("seed", 1, "PRNG seed")
	nbytes := flag.Int("bytes", 300, "cases of stream bytes")
	ndsl := flag.Int("dsl", 600, "cases of stream dsl")
	nstruct := flag.Int("struct", 300, "cases of stream struct")
	repo := flag.String("repo", "/repo", "repository (fixture rules files)")
	tmp := flag.String("tmp", "", "scratch directory")
	nhist := flag.Int("hist", 60, "random cases of stream hist (the systematic ones are always run)")
	nfn := flag.Int("fn", 30, "random cases of stream fn (the catalogues are always run)")
	ngroup := flag.Int("group", 40, "generated cases of stream group (the catalogue is always run)")
	streams := flag.String("streams", "fn,chain,bytes,notdsl,dsl,hist,struct,group", "the streams to run (the check runs two halves side by side)")
	one := flag.String("one", "", "development: load the rules files of this comma-separated list only (a file may hold several, separated by a line -----)")
	ops := flag.String("ops", "", "the regenerated filter-op table (go2coq optable)")
	child := flag.Bool("child", false, "internal: generate and load (run by the supervisor)")
	skip := flag.Int("skip", 0, "internal: generate but do not load the cases up to this id")
	flag.Parse()
	if !*child {
		os.Exit(hutil.Supervise(os.Args[1:], crashCase))
	}
	hutil.ChildInit()
	// every stream draws from its own generator and numbers its cases from its own base: what a stream generates does not
	// depend on which other streams run in this process
	want := map[string]bool{}
	for _, st := range strings.Split(*streams, ",") {
		want[st] = true
	}
	streamIdx := map[string]int{"fn": 0, "chain": 1, "bytes": 2, "notdsl": 3, "dsl": 4, "hist": 5, "struct": 6, "group": 7}
	var rng *rand.Rand
	id := 0
	enter := func(stream string) bool {
		k, ok := streamIdx[stream]
		if !ok || !want[stream] {
			return false
		}
		rng = rand.New(rand.NewSource(*seed*7919 + int64(k)))
		id = k * 100000
		return true
	}
	if *ops != "" {
		if err := loadOpTable(*ops); err != nil {
			fmt.Fprintln(os.Stderr, "c06:", err)
			os.Exit(3)
		}
		// every op that takes a variable has a generator (checked before any case is announced)
		for _, op := range varOps {
			if _, err := opAtom(rand.New(rand.NewSource(1)), op, "x"); err != nil {
				fmt.Fprintln(os.Stderr, "c06:", err)
				os.Exit(3)
			}
		}
	}
	stdout := bufio.NewWriterSize(os.Stdout, 1<<16)
	defer stdout.Flush()
	enc := json.NewEncoder(stdout)
	t, err := hutil.CheckTarget(*tmp, "target/target.go", []byte(target))
	if err != nil {
		fmt.Fprintln(os.Stderr, err)
		os.Exit(3)
	}
	// begin reports whether the case is to be executed; the announcement reaches the supervisor before Load starts
	begin := func(stream string, src string) bool {
		id++
		if id <= *skip {
			return false
		}
		enc.Encode(Begin{Begin: id, Stream: stream, Src: src})
		stdout.Flush()
		return true
	}
	ntimeout := 0
	emit := func(c Case, full bool) {
		if c.Obs.Kind == "timeout" {
			// every Load that does not return costs 35 s: after a few of them the run has its failing inputs
			ntimeout++
			defer func() {
				if ntimeout >= 4 {
					fmt.Fprintln(os.Stderr, "c06: four Loads did not return; the remaining cases are not run")
					stdout.Flush()
					os.Exit(0)
				}
			}()
		}
		if !full && c.Obs.Kind != "panic" && c.Obs.Kind != "timeout" && (c.Obs.Kind == "ok" || c.Obs.Located) && c.Run == "" && c.NilRep == 0 && c.Shift == "" && c.Span == "" {
			c.Src = ""
		}
		enc.Encode(c)
		stdout.Flush()
	}
	runIt := func(c *Case, e *ruleguard.Engine) {
		if e == nil {
			return
		}
		reps, p := hutil.Run(e, t, 0, "", nil)
		c.Run = p
		c.NRep = len(reps)
		for _, r := range reps {
			if r.NilNode {
				c.NilRep++
			}
		}
	}

	if *one != "" {
		for _, p := range strings.Split(*one, ",") {
			b, err := os.ReadFile(p)
			if err != nil {
				fmt.Fprintln(os.Stderr, err)
				os.Exit(3)
			}
			for _, src := range strings.Split(string(b), "\n-----\n") {
				if !begin("one", src) {
					continue
				}
				c := Case{Stream: "one", ID: id, Src: src}
				_, c.Obs = loadObs(t.Fset, []byte(src))
				c.Shift = shiftProblem(t.Fset, []byte(src), c.Obs)
				emit(c, true)
			}
		}
		return
	}
	// ---- fn, chain: fixed catalogues first (the cheapest way to a failing input), a few random combinations
	spanStream := func(stream string, files []spanFile) {
		for i, f := range files {
			if !begin(stream, f.src) {
				continue
			}
			c := Case{Stream: stream, ID: id, Src: f.src, What: f.what}
			debugFunc = f.debug
			_, c.Obs = loadObs(t.Fset, []byte(f.src))
			debugFunc = ""
			c.Span = spanProblem(c.Obs, f.lo, f.hi)
			if (i+int(*seed))%8 == 0 {
				c.Shift = shiftProblem(t.Fset, []byte(f.src), c.Obs)
			}
			emit(c, false)
		}
	}
	if enter("fn") {
		spanStream("fn", fnFiles(*seed, rng, *nfn))
	}
	if enter("chain") {
		spanStream("chain", chainFiles(*seed))
	}
	// ---- bytes
	var fixtures [][]byte
	globs := []string{"analyzer/testdata/src/*/rules.go", "rules/*.go", "analyzer/testdata/src/*/rules*.go"}
	seen := map[string]bool{}
	for _, g := range globs {
		ms, _ := filepath.Glob(filepath.Join(*repo, g))
		sort.Strings(ms)
		for _, m := range ms {
			if seen[m] || strings.HasSuffix(m, "_test.go") {
				continue
			}
			seen[m] = true
			if b, err := os.ReadFile(m); err == nil && len(b) < 60000 {
				fixtures = append(fixtures, b)
			}
		}
	}
	if !enter("bytes") {
		*nbytes = 0
	}
	for i := 0; i < *nbytes; i++ {
		var src []byte
		switch {
		case i%10 == 0 || len(fixtures) == 0:
			src = make([]byte, rng.Intn(200))
			rng.Read(src)
		case i%10 == 1:
			src = []byte("package gorules\n" + string(mutate(rng, []byte(renderRule(genRule(rng))))))
		case i%10 == 2:
			src = mutate(rng, []byte(genStructFile(rng)))
		default:
			src = mutate(rng, fixtures[rng.Intn(len(fixtures))])
		}
		if !begin("bytes", string(src)) {
			continue
		}
		c := Case{Stream: "bytes", ID: id, Src: string(src)}
		_, c.Obs = loadObs(t.Fset, src)
		emit(c, false)
	}
	// ---- notdsl
	catalogue := notDSL
	if !enter("notdsl") {
		catalogue = nil
	}
	var entries []catEntry
	for _, body := range catalogue {
		entries = append(entries, catEntry{body: body})
	}
	if catalogue != nil {
		entries = append(entries, typeStringEntries()...)
		entries = append(entries, indexVarEntries(*seed)...)
	}
	for ei, ent := range entries {
		body := ent.body
		src := "package gorules\n\nimport \"github.com/quasilyte/go-ruleguard/dsl\"\n\nvar _ dsl.Matcher\n\n" + body + "\n"
		if strings.HasPrefix(body, "import ") {
			src = "package gorules\n\nimport \"github.com/quasilyte/go-ruleguard/dsl\"\n" + body + "\n"
		}
		if strings.HasPrefix(body, "package ") {
			src = body
		}
		if !begin("notdsl", src) {
			continue
		}
		c := Case{Stream: "notdsl", ID: id, Src: src, Want: ent.want}
		var e *ruleguard.Engine
		e, c.Obs = loadObs(t.Fset, []byte(src))
		if ei < len(catalogue) || (ei+int(*seed))%4 == 0 {
			c.Shift = shiftProblem(t.Fset, []byte(src), c.Obs)
		}
		if !strings.Contains(body, "for { }") && !strings.Contains(body, "return flt(ctx)") {
			runIt(&c, e)
		}
		emit(c, true)
	}
	// ---- dsl: first the systematic probes (every op that takes a variable x unbound / partly bound variable), then random rules
	probes, err := opProbeRules(rand.New(rand.NewSource(*seed + 77)))
	if err != nil {
		fmt.Fprintln(os.Stderr, "c06:", err)
		os.Exit(3)
	}
	if !enter("dsl") {
		probes, *ndsl = nil, 0
	}
	for i := 0; i < len(probes)+*ndsl; i++ {
		var d RuleDesc
		if i < len(probes) {
			d = probes[i]
		} else {
			d = genRule(rng)
		}
		src := renderRule(d)
		if !begin("dsl", src) {
			continue
		}
		c := Case{Stream: "dsl", ID: id, Src: src, Rule: &d}
		var e *ruleguard.Engine
		e, c.Obs = loadObs(t.Fset, []byte(src))
		if i%3 == 0 && i >= len(probes) {
			c.Shift = shiftProblem(t.Fset, []byte(src), c.Obs)
		}
		if len(opTable) > 0 && ((i >= len(probes) && i%5 == 1) || (i < len(probes) && i%3 == 0)) {
			c.IRDiff = irDiff(t.Fset, []byte(src), &d)
		}
		runIt(&c, e)
		emit(c, true)
	}
	// ---- group: several rules per group, several groups: the catalogue, then generated files
	if enter("group") {
		files, err := groupCatalogue(*seed)
		if err != nil {
			fmt.Fprintln(os.Stderr, "c06:", err)
			os.Exit(3)
		}
		files = append(files, groupRandom(rng, t.Fset, *ngroup)...)
		for _, f := range files {
			src, spans := renderGroups(f.groups)
			if !begin("group", src) {
				continue
			}
			c := Case{Stream: "group", ID: id, Src: src, What: f.what, Groups: f.groups, NoModel: f.noModel}
			var e *ruleguard.Engine
			e, c.Obs = loadObs(t.Fset, []byte(src))
			for _, g := range f.groups {
				var al []Obs
				for _, d := range g.Rules {
					al = append(al, aloneObs(t.Fset, g, d))
				}
				c.Alone = append(c.Alone, al)
			}
			c.Span = groupSpanProblem(c.Obs, spans, c.Alone)
			runIt(&c, e)
			emit(c, true)
			if len(f.groups) < 2 || f.what == "generated" {
				continue
			}
			// the same groups as one Load each on ONE engine: what a Load checks does not depend on the Loads before it either
			var srcs, parts []string
			for gi, g := range f.groups {
				one, _ := renderGroupsFrom([]GroupDesc{g}, gi+1)
				srcs = append(srcs, one)
				parts = append(parts, fmt.Sprintf("// ==== Load #%d on the same engine\n%s", gi+1, one))
			}
			src = strings.Join(parts, "\n")
			if !begin("group", src) {
				continue
			}
			obs := runHistory(func() *ruleguard.LoadContext { return &ruleguard.LoadContext{Fset: t.Fset} }, srcs, 5*time.Second)
			last := len(obs) - 1
			h := Case{Stream: "group", ID: id, Src: src, What: f.what + " (every group a Load of its own on one engine; the answer to the last one)", Obs: obs[last], NoModel: f.noModel}
			if last == len(f.groups)-1 {
				h.Groups, h.Alone = f.groups[last:], c.Alone[last:]
			}
			emit(h, true)
		}
	}
	// ---- hist
	nbad := nSystematic()
	if !enter("hist") {
		nbad, *nhist = 0, 0
	}
	lctx := func() *ruleguard.LoadContext { return &ruleguard.LoadContext{Fset: t.Fset} }
	hung := 0
	for i := 0; i < nbad+*nhist; i++ {
		h := genHistory(rng, i)
		if hung >= 3 { // three histories with a Load that never returns (35 s each) are enough failing inputs
			break
		}
		var files []string
		var parts []string
		for k, f := range h {
			files = append(files, f.render(k+1))
			parts = append(parts, fmt.Sprintf("// ==== Load #%d on the same engine: %s\n%s", k+1, f.name, files[k]))
		}
		src := strings.Join(parts, "\n")
		if !begin("hist", src) {
			continue
		}
		var obs []Obs
		for try := 0; try < 4; try++ {
			obs = runHistory(lctx, files, 5*time.Second)
			if histHasTimeout(obs) {
				obs = runHistory(lctx, files, 30*time.Second)
			}
			if !histFlaky(obs) {
				break
			}
		}
		if histHasTimeout(obs) {
			hung++
		}
		c := Case{Stream: "hist", ID: id, Src: src}
		for k, o := range obs {
			c.Steps = append(c.Steps, HistStep{What: h[k].name, Want: h[k].ok, Obs: o})
		}
		c.Obs = obs[len(obs)-1]
		for _, o := range obs {
			if o.Kind == "panic" || o.Kind == "timeout" || (o.Kind == "error" && !o.Located) {
				c.Obs = o
				break
			}
		}
		emit(c, true)
	}
	// ---- struct
	if !enter("struct") {
		*nstruct = 0
	}
	for i := 0; i < *nstruct; i++ {
		src := genStructFile(rng)
		if !begin("struct", src) {
			continue
		}
		c := Case{Stream: "struct", ID: id, Src: src}
		_, c.Obs = loadObs(t.Fset, []byte(src))
		c.Shift = shiftProblem(t.Fset, []byte(src), c.Obs)
		emit(c, false)
	}
}
