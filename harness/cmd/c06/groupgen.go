package main

// Stream "group": rules files with SEVERAL rules per group and several groups. The other streams of this harness load one rule per file;
// what Load checks for a rule must not depend on the rules loaded before it -- in the same group, in an earlier group of the file.
//
// Catalogue (fixed, every run): for EVERY op of the regenerated op table that takes a variable, groups in which a rule repeats the
// Where() text of an earlier rule over a pattern that does not bind the variable (as the second rule, as one alternative of the second
// rule, as the third rule, in the next group, as the FIRST rule followed by a fine one) and the control (every rule binds it); the same
// for At(), for Where() through a local helper, for comment rules, for templates over alternatives. Then generated files: 1-3 groups
// of 1-4 rules; a later rule is either new or takes over the clauses (Where / At / templates) of an earlier rule of the file
// with other patterns.
//
// Oracles (the check): the property itself (an accepted file has no rule that refers to a variable one of its alternatives does not
// bind); composition (every rule is also loaded ALONE -- same prelude, same helpers --: the file is accepted iff each of its rules
// is); the Coq model (validate_file = all rules validate, each from its own description); an error names a line of a rule that is
// rejected alone.

import (
	"fmt"
	"go/token"
	"math/rand"
	"strings"
)

type GroupDesc struct {
	Pre   string     `json:"pre,omitempty"` // statements in front of the rules (local helpers)
	Rules []RuleDesc `json:"rules"`
}

type groupFile struct {
	what    string
	groups  []GroupDesc
	noModel bool // whether a rule loads depends on something its description does not say (the imports of its group)
}

const dslPrelude = "package gorules\n\nimport \"github.com/quasilyte/go-ruleguard/dsl\"\n\nconst (\n\tcA = \"a\"\n\tcB = \"b\"\n\tc4 = 4\n\tc8 = 8\n)\n\n"

func needsFlt(rules ...RuleDesc) bool {
	for _, d := range rules {
		for _, a := range d.Atoms {
			if a.Decl {
				return true
			}
		}
	}
	return false
}

// renderGroups: the file, and for every rule (group, index) the first and last line of its statement
func renderGroups(groups []GroupDesc) (string, [][][2]int) { return renderGroupsFrom(groups, 1) }

// renderGroupsFrom: the groups are named g<first>, g<first+1>, ...
func renderGroupsFrom(groups []GroupDesc, first int) (string, [][][2]int) {
	var sb strings.Builder
	sb.WriteString(dslPrelude)
	var all []RuleDesc
	for _, g := range groups {
		all = append(all, g.Rules...)
	}
	if needsFlt(all...) {
		sb.WriteString("func flt(ctx *dsl.VarFilterContext) bool { return true }\n\n")
	}
	line := func() int { return strings.Count(sb.String(), "\n") + 1 }
	spans := make([][][2]int, len(groups))
	for gi, g := range groups {
		fmt.Fprintf(&sb, "func g%d(m dsl.Matcher) {\n", gi+first)
		if g.Pre != "" {
			sb.WriteString("\t" + g.Pre + "\n")
		}
		for _, d := range g.Rules {
			lo := line()
			st := renderStmt(d)
			sb.WriteString(st + "\n")
			spans[gi] = append(spans[gi], [2]int{lo, lo + strings.Count(st, "\n")})
		}
		sb.WriteString("}\n\n")
	}
	return sb.String(), spans
}

func altsOf(srcs ...string) []Alt {
	var out []Alt
	for _, s := range srcs {
		out = append(out, compileAlt(s))
	}
	return out
}

func commentAlts(srcs ...string) []Alt {
	var out []Alt
	for _, s := range srcs {
		a := Alt{Src: s, OK: true, Vars: []string{}}
		if re := mustRegexp(s); re != nil {
			for _, nm := range re.SubexpNames() {
				if nm != "" {
					a.Vars = append(a.Vars, nm)
				}
			}
		} else {
			a.OK = false
		}
		out = append(out, a)
	}
	return out
}

// with: a copy of the rule with other alternatives (the clauses -- Where, At, templates -- are the same text)
func (d RuleDesc) with(alts []Alt) RuleDesc {
	d.Alts = alts
	d.Probe = ""
	return d
}

func groupCatalogue(seed int64) ([]groupFile, error) {
	probeArgs = true
	defer func() { probeArgs = false }()
	rng := rand.New(rand.NewSource(5))
	var out []groupFile
	bound := Atom{Src: `m["x"].Pure`, Vars: []string{"x"}, Uses: [][2]string{{"VarPure", "x"}}, Extra: []string{}}
	// the shapes of a file around a rule r whose clauses refer to x: has = patterns that bind x, lacks = patterns that do not
	shapes := func(what string, pre string, r RuleDesc, has, lacks [][]Alt, mixed []Alt) {
		g := func(rules ...RuleDesc) GroupDesc { return GroupDesc{Pre: pre, Rules: rules} }
		out = append(out,
			groupFile{what + ": the second rule of the group repeats the clauses over a pattern that does not bind the variable", []GroupDesc{g(r.with(has[0]), r.with(lacks[0]))}, false},
			groupFile{what + ": one alternative of the second rule does not bind the variable", []GroupDesc{g(r.with(has[0]), r.with(mixed))}, false},
			groupFile{what + ": the third rule does not bind the variable", []GroupDesc{g(r.with(has[0]), r.with(has[1]), r.with(lacks[1]))}, false},
			groupFile{what + ": every rule binds the variable (control)", []GroupDesc{g(r.with(has[0]), r.with(has[1]))}, false},
			groupFile{what + ": the rule of the next group does not bind the variable", []GroupDesc{g(r.with(has[0])), g(r.with(lacks[0]))}, false},
			groupFile{what + ": the first rule does not bind the variable, the second does", []GroupDesc{g(r.with(lacks[0]), r.with(has[0]))}, false},
		)
	}
	// every pattern binds y (the clauses may refer to it as well)
	has := [][]Alt{altsOf("$x + $y"), altsOf("f($x, $y)")}
	lacks := [][]Alt{altsOf("g($y)"), altsOf("-$y")}
	mixed := altsOf("f($x, $y)", "g($y)")
	for k, op := range varOps {
		a, err := opAtom(rng, op, "x")
		if err != nil {
			return nil, err
		}
		for i, e := range a.Extra { // a second variable: the same one
			a.Src = strings.Replace(a.Src, fmt.Sprintf("m[%q])", e), `m["x"])`, 1)
			a.Extra[i] = "x"
			a.Vars[len(a.Vars)-1] = "x"
		}
		r := RuleDesc{Report: "msg"}
		switch (k + int(seed)) % 4 {
		case 0:
			r.Where, r.Atoms = a.Src, []Atom{a}
		case 1:
			r.Where, r.Atoms = "!("+a.Src+")", []Atom{a}
		case 2:
			r.Where, r.Atoms = `m["y"].Pure && `+a.Src, []Atom{{Src: `m["y"].Pure`, Vars: []string{"y"}, Uses: [][2]string{{"VarPure", "y"}}, Extra: []string{}}, a}
		default:
			r.Where, r.Atoms = "("+a.Src+` || m["y"].Pure)`, []Atom{a, {Src: `m["y"].Pure`, Vars: []string{"y"}, Uses: [][2]string{{"VarPure", "y"}}, Extra: []string{}}}
		}
		shapes("Where("+op.Name+")", "", r, has, lacks, mixed)
	}
	// the value-typed forms as the right operand of a comparison and behind a constant that is moved to the right
	for _, op := range varOps {
		cl, ok := opValueCls[op.Name]
		if !ok {
			continue
		}
		form := func(v string) string { return strings.ReplaceAll(op.Form, "$Value", fmt.Sprintf("%q", v)) }
		right := Atom{Src: form("y") + " == " + form("x"), Vars: []string{"y", "x"}, Uses: [][2]string{{op.Name, "y"}, {op.Name, "x"}}, Extra: []string{}, Chk: "binary", Eq: true, L: cl[0], R: cl[0]}
		swapped := Atom{Src: cl[1] + " != " + form("x"), Vars: []string{"x"}, Uses: [][2]string{{op.Name, "x"}}, Extra: []string{}, Chk: "binary", Eq: true, L: "lit", R: cl[0]}
		for _, a := range []Atom{right, swapped} {
			r := RuleDesc{Report: "msg", Where: a.Src, Atoms: []Atom{a}}
			out = append(out, groupFile{"Where(" + a.Src + "): the second rule of the group repeats the clauses over a pattern that does not bind the variable",
				[]GroupDesc{{Rules: []RuleDesc{r.with(has[0]), r.with(lacks[0])}}}, false})
		}
	}
	// the argument of Type.IdenticalTo
	idt := Atom{Src: `m["y"].Type.IdenticalTo(m["x"])`, Vars: []string{"y", "x"}, Uses: [][2]string{{"VarTypeIdenticalTo", "y"}}, Extra: []string{"x"}}
	shapes("Where(Type.IdenticalTo(m[x]))", "", RuleDesc{Report: "msg", Where: idt.Src, Atoms: []Atom{idt}}, has, lacks, mixed)
	// At()
	shapes("At()", "", RuleDesc{Report: "msg", At: "x", Atoms: []Atom{}}, has, lacks, mixed)
	shapes("Where() and At()", "", RuleDesc{Report: "msg", At: "x", Where: bound.Src, Atoms: []Atom{bound}}, has, lacks, mixed)
	// Where() through a local helper of the group
	shapes("Where(helper(m[x]))", "isPure := func(v dsl.Var) bool { return v.Pure && !v.Const }",
		RuleDesc{Report: "msg", Where: `isPure(m["x"])`, Atoms: []Atom{bound, {Src: `m["x"].Const`, Vars: []string{"x"}, Uses: [][2]string{{"VarConst", "x"}}, Extra: []string{}}}}, has, lacks, mixed)
	// equal-named local helpers of different arity in consecutive groups: the helper table is the group's own
	ok1 := "ok := func(v dsl.Var) bool { return v.Pure }"
	ok2 := "ok := func(v dsl.Var, w dsl.Var) bool { return v.Pure && w.Pure }"
	py := Atom{Src: `m["y"].Pure`, Vars: []string{"y"}, Uses: [][2]string{{"VarPure", "y"}}, Extra: []string{}}
	hr1 := RuleDesc{Report: "msg", Where: `ok(m["x"])`, Atoms: []Atom{bound}}.with(has[0])
	hr2 := RuleDesc{Report: "msg", Where: `ok(m["x"], m["y"])`, Atoms: []Atom{bound, py}}.with(has[0])
	out = append(out,
		groupFile{"equal-named helpers in consecutive groups: one parameter, then two", []GroupDesc{{Pre: ok1, Rules: []RuleDesc{hr1}}, {Pre: ok2, Rules: []RuleDesc{hr2}}}, false},
		groupFile{"equal-named helpers in consecutive groups: two parameters, then one", []GroupDesc{{Pre: ok2, Rules: []RuleDesc{hr2}}, {Pre: ok1, Rules: []RuleDesc{hr1}}}, false},
		groupFile{"equal-named helpers in consecutive groups: same parameters (control)", []GroupDesc{{Pre: ok1, Rules: []RuleDesc{hr1}}, {Pre: ok1, Rules: []RuleDesc{hr1}}}, false},
	)
	// a compound Where(), suggestions
	cmp := RuleDesc{Report: "msg", Suggest: "$y", Where: `m["x"].Pure && !m["x"].Const`, Atoms: []Atom{bound, {Src: `m["x"].Const`, Vars: []string{"x"}, Uses: [][2]string{{"VarConst", "x"}}, Extra: []string{}}}}
	shapes("Where(a && !b), Suggest", "", cmp, has, lacks, mixed)
	// comment rules
	txt := Atom{Src: "m[\"x\"].Text.Matches(`^a`)", Vars: []string{"x"}, Uses: [][2]string{{"VarTextMatches", "x"}}, Extra: []string{}}
	cr := RuleDesc{Comment: true, Report: "msg", Where: txt.Src, Atoms: []Atom{txt}}
	chas := [][]Alt{commentAlts(`TODO\((?P<x>\w+)\)`), commentAlts(`(?P<x>a)(?P<y>b)?`)}
	clacks := [][]Alt{commentAlts(`TODO`), commentAlts(`(?i)fixme(?P<z>.)`)}
	shapes("MatchComment, Where()", "", cr, chas, clacks, commentAlts(`(?P<x>a)`, `(?P<y>b)`))
	// a syntax rule followed by a comment rule with the same clauses, and the other way round
	sr := RuleDesc{Report: "msg", Where: txt.Src, Atoms: []Atom{txt}}
	crl := cr.with(clacks[0])
	out = append(out,
		groupFile{"a comment rule repeats the Where() of a syntax rule; its pattern has no such group", []GroupDesc{{Rules: []RuleDesc{sr.with(has[0]), crl}}}, false},
		groupFile{"a syntax rule repeats the Where() of a comment rule; its pattern does not bind the variable", []GroupDesc{{Rules: []RuleDesc{cr.with(chas[0]), sr.with(lacks[0])}}}, false},
		groupFile{"a comment rule and a syntax rule with the same Where(), both bind the variable (control)", []GroupDesc{{Rules: []RuleDesc{cr.with(chas[0]), sr.with(has[0])}}}, false},
	)
	// the import table of a group (m.Import) is the group's own: a type pattern that names a package resolves it through the
	// imports of ITS group, not through what an earlier group -- or an earlier Load -- imported
	imp := "m.Import(`example.com/a/foo`)" // a package the default table of standard packages does not know (harness/fake/c20afoo)
	lst := Atom{Src: "m[\"x\"].Type.Is(`*foo.T`)", Vars: []string{"x"}, Uses: [][2]string{{"VarTypeIs", "x"}}, Extra: []string{}}
	lr := RuleDesc{Report: "msg", Where: lst.Src, Atoms: []Atom{lst}}.with(has[0])
	out = append(out,
		groupFile{"m.Import: the next group uses the package without importing it", []GroupDesc{{Pre: imp, Rules: []RuleDesc{lr}}, {Rules: []RuleDesc{lr}}}, true},
		groupFile{"m.Import: the first group uses the package without importing it, the next one imports it", []GroupDesc{{Rules: []RuleDesc{lr}}, {Pre: imp, Rules: []RuleDesc{lr}}}, true},
		groupFile{"m.Import: both groups import the package (control)", []GroupDesc{{Pre: imp, Rules: []RuleDesc{lr}}, {Pre: imp, Rules: []RuleDesc{lr}}}, true},
		groupFile{"m.Import: three groups, the one in the middle does not import the package", []GroupDesc{{Pre: imp, Rules: []RuleDesc{lr}}, {Rules: []RuleDesc{lr}}, {Pre: imp, Rules: []RuleDesc{lr}}}, true},
	)
	// templates: the variable a template interpolates must be bound by every alternative of ITS rule
	tr := RuleDesc{Report: "$x is bad", Suggest: "h($x)", Atoms: []Atom{}}
	shapes("Report / Suggest templates", "", tr, [][]Alt{altsOf("f($x)", "$x + $y"), altsOf("$x = $y", "-$x")}, [][]Alt{altsOf("f($x)", "g($y)"), altsOf("-$y", "$x[$y]")}, altsOf("f($x)", "$x + $y", "g($y)"))
	return out, nil
}

// groupRandom: generated files
func groupRandom(rng *rand.Rand, fset *token.FileSet, n int) []groupFile {
	var out []groupFile
	pats := []string{"$x + $y", "$x - $z", "f($x, $y)", "f($*xs)", "$x = $y", "$xs[$x]", "-$x", "g($y)", "$y[$z]", "f($x)", "$x.$y", "return $x, $y", "var $x = $y", "$f($*_)"}
	cpats := []string{`TODO`, `TODO\((?P<x>\w+)\)`, `(?P<x>a)(?P<y>b)?`, `(?P<xs>\w+)-(?P<x>\d)`, `(?i)fixme(?P<z>.)`}
	nloads := 0
	fresh := func() RuleDesc {
		// a rule that loads when it stands alone (most of what genRule draws does not: bad patterns, bad names, unbound variables;
		// the obvious ones are sorted out without loading them)
		for {
			d := genRule(rng)
			if len(d.Atoms) == 0 && d.At == "" {
				continue
			}
			plain := true
			for _, a := range d.Alts {
				plain = plain && a.OK
				for _, at := range d.Atoms {
					for _, v := range at.Vars {
						plain = plain && (v == "$$" || containsStr(a.Vars, v))
					}
				}
				plain = plain && (d.At == "" || d.At == "$$" || containsStr(a.Vars, d.At))
			}
			if !plain {
				continue
			}
			nloads++
			if nloads > 6*n || aloneOK(fset, GroupDesc{}, d) {
				return d
			}
		}
	}
	for i := 0; i < n; i++ {
		var gs []GroupDesc
		var pool []RuleDesc
		ng := 1 + rng.Intn(3)
		for gi := 0; gi < ng; gi++ {
			var g GroupDesc
			nr := 1 + rng.Intn(4)
			if ng == 1 && nr == 1 {
				nr = 2
			}
			for k := 0; k < nr; k++ {
				if len(pool) == 0 || rng.Intn(3) == 0 {
					d := fresh()
					pool = append(pool, d)
					g.Rules = append(g.Rules, d)
					continue
				}
				// the clauses of an earlier rule over other patterns
				d := pool[rng.Intn(len(pool))]
				var alts []Alt
				na := 1 + rng.Intn(2)
				for j := 0; j < na; j++ {
					if d.Comment {
						alts = append(alts, commentAlts(pick(rng, cpats))...)
					} else {
						alts = append(alts, compileAlt(pick(rng, pats)))
					}
				}
				if rng.Intn(4) == 0 {
					alts = d.Alts
				}
				g.Rules = append(g.Rules, d.with(alts))
			}
			gs = append(gs, g)
		}
		out = append(out, groupFile{"generated", gs, false})
	}
	return out
}

var aloneMemo = map[string]Obs{}

// aloneObs: the rule loaded as the only rule of the only group of a file (same prelude, same helpers)
func aloneObs(fset *token.FileSet, g GroupDesc, d RuleDesc) Obs {
	src, _ := renderGroups([]GroupDesc{{Pre: g.Pre, Rules: []RuleDesc{d}}})
	if o, ok := aloneMemo[src]; ok {
		return o
	}
	_, o := loadObs(fset, []byte(src))
	aloneMemo[src] = o
	return o
}

func aloneOK(fset *token.FileSet, g GroupDesc, d RuleDesc) bool {
	return aloneObs(fset, g, d).Kind == "ok"
}

// groupSpanProblem: a located error must name a line of a rule that is rejected when it stands alone
func groupSpanProblem(o Obs, spans [][][2]int, alone [][]Obs) string {
	if o.Kind != "error" || !o.Located {
		return ""
	}
	m := lineRe.FindStringSubmatch(o.Err)
	if m == nil {
		return ""
	}
	n := 0
	fmt.Sscanf(m[1], "%d", &n)
	bad := 0
	var where []string
	for gi := range spans {
		for k, sp := range spans[gi] {
			if alone[gi][k].Kind == "ok" {
				continue
			}
			bad++
			where = append(where, fmt.Sprintf("%d-%d", sp[0], sp[1]))
			if sp[0] <= n && n <= sp[1] {
				return ""
			}
		}
	}
	if bad == 0 {
		return "" // judged by the composition oracle
	}
	return fmt.Sprintf("the error names line %d; the rules that are rejected alone stand on lines %s", n, strings.Join(where, ", "))
}

func containsStr(xs []string, s string) bool {
	for _, x := range xs {
		if x == s {
			return true
		}
	}
	return false
}
