package main

// stream "chain": the method chains of a rule and their look-alikes.
//
//	(A) chains on the real matcher: every sequence of one or two of the seven chain methods, every subset of three or more of
//	    them (in an order drawn from the seed), every method repeated, and the argument spellings the type checker lets through
//	    (no arguments for the variadic ones, non-constant strings, parenthesised / computed / non-index At arguments, Do with
//	    nil / a literal / a method value / a variable) -- irconv walks the chain by method NAME and checks combinations afterwards;
//	(B) statements that look like rules but are calls on a user type whose methods are named like the chain methods and take
//	    no / two arguments;
//	(C) for EVERY op of the regenerated filter-op table: a Where() expression with the selector path of the op's DSL form on a
//	    user type (fields for the fields, methods for the methods of the form) with no / two / one non-constant argument, rooted
//	    at a variable, an index expression, a conversion, or reached through a local helper whose parameter is named like
//	    the matcher -- irconv recognises filters by selector path.
//
// Judged like stream fn: nil or an error that names a line of the rule group.

import (
	"fmt"
	"math/rand"
	"sort"
	"strings"
)

var chainOrder = []string{"Match", "MatchComment", "Where", "At", "Report", "Suggest", "Do"}

var chainCall = map[string]string{
	"Match": "Match(`$x + $y`)", "MatchComment": "MatchComment(`TODO (?P<x>\\w+)`)", "Where": "Where(m[\"x\"].Pure)", "At": "At(m[\"x\"])",
	"Report": "Report(`r $x`)", "Suggest": "Suggest(`$x`)", "Do": "Do(do)",
}

const chainDecls = "func do(ctx *dsl.DoContext) {}\n\ntype DT struct{}\n\nfunc (DT) dom(ctx *dsl.DoContext) {}\n\nvar (\n\tsv  string\n\tdv  dsl.Var\n\tdfv func(*dsl.DoContext)\n\tdm  dsl.Matcher\n\tdmf func() dsl.Matcher\n\tdms []dsl.Matcher\n)\n\nconst cS = \"c\"\n"

func chainFile(what string, decls string, stmt string) spanFile {
	var fb fileBuilder
	fb.add(fnHeader)
	fb.add("")
	fb.add("var _ dsl.Matcher")
	fb.add("")
	if decls != "" {
		fb.add(decls)
		fb.add("")
	}
	// the construct: the statements of the group (not its header: an error about a rule is not located at the function)
	lo, hi := fb.add("func g(m dsl.Matcher) {\n" + stmt + "\n}")
	return spanFile{what: what, src: fb.String(), lo: lo + 1, hi: hi - 1}
}

func chainStmt(root string, calls []string) string {
	return "\t" + root + "." + strings.Join(calls, ".\n\t\t")
}

func realChain(names []string) spanFile {
	var calls []string
	for _, n := range names {
		calls = append(calls, chainCall[n])
	}
	return chainFile("chain "+strings.Join(names, "."), chainDecls, chainStmt("m", calls))
}

// argument spellings that type-check (the chain is otherwise Match.[Where].X.Report)
var chainArgVariants = [][]string{
	{"Match()", "Report(`r`)"}, {"Match(`$x`, `$y`)", "Report(`r`)"}, {"Match(sv)", "Report(`r`)"}, {"Match(`$x` + `$y`)", "Report(`r`)"}, {"Match(cS)", "Report(`r`)"},
	{"Match((`$x`))", "Report(`r`)"}, {"Match([]string{`$x`}...)", "Report(`r`)"}, {"MatchComment()", "Report(`r`)"}, {"MatchComment(sv)", "Report(`r`)"},
	{"MatchComment(`a`, `(`)", "Report(`r`)"}, {"Match(`$x + $y`)", "Where(true)", "Report(`r`)"}, {"Match(`$x + $y`)", "Where(false)", "Report(`r`)"},
	{"Match(`$x + $y`)", "Where(sv == `a`)", "Report(`r`)"}, {"Match(`$x + $y`)", "Where((m[`x`].Pure))", "Report(`r`)"}, {"Match(`$x + $y`)", "At(dv)", "Report(`r`)"},
	{"Match(`$x + $y`)", "At(m[sv])", "Report(`r`)"}, {"Match(`$x + $y`)", "At((m[`x`]))", "Report(`r`)"}, {"Match(`$x + $y`)", "At(m[`x`+``])", "Report(`r`)"},
	{"Match(`$x + $y`)", "At(m[cS])", "Report(`r`)"}, {"Match(`$x + $y`)", "At(m[(`x`)])", "Report(`r`)"}, {"Match(`$x + $y`)", "At((m)[`x`])", "Report(`r`)"},
	{"Match(`$x + $y`)", "At(dsl.Var{})", "Report(`r`)"}, {"Match(`$x + $y`)", "At(m[`$$`])", "Report(`r`)"}, {"Match(`$x + $y`)", "At(m[``])", "Report(`r`)"},
	{"Match(`$x + $y`)", "Report(sv)"}, {"Match(`$x + $y`)", "Report(`a` + `b`)"}, {"Match(`$x + $y`)", "Report(cS)"}, {"Match(`$x + $y`)", "Report((`r`))"},
	{"Match(`$x + $y`)", "Report(string(`r`))"}, {"Match(`$x + $y`)", "Suggest(sv)"}, {"Match(`$x + $y`)", "Suggest(cS + `$x`)"}, {"Match(`$x + $y`)", "Report(`r`)", "Suggest(sv)"},
	{"Match(`$x + $y`)", "Do(nil)"}, {"Match(`$x + $y`)", "Do(func(ctx *dsl.DoContext) {})"}, {"Match(`$x + $y`)", "Do((do))"}, {"Match(`$x + $y`)", "Do(DT{}.dom)"},
	{"Match(`$x + $y`)", "Do(dfv)"}, {"Match(`$x + $y`)", "Do(nosuch)"}, {"Match(`$x + $y`)", "Do(g)"}, {"Match(`$x + $y`)", "Suggest(`s`)", "Do(nil)"},
	{"Match(`$x + $y`)", "Where(m[`x`].Pure)", "Do(do)", "At(m[`x`])"}, {"Import(`fmt`)"}, {"Import(sv)"}, {"Import(`fmt`)", "Match(`$x`)", "Report(`r`)"},
	{"Match(`$x + $y`)", "Report(`r`)", "Import(`fmt`)"}, {"Match(`$x + $y`)", "Import(`fmt`)"},
}

// look-alike of the matcher: all chain methods with k arguments
func lookalikeDecl(k int) (decl string, args string) {
	ps, as := "", ""
	if k == 2 {
		ps, as = "a, b string", "`a`, `b`"
	}
	var sb strings.Builder
	fmt.Fprintf(&sb, "type K%d interface {\n", k)
	for _, n := range chainOrder {
		fmt.Fprintf(&sb, "\t%s(%s) K%d\n", n, ps, k)
	}
	fmt.Fprintf(&sb, "\tImport(%s)\n}\n\nvar (\n\tk%d  K%d\n\tks%d []K%d\n\tmk%d func() K%d\n)\n", ps, k, k, k, k, k, k)
	return sb.String(), as
}

func chainFiles(seed int64) []spanFile {
	var out []spanFile
	// (A) sequences of one and two methods
	for _, a := range chainOrder {
		out = append(out, realChain([]string{a}))
		for _, b := range chainOrder {
			out = append(out, realChain([]string{a, b}))
		}
	}
	// subsets of three and more, each in an order drawn from the seed (the pattern call first in half of them)
	for mask := 0; mask < 1<<len(chainOrder); mask++ {
		var names []string
		for i, n := range chainOrder {
			if mask&(1<<i) != 0 {
				names = append(names, n)
			}
		}
		if len(names) < 3 {
			continue
		}
		r := rand.New(rand.NewSource(seed*131 + int64(mask)))
		r.Shuffle(len(names), func(i, j int) { names[i], names[j] = names[j], names[i] })
		if r.Intn(2) == 0 {
			sort.SliceStable(names, func(i, j int) bool {
				return strings.HasPrefix(names[i], "Match") && !strings.HasPrefix(names[j], "Match")
			})
		}
		out = append(out, realChain(names))
	}
	// every method twice
	for _, a := range chainOrder {
		out = append(out, realChain([]string{"Match", a, a, "Report"}))
		if a != "Match" {
			out = append(out, realChain([]string{"Match", a, "Report", a}))
		}
	}
	for _, calls := range chainArgVariants {
		out = append(out, chainFile("chain "+strings.Join(calls, "."), chainDecls, chainStmt("m", calls)))
	}
	// chains on other values of the matcher's own type
	for _, root := range []string{"(m)", "((m))", "dm", "dmf()", "dms[0]", "dsl.Matcher(m)", "dsl.Matcher{}"} {
		for _, calls := range [][]string{{"Match(`$x + $y`)", "Report(`r`)"}, {"Match(`$x + $y`)", "Where(m[`x`].Pure)", "Suggest(`$x`)"}} {
			out = append(out, chainFile("chain on "+root+": "+strings.Join(calls, "."), chainDecls, chainStmt(root, calls)))
		}
	}
	// a rule chain in a statement context other than a plain expression statement
	for _, st := range []string{
		"_ = m.Match(`$x + $y`).Report(`r`)", "x := m.Match(`$x + $y`).Report(`r`); _ = x", "var x = m.Match(`$x + $y`); x.Report(`r`)",
		"if true { m.Match(`$x + $y`).Report(`r`) }", "{ m.Match(`$x + $y`).Report(`r`) }", "func() { m.Match(`$x + $y`).Report(`r`) }()",
		"defer m.Match(`$x + $y`).Report(`r`)", "go m.Match(`$x + $y`).Report(`r`)", "(m.Match(`$x + $y`).Report(`r`))",
		"m.Match(`$x + $y`).Report(`r`); m.Match(`$x - $y`).Report(`s`)", "for { m.Match(`$x + $y`).Report(`r`) }", "L: m.Match(`$x + $y`).Report(`r`); goto L",
		"f := m.Match; f(`$x + $y`).Report(`r`)", "f := m.Match(`$x + $y`).Report; f(`r`)", "m.Match(`$x + $y`).Report(`r`)[`x`].Pure",
		"m[`x`].Pure", "m.Match", "m", "m.Match(`$x + $y`).Report(`r`).Match(`$x - $y`).Report(`s`)", "dsl.Matcher.Match(m, `$x + $y`).Report(`r`)",
	} {
		out = append(out, chainFile("statement "+st, chainDecls, "\t"+st))
	}
	// (B) look-alike statements
	for _, k := range []int{0, 2} {
		decl, as := lookalikeDecl(k)
		// what the chain starts at: a variable, a call, an element, a parenthesised variable, a conversion (rotating)
		roots := []string{"k%d", "mk%d()", "ks%d[0]", "(k%d)", "K%[1]d(k%[1]d)"}
		nroot := int(seed % 1000)
		nextRoot := func() string {
			nroot++
			return fmt.Sprintf(roots[nroot%len(roots)], k)
		}
		root := fmt.Sprintf("k%d", k)
		call := func(n string) string { return n + "(" + as + ")" }
		for _, first := range []string{"Match", "MatchComment"} {
			for _, x := range []string{"Where", "At", "Report", "Suggest", "Do"} {
				r := nextRoot()
				out = append(out, chainFile(fmt.Sprintf("look-alike statement %s.%s.%s, %d arguments", r, first, x, k), decl, chainStmt(r, []string{call(first), call(x)})))
				if x == "Where" || x == "At" {
					r = nextRoot()
					out = append(out, chainFile(fmt.Sprintf("look-alike statement %s.%s.%s.Report, %d arguments", r, first, x, k), decl, chainStmt(r, []string{call(first), call(x), call("Report")})))
				}
			}
		}
		out = append(out, chainFile(fmt.Sprintf("look-alike statement Import, %d arguments", k), decl, "\t"+root+"."+call("Import")))
		out = append(out, chainFile(fmt.Sprintf("look-alike statement Report.Match, %d arguments", k), decl, chainStmt(root, []string{call("Report"), call("Match")})))
	}
	// (C) look-alike filter expressions
	out = append(out, lookalikeFilters(seed)...)
	return out
}

type formSeg struct {
	name   string
	call   bool
	hasArg bool
}

// parseForm: the selector path of a DSL form: m[$Value].Type.Underlying().Is($Args[0]) -> Type, Underlying(), Is(arg)
func parseForm(form string) ([]formSeg, bool) {
	rest := ""
	switch {
	case strings.HasPrefix(form, "m[$Value]."):
		rest = strings.TrimPrefix(form, "m[$Value].")
	case strings.HasPrefix(form, "m[`$$`]."):
		rest = strings.TrimPrefix(form, "m[`$$`].")
	case strings.HasPrefix(form, "m."):
		rest = strings.TrimPrefix(form, "m.")
	default:
		return nil, false
	}
	var segs []formSeg
	for _, p := range strings.Split(rest, ".") {
		sg := formSeg{name: p}
		if i := strings.IndexByte(p, '('); i >= 0 {
			if !strings.HasSuffix(p, ")") {
				return nil, false
			}
			sg.name, sg.call, sg.hasArg = p[:i], true, p[i+1:len(p)-1] != ""
		}
		if sg.name == "" || strings.ContainsAny(sg.name, " $[]") {
			return nil, false
		}
		segs = append(segs, sg)
	}
	return segs, len(segs) > 0
}

// lookalikeFilters: see (C). An op whose form is a selector path the harness cannot parse is reported on stderr and stops the
// run (the table grew in a way this generator does not understand).
func lookalikeFilters(seed int64) []spanFile {
	var out []spanFile
	idx := 0
	for _, op := range opTable {
		if op.IsBinary || op.IsLit || op.Form == "" || strings.HasPrefix(op.Form, "!") || strings.Contains(op.Form, "holds") {
			continue
		}
		segs, ok := parseForm(op.Form)
		if !ok {
			panic(fmt.Sprintf("c06: the DSL form of op %s is not a selector path: %q", op.Name, op.Form))
		}
		ncall, lastArg := 0, false
		for _, sg := range segs {
			if sg.call {
				ncall++
			}
		}
		lastArg = segs[len(segs)-1].hasArg
		variants := []string{"a0"}
		if ncall > 0 {
			variants = append(variants, "a2")
		}
		if lastArg {
			variants = append(variants, "a1v")
		}
		final, cmp := "bool", ""
		if cl, ok := opValueCls[op.Name]; ok {
			final, cmp = "int", " == 4"
			if cl[0] == "text" {
				final, cmp = "string", " == `a`"
			}
		}
		for _, variant := range variants {
			idx++
			var decl strings.Builder
			expr := ""
			for i, sg := range segs {
				next := fmt.Sprintf("L%d", i+1)
				if i == len(segs)-1 {
					next = final
				}
				ps, as := "", ""
				switch {
				case variant == "a2":
					ps, as = "a, b string", "`a`, `b`"
				case variant == "a1v" && i == len(segs)-1:
					ps, as = "a string", "sv"
				}
				if sg.call {
					fmt.Fprintf(&decl, "type L%d interface{ %s(%s) %s }\n", i, sg.name, ps, next)
					expr += "." + sg.name + "(" + as + ")"
				} else {
					fmt.Fprintf(&decl, "type L%d struct{ %s %s }\n", i, sg.name, next)
					expr += "." + sg.name
				}
			}
			decl.WriteString("\nvar (\n\tlv L0\n\tlm map[string]L0\n\tsv string\n)\n")
			rootKind := (idx + int(seed%1000)) % 5
			var stmt, rootName string
			rule := func(where string) string { return "\tm.Match(`$x + $y`).\n\t\tWhere(" + where + ").\n\t\tReport(`r`)" }
			switch rootKind {
			case 0:
				rootName, stmt = "a variable", rule("lv"+expr+cmp)
			case 1:
				rootName, stmt = "an index expression", rule("lm[`x`]"+expr+cmp)
			case 2:
				rootName, stmt = "a conversion", rule("L0(lv)"+expr+cmp)
			case 3:
				rootName, stmt = "the parameter of a local helper", "\tf := func(q L0) bool { return q"+expr+cmp+" }\n"+rule("f(lv)")
			default:
				rootName, stmt = "a helper parameter named like the matcher", "\tf := func(m map[string]L0) bool { return m[`x`]"+expr+cmp+" }\n"+rule("f(lm)")
			}
			out = append(out, chainFile(fmt.Sprintf("look-alike of op %s (%s), %s, rooted at %s", op.Name, op.Form, variant, rootName), decl.String(), stmt))
		}
	}
	return out
}
