package main

// Render sweep over non-ASCII texts: TruncateLen -3..70 x captures whose text is made of 1-, 2-, 3- and 4-byte UTF-8 sequences.
//
// A message template interpolates the text of a capture and cuts it down to TruncateLen bytes. Whatever the cut does with the
// bytes it lands on -- in the middle of a multi-byte character, right behind one, in front of the last one -- Run must return
// and the report must be well-formed. The texts: identifiers (Go identifiers may be any letters: `größenänderungé`, `世界の地図`,
// the 4-byte mathematical letters `𝑥𝑦`), of every length 1..22 runes, ENDING and BEGINNING in a character of every width,
// around ASCII and around one another; argument lists of two such identifiers; string literals and comments with such text
// (comments END in it: the capture of a comment rule is the comment's text).

import (
	"fmt"
	"strings"

	"verif/harness/internal/filt"
	"verif/harness/internal/hutil"

	"github.com/quasilyte/go-ruleguard/ruleguard"
)

// one letter of every UTF-8 width (all valid in identifiers)
var uniLetters = []string{"a", "é", "世", "𝑥"}

// uniWords: identifiers of n runes whose last rune has width w (1..4) and whose other runes cycle through the widths from `start`
func uniWords() []string {
	var out []string
	seen := map[string]bool{}
	for n := 1; n <= 22; n++ {
		for w := 0; w < 4; w++ {
			for start := 0; start < 4; start += 3 { // ASCII-led and 4-byte-led
				var sb strings.Builder
				for i := 0; i < n-1; i++ {
					sb.WriteString(uniLetters[(start+i)%4])
				}
				sb.WriteString(uniLetters[w])
				id := sb.String()
				if !seen[id] {
					seen[id] = true
					out = append(out, id)
				}
			}
		}
	}
	// the texts of the kind people write
	for _, id := range []string{"größenänderungé", "世界の地図", "naïveCafé", "переменная", "𝑥𝑦𝑧𝑥𝑦𝑧", "x世", "世x", "aé", "éa"} {
		if !seen[id] {
			seen[id] = true
			out = append(out, id)
		}
	}
	return out
}

func uniHeader(words []string) string {
	var sb strings.Builder
	sb.WriteString("package uni\n\nfunc pu(args ...interface{}) {}\n\nvar (\n")
	for _, w := range words {
		fmt.Fprintf(&sb, "\t%s int\n", w)
	}
	sb.WriteString(")\n")
	return sb.String()
}

// uniSites: one statement sequence per site (valid on its own inside a function body)
func uniSites(words []string) []string {
	var out []string
	for i, w := range words {
		other := words[(i*7+3)%len(words)]
		out = append(out,
			fmt.Sprintf("\tpu(%s)\n", w),
			fmt.Sprintf("\tpu(%s, %s)\n", other, w),
			fmt.Sprintf("\tpu(\"%s\")\n", w),
			fmt.Sprintf("\t// cu: %s\n", w),
			fmt.Sprintf("\t/* cv: %s %s */\n", other, w))
	}
	return out
}

func uniSource(words []string, sites []string) string {
	return uniHeader(words) + "\nfunc sites() {\n" + strings.Join(sites, "") + "}\n"
}

var uniRules = []filt.Rule{
	{Name: "u0", Pattern: "pu($x)", Report: "$x|$$", Extra: ".\n\t\tSuggest(`$x`)"},
	{Name: "u1", Pattern: "pu($y, $*x)", Report: "$x and $y in $$", Extra: ".\n\t\tSuggest(`$y`).At(m[\"x\"])"},
	{Name: "u3", Pattern: `cu: (?P<x>\S+)`, Comment: true, Report: "$x|$$", Extra: ".\n\t\tSuggest(`$x`).At(m[\"x\"])"},
	{Name: "u4", Pattern: `cv: (?P<y>\S+) (?P<x>\S+) \*/`, Comment: true, Report: "$x,$y|$$"},
}

// uniRun: one run of the rules over the target with the given TruncateLen; Debug names u0 when debug is set
func uniRun(eng *ruleguard.Engine, t *hutil.Target, trunc int, debug bool) (n int, bads []bad, pmsg string) {
	dbg := ""
	if debug {
		dbg = "u0"
	}
	return runDebug(eng, t, trunc, "", nil, nil, dbg)
}

// uniSweep emits one "render" result per TruncateLen; a failing run is narrowed down to the first site that fails alone
func uniSweep(tmp string, emit func(result)) {
	words := uniWords()
	sites := uniSites(words)
	t, err := hutil.CheckTarget(tmp, "uni/uni.go", []byte(uniSource(words, sites)))
	if err != nil {
		emit(result{K: "render", Inst: "true", Shape: "unicode", LoadErr: "the unicode target does not type-check: " + err.Error()})
		return
	}
	mt, err := filt.CheckDetachedTarget(tmp+"/detached/uni_never_saved.go", []byte(uniSource(words, sites)), nil)
	if err != nil {
		emit(result{K: "render", Inst: "true", Shape: "unicode", LoadErr: "the unicode target does not type-check: " + err.Error()})
		return
	}
	eng, err := filt.Load(t.Fset, filt.RulesFile("", uniRules))
	if err != nil {
		emit(result{K: "render", Inst: "true", Shape: "unicode", LoadErr: err.Error()})
		return
	}
	located := 0
	for tl := -3; tl <= 70; tl++ {
		for fi, tg := range []*hutil.Target{t, mt} {
			if fi == 1 && tl%3 != 0 {
				continue // the in-memory copy (texts are printed, not sliced) every third length
			}
			file := []string{"", "mem"}[fi]
			n, bads, pmsg := uniRun(eng, tg, tl, tl%4 == 1)
			site := ""
			if (pmsg != "" || len(bads) > 0) && located < 4 {
				located++
				hdr := uniHeader(words)
				for _, s := range sites {
					saved := -1
					if fi == 1 {
						saved = 0
					}
					mini, err := checkMini(tmp, []byte(hdr+"\nfunc sites() {\n"+s+"}\n"), saved)
					if err != nil {
						continue
					}
					if _, b1, p1 := uniRun(eng, mini, tl, tl%4 == 1); p1 != "" || len(b1) > 0 {
						site = strings.TrimSpace(s)
						break
					}
				}
			}
			emit(result{K: "render", Inst: "true", Shape: "unicode", Pattern: "pu($x) | pu($y, $*x) | MatchComment(cu: (?P<x>\\S+)) | MatchComment(cv: ...)", Trunc: tl, File: file,
				Site: site, Panic: pmsg, Bad: bads, Reports: n, Debug: map[bool]string{true: "the first rule of the engine"}[tl%4 == 1]})
		}
	}
}
