package main

// History sweep: a reusable RunnerState against every point of an engine's life.
//
// The property quantifies over "with or without a reusable state". A state belongs to an engine, not to a rule set: an embedding
// linter creates it once (per worker) and the engine may go on loading rules files afterwards. Here rules files whose custom
// filters and Do() functions CALL OTHER functions of their file (helpers with arguments, helpers calling helpers) are loaded
// one after another -- in several orders, with a file that fails to load in between -- and a state is created at every point
// of the history: before the first Load, between Loads, after the last. After every Load the target is run with every state
// that exists (twice: a state's second use must be like its first) and with no state. No run may panic, every report must be
// well-formed, and the reports (per rule group) must be those of a FRESH engine that loaded the same files, run without a state.
// At the end a run panics in the documented way (a custom filter asks GetType for a name that cannot be resolved) with every
// state; the states must be usable afterwards.

import (
	"fmt"
	"sort"
	"strings"

	"verif/harness/internal/hutil"

	"github.com/quasilyte/go-ruleguard/ruleguard"
)

const histHeader = "package gorules\n\nimport (\n\t\"github.com/quasilyte/go-ruleguard/dsl\"\n\t\"github.com/quasilyte/go-ruleguard/dsl/types\"\n)\n\nvar _ = types.Identical\n\n"

type histFile struct {
	name, src string
	fails     bool // Load must fail
}

var histFiles = map[string]histFile{
	"plain": {name: "plain", src: histHeader + `
func plainRule(m dsl.Matcher) {
	m.Match("plain($x)").Report("plain $x")
}
`},
	// a filter that calls a helper with arguments
	"helper": {name: "helper", src: histHeader + `
func sizeIs(ctx *dsl.VarFilterContext, n int) bool {
	return ctx.SizeOf(ctx.Type) == n
}

func isWord(ctx *dsl.VarFilterContext) bool {
	return sizeIs(ctx, 8)
}

func wordRule(m dsl.Matcher) {
	m.Match("use1($x)").Where(m["x"].Filter(isWord)).Report("word $x")
}
`},
	// helpers calling helpers, two filters sharing one, a Do() function calling a helper that builds its text
	"chain": {name: "chain", src: histHeader + `
func sizeOver(ctx *dsl.VarFilterContext, n int) bool {
	return ctx.SizeOf(ctx.Type) > n
}

func between(ctx *dsl.VarFilterContext, lo, hi int) bool {
	return sizeOver(ctx, lo) && !sizeOver(ctx, hi)
}

func isSmall(ctx *dsl.VarFilterContext) bool {
	return between(ctx, 0, 4)
}

func named(s, want string) bool {
	return s == want
}

func isBig(ctx *dsl.VarFilterContext) bool {
	return sizeOver(ctx, 8) || named(ctx.Type.String(), "string")
}

func label(s string) string {
	return "<" + s + ">"
}

func describe(ctx *dsl.DoContext) {
	ctx.SetReport(label(ctx.Var("x").Text()) + " " + label(ctx.Var("x").Type().String()))
}

func smallRule(m dsl.Matcher) {
	m.Match("use2($x)").Where(m["x"].Filter(isSmall)).Report("small $x")
}

func bigRule(m dsl.Matcher) {
	m.Match("use3($x)").Where(m["x"].Filter(isBig) && !m["x"].Filter(isSmall)).Report("big $x")
}

func doRule(m dsl.Matcher) {
	m.Match("do2($x)").Do(describe)
}
`},
	// a second file with helpers of its own: their indexes lie behind those of the files loaded before
	"late": {name: "late", src: histHeader + `
func twice(n int) int {
	return n + n
}

func isQuad(ctx *dsl.VarFilterContext) bool {
	return ctx.SizeOf(ctx.Type) == twice(twice(4))
}

func quadRule(m dsl.Matcher) {
	m.Match("use4($x)").Where(m["x"].Filter(isQuad)).Report("quad $x")
}
`},
	// fails to load AFTER its first function was compiled
	"broken": {name: "broken", fails: true, src: histHeader + `
func fine(ctx *dsl.VarFilterContext) bool {
	return helperOfBroken(ctx.SizeOf(ctx.Type))
}

func helperOfBroken(n int) bool {
	return n > 1
}

func notCompilable(ctx *dsl.VarFilterContext) bool {
	defer fine(ctx)
	return true
}

func brokenRule(m dsl.Matcher) {
	m.Match("use5($x)").Where(m["x"].Filter(fine) && m["x"].Filter(notCompilable)).Report("broken $x")
}
`},
	// the documented exception: GetType on a name that cannot be resolved panics
	"boom": {name: "boom", src: histHeader + `
func lookup(ctx *dsl.VarFilterContext, name string) bool {
	return types.Identical(ctx.Type, ctx.GetType(name))
}

func unresolvable(ctx *dsl.VarFilterContext) bool {
	return lookup(ctx, "nosuch/pkg.T")
}

func boomRule(m dsl.Matcher) {
	m.Match("boom($x)").Where(m["x"].Filter(unresolvable)).Report("boom $x")
}
`},
}

var histOrders = [][]string{
	{"plain", "helper", "chain"},
	{"helper", "plain", "late"},
	{"chain", "late", "helper"},
	{"helper", "broken", "chain"},
	{"late", "chain", "broken", "plain"},
}

const histTargetSrc = `package htarget

type Wide struct{ a, b, c int64 }

var (
	b8  int8
	i16 int16
	i32 int32
	i64 int64
	s   string
	w   Wide
	c   complex128
	p   *int
)

func plain(args ...interface{}) {}
func use1(args ...interface{})  {}
func use2(args ...interface{})  {}
func use3(args ...interface{})  {}
func use4(args ...interface{})  {}
func use5(args ...interface{})  {}
func do2(args ...interface{})   {}

func sites() {
	plain(b8); plain(s)
	use1(b8); use1(i64); use1(p); use1(s); use1(w)
	use2(b8); use2(i16); use2(i32); use2(i64); use2(w)
	use3(b8); use3(i64); use3(s); use3(w); use3(c)
	use4(c); use4(s); use4(i64); use4(w)
	use5(b8); use5(i64)
	do2(b8); do2(w); do2(s)
}
`

const histBoomSrc = `package hboom

var v int

func boom(args ...interface{}) {}

func sites() {
	boom(v)
}
`

func histCounts(m map[string]int) string {
	var ks []string
	for k, n := range m {
		ks = append(ks, fmt.Sprintf("%s:%d", k, n))
	}
	sort.Strings(ks)
	return strings.Join(ks, " ")
}

type histState struct {
	name string
	st   *ruleguard.RunnerState
}

func historySweep(tmp string, emit func(r result)) {
	t, err := hutil.CheckTargetPkg(tmp, "history/htarget.go", []byte(histTargetSrc), "example.com/htarget")
	if err != nil {
		emit(result{K: "history", Inst: "set-up", LoadErr: err.Error()})
		return
	}
	tb, err := hutil.CheckTargetPkg(tmp, "history/hboom.go", []byte(histBoomSrc), "example.com/hboom")
	if err != nil {
		emit(result{K: "history", Inst: "set-up", LoadErr: err.Error()})
		return
	}
	load := func(e *ruleguard.Engine, f histFile) (err error) {
		defer func() {
			if r := recover(); r != nil {
				err = fmt.Errorf("Load panics: %v", r)
			}
		}()
		return e.Load(&ruleguard.LoadContext{Fset: t.Fset}, f.name+".go", strings.NewReader(f.src))
	}
	// what a fresh engine with these files reports, run without a state
	reference := func(loaded []string) (string, string) {
		e := ruleguard.NewEngine()
		for _, n := range loaded {
			if err := load(e, histFiles[n]); err != nil {
				return "", "reference engine: " + err.Error()
			}
		}
		if len(loaded) == 0 {
			return "", ""
		}
		per := map[string]int{}
		_, bads, pmsg := runCounted(e, t, 0, "", nil, per)
		if pmsg != "" || len(bads) > 0 {
			return "", fmt.Sprintf("reference engine: %s %v", pmsg, bads)
		}
		return histCounts(per), ""
	}
	runs, documentedPanics := 0, 0
	for _, order := range histOrders {
		e := ruleguard.NewEngine()
		states := []histState{{"created before the first Load", ruleguard.NewRunnerState(e)}}
		var loaded []string
		var story []string
		stop := false
		observe := func(tg *hutil.Target, what string, want string, mayPanic bool) {
			for _, hs := range append([]histState{{"none", nil}}, states...) {
				for use := 1; use <= 2; use++ {
					if hs.st == nil && use == 2 {
						continue
					}
					per := map[string]int{}
					n, bads, pmsg := runCounted(e, tg, 0, "", hs.st, per)
					runs++
					r := result{K: "history", Inst: strings.Join(story, "; ") + "; " + what, Shape: fmt.Sprintf("state %s, use %d of it at this point", hs.name, use),
						Reused: hs.st != nil, Reports: n, Bad: bads}
					if pmsg != "" && !mayPanic {
						r.Panic = pmsg
					}
					if pmsg != "" && mayPanic {
						documentedPanics++
					}
					if pmsg == "" && !mayPanic && histCounts(per) != want {
						r.Bad = append(r.Bad, bad{What: "reports differ from those of a fresh engine that loaded the same files (run without a state)",
							Detail: fmt.Sprintf("with this state: [%s]; fresh engine: [%s]", histCounts(per), want)})
					}
					emit(r)
				}
			}
		}
		for _, name := range order {
			f := histFiles[name]
			err := load(e, f)
			switch {
			case err != nil && !f.fails:
				emit(result{K: "history", Inst: strings.Join(story, "; ") + "; Load " + name, LoadErr: err.Error()})
				stop = true
			case err == nil && f.fails:
				emit(result{K: "history", Inst: strings.Join(story, "; ") + "; Load " + name, LoadErr: "a file that was written to fail loads: the history does not exercise a failed Load"})
				stop = true
			case err != nil:
				story = append(story, "Load "+name+" (fails)")
			default:
				loaded = append(loaded, name)
				story = append(story, "Load "+name)
			}
			if stop {
				break
			}
			states = append(states, histState{"created after `" + strings.Join(story, "; ") + "`", ruleguard.NewRunnerState(e)})
			want, rerr := reference(loaded)
			if rerr != "" {
				emit(result{K: "history", Inst: strings.Join(story, "; "), LoadErr: rerr})
				stop = true
				break
			}
			observe(t, "Run", want, false)
		}
		if stop {
			continue
		}
		// the documented panic, with every state; then every state once more on the ordinary target
		if err := load(e, histFiles["boom"]); err != nil {
			emit(result{K: "history", Inst: strings.Join(story, "; ") + "; Load boom", LoadErr: err.Error()})
			continue
		}
		loaded = append(loaded, "boom")
		story = append(story, "Load boom")
		want, rerr := reference(loaded)
		if rerr != "" {
			emit(result{K: "history", Inst: strings.Join(story, "; "), LoadErr: rerr})
			continue
		}
		observe(tb, "Run on the file where the custom filter panics (documented: GetType of an unresolvable name)", "", true)
		story = append(story, "a Run that panicked in a custom filter")
		observe(t, "Run", want, false)
	}
	// Trunc: the runs that panicked in the documented way (the states are used again after them)
	emit(result{K: "history-meta", Reports: runs, Trunc: documentedPanics})
}
