package main

// Two small sweeps added in follow-up round 5.
//
// enumSweep: predicates whose argument is one NAME of a fixed set -- Object.Is(kind), Node.Is(tag) / Node.Parent().Is(tag),
// Type.OfKind(name) / Type.Underlying().OfKind(name) and the comparison methods of GoVersion(). The loader decides which names
// it accepts, the constructor decides what it does with the name: two places that can drift apart (a name the loader lets
// through and the constructor has no case for leaves a nil function behind). The sweep drives EVERY name the loader accepts:
// the candidates are the names regenerated from the loader's source by `go2coq filterenums` (handed in with -enums) together
// with universes of the harness's own (the object kinds of go/types, every exported type name of go/ast, every basic type name
// and kind word, the methods of dsl.GoVersion); each candidate is probed through Engine.Load and the accepted ones are evaluated
// on the identifiers of every object kind of a small file (callees, operands, selector parts, labels), on the elements of `$*xs`
// captures of expression and statement lists, and on the whole match. The accepted sets are printed (`enum-meta`) and compared
// with the regenerated ones by the check.
//
// partialSweep: pattern roots for which gogrep delivers a *gogrep.PartialNode as the match (range headers `for $k, $v := range
// $x`, range clauses `range $x`) with `$$` in the message, the suggestion, the location and under the text predicates, over a
// file on disk, a file that exists in memory only and a file whose copy on disk is older and shorter.

import (
	"encoding/json"
	"fmt"
	"go/importer"
	"go/token"
	"go/types"
	"os"
	"sort"
	"strings"
	"sync"

	"verif/harness/internal/filt"
	"verif/harness/internal/hutil"
)

const enumHeader = `package enumt

import (
	"fmt"
	"os"
)

var _, _ = fmt.Sprint, os.Args

const kc = 3

type T struct{ f int }

func (t T) M() int { return t.f }

var gv = 1

var ge error

func use(args ...interface{}) {}

func two() (int, error) { return 0, nil }

`

// every statement is one site (a failing unit is narrowed to the first site that fails alone)
var enumSites = []string{
	"use(nil, nil)",
	"use(gv, kc)",
	"use(loc, p, rest)",
	"use(f, T.M, loc.M, loc.f)",
	"use(len(rest), cap(rest), int(1), T{})",
	"use(fmt.Sprint, os.Args, fmt.Sprint(1))",
	"use(\"s\", 1.5, true, 'c', 1i, iota0)",
	"use()",
	"use(nil)",
	"use(ge == nil, gv+1, -gv, &gv, rest[0], rest[:1], func() {})",
	"a, b := two()\n\tuse(a, b)",
	"var (\n\t\tv1 int\n\t\tv2 = \"x\"\n\t)\n\tuse(v1, v2)",
	"type local struct{ x, y int }\n\tuse(local{1, 2}, local{x: 1})",
	"L:\n\tfor i := range rest {\n\t\tif i > kc {\n\t\t\tbreak L\n\t\t}\n\t\tcontinue L\n\t}",
	"switch y := interface{}(gv).(type) {\n\tcase int, string:\n\t\tuse(y)\n\tdefault:\n\t}",
	"select {\n\tcase v, ok := <-make(chan int):\n\t\tuse(v, ok)\n\tdefault:\n\t}",
	"go use()\n\tdefer use(nil)",
	"gv++\n\tgv += 2\n\t_ = gv",
	"if e := ge; e != nil {\n\t\tuse(e)\n\t} else if gv > 0 {\n\t}",
	"for i := 0; i < 2; i++ {\n\t}",
	"res = p\n\treturn",
}

func enumSource(sites []string) string {
	var sb strings.Builder
	sb.WriteString(enumHeader)
	sb.WriteString("const iota0 = iota\n\nfunc f(p int, rest ...string) (res int) {\n\tvar loc T\n\t_ = loc\n")
	for _, s := range sites {
		sb.WriteString("\t{\n\t" + strings.ReplaceAll(s, "\n", "\n\t") + "\n\t}\n")
	}
	sb.WriteString("\treturn 0\n}\n")
	return sb.String()
}

type enumPred struct {
	name string
	// where: the filter source for capture v and argument a
	where func(v, a string) string
	// rootOnly: the predicate exists on m["$$"] only; fileLevel: no capture at all
	rootOnly, fileLevel bool
	own                 []string
}

func enumPreds() []enumPred {
	astNames := []string{"Unknown", "Node", "Expr", "Stmt", "Decl", "Spec"}
	if pkg, err := importer.ForCompiler(token.NewFileSet(), "source", nil).Import("go/ast"); err == nil {
		for _, n := range pkg.Scope().Names() {
			if _, ok := pkg.Scope().Lookup(n).(*types.TypeName); ok && token.IsExported(n) {
				astNames = append(astNames, n)
			}
		}
	}
	kinds := []string{"integer", "unsigned", "float", "complex", "untyped", "numeric", "signed", "int", "uint", "string", "boolean", "constant", "ordered", "bool"}
	for _, b := range types.Typ {
		kinds = append(kinds, b.Name())
	}
	q := func(a string) string { return fmt.Sprintf("%q", a) }
	return []enumPred{
		{name: "Object.Is", where: func(v, a string) string { return fmt.Sprintf("m[%q].Object.Is(%s)", v, q(a)) },
			own: []string{"Var", "Func", "Const", "TypeName", "Label", "PkgName", "Builtin", "Nil", "Type", "Object", "var", "nil"}},
		{name: "Node.Is", where: func(v, a string) string { return fmt.Sprintf("m[%q].Node.Is(%s)", v, q(a)) }, own: astNames},
		{name: "Node.Parent.Is", rootOnly: true, where: func(v, a string) string { return fmt.Sprintf("m[%q].Node.Parent().Is(%s)", v, q(a)) }, own: astNames},
		{name: "Type.OfKind", where: func(v, a string) string { return fmt.Sprintf("m[%q].Type.OfKind(%s)", v, q(a)) }, own: kinds},
		{name: "Type.Underlying.OfKind", where: func(v, a string) string { return fmt.Sprintf("m[%q].Type.Underlying().OfKind(%s)", v, q(a)) }, own: kinds},
		{name: "GoVersion", fileLevel: true, where: func(v, a string) string { return fmt.Sprintf("m.GoVersion().%s(\"1.18\")", a) },
			own: []string{"Eq", "LessThan", "GreaterThan", "LessEqThan", "GreaterEqThan", "NotEq", "Is"}},
	}
}

type enumPat struct {
	pat  string
	vars []string // the captures the predicates are put on ("$$": the whole match)
}

var enumPats = []enumPat{
	{"$x($*_)", []string{"x", "$$"}},
	{"$x == $y", []string{"x", "y"}},
	{"$f($*xs)", []string{"xs", "f", "$$"}},
	{"$_($_, $*xs)", []string{"xs"}},
	{"{ $*xs }", []string{"xs"}},
	{"$*xs := $*_", []string{"xs"}},
	{"$x.$y", []string{"x", "y"}},
	{"break $x", []string{"x"}},
}

func enumSweep(tmp, regenerated string, emit func(result), meta func(interface{})) {
	fail := func(msg string) {
		emit(result{K: "run", Inst: "enum", Shape: "enum", LoadErr: msg})
	}
	regen := map[string][]string{}
	if regenerated != "" {
		b, err := os.ReadFile(regenerated)
		if err == nil {
			err = json.Unmarshal(b, &regen)
		}
		if err != nil {
			fail("the regenerated name sets cannot be read: " + err.Error())
			return
		}
	}
	t, err := hutil.CheckTarget(tmp, "enumt/enumt.go", []byte(enumSource(enumSites)))
	if err != nil {
		fail("the enum target does not type-check: " + err.Error())
		return
	}
	mt, err := filt.CheckDetachedTarget(tmp+"/detached/enumt_never_saved.go", []byte(enumSource(enumSites)), nil)
	if err != nil {
		fail("the enum target does not type-check: " + err.Error())
		return
	}
	preds := enumPreds()
	// ---- which names does the loader accept?
	accepted := map[string][]string{}
	candidates := map[string]int{}
	var mu sync.Mutex
	var wg sync.WaitGroup
	sem := make(chan struct{}, 8)
	for _, p := range preds {
		seen := map[string]bool{}
		var cands []string
		for _, a := range append(append([]string{}, p.own...), regen[p.name]...) {
			if !seen[a] {
				seen[a] = true
				cands = append(cands, a)
			}
		}
		candidates[p.name] = len(cands)
		for _, a := range cands {
			p, a := p, a
			wg.Add(1)
			sem <- struct{}{}
			go func() {
				defer wg.Done()
				defer func() { <-sem }()
				v := "x"
				if p.rootOnly {
					v = "$$"
				}
				_, err := filt.Load(token.NewFileSet(), filt.RulesFile("", []filt.Rule{{Name: "probe", Pattern: "probe($x)", WhereSrc: p.where(v, a), Report: "r"}}))
				if err == nil {
					mu.Lock()
					accepted[p.name] = append(accepted[p.name], a)
					mu.Unlock()
				}
			}()
		}
	}
	wg.Wait()
	for k := range accepted {
		sort.Strings(accepted[k])
	}
	// ---- every accepted name on every capture
	sitesOf := map[string]int{}
	units, located := 0, 0
	runOne := func(tg *hutil.Target, pat, where, gover string) (pmsg, lerr string) {
		eng, err := filt.Load(tg.Fset, filt.RulesFile("", []filt.Rule{{Name: "enum", Pattern: pat, WhereSrc: where, Report: "$$"}}))
		if err != nil {
			return "", err.Error()
		}
		_, _, pmsg = runDebug(eng, tg, 0, gover, nil, nil, "")
		return pmsg, ""
	}
	rejecting := func(us []string) string {
		parts := make([]string, len(us))
		for i, u := range us {
			parts[i] = fmt.Sprintf("(%s && !%s)", u, u)
		}
		return strings.Join(parts, " ||\n\t\t\t")
	}
	for _, ep := range enumPats {
		// how many matches the pattern has (the filters are evaluated on each)
		if eng, err := filt.Load(t.Fset, filt.RulesFile("", []filt.Rule{{Name: "loc", Pattern: ep.pat, Report: "$$"}})); err == nil {
			n, _, _ := runDebug(eng, t, 0, "", nil, nil, "")
			sitesOf[ep.pat] = n
		} else {
			fail(fmt.Sprintf("pattern %q does not load: %v", ep.pat, err))
			continue
		}
		for _, v := range ep.vars {
			for _, p := range preds {
				if p.rootOnly && v != "$$" {
					continue
				}
				if p.fileLevel && v != ep.vars[0] {
					continue
				}
				var us []string
				for _, a := range accepted[p.name] {
					us = append(us, p.where(v, a))
				}
				if len(us) == 0 {
					continue
				}
				units += len(us)
				for fi, tg := range []*hutil.Target{t, mt} {
					file := []string{"", "mem"}[fi]
					gover := []string{"", "1.18"}[fi]
					pmsg, lerr := runOne(tg, ep.pat, rejecting(us), gover)
					if pmsg == "" && lerr == "" {
						emit(result{K: "run", Inst: "enum:" + p.name, Shape: "enum", Pattern: ep.pat, Where: fmt.Sprintf("(F && !F) || ... for F = %s over the %d accepted names", p.where(v, "<name>"), len(us)),
							GoVer: gover, File: file, Reports: sitesOf[ep.pat]})
						continue
					}
					// isolate the unit, then the site
					for i, u := range us {
						p1, l1 := runOne(tg, ep.pat, rejecting([]string{u}), gover)
						if p1 == "" && l1 == "" {
							continue
						}
						site := ""
						if p1 != "" && located < 4 {
							located++
							for _, s := range enumSites {
								st, err := hutil.CheckTarget(tmp, "enumt1/enumt.go", []byte(enumSource([]string{s})))
								if err != nil {
									continue
								}
								if p2, _ := runOne(st, ep.pat, rejecting([]string{u}), gover); p2 != "" {
									site = s
									break
								}
							}
						}
						emit(result{K: "run", Inst: "enum:" + p.name + ":" + accepted[p.name][i], Shape: "enum", Pattern: ep.pat, Where: rejecting([]string{u}), Site: site,
							GoVer: gover, File: file, Panic: p1, LoadErr: l1})
					}
				}
			}
		}
	}
	meta(map[string]interface{}{"k": "enum-meta", "accepted": accepted, "candidates": candidates, "matches": sitesOf, "units": units})
}

// ---------------------------------------------------------------- partial nodes

const partialSrc = `package part

var m = map[string]int{}

var xs []int

func f() {
	for k, v := range m {
		_, _ = k, v
	}
	for k := range m {
		_ = k
	}
	for range xs {
	}
	var k string
	var v int
	for k, v = range m {
	}
	for k = range m {
	}
	for _, x := range []int{1, 2} {
		_ = x
	}
	for  a ,b:=range m {
		_, _ = a, b
	}
	for i := range xs[:len(xs)-1] {
		for j := range xs[i:] {
			_ = j
		}
	}
	_, _ = k, v
}
`

func partialSweep(tmp string, emit func(result), meta func(interface{})) {
	fail := func(msg string) { emit(result{K: "run", Inst: "partial", Shape: "partial", LoadErr: msg}) }
	t, err := hutil.CheckTarget(tmp, "part/part.go", []byte(partialSrc))
	if err != nil {
		fail("the target does not type-check: " + err.Error())
		return
	}
	mt, err := filt.CheckDetachedTarget(tmp+"/detached/part_never_saved.go", []byte(partialSrc), nil)
	if err != nil {
		fail(err.Error())
		return
	}
	cut := strings.Index(partialSrc, "\tfor range xs")
	st, err := filt.CheckDetachedTarget(tmp+"/detached/part_older_on_disk.go", []byte(partialSrc), []byte(partialSrc[:cut+3]))
	if err != nil {
		fail(err.Error())
		return
	}
	type prule struct {
		pat, where, report, extra string
		ctor                      string // the rule's filter is one closure of this constructor (the model predicts its outcome)
	}
	pats := []string{"for $k, $v := range $x", "for $k := range $x", "for range $x", "for $k, $v = range $x", "for $k = range $x", "range $x"}
	var rules []prule
	for _, p := range pats {
		rules = append(rules,
			prule{p, "", "$$", "", ""},
			prule{p, "", "$x in $$", ".\n\t\tSuggest(`$$`)", ""},
			prule{p, "", "$$ at $x", ".At(m[\"x\"])", ""},
			prule{p, `m["$$"].Text.Matches("range")`, "plain", "", "makeTextMatchesFilter"},
			prule{p, `m["$$"].Text != "for" && m["$$"].Line > 0`, "$$", "", ""},
			prule{p, `!m["$$"].Node.Is("RangeStmt") || m["$$"].Contains("$x") || m["$$"].Pure || m["$$"].Type.Is("int")`, "$$", "", ""},
			prule{p, `m["$$"].Node.Parent().Is("BlockStmt") || m["x"].Type.Is("map[string]int")`, "$$|$x", "", ""},
		)
	}
	runs, reports := 0, 0
	for _, r := range rules {
		eng, err := filt.Load(t.Fset, filt.RulesFile("", []filt.Rule{{Name: "partial", Pattern: r.pat, WhereSrc: r.where, Report: r.report, Extra: r.extra}}))
		if err != nil {
			emit(result{K: "run", Inst: "partial", Shape: "partial", Pattern: r.pat, Where: r.where, Extra: r.extra, LoadErr: err.Error()})
			continue
		}
		for fi, tg := range []*hutil.Target{t, mt, st} {
			for _, tl := range []int{0, 7} {
				n, bads, pmsg := runDebug(eng, tg, tl, "", nil, nil, map[bool]string{true: "partial"}[tl == 7])
				runs++
				reports += n
				emit(result{K: "run", Inst: "partial:" + r.report, Ctor: r.ctor, Shape: "partial", Pattern: r.pat, Where: r.where, Extra: r.extra, Trunc: tl, File: []string{"", "mem", "stale"}[fi],
					Debug: map[bool]string{true: "the rule"}[tl == 7], Panic: pmsg, Bad: bads, Reports: n})
			}
		}
	}
	meta(map[string]interface{}{"k": "partial-meta", "patterns": len(pats), "runs": runs, "reports": reports})
}
