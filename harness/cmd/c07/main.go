// c07: shape-coverage sweep for "Run never crashes on type-checked code; reports are well-formed".
//
// Every filter constructor (one or two predicate instances each) x every capture shape (expression, `$*xs` expression list of
// length 0/1/3, statement, statement list of length 0/1/2, typed-nil and non-nil result field list, type expression,
// parameter list) is loaded as a rule `Match(shape pattern).Where(P).Report("$x|$$").Suggest("$x")` and run through the real
// engine under recover, under several RunContext settings (TruncateLen -3..70, Go version set/unset, State nil/reused).
// For every delivered report the harness checks: node non-nil, Pos()/End() do not panic, 0 <= pos <= end <= len(file),
// group non-nil, suggestion range inside the file.
package main

import (
	"encoding/json"
	"flag"
	"fmt"
	"go/ast"
	"go/importer"
	"go/parser"
	"go/token"
	"go/types"
	"os"
	"path/filepath"
	"strconv"
	"strings"
	"sync"
	"time"

	"verif/harness/internal/filt"
	"verif/harness/internal/hutil"

	"github.com/quasilyte/go-ruleguard/ruleguard"
)

const W = 48

const decls = `package target

import (
	"fmt"
	"strings"
	"unsafe"
)

var _ = unsafe.Sizeof(0)

type S struct {
	a int
	b string
}
type MyInt int
type Str struct{}

func (Str) String() string { return "" }

var gi int
var gs string
var gp *int
var gsl []int
var gS S
var gstr Str
var gch chan int
var gb bool

const ci = 5

func f1() int                  { return gi }
func fn(a int) (int, error)    { return a, nil }
func takeFn(f func(int), v int) {}
func idG[T any](v T) T         { return v }

type MyStr string
type FV func(int) string

var gfv FV
var gm map[string]int
var gbs []byte

type PS struct{}

func (*PS) Take(int) {}
func (PS) Get() int   { return 0 }
func (Str) Take(int)  {}

var _ = fmt.Sprint
var _ = strings.ToUpper
`

var exprSites = []string{
	"gi", "1", "\"s\"", "nil", "ci", "gi + 1", "1 > 0", "f1()", "fn(1)", "S{1, \"a\"}", "S{a: f1()}", "[]int{1}", "func() {}", "gS.a", "strings.ToUpper",
	"(gi)", "*gp", "&gi", "gsl[0]", "gsl[1:]", "<-gch", "t", "u", "vs", "gstr", "[]byte(\"x\")", "int64(gi)", "!gb", "struct{}{}", "len(gsl)",
}

var listSites = [][]string{{}, {"gi", "1", "f1()"}, {"nil", "t"}, {"1 > 0", "gs"}, {"fn(1)"}}

var stmtSites = [][]string{
	{}, {"f1()"}, {"gi = 1"}, {"gi++"}, {"return"}, {"var _ int"}, {"go f1()"}, {"{}"}, {"f1()", "gi = 2"}, {"if gb {}", "for {}"}, {"gch <- 1"},
	{"switch {}"}, {";"},
}

// header: declarations and the probe functions (the function declarations are sites themselves)
func header() string {
	var sb strings.Builder
	sb.WriteString(decls)
	for j := 0; j < W; j++ {
		fmt.Fprintf(&sb, "func p%d(args ...interface{}) {}\nfunc q%d() bool { return gb }\n", j, j)
		fmt.Fprintf(&sb, "func r%d() int { return gi }\nfunc rs%d() string { return gs }\n", j, j)
		fmt.Fprintf(&sb, "func fa%d() {}\nfunc fb%d() (int, error) { return 0, nil }\nfunc fc%d(a int, b ...string) (r int) { return a }\nfunc fd%d(int, string) {}\n", j, j, j, j)
		fmt.Fprintf(&sb, "type ts%d struct {\n\ta, b int\n\tc    string \"tag\"\n\td    bool\n}\n", j)
	}
	return sb.String()
}

const sitesOpen = "\nfunc sites[T any, U ~int64](t T, u U, vs ...string) {\n"

// siteSnippets: the probe sites of column j, each a statement sequence that is valid on its own inside sites()
func siteSnippets(j int) []string {
	var out []string
	for _, e := range exprSites {
		out = append(out, fmt.Sprintf("\tp%d(%s)\n", j, e))
	}
	for _, l := range listSites {
		out = append(out, fmt.Sprintf("\tp%d(%s)\n", j, strings.Join(l, ", ")))
	}
	for _, st := range stmtSites {
		out = append(out, fmt.Sprintf("\tif q%d() {\n\t\t%s\n\t}\n", j, strings.Join(st, "\n\t\t")))
	}
	for _, ctx := range sinkCtxs {
		out = append(out, fmt.Sprintf("\t"+ctx+"\n", fmt.Sprintf("r%d()", j)))
	}
	for _, ctx := range strSinkCtxs {
		out = append(out, fmt.Sprintf("\t"+ctx+"\n", fmt.Sprintf("rs%d()", j)))
	}
	for _, ctx := range intBuiltinCtxs {
		out = append(out, fmt.Sprintf("\t"+strings.ReplaceAll(ctx, "%s", "%[1]s")+"\n", fmt.Sprintf("r%d()", j)))
	}
	out = append(out, fmt.Sprintf("\tvar w%d []int\n\t_ = w%d\n\tvar ww%d, www%d map[string]S\n\t_, _ = ww%d, www%d\n", j, j, j, j, j, j))
	// comments for the MatchComment shapes: a named group that captures, one that captures nothing, no group, a block comment
	out = append(out, fmt.Sprintf("\t// ca%d: alpha beta\n\t// cb%d: tail\n\t// cc%d marker\n\t/* cd%d: block\n\t   comment */\n\t_ = gi // ce%d: trailing gi\n", j, j, j, j, j))
	return out
}

func target() string {
	var sb strings.Builder
	sb.WriteString(header())
	sb.WriteString(sitesOpen)
	for j := 0; j < W; j++ {
		for _, sn := range siteSnippets(j) {
			sb.WriteString(sn)
		}
	}
	sb.WriteString("}\n")
	return sb.String()
}

// contexts of the whole match for the sink / parent predicates
var sinkCtxs = []string{
	"_ = S{%s, \"a\"}", "_ = S{a: %s}", "_ = []S{{%s, \"b\"}}", "_ = &S{%s, \"c\"}", "_ = map[string]int{\"a\": %s}", "_ = map[int]string{%s: \"a\"}",
	"_ = []int{%s}", "_ = [...]int{2: %s}", "gi = %s", "gi, gs = %s, \"a\"", "var _ int = %s", "var _ = %s", "_ = gsl[%s]", "_ = int64(%s)", "p0(%s)", "p0(1, %s)",
	"_ = fmt.Sprint(%s)", "_ = (%s)", "_ = %s + 1", "%s", "gch <- %s", "_ = len(gsl[:%s])", "_ = struct{ a, b int }{%s, 2}", "_ = func() int { return %s }",
	"_ = new(int) == &gsl[%s]", "_ = append(gsl, %s)", "_ = [2]S{{a: %s}}",
}

// contexts of a string-valued whole match: builtins and conversions whose recorded signatures are special
// (append([]byte, s...), copy([]byte, s)), spread arguments, and the rest of the builtin family
var strSinkCtxs = []string{
	"gbs = append(gbs, %s...)", "_ = append([]byte(\"x\"), %s...)", "_ = append([]byte(nil), (%s)...)", "_ = copy(gbs, %s)", "_ = []byte(%s)", "_ = []rune(%s)",
	"_ = len(%s)", "_ = %s[0]", "_ = %s[1:]", "_ = %s + \"x\"", "_ = strings.ToUpper(%s)", "_ = fmt.Sprint(%s)", "_ = fmt.Sprintf(%s, 1)", "_ = fmt.Sprint([]interface{}{%s}...)",
	"_ = strings.Join([]string{%s}, \",\")", "_ = append([]string{}, %s)", "_ = append([]string{}, []string{%s}...)", "if false {\n\t\tpanic(%s)\n\t}", "print(%s)", "println(%s, 1)",
	"_ = unsafe.Sizeof(%s)", "_ = unsafe.StringData(%s)", "delete(gm, %s)", "_ = gm[%s]", "gm[%s] = 1", "_ = min(%s, \"b\")", "_ = max(\"a\", %s)", "_ = MyStr(%s)",
	"_ = interface{}(%s)", "_ = any(%s).(string)", "_ = func(a ...string) int { return len(a) }(%s)", "_ = func(a ...string) int { return len(a) }([]string{%s}...)",
	"_ = map[string]int{%s: 1}", "_ = [...]string{1: %s}", "_ = struct{ s string }{%s}", "_ = &struct{ s string }{s: %s}", "gs = %s", "gs += %s", "var _ fmt.Stringer = Str{}; _ = %s",
	"switch %s {\n\tcase \"a\":\n\t}", "switch {\n\tcase gs == %s:\n\t}", "for range %s {\n\t}", "for _, c := range []byte(%s) {\n\t\t_ = c\n\t}", "go func(s string) {}(%s)", "defer func(s string) {}(%s)",
}

// more contexts of the int-valued whole match: the builtin family
var intBuiltinCtxs = []string{
	"_ = make([]int, %s)", "_ = make([]int, 1, %s)", "_ = make(map[int]int, %s)", "_ = make(chan int, %s)", "_ = new(int) == &[]int{%s}[0]", "_ = complex(float64(%s), 0)",
	"_ = min(%s, 2)", "_ = max(1, %s, 3)", "_ = cap(gsl[:%s])", "_ = gsl[%s:]", "_ = gsl[1:%s:%s]", "_ = unsafe.Add(unsafe.Pointer(gp), %s)", "_ = unsafe.Slice(gp, %s)",
	"_ = unsafe.String((*byte)(unsafe.Pointer(gp)), %s)", "_ = uintptr(%s) + unsafe.Offsetof(gS.a)", "_ = real(complex(float64(%s), 1))", "_ = append(gsl, []int{%s}...)",
	"_ = append(gsl, 1, %s)", "_ = copy(gsl, []int{%s})", "gsl[%s] = 1", "_ = gs[%s]", "_ = 1 << %s", "_ = MyInt(%s)", "_ = float64(%s)", "_ = string(rune(%s))", "_ = interface{}(%s)",
	"_ = [](int){%s}", "_ = *(&[]int{%s}[0])", "_ = func() (int, string) { return %s, \"a\" }", "_ = func() (string, int) { return \"a\", %s }", "gi++; _ = %s", "gi <<= %s",
	"if v := %s; v > 0 {\n\t}", "for i := %s; i < 3; i++ {\n\t}", "switch v := interface{}(%s).(type) {\n\tcase int:\n\t\t_ = v\n\t}", "select {\n\tcase gch <- %s:\n\tdefault:\n\t}",
	"var _ = [...]func(int){func(int) {}}[0]; takeFn(func(int) {}, %s)", "_ = gfv(%s)", "_ = idG(%s)", "_ = idG[int](%s)", "Str{}.Take(%s)", "(*PS).Take(&PS{}, %s)", "_ = PS.Get(PS{}) + %s",
	// a return operand of a function literal BEHIND an inner literal that has ended in it (the function around a statement is the innermost
	// one on the path to it, not the one entered last); sites() itself has no results
	"_ = func() (string, int) { _ = func() {}; return \"a\", %s }", "_ = func() int { func() {}(); return %s }",
	"_ = func() (a, b string, c int) { h := func() int { return 1 }; _ = h; defer func() {}(); return \"\", \"\", %s }",
	"takeFn(func(int) { _ = func() (int, int) { go func() {}(); return 1, %s } }, 1)",
}

type shape struct {
	name    string
	pattern string // %d = J
	hasY    bool   // binds $y next to $x (one of the two is absent at some sites, in both orders)
}

var shapes = []shape{
	{"expr", "p%d($x)", false},
	{"exprlist", "p%d($*x)", false},
	{"stmt", "if q%d() { $x }", false},
	{"stmtlist", "if q%d() { $*x }", false},
	{"results-nil", "func fa%d() $x { $*_ }", false},
	{"results", "func fb%d() $x { $*_ }", false},
	{"params", "func fc%d($*x) $_ { $*_ }", false},
	{"params-unnamed", "func fd%d($*x) { $*_ }", false},
	{"type", "var w%d $x", false},
	{"names", "var ww%d, $*x map[string]S", false},
	{"sinkctx", "r%d()", false},
	{"comment", "ca%d: (?P<x>\\w+)", false},
	{"comment-empty", "cb%d: (?P<x>zzz)?tail", false},
	{"comment-nogroup", "cc%d marker", false},
	{"comment-block", "cd%d: (?P<x>block\\s+comment)", false},
	{"comment-trailing", "(?P<y>ce%d): trailing (?P<x>\\w+)", false},
	{"sinkctx-str", "rs%d()", false},
	{"comment-angle", "ca%d: (?<x>\\w+)", false},
	{"comment-angle-empty", "cb%d: (?<x>zzz)?tail", false},
	{"comment-nested", "ca%d: (?P<x>al(?P<z>zz)?pha)", false},
	{"comment-unnamed+named", "(ca%d): (\\w+) (?P<x>\\w+)", false},
	{"comment-flags", "(?i)CA%d: (?:alpha|x) (?P<x>BETA)", false},
	{"comment-alternation", "ca%d: (?:(?P<x>zzz)|alpha)", false},
	{"comment-angle-alternation", "ca%d: (?:(?<x>zzz)|alpha)", false},
	{"fields-head", "type ts%d struct{$*x; $_ bool}", false},
	{"fields-tail", "type ts%d struct{a, b int; $*x}", false},
	{"fields-all", "type ts%d struct{$*x}", false},
	{"two:list+expr", "p%d($*x, $y)", true},
	{"two:expr+list", "p%d($y, $*x)", true},
	{"two:nil+stmts", "func fa%d() $x { $*y }", true},
	{"two:stmts+results", "func fb%d() $y { $*x }", true},
	{"two:params+results", "func fc%d($*x) $y { $*_ }", true},
	{"two:comment", "cb%d: (?P<x>zzz)?(?P<y>tail)", true},
}

// the comment shapes that differ from "comment" / "comment-empty" only in the regexp syntax get a subset of the instances
func liteShape(sh shape) bool {
	switch sh.name {
	case "comment-angle", "comment-angle-empty", "comment-nested", "comment-unnamed+named", "comment-flags", "comment-alternation", "comment-angle-alternation":
		return true
	}
	return false
}

var liteInst = map[string]bool{"Pure": true, "Type.Is:$t": true, "Type.Size:const": true, "Value.Int:const": true, "Text:const": true, "Text:var": true, "Text.Matches": true,
	"Line:const": true, "Line:var": true, "Node.Is:Expr": true, "Object.Is": true, "Object.IsGlobal": true, "Contains": true, "Contains:var": true, "Filter:type": true,
	"Node.Parent.Is": true, "SinkType.Is:int": true, "true": true}

func isComment(sh shape) bool { return strings.HasPrefix(sh.name, "comment") }

// noX: shapes whose pattern does not bind $x
func noX(sh shape) bool {
	return sh.name == "sinkctx" || sh.name == "sinkctx-str" || sh.name == "comment-nogroup"
}

const prelude = `
func okFilter(ctx *dsl.VarFilterContext) bool {
	s := ctx.Type.String()
	return len(s) > 3
}

func sizeFilter(ctx *dsl.VarFilterContext) bool {
	return ctx.SizeOf(ctx.Type) > 4
}

func underFilter(ctx *dsl.VarFilterContext) bool {
	return types.Identical(ctx.Type.Underlying(), ctx.GetType("error"))
}

func doText(ctx *dsl.DoContext) {
	ctx.SetReport("text: " + ctx.Var("x").Text())
	ctx.SetSuggest(ctx.Var("x").Text())
}

func doType(ctx *dsl.DoContext) {
	ctx.SetReport("type: " + ctx.Var("x").Type().String() + " / " + ctx.Var("x").Type().Underlying().String())
}

func doOther(ctx *dsl.DoContext) {
	ctx.SetSuggest(ctx.Var("nosuchvar").Text() + ctx.Var("nosuchvar").Type().String())
}
`

type inst struct {
	name, ctor string
	d          *filt.DExpr
	needY      bool // mentions m["y"]: only for the shapes that bind it
}

func insts() []inst { return instsOn("x") }

// instsOn: the instances with v as the (first) capture and the other of x / y as the second
func instsOn(x string) []inst {
	y := "y"
	if x == "y" {
		y = "x"
	}
	op := func(path string) *filt.DExpr {
		if path == "Value.Int" {
			return filt.Call(path, x)
		}
		return filt.Sel(path, x)
	}
	return []inst{
		{"Pure", "makePureFilter", filt.Sel("Pure", x), false},
		{"Const", "makeConstFilter", filt.Sel("Const", x), false},
		{"ConstSlice", "makeConstSliceFilter", filt.Sel("ConstSlice", x), false},
		{"Addressable", "makeAddressableFilter", filt.Sel("Addressable", x), false},
		{"Comparable", "makeComparableFilter", filt.Sel("Comparable", x), false},
		{"Type.Is:int", "makeTypeIsFilter", filt.Call("Type.Is", x, filt.Str("int")), false},
		{"Type.Is:[]$t", "makeTypeIsFilter", filt.Call("Type.Is", x, filt.Str("[]$t")), false},
		{"Type.Is:$t", "makeTypeIsFilter", filt.Call("Type.Is", x, filt.Str("$t")), false},
		{"Type.Underlying.Is:int", "makeTypeIsFilter/underlying", filt.Call("Type.Underlying.Is", x, filt.Str("int")), false},
		{"Type.ConvertibleTo", "makeTypeConvertibleToFilter", filt.Call("Type.ConvertibleTo", x, filt.Str("string")), false},
		{"Type.AssignableTo", "makeTypeAssignableToFilter", filt.Call("Type.AssignableTo", x, filt.Str("int")), false},
		{"Type.Implements", "makeTypeImplementsFilter", filt.Call("Type.Implements", x, filt.Str("error")), false},
		{"Type.HasMethod", "makeTypeHasMethodFilter", filt.Call("Type.HasMethod", x, filt.Str("fmt.Stringer.String")), false},
		{"Type.HasPointers", "makeTypeHasPointersFilter", filt.Call("Type.HasPointers", x), false},
		{"Type.OfKind:integer", "makeTypeOfKindFilter", filt.Call("Type.OfKind", x, filt.Str("integer")), false},
		{"Type.OfKind:signed", "makeTypeIsSignedFilter", filt.Call("Type.OfKind", x, filt.Str("signed")), false},
		{"Type.OfKind:int", "makeTypeIsIntUintFilter", filt.Call("Type.OfKind", x, filt.Str("int")), false},
		{"Type.Underlying.OfKind:numeric", "makeTypeOfKindFilter", filt.Call("Type.Underlying.OfKind", x, filt.Str("numeric")), false},
		{"Type.Size:const", "makeTypeSizeConstFilter", filt.Bin("EQL", op("Type.Size"), filt.Int(8)), false},
		{"Type.Size:var", "makeTypeSizeFilter", filt.Bin("LEQ", op("Type.Size"), op("Type.Size")), false},
		{"Type.IdenticalTo", "makeTypesIdenticalFilter", filt.Call("Type.IdenticalTo", x, filt.Index(x)), false},
		{"Value.Int:const", "makeValueIntConstFilter", filt.Bin("GTR", op("Value.Int"), filt.Int(1)), false},
		{"Value.Int:var", "makeValueIntFilter", filt.Bin("EQL", op("Value.Int"), op("Value.Int")), false},
		{"Text:const", "makeTextConstFilter", filt.Bin("NEQ", op("Text"), filt.Str("a")), false},
		{"Text:var", "makeTextFilter", filt.Bin("EQL", op("Text"), op("Text")), false},
		{"Text.Matches", "makeTextMatchesFilter", filt.Call("Text.Matches", x, filt.Str("a")), false},
		{"Line:const", "makeLineConstFilter", filt.Bin("GTR", op("Line"), filt.Int(3)), false},
		{"Line:var", "makeLineFilter", filt.Bin("EQL", op("Line"), op("Line")), false},
		{"Node.Is:Expr", "makeNodeIsFilter", filt.Call("Node.Is", x, filt.Str("Expr")), false},
		{"Node.Is:Ident", "makeNodeIsFilter", filt.Call("Node.Is", x, filt.Str("Ident")), false},
		{"Object.Is", "makeObjectIsFilter", filt.Call("Object.Is", x, filt.Str("Var")), false},
		{"Object.IsGlobal", "makeObjectIsGlobalFilter", filt.Call("Object.IsGlobal", x), false},
		{"Object.IsVariadicParam", "makeObjectIsVariadicParamFilter", filt.Call("Object.IsVariadicParam", x), false},
		{"Contains", "makeVarContainsFilter", filt.Call("Contains", x, filt.Str("gi")), false},
		{"Contains:var", "makeVarContainsFilter", filt.Call("Contains", x, filt.Str("$x")), false},
		{"Filter:type", "makeCustomVarFilter", filt.Call("Filter", x, filt.Ident("okFilter")), false},
		{"Filter:size", "makeCustomVarFilter", filt.Call("Filter", x, filt.Ident("sizeFilter")), false},
		{"Filter:under", "makeCustomVarFilter", filt.Call("Filter", x, filt.Ident("underFilter")), false},
		{"File.Imports", "makeFileImportsFilter", filt.Call("File.Imports", "", filt.Str("fmt")), false},
		{"File.Name.Matches", "makeFileNameMatchesFilter", filt.Call("File.Name.Matches", "", filt.Str("go$")), false},
		{"File.PkgPath.Matches", "makeFilePkgPathMatchesFilter", filt.Call("File.PkgPath.Matches", "", filt.Str("t")), false},
		{"GoVersion", "makeGoVersionFilter", filt.Call("GoVersion.GreaterEqThan", "", filt.Str("1.18")), false},
		{"Deadcode", "makeDeadcodeFilter", filt.Not(filt.Call("Deadcode", "")), false},
		{"Node.Parent.Is", "makeRootParentNodeIsFilter", filt.Or(filt.Call("Node.Parent.Is", "$$", filt.Str("ExprStmt")), filt.Not(filt.Call("Node.Parent.Is", "$$", filt.Str("Expr")))), false},
		{"SinkType.Is:int", "makeRootSinkTypeIsFilter", filt.Not(filt.Call("SinkType.Is", "$$", filt.Str("int"))), false},
		{"SinkType.Is:$t", "makeRootSinkTypeIsFilter", filt.Or(filt.Call("SinkType.Is", "$$", filt.Str("$t")), filt.Sel("Pure", x)), false},
		{"true", "", nil, false},
		// closures with two operands: one capture absent, the other present, in both orders
		{"Line:xy", "", filt.Bin("EQL", filt.Sel("Line", x), filt.Sel("Line", y)), true},
		{"Line:yx", "", filt.Bin("LSS", filt.Sel("Line", y), filt.Sel("Line", x)), true},
		{"Text:xy", "", filt.Bin("NEQ", filt.Sel("Text", x), filt.Sel("Text", y)), true},
		{"Text:yx", "", filt.Bin("LSS", filt.Sel("Text", y), filt.Sel("Text", x)), true},
		{"Value.Int:xy", "", filt.Bin("EQL", filt.Call("Value.Int", x), filt.Call("Value.Int", y)), true},
		{"Value.Int:yx", "", filt.Bin("GEQ", filt.Call("Value.Int", y), filt.Call("Value.Int", x)), true},
		{"Type.Size:xy", "", filt.Bin("LEQ", filt.Sel("Type.Size", x), filt.Sel("Type.Size", y)), true},
		{"Type.Size:yx", "", filt.Bin("NEQ", filt.Sel("Type.Size", y), filt.Sel("Type.Size", x)), true},
		{"Type.IdenticalTo:xy", "", filt.Call("Type.IdenticalTo", x, filt.Index(y)), true},
		{"Type.IdenticalTo:yx", "", filt.Call("Type.IdenticalTo", y, filt.Index(x)), true},
		{"Contains:x has $y", "", filt.Call("Contains", x, filt.Str("$y")), true},
		{"Contains:y has $x", "", filt.Call("Contains", y, filt.Str("$x")), true},
		{"Contains:x has f($y)", "", filt.Or(filt.Call("Contains", x, filt.Str("f1($*y)")), filt.Call("Contains", y, filt.Str("$x + $x"))), true},
		{"both", "", filt.And(filt.Not(filt.Sel("Pure", x)), filt.Or(filt.Sel("Const", y), filt.Call("Text.Matches", y, filt.Str("a")))), true},
		{"true:xy", "", nil, true},
	}
}

type bad struct {
	What   string `json:"what"`
	Group  string `json:"group"`
	Pos    int    `json:"pos"`
	End    int    `json:"end"`
	Detail string `json:"detail,omitempty"`
}

type result struct {
	K        string `json:"k"`
	Inst     string `json:"inst"`
	Ctor     string `json:"ctor"`
	Shape    string `json:"shape"`
	Pattern  string `json:"pattern"`
	Where    string `json:"where"`
	Extra    string `json:"extra,omitempty"`
	Do       string `json:"do,omitempty"`
	Site     string `json:"site,omitempty"` // deep sweep: the one probe call the rule matches
	Trunc    int    `json:"trunc"`
	GoVer    string `json:"gover"`
	Reused   bool   `json:"reused"`
	Debug    string `json:"debug,omitempty"` // RunContext.Debug names this group
	Alias    string `json:"alias,omitempty"` // product / deep sweeps: the GODEBUG=gotypesalias mode of the child process
	File     string `json:"file"`            // disk: the analysed bytes are on disk; mem: nothing at the file's path; stale: a shorter, older version
	LoadErr  string `json:"load_err,omitempty"`
	Panic    string `json:"panic,omitempty"`
	Bad      []bad  `json:"bad,omitempty"`
	Reports  int    `json:"reports"`
	FirstBad string `json:"first_bad_site,omitempty"`
}

type ctxT struct {
	trunc  int
	gover  string
	reused bool
	// file: which copy of the target is analysed -- the one whose bytes the engine can read back from disk (""), one that
	// exists in memory only ("mem": captures are printed, not sliced), or one whose saved version is an older, shorter one
	// ("stale": captures inside the saved prefix are sliced, the others printed, one straddles the end)
	file string
	// debug: RunContext.Debug names the first rule of the engine
	debug bool
}

func dbgGroup(c ctxT) string {
	if c.debug {
		return "g0"
	}
	return ""
}

var miniImporter types.Importer

// checkMini type-checks a small target with an importer shared between calls (the imported packages are checked once).
// saved: how many of the bytes the file system holds at the target's path (< 0: all; 0: there is no such file).
func checkMini(dir string, src []byte, saved int) (*hutil.Target, error) {
	path := filepath.Join(dir, "mini", "target.go")
	if err := os.MkdirAll(filepath.Dir(path), 0o755); err != nil {
		return nil, err
	}
	switch {
	case saved == 0:
		if err := os.Remove(path); err != nil && !os.IsNotExist(err) {
			return nil, err
		}
	case saved > 0 && saved < len(src):
		if err := os.WriteFile(path, src[:saved], 0o644); err != nil {
			return nil, err
		}
	default:
		if err := os.WriteFile(path, src, 0o644); err != nil {
			return nil, err
		}
	}
	fset := token.NewFileSet()
	f, err := parser.ParseFile(fset, path, src, parser.ParseComments)
	if err != nil {
		return nil, err
	}
	if miniImporter == nil {
		miniImporter = importer.ForCompiler(token.NewFileSet(), "source", nil)
	}
	info := hutil.NewInfo()
	conf := types.Config{Importer: miniImporter, Error: func(error) {}}
	pkg, err := conf.Check(f.Name.Name, fset, []*ast.File{f}, info)
	if err != nil {
		return nil, err
	}
	return &hutil.Target{Fset: fset, File: f, Info: info, Pkg: pkg, Src: src, Path: path}, nil
}

// locate names the probe site at which a rule makes Run panic: the rule (bound to column 0) is run over one mini target
// per site (the declarations alone first: the probe function declarations are sites of the func-declaration shapes).
func locate(tmp string, fr filt.Rule, c ctxT) string {
	hdr := header()
	try := func(body string) bool {
		saved := -1
		switch c.file {
		case "mem":
			saved = 0
		case "stale":
			saved = len(hdr) + len(sitesOpen) + len(body)/2
		}
		t, err := checkMini(tmp, []byte(hdr+sitesOpen+body+"}\n"), saved)
		if err != nil {
			return false
		}
		eng, err := filt.Load(t.Fset, filt.RulesFile(prelude, []filt.Rule{fr}))
		if err != nil {
			return false
		}
		_, _, pmsg := runDebug(eng, t, c.trunc, c.gover, nil, nil, dbgGroup(c))
		return pmsg != ""
	}
	if try("") {
		return "(the declarations of the probe functions)"
	}
	for _, sn := range siteSnippets(0) {
		if try(sn) {
			return strings.TrimSpace(sn)
		}
	}
	return ""
}

// lockedStdout: one result line per Write, shared with the goroutines that forward the children's lines
type lockedStdout struct{}

func (lockedStdout) Write(p []byte) (int, error) {
	outMu.Lock()
	defer outMu.Unlock()
	return os.Stdout.Write(p)
}

type ruleT struct {
	in    inst
	sh    shape
	extra string
	do    string
}

// run runs the engine and checks every report as it is delivered.
func run(e *ruleguard.Engine, t *hutil.Target, trunc int, gover string, state *ruleguard.RunnerState) (n int, bads []bad, panicMsg string) {
	return runCounted(e, t, trunc, gover, state, nil)
}

// runCounted is run that also counts the reports per rule group.
func runCounted(e *ruleguard.Engine, t *hutil.Target, trunc int, gover string, state *ruleguard.RunnerState, perGroup map[string]int) (n int, bads []bad, panicMsg string) {
	return runDebug(e, t, trunc, gover, state, perGroup, "")
}

// runDebug: debugGroup != "" turns on RunContext.Debug for that group (every rejection of its rules is printed: the position
// of the match, the text and the type of every capture).
func runDebug(e *ruleguard.Engine, t *hutil.Target, trunc int, gover string, state *ruleguard.RunnerState, perGroup map[string]int, debugGroup string) (n int, bads []bad, panicMsg string) {
	defer func() {
		if r := recover(); r != nil {
			panicMsg = fmt.Sprint(r)
		}
	}()
	ctx := &ruleguard.RunContext{Pkg: t.Pkg, Types: t.Info, Sizes: types.SizesFor("gc", "amd64"), Fset: t.Fset, TruncateLen: trunc, State: state}
	if debugGroup != "" {
		ctx.Debug = debugGroup
		ctx.DebugPrint = func(string) {}
	}
	ctx.Report = func(data *ruleguard.ReportData) {
		n++
		b := bad{}
		if data.RuleInfo.Group != nil {
			b.Group = data.RuleInfo.Group.Name
			if perGroup != nil {
				perGroup[b.Group]++
			}
		} else {
			b.What = "nil rule group"
		}
		func() {
			defer func() {
				if r := recover(); r != nil {
					b.What = "report node whose Pos()/End() panics"
					b.Detail = fmt.Sprint(r)
				}
			}()
			if data.Node == nil {
				b.What = "nil report node"
				return
			}
			if !data.Node.Pos().IsValid() || !data.Node.End().IsValid() {
				b.What = "report node without a valid position"
				return
			}
			b.Pos = t.Fset.Position(data.Node.Pos()).Offset
			b.End = t.Fset.Position(data.Node.End()).Offset
			if t.Fset.File(data.Node.Pos()) != t.Fset.File(t.File.Pos()) || b.Pos < 0 || b.Pos > b.End || b.End > len(t.Src) {
				b.What = "report positions outside the file"
			}
			if data.Suggestion != nil && b.What == "" {
				s := data.Suggestion
				if !s.From.IsValid() || !s.To.IsValid() {
					b.What = "suggestion without a valid range"
					return
				}
				from, to := t.Fset.Position(s.From).Offset, t.Fset.Position(s.To).Offset
				if from < 0 || from > to || to > len(t.Src) || t.Fset.File(s.From) != t.Fset.File(t.File.Pos()) {
					b.What = "suggestion range outside the file"
					b.Detail = fmt.Sprintf("[%d,%d)", from, to)
				}
			}
		}()
		if b.What != "" && len(bads) < 5 {
			bads = append(bads, b)
		}
	}
	if gover != "" {
		v, _ := ruleguard.ParseGoVersion(gover)
		ctx.GoVersion = v
	}
	if err := e.Run(ctx, t.File); err != nil {
		panicMsg = "run error: " + err.Error()
	}
	return
}

func main() {
	tmp := flag.String("tmp", "", "scratch directory")
	full := flag.Bool("full", false, "all context combinations for every batch")
	deep := flag.Bool("deep", false, "child mode: run the deep sweep in this process")
	deepFrom := flag.Int("deepfrom", 0, "child mode: first unit")
	deepPer := flag.Int("deepper", -1, "child mode: run the sites of this instance one by one")
	product := flag.Bool("product", false, "child mode: run the product sweep in this process (alias mode from GODEBUG)")
	prodSkip := flag.String("prodskip", "", "child mode: batches to leave out")
	prodBatch := flag.Int("prodbatch", -1, "child mode: run this batch rule by rule")
	prodLo := flag.Int("prodlo", 0, "child mode: first rule of -prodbatch")
	prodHi := flag.Int("prodhi", 0, "child mode: end of the rules of -prodbatch that run as one engine")
	enums := flag.String("enums", "", "JSON file: the argument names the loader accepts per enumerated-argument predicate, as regenerated from its source")
	flag.BoolVar(&prodSelfCheck, "prodselfcheck", false, "child mode, development aid: compare the packed accepting engines with single-rule engines")
	flag.Parse()
	if *deep {
		runDeep(*tmp, *deepPer, *deepFrom)
		return
	}
	if *product {
		skip := map[int]bool{}
		for _, f := range strings.Split(*prodSkip, ",") {
			if b, err := strconv.Atoi(f); err == nil {
				skip[b] = true
			}
		}
		runProduct(*tmp, *full, skip, *prodBatch, *prodLo, *prodHi)
		return
	}
	enc := json.NewEncoder(lockedStdout{})
	// the child-process sweeps (deep: recursive / cyclic / very large types; product: pattern roots of every kind x every filter
	// operation over the catalogue target), each under both alias modes, run beside the column sweep of this process
	var pwg sync.WaitGroup
	for _, alias := range []string{"0", "1"} {
		pwg.Add(2)
		go func(alias string) {
			defer pwg.Done()
			spawnDeep(enc, *tmp, alias, 90*time.Second)
		}(alias)
		go func(alias string) {
			defer pwg.Done()
			spawnProduct(enc, *tmp, alias, *full, 240*time.Second)
		}(alias)
	}
	t, err := hutil.CheckTarget(*tmp, "target/target.go", []byte(target()))
	if err != nil {
		fmt.Fprintln(os.Stderr, err)
		os.Exit(3)
	}
	var rules []ruleT
	for _, in := range insts() {
		for _, sh := range shapes {
			if noX(sh) && in.d != nil && strings.Contains(in.d.Go(), "m[\"x\"]") {
				continue // no $x in that pattern: only the whole-match and file-level predicates apply
			}
			if in.needY != sh.hasY {
				continue
			}
			if liteShape(sh) && !liteInst[in.name] {
				continue
			}
			rules = append(rules, ruleT{in: in, sh: sh})
		}
	}
	// location variants: report At() a capture of every shape
	for _, sh := range shapes {
		if noX(sh) {
			continue
		}
		rules = append(rules, ruleT{in: inst{name: "At", ctor: ""}, sh: sh, extra: ".At(m[\"x\"])"})
		if sh.hasY {
			rules = append(rules, ruleT{in: inst{name: "At:y", ctor: ""}, sh: sh, extra: ".At(m[\"y\"])"})
		}
	}
	// Do() instead of Report(): the message and the suggestion are computed by a bytecode function that asks for the
	// text and the type of the capture (and of a variable the pattern does not bind)
	for _, sh := range shapes {
		if isComment(sh) || sh.name == "two:comment" {
			continue // "can't use Do() with MatchComment() yet": a load error
		}
		for _, fn := range []string{"doText", "doType", "doOther"} {
			rules = append(rules, ruleT{in: inst{name: "Do:" + fn, ctor: ""}, sh: sh, do: fn})
			if !noX(sh) {
				rules = append(rules, ruleT{in: inst{name: "Do:" + fn + "+At", ctor: ""}, sh: sh, do: fn, extra: ".At(m[\"x\"])"})
			}
		}
	}
	ctxs := []ctxT{{0, "", false, "", false}, {-3, "1.18", true, "", false}, {4, "", true, "", true}, {0, "", false, "mem", false}, {6, "1.18", true, "stale", true}}
	if *full {
		ctxs = nil
		for _, tl := range []int{0, -3, 1, 4, 5, 7, 70} {
			for _, gv := range []string{"", "1.18"} {
				for _, ru := range []bool{false, true} {
					ctxs = append(ctxs, ctxT{tl, gv, ru, "", tl == 1 || tl == 7})
					if (tl == 0 || tl == 5) && (gv == "") == ru {
						ctxs = append(ctxs, ctxT{tl, gv, ru, "mem", false}, ctxT{tl, gv, ru, "stale", tl == 5})
					}
				}
			}
		}
	}
	// the same source under a path where nothing is saved, and under one where an older version is: cut in the middle of
	// the probe sites of column W/2 (a capture of every shape on either side of the cut)
	targets := map[string]*hutil.Target{"": t}
	{
		src := target()
		mt, err := filt.CheckDetachedTarget(filepath.Join(*tmp, "detached", "never_saved.go"), []byte(src), nil)
		if err != nil {
			fmt.Fprintln(os.Stderr, err)
			os.Exit(3)
		}
		cut := strings.Index(src, fmt.Sprintf("\tp%d(%s)\n", W/2, exprSites[len(exprSites)/2]))
		if cut < 0 {
			fmt.Fprintln(os.Stderr, "stale target: cut point not found")
			os.Exit(3)
		}
		st, err := filt.CheckDetachedTarget(filepath.Join(*tmp, "detached", "older_on_disk.go"), []byte(src), []byte(src[:cut+5]))
		if err != nil {
			fmt.Fprintln(os.Stderr, err)
			os.Exit(3)
		}
		targets["mem"], targets["stale"] = mt, st
	}
	mkRule := func(r ruleT, j int) filt.Rule {
		fr := filt.Rule{Name: fmt.Sprintf("g%d", j), Pattern: fmt.Sprintf(r.sh.pattern, j), Where: r.in.d, Extra: ".\n\t\tSuggest(`$x`)" + r.extra,
			Report: fmt.Sprintf("$x|$$|g%d", j)}
		if noX(r.sh) {
			fr.Extra = ".\n\t\tSuggest(`$$`)"
			fr.Report = fmt.Sprintf("$$|g%d", j)
		}
		if r.sh.hasY {
			fr.Extra = ".\n\t\tSuggest(`$y`)" + r.extra
			fr.Report = fmt.Sprintf("$x|$y|$$|g%d", j)
		}
		fr.Comment = isComment(r.sh) || r.sh.name == "two:comment"
		if r.do != "" {
			fr.Do = r.do
			fr.Extra = r.extra
		}
		return fr
	}
	var states = map[*ruleguard.Engine]*ruleguard.RunnerState{}
	runSet := func(batch []ruleT, c ctxT, solo bool) (n int, bads []bad, pmsg, lerr string) {
		frules := make([]filt.Rule, len(batch))
		for k, r := range batch {
			frules[k] = mkRule(r, k)
		}
		src := filt.RulesFile(prelude, frules)
		eng, err := filt.Load(t.Fset, src)
		if err != nil {
			return 0, nil, "", err.Error()
		}
		var st *ruleguard.RunnerState
		t := targets[c.file]
		if c.reused {
			st = ruleguard.NewRunnerState(eng)
			states[eng] = st
			// first use, then the run that is observed reuses it
			runDebug(eng, t, c.trunc, c.gover, st, nil, dbgGroup(c))
		}
		n, bads, pmsg = runDebug(eng, t, c.trunc, c.gover, st, nil, dbgGroup(c))
		return
	}
	located := 0
	emitAt := func(r ruleT, c ctxT, n int, bads []bad, pmsg, lerr, site string) {
		w := ""
		if r.in.d != nil {
			w = r.in.d.Go()
		}
		enc.Encode(result{K: "run", Inst: r.in.name, Ctor: r.in.ctor, Shape: r.sh.name, Pattern: r.sh.pattern, Where: w, Extra: r.extra, Do: r.do, Site: site,
			Trunc: c.trunc, GoVer: c.gover, Reused: c.reused, File: c.file, Debug: map[bool]string{true: "the first rule of the engine"}[c.debug], LoadErr: lerr, Panic: pmsg, Bad: bads, Reports: n})
	}
	emit := func(r ruleT, c ctxT, n int, bads []bad, pmsg, lerr string) { emitAt(r, c, n, bads, pmsg, lerr, "") }
	for _, c := range ctxs {
		for i := 0; i < len(rules); i += W {
			end := i + W
			if end > len(rules) {
				end = len(rules)
			}
			batch := rules[i:end]
			n, bads, pmsg, lerr := runSet(batch, c, false)
			if pmsg == "" && lerr == "" && len(bads) == 0 {
				for _, r := range batch {
					emit(r, c, n, nil, "", "")
				}
				continue
			}
			// isolate
			for _, r := range batch {
				n1, b1, p1, l1 := runSet([]ruleT{r}, c, true)
				where := ""
				if p1 != "" && located < 6 {
					located++
					where = locate(*tmp, mkRule(r, 0), c)
				}
				emitAt(r, c, n1, b1, p1, l1, where)
			}
		}
	}
	// render / truncate sweep on a fixed small rule set
	small := []ruleT{}
	for _, sh := range shapes {
		small = append(small, ruleT{in: inst{name: "true"}, sh: sh})
	}
	for tl := -3; tl <= 70; tl++ {
		for _, gv := range []string{"", "1.21"} {
			c := ctxT{tl, gv, tl%2 == 0, []string{"", "mem", "stale"}[(tl+3)%3], tl%5 == 0}
			n, bads, pmsg, lerr := runSet(small, c, false)
			enc.Encode(result{K: "render", Inst: "true", Shape: "all", Trunc: tl, GoVer: gv, Reused: c.reused, File: c.file, LoadErr: lerr, Panic: pmsg, Bad: bads, Reports: n})
		}
	}
	// the same sweep over captures whose text is made of multi-byte characters (unicode.go)
	uniSweep(*tmp, func(r result) { enc.Encode(r) })
	// a reusable state created at every point of an engine's history of Loads (history.go)
	historySweep(*tmp, func(r result) { enc.Encode(r) })
	// every accepted name of every enumerated-argument predicate; matches that are *gogrep.PartialNode (enums.go)
	enumSweep(*tmp, *enums, func(r result) { enc.Encode(r) }, func(m interface{}) { enc.Encode(m) })
	partialSweep(*tmp, func(r result) { enc.Encode(r) }, func(m interface{}) { enc.Encode(m) })
	pwg.Wait()
	enc.Encode(map[string]interface{}{"k": "meta", "rules": len(rules), "contexts": len(ctxs), "shapes": len(shapes)})
}
