package main

// The catalogue target of the product sweep (product.go): one small package that holds, as declarations and as
// statements of many small "site" functions, every kind of node a pattern root can match or capture and every kind of
// type a type predicate can meet:
//
//   - alias types nested inside composites, signatures and instantiations (only visible as *types.Alias nodes under
//     GODEBUG=gotypesalias=1), next to their alias-free spellings, `any` next to `interface{}`;
//   - type parameters nested inside arrays, structs, maps, pointers, signatures and instantiations (values of generic
//     functions and methods of generic types);
//   - function values of every shape: no parameters, variadic only, fixed + variadic, many results, no results,
//     methods (values, expressions), generic functions (instantiated and inferred), functions returning functions,
//     function literals called in place, named function types;
//   - statements of every kind in blocks that go on after them (a list matcher continues behind a match), empty
//     blocks / bodies / argument lists / clause bodies, case and comm clauses of every form;
//   - declarations of every kind (generic, with receivers, grouped, with tags, embedded fields, type sets).
//
// The file is cut into a header (declarations) and sites (one function each) so that a crash can be located by
// re-running the rule over header + one site.

const prodHeader = `package prod

import (
	"fmt"
	"strings"
	"unsafe"
)

var _ = unsafe.Sizeof(0)
var _ = strings.ToUpper

type Celsius = float64
type CC = Celsius
type PI = *int
type AS = S
type AFn = func(Celsius) Celsius
type AMap = map[Celsius][]Celsius
type AGL = GL[Celsius]
type AE = interface{}
type ASl = []Celsius

type S struct {
	a int
	b string
}
type MyInt int
type MyC Celsius
type Str struct{}

func (Str) String() string { return "" }

type GL[T any] struct {
	next *GL[T]
	v    T
}

func (g *GL[T]) Get() T            { return g.v }
func (g *GL[T]) Put(v T, more ...T) { g.v = v }
func (g GL[T]) Arr() [2]T          { var a [2]T; return a }

type Pair[K comparable, V any] struct {
	k K
	v V
}
type Num interface {
	~int | ~int64 | ~float64
}
type Heap []Celsius

func (h Heap) Len() int           { return len(h) }
func (h Heap) Less(i, j int) bool { return h[i] < h[j] }
func (h Heap) Swap(i, j int)      { h[i], h[j] = h[j], h[i] }
func (h *Heap) Push(x any)        { *h = append(*h, x.(Celsius)) }
func (h *Heap) Pop() any          { return nil }

type Heap2 []float64

func (h Heap2) Len() int              { return len(h) }
func (h Heap2) Less(i, j int) bool    { return h[i] < h[j] }
func (h Heap2) Swap(i, j int)         { h[i], h[j] = h[j], h[i] }
func (h *Heap2) Push(x interface{})   { *h = append(*h, x.(float64)) }
func (h *Heap2) Pop() interface{}     { return nil }

type Flag struct{}

func (Flag) String() string   { return "" }
func (Flag) Set(string) error { return nil }
func (Flag) Get() any         { return nil }

type Flag2 struct{}

func (*Flag2) String() string     { return "" }
func (*Flag2) Set(string) error   { return nil }
func (*Flag2) Get() interface{}   { return nil }

type Putter interface{ Put(v any) }
type PutterE interface {
	Put(v interface{})
}
type PutC interface {
	Put(v []Celsius) map[Celsius]CC
	fmt.Stringer
}
type PutImpl struct{}

func (PutImpl) Put(v any) {}

type FV func(int) string
type VF func(...Celsius)
type Emb struct {
	S
	*Str
	fmt.Stringer
	tagged int ` + "`json:\"t\"`" + `
	x, y   Celsius
}
type (
	T1 int
	T2 = []T1
)

const (
	c1       = 1
	c2 MyInt = iota + 2
	cs       = "s"
)

var (
	gi   int
	gs   string
	gp   *int
	gsl  []int
	gS   S
	gstr Str
	gch  chan int
	gb   bool
	gm   map[string]int
	gfv  FV
	gvf  VF
	gerr error
	gbs  []byte
	gH   Heap
	gH2  Heap2
	gF   Flag
	gF2  Flag2
	gput PutImpl
	gE   Emb

	ac   []Celsius
	af   []float64
	acc  []CC
	am   map[Celsius]Celsius
	amf  map[float64]float64
	ach  chan Celsius
	achf chan float64
	ap   *Celsius
	apf  *float64
	aarr [2]Celsius
	farr [2]float64
	ast  struct{ c Celsius }
	fst  struct{ c float64 }
	afn  func(Celsius) Celsius
	ffn  func(float64) float64
	avf  func(...Celsius)
	fvff func(...float64)
	agl  GL[Celsius]
	fgl  GL[float64]
	apr  Pair[Celsius, []CC]
	fpr  Pair[float64, []float64]
	aany any
	ae   interface{}
	aAE  AE
	fany func(any) any
	fe   func(interface{}) interface{}
	sany []any
	se   []interface{}
	many map[string]any
	me   map[string]interface{}
	pi   PI
	ppi  *int
	spi  []PI
	sppi []*int
	aS   AS
	aafn AFn
	amap AMap
	fmap map[float64][]float64
	aagl AGL
	asl  ASl
	mc   MyC
	pc   Putter
	pe   PutterE
	pcc  PutC
)

func f0()                                 {}
func f1(a int) int                        { return a }
func f2(a int, b string) (int, error)     { return a, nil }
func f3() (a, b, c int)                   { return }
func fv(args ...interface{})              {}
func fva(args ...any)                     {}
func fv2(a int, rest ...Celsius) Celsius  { return 0 }
func fvs(s string, rest ...string) (int, error) { return 0, nil }
func fvf(fs ...func())                    {}
func fg[T any](v T) T                     { return v }
func fgv[T any](vs ...T) []T              { return vs }
func fg2[K comparable, V any](m map[K]V) []K { return nil }
func fnum[N Num](a, b N) N                { return a + b }
func ff() func()                          { return f0 }
func fff(f func(func()) func()) func(...int) { return nil }
func fc(c Celsius, cs ...[]Celsius) (r map[Celsius]CC) { return }
func use(args ...interface{})             {}
func cond() bool                          { return gb }
func (S) M0()                             {}
func (s *S) MV(xs ...int) int             { return len(xs) }
func (s S) M2(a, b int) (int, int)        { return a, b }
func (S) unnamed(int, string)             {}
func _()                                  {}
`

// prodSites: each entry is one top-level function declaration.
var prodSites = []string{
	// calls of function values of every shape; go / defer
	`func sCalls() {
	f0()
	fv()
	fv(1)
	fv(ac, af)
	fva()
	fva(nil, 1)
	fv(se...)
	fva(sany...)
	gvf(ac...)
	_ = fgv(af...)
	_ = fv2(1)
	_ = fv2(1, 2, 3)
	_, _ = fvs("")
	fvf()
	fvf(f0, ff())
	_ = fg(1)
	_ = fg[Celsius](1)
	_ = fgv[int]()
	_ = fgv(1, 2)
	_ = fg2(gm)
	_ = fnum(1, 2)
	_ = fnum[Celsius](1, 2)
	ff()()
	_ = fff(nil)
	fff(nil)()
	fff(nil)(1, 2)
	_ = fc(1)
	_ = fc(1, ac, af)
	gS.M0()
	S.M0(gS)
	_ = gS.MV()
	_ = (*S).MV(&gS, 1)
	_, _ = gS.M2(1, 2)
	gS.unnamed(1, "")
	fmt.Println()
	fmt.Println("a", 1)
	_ = fmt.Sprintf("%d", 1)
	_ = gfv(1)
	gvf()
	gvf(1, 2)
	func(xs ...int) {}()
	func() {}()
	func(a int, xs ...string) (int, error) { return a, nil }(1)
	_ = gH.Len()
	gH.Push(1.0)
	_ = gH2.Pop()
	_ = agl.Get()
	agl.Put(1)
	agl.Put(1, 2, 3)
	_ = fgl.Arr()
	_ = len(gsl)
	_ = append(gsl, 1)
	_ = append(gsl)
	_ = append(gbs, gs...)
	_ = make([]Celsius, 1)
	_ = new(Celsius)
	println()
	print(1, 2)
	panic(nil)
}`,
	`func sGoDefer() {
	go f0()
	go fv()
	go fva(1)
	go fv2(1)
	go fvf()
	go gS.MV()
	go gvf()
	go fmt.Println()
	go func(xs ...int) {}()
	go ff()()
	go fg(1)
	go fgv[int]()
	defer f0()
	defer fv()
	defer fva(1, 2)
	defer fv2(1, 2)
	defer gS.MV(1)
	defer gvf()
	defer fmt.Println()
	defer func() {}()
	defer fff(nil)()
	defer agl.Put(1)
}`,
	// function values (not called)
	`func sFuncValues() {
	use(f0, f1, f2, f3, fv, fva, fv2, fvs, fvf, ff, fff, fc)
	use(fg[int], fgv[Celsius], fg2[string, int], fnum[float64])
	use(gS.M0, gS.MV, gS.M2, S.M0, (*S).MV, S.M2, gS.unnamed)
	use(gfv, gvf, afn, ffn, avf, fvff, fany, fe, aafn)
	use(fmt.Println, fmt.Sprintf, strings.ToUpper, fmt.Sprint)
	use(agl.Get, agl.Put, fgl.Arr, gH.Push, gH2.Pop, gF.Get, gF2.Get, gput.Put)
	use(func() {}, func(...int) {}, func(a int, b ...Celsius) (x, y int) { return }, func() (int, error) { return 0, nil })
	use(pc.Put, pe.Put, pcc.Put, pcc.String, gerr.Error)
	var lf func()
	var lv func(...int)
	var l2 func(int, ...string) (int, error)
	use(lf, lv, l2)
	lf = f0
	lv = func(...int) {}
	gvf = avf
	afn = aafn
	_ = gvf
}`,
	// aliases nested in composites: assignments, comparisons, appends, conversions
	`func sAliases() {
	ac = af
	af = ac
	acc = ac
	ac = append(ac, af...)
	af = append(af, ac...)
	acc = append(acc, af...)
	am = amf
	amf = am
	ach = achf
	ap = apf
	apf = ap
	aarr = farr
	ast = fst
	afn = ffn
	ffn = afn
	avf = fvff
	agl = fgl
	apr = fpr
	aany = ae
	ae = aany
	aAE = aany
	fany = fe
	fe = fany
	sany = se
	se = sany
	many = me
	pi = ppi
	spi = sppi
	sppi = spi
	aS = gS
	aafn = ffn
	amap = fmap
	fmap = amap
	aagl = fgl
	asl = af
	_ = ap == apf
	_ = aarr == farr
	_ = ast == fst
	_ = aany == ae
	_ = pi == ppi
	_ = ach == achf
	_ = copy(ac, af)
	_ = []float64(ac)
	_ = ASl(af)
	_ = map[float64]float64(am)
	_ = (func(float64) float64)(afn)
	_ = MyC(ac[0])
	use(ac, af, acc, am, amf, ach, ap, aarr, ast, afn, avf, agl, apr, aany, ae, aAE, fany, fe, sany, se, many, me, pi, spi, aS, aafn, amap, aagl, asl, mc)
	use(gH, gH2, &gH, &gH2, gF, gF2, &gF2, gput, pc, pe, pcc, gE)
	pc = gput
	pe = gput
	pc = pe
	pe = pc
	var lc Celsius
	var lcs []CC
	var lm map[string]AFn
	var lch <-chan ASl
	var lst struct {
		a []Celsius
		f AFn
		p PI
	}
	use(lc, lcs, lm, lch, lst)
}`,
	// type parameters nested in composites
	`func sGeneric[T any, U ~int64, K comparable](t T, u U, k K, a [4]T, s struct{ x T }, sl []T, m map[K]T, p *T, f func(T) T, g GL[T], pr Pair[K, T], aa [2][2]T, sa struct {
	a [2]T
	b string
}, vs ...T) {
	use(t, u, k, a, s, sl, m, p, f, g, pr, aa, sa, vs)
	use(a[0], s.x, sl[0], m[k], *p, f(t), g.v, g.next, pr.k, pr.v, aa[0], aa[0][1], sa.a, sa.b, vs[0])
	var la [3]T
	var ls struct {
		x, y T
		z    int
	}
	var lu [2]U
	var lp [2]*T
	var lg [1]GL[T]
	var lpair Pair[K, [2]T]
	use(la, ls, lu, lp, lg, lpair)
	type LA = T
	var lal [2]LA
	use(lal, lal[0])
	a2 := a
	s2 := s
	_, _ = a2, s2
	a[0] = t
	s.x = t
	g.v = t
	pr.v = t
	sa.a[1] = t
	_ = len(a)
	_ = unsafe.Sizeof(p)
	_ = g.Get()
	g.Put(t)
	g.Put(t, vs...)
	_ = g.Arr()
	_ = fg(a)
	_ = fg(s)
	_ = fgv(a, a2)
	_ = fgv[T]()
	_ = func(x [2]T) struct{ y T } { return struct{ y T }{x[0]} }(g.Arr())
	_ = [4]T{}
	_ = struct{ x T }{t}
	_ = Pair[K, T]{k, t}
	_ = []struct{ x [1]T }{}
	_ = u + 1
	_ = k == k
	go g.Put(t)
	defer f(t)
}`,
	`func (g *GL[T]) sMethod(other [2]T, q struct{ w T }) (r [1]T) {
	use(g, g.v, other, q, r, *g, g.next)
	var zero T
	var arr [2]GL[T]
	use(zero, arr)
	r[0] = g.v
	return r
}`,
	// statements of every kind; blocks go on after the interesting statement
	`func sStmts(n int, xs ...string) (res int, err error) {
	var a []int
	a = append(a, 1)
	a = append(a, 2)
	use(a)
	use(len(a))
	gi = 1
	gi = f1(2)
	gi, gs = 1, "a"
	gi += 2
	gi++
	gi--
	gch <- 1
	<-gch
	x, ok := gm["a"]
	_, _ = x, ok
	v := <-gch
	_ = v
	var _ int
	var l1, l2 = 1, "b"
	var l3 Celsius = 1
	const lc = 3
	type lt struct{ f int }
	type la = lt
	_, _, _, _ = l1, l2, l3, la{}
	{
	}
	{
		f0()
	}
	;
	if cond() {
	}
	if cond() {
		f0()
	} else {
	}
	if y := f1(1); y > 0 {
		use(y)
	} else if y < 0 {
		use()
	} else {
		f0()
		f0()
	}
	for {
		break
	}
	for cond() {
		continue
	}
	for i := 0; i < 3; i++ {
		use(i)
	}
	for i := range gsl {
		use(i)
	}
	for i, e := range gsl {
		use(i, e)
	}
	for range gsl {
	}
	for range 3 {
	}
	for k, e := range gm {
		use(k, e)
	}
	for _, c := range gs {
		use(c)
	}
	for e := range gch {
		use(e)
	}
	for i, s := range xs {
		use(i, s)
	}
	switch {
	}
	switch gi {
	case 1:
	case 2, 3:
		f0()
		fallthrough
	case f1(4):
		f0()
		f0()
	default:
	}
	switch z := gi; {
	case z > 0:
		use(z)
	default:
		use()
	}
	switch aany.(type) {
	}
	switch t := aany.(type) {
	case int:
		use(t)
	case Celsius, []Celsius:
		use(t)
	case nil:
	case func(...Celsius):
		t()
	default:
		use(t)
	}
	select {
	}
	select {
	case <-gch:
	case w := <-gch:
		use(w)
	case w, ok := <-gch:
		use(w, ok)
	case gch <- 1:
		f0()
		f0()
	default:
	}
	select {
	default:
		f0()
	}
L:
	for {
		break L
	}
	goto M
M:
	f0()
	go f0()
	defer f0()
	func() {}()
	func() {
		return
	}()
	if cond() {
		return
	}
	if cond() {
		return 1, nil
	}
	if cond() {
		return f2(1, "")
	}
	use(n)
	use(n, xs)
	return
}`,
	`func sEmpty() {
}`,
	`func sOne() { f0() }`,
	`func sNested() {
	f0()
	{
		{
			{
			}
		}
		f0()
	}
	func() {
		func() {
			use(func() {})
		}()
	}()
	use(1)
	use(1, 2)
	use(1, 2, 3)
	use(1, 1)
	use(gi, gi, gs)
	if z := f1(1); z > 0 {
		use(z)
	}
	f0()
	f0()
}`,
	// a block in which assignments are overwritten and calls have fewer arguments than the block has statements
	`func sLists() {
	var a []int
	a = make([]int, 1)
	a = make([]int, 2)
	use(a)
	use(len(a))
	gi = f1(1)
	gi = f1(2)
	gs = "x"
	gs = strings.ToUpper(gs)
	use(gs)
	use()
	use(gi, gs, a)
	use(f1(f1(f1(1))))
	use([]int{1, 2, 3}, []int{}, [][]int{{1}, {}})
	use(func(a, b int) (int, int) { return b, a })
	use(S{1, "a"}, S{}, &S{a: f1(1)}, map[string][]int{"a": {1}, "b": {}})
	use(gsl[1:2], gsl[:], gsl[1:2:3], gsl[f1(0)])
	if cond() {
		use(1)
	}
	use(2)
	use(3)
}`,
	// expressions of every kind
	`func sExprs() {
	use(gi, 1, 1.5, 'c', "s", 1i, nil, c1, c2, cs, true, iota0)
	use(gi+1, 1 > 0, gi<<2, gs+"a", !gb, -gi, ^gi, +gi, <-gch, &gi, *gp, &S{}, (gi), ((gi)))
	use(gS.a, gE.S.a, gE.a, gE.x, gE.Stringer, strings.ToUpper, fmt.Stringer(nil), unsafe.Pointer(gp))
	use(gsl[0], gm["a"], gs[0], aarr[1], gsl[1:], gs[1:2], gsl[:1:2], (*[1]int)(gsl))
	use(S{1, "a"}, S{a: 1}, S{}, []S{{1, "b"}, {}}, [...]int{2: 1}, map[string]S{"k": {}}, map[Celsius][]CC{}, &[]int{1}, struct{}{}, struct{ a, b int }{1, 2})
	use(GL[int]{}, &GL[Celsius]{v: 1}, Pair[string, Celsius]{"a", 1}, Pair[Celsius, AFn]{}, AGL{}, AS{}, ASl{1}, AMap{1: {2}})
	use(int64(gi), float64(gi), string(rune(gi)), []byte(gs), MyInt(1), Celsius(1), CC(gi), (*int)(nil), PI(nil), interface{}(1), any(gs), AE(nil), FV(nil), AFn(nil), VF(nil))
	use(aany.(int), aany.(Celsius), aany.([]Celsius), aany.(fmt.Stringer), aany.(func(...any)), ae.(interface{ Put(any) }))
	use(func() {}, func(a int) int { return a }, func(a, b Celsius, c ...CC) (r ASl, err error) { return })
	use(len(gsl), cap(gsl), new(int), make([]int, 1, 2), make(map[string]int), make(chan Celsius, 1), min(1, 2), max(1.5, gi0), complex(1, 2), real(1i))
	use(unsafe.Sizeof(gS), unsafe.Offsetof(gS.b), unsafe.Alignof(gi), unsafe.Sizeof(ac), unsafe.Sizeof(aarr))
	use(gi == 1 && gb || !gb, gp == nil, gerr != nil, aany == nil, gstr == Str{}, gS == S{})
	_ = gi
	_, _ = gi, gs
	_ = [2]func(){f0, nil}
	_ = map[string]func(...int){}
	_ = []func(Celsius) CC{nil}
	_ = (<-chan Celsius)(nil)
	_ = (func())(nil)
	_ = (func(...Celsius))(nil)
	_ = [][2]map[string]*GL[[]Celsius]{}
}`,
	`var iota0, gi0 = 0, 1.5`,
	// declarations
	`type sDeclStruct struct {
	A, B int
	C    string ` + "`tag`" + `
	S
	*Str
	f  func(...Celsius) (int, error)
	g  GL[[]Celsius]
	ch <-chan struct{}
	_  [0]func()
}`,
	`type sDeclEmptyStruct struct{}`,
	`type sDeclIface interface {
	M0()
	M1(a int, rest ...Celsius) (Celsius, error)
	M2(any) any
	fmt.Stringer
	Putter
}`,
	`type sDeclEmptyIface interface{}`,
	`type sDeclSet interface {
	~int | ~[]Celsius | string
	comparable
}`,
	`type sDeclGen[T any, U interface{ ~[]T }] struct {
	t  T
	u  U
	at [2]T
	f  func(T, ...U) [1]T
}`,
	`type sDeclFn func(a int, rest ...any) (r1 Celsius, r2 error)`,
	`type sDeclFn0 func()`,
	`type sDeclArr [4]Celsius`,
	`type sDeclMap map[Celsius]func() AFn`,
	`type sDeclAlias = map[string][]func(...Celsius)`,
	`type (
	sDeclG1 int
	sDeclG2 = sDeclG1
)`,
	`type ()`,
	`var ()`,
	`const sConst1, sConst2 = 1, "a"`,
	`var sVar1, sVar2 int`,
	`var sVar3 = f1(1)`,
	`var sVar4, sVar5 = f2(1, "")`,
	`var sVar6 func(...Celsius) = nil`,
	`func (s *sDeclStruct) sMeth(a, b int, rest ...string) (r int, err error) {
	return s.A + a, nil
}`,
	`func (sDeclStruct) sMeth0() {}`,
	`func (g sDeclGen[T, U]) sMethG(x T, us ...U) (r [2]T) {
	use(g, x, us, r, g.at, g.f)
	return g.at
}`,
	`func sGenDecl[T Num, S ~[]T, M ~map[string]S](s S, m M, zero T) (T, S) {
	var acc T
	for _, v := range s {
		acc += v
	}
	use(acc, s, m, zero, m["a"], s[0])
	var arr [2]T
	var st struct {
		s S
		a [1]T
	}
	use(arr, st)
	return acc, s
}`,
	`func init() {}`,
	`func init() {
	f0()
}`,
}

func prodTarget() string {
	s := prodHeader
	for _, site := range prodSites {
		s += "\n" + site + "\n"
	}
	return s
}
