package main

// Product sweep: (pattern root of every kind) x (every filter operation on every capture of that root) over the catalogue
// target (catalogue.go), under both alias modes.
//
// The column sweep of main.go binds every rule to one probe column; its patterns are single nodes around a probe call.
// Here the patterns are generic -- an expression, a statement, a statement list (`$x; $y`, `$*x; $*y`), an expression
// list, a declaration, a case clause, a field list, a type -- and every rule meets every place of the catalogue where its
// root matches.  Instances: every filter constructor on `$x` and on `$y`, every two-operand closure on (x, y), Contains()
// with sub-patterns that themselves match lists, type patterns of every arity under Type.Is / Underlying.Is / SinkType.Is,
// custom filters, At() either capture, Do() functions.
//
// The sweep runs in child processes (this binary with -product), one per alias mode (GODEBUG=gotypesalias=0 / 1 in the
// child's environment): batches of W rules run in parallel under recover; a batch that panics or delivers a malformed
// report is re-run rule by rule and the first few failing rules are located (header + one site of the catalogue).  The
// child announces every batch; when it dies (a fatal error recover cannot stop) the batches it had begun are re-run rule
// by rule in children of their own, so that the death names one rule.

import (
	"bufio"
	"context"
	"encoding/json"
	"fmt"
	"os"
	"os/exec"
	"sort"
	"strconv"
	"strings"
	"sync"
	"sync/atomic"
	"time"

	"verif/harness/internal/filt"
	"verif/harness/internal/hutil"

	"github.com/quasilyte/go-ruleguard/ruleguard"
)

type prodRoot struct {
	kind    string // expr stmt stmtlist exprlist decl clause field type leaf
	pattern string
	hasY    bool
	typed   bool // $x (and $y) are mostly expressions with types: crossed with the type-pattern family too
}

// noVars: the root binds no variable (a bare identifier, a literal, `break`): only the whole match and the file can be asked about
func (r prodRoot) noVars() bool { return !strings.Contains(r.pattern, "$") }

var prodRoots = []prodRoot{
	// ---- expressions
	{"expr", "$x($*y)", true, true},
	{"expr", "$x()", false, false},
	{"expr", "$x($y)", true, true},
	{"expr", "$x($_, $*y)", true, false},
	{"expr", "$x($*_, $y)", true, false},
	{"expr", "$x($y...)", true, false},
	{"expr", "append($x, $y...)", true, true},
	{"expr", "append($x, $*y)", true, false},
	{"expr", "make($x, $*y)", true, false},
	{"expr", "$x.$y", true, false},
	{"expr", "$x.$_($*y)", true, false},
	{"expr", "$x[$y]", true, false},
	{"expr", "$x[$y:$_]", true, false},
	{"expr", "$x[:]", false, false},
	{"expr", "*$x", false, false},
	{"expr", "&$x", false, false},
	{"expr", "($x)", false, false},
	{"expr", "$x.($y)", true, false},
	{"expr", "$x + $y", true, false},
	{"expr", "$x == $y", true, true},
	{"expr", "<-$x", false, false},
	{"expr", "$x{$*y}", true, false},
	{"expr", "[]$x{$*y}", true, false},
	{"expr", "$x{$y: $_}", true, false},
	{"expr", "$_{$*x, $y}", true, false},
	{"expr", "map[$x]$y{$*_}", true, false},
	{"expr", "func($*x) $y { $*_ }", true, false},
	{"expr", "func($*_) $x { $*y }", true, false},
	{"expr", "func($*x) { $*y }", true, false},
	{"expr", "func() { $*x }()", false, false},
	// ---- statements
	{"stmt", "$x = $y", true, true},
	{"stmt", "$x := $y", true, false},
	{"stmt", "$x, $y = $_, $_", true, false},
	{"stmt", "$*x = $*y", true, false},
	{"stmt", "$_ = $*x", false, false},
	{"stmt", "$x++", false, false},
	{"stmt", "$x += $y", true, false},
	{"stmt", "$x <- $y", true, false},
	{"stmt", "return $*x", false, false},
	{"stmt", "return $x, $y", true, false},
	{"stmt", "go $x()", false, true},
	{"stmt", "go $x($*y)", true, false},
	{"stmt", "defer $x($*y)", true, true},
	{"stmt", "{ $*x }", false, false},
	{"stmt", "if $x { $*y }", true, false},
	{"stmt", "if $*x { $*y }", true, false},
	{"stmt", "if $x; $y { $*_ }", true, false},
	{"stmt", "if $*_ { $*x } else { $*y }", true, false},
	{"stmt", "for $x; $y; $_ { $*_ }", true, false},
	{"stmt", "for $*x { $*y }", true, false},
	{"stmt", "for { $*x }", false, false},
	{"stmt", "for $x := range $y { $*_ }", true, false},
	{"stmt", "for $x, $y := range $_ { $*_ }", true, false},
	{"stmt", "for range $x { $*y }", true, false},
	{"stmt", "switch $x { $*y }", true, false},
	{"stmt", "switch { $*x }", false, false},
	{"stmt", "switch $*x { $*y }", true, false},
	{"stmt", "switch $x := $y.(type) { $*_ }", true, false},
	{"stmt", "switch $x.(type) { $*y }", true, false},
	{"stmt", "select { $*x }", false, false},
	{"stmt", "$x: $y", true, false},
	{"stmt", "var $x $y", true, false},
	{"stmt", "var $x = $y", true, true},
	{"stmt", "var $x $y = $_", true, false},
	{"stmt", "var $*x = $*y", true, false},
	{"stmt", "const $x = $y", true, false},
	{"stmt", "type $x $y", true, false},
	{"stmt", "type $x = $y", true, false},
	// ---- statement lists
	{"stmtlist", "$x; $y", true, false},
	{"stmtlist", "$*x; $y", true, false},
	{"stmtlist", "$x; $*y", true, false},
	{"stmtlist", "$*x; $*y", true, false},
	{"stmtlist", "$x; $_; $*y", true, false},
	{"stmtlist", "$*x; $_; $y", true, false},
	{"stmtlist", "$*_; $x; $*_; $y; $*_", true, false},
	{"stmtlist", "$x = $y; $x = $_", true, false},
	{"stmtlist", "$x = $_; $*_; $x = $y", true, false},
	{"stmtlist", "$x($*_); $x($*y)", true, false},
	{"stmtlist", "$x; $x", false, false},
	{"stmtlist", "$*x; return $*y", true, false},
	{"stmtlist", "var $x $_; $*y", true, false},
	{"stmtlist", "if $*_ { $*x }; $*y", true, false},
	// ---- expression lists
	{"exprlist", "$x, $y", true, true},
	{"exprlist", "$*x, $y", true, false},
	{"exprlist", "$x, $*y", true, false},
	{"exprlist", "$*x, $*y", true, false},
	{"exprlist", "$x, $_, $*y", true, false},
	{"exprlist", "$x, $x", false, false},
	{"exprlist", "$x($*_), $*y", true, false},
	// ---- declarations
	{"decl", "func $x($*y) { $*_ }", true, false},
	{"decl", "func $x($*_) $y { $*_ }", true, false},
	{"decl", "func $_($*_) $*x { $*y }", true, false},
	{"decl", "func ($x $y) $_($*_) $*_ { $*_ }", true, false},
	{"decl", "func ($x) $_($*_) $*_ { $*y }", true, false},
	{"decl", "func $x() {}", false, false},
	{"decl", "func $_($x ...$y) $*_ { $*_ }", true, false},
	{"decl", "type $x struct { $*y }", true, false},
	{"decl", "type $x interface { $*y }", true, false},
	{"decl", "type $x func($*y) $*_", true, false},
	{"decl", "import $x", false, false},
	// (case and comm clauses cannot be pattern roots -- gogrep does not parse `case $x: $*y` --; they are captured, singly and as lists, by the
	//  switch / select roots above)
	// ---- fields and field lists
	{"field", "struct { $*x }", false, false},
	{"field", "struct { $x $y }", true, false},
	{"field", "struct { $x $y; $*_ }", true, false},
	{"field", "struct { $*x; $_ $y }", true, false},
	{"field", "struct { $x, $y $_; $*_ }", true, false},
	{"field", "struct { $x; $*y }", true, false},
	{"field", "interface { $*x }", false, false},
	{"field", "interface { $x($*y); $*_ }", true, false},
	{"field", "interface { $x($*_) $y; $*_ }", true, false},
	{"field", "func($x $y)", true, false},
	{"field", "func($*x) $y", true, false},
	{"field", "func($*x) ($*y)", true, false},
	{"field", "func($x, $y $_)", true, false},
	// ---- leaves: a bare identifier or literal as the whole pattern (the rule is filed under the identifier / literal bucket and
	// meets every identifier resp. literal node the walker visits: names of declarations, labels, package names, field names,
	// import paths, struct tags), and the statements that consist of a keyword and at most a label
	{"leaf", "gi", false, false},
	{"leaf", "nil", false, false},
	{"leaf", "iota", false, false},
	{"leaf", "fmt", false, false},
	{"leaf", "use", false, false},
	{"leaf", "L", false, false},
	{"leaf", "tagged", false, false},
	{"leaf", "int", false, false},
	{"leaf", "_", false, false},
	{"leaf", "1", false, false},
	{"leaf", "1.5", false, false},
	{"leaf", "'c'", false, false},
	{"leaf", "\"s\"", false, false},
	{"leaf", "1i", false, false},
	{"leaf", "\"fmt\"", false, false},
	{"stmt", "break", false, false},
	{"stmt", "continue", false, false},
	{"stmt", "break $x", false, false},
	{"stmt", "continue $x", false, false},
	{"stmt", "goto $x", false, false},
	{"stmt", "fallthrough", false, false},
	// ---- types
	{"type", "[]$x", false, false},
	{"type", "[$x]$y", true, false},
	{"type", "map[$x]$y", true, false},
	{"type", "chan $x", false, false},
	{"type", "<-chan $x", false, false},
	{"type", "func($x) $y", true, false},
	{"type", "func(...$x)", false, false},
	{"type", "$x[$y, $*_]", true, false},
}

// prodClass: which rule-dispatch buckets a root may be filed under.  The engine stops at the first rule of a bucket that
// matches a node, so two accepting rules share an engine only when their roots' classes are disjoint ("?": unknown, the
// rule gets an engine of its own).  A wrong entry costs coverage, never a false alarm; `c07 -product -prodselfcheck`
// compares every accepting rule's report count inside its packed engine with its count alone.
func prodClass(r prodRoot) []string {
	p := r.pattern
	has := func(pre string) bool { return strings.HasPrefix(p, pre) }
	switch r.kind {
	case "stmtlist":
		return []string{"StmtList"}
	case "exprlist":
		return []string{"ExprList", "Call", "Composite", "Return"}
	case "decl":
		if has("func ") {
			return []string{"FuncDecl"}
		}
		return []string{"GenDecl"}
	case "field":
		switch {
		case has("struct"):
			return []string{"StructType"}
		case has("interface"):
			return []string{"InterfaceType"}
		case has("func("):
			return []string{"FuncType"}
		}
	case "type":
		switch {
		case has("[]"), has("[$x]"):
			return []string{"ArrayType"}
		case has("map["):
			return []string{"MapType"}
		case has("chan "), has("<-chan "):
			return []string{"ChanType"}
		case has("func("):
			return []string{"FuncType"}
		case has("$x["):
			return []string{"Index"}
		}
	case "leaf":
		if p[0] == '"' || p[0] == '\'' || (p[0] >= '0' && p[0] <= '9') {
			return []string{"BasicLit"}
		}
		return []string{"Ident"}
	case "stmt":
		switch {
		case has("break"), has("continue"), has("goto "), p == "fallthrough":
			return []string{"Branch"}
		case has("return"):
			return []string{"Return"}
		case has("go "):
			return []string{"Go"}
		case has("defer "):
			return []string{"Defer"}
		case has("{ "):
			return []string{"Block"}
		case has("if "):
			return []string{"If"}
		case has("for ") && strings.Contains(p, "range"):
			return []string{"Range"}
		case has("for "):
			return []string{"For"}
		case has("switch ") && strings.Contains(p, ".(type)"):
			return []string{"TypeSwitch"}
		case has("switch "):
			return []string{"Switch"}
		case has("select "):
			return []string{"Select"}
		case has("var "), has("const "), has("type "):
			return []string{"GenDecl"}
		case p == "$x++":
			return []string{"IncDec"}
		case p == "$x <- $y":
			return []string{"Send"}
		case p == "$x: $y":
			return []string{"?"}
		case strings.Contains(p, " = "), strings.Contains(p, " := "), strings.Contains(p, " += "):
			return []string{"Assign"}
		}
	case "expr":
		switch {
		case has("func("), has("func() {"):
			if strings.HasSuffix(p, "()") {
				return []string{"Call"}
			}
			return []string{"FuncLit"}
		case has("append("), has("make("), has("$x("), has("$x.$_("):
			return []string{"Call"}
		case p == "$x.$y":
			return []string{"Selector"}
		case p == "$x[$y]":
			return []string{"Index"}
		case has("$x[") && strings.Contains(p, ":"):
			return []string{"Slice"}
		case p == "*$x":
			return []string{"Star"}
		case p == "&$x", p == "<-$x":
			return []string{"Unary"}
		case p == "($x)":
			return []string{"Paren"}
		case p == "$x.($y)":
			return []string{"TypeAssert"}
		case p == "$x + $y", p == "$x == $y":
			return []string{"Binary"}
		case strings.Contains(p, "{"):
			return []string{"Composite"}
		}
	}
	return []string{"?"}
}

// type patterns of every arity and nesting (the typematch side of the product)
var prodTypePats = []string{
	"func()", "func() $_", "func() $*_", "func($*_)", "func($*_) $*_", "func($_)", "func($_) $_", "func($_, $*_)", "func($*_, $_)", "func($*_, $_, $*_)",
	"func($_, $_) ($_, $_)", "func() (int, error)", "func() ($_, $_, $_)", "func(int) $_", "func($t) $t", "func($*_) $t", "func($t, $*_) $t", "func($*_, $*_)",
	"func() func()", "func(func()) $*_", "func($*_) func($*_)", "[]func()", "map[string]func()", "*func()", "chan func()", "[2]func()", "func([]$t) $*_", "func($*_, []$t) $*_",
	"struct{}", "struct{$*_}", "struct{$_}", "struct{$_; $*_}", "struct{$*_; $_}", "struct{$t; $t}", "struct{$*_; $*_}", "struct{$t; $*_; $t}",
	"[]$t", "[$n]$t", "[4]$t", "[2]$t", "[$_]$_", "[$n][$n]$t", "[][]$t", "map[$k]$v", "map[$t]$t", "map[$t][]$t", "map[$_][]$t", "chan $t", "<-chan $t", "chan<- $t", "*$t", "**$t", "$t",
	"interface{}", "interface{$*_}", "error", "float64", "[]float64", "map[float64]float64", "map[float64][]float64", "func(float64) float64", "*float64", "[2]float64",
	"chan float64", "struct{float64}", "*int", "[]*int", "[]interface{}", "func(interface{}) interface{}", "map[string]interface{}", "unsafe.Pointer", "fmt.Stringer",
	"[]fmt.Stringer", "func(fmt.Stringer) $*_", "strings.Builder", "*strings.Builder",
}

// sub-patterns for Contains(): patterns that themselves match lists (they allocate node lists in the matcher state that
// runs them), next to single-node ones
var prodContains = []string{
	"$_($*_)", "$_($*_, $_)", "{ $*_ }", "$_; $_", "$*_; $_; $*_", "$_, $_", "$*_, $_", "[]$_{$*_}", "$_{$*_}", "func($*_) $*_ { $*_ }", "return $*_",
	"if $*_ { $*_ }", "$*_ = $*_", "f0()", "$_ + $_", "struct { $*_ }", "for $*_ { $*_ }",
}

const prodPrelude = prelude + `
func identFilter(ctx *dsl.VarFilterContext) bool {
	return types.Identical(types.NewSlice(ctx.Type), types.NewSlice(ctx.Type.Underlying())) || types.Identical(types.NewPointer(ctx.Type.Underlying()), types.NewPointer(ctx.Type)) ||
		types.Identical(types.NewArray(ctx.Type, 2), ctx.Type) || types.Identical(ctx.Type.Underlying(), ctx.Type)
}

func implFilter(ctx *dsl.VarFilterContext) bool {
	return types.Implements(ctx.Type, ctx.GetInterface("container/heap.Interface")) || types.Implements(ctx.Type, ctx.GetInterface("flag.Getter")) ||
		types.Implements(types.NewPointer(ctx.Type), ctx.GetInterface("fmt.Stringer"))
}

func arrFilter(ctx *dsl.VarFilterContext) bool {
	return ctx.SizeOf(types.NewArray(ctx.Type, 3)) > 24 || ctx.SizeOf(types.NewPointer(ctx.Type)) > 8 || ctx.SizeOf(types.NewSlice(ctx.Type)) > 24
}

func strFilter(ctx *dsl.VarFilterContext) bool {
	return len(ctx.Type.String()) > len(ctx.Type.Underlying().String())
}
`

// prodExtraInsts: instances that exist in the product sweep only, on variable v (other: the other variable)
func prodExtraInsts(v string) []inst {
	var out []inst
	add := func(name, ctor string, d *filt.DExpr) {
		out = append(out, inst{name: name + "@" + v, ctor: ctor, d: d})
	}
	add("Type.Implements:heap.Interface", "makeTypeImplementsFilter", filt.Call("Type.Implements", v, filt.Str("container/heap.Interface")))
	add("Type.Implements:flag.Getter", "makeTypeImplementsFilter", filt.Call("Type.Implements", v, filt.Str("flag.Getter")))
	add("Type.Implements:fmt.Stringer", "makeTypeImplementsFilter", filt.Call("Type.Implements", v, filt.Str("fmt.Stringer")))
	add("Type.HasMethod:flag.Get", "makeTypeHasMethodFilter", filt.Call("Type.HasMethod", v, filt.Str("flag.Getter.Get")))
	add("Type.HasMethod:io.Write", "makeTypeHasMethodFilter", filt.Call("Type.HasMethod", v, filt.Str("io.Writer.Write")))
	add("Type.ConvertibleTo:[]float64", "makeTypeConvertibleToFilter", filt.Call("Type.ConvertibleTo", v, filt.Str("[]float64")))
	add("Type.AssignableTo:map[float64][]float64", "makeTypeAssignableToFilter", filt.Call("Type.AssignableTo", v, filt.Str("map[float64][]float64")))
	add("Type.AssignableTo:interface{}", "makeTypeAssignableToFilter", filt.Call("Type.AssignableTo", v, filt.Str("interface{}")))
	add("Type.Size:>", "makeTypeSizeConstFilter", filt.Bin("GTR", filt.Sel("Type.Size", v), filt.Int(16)))
	add("Filter:ident", "makeCustomVarFilter", filt.Call("Filter", v, filt.Ident("identFilter")))
	add("Filter:impl", "makeCustomVarFilter", filt.Call("Filter", v, filt.Ident("implFilter")))
	add("Filter:arr", "makeCustomVarFilter", filt.Call("Filter", v, filt.Ident("arrFilter")))
	add("Filter:str", "makeCustomVarFilter", filt.Call("Filter", v, filt.Ident("strFilter")))
	for _, sp := range prodContains {
		add("Contains:"+sp, "makeVarContainsFilter", filt.Call("Contains", v, filt.Str(sp)))
	}
	add("Contains:$_($*_)+after", "makeVarContainsFilter", filt.And(filt.Call("Contains", v, filt.Str("$_($*_)")), filt.Not(filt.Call("Contains", v, filt.Str("{ $*_ }")))))
	return out
}

func prodTypeInsts(v string) []inst {
	var out []inst
	for _, tp := range prodTypePats {
		out = append(out, inst{name: "Type.Is:" + tp + "@" + v, ctor: "makeTypeIsFilter", d: filt.Call("Type.Is", v, filt.Str(tp))})
		out = append(out, inst{name: "Type.Underlying.Is:" + tp + "@" + v, ctor: "makeTypeIsFilter/underlying", d: filt.Call("Type.Underlying.Is", v, filt.Str(tp))})
	}
	if v == "x" {
		for _, tp := range prodTypePats {
			out = append(out, inst{name: "SinkType.Is:" + tp, ctor: "makeRootSinkTypeIsFilter", d: filt.Or(filt.Call("SinkType.Is", "$$", filt.Str(tp)), filt.Sel("Pure", v))})
		}
	}
	return out
}

type prodRuleT struct {
	root  prodRoot
	in    inst
	extra string
	do    string
	// accept: the unit is a rule of its own that reports where its filter accepts (one such rule per engine: the engine
	// stops at the first rule that matches a node, so accepting rules would hide one another).  Otherwise the unit is
	// evaluated in rejecting form `F && !F`: the closure runs on every match of the root (twice where it accepts) and the
	// rule never reports, so any number of units share an engine and a rule (`F1 && !F1 || F2 && !F2 || ...`).
	accept bool
}

// varless: the instance does not mention a capture
func varless(in inst) bool {
	if in.d == nil {
		return true
	}
	s := in.d.Go()
	return !strings.Contains(s, `m["x"]`) && !strings.Contains(s, `m["y"]`)
}

// instances whose accepting form is run too (what the filter leaves behind is seen by the renderer)
var prodAcceptInsts = map[string]bool{"Contains:$_($*_)@x": true, "Contains:$_($*_)@y": true, "Contains:{ $*_ }@x": true, "Contains:$*_, $_@y": true, "Contains:x has $y": true,
	"Contains:y has $x": true, "Text:var": true, "Line:xy": true, "Type.IdenticalTo:xy": true, "Type.Is:$t": true, "Filter:type": true, "SinkType.Is:$t": true, "Node.Parent.Is": true}

func prodRules(full bool) []prodRuleT {
	coreX := instsOn("x")
	coreY := instsOn("y")
	extraX, extraY := prodExtraInsts("x"), prodExtraInsts("y")
	tpX, tpY := prodTypeInsts("x"), prodTypeInsts("y")
	var rules []prodRuleT
	for ri, root := range prodRoots {
		add := func(in inst) {
			if in.d == nil {
				return
			}
			rules = append(rules, prodRuleT{root: root, in: in})
			if prodAcceptInsts[in.name] {
				rules = append(rules, prodRuleT{root: root, in: in, accept: true})
			}
		}
		for _, in := range coreX {
			if in.needY && !root.hasY {
				continue
			}
			if root.noVars() && !varless(in) {
				continue
			}
			add(in)
		}
		for _, in := range extraX {
			if root.noVars() {
				continue
			}
			add(in)
		}
		if root.hasY {
			for k, in := range coreY {
				if in.needY || varless(in) {
					continue
				}
				// quick tier: the second capture gets every other instance (alternating with the root), the thorough tier all
				if !full && (k+ri)%2 == 1 {
					continue
				}
				in.name += "@y"
				add(in)
			}
			for k, in := range extraY {
				if !full && (k+ri)%2 == 1 && !prodAcceptInsts[in.name] {
					continue
				}
				add(in)
			}
		}
		if root.typed {
			for _, in := range tpX {
				add(in)
			}
			if root.hasY {
				for _, in := range tpY {
					add(in)
				}
			}
		}
		rules = append(rules, prodRuleT{root: root, in: inst{name: "true"}, accept: true})
		if root.noVars() {
			for _, fn := range []string{"doText", "doType", "doOther"} {
				rules = append(rules, prodRuleT{root: root, in: inst{name: "Do:" + fn}, do: fn, accept: true})
			}
			continue
		}
		rules = append(rules, prodRuleT{root: root, in: inst{name: "At:x"}, extra: ".At(m[\"x\"])", accept: true})
		if root.hasY {
			rules = append(rules, prodRuleT{root: root, in: inst{name: "At:y"}, extra: ".At(m[\"y\"])", accept: true})
		}
		for _, fn := range []string{"doText", "doType", "doOther"} {
			rules = append(rules, prodRuleT{root: root, in: inst{name: "Do:" + fn}, do: fn, accept: true})
			rules = append(rules, prodRuleT{root: root, in: inst{name: "Do:" + fn + "+At"}, do: fn, extra: ".At(m[\"x\"])", accept: true})
		}
	}
	return rules
}

// prodBatches: the rejecting units in chunks of PW (any mix of roots); the accepting units packed into engines that hold
// at most one accepting rule per dispatch class (pack == false: every accepting unit alone)
func prodBatches(rules []prodRuleT, pack bool) [][]prodRuleT {
	var out [][]prodRuleT
	var cur []prodRuleT
	for _, r := range rules {
		if r.accept {
			continue
		}
		cur = append(cur, r)
		if len(cur) == PW {
			out = append(out, cur)
			cur = nil
		}
	}
	if len(cur) > 0 {
		out = append(out, cur)
	}
	type engine struct {
		units []prodRuleT
		used  map[string]bool
	}
	var engines []*engine
	for _, r := range rules {
		if !r.accept {
			continue
		}
		cls := prodClass(r.root)
		placed := false
		if pack && cls[0] != "?" {
			for _, e := range engines {
				free := e.used != nil
				for _, c := range cls {
					if e.used[c] {
						free = false
					}
				}
				if free {
					e.units = append(e.units, r)
					for _, c := range cls {
						e.used[c] = true
					}
					placed = true
					break
				}
			}
		}
		if !placed {
			e := &engine{units: []prodRuleT{r}}
			if pack && cls[0] != "?" {
				e.used = map[string]bool{}
				for _, c := range cls {
					e.used[c] = true
				}
			}
			engines = append(engines, e)
		}
	}
	for _, e := range engines {
		out = append(out, e.units)
	}
	return out
}

// prodPerRule: rejecting units of one root that share a rule
const prodPerRule = 12

// prodMkRules renders a set of units as rules: accepting units one rule each, rejecting units of the same root in rules of
// up to prodPerRule disjuncts `F && !F`.
func prodMkRules(units []prodRuleT) (out []filt.Rule, ruleOf []int) {
	ruleOf = make([]int, len(units))
	name := func() string { return fmt.Sprintf("g%d", len(out)) }
	var pend []prodRuleT
	flush := func() {
		if len(pend) == 0 {
			return
		}
		var parts []string
		for _, u := range pend {
			f := u.in.d.Go()
			parts = append(parts, "("+f+") && !("+f+")")
		}
		out = append(out, filt.Rule{Name: name(), Pattern: pend[0].root.pattern, WhereSrc: strings.Join(parts, " ||\n\t\t\t"), Report: "never reported"})
		pend = nil
	}
	for ui, u := range units {
		ruleOf[ui] = -1
		if !u.accept {
			if len(pend) > 0 && (pend[0].root.pattern != u.root.pattern || len(pend) == prodPerRule) {
				flush()
			}
			pend = append(pend, u)
			continue
		}
		flush()
		j := len(out)
		ruleOf[ui] = j
		fr := filt.Rule{Name: name(), Pattern: u.root.pattern, Where: u.in.d}
		if u.root.hasY {
			fr.Report = fmt.Sprintf("$x|$y|$$|g%d", j)
			fr.Extra = ".\n\t\tSuggest(`$y; $x`)" + u.extra
			if len(u.in.name)%2 == 0 {
				fr.Extra = ".\n\t\tSuggest(`$x`)" + u.extra
			}
		} else if u.root.noVars() {
			fr.Report = fmt.Sprintf("$$|g%d", j)
			fr.Extra = ".\n\t\tSuggest(`$$`)" + u.extra
		} else {
			fr.Report = fmt.Sprintf("$x|$$|g%d", j)
			fr.Extra = ".\n\t\tSuggest(`$x`)" + u.extra
		}
		if u.do != "" {
			fr.Do = u.do
			fr.Extra = u.extra
		}
		out = append(out, fr)
	}
	flush()
	return out, ruleOf
}

func prodResult(r prodRuleT, alias string, b int, n int, bads []bad, pmsg, lerr, site string) result {
	w := ""
	if r.in.d != nil {
		w = r.in.d.Go()
		if !r.accept {
			w = "(" + w + ") && !(" + w + ")"
		}
	}
	tl, reused := prodCtx(b)
	dbg := ""
	if b%4 == 2 {
		dbg = "the first rule of the engine"
	}
	return result{K: "run", Inst: r.in.name, Ctor: r.in.ctor, Shape: "product:" + r.root.kind, Pattern: r.root.pattern, Where: w, Extra: r.extra, Do: r.do, Site: site,
		Trunc: tl, Reused: reused, Alias: alias, Debug: dbg, LoadErr: lerr, Panic: pmsg, Bad: bads, Reports: n}
}

// prodDebug: every fourth batch runs with RunContext.Debug naming the first rule of the engine (its rejections are printed)
func prodDebug(b, nrules int) string {
	if b%4 != 2 || nrules == 0 {
		return ""
	}
	return "g0"
}

// prodCtx: the RunContext setting of a batch
func prodCtx(b int) (trunc int, reused bool) {
	return []int{0, 7, -3}[b%3], b%2 == 1
}

func prodAlias() string {
	for _, kv := range strings.Split(os.Getenv("GODEBUG"), ",") {
		if strings.HasPrefix(kv, "gotypesalias=") {
			return strings.TrimPrefix(kv, "gotypesalias=")
		}
	}
	return "default"
}

var prodLoadNs, prodRunNs atomic.Int64

// outLine writes one result line to stdout; the product sweeps of the two alias modes run side by side
var outMu sync.Mutex

func outLine(line string) {
	outMu.Lock()
	os.Stdout.WriteString(line + "\n")
	outMu.Unlock()
}

func outJSON(v interface{}) {
	b, err := json.Marshal(v)
	if err == nil {
		outLine(string(b))
	}
}

var prodSelfCheck bool

func prodRunSet(t *hutil.Target, batch []prodRuleT, b int) (n int, bads []bad, pmsg, lerr string) {
	n, _, bads, pmsg, lerr = prodRunSetCounted(t, batch, b)
	return
}

// prodRunSetCounted also returns the number of reports of every unit (0 for the rejecting ones)
func prodRunSetCounted(t *hutil.Target, batch []prodRuleT, b int) (n int, per []int, bads []bad, pmsg, lerr string) {
	frules, ruleOf := prodMkRules(batch)
	per = make([]int, len(batch))
	t0 := time.Now()
	eng, err := filt.Load(t.Fset, filt.RulesFile(prodPrelude, frules))
	prodLoadNs.Add(int64(time.Since(t0)))
	if err != nil {
		return 0, per, nil, "", err.Error()
	}
	defer func(t1 time.Time) { prodRunNs.Add(int64(time.Since(t1))) }(time.Now())
	tl, reused := prodCtx(b)
	var st *ruleguard.RunnerState
	if reused {
		st = ruleguard.NewRunnerState(eng)
		run(eng, t, tl, "", st)
	}
	counts := map[string]int{}
	n, bads, pmsg = runDebug(eng, t, tl, "", st, counts, prodDebug(b, len(frules)))
	for ui, j := range ruleOf {
		if j >= 0 {
			per[ui] = counts[fmt.Sprintf("g%d", j)]
		}
	}
	return
}

// prodLocate: the first site of the catalogue (or the header alone) on which the rule fails
func prodLocate(tmp string, r prodRuleT, b int) string {
	try := func(body string) bool {
		t, err := checkMini(tmp, []byte(prodHeader+"\n"+body+"\n"), -1)
		if err != nil {
			return false
		}
		_, bads, pmsg, _ := prodRunSet(t, []prodRuleT{r}, b)
		return pmsg != "" || len(bads) > 0
	}
	if try("") {
		return "(the declarations of the catalogue header, harness/cmd/c07/catalogue.go:prodHeader)"
	}
	for _, s := range prodSites {
		if try(s) {
			// the smallest prefix of the site's lines would need a parser; the site's first line names it
			return s
		}
	}
	return ""
}

// PW: rules per engine in the product sweep.  Loading an engine costs far more than running it over the catalogue (the
// rules file is type-checked from source on every Load), so the batches are large and a failing batch is bisected.
const PW = 640

// what a failing set of rules looks like when no single rule of it fails alone
func prodSetResult(rs []prodRuleT, alias string, b int, n int, bads []bad, pmsg, lerr string) result {
	var pats, wh []string
	for i, r := range rs {
		if i == 6 {
			pats = append(pats, fmt.Sprintf("... (%d rules)", len(rs)))
			break
		}
		w := ""
		if r.in.d != nil {
			w = r.in.d.Go()
		}
		pats = append(pats, r.root.pattern)
		wh = append(wh, w)
	}
	tl, reused := prodCtx(b)
	return result{K: "run", Inst: fmt.Sprintf("set of %d rules (no proper subset tried fails)", len(rs)), Shape: "product:set", Pattern: strings.Join(pats, " || "), Where: strings.Join(wh, " || "),
		Trunc: tl, Reused: reused, Alias: alias, LoadErr: lerr, Panic: pmsg, Bad: bads, Reports: n}
}

// runProduct is the child.  lo/hi >= 0: serial mode, the rules [lo,hi) of batch oneBatch as ONE engine (the parent bisects).
func runProduct(tmp string, full bool, skip map[int]bool, oneBatch, lo, hi int) {
	hutil.ChildInit()
	alias := prodAlias()
	var mu sync.Mutex
	out := bufio.NewWriter(os.Stdout)
	enc := json.NewEncoder(out)
	emit := func(v interface{}) {
		mu.Lock()
		enc.Encode(v)
		out.Flush()
		mu.Unlock()
	}
	t, err := hutil.CheckTarget(tmp, "prod"+alias+"/prod.go", []byte(prodTarget()))
	if err != nil {
		fmt.Fprintln(os.Stderr, err)
		os.Exit(3)
	}
	rules := prodRules(full)
	batches := prodBatches(rules, true)
	nb := len(batches)
	batchOf := func(b int) []prodRuleT { return batches[b] }
	failing := func(bads []bad, pmsg, lerr string) bool { return pmsg != "" || lerr != "" || len(bads) > 0 }
	if prodSelfCheck {
		// development aid: every accepting unit reports inside its packed engine exactly as often as alone
		bad := 0
		for b, batch := range batches {
			if !batch[0].accept {
				continue
			}
			_, per, _, _, _ := prodRunSetCounted(t, batch, b)
			for i, u := range batch {
				_, alone, _, _, _ := prodRunSetCounted(t, []prodRuleT{u}, b)
				if alone[0] != per[i] {
					bad++
					fmt.Printf("SELFCHECK: %q %s: %d reports alone, %d in its engine (classes %v)\n", u.root.pattern, u.in.name, alone[0], per[i], prodClass(u.root))
				}
			}
		}
		fmt.Printf("SELFCHECK: %d mismatches\n", bad)
		return
	}
	if oneBatch >= 0 {
		batch := batchOf(oneBatch)
		if hi > len(batch) {
			hi = len(batch)
		}
		set := batch[lo:hi]
		n, bads, pmsg, lerr := prodRunSet(t, set, oneBatch)
		if len(set) == 1 || !failing(bads, pmsg, lerr) {
			for _, r := range set {
				emit(prodResult(r, alias, oneBatch, n, bads, pmsg, lerr, ""))
			}
		} else {
			emit(map[string]interface{}{"k": "prod-set-fails"})
		}
		emit(map[string]interface{}{"k": "prod-done"})
		return
	}
	type failedSet struct {
		rs []prodRuleT
		b  int
	}
	var failedBatches []failedSet
	jobs := make(chan int)
	var wg sync.WaitGroup
	for w := 0; w < 8; w++ {
		wg.Add(1)
		go func() {
			defer wg.Done()
			for b := range jobs {
				emit(map[string]interface{}{"k": "prod-begin", "batch": b})
				batch := batchOf(b)
				_, per, bads, pmsg, lerr := prodRunSetCounted(t, batch, b)
				if !failing(bads, pmsg, lerr) {
					for i, r := range batch {
						emit(prodResult(r, alias, b, per[i], nil, "", "", ""))
					}
				} else {
					mu.Lock()
					failedBatches = append(failedBatches, failedSet{batch, b})
					mu.Unlock()
				}
				emit(map[string]interface{}{"k": "prod-end", "batch": b})
			}
		}()
	}
	for b := 0; b < nb; b++ {
		if !skip[b] {
			jobs <- b
		}
	}
	close(jobs)
	wg.Wait()
	// failing batches: bisected (serially) down to single rules; the first few distinct failures are located.  At most
	// maxIsolated failing rules are isolated; the batches behind that are counted only.
	const maxIsolated = 40
	sort.SliceStable(failedBatches, func(i, j int) bool { return failedBatches[i].b < failedBatches[j].b })
	seen := map[string]bool{}
	located, isolated, unisolated := 0, 0, 0
	var isolate func(rs []prodRuleT, b int) bool // reports whether the set fails
	isolate = func(rs []prodRuleT, b int) bool {
		n, per, bads, pmsg, lerr := prodRunSetCounted(t, rs, b)
		if !failing(bads, pmsg, lerr) {
			for i, r := range rs {
				emit(prodResult(r, alias, b, per[i], nil, "", "", ""))
			}
			return false
		}
		if isolated >= maxIsolated {
			unisolated += len(rs)
			return true
		}
		if len(rs) == 1 {
			isolated++
			site := ""
			sig := rs[0].in.ctor + "|" + pmsg + "|" + lerr
			if len(bads) > 0 {
				sig += bads[0].What
			}
			if !seen[sig] && located < 8 && lerr == "" {
				seen[sig] = true
				located++
				site = prodLocate(tmp, rs[0], b)
			}
			emit(prodResult(rs[0], alias, b, n, bads, pmsg, lerr, site))
			return true
		}
		mid := len(rs) / 2
		f1 := isolate(rs[:mid], b)
		f2 := isolate(rs[mid:], b)
		if !f1 && !f2 {
			// neither half fails: the position in the engine matters (Debug follows the first rule) or state is carried from one
			// rule to the next.  A small set is tried unit by unit (each is the first rule of its engine then).
			found := false
			if len(rs) <= 64 {
				for _, u := range rs {
					n1, _, b1, p1, l1 := prodRunSetCounted(t, []prodRuleT{u}, b)
					if failing(b1, p1, l1) {
						found = true
						isolated++
						emit(prodResult(u, alias, b, n1, b1, p1, l1, ""))
					}
				}
			}
			if !found {
				isolated++
				emit(prodSetResult(rs, alias, b, n, bads, pmsg, lerr))
			}
		}
		return true
	}
	for _, fb := range failedBatches {
		isolate(fb.rs, fb.b)
	}
	emit(map[string]interface{}{"k": "prod-meta", "alias": alias, "rules": len(rules), "batches": nb, "roots": len(prodRoots), "sites": len(prodSites),
		"type_patterns": len(prodTypePats), "contains_patterns": len(prodContains), "failing_batches": len(failedBatches), "failing_rules_isolated": isolated,
		"rules_in_failing_sets_not_isolated": unisolated, "load_ms": prodLoadNs.Load() / 1e6, "run_ms": prodRunNs.Load() / 1e6})
	emit(map[string]interface{}{"k": "prod-done"})
}

// prodChild runs one child; returns the batches it began but did not end, whether it finished, whether it said that the
// set it was given fails (serial mode), and why it did not finish.
func prodChild(tmp, alias string, full bool, args []string, budget time.Duration) (open []int, ended map[int]bool, done, setFails bool, why string) {
	ctx, cancel := context.WithTimeout(context.Background(), budget)
	defer cancel()
	a := append([]string{"-product", "-tmp", tmp}, args...)
	if full {
		a = append(a, "-full")
	}
	cmd := exec.CommandContext(ctx, os.Args[0], a...)
	var env []string
	for _, kv := range os.Environ() {
		if !strings.HasPrefix(kv, "GODEBUG=") {
			env = append(env, kv)
		}
	}
	cmd.Env = append(env, "GODEBUG=gotypesalias="+alias)
	var stderr strings.Builder
	cmd.Stderr = &stderr
	stdout, err := cmd.StdoutPipe()
	if err != nil || cmd.Start() != nil {
		return nil, nil, false, false, "cannot start the child process"
	}
	begun := map[int]bool{}
	ended = map[int]bool{}
	sc := bufio.NewScanner(stdout)
	sc.Buffer(make([]byte, 1<<20), 1<<26)
	for sc.Scan() {
		line := sc.Text()
		var m map[string]interface{}
		if json.Unmarshal([]byte(line), &m) != nil {
			continue
		}
		switch m["k"] {
		case "prod-begin":
			begun[int(m["batch"].(float64))] = true
		case "prod-end":
			ended[int(m["batch"].(float64))] = true
		case "prod-set-fails":
			setFails = true
		case "prod-done":
			done = true
		case "run", "prod-meta":
			outLine(line)
		}
	}
	werr := cmd.Wait()
	for b := range begun {
		if !ended[b] {
			open = append(open, b)
		}
	}
	sort.Ints(open)
	if done && werr == nil {
		return nil, ended, true, setFails, ""
	}
	if ctx.Err() == context.DeadlineExceeded {
		return open, ended, false, false, fmt.Sprintf("Run did not return within %s", budget)
	}
	if stderr.Len() > 0 && strings.Contains(stderr.String(), "typecheck") {
		return open, ended, false, false, "the catalogue target does not type-check: " + firstLines(stderr.String(), 3)
	}
	return open, ended, false, false, "Run killed the process (not recoverable): " + firstLines(stderr.String(), 2)
}

// spawnProduct is the parent side for one alias mode.
func spawnProduct(enc *json.Encoder, tmp, alias string, full bool, budget time.Duration) {
	batches := prodBatches(prodRules(full), true)
	skip := map[int]bool{}
	named := 0
	// bisect: the rules [lo,hi) of batch b kill the child when they run as one engine; children of their own narrow that down
	var bisect func(b, lo, hi int, why string)
	bisect = func(b, lo, hi int, why string) {
		if named >= 6 {
			return
		}
		if hi-lo == 1 {
			named++
			outJSON(prodResult(batches[b][lo], alias, b, 0, nil, why, "", ""))
			return
		}
		mid := (lo + hi) / 2
		dead := false
		for _, r := range [][2]int{{lo, mid}, {mid, hi}} {
			_, _, d, sf, w := prodChild(tmp, alias, full, []string{"-prodbatch", strconv.Itoa(b), "-prodlo", strconv.Itoa(r[0]), "-prodhi", strconv.Itoa(r[1])}, budget)
			if !d {
				dead = true
				bisect(b, r[0], r[1], w)
			} else if sf {
				// a recoverable failure inside this half: the in-process bisection of a later restart names it
				_ = sf
			}
		}
		if !dead {
			named++
			outJSON(prodSetResult(batches[b][lo:hi], alias, b, 0, nil, why, ""))
		}
	}
	for attempt := 0; attempt < 4; attempt++ {
		var sk []string
		for b := range skip {
			sk = append(sk, strconv.Itoa(b))
		}
		sort.Strings(sk)
		args := []string{}
		if len(sk) > 0 {
			args = append(args, "-prodskip", strings.Join(sk, ","))
		}
		open, ended, done, _, why := prodChild(tmp, alias, full, args, budget)
		if done {
			return
		}
		if len(open) == 0 {
			outJSON(result{K: "run", Inst: "product", Shape: "product", Alias: alias, Panic: "the product child died outside a batch: " + why})
			return
		}
		for b := range ended {
			skip[b] = true
		}
		// the batches that were running when the child died
		for _, b := range open {
			skip[b] = true
			n := len(batches[b])
			_, _, d, _, w := prodChild(tmp, alias, full, []string{"-prodbatch", strconv.Itoa(b), "-prodlo", "0", "-prodhi", strconv.Itoa(n)}, budget)
			if !d {
				bisect(b, 0, n, w)
			} else {
				delete(skip, b) // it was not this batch: it runs again (in process) with the next restart
			}
		}
	}
	outJSON(result{K: "run", Inst: "product", Shape: "product", Alias: alias, Panic: "the product child keeps dying; gave up after 4 restarts"})
}
