package main

// Deep sweep: type predicates over recursive / cyclic / very large type shapes.
//
// A Go stack overflow (unbounded recursion in a type comparison) is a fatal error that recover() cannot stop, and an
// endless loop never returns, so these cases run in a child process (this binary with -deep): the child announces every
// case before it starts it; when the child dies or exceeds its time budget, the case it announced last is the failing
// input, and the sweep resumes behind it in a new child.

import (
	"bufio"
	"context"
	"encoding/json"
	"fmt"
	"os"
	"os/exec"
	"runtime/debug"
	"strings"
	"time"

	"verif/harness/internal/filt"
	"verif/harness/internal/hutil"
)

const deepDecls = `package deep

import "fmt"

type A interface{ m() interface{ n() interface{ A } } }
type B interface{ m() interface{ n() interface{ B } } }
type A1 interface{ m() interface{ A1 } }
type B1 interface{ m() interface{ B1 } }
type A3 interface {
	m() interface {
		n() interface{ o() interface{ A3 } }
	}
}
type B3 interface {
	m() interface {
		n() interface{ o() interface{ B3 } }
	}
}
type X interface{ y() Y }
type Y interface{ x() X }
type AF interface{ m(func(interface{ AF })) }
type BF interface{ m(func(interface{ BF })) }
type L struct {
	next *L
	v    int
}
type Tr struct {
	kids []Tr
	m    map[string]*Tr
	f    func(Tr) Tr
	c    chan Tr
}
type F func(F) F
type Rec interface{ Self() Rec }
type RecImpl struct{}

func (RecImpl) Self() Rec      { return nil }
func (RecImpl) String() string { return "" }

type Big struct {
	a [1 << 16]int64
	b [4][4][4][4]string
}
type PP ****int
type GL[T any] struct {
	next *GL[T]
	v    T
}
type Emb struct {
	*Emb
	L
}
type M1 map[string]M1
type S1 []S1
type P1 *P1
type C1 chan C1
type St struct{ s fmt.Stringer }
type Cel = float64
type RA = *RB
type RB struct {
	next RA
	xs   []RA
	f    func(RA, ...Cel) RA
}
type LC struct {
	next *LC
	v    []Cel
}
type GA[T any] struct {
	next *GA[T]
	v    [2]T
}
type IC interface{ m(Cel) interface{ IC } }
type IF interface{ m(float64) interface{ IF } }

var (
	ia  interface{ A }
	ib  interface{ B }
	ia1 interface{ A1 }
	ib1 interface{ B1 }
	ia3 interface{ A3 }
	ib3 interface{ B3 }
	iaf interface{ AF }
	ibf interface{ BF }
	va  A
	vb  B
	vx  X
	vy  Y
	l   L
	pl  *L
	tr  Tr
	ff  F
	rec Rec
	ri  RecImpl
	big Big
	pp  PP
	gl  GL[int]
	gls GL[string]
	emb Emb
	m1  M1
	s1  S1
	q1  P1
	c1  C1
	st  St
	mab map[interface{ A }]interface{ B }
	fab func(interface{ A }) interface{ B }
	m3  map[interface{ A3 }]interface{ B3 }
	sab struct {
		a interface{ A }
		b interface{ B }
	}
	ra  RA
	rb  RB
	lc  LC
	gac GA[Cel]
	gaf GA[float64]
	ic  interface{ IC }
	iff interface{ IF }
)
`

var deepSingles = []string{"ia", "ib", "ia1", "ia3", "iaf", "va", "vx", "vy", "l", "pl", "tr", "ff", "rec", "ri", "big", "pp", "gl", "gls", "emb", "m1", "s1", "q1", "c1", "st",
	"mab", "fab", "m3", "sab", "&tr", "tr.kids", "gl.next", "ff(ff)", "rec.Self()", "[]interface{ A }{ia}", "func(interface{ A }) {}",
	"ra", "rb", "lc", "gac", "ic", "rb.f", "gac.v", "[]RA{ra}"}

var deepPairs = [][2]string{{"ia", "ib"}, {"ib", "ia"}, {"ia1", "ib1"}, {"ia3", "ib3"}, {"iaf", "ibf"}, {"va", "vb"}, {"vx", "vy"}, {"gl", "gls"}, {"m1", "s1"}, {"l", "pl"}, {"mab", "fab"},
	{"ia", "va"}, {"tr", "tr"}, {"ff", "ff"}, {"rec", "ri"}, {"emb", "l"}, {"q1", "pp"},
	{"gac", "gaf"}, {"gaf", "gac"}, {"ra", "&rb"}, {"ic", "iff"}, {"iff", "ic"}, {"gac.v", "gaf.v"}}

const deepPrelude = `
func idFilter(ctx *dsl.VarFilterContext) bool {
	return types.Identical(ctx.Type, ctx.GetType("error")) || types.Identical(ctx.Type.Underlying(), ctx.Type)
}

func implFilter(ctx *dsl.VarFilterContext) bool {
	return types.Implements(ctx.Type, ctx.GetInterface("fmt.Stringer")) || ctx.SizeOf(ctx.Type) > 64
}

func strFilter(ctx *dsl.VarFilterContext) bool {
	s := ctx.Type.String()
	u := ctx.Type.Underlying().String()
	return len(s) > len(u)
}
`

type deepInst struct {
	name string
	d    *filt.DExpr
	pair bool
}

func deepInsts() []deepInst {
	x := "x"
	return []deepInst{
		{"Type.Is:$t", filt.Call("Type.Is", x, filt.Str("$t")), false},
		{"Type.Is:map[$t]$t", filt.Call("Type.Is", x, filt.Str("map[$t]$t")), false},
		{"Type.Is:func($t) $t", filt.Call("Type.Is", x, filt.Str("func($t) $t")), false},
		{"Type.Is:interface{}", filt.Call("Type.Is", x, filt.Str("interface{}")), false},
		{"Type.Is:[]$t", filt.Call("Type.Is", x, filt.Str("[]$t")), false},
		{"Type.Underlying.Is:$t", filt.Call("Type.Underlying.Is", x, filt.Str("$t")), false},
		{"Type.Underlying.Is:map[$k]$v", filt.Call("Type.Underlying.Is", x, filt.Str("map[$k]$v")), false},
		{"Type.AssignableTo:error", filt.Call("Type.AssignableTo", x, filt.Str("error")), false},
		{"Type.AssignableTo:interface{}", filt.Call("Type.AssignableTo", x, filt.Str("interface{}")), false},
		{"Type.ConvertibleTo:string", filt.Call("Type.ConvertibleTo", x, filt.Str("string")), false},
		{"Type.Implements:error", filt.Call("Type.Implements", x, filt.Str("error")), false},
		{"Type.Implements:fmt.Stringer", filt.Call("Type.Implements", x, filt.Str("fmt.Stringer")), false},
		{"Type.HasMethod:fmt.Stringer.String", filt.Call("Type.HasMethod", x, filt.Str("fmt.Stringer.String")), false},
		{"Type.HasPointers", filt.Call("Type.HasPointers", x), false},
		{"Comparable", filt.Sel("Comparable", x), false},
		{"Type.OfKind:int", filt.Call("Type.OfKind", x, filt.Str("int")), false},
		{"Type.Underlying.OfKind:numeric", filt.Call("Type.Underlying.OfKind", x, filt.Str("numeric")), false},
		{"Type.Size", filt.Bin("GTR", filt.Sel("Type.Size", x), filt.Int(8)), false},
		{"Filter:identical", filt.Call("Filter", x, filt.Ident("idFilter")), false},
		{"Filter:implements", filt.Call("Filter", x, filt.Ident("implFilter")), false},
		{"Filter:string", filt.Call("Filter", x, filt.Ident("strFilter")), false},
		{"Pure+Addressable+Const", filt.Or(filt.Sel("Pure", x), filt.Or(filt.Sel("Addressable", x), filt.Sel("Const", x))), false},
		{"Type.IdenticalTo", filt.Call("Type.IdenticalTo", x, filt.Index("y")), true},
		{"Type.IdenticalTo:yx", filt.Call("Type.IdenticalTo", "y", filt.Index(x)), true},
		{"Type.Size:xy", filt.Bin("LSS", filt.Sel("Type.Size", x), filt.Sel("Type.Size", "y")), true},
		{"Type.Is:$t both", filt.And(filt.Call("Type.Is", x, filt.Str("$t")), filt.Call("Type.Is", "y", filt.Str("$t"))), true},
	}
}

// a deep case: one predicate instance over all sites of its arity (site < 0), or over one site (after a child died)
type deepCase struct {
	inst deepInst
	ii   int
}

func deepTarget() (string, []string, []string) {
	var sb strings.Builder
	sb.WriteString(deepDecls)
	var singles, pairs []string
	n := 0
	var body strings.Builder
	for _, s := range deepSingles {
		fmt.Fprintf(&sb, "func p%d(args ...interface{}) {}\n", n)
		call := fmt.Sprintf("p%d(%s)", n, s)
		fmt.Fprintf(&body, "\t%s\n", call)
		singles = append(singles, call)
		n++
	}
	for _, p := range deepPairs {
		fmt.Fprintf(&sb, "func p%d(args ...interface{}) {}\n", n)
		call := fmt.Sprintf("p%d(%s, %s)", n, p[0], p[1])
		fmt.Fprintf(&body, "\t%s\n", call)
		pairs = append(pairs, call)
		n++
	}
	sb.WriteString("\nfunc sites() {\n" + body.String() + "}\n")
	return sb.String(), singles, pairs
}

// sitesOf: the probe calls an instance is run on and the index of the first one's probe function
func sitesOf(in deepInst) ([]string, int) {
	_, singles, pairs := deepTarget()
	if in.pair {
		return pairs, len(singles)
	}
	return singles, 0
}

func deepPattern(in deepInst, k int) string {
	if in.pair {
		return fmt.Sprintf("p%d($x, $y)", k)
	}
	return fmt.Sprintf("p%d($x)", k)
}

func deepResult(alias string, in deepInst, pattern, site, panicMsg, loadErr string, reports int, bads []bad) result {
	return result{K: "run", Inst: in.name, Ctor: "", Shape: "deep", Pattern: pattern, Where: in.d.Go(), Site: site, Alias: alias, Panic: panicMsg, LoadErr: loadErr, Reports: reports, Bad: bads}
}

// runDeep is the child. per < 0: instances from..end, all sites of an instance in one engine run. per >= 0: the sites
// from..end of instance `per`, one engine run each. Every unit is announced before it runs.
func runDeep(tmp string, per, from int) {
	debug.SetMaxStack(48 << 20) // an unbounded recursion dies quickly instead of eating a gigabyte first
	alias := prodAlias()
	out := bufio.NewWriter(os.Stdout)
	enc := json.NewEncoder(out)
	src, _, _ := deepTarget()
	t, err := hutil.CheckTarget(tmp, "deep"+alias+"/deep.go", []byte(src))
	if err != nil {
		fmt.Fprintln(os.Stderr, err)
		os.Exit(3)
	}
	insts := deepInsts()
	var unitRef func(in deepInst, sites []string, base int, label string)
	unit := func(in deepInst, sites []string, base int, label string) {
		rep := "$x|$$"
		if in.pair {
			rep = "$x|$y|$$"
		}
		prelude := ""
		if strings.HasPrefix(in.name, "Filter:") {
			prelude = deepPrelude
		}
		var rules []filt.Rule
		for i := range sites {
			rules = append(rules, filt.Rule{Name: fmt.Sprintf("g%d", i), Pattern: deepPattern(in, base+i), Where: in.d, Report: rep, Extra: ".\n\t\tSuggest(`$x`)"})
		}
		pat := deepPattern(in, base)
		if len(sites) > 1 {
			pat = strings.Replace(pat, fmt.Sprintf("p%d(", base), "p<K>(", 1)
		}
		eng, lerr := filt.Load(t.Fset, filt.RulesFile(prelude, rules))
		if lerr != nil {
			enc.Encode(deepResult(alias, in, pat, label, "", lerr.Error(), 0, nil))
			out.Flush()
			return
		}
		n, bads, pmsg := run(eng, t, 0, "", nil)
		if pmsg != "" && len(sites) > 1 {
			// a recoverable panic: name the site(s)
			for i := range sites {
				unitRef(in, sites[i:i+1], base+i, sites[i])
			}
			return
		}
		enc.Encode(deepResult(alias, in, pat, label, pmsg, "", n, bads))
		out.Flush()
	}
	unitRef = unit
	if per < 0 {
		for i := from; i < len(insts); i++ {
			enc.Encode(map[string]interface{}{"k": "deep-start", "case": i})
			out.Flush()
			sites, base := sitesOf(insts[i])
			unit(insts[i], sites, base, fmt.Sprintf("all %d sites", len(sites)))
		}
	} else {
		sites, base := sitesOf(insts[per])
		for s := from; s < len(sites); s++ {
			enc.Encode(map[string]interface{}{"k": "deep-start", "case": s})
			out.Flush()
			unit(insts[per], sites[s:s+1], base+s, sites[s])
		}
	}
	enc.Encode(map[string]interface{}{"k": "deep-done"})
	out.Flush()
}

// child runs one child process; it returns the last announced unit, whether the child finished, and why it did not.
func child(tmp, alias string, per, from int, budget time.Duration, forward bool) (last int, done bool, why string) {
	ctx, cancel := context.WithTimeout(context.Background(), budget)
	defer cancel()
	cmd := exec.CommandContext(ctx, os.Args[0], "-deep", "-deepper", fmt.Sprint(per), "-deepfrom", fmt.Sprint(from), "-tmp", tmp)
	for _, kv := range os.Environ() {
		if !strings.HasPrefix(kv, "GODEBUG=") {
			cmd.Env = append(cmd.Env, kv)
		}
	}
	cmd.Env = append(cmd.Env, "GODEBUG=gotypesalias="+alias)
	var stderr strings.Builder
	cmd.Stderr = &stderr
	stdout, err := cmd.StdoutPipe()
	if err != nil || cmd.Start() != nil {
		return -1, false, "cannot start the child process"
	}
	last = -1
	sc := bufio.NewScanner(stdout)
	sc.Buffer(make([]byte, 1<<20), 1<<24)
	for sc.Scan() {
		line := sc.Text()
		var m map[string]interface{}
		if json.Unmarshal([]byte(line), &m) != nil {
			continue
		}
		switch m["k"] {
		case "deep-start":
			last = int(m["case"].(float64))
		case "deep-done":
			done = true
		case "run":
			if forward || (m["panic"] != nil && m["panic"] != "") {
				outLine(line)
			}
		}
	}
	werr := cmd.Wait()
	if done && werr == nil {
		return last, true, ""
	}
	if ctx.Err() == context.DeadlineExceeded {
		return last, false, fmt.Sprintf("Run did not return within %s", budget)
	}
	return last, false, "Run killed the process (not recoverable): " + firstLines(stderr.String(), 2)
}

// spawnDeep is the parent side: all instances in one child; when it dies in instance i, that instance is re-run site by
// site (each death names one site), then the sweep resumes behind i.
func spawnDeep(enc *json.Encoder, tmp, alias string, budget time.Duration) {
	insts := deepInsts()
	from := 0
	for guard := 0; from < len(insts) && guard <= len(insts); guard++ {
		last, done, why := child(tmp, alias, -1, from, budget, true)
		if done {
			return
		}
		if last < from {
			enc.Encode(result{K: "run", Inst: "deep", Shape: "deep", Alias: alias, Panic: "the child process died before its first case: " + why})
			return
		}
		in := insts[last]
		sites, base := sitesOf(in)
		named := false
		for s, g2 := 0, 0; s < len(sites) && g2 <= len(sites); g2++ {
			l2, d2, w2 := child(tmp, alias, last, s, budget, false)
			if d2 {
				break
			}
			if l2 < s {
				break
			}
			enc.Encode(deepResult(alias, in, deepPattern(in, base+l2), sites[l2], w2, "", 0, nil))
			named = true
			s = l2 + 1
		}
		if !named {
			enc.Encode(deepResult(alias, in, "p<K>(...)", fmt.Sprintf("all %d sites together (no single site reproduces it)", len(sites)), why, "", 0, nil))
		}
		from = last + 1
	}
}

func firstLines(s string, n int) string {
	l := strings.Split(strings.TrimSpace(s), "\n")
	if len(l) > n {
		l = l[:n]
	}
	return strings.Join(l, " | ")
}
