package main

// Shared by the three modes (C01 rules, C09 history, C16 deadcode): user-visible code and nested matching that run
// WHILE a walk is in progress -- inside filters, handlers and Report callbacks, not in the walker.
//
//   * re-entrant runs: a Report callback that calls Engine.Run itself (same goroutine, or another goroutine the
//     callback waits for), on the same or another file, with a nil state / a state of its own / a state taken from a
//     pool for the duration of the run (as the analyzer does), at several depths. Every run of such a tree of runs must
//     report what the same run reports alone.
//   * disturber rules: Do() handlers, Contains() searches with sub-patterns of a concrete node kind, custom bytecode
//     filters -- on nodes that lie inside and in front of statically dead branches, function bodies, function literals.
//     Variants that end in `&& m.Deadcode()` / `&& !m.Deadcode()` (groups *_dead / *_live) turn every node kind into a
//     probe of the flag right after the disturbing filter ran.

import (
	"fmt"
	"go/ast"
	"math/rand"
	"sort"
	"strings"
	"sync"

	"verif/harness/internal/hutil"

	"github.com/quasilyte/go-ruleguard/ruleguard"
)

// ---------------------------------------------------------------------------- re-entrant runs

type nestPlan struct {
	Target int    `json:"file"`  // index into the caller's target list
	Trunc  int    `json:"trunc"`
	State  string `json:"state"` // nil | own (NewRunnerState for this run) | pool (taken from a pool for the duration of the run)
	Go     bool   `json:"go"`    // started on another goroutine; the parent's callback waits for it to finish
	// report index of THIS run -> the runs its Report callback starts there
	At map[int][]*nestPlan `json:"at,omitempty"`

	reps []hReport
	err  string
	id   int // number of the run in the log of its tree
	// set when the run uses a caller-supplied state (the root of a plan in the history mode)
	given *ruleguard.RunnerState
}

// planLog: what a tree of runs did, in the order it happened: {0, run, state} a run starts on a state (states numbered by
// object identity; a nil state is an object of the run's own), {1, run, report index} the Report callback of a run is
// called, {2, run, 0} a run returns.
type planLog struct {
	mu    sync.Mutex
	Steps [][3]int
	sids  map[*ruleguard.RunnerState]int
	runs  int
}

func (l *planLog) add(kind, run, x int) {
	l.mu.Lock()
	l.Steps = append(l.Steps, [3]int{kind, run, x})
	l.mu.Unlock()
}

func (l *planLog) start(st *ruleguard.RunnerState) (run int) {
	l.mu.Lock()
	defer l.mu.Unlock()
	run = l.runs
	l.runs++
	sid := 100000 + run
	if st != nil {
		if l.sids == nil {
			l.sids = map[*ruleguard.RunnerState]int{}
		}
		if _, ok := l.sids[st]; !ok {
			l.sids[st] = len(l.sids)
		}
		sid = l.sids[st]
	}
	l.Steps = append(l.Steps, [3]int{0, run, sid})
	return run
}

type statePool struct {
	mu   sync.Mutex
	e    *ruleguard.Engine
	free []*ruleguard.RunnerState
}

func (p *statePool) take() *ruleguard.RunnerState {
	p.mu.Lock()
	defer p.mu.Unlock()
	if n := len(p.free); n > 0 {
		st := p.free[n-1]
		p.free = p.free[:n-1]
		return st
	}
	return ruleguard.NewRunnerState(p.e)
}

func (p *statePool) give(st *ruleguard.RunnerState) {
	p.mu.Lock()
	p.free = append(p.free, st)
	p.mu.Unlock()
}

// runPlan runs p and, from inside its Report callback, the runs nested in it. Every run records its own reports; a
// crash of the engine inside a run is that run's error (it is recovered where the run was started).
func runPlan(e *ruleguard.Engine, targets []*hutil.Target, p *nestPlan, pool *statePool) {
	runPlanLogged(e, targets, p, pool, &planLog{})
}

func runPlanLogged(e *ruleguard.Engine, targets []*hutil.Target, p *nestPlan, pool *statePool, log *planLog) {
	var st *ruleguard.RunnerState
	switch {
	case p.given != nil:
		st = p.given
	case p.State == "own":
		st = ruleguard.NewRunnerState(e)
	case p.State == "pool":
		st = pool.take()
		defer pool.give(st)
	}
	t := targets[p.Target]
	p.id = log.start(st)
	hook := func(idx int) {
		log.add(1, p.id, idx)
		for _, sub := range p.At[idx] {
			if sub.Go {
				done := make(chan struct{})
				go func(sub *nestPlan) {
					defer close(done)
					runPlanLogged(e, targets, sub, pool, log)
				}(sub)
				<-done
			} else {
				runPlanLogged(e, targets, sub, pool, log)
			}
		}
	}
	reps, _, msg := runOnceHook(e, t, t.File, p.Trunc, st, -1, hook)
	log.add(2, p.id, 0)
	p.reps, p.err = reps, msg
}

// genPlan builds a tree of runs: the root over target `root`; nested runs at 1-3 of the root's report indices (nrep:
// number of reports of a lone run per target; a target without reports cannot start anything), up to `depth` levels.
func genPlan(rng *rand.Rand, nrep []int, root int, rootState string, depth int) *nestPlan {
	p := &nestPlan{Target: root, State: rootState}
	if depth <= 0 || nrep[root] == 0 {
		return p
	}
	p.At = map[int][]*nestPlan{}
	for k, n := 0, 1+rng.Intn(3); k < n; k++ {
		idx := rng.Intn(nrep[root])
		switch rng.Intn(4) {
		case 0:
			idx = 0 // before anything else of the file is visited
		case 1:
			idx = nrep[root] - 1
		}
		sub := rng.Intn(len(nrep))
		if rng.Intn(3) == 0 {
			sub = root // the same file again
		}
		st := []string{"nil", "nil", "own", "pool"}[rng.Intn(4)]
		np := genPlan(rng, nrep, sub, st, depth-1-rng.Intn(2))
		np.Go = rng.Intn(4) == 0
		p.At[idx] = append(p.At[idx], np)
	}
	return p
}

// planRuns lists the runs of a plan (pre-order) with a path like "0>3:1" = root, then the 2nd run started at report #3.
func planRuns(p *nestPlan, path string, out *[]struct {
	Path string
	P    *nestPlan
}) {
	*out = append(*out, struct {
		Path string
		P    *nestPlan
	}{path, p})
	var keys []int
	for k := range p.At {
		keys = append(keys, k)
	}
	sort.Ints(keys)
	for _, k := range keys {
		for i, sub := range p.At[k] {
			planRuns(sub, fmt.Sprintf("%s>%d:%d", path, k, i), out)
		}
	}
}

// describePlan renders the tree of runs for a failing input.
func describePlan(p *nestPlan, names []string, indent string) string {
	var sb strings.Builder
	how := ""
	if p.Go {
		how = " on another goroutine (the callback waits)"
	}
	fmt.Fprintf(&sb, "%sRun(%s, State: %s)%s\n", indent, names[p.Target], p.State, how)
	var keys []int
	for k := range p.At {
		keys = append(keys, k)
	}
	sort.Ints(keys)
	for _, k := range keys {
		for _, sub := range p.At[k] {
			fmt.Fprintf(&sb, "%s  from the Report callback at report #%d:\n%s", indent, k, describePlan(sub, names, indent+"    "))
		}
	}
	return sb.String()
}

// checkPlan compares every run of an executed plan with the lone run of its target; "" when all agree.
func checkPlan(p *nestPlan, lone func(target, trunc int) ([]hReport, string)) (mismatch string, nruns, nnested int) {
	var runs []struct {
		Path string
		P    *nestPlan
	}
	planRuns(p, "0", &runs)
	for _, r := range runs {
		nruns++
		if r.Path != "0" {
			nnested++
		}
		want, msg := lone(r.P.Target, r.P.Trunc)
		if msg != "" {
			return fmt.Sprintf("the lone run over file %d fails: %s", r.P.Target, msg), nruns, nnested
		}
		if mismatch != "" {
			continue
		}
		if r.P.err != "" {
			mismatch = fmt.Sprintf("run %s (file %d, state %s): %s (the same run alone reports %d matches)", r.Path, r.P.Target, r.P.State, r.P.err, len(want))
		} else if d := diffReports(r.P.reps, want); d != "" {
			mismatch = fmt.Sprintf("run %s (file %d, state %s): %s (= the same run alone)", r.Path, r.P.Target, r.P.State, d)
		}
	}
	return mismatch, nruns, nnested
}

// ---------------------------------------------------------------------------- disturber rules

// Each entry is one group; %s is the Deadcode suffix ("" | " && m.Deadcode()" | " && !m.Deadcode()"), the group name gets
// "_dead" / "_live" accordingly. Rules that reject always come first in their bucket so that every later rule of the
// bucket still sees the node. No group matches a plain probe(n) call with an accepting filter.
type disturber struct {
	Name  string
	Kind  string // do | contains | custom | reject | list
	Rule  string // the Match(...)... chain with %[1]s for the Where() tail and %[2]s for the group name
	Funcs string // helper functions (with %[2]s for the group name)
	Where bool   // has a Where() the Deadcode suffix can be added to
}

var disturbers = []disturber{
	// filters that run a nested search on the very node the Deadcode rules look at, and reject
	{"rj_contains", "reject", "m.Match(`probe($x)`).Where(m[\"$$\"].Contains(`nosuch($*_)`)%[1]s).Report(`%[2]s`)", "", true},
	{"rj_custom", "reject", "m.Match(`probe($x)`).Where(m[\"x\"].Filter(%[2]sf)%[1]s).Report(`%[2]s`)",
		"func %[2]sf(ctx *dsl.VarFilterContext) bool {\n\treturn ctx.Type.String() == `no such type`\n}\n", true},
	// Contains() with sub-patterns of a concrete node kind; the searched capture holds whole bodies
	{"ct_for", "contains", "m.Match(`for $*_ { $*body }`).Where(m[\"body\"].Contains(`probe($_)`)%[1]s).Report(`%[2]s`)", "", true},
	{"ct_range", "contains", "m.Match(`for range $_ { $*body }`).Where(m[\"body\"].Contains(`probe($_)`)%[1]s).Report(`%[2]s`)", "", true},
	{"ct_if", "contains", "m.Match(`if $*_ { $*body }`, `if $*_ { $*body } else { $*_ }`).Where(m[\"body\"].Contains(`probe($_)`)%[1]s).Report(`%[2]s`)", "", true},
	{"ct_ifelse", "contains", "m.Match(`if $*_ { $*_ } else { $*e }`).Where(m[\"e\"].Contains(`$_ == $_`)%[1]s).Report(`%[2]s`)", "", true},
	{"ct_lit", "contains", "m.Match(`func($*_) $*_ { $*body }`).Where(m[\"body\"].Contains(`return $*_`)%[1]s).Report(`%[2]s`)", "", true},
	{"ct_litprobe", "contains", "m.Match(`func($*_) $*_ { $*body }`).Where(m[\"body\"].Contains(`probe($_)`)%[1]s).Report(`%[2]s`)", "", true},
	{"ct_block", "contains", "m.Match(`{ $*body }`).Where(m[\"body\"].Contains(`probe($_)`)%[1]s).Report(`%[2]s`)", "", true},
	{"ct_switch", "contains", "m.Match(`switch { $*body }`).Where(m[\"body\"].Contains(`probe($_)`)%[1]s).Report(`%[2]s`)", "", true},
	{"ct_not", "contains", "m.Match(`for $*_ { $*body }`).Where(!m[\"body\"].Contains(`continue $_`)%[1]s).Report(`%[2]s`)", "", true},
	{"ct_whole", "contains", "m.Match(`go $_()`, `defer $_($*_)`).Where(m[\"$$\"].Contains(`probe($_)`)%[1]s).Report(`%[2]s`)", "", true},
	{"ct_stmts", "contains", "m.Match(`$x; $y`).Where(m[\"y\"].Contains(`probe($_)`) && m[\"x\"].Contains(`probe($_)`)%[1]s).Report(`%[2]s`)", "", true},
	// Do() handlers
	{"do_cmp", "do", "m.Match(`$x == $y`, `$x != $y`)%[1]s.Do(%[2]sf)", "func %[2]sf(ctx *dsl.DoContext) {\n\tctx.SetReport(`%[2]s ` + ctx.Var(`x`).Text())\n}\n", false},
	{"do_arith", "do", "m.Match(`$x + $y`, `$x * $y`, `$x > $y`)%[1]s.Do(%[2]sf)", "func %[2]sf(ctx *dsl.DoContext) {\n\tctx.SetSuggest(ctx.Var(`y`).Text())\n}\n", false},
	{"do_assign", "do", "m.Match(`_ = $x`)%[1]s.Do(%[2]sf)", "func %[2]sf(ctx *dsl.DoContext) {\n\tctx.SetReport(`%[2]s`)\n}\n", false},
	{"do_if", "do", "m.Match(`if $*_ { $*_ }`, `if $*_ { $*_ } else { $*_ }`)%[1]s.Do(%[2]sf)", "func %[2]sf(ctx *dsl.DoContext) {\n\tctx.SetReport(`%[2]s`)\n}\n", false},
	{"do_block", "do", "m.Match(`{ $*_ }`)%[1]s.Do(%[2]sf)", "func %[2]sf(ctx *dsl.DoContext) {\n\tctx.SetReport(`%[2]s`)\n}\n", false},
	{"do_loop", "do", "m.Match(`for $*_ { $*_ }`, `for range $_ { $*_ }`)%[1]s.Do(%[2]sf)", "func %[2]sf(ctx *dsl.DoContext) {\n\tctx.SetReport(`%[2]s`)\n}\n", false},
	{"do_lit", "do", "m.Match(`func($*_) $*_ { $*_ }`)%[1]s.Do(%[2]sf)", "func %[2]sf(ctx *dsl.DoContext) {\n\tctx.SetReport(`%[2]s`)\n}\n", false},
	{"do_ident", "do", "m.Match(`cn`, `ct`, `cf`)%[1]s.Do(%[2]sf)", "func %[2]sf(ctx *dsl.DoContext) {\n\tctx.SetReport(`%[2]s`)\n}\n", false},
	// custom bytecode filters (a helper call inside)
	{"cu_cmp", "custom", "m.Match(`$x == $y`, `$x > $y`).Where(m[\"x\"].Filter(%[2]sf)%[1]s).Report(`%[2]s`)",
		"func %[2]sh(ts string) bool {\n\treturn ts == `int`\n}\n\nfunc %[2]sf(ctx *dsl.VarFilterContext) bool {\n\treturn %[2]sh(ctx.Type.String())\n}\n", true},
	{"cu_len", "custom", "m.Match(`len($x)`).Where(m[\"x\"].Filter(%[2]sf)%[1]s).Report(`%[2]s`)",
		"func %[2]sf(ctx *dsl.VarFilterContext) bool {\n\treturn ctx.Type.String() != ``\n}\n", true},
	// LIST patterns (statement lists: tried at every position of a block, several rules report one block; expression lists) whose
	// Where() reads NO pattern variable: nothing but the walk decides the answer, and it decides it per rule. Every history loads
	// such a template under BOTH tails (a _dead and a _live group, either order), so two of them meet in every block
	{"ls_probes", "list", "m.Match(`probe($_); probe($_)`)%[1]s.Report(`%[2]s`)", "", false},
	{"ls_probe_any", "list", "m.Match(`probe($_); $_`)%[1]s.Report(`%[2]s`)", "", false},
	{"ls_any_probe", "list", "m.Match(`$_; probe($_)`)%[1]s.Report(`%[2]s`)", "", false},
	{"ls_file", "list", "m.Match(`$_; probe($_); $*_`).Where(m.File().PkgPath.Matches(`target`)%[1]s).Report(`%[2]s`)", "", true},
	{"ls_args", "list", "m.Match(`$_, $_`)%[1]s.Report(`%[2]s`)", "", false},
}

// typeDisturbers (deadcode mode, file typef.go of every load history but the first): rules whose Where() asks for the TYPE / constant
// value / purity of the very expressions the walker decides dead code by -- the condition of an `if` (with and without init / else),
// the operand of `!`, the operands of && and ||, loop conditions, the named constants themselves, conversions, parenthesised and compared expressions -- through the filters
// that go to go/types' records of the expression (Type.Is / Underlying().Is / ConvertibleTo / AssignableTo / Size, Const, Pure,
// Value.Int, Comparable, Addressable). They run on the IfStmt / its condition BEFORE the walker looks the condition's constant up.
var typeDisturbers = []disturber{
	{"ty_if", "type", "m.Match(`if $c { $*_ }`, `if $c { $*_ } else { $*_ }`, `if $_; $c { $*_ }`, `if $c { $*_ } else if $*_ { $*_ }`).Where(m[\"c\"].Type.Is(`bool`)%[1]s).Report(`%[2]s`)", "", true},
	{"ty_ifund", "type", "m.Match(`if $c { $*_ }`, `if $c { $*_ } else { $*_ }`, `if $c { $*_ } else if $*_ { $*_ }`, `if $_; $c { $*_ } else { $*_ }`).Where(m[\"c\"].Type.Underlying().Is(`bool`)%[1]s).Report(`%[2]s`)", "", true},
	{"ty_ifconst", "type", "m.Match(`if $c { $*_ }`, `if $c { $*_ } else { $*_ }`, `if $c { $*_ } else if $*_ { $*_ }`).Where((m[\"c\"].Const || m[\"c\"].Type.Size > 0)%[1]s).Report(`%[2]s`)", "", true},
	{"ty_ifpure", "type", "m.Match(`if $c { $*_ }`, `if $c { $*_ } else { $*_ }`, `if $c { $*_ } else if $*_ { $*_ }`).Where((m[\"c\"].Pure || m[\"c\"].Addressable || m[\"c\"].Comparable)%[1]s).Report(`%[2]s`)", "", true},
	{"ty_not", "type", "m.Match(`!$c`).Where(m[\"c\"].Type.Is(`bool`)%[1]s).Report(`%[2]s`)", "", true},
	{"ty_andor", "type", "m.Match(`$c && $d`, `$c || $d`).Where((m[\"c\"].Type.ConvertibleTo(`bool`) && m[\"d\"].Type.AssignableTo(`bool`))%[1]s).Report(`%[2]s`)", "", true},
	{"ty_for", "type", "m.Match(`for $c { $*_ }`, `for $_; $c; $_ { $*_ }`).Where(m[\"c\"].Type.Is(`bool`)%[1]s).Report(`%[2]s`)", "", true},
	{"ty_ident", "type", "m.Match(`af`, `at`, `a2f`, `a2t`, `av`, `cf`, `ct`, `tt`, `tf`).Where(m[\"$$\"].Type.Underlying().Is(`bool`)%[1]s).Report(`%[2]s`)", "", true},
	{"ty_conv", "type", "m.Match(`$f($c)`).Where((m[\"f\"].Type.Is(`bool`) || m[\"$$\"].Type.Is(`bool`))%[1]s).Report(`%[2]s`)", "", true},
	{"ty_paren", "type", "m.Match(`($c)`, `$c == $_`, `$c != $_`).Where(m[\"c\"].Type.Is(`bool`)%[1]s).Report(`%[2]s`)", "", true},
}

var typePool struct {
	once    sync.Once
	ok      []disturber
	dropped []string
}

// usableTypeDisturbers: the typeDisturbers that load (alone, with a Deadcode tail).
func usableTypeDisturbers() ([]disturber, []string) {
	typePool.once.Do(func() {
		for i, d := range typeDisturbers {
			_, g := renderDisturber(d, i, "dead")
			if _, err := loadRules("package gorules\n\nimport \"github.com/quasilyte/go-ruleguard/dsl\"\n\n" + g); err != nil {
				typePool.dropped = append(typePool.dropped, d.Name+": "+err.Error())
				continue
			}
			typePool.ok = append(typePool.ok, d)
		}
	})
	return typePool.ok, typePool.dropped
}

// genTypeFile: a rules file of n of the typeDisturbers that load (plain / _dead / _live), ty_if or ty_ifund always among them.
func genTypeFile(rng *rand.Rand, n int, serial int) (src string, kinds map[string]int, dropped []string) {
	kinds = map[string]int{}
	pool, dropped := usableTypeDisturbers()
	if len(pool) == 0 {
		return "", kinds, dropped
	}
	picked := []disturber{pool[rng.Intn(2)%len(pool)]}
	for len(picked) < n {
		picked = append(picked, pool[rng.Intn(len(pool))])
	}
	rng.Shuffle(len(picked), func(i, j int) { picked[i], picked[j] = picked[j], picked[i] })
	var sb strings.Builder
	sb.WriteString("package gorules\n\nimport \"github.com/quasilyte/go-ruleguard/dsl\"\n\n")
	for i, d := range picked {
		flag := []string{"", "dead", "live"}[rng.Intn(3)]
		_, g := renderDisturber(d, serial*100+80+i, flag)
		sb.WriteString(g + "\n")
		kinds["type"]++
		if flag != "" {
			kinds["type+deadcode"]++
		}
	}
	return sb.String(), kinds, dropped
}

// renderDisturber: one group. flag "" | "dead" | "live".
func renderDisturber(d disturber, idx int, flag string) (name, src string) {
	name = fmt.Sprintf("q%d_%s", idx, d.Name)
	tail := ""
	if flag != "" {
		name += "_" + flag
		f := "m.Deadcode()"
		if flag == "live" {
			f = "!m.Deadcode()"
		}
		if d.Where {
			tail = " && " + f
		} else {
			tail = ".Where(" + f + ")"
		}
	}
	src = "func " + name + "(m dsl.Matcher) {\n\t" + fmt.Sprintf(d.Rule, tail, name) + "\n}\n"
	if d.Funcs != "" {
		src += "\n" + fmt.Sprintf(d.Funcs, tail, name)
	}
	return name, src
}

// usableDisturbers keeps the entries that load (alone, with a Deadcode tail).
func usableDisturbers() (ok []disturber, dropped []string) {
	for i, d := range disturbers {
		_, src := renderDisturber(d, i, "dead")
		if _, err := loadRules("package gorules\n\nimport \"github.com/quasilyte/go-ruleguard/dsl\"\n\n" + src); err != nil {
			dropped = append(dropped, d.Name+": "+err.Error())
			continue
		}
		ok = append(ok, d)
	}
	return ok, dropped
}

// genDisturbFile: a rules file of n disturber groups (every kind at least once when n allows), each plain or with a
// Deadcode tail; rejecting groups first. kinds counts what went in.
func genDisturbFile(rng *rand.Rand, pool []disturber, n int, serial int) (src string, kinds map[string]int) {
	kinds = map[string]int{}
	byKind := map[string][]disturber{}
	for _, d := range pool {
		byKind[d.Kind] = append(byKind[d.Kind], d)
	}
	var picked []disturber
	for _, k := range []string{"reject", "contains", "do", "custom", "list"} {
		if l := byKind[k]; len(l) > 0 {
			picked = append(picked, l[rng.Intn(len(l))])
		}
	}
	for len(picked) < n && len(pool) > 0 {
		picked = append(picked, pool[rng.Intn(len(pool))])
	}
	// rejecting rules stay in front; the others are shuffled
	rest := picked[1:]
	if len(byKind["reject"]) == 0 {
		rest = picked
	}
	rng.Shuffle(len(rest), func(i, j int) { rest[i], rest[j] = rest[j], rest[i] })
	var sb strings.Builder
	sb.WriteString("package gorules\n\nimport \"github.com/quasilyte/go-ruleguard/dsl\"\n\n")
	for i, d := range picked {
		flag := []string{"", "", "dead", "live"}[rng.Intn(4)]
		if d.Kind == "list" {
			// both tails, either order (the group index keeps the names apart)
			flags := []string{"dead", "live"}
			if rng.Intn(2) == 0 {
				flags = []string{"live", "dead"}
			}
			for j, fl := range flags {
				_, g := renderDisturber(d, serial*100+50+2*i+j, fl)
				sb.WriteString(g + "\n")
			}
			kinds[d.Kind]++
			kinds[d.Kind+"+deadcode"] += 2
			continue
		}
		_, g := renderDisturber(d, serial*100+i, flag)
		sb.WriteString(g + "\n")
		kinds[d.Kind]++
		if flag != "" {
			kinds[d.Kind+"+deadcode"]++
		}
	}
	return sb.String(), kinds
}

// deadByRange: the dead-code flag of every tagged node by its source range; ranges whose nodes disagree are dropped
// (a node and a child of the same extent always lie in the same branch, so this does not happen).
//
// A LIST match (statements i..j of a block, expressions i..j of an argument list) has the extent first.Pos() .. last.End(), which
// need not be the extent of a node: it is judged by the flag of the node(s) starting where it starts (key {start, -1}; the
// elements of one list lie in one branch, and so do a node and the descendants that start where it starts).
func deadByRange(t *hutil.Target, order []*tnode, expDead map[int]bool) map[[2]int]bool {
	out := map[[2]int]bool{}
	bad := map[[2]int]bool{}
	for _, tn := range order {
		d, ok := expDead[tn.id]
		if !ok {
			continue
		}
		start := t.Fset.Position(tn.n.Pos()).Offset
		for _, k := range [][2]int{{start, t.Fset.Position(tn.n.End()).Offset}, {start, -1}} {
			if prev, dup := out[k]; dup && prev != d {
				bad[k] = true
			}
			out[k] = d
		}
	}
	for k := range bad {
		delete(out, k)
	}
	return out
}

// judgeByRange: the expected flag of a report's node, by extent; for a list match by where it starts.
func judgeByRange(byRange map[[2]int]bool, pos, end int) (dead, known bool) {
	if d, ok := byRange[[2]int{pos, end}]; ok {
		return d, true
	}
	d, ok := byRange[[2]int{pos, -1}]
	return d, ok
}

var _ ast.Node
