package main

// -mode history (C09), second part:
//   * engines that grow: Load; Run; Load (custom filters that call helpers of their own); Run ... with nil, shared and
//     pooled states -- each run vs. the same run on a fresh engine that loaded the same files before any run;
//   * the cold reference: the same (rule set, file) pairs in a child process that does everything in the opposite
//     order (rule sets, files, declarations) -- whatever a process keeps outside engines and states shows here;
//   * targets: equal-named types that disagree, files that exist only in memory.

import (
	"bufio"
	"crypto/sha1"
	"encoding/json"
	"fmt"
	"go/ast"
	"math/rand"
	"os"
	"os/exec"
	"path/filepath"
	"sort"
	"strings"
	"go/token"

	"verif/harness/internal/hutil"

	"github.com/quasilyte/go-ruleguard/ruleguard"
)

var (
	historyColdChild bool
	historySeed      int64
)

// sameNameTarget: package "target" (the same path for both variants) with types Rec / Pair / Arr that have the same
// names in both and disagree on pointers, size and comparability; every function declares a local type T of its own.
func sameNameTarget(v int) string {
	rec := []string{"struct{ a, b int }", "struct {\n\ta    int\n\tnext *Rec\n}"}[v]
	arr := []string{"[4]int", "[]int"}[v]
	t := func(i int) string {
		return [][]string{
			{"struct{ a, b int }", "struct{ p *int }", "struct{ s []int }", "[2]int", "struct{ f func() }", "struct{ a, b, c int64 }"},
			{"struct{ p *int }", "struct{ a, b int }", "[3]string", "struct{ s []int }", "struct{ a int8 }", "map[string]int"},
		}[v][i]
	}
	var sb strings.Builder
	fmt.Fprintf(&sb, "package target\n\ntype Rec %s\n\ntype Pair struct {\n\tx Rec\n\ty int\n}\n\ntype Arr %s\n\nfunc sinkp(v interface{}) {}\nfunc sinkq(v interface{}) {}\nfunc sinkr(v interface{}) {}\n\nfunc probe(n int) int { return n }\n\n", rec, arr)
	sb.WriteString("func named() {\n\tvar r Rec\n\tvar p Pair\n\tvar a Arr\n\tsinkp(r)\n\tsinkp(p)\n\tsinkp(a)\n\tsinkq(r)\n\tsinkq(p)\n\tsinkq(a)\n\tsinkr(r)\n\tsinkr(p)\n\tprobe(1)\n}\n\n")
	for i := 0; i < 6; i++ {
		fmt.Fprintf(&sb, "func local%d() {\n\ttype T %s\n\tvar v T\n\tsinkp(v)\n\tsinkq(v)\n\tsinkr(v)\n\tvar r Rec\n\tsinkp(r)\n\tif probe(%d) > 0 {\n\t\ttype T %s\n\t\tvar w T\n\t\tsinkp(w)\n\t\tsinkq(w)\n\t\tsinkr(w)\n\t}\n}\n\n", i, t(i), i+2, t((i+1)%6))
	}
	return sb.String()
}

// memSink: a short file that is never on disk; its nodes lie at offsets every on-disk file of the pool has too
const memSink = `package target

const ct = false

func probe(n int) int { return n }

func mem(x int, s []int) {
	probe(41)
	if ct {
		probe(42)
	}
	_ = (x + 1) * 2
	for i := 0; i < x; i++ {
		_ = s[i] == i
		probe(i)
	}
	_ = x == 5
	_ = x > 7
}
`

// ---------------------------------------------------------------------------- the cold reference

type coldObs struct {
	K       string    `json:"k"`
	Variant int       `json:"variant"`
	File    int       `json:"file"`
	Reports []hReport `json:"reports"`
	Err     string    `json:"err,omitempty"`
	Sig     string    `json:"sig"` // digest of the rule set and the file: both processes must talk about the same pair
}

func coldSig(rules string, src []byte) string {
	h := sha1.New()
	h.Write([]byte(rules))
	h.Write([]byte{0})
	h.Write(src)
	return fmt.Sprintf("%x", h.Sum(nil))
}

// runColdChild: rule sets in descending order, files in descending order, declarations in descending order (the comments
// first), each declaration alone on a fresh state; printed per (rule set, file) in source order of the declarations.
func runColdChild(enc *json.Encoder, variants []hVariant, engineFor func(int, string) (*ruleguard.Engine, error), pool []*hutil.Target) {
	for vi := len(variants) - 1; vi >= 0; vi-- {
		e, err := engineFor(vi, "locality")
		if err != nil {
			enc.Encode(coldObs{K: "coldref", Variant: vi, Err: "load: " + err.Error()})
			continue
		}
		for fi := len(pool) - 1; fi >= 0; fi-- {
			obs := coldObs{K: "coldref", Variant: vi, File: fi, Sig: coldSig(variants[vi].rules, pool[fi].Src)}
			decls := pool[fi].File.Decls
			per := make([][]hReport, len(decls)+1)
			if len(pool[fi].File.Comments) > 0 {
				r, _, emsg := runOnce(e, pool[fi], commentsFile(pool[fi].File), 0, nil, -1)
				if emsg != "" {
					obs.Err = "run over the comments alone: " + emsg
				}
				per[len(decls)] = r
			}
			for di := len(decls) - 1; di >= 0 && obs.Err == ""; di-- {
				r, _, emsg := runOnce(e, pool[fi], declFile(pool[fi].File, decls[di]), 0, nil, -1)
				if emsg != "" {
					obs.Err = fmt.Sprintf("run over declaration #%d alone: %s", di, emsg)
				}
				per[di] = r
			}
			for _, r := range per {
				obs.Reports = append(obs.Reports, r...)
			}
			enc.Encode(obs)
		}
	}
}

type coldProc struct {
	cmd *exec.Cmd
	out *bufio.Scanner
	err string
}

func startColdChild(nhist, size int, tmp string) *coldProc {
	cmd := exec.Command(os.Args[0], "-mode", "history", "-coldchild", "-gen", fmt.Sprint(nhist), "-size", fmt.Sprint(size),
		"-seed", fmt.Sprint(historySeed), "-tmp", filepath.Join(tmp, "cold"))
	cmd.Stderr = os.Stderr
	pipe, err := cmd.StdoutPipe()
	if err != nil {
		return &coldProc{err: err.Error()}
	}
	if err := cmd.Start(); err != nil {
		return &coldProc{err: err.Error()}
	}
	sc := bufio.NewScanner(pipe)
	sc.Buffer(make([]byte, 1<<20), 1<<28)
	return &coldProc{cmd: cmd, out: sc}
}

// finishColdChild compares the child's answers with this process' whole-file runs on a fresh engine and state.
func finishColdChild(enc *json.Encoder, cp *coldProc, variants []hVariant, srcs []string, ref func(vi, fi int) ([]hReport, bool)) {
	if cp.err != "" {
		enc.Encode(hObs{K: "cold", Err: "child process: " + cp.err})
		return
	}
	n, diverged := 0, 0
	for cp.out.Scan() {
		line := cp.out.Bytes()
		if len(line) == 0 || line[0] != '{' {
			continue
		}
		var o coldObs
		if json.Unmarshal(line, &o) != nil || o.K != "coldref" {
			continue
		}
		obs := hObs{K: "cold", Variant: o.Variant, Calls: []hCall{{File: o.File, State: "nil", PanicAt: -1}}, Kinds: map[string]int{}}
		want, ok := ref(o.Variant, o.File)
		if !ok || o.Variant >= len(variants) || o.File >= len(srcs) {
			continue
		}
		if o.Sig != coldSig(variants[o.Variant].rules, []byte(srcs[o.File])) {
			diverged++ // a sporadic `go list` failure dropped a generated group in one process only: not comparable
			continue
		}
		n++
		obs.Reports = len(want)
		for _, r := range want {
			obs.Kinds[variants[o.Variant].kind[r.Group]]++
		}
		if o.Err != "" {
			obs.Mismatch = "in the other process: " + o.Err
		} else if d := diffReports(want, o.Reports); d != "" {
			obs.Mismatch = "the run over the whole file in this process (rule sets, files, declarations in ascending order) gives " + d +
				" (= what a process gives that ran the rule sets, the files and the file's declarations -- each alone -- in descending order)"
		}
		if obs.Mismatch != "" {
			obs.Rules = variants[o.Variant].rules
			obs.Srcs = []string{srcs[o.File]}
		}
		enc.Encode(obs)
	}
	if err := cp.cmd.Wait(); err != nil || n == 0 {
		enc.Encode(hObs{K: "cold", Err: fmt.Sprintf("child process: %v, %d answers, %d not comparable", err, n, diverged)})
	}
}

// ---------------------------------------------------------------------------- engines that grow

// genGrowGroup: a custom filter that calls a helper of its own (which may call another one); no imports.
func genGrowGroup(rng *rand.Rand, idx int) string {
	name := fmt.Sprintf("hg%d", idx)
	typ := vfTypes[rng.Intn(len(vfTypes))]
	op := []string{"==", "!=", ">"}[rng.Intn(3)]
	var sb strings.Builder
	fmt.Fprintf(&sb, "func %s(m dsl.Matcher) {\n\tm.Match(`$x %s $y`).Where(m[\"x\"].Filter(%sf)).Report(`%s $x`)\n}\n\n", name, op, name, name)
	// helpers come before their callers (the bytecode compiler resolves calls to functions it has compiled already)
	if rng.Intn(2) == 0 {
		fmt.Fprintf(&sb, "func %sb(ts string) bool {\n\treturn ts == %q\n}\n\nfunc %sa(ts string, sz int) bool {\n\treturn %sb(ts) && sz == %d\n}\n\nfunc %sf(ctx *dsl.VarFilterContext) bool {\n\treturn %sa(ctx.Type.String(), ctx.SizeOf(ctx.Type))\n}\n",
			name, typ.Name, name, name, typ.Size, name, name)
	} else {
		fmt.Fprintf(&sb, "func %sa(ts string) bool {\n\treturn ts == %q\n}\n\nfunc %sf(ctx *dsl.VarFilterContext) bool {\n\tts := ctx.Type.String()\n\tif %sa(ts) {\n\t\treturn true\n\t}\n\treturn false\n}\n",
			name, typ.Name, name, name)
	}
	return sb.String()
}

type growCall struct {
	Loaded int    `json:"loaded"` // number of rules files loaded so far
	File   int    `json:"file"`
	State  string `json:"state"`
}

// runGrowHistories: one engine; Load(file 0); runs; Load(file 1); runs; ... Each run must report what a fresh engine
// that loaded the same files (before any run) reports with a fresh state.
func runGrowHistories(enc *json.Encoder, rng *rand.Rand, variants []hVariant, pool []*hutil.Target, srcs []string, n int) {
	for gi := 0; gi < n; gi++ {
		vi := gi % len(variants)
		var groups []string
		for _, g := range variants[vi].groups {
			if !strings.Contains(g, "fmt.Sprintf(") { // formatting filters import fmt from source: 0.4 s per engine
				groups = append(groups, g)
			}
		}
		k := 2 + rng.Intn(2)
		chunks := make([][]string, k)
		for _, g := range groups {
			j := rng.Intn(k)
			chunks[j] = append(chunks[j], g)
		}
		// custom filters with helpers arrive with the later files (and sometimes with the first one as well)
		for j := 0; j < k; j++ {
			if j > 0 || rng.Intn(2) == 0 {
				chunks[j] = append(chunks[j], genGrowGroup(rng, gi*10+j))
			}
		}
		files := map[string]string{}
		var order []string
		for j := 0; j < k; j++ {
			name := fmt.Sprintf("grow%d_%d.go", gi, j)
			files[name] = historyHeader(strings.Join(chunks[j], "\n"))
			order = append(order, name)
		}
		obs := hObs{K: "grow", History: gi, Variant: vi, Kinds: map[string]int{}}
		fail := func(msg string) {
			obs.Mismatch = msg
			var names []string
			for _, name := range order {
				names = append(names, "// ---- "+name+"\n"+files[name])
			}
			obs.Rules = strings.Join(names, "\n")
			obs.Srcs = srcs
		}
		refs := map[int]*ruleguard.Engine{}
		refEngine := func(j int) (*ruleguard.Engine, error) {
			if e, ok := refs[j]; ok {
				return e, nil
			}
			e, err := loadHistory(token.NewFileSet(), files, order[:j+1], nil)
			if err == nil {
				refs[j] = e
			}
			return e, err
		}
		e := ruleguard.NewEngine()
		lctx := &ruleguard.LoadContext{Fset: token.NewFileSet()}
		states := map[string]*ruleguard.RunnerState{"nil": nil}
		var calls []growCall
		for j := 0; j < k && obs.Mismatch == "" && obs.Err == ""; j++ {
			var lerr error
			for try := 0; try < 4; try++ {
				lerr = func() (err error) {
					defer func() {
						if r := recover(); r != nil {
							err = fmt.Errorf("load panics: %v", r)
						}
					}()
					return e.Load(lctx, order[j], strings.NewReader(files[order[j]]))
				}()
				if lerr == nil || !strings.Contains(lerr.Error(), importFlake) {
					break
				}
			}
			if lerr != nil {
				if _, rerr := refEngine(j); rerr != nil {
					obs.Err = "a generated rules file does not load: " + lerr.Error()
				} else {
					fail(fmt.Sprintf("Load #%d (%s) fails on the engine that has run already, not on a fresh one: %v", j, order[j], lerr))
				}
				break
			}
			if j == 0 {
				states["shared"], states["poolA"] = ruleguard.NewRunnerState(e), ruleguard.NewRunnerState(e)
			}
			nruns := 1 + rng.Intn(3)
			for ri := 0; ri < nruns && obs.Mismatch == ""; ri++ {
				call := growCall{Loaded: j + 1, File: rng.Intn(len(pool)), State: []string{"nil", "nil", "shared", "poolA"}[rng.Intn(4)]}
				calls = append(calls, call)
				re, err := refEngine(j)
				if err != nil {
					obs.Err = "reference engine: " + err.Error()
					break
				}
				want, _, wmsg := runOnce(re, pool[call.File], pool[call.File].File, 0, nil, -1)
				if wmsg != "" {
					fail(fmt.Sprintf("run %+v on a fresh engine that loaded the same files: %s", call, wmsg))
					break
				}
				got, _, emsg := runOnce(e, pool[call.File], pool[call.File].File, 0, states[call.State], -1)
				obs.Reports += len(got)
				for _, r := range got {
					if strings.HasPrefix(r.Group, "hg") {
						obs.Kinds[fmt.Sprintf("grow/helper-filter-loaded-after-%d-runs", minInt(len(calls)-1, 3))]++
					}
				}
				switch {
				case emsg != "":
					fail(fmt.Sprintf("run #%d %+v: %s (a fresh engine that loaded the same %d files reports %d matches)", len(calls)-1, call, emsg, j+1, len(want)))
				default:
					if d := diffReports(got, want); d != "" {
						fail(fmt.Sprintf("run #%d %+v: %s (= the same run on a fresh engine that loaded the same %d files before any run)", len(calls)-1, call, d, j+1))
					}
				}
			}
		}
		for _, c := range calls {
			obs.Calls = append(obs.Calls, hCall{File: c.File, State: fmt.Sprintf("%s/after-load-%d", c.State, c.Loaded), PanicAt: -1})
		}
		enc.Encode(obs)
	}
}

func minInt(a, b int) int {
	if a < b {
		return a
	}
	return b
}

var _ = sort.Strings
var _ ast.Node
