package main

// -mode rules (C01): random rule sets through Engine.Run vs. the independent oracle
// "ast.Inspect x separately compiled gogrep pattern MatchNode; rules in load order; first accepting rule wins,
// multi-match tags report all".

import (
	"encoding/json"
	"fmt"
	"go/ast"
	"go/token"
	"math/rand"
	"os"
	"path/filepath"
	"regexp"
	"sort"
	"strings"
	"time"

	"verif/harness/internal/hutil"

	"github.com/quasilyte/go-ruleguard/ruleguard"
	"github.com/quasilyte/gogrep"
	"github.com/quasilyte/gogrep/nodetag"
)

// catalogue of pattern sources; X marks patterns whose $x is an expression capture (usable with m["x"].Const)
var patCatalogue = []struct {
	Src string
	X   bool
}{
	{"[$n]$t", false}, {"[]$t", false}, {"$x = $y", true}, {"$x := $y", true}, {"$a, $b = $c, $d", false},
	{"42", false}, {`"a"`, false}, {"1", false}, {"$x + $y", true}, {"$x * $y", true}, {"$x && $y", true}, {"$x > $y", true},
	{"{ $*_ }", false}, {"{ $s }", false}, {"break", false}, {"continue $l", false}, {"goto $l", false},
	{"probe($x)", true}, {"$f($*args)", false}, {"$f($x)", true}, {"fmt.Println($*_)", false},
	{"case $*_: $*_", false}, {"chan $t", false}, {"chan<- $t", false}, {"$t{$*_}", false}, {"[]int{$*_}", false},
	{"defer $f($*_)", false}, {"go $f($*_)", false}, {"for $*_ { $*_ }", false}, {"for $i := 0; $i < $x; $i++ { $*_ }", true},
	{"func $f($*_) $*_ { $*_ }", false}, {"func($*_) $*_ { $*_ }", false}, {"func($*_) $*_", false},
	{"var $x = $y", false}, {"var $x $t", false}, {"const $x = $y", false}, {"type $x $y", false},
	{"foo", false}, {"x", false}, {"ct", false}, {"if $c { $*_ }", false}, {"if $c { $*_ } else { $*_ }", false}, {"if $*_; $c { $*_ }", false},
	{"$x++", true}, {"$x--", true}, {"$x[$i]", true}, {"$x[$a, $b]", false}, {"interface{ $*_ }", false},
	{"$k: $v", false}, {"$l: $s", false}, {"map[$k]$v", false}, {"($x)", true},
	{"for $k, $v := range $x { $*_ }", true}, {"for range $x { $*_ }", true}, {"return $*_", false}, {"return $x", true},
	{"select { $*_ }", false}, {"$x.$y", false}, {"$c <- $v", false}, {"$x[$a:$b]", true}, {"$x[:]", true}, {"*$x", true},
	{"struct{ $*_ }", false}, {"switch $x { $*_ }", true}, {"switch { $*_ }", false}, {"$x.($t)", true},
	{"switch $x.(type) { $*_ }", false}, {"switch $y := $x.(type) { $*_ }", false}, {"-$x", true}, {"!$x", true}, {"&$x", true}, {"<-$x", true},
	{"$x; $y", false}, {"$a = $b; $c = $d", false}, {"probe($a); probe($b)", false}, {"_ = $x; $*_", true},
	{"$x, $y", true}, {"$y, $x", true}, {"$a, $b, $c", false}, {"1, $x", true},
	{"func $f() {}; func $g() {}", false}, {"var $a $t; var $b $t", false},
	{"import $_", false}, {"$x...", false}, {"...$t", false}, {";", false},
}

type patInfo struct {
	Src string
	X   bool
	Tag int
	pat *gogrep.Pattern
}

func compilePat(src string) (*gogrep.Pattern, error) {
	p, _, err := gogrep.Compile(gogrep.CompileConfig{Fset: token.NewFileSet(), Src: src, Strict: false, WithTypes: true})
	return p, err
}

// usablePatterns keeps the catalogue entries that gogrep compiles and the engine loads on their own.
func usablePatterns() (ok []patInfo, skipped []string) {
	for _, c := range patCatalogue {
		p, err := compilePat(c.Src)
		if err != nil {
			skipped = append(skipped, c.Src+": "+err.Error())
			continue
		}
		rules := "package gorules\n\nimport \"github.com/quasilyte/go-ruleguard/dsl\"\n\nfunc one(m dsl.Matcher) {\n\tm.Match(`" + c.Src + "`).Report(`one`)\n}\n"
		msg := func() (msg string) {
			defer func() {
				if r := recover(); r != nil {
					msg = fmt.Sprint("load panics: ", r)
				}
			}()
			if _, err := hutil.LoadEngine(token.NewFileSet(), map[string]string{"r.go": rules}, []string{"r.go"}); err != nil {
				return err.Error()
			}
			return ""
		}()
		if msg != "" {
			skipped = append(skipped, c.Src+": "+msg)
			continue
		}
		ok = append(ok, patInfo{Src: c.Src, X: c.X, Tag: int(p.NodeTag()), pat: p})
	}
	return ok, skipped
}

type ruleDesc struct {
	Idx     int    `json:"idx"`
	Group   string `json:"group"`
	Line    int    `json:"line"`
	File    string `json:"file"`
	Src     string `json:"src"`
	Tag     int    `json:"tag"`
	Filter  string `json:"filter"`
	Comment bool   `json:"comment,omitempty"` // a MatchComment rule: Src is a regexp
	Load    int    `json:"load"`              // index of the Load call that brought the rule in
	Part    int    `json:"part"`              // 0: the loaded file itself; k > 0: the k-th imported bundle file
	pat     *gogrep.Pattern
	re      *regexp.Regexp
}

// comment patterns (plain regexps without groups; comment rules proper are C12's subject)
var commentCatalogue = []string{"doc", `line \w+`, "values?", "[Ff]ield", "Package", "TODO", `^// \w+ doc\.$`, "comment"}

// ---- rule bundles on disk (harness/fake/wbN): read back with a line scanner, so that the oracle knows their rules

type bundleFile struct {
	Name  string
	Rules []ruleDesc // Group without prefix, Line, Src, Comment
}

var bundleRuleRe = regexp.MustCompile("^\\tm\\.(Match|MatchComment)\\(`([^`]*)`\\)\\.Report\\(`[^`]*`\\)$")
var bundleFuncRe = regexp.MustCompile(`^func (\w+)\(m dsl\.Matcher\) \{$`)

// readBundle scans harness/fake/<pkg>/*.go (in `go list` order: by name). Every line inside a matcher function must be a
// one-line rule, anything else is an error (the description must not silently miss a rule).
func readBundle(pkg string) ([]bundleFile, error) {
	names, err := filepath.Glob(filepath.Join("fake", pkg, "*.go"))
	if err != nil || len(names) == 0 {
		return nil, fmt.Errorf("bundle %s: no files (cwd must be the harness module): %v", pkg, err)
	}
	sort.Strings(names)
	var out []bundleFile
	for _, name := range names {
		b, err := os.ReadFile(name)
		if err != nil {
			return nil, err
		}
		bf := bundleFile{Name: name}
		group := ""
		for i, line := range strings.Split(string(b), "\n") {
			if m := bundleFuncRe.FindStringSubmatch(line); m != nil {
				group = m[1]
				continue
			}
			if group == "" {
				if strings.HasPrefix(line, "func ") {
					return nil, fmt.Errorf("%s:%d: function not understood", name, i+1)
				}
				continue
			}
			if line == "}" {
				group = ""
				continue
			}
			m := bundleRuleRe.FindStringSubmatch(line)
			if m == nil {
				return nil, fmt.Errorf("%s:%d: rule line not understood: %s", name, i+1, line)
			}
			bf.Rules = append(bf.Rules, ruleDesc{Group: group, Line: i + 1, File: name, Src: m[2], Comment: m[1] == "MatchComment"})
		}
		out = append(out, bf)
	}
	return out, nil
}

var bundlePkgs = []string{"wb1", "wb2", "wb3", "wb4"}

// groupEnabled is the GroupFilter of every Load of this mode: groups named *_off are skipped.
func groupEnabled(name string) bool { return !strings.HasSuffix(name, "_off") }

// loadHistory loads the files in order into one engine, each with the group filter.
// via[i] == "ir": the file is converted to IR first (hook VerifConvertAST) and installed with Engine.LoadFromIR.
func loadHistory(fset *token.FileSet, files map[string]string, order []string, via []string) (e *ruleguard.Engine, err error) {
	for try := 0; try < 4; try++ {
		e, err = func() (e2 *ruleguard.Engine, err2 error) {
			defer func() {
				if r := recover(); r != nil {
					err2 = fmt.Errorf("load panics: %v", r)
				}
			}()
			e2 = ruleguard.NewEngine()
			ctx := &ruleguard.LoadContext{Fset: fset, GroupFilter: func(g *ruleguard.GoRuleGroup) bool { return groupEnabled(g.Name) }}
			for i, name := range order {
				if i < len(via) && via[i] == "ir" {
					irf, err := ruleguard.VerifConvertAST(e2, ctx, name, []byte(files[name]))
					if err != nil {
						return nil, err
					}
					if err := e2.LoadFromIR(ctx, name, irf); err != nil {
						return nil, err
					}
					continue
				}
				if err := e2.Load(ctx, name, strings.NewReader(files[name])); err != nil {
					return nil, err
				}
			}
			return e2, nil
		}()
		if err == nil || !strings.Contains(err.Error(), importFlake) {
			break
		}
		time.Sleep(200 * time.Millisecond)
	}
	return e, err
}

var filterSrc = map[string]string{"": "", "dead": "m.Deadcode()", "live": "!m.Deadcode()", "const": `m["x"].Const`}

// genRuleSet renders an abstract rule description both to DSL source files and to the oracle's rule list (load order).
func genRuleSet(rng *rand.Rand, pats []patInfo, bundles map[string][]bundleFile, setIdx int) (files map[string]string, order []string, rules []ruleDesc, parts []int) {
	files = map[string]string{}
	var xs []patInfo
	for _, p := range pats {
		if p.X {
			xs = append(xs, p)
		}
	}
	// targeted sets first: shapes that expose a known class of dispatch defects
	//  0: two expression-list rules, the first accepts an early sub-match and rejects the last one
	//  1: the same with statement lists in a multi-match bucket and a single-node rule in between
	targeted := [][][3]string{
		{{"$y, $x", "const", "a"}, {"$y, $x", "", "b"}, {"$f($*args)", "", "c"}},
		{{"_ = $x; $*_", "const", "a"}, {"$x; $y", "", "b"}, {"{ $*_ }", "live", "c"}, {"{ $*_ }", "", "d"}},
	}
	if setIdx < len(targeted) {
		var sb strings.Builder
		name := fmt.Sprintf("rules%d_t.go", setIdx)
		sb.WriteString("package gorules\n\nimport \"github.com/quasilyte/go-ruleguard/dsl\"\n\n")
		line := 5
		for _, tr := range targeted[setIdx] {
			var pi *patInfo
			for i := range pats {
				if pats[i].Src == tr[0] {
					pi = &pats[i]
				}
			}
			if pi == nil {
				continue
			}
			group := fmt.Sprintf("t%d_%s", setIdx, tr[2])
			where := ""
			if tr[1] != "" {
				where = ".Where(" + filterSrc[tr[1]] + ")"
			}
			sb.WriteString("func " + group + "(m dsl.Matcher) {\n\tm.Match(`" + tr[0] + "`)" + where + ".Report(`" + group + "`)\n}\n\n")
			rules = append(rules, ruleDesc{Idx: len(rules), Group: group, Line: line + 1, File: name, Src: pi.Src, Tag: pi.Tag, Filter: tr[1], pat: pi.pat})
			line += 4
		}
		files[name] = sb.String()
		return files, []string{name}, rules, []int{0}
	}
	// a load history: 1-4 Load calls; each file is one of
	//   syntax    groups of Match rules
	//   comment   groups of MatchComment rules only (contributes no syntax rule)
	//   mixed     both
	//   filtered  Match groups that the GroupFilter rejects by name (the file contributes nothing)
	//   bundle    a file that imports a rule bundle from disk (its own groups first, then the bundle's files in
	//             `go list` order; some bundles end with a file without syntax rules or have none at all)
	// the last Load is more often than not one that contributes no syntax rule.
	nfiles := 1 + rng.Intn(4)
	kindsAll := []string{"syntax", "syntax", "syntax", "mixed", "comment", "filtered", "bundle", "bundle"}
	kindsLean := []string{"comment", "filtered", "bundle"}
	for fi := 0; fi < nfiles; fi++ {
		name := fmt.Sprintf("rules%d_%d.go", setIdx, fi)
		kind := kindsAll[rng.Intn(len(kindsAll))]
		if fi == nfiles-1 && nfiles > 1 && rng.Intn(2) == 0 {
			kind = kindsLean[rng.Intn(len(kindsLean))]
		}
		var sb strings.Builder
		line := 1
		w := func(s string) { sb.WriteString(s); line += strings.Count(s, "\n") }
		w("package gorules\n\nimport \"github.com/quasilyte/go-ruleguard/dsl\"\n")
		var imported []bundleFile
		prefix := ""
		if kind == "bundle" {
			pkg := bundlePkgs[rng.Intn(len(bundlePkgs))]
			if fi == nfiles-1 && rng.Intn(2) == 0 {
				pkg = []string{"wb1", "wb4"}[rng.Intn(2)] // the bundles that end without syntax rules
			}
			prefix = fmt.Sprintf("b%d", fi)
			imported = bundles[pkg]
			w("import \"example.com/" + pkg + "\"\n\nfunc init() {\n\tdsl.ImportRules(\"" + prefix + "\", " + pkg + ".Bundle)\n}\n")
		}
		w("\n")
		ngroups := 1 + rng.Intn(5)
		if kind == "bundle" {
			ngroups = rng.Intn(3) // the importing file may have no groups of its own
		}
		for gi := 0; gi < ngroups; gi++ {
			group := fmt.Sprintf("g%d_%d_%d", setIdx, fi, gi)
			gkind := kind
			switch kind {
			case "mixed", "bundle":
				gkind = []string{"syntax", "comment", "syntax+comment"}[rng.Intn(3)]
			case "syntax":
				if rng.Intn(8) == 0 {
					gkind = "filtered" // a disabled group among enabled ones
				}
			}
			if gkind == "filtered" {
				group += "_off"
			}
			w("func " + group + "(m dsl.Matcher) {\n")
			nmatch := 1
			if rng.Intn(4) == 0 {
				nmatch = 2
			}
			for mi := 0; mi < nmatch; mi++ {
				if gkind == "comment" || (gkind == "syntax+comment" && mi == nmatch-1) {
					cp := commentCatalogue[rng.Intn(len(commentCatalogue))]
					rules = append(rules, ruleDesc{Idx: len(rules), Group: group, Line: line, File: name, Src: cp, Comment: true, Load: fi, re: regexp.MustCompile(cp)})
					w("\tm.MatchComment(`" + cp + "`).Report(`" + group + "`)\n")
					continue
				}
				filt := []string{"", "", "", "dead", "live", "const"}[rng.Intn(6)]
				pool := pats
				if filt == "const" {
					pool = xs
				}
				// a popular pattern now and then, so that rules compete for the same nodes
				w("\tm.Match(\n")
				nalt := 1 + rng.Intn(3)
				for ai := 0; ai < nalt; ai++ {
					p := pool[rng.Intn(len(pool))]
					if rng.Intn(3) == 0 {
						fav := []string{"probe($x)", "$f($*args)", "$x, $y", "$x; $y", "{ $*_ }", "x", "$x + $y", "1, $x", "probe($a); probe($b)"}[rng.Intn(9)]
						for _, q := range pool {
							if q.Src == fav {
								p = q
							}
						}
					}
					if gkind != "filtered" {
						rules = append(rules, ruleDesc{Idx: len(rules), Group: group, Line: line, File: name, Src: p.Src, Tag: p.Tag, Filter: filt, Load: fi, pat: p.pat})
					}
					w("\t\t`" + p.Src + "`,\n")
				}
				w("\t)")
				if filt != "" {
					w(".Where(" + filterSrc[filt] + ")")
				}
				w(".Report(`" + group + "`)\n")
			}
			w("}\n\n")
		}
		for bi, bf := range imported {
			for _, r := range bf.Rules {
				if !groupEnabled(r.Group) {
					continue
				}
				r.Idx, r.Group, r.Load, r.Part = len(rules), prefix+"/"+r.Group, fi, bi+1
				if r.Comment {
					r.re = regexp.MustCompile(r.Src)
				} else {
					found := false
					for _, q := range pats {
						if q.Src == r.Src {
							r.Tag, r.pat, found = q.Tag, q.pat, true
						}
					}
					if !found {
						if p, err := compilePat(r.Src); err == nil {
							r.Tag, r.pat = int(p.NodeTag()), p
						}
					}
				}
				rules = append(rules, r)
			}
		}
		files[name] = sb.String()
		order = append(order, name)
		parts = append(parts, len(imported))
	}
	return files, order, rules, parts
}

type rep struct {
	Rule int `json:"r"`
	Pos  int `json:"p"`
	End  int `json:"e"`
}

type mEntry struct {
	Node int     `json:"n"`
	Rule int     `json:"r"`
	CBs  [][3]int `json:"c"` // pos, end, verdict
}

type rsObs struct {
	K        string            `json:"k"`
	Set      int               `json:"set"`
	Target   string            `json:"target"`
	Nodes    int               `json:"nodes"`
	Rules    []ruleDesc        `json:"rules"`
	Engine   []rep             `json:"engine"`
	Oracle   []rep             `json:"oracle"`
	Mismatch string            `json:"mismatch,omitempty"`
	M        []mEntry          `json:"m,omitempty"`
	Tree     string            `json:"tree,omitempty"`
	Files    map[string]string `json:"files,omitempty"`
	Order    []string          `json:"order,omitempty"`
	Src      string            `json:"src,omitempty"`
	Err      string            `json:"err,omitempty"`
	Skipped  []string          `json:"skipped,omitempty"`
	Loads    []string          `json:"loads,omitempty"`  // per Load call: "+s0c" = contributed syntax rules, no comment rules
	Parts    []int             `json:"parts,omitempty"`  // per Load call: number of imported bundle files
	Via      []string          `json:"via,omitempty"`    // per Load call: Engine.Load of the source / Engine.LoadFromIR of its IR
	LastLean bool              `json:"last_lean"`        // the last Load contributed no syntax rule, earlier ones did
	Pairs    []string          `json:"pairs,omitempty"` // (node tag, pattern tag) pairs that produced an accepted match
	Contested int              `json:"contested"`        // nodes on which more than one rule had an accepted match
}

var multiTagsOracle = map[nodetag.Value]bool{nodetag.BlockStmt: true, nodetag.CaseClause: true, nodetag.CommClause: true, nodetag.File: true}

func runRulesMode(enc *json.Encoder, rng *rand.Rand, nsets, size int, tmp string, withModel bool, extra []string) {
	pats, skipped := usablePatterns()
	enc.Encode(rsObs{K: "catalogue", Nodes: len(pats), Skipped: skipped})
	if len(pats) < 20 {
		return
	}
	// targets: the kitchen sink and generated nestings
	type tgt struct {
		name string
		t    *hutil.Target
	}
	var targets []tgt
	mk := func(name, src string) {
		t, err := hutil.CheckTarget(tmp, name, []byte(src))
		if err != nil {
			enc.Encode(rsObs{K: "rs", Target: name, Err: "target: " + err.Error(), Src: src})
			return
		}
		targets = append(targets, tgt{name, t})
	}
	mk("sink/target.go", kitchenSinkTyped)
	for i := 0; i < 3; i++ {
		mk(fmt.Sprintf("rt%d/target.go", i), genFile(rng, i, size))
	}
	for i, p := range extra {
		if b, err := os.ReadFile(p); err == nil {
			if t, err := hutil.CheckTarget(tmp, fmt.Sprintf("x%d/%s", i, filepath.Base(p)), b); err == nil {
				targets = append(targets, tgt{p, t})
			}
		}
	}
	if len(targets) == 0 {
		return
	}
	bundles := map[string][]bundleFile{}
	for _, pkg := range bundlePkgs {
		bfs, err := readBundle(pkg)
		if err != nil {
			enc.Encode(rsObs{K: "rs", Err: "target: bundle description: " + err.Error()})
			return
		}
		bundles[pkg] = bfs
	}
	for si := 0; si < nsets; si++ {
		files, order, rules, parts := genRuleSet(rng, pats, bundles, si)
		fset := token.NewFileSet()
		var loadErr string
		via := make([]string, len(order))
		for i := range via {
			via[i] = []string{"source", "source", "ir"}[rng.Intn(3)]
		}
		e, err := loadHistory(fset, files, order, via)
		if err != nil {
			loadErr = err.Error()
		}
		tg := targets[si%len(targets)]
		obs := rsObs{K: "rs", Set: si, Target: tg.name, Rules: rules, Parts: parts, Via: via}
		// the shape of the load history: per Load call, how many syntax / comment rules it contributed
		{
			ns, nc := make([]int, len(order)), make([]int, len(order))
			for _, r := range rules {
				if r.Comment {
					nc[r.Load]++
				} else {
					ns[r.Load]++
				}
			}
			earlier := 0
			for i := range order {
				cls := func(n int) string {
					if n == 0 {
						return "0"
					}
					return "+"
				}
				obs.Loads = append(obs.Loads, cls(ns[i])+"s"+cls(nc[i])+"c")
				if i < len(order)-1 {
					earlier += ns[i]
				}
			}
			obs.LastLean = len(order) > 1 && ns[len(order)-1] == 0 && earlier > 0
		}
		if loadErr != "" {
			obs.Err = "load: " + loadErr
			obs.Files, obs.Order = files, order
			enc.Encode(obs)
			continue
		}
		t := tg.t
		byKey := map[string]int{}
		for _, r := range rules {
			byKey[fmt.Sprintf("%s:%d", r.Group, r.Line)] = r.Idx
		}
		reps, pmsg := hutil.Run(e, t, 0, "", nil)
		if pmsg != "" {
			obs.Mismatch = "run failed: " + pmsg
		}
		for _, r := range reps {
			idx, ok := byKey[fmt.Sprintf("%s:%d", r.Group, r.Line)]
			if !ok {
				idx = -1
			}
			obs.Engine = append(obs.Engine, rep{idx, r.Pos, r.End})
		}
		// the oracle
		top, _, order2 := buildTree(t.File)
		obs.Nodes = len(order2)
		exp := expected(t.Info, order2, event{Func: -1})
		dead := map[int]bool{}
		for _, ev := range exp {
			dead[ev.ID] = ev.Dead
		}
		state := gogrep.NewMatcherState()
		state.Types = t.Info
		pairs := map[string]bool{}
		for _, tn := range order2 {
			tag := nodetag.FromNode(tn.n)
			if tag == nodetag.Unknown {
				continue
			}
			winners := 0
			stop := false
			for _, r := range rules {
				if r.Comment || r.pat == nil {
					continue
				}
				var cbs [][3]int
				r.pat.MatchNode(&state, tn.n, func(m gogrep.MatchData) {
					v := true
					switch r.Filter {
					case "dead":
						v = dead[tn.id]
					case "live":
						v = !dead[tn.id]
					case "const":
						v = false
						if x, ok := m.CapturedByName("x"); ok {
							var ex ast.Expr
							switch x := x.(type) {
							case ast.Expr:
								ex = x
							case *ast.ExprStmt:
								ex = x.X
							}
							if ex != nil {
								if tv, ok := t.Info.Types[ex]; ok && tv.Value != nil {
									v = true
								}
							}
						}
					}
					vi := 0
					if v {
						vi = 1
					}
					cbs = append(cbs, [3]int{t.Fset.Position(m.Node.Pos()).Offset, t.Fset.Position(m.Node.End()).Offset, vi})
				})
				if len(cbs) == 0 {
					continue
				}
				obs.M = append(obs.M, mEntry{tn.id, r.Idx, cbs})
				acc := false
				for _, c := range cbs {
					if c[2] == 1 {
						acc = true
						if !stop {
							obs.Oracle = append(obs.Oracle, rep{r.Idx, c[0], c[1]})
						}
					}
				}
				if acc {
					winners++
					pairs[fmt.Sprintf("%d/%d", int(tag), r.Tag)] = true
					if !multiTagsOracle[tag] {
						stop = true
					}
				}
			}
			if winners > 1 {
				obs.Contested++
			}
		}
		// comment rules run after the walk: every comment in order, the first rule whose regexp matches reports the match
		for _, cg := range t.File.Comments {
			for _, cm := range cg.List {
				for _, r := range rules {
					if !r.Comment {
						continue
					}
					loc := r.re.FindStringIndex(cm.Text)
					if loc == nil {
						continue
					}
					off := t.Fset.Position(cm.Pos()).Offset
					obs.Oracle = append(obs.Oracle, rep{r.Idx, off + loc[0], off + loc[1]})
					pairs["comment"] = true
					break
				}
			}
		}
		for p := range pairs {
			obs.Pairs = append(obs.Pairs, p)
		}
		sort.Strings(obs.Pairs)
		for i := 0; (i < len(obs.Engine) || i < len(obs.Oracle)) && obs.Mismatch == ""; i++ {
			desc := func(r rep) string {
				if r.Rule < 0 || r.Rule >= len(rules) {
					return fmt.Sprintf("unknown rule at %d-%d", r.Pos, r.End)
				}
				txt := ""
				if r.Pos >= 0 && r.End <= len(t.Src) && r.Pos <= r.End {
					txt = string(t.Src[r.Pos:r.End])
					if len(txt) > 60 {
						txt = txt[:60] + "..."
					}
				}
				return fmt.Sprintf("rule #%d %s:%d `%s` [%s] on %q (%d-%d)", r.Rule, rules[r.Rule].Group, rules[r.Rule].Line, rules[r.Rule].Src, rules[r.Rule].Filter, txt, r.Pos, r.End)
			}
			switch {
			case i >= len(obs.Engine):
				obs.Mismatch = fmt.Sprintf("report #%d missing: expected %s", i, desc(obs.Oracle[i]))
			case i >= len(obs.Oracle):
				obs.Mismatch = fmt.Sprintf("report #%d not expected: %s", i, desc(obs.Engine[i]))
			case obs.Engine[i] != obs.Oracle[i]:
				obs.Mismatch = fmt.Sprintf("report #%d: expected %s, engine reported %s", i, desc(obs.Oracle[i]), desc(obs.Engine[i]))
			}
		}
		if obs.Mismatch != "" {
			obs.Files, obs.Order, obs.Src = files, order, string(t.Src)
		}
		if withModel && obs.Nodes <= 1300 {
			var sb strings.Builder
			top.coq(t.Info, &sb)
			obs.Tree = sb.String()
		} else {
			obs.M = nil
		}
		enc.Encode(obs)
	}
}
