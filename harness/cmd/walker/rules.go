package main

// -mode rules (C01): random rule sets through Engine.Run vs. the independent oracle
// "ast.Inspect x separately compiled gogrep pattern MatchNode; rules in load order; first accepting rule wins,
// multi-match tags report all".

import (
	"encoding/json"
	"fmt"
	"go/ast"
	"go/token"
	"go/types"
	"math/rand"
	"os"
	"path/filepath"
	"regexp"
	"sort"
	"strings"
	"sync"
	"time"

	"verif/harness/internal/hutil"

	"github.com/quasilyte/go-ruleguard/ruleguard"
	"github.com/quasilyte/gogrep"
	"github.com/quasilyte/gogrep/nodetag"
)

// catalogue of pattern sources; X marks patterns whose $x is an expression capture (usable with m["x"].Const)
var patCatalogue = []struct {
	Src string
	X   bool
}{
	{"[$n]$t", false}, {"[]$t", false}, {"$x = $y", true}, {"$x := $y", true}, {"$a, $b = $c, $d", false},
	{"42", false}, {`"a"`, false}, {"1", false}, {"$x + $y", true}, {"$x * $y", true}, {"$x && $y", true}, {"$x > $y", true},
	{"{ $*_ }", false}, {"{ $s }", false}, {"break", false}, {"continue $l", false}, {"goto $l", false},
	{"probe($x)", true}, {"$f($*args)", false}, {"$f($x)", true}, {"fmt.Println($*_)", false},
	{"case $*_: $*_", false}, {"chan $t", false}, {"chan<- $t", false}, {"$t{$*_}", false}, {"[]int{$*_}", false},
	{"defer $f($*_)", false}, {"go $f($*_)", false}, {"for $*_ { $*_ }", false}, {"for $i := 0; $i < $x; $i++ { $*_ }", true},
	{"func $f($*_) $*_ { $*_ }", false}, {"func($*_) $*_ { $*_ }", false}, {"func($*_) $*_", false},
	{"var $x = $y", false}, {"var $x $t", false}, {"const $x = $y", false}, {"type $x $y", false},
	{"foo", false}, {"x", false}, {"ct", false}, {"if $c { $*_ }", false}, {"if $c { $*_ } else { $*_ }", false}, {"if $*_; $c { $*_ }", false},
	{"$x++", true}, {"$x--", true}, {"$x[$i]", true}, {"$x[$a, $b]", false}, {"interface{ $*_ }", false},
	{"$k: $v", false}, {"$l: $s", false}, {"map[$k]$v", false}, {"($x)", true},
	{"for $k, $v := range $x { $*_ }", true}, {"for range $x { $*_ }", true}, {"return $*_", false}, {"return $x", true},
	{"select { $*_ }", false}, {"$x.$y", false}, {"$c <- $v", false}, {"$x[$a:$b]", true}, {"$x[:]", true}, {"*$x", true},
	{"struct{ $*_ }", false}, {"switch $x { $*_ }", true}, {"switch { $*_ }", false}, {"$x.($t)", true},
	{"switch $x.(type) { $*_ }", false}, {"switch $y := $x.(type) { $*_ }", false}, {"-$x", true}, {"!$x", true}, {"&$x", true}, {"<-$x", true},
	{"$x; $y", false}, {"$a = $b; $c = $d", false}, {"probe($a); probe($b)", false}, {"_ = $x; $*_", true},
	{"$x, $y", true}, {"$y, $x", true}, {"$a, $b, $c", false}, {"1, $x", true},
	{"func $f() {}; func $g() {}", false}, {"var $a $t; var $b $t", false},
	{"import $_", false}, {"$x...", false}, {"...$t", false}, {";", false},
	// identifiers and string literals that also occur INSIDE import declarations (import name, import path)
	{`"fmt"`, false}, {`"strings"`, false}, {"str", false}, {`"unsafe"`, false}, {"fmt", false},
}

type patInfo struct {
	Src string
	X   bool
	Tag int
	pat *gogrep.Pattern
}

func compilePat(src string) (*gogrep.Pattern, error) {
	p, _, err := gogrep.Compile(gogrep.CompileConfig{Fset: token.NewFileSet(), Src: src, Strict: false, WithTypes: true})
	return p, err
}

// usablePatterns keeps the catalogue entries that gogrep compiles and the engine loads on their own.
func usablePatterns() (ok []patInfo, skipped []string) {
	all := append(append([]struct {
		Src string
		X   bool
	}{}, patCatalogue...), pkgPatCatalogue...)
	for _, c := range all {
		p, err := compilePat(c.Src)
		if err != nil {
			skipped = append(skipped, c.Src+": "+err.Error())
			continue
		}
		rules := "package gorules\n\nimport \"github.com/quasilyte/go-ruleguard/dsl\"\n\nfunc one(m dsl.Matcher) {\n\tm.Match(`" + c.Src + "`).Report(`one`)\n}\n"
		msg := func() (msg string) {
			defer func() {
				if r := recover(); r != nil {
					msg = fmt.Sprint("load panics: ", r)
				}
			}()
			if _, err := hutil.LoadEngine(token.NewFileSet(), map[string]string{"r.go": rules}, []string{"r.go"}); err != nil {
				return err.Error()
			}
			return ""
		}()
		if msg != "" {
			skipped = append(skipped, c.Src+": "+msg)
			continue
		}
		ok = append(ok, patInfo{Src: c.Src, X: c.X, Tag: int(p.NodeTag()), pat: p})
	}
	return ok, skipped
}

// extraCatalogue: the Contains() outer patterns / sub-patterns that load (each outer with a fixed sub-pattern, each
// sub-pattern under a fixed outer pattern).
type extraCatalogue struct {
	outers  []struct{ Pat, Var string }
	subs    []string
	pkgSubs []string // the sub-patterns with a package-qualified callee
}

func usableContains() (cat *extraCatalogue, skipped []string) {
	cat = &extraCatalogue{}
	try := func(pat, v, sub string) string {
		rules := "package gorules\n\nimport \"github.com/quasilyte/go-ruleguard/dsl\"\n\nfunc one(m dsl.Matcher) {\n\tm.Match(`" + pat + "`).Where(" + whereSrc("contains "+v+" "+sub) + ").Report(`one`)\n}\n"
		if _, err := compilePat(pat); err != nil {
			return "gogrep: " + err.Error()
		}
		if _, err := compilePat(sub); err != nil {
			return "gogrep: " + err.Error()
		}
		if _, err := loadRules(rules); err != nil {
			return err.Error()
		}
		return ""
	}
	for _, o := range containsOuterCatalogue {
		if msg := try(o.Pat, o.Var, "probe($_)"); msg != "" {
			skipped = append(skipped, o.Pat+" Contains: "+msg)
			continue
		}
		cat.outers = append(cat.outers, o)
	}
	for _, sub := range containsSubCatalogue {
		if msg := try("probe($x); $next", "next", sub); msg != "" {
			skipped = append(skipped, "Contains("+sub+"): "+msg)
			continue
		}
		cat.subs = append(cat.subs, sub)
		if isPkgPat(sub) {
			cat.pkgSubs = append(cat.pkgSubs, sub)
		}
	}
	return cat, skipped
}

type ruleDesc struct {
	Idx     int    `json:"idx"`
	Group   string `json:"group"`
	Line    int    `json:"line"`
	File    string `json:"file"`
	Src     string `json:"src"`
	Tag     int    `json:"tag"`
	Filter  string `json:"filter"`
	Comment bool   `json:"comment,omitempty"` // a MatchComment rule: Src is a regexp
	Load    int    `json:"load"`              // index of the Load call that brought the rule in
	Part    int    `json:"part"`              // 0: the loaded file itself; k > 0: the k-th imported bundle file
	Imports []string `json:"imports,omitempty"` // Matcher.Import calls of the rule's group
	After   string `json:"after,omitempty"`     // imports of the previous enabled group of the same file ("-": none, "": first group)
	pat     *gogrep.Pattern
	re      *regexp.Regexp
	subVar  string          // Filter "contains <var> <sub>": the searched capture
	sub     *gogrep.Pattern // ... and the sub-pattern, compiled with the group's imports
}

// comment patterns (plain regexps without groups; comment rules proper are C12's subject)
var commentCatalogue = []string{"doc", `line \w+`, "values?", "[Ff]ield", "Package", "TODO", `^// \w+ doc\.$`, "comment"}

// ---- rule bundles on disk (harness/fake/wbN): read back with a line scanner, so that the oracle knows their rules

type bundleFile struct {
	Name  string
	Rules []ruleDesc // Group without prefix, Line, Src, Comment
}

var bundleRuleRe = regexp.MustCompile("^\\tm\\.(Match|MatchComment)\\(`([^`]*)`\\)(\\.Where\\((!?)m\\.Deadcode\\(\\)\\))?\\.Report\\(`[^`]*`\\)$")
var bundleFuncRe = regexp.MustCompile(`^func (\w+)\(m dsl\.Matcher\) \{$`)
var bundleImportRe = regexp.MustCompile(`^\tm\.Import\("([^"]+)"\)$`)

// readBundle scans harness/fake/<pkg>/*.go (in `go list` order: by name). Every line inside a matcher function must be a
// one-line rule, anything else is an error (the description must not silently miss a rule).
func readBundle(pkg string) ([]bundleFile, error) {
	names, err := filepath.Glob(filepath.Join("fake", pkg, "*.go"))
	if err != nil || len(names) == 0 {
		return nil, fmt.Errorf("bundle %s: no files (cwd must be the harness module): %v", pkg, err)
	}
	sort.Strings(names)
	var out []bundleFile
	for _, name := range names {
		b, err := os.ReadFile(name)
		if err != nil {
			return nil, err
		}
		bf := bundleFile{Name: name}
		group, after := "", ""
		var gimports []string
		for i, line := range strings.Split(string(b), "\n") {
			if m := bundleFuncRe.FindStringSubmatch(line); m != nil {
				if group != "" {
					return nil, fmt.Errorf("%s:%d: function inside a function", name, i+1)
				}
				group, gimports = m[1], nil
				continue
			}
			if group == "" {
				if strings.HasPrefix(line, "func ") {
					return nil, fmt.Errorf("%s:%d: function not understood", name, i+1)
				}
				continue
			}
			if line == "}" {
				group = ""
				after = afterOf(gimports)
				continue
			}
			if m := bundleImportRe.FindStringSubmatch(line); m != nil {
				gimports = append(gimports, m[1])
				continue
			}
			m := bundleRuleRe.FindStringSubmatch(line)
			if m == nil {
				return nil, fmt.Errorf("%s:%d: rule line not understood: %s", name, i+1, line)
			}
			filt := ""
			if m[3] != "" {
				filt = "dead"
				if m[4] == "!" {
					filt = "live"
				}
			}
			bf.Rules = append(bf.Rules, ruleDesc{Group: group, Line: i + 1, File: name, Src: m[2], Comment: m[1] == "MatchComment", Filter: filt,
				Imports: append([]string(nil), gimports...), After: after})
		}
		out = append(out, bf)
	}
	return out, nil
}

// afterOf renders the imports of the group that precedes a group in its file ("-": it has none).
func afterOf(imports []string) string {
	if len(imports) == 0 {
		return "-"
	}
	return strings.Join(imports, ",")
}

var bundlePkgs = []string{"wb1", "wb2", "wb3", "wb4"}

// groupEnabled is the GroupFilter of every Load of this mode: groups named *_off are skipped.
func groupEnabled(name string) bool { return !strings.HasSuffix(name, "_off") }

// loadHistory loads the files in order into one engine, each with the group filter.
// via[i] == "ir": the file is converted to IR first (hook VerifConvertAST) and installed with Engine.LoadFromIR.
func loadHistory(fset *token.FileSet, files map[string]string, order []string, via []string) (e *ruleguard.Engine, err error) {
	e, _, err = loadHistoryFailing(fset, files, order, via, nil)
	return e, err
}

// loadHistoryFailing: the Load calls listed in mustFail (by index) are expected to return an error, after which the
// caller carries on with the next file (as an embedder with a tolerant failure policy does); their messages are returned.
// A call that fails although it is not listed, or succeeds although it is, is an error of the whole history.
func loadHistoryFailing(fset *token.FileSet, files map[string]string, order []string, via []string, mustFail map[int]bool) (e *ruleguard.Engine, failed map[int]string, err error) {
	for try := 0; try < 4; try++ {
		failed = map[int]string{}
		e, err = func() (e2 *ruleguard.Engine, err2 error) {
			defer func() {
				if r := recover(); r != nil {
					err2 = fmt.Errorf("load panics: %v", r)
				}
			}()
			e2 = ruleguard.NewEngine()
			ctx := &ruleguard.LoadContext{Fset: fset, GroupFilter: func(g *ruleguard.GoRuleGroup) bool { return groupEnabled(g.Name) }}
			for i, name := range order {
				var lerr error
				if i < len(via) && via[i] == "ir" {
					irf, cerr := ruleguard.VerifConvertAST(e2, ctx, name, []byte(files[name]))
					if cerr != nil {
						lerr = cerr
					} else {
						lerr = e2.LoadFromIR(ctx, name, irf)
					}
				} else {
					lerr = e2.Load(ctx, name, strings.NewReader(files[name]))
				}
				switch {
				case lerr != nil && mustFail[i] && !strings.Contains(lerr.Error(), importFlake):
					failed[i] = lerr.Error()
				case lerr != nil:
					return nil, lerr
				case mustFail[i]:
					return nil, fmt.Errorf("target: Load #%d (%s) was built to be rejected and was accepted", i, name)
				}
			}
			return e2, nil
		}()
		if err == nil || !strings.Contains(err.Error(), importFlake) {
			break
		}
		time.Sleep(200 * time.Millisecond)
	}
	return e, failed, err
}

var filterSrc = map[string]string{"": "", "dead": "m.Deadcode()", "live": "!m.Deadcode()", "const": `m["x"].Const`}

// whereSrc renders a filter; "contains <var> <sub-pattern>" is m["var"].Contains(`sub-pattern`).
func whereSrc(filt string) string {
	if v, sub, ok := splitContains(filt); ok {
		return `m["` + v + `"].Contains(` + "`" + sub + "`)"
	}
	return filterSrc[filt]
}

func splitContains(filt string) (v, sub string, ok bool) {
	if !strings.HasPrefix(filt, "contains ") {
		return "", "", false
	}
	rest := strings.TrimPrefix(filt, "contains ")
	i := strings.Index(rest, " ")
	if i < 0 {
		return "", "", false
	}
	return rest[:i], rest[i+1:], true
}

// a rule of a targeted set
type tRule struct {
	Pat, Filt, Name string
	Imports         []string
}

// targeted sets: shapes that expose a known class of dispatch defects
//  0: two expression-list rules, the first accepts an early sub-match and rejects the last one
//  1: the same with statement lists in a multi-match bucket and a single-node rule in between
//  2: a group without Matcher.Import after a group that binds the same package names, for a standard and a plain name
//  3: the reverse order (what the patterns of a group mean must not depend on the groups around it)
//  4: list rules whose filter runs list sub-patterns while the node's matches are still being enumerated
//  5: Contains() sub-patterns with a package-qualified callee in groups with and without imports
//  6: identifier / string-literal rules whose matches lie inside import declarations (import names, import paths; named, dot and
//     blank imports, several import declarations) and outside of them, in a rule set WITHOUT any declaration-rooted rule
//  7: the same rules behind declaration-rooted ones (`import $_`, `var $_ = $_`): what the other rules of the set are must not
//     decide which nodes a rule is offered
//  8, 9: one lone literal rule / one lone identifier rule
var targetedSets = []struct {
	Theme string
	Rules []tRule
}{
	{"", []tRule{{"$y, $x", "const", "a", nil}, {"$y, $x", "", "b", nil}, {"$f($*args)", "", "c", nil}}},
	{"", []tRule{{"_ = $x; $*_", "const", "a", nil}, {"$x; $y", "", "b", nil}, {"{ $*_ }", "live", "c", nil}, {"{ $*_ }", "", "d", nil}}},
	{"pkgs", []tRule{{"rand.Int($*_)", "", "a", []string{"crypto/rand", "example.com/wk/b/util"}}, {"rand.Int($*_)", "", "b", nil},
		{"util.F()", "", "c", []string{"example.com/wk/b/util"}}, {"util.F()", "", "d", nil}}},
	{"pkgs", []tRule{{"rand.Read($*_)", "", "a", nil}, {"rand.Read($*_)", "", "b", []string{"example.com/wk/rand"}}, {"rand.Read($*_)", "", "c", []string{"crypto/rand"}},
		{"util.G($x)", "const", "d", nil}, {"util.G($x)", "", "e", []string{"example.com/wk/a/util"}}, {"util.G($x)", "", "f", nil}}},
	{"contains", []tRule{{"probe($x); $next", "contains next for $*_ { $*_ }", "a", nil}, {"$x, $y", "contains y $_($*_)", "b", nil},
		{"$f($*args)", "contains args $_ + $_", "c", nil}}},
	{"pkgs", []tRule{{"$x; $y", "contains y util.F()", "a", []string{"example.com/wk/b/util"}}, {"$f($*args)", "contains args rand.Intn($*_)", "b", []string{"example.com/wk/rand"}},
		{"$x; $y", "contains y util.F()", "c", nil}, {"{ $*body }", "contains body rand.Int($*_); util.F()", "d", []string{"crypto/rand", "example.com/wk/a/util"}}}},
	{"imports", importLeafRules(nil)},
	{"imports", importLeafRules([]tRule{{"import $_", "", "imp", nil}, {"var $_ = $_", "", "var", nil}})},
	{"imports", []tRule{{`"fmt"`, "", "a", nil}}},
	{"imports", []tRule{{"str", "live", "a", nil}}},
}

func importLeafRules(first []tRule) []tRule {
	rs := append([]tRule{}, first...)
	for i, p := range []string{`"fmt"`, "str", "u", `"unsafe"`, `"math"`, `"embed"`, "fmt2", "e2", `"errors"`, `"strings"`, "imps", "$x.$y"} {
		filt := ""
		if i%4 == 3 {
			filt = "live" // a filter that accepts everything here: import declarations are never dead
		}
		rs = append(rs, tRule{p, filt, fmt.Sprintf("l%d", i), nil})
	}
	return rs
}

// leafCensus: the distinct identifiers and basic literals of a target, in order of first occurrence (the blank identifier and
// literals that a raw-string pattern cannot spell are left out).
func leafCensus(f *ast.File) []string {
	seen := map[string]bool{}
	var out []string
	add := func(s string) {
		if s != "" && s != "_" && !strings.Contains(s, "`") && !seen[s] {
			seen[s] = true
			out = append(out, s)
		}
	}
	ast.Inspect(f, func(n ast.Node) bool {
		switch n := n.(type) {
		case *ast.Ident:
			add(n.Name)
		case *ast.BasicLit:
			add(n.Value)
		}
		return true
	})
	return out
}

// leafCensusSets: for a target, rule sets that consist of ONE rule per distinct identifier / literal of the file -- every leaf of
// the file, wherever it stands (package clause, imports, labels, field names, tags, type parameters, selectors, keys, ...), is
// matched by exactly the rule that spells it, so a walk that leaves out ANY subtree loses reports -- alone, and behind
// declaration-rooted rules (which nodes a rule is offered must not depend on the other rules). Leaves whose rule does not load
// on its own are left out.
func leafCensusSets(theme string, f *ast.File) (sets []struct {
	Theme string
	Rules []tRule
}) {
	var leaves []tRule
	for i, l := range leafCensus(f) {
		if _, err := compilePat(l); err != nil {
			continue
		}
		rules := "package gorules\n\nimport \"github.com/quasilyte/go-ruleguard/dsl\"\n\nfunc one(m dsl.Matcher) {\n\tm.Match(`" + l + "`).Report(`one`)\n}\n"
		ok := func() (ok bool) {
			defer func() {
				if recover() != nil {
					ok = false
				}
			}()
			_, err := hutil.LoadEngine(token.NewFileSet(), map[string]string{"r.go": rules}, []string{"r.go"})
			return err == nil
		}()
		if ok {
			leaves = append(leaves, tRule{l, "", fmt.Sprintf("c%d", i), nil})
		}
	}
	decls := []tRule{{"import $_", "", "imp", nil}, {"var $_ = $_", "", "var", nil}, {"type $_ $_", "", "typ", nil}, {"func $_($*_) $*_ { $*_ }", "", "fn", nil},
		{"const $_ = $_", "", "cst", nil}}
	sets = append(sets, struct {
		Theme string
		Rules []tRule
	}{theme, leaves})
	sets = append(sets, struct {
		Theme string
		Rules []tRule
	}{theme, append(append([]tRule{}, decls...), leaves...)})
	return sets
}

// importsSink: every form of import declaration (single, grouped, empty; named, dot and blank imports; one path twice), and the
// same identifiers / literals outside of them.
const importsSink = `// Package imps doc.
package imps

import "errors"

import (
	"fmt" // line comment
	str "strings"
	. "math"
	_ "embed"
	u "unsafe"
	fmt2 "fmt"
)

import ()

import e2 "errors"

var fmtName = "fmt"

var mathName, embedName = "math", "embed"

type box struct{ str, u string }

func use(str2 string) (fmt3 string, err error) {
	u := str.ToUpper(str2)
	_ = fmt.Sprint(u, "strings", Pi, Sqrt(2))
	_ = fmt2.Sprintf("unsafe")
	b := box{str: "errors", u: "u"}
	if b.str == "fmt" {
		return b.u, errors.New("embed")
	}
	return fmt3, e2.New("math")
}

var size = u.Sizeof(0)
`

// genRuleSet renders an abstract rule description both to DSL source files and to the oracle's rule list (load order).
// theme: "" (any pattern), "pkgs" (groups with and without Matcher.Import, package-qualified patterns), "contains"
// (filters that run a sub-pattern).
func genRuleSet(rng *rand.Rand, pats []patInfo, cat *extraCatalogue, bundles map[string][]bundleFile, setIdx int, pc patCache) (files map[string]string, order []string, rules []ruleDesc, parts []int, theme string) {
	files = map[string]string{}
	var xs, plain, plainX, pkgs, pkgsX []patInfo
	for _, p := range pats {
		if isPkgPat(p.Src) {
			pkgs = append(pkgs, p)
			if p.X {
				pkgsX = append(pkgsX, p)
			}
			continue
		}
		plain = append(plain, p)
		if p.X {
			plainX = append(plainX, p)
		}
	}
	xs = plainX
	// fill in the compiled pattern(s) of a rule from its own group's imports
	finish := func(r ruleDesc) (ruleDesc, bool) {
		p, err := pc.compile(r.Src, r.Imports)
		if err != nil {
			return r, false
		}
		r.pat, r.Tag = p, int(p.NodeTag())
		if v, sub, ok := splitContains(r.Filter); ok {
			sp, err := pc.compile(sub, r.Imports)
			if err != nil {
				return r, false
			}
			r.subVar, r.sub = v, sp
		}
		return r, true
	}
	importLines := func(imports []string) string {
		var sb strings.Builder
		for _, p := range imports {
			sb.WriteString("\tm.Import(\"" + p + "\")\n")
		}
		return sb.String()
	}
	if setIdx < len(targetedSets) {
		ts := targetedSets[setIdx]
		var sb strings.Builder
		name := fmt.Sprintf("rules%d_t.go", setIdx)
		sb.WriteString("package gorules\n\nimport \"github.com/quasilyte/go-ruleguard/dsl\"\n\n")
		line := 5
		after := ""
		for _, tr := range ts.Rules {
			group := fmt.Sprintf("t%d_%s", setIdx, tr.Name)
			where := ""
			if tr.Filt != "" {
				where = ".Where(" + whereSrc(tr.Filt) + ")"
			}
			r, ok := finish(ruleDesc{Idx: len(rules), Group: group, Line: line + 1 + len(tr.Imports), File: name, Src: tr.Pat, Filter: tr.Filt, Imports: tr.Imports, After: after})
			if !ok {
				continue
			}
			sb.WriteString("func " + group + "(m dsl.Matcher) {\n" + importLines(tr.Imports) + "\tm.Match(`" + tr.Pat + "`)" + where + ".Report(`" + group + "`)\n}\n\n")
			rules = append(rules, r)
			line += 4 + len(tr.Imports)
			after = afterOf(tr.Imports)
		}
		files[name] = sb.String()
		return files, []string{name}, rules, []int{0}, ts.Theme
	}
	theme = []string{"", "", "", "pkgs", "pkgs", "contains", "contains", "pkgs+contains", "pkgs+contains"}[rng.Intn(9)]
	isPkgs, isContains := strings.Contains(theme, "pkgs"), strings.Contains(theme, "contains")
	// a load history: 1-4 Load calls; each file is one of
	//   syntax    groups of Match rules
	//   comment   groups of MatchComment rules only (contributes no syntax rule)
	//   mixed     both
	//   filtered  Match groups that the GroupFilter rejects by name (the file contributes nothing)
	//   bundle    a file that imports a rule bundle from disk (its own groups first, then the bundle's files in
	//             `go list` order; some bundles end with a file without syntax rules or have none at all)
	// the last Load is more often than not one that contributes no syntax rule.
	nfiles := 1 + rng.Intn(4)
	kindsAll := []string{"syntax", "syntax", "syntax", "mixed", "comment", "filtered", "bundle", "bundle"}
	kindsLean := []string{"comment", "filtered", "bundle"}
	for fi := 0; fi < nfiles; fi++ {
		name := fmt.Sprintf("rules%d_%d.go", setIdx, fi)
		kind := kindsAll[rng.Intn(len(kindsAll))]
		if fi == nfiles-1 && nfiles > 1 && rng.Intn(2) == 0 {
			kind = kindsLean[rng.Intn(len(kindsLean))]
		}
		var sb strings.Builder
		line := 1
		w := func(s string) { sb.WriteString(s); line += strings.Count(s, "\n") }
		w("package gorules\n\nimport \"github.com/quasilyte/go-ruleguard/dsl\"\n")
		var imported []bundleFile
		prefix := ""
		if kind == "bundle" {
			pkg := bundlePkgs[rng.Intn(len(bundlePkgs))]
			if fi == nfiles-1 && rng.Intn(2) == 0 {
				pkg = []string{"wb1", "wb4"}[rng.Intn(2)] // the bundles that end without syntax rules
			}
			if isPkgs && rng.Intn(2) == 0 {
				pkg = []string{"wb2", "wb3"}[rng.Intn(2)] // the bundles whose groups have imports of their own
			}
			prefix = fmt.Sprintf("b%d", fi)
			imported = bundles[pkg]
			w("import \"example.com/" + pkg + "\"\n\nfunc init() {\n\tdsl.ImportRules(\"" + prefix + "\", " + pkg + ".Bundle)\n}\n")
		}
		w("\n")
		ngroups := 1 + rng.Intn(5)
		if kind == "bundle" {
			ngroups = rng.Intn(3) // the importing file may have no groups of its own
		}
		after := ""
		for gi := 0; gi < ngroups; gi++ {
			group := fmt.Sprintf("g%d_%d_%d", setIdx, fi, gi)
			gkind := kind
			switch kind {
			case "mixed", "bundle":
				gkind = []string{"syntax", "comment", "syntax+comment"}[rng.Intn(3)]
			case "syntax":
				if rng.Intn(8) == 0 {
					gkind = "filtered" // a disabled group among enabled ones
				}
			}
			if gkind == "filtered" {
				group += "_off"
			}
			// the group's own imports: every other group of a package-themed set, now and then elsewhere
			var gimports []string
			if (isPkgs && rng.Intn(2) == 0) || (!isPkgs && rng.Intn(12) == 0) {
				gimports = genImports(rng)
			}
			needDo, needInt := false, false
			w("func " + group + "(m dsl.Matcher) {\n")
			w(importLines(gimports))
			nmatch := 1
			if rng.Intn(4) == 0 {
				nmatch = 2
			}
			for mi := 0; mi < nmatch; mi++ {
				if gkind == "comment" || (gkind == "syntax+comment" && mi == nmatch-1) {
					cp := commentCatalogue[rng.Intn(len(commentCatalogue))]
					rules = append(rules, ruleDesc{Idx: len(rules), Group: group, Line: line, File: name, Src: cp, Comment: true, Load: fi, re: regexp.MustCompile(cp)})
					w("\tm.MatchComment(`" + cp + "`).Report(`" + group + "`)\n")
					continue
				}
				// "do": reported by a Do() handler; "cint": a custom bytecode filter (accepts iff $x has type int)
				filt := []string{"", "", "", "dead", "live", "const", "do", "cint"}[rng.Intn(8)]
				if (isContains && rng.Intn(2) == 0) || (!isContains && rng.Intn(12) == 0) {
					filt = "contains"
				}
				if filt == "contains" && len(cat.outers) > 0 && len(cat.subs) > 0 {
					// one alternative: the searched capture must be bound by every alternative
					var o struct{ Pat, Var string }
					var sub string
					for try := 0; try < 20; try++ {
						o = cat.outers[rng.Intn(len(cat.outers))]
						if try < 10 && rng.Intn(2) == 0 {
							o = cat.outers[rng.Intn(12)%len(cat.outers)] // the list patterns
						}
						sub = cat.subs[rng.Intn(len(cat.subs))]
						if (isPkgs || len(gimports) > 0) && len(cat.pkgSubs) > 0 && rng.Intn(2) == 0 {
							sub = cat.pkgSubs[rng.Intn(len(cat.pkgSubs))] // a sub-pattern whose meaning depends on the group's imports
						}
						if isPkgs || len(gimports) > 0 || (!isPkgPat(o.Pat) && !isPkgPat(sub)) {
							break
						}
					}
					filt = "contains " + o.Var + " " + sub
					r, ok := finish(ruleDesc{Idx: len(rules), Group: group, Line: line + 1, File: name, Src: o.Pat, Filter: filt, Load: fi, Imports: gimports, After: after})
					if ok {
						if gkind != "filtered" {
							rules = append(rules, r)
						}
						w("\tm.Match(\n\t\t`" + o.Pat + "`,\n\t).Where(" + whereSrc(filt) + ").Report(`" + group + "`)\n")
						continue
					}
					filt = ""
				}
				pool, pkgPool := plain, pkgs
				if filt == "const" || filt == "cint" {
					pool, pkgPool = xs, pkgsX
				}
				// a popular pattern now and then, so that rules compete for the same nodes
				w("\tm.Match(\n")
				nalt := 1 + rng.Intn(3)
				for ai := 0; ai < nalt; ai++ {
					p := pool[rng.Intn(len(pool))]
					if rng.Intn(3) == 0 {
						fav := []string{"probe($x)", "$f($*args)", "$x, $y", "$x; $y", "{ $*_ }", "x", "$x + $y", "1, $x", "probe($a); probe($b)"}[rng.Intn(9)]
						for _, q := range pool {
							if q.Src == fav {
								p = q
							}
						}
					}
					if len(pkgPool) > 0 && ((isPkgs && rng.Intn(4) != 0) || (!isPkgs && len(gimports) > 0 && rng.Intn(2) == 0)) {
						p = pkgPool[rng.Intn(len(pkgPool))]
					}
					if gkind != "filtered" {
						if r, ok := finish(ruleDesc{Idx: len(rules), Group: group, Line: line, File: name, Src: p.Src, Filter: filt, Load: fi, Imports: gimports, After: after}); ok {
							rules = append(rules, r)
						}
					}
					w("\t\t`" + p.Src + "`,\n")
				}
				w("\t)")
				switch filt {
				case "do":
					w(".Do(" + group + "_do)\n")
					needDo = true
				case "cint":
					w(".Where(m[\"x\"].Filter(" + group + "_int)).Report(`" + group + "`)\n")
					needInt = true
				case "":
					w(".Report(`" + group + "`)\n")
				default:
					w(".Where(" + whereSrc(filt) + ").Report(`" + group + "`)\n")
				}
			}
			w("}\n\n")
			if needDo {
				w("func " + group + "_do(ctx *dsl.DoContext) {\n\tctx.SetReport(`" + group + "`)\n}\n\n")
			}
			if needInt {
				w("func " + group + "_int(ctx *dsl.VarFilterContext) bool {\n\treturn ctx.Type.String() == `int`\n}\n\n")
			}
			after = afterOf(gimports)
		}
		for bi, bf := range imported {
			for _, r := range bf.Rules {
				if !groupEnabled(r.Group) {
					continue
				}
				r.Idx, r.Group, r.Load, r.Part = len(rules), prefix+"/"+r.Group, fi, bi+1
				if r.Comment {
					r.re = regexp.MustCompile(r.Src)
				} else if r2, ok := finish(r); ok {
					r = r2
				}
				rules = append(rules, r)
			}
		}
		files[name] = sb.String()
		order = append(order, name)
		parts = append(parts, len(imported))
	}
	return files, order, rules, parts, theme
}

type rep struct {
	Rule int `json:"r"`
	Pos  int `json:"p"`
	End  int `json:"e"`
}

type mEntry struct {
	Node int     `json:"n"`
	Rule int     `json:"r"`
	CBs  [][3]int `json:"c"` // pos, end, verdict
}

type rsObs struct {
	K        string            `json:"k"`
	Set      int               `json:"set"`
	Target   string            `json:"target"`
	Nodes    int               `json:"nodes"`
	Rules    []ruleDesc        `json:"rules"`
	Engine   []rep             `json:"engine"`
	Oracle   []rep             `json:"oracle"`
	Mismatch string            `json:"mismatch,omitempty"`
	M        []mEntry          `json:"m,omitempty"`
	Tree     string            `json:"tree,omitempty"`
	Files    map[string]string `json:"files,omitempty"`
	Order    []string          `json:"order,omitempty"`
	Src      string            `json:"src,omitempty"`
	Err      string            `json:"err,omitempty"`
	Skipped  []string          `json:"skipped,omitempty"`
	Loads    []string          `json:"loads,omitempty"`  // per Load call: "+s0c" = contributed syntax rules, no comment rules
	Parts    []int             `json:"parts,omitempty"`  // per Load call: number of imported bundle files
	Via      []string          `json:"via,omitempty"`    // per Load call: Engine.Load of the source / Engine.LoadFromIR of its IR
	LastLean bool              `json:"last_lean"`        // the last Load contributed no syntax rule, earlier ones did
	Pairs    []string          `json:"pairs,omitempty"` // (node tag, pattern tag) pairs that produced an accepted match
	Contested int              `json:"contested"`        // nodes on which more than one rule had an accepted match
	Theme    string            `json:"theme,omitempty"`
	Contains int               `json:"contains,omitempty"` // catalogue line: usable (outer, sub-pattern) combinations
	LoadCalls []loadDesc       `json:"load_calls,omitempty"` // per Load call: file, groups it declares, rejected how
	Ghosts   []ruleDesc        `json:"ghosts,omitempty"`     // the rules of the rejected files
	GhostHits int              `json:"ghost_hits"`           // ... how many of them match somewhere in the target
	Reentrant string           `json:"reentrant,omitempty"`  // the tree of runs started from Report callbacks
	Others   map[string]string `json:"others,omitempty"`     // the other targets of that tree (on a mismatch)
	Schedule [][3]int          `json:"schedule,omitempty"`   // the log of that tree (see planLog)
	RunCounts [][2]int         `json:"run_counts,omitempty"` // per run of the tree: number of reports its callback received
	NestedRuns int             `json:"nested_runs"`
	ParallelRuns int           `json:"parallel_runs"`
}

var multiTagsOracle = map[nodetag.Value]bool{nodetag.BlockStmt: true, nodetag.CaseClause: true, nodetag.CommClause: true, nodetag.File: true}

func runRulesMode(enc *json.Encoder, rng *rand.Rand, nsets, size int, tmp string, withModel bool, extra []string) {
	pats, skipped := usablePatterns()
	cat, skipped2 := usableContains()
	enc.Encode(rsObs{K: "catalogue", Nodes: len(pats), Skipped: append(skipped, skipped2...), Contains: len(cat.outers) * len(cat.subs)})
	if len(pats) < 20 {
		return
	}
	pc := patCache{}
	// targets: the kitchen sink and generated nestings
	type tgt struct {
		name string
		t    *hutil.Target
	}
	var targets []tgt
	mk := func(name, src string) {
		t, err := hutil.CheckTarget(tmp, name, []byte(src))
		if err != nil {
			enc.Encode(rsObs{K: "rs", Target: name, Err: "target: " + err.Error(), Src: src})
			return
		}
		targets = append(targets, tgt{name, t})
	}
	mk("sink/target.go", kitchenSinkTyped)
	for i := 0; i < 3; i++ {
		mk(fmt.Sprintf("rt%d/target.go", i), genFile(rng, i, size))
	}
	nbase := len(targets) // the kitchen sink and the generated nestings
	for i, p := range extra {
		if b, err := os.ReadFile(p); err == nil {
			if t, err := hutil.CheckTarget(tmp, fmt.Sprintf("x%d/%s", i, filepath.Base(p)), b); err == nil {
				targets = append(targets, tgt{p, t})
			}
		}
	}
	// targets that call equal-named functions of several packages (which package has the plain name rotates)
	var pkgTargets []tgt
	{
		imp := newMemImporter()
		v0 := rng.Intn(4)
		for i := 0; i < 2; i++ {
			name := fmt.Sprintf("pk%d/target.go", i)
			src := pkgTarget(v0 + i)
			t, err := checkTargetMem(imp, tmp, name, []byte(src))
			if err != nil {
				enc.Encode(rsObs{K: "rs", Target: name, Err: "target: " + err.Error(), Src: src})
				continue
			}
			pkgTargets = append(pkgTargets, tgt{name, t})
		}
	}
	if len(targets) == 0 || len(pkgTargets) == 0 {
		return
	}
	targets = append(targets, pkgTargets...)
	// a target with every form of import declaration (the sets of theme "imports" run on it; so do some random ones)
	mk("imps/target.go", importsSink)
	impTarget := targets[len(targets)-1]
	if impTarget.name != "imps/target.go" {
		return
	}
	impIdx := len(targets) - 1
	// a target nested far deeper than hand-written code (deep.go); the sets of theme "deep" run on it, so do some random ones
	mk("deep/target.go", deepNest(280))
	deepTarget := targets[len(targets)-1]
	if deepTarget.name != "deep/target.go" {
		return
	}
	// leaf-census sets of the kitchen sink and of the imports target (theme "leaves:<target index>")
	nStatic := len(targetedSets)
	defer func() { targetedSets = targetedSets[:nStatic] }()
	for _, ti := range []int{0, impIdx} {
		for _, ts := range leafCensusSets(fmt.Sprintf("leaves:%d", ti), targets[ti].t.File) {
			targetedSets = append(targetedSets, ts)
		}
	}
	// rules for the innermost leaves and for the level nodes of every nest of the deep target
	targetedSets = append(targetedSets, deepSets...)
	bundles := map[string][]bundleFile{}
	for _, pkg := range bundlePkgs {
		bfs, err := readBundle(pkg)
		if err != nil {
			enc.Encode(rsObs{K: "rs", Err: "target: bundle description: " + err.Error()})
			return
		}
		bundles[pkg] = bfs
	}
	for si := 0; si < nsets; si++ {
		files, order, rules, parts, theme := genRuleSet(rng, pats, cat, bundles, si, pc)
		// every other random history has Load calls that are rejected (the caller carries on with the next file)
		var fp *failPlan
		if si >= len(targetedSets) && rng.Intn(2) == 0 {
			fp = addFailingLoads(rng, si, files, order, rules, parts, strings.Contains(theme, "pkgs"), pc, bundles)
			order, parts = fp.order, fp.parts
			for ri := range rules {
				rules[ri].Load = fp.remap[rules[ri].Load]
			}
			rules = append(rules, fp.extra...)
		} else {
			fp = &failPlan{}
			for li, g := range groupsOfLoads(len(order), rules) {
				fp.loads = append(fp.loads, loadDesc{Name: order[li], Groups: g})
			}
		}
		fset := token.NewFileSet()
		var loadErr string
		via := make([]string, len(order))
		for i := range via {
			via[i] = []string{"source", "source", "ir"}[rng.Intn(3)]
		}
		e, failed, err := loadHistoryFailing(fset, files, order, via, fp.mustFail)
		if err != nil {
			loadErr = err.Error()
		}
		for li, msg := range failed {
			fp.loads[li].Err = msg
		}
		tg := targets[si%len(targets)]
		if strings.HasPrefix(theme, "leaves:") {
			var ti int
			fmt.Sscanf(theme, "leaves:%d", &ti)
			tg = targets[ti]
		} else if theme == "imports" {
			tg = impTarget
		} else if theme == "deep" {
			tg = deepTarget
		} else if strings.Contains(theme, "pkgs") {
			tg = pkgTargets[rng.Intn(len(pkgTargets))]
		} else if theme == "contains" && nbase > 1 {
			tg = targets[1+(si+rng.Intn(2))%(nbase-1)] // generated nestings: statement lists with loops and blocks inside
		}
		obs := rsObs{K: "rs", Set: si, Target: tg.name, Rules: rules, Parts: parts, Via: via, Theme: theme, LoadCalls: fp.loads, Ghosts: fp.ghosts}
		// the shape of the load history: per Load call, how many syntax / comment rules it contributed
		{
			ns, nc := make([]int, len(order)), make([]int, len(order))
			for _, r := range rules {
				if r.Comment {
					nc[r.Load]++
				} else {
					ns[r.Load]++
				}
			}
			earlier := 0
			for i := range order {
				cls := func(n int) string {
					if n == 0 {
						return "0"
					}
					return "+"
				}
				if fp.mustFail[i] {
					obs.Loads = append(obs.Loads, "rejected:"+fp.loads[i].Fail)
				} else {
					obs.Loads = append(obs.Loads, cls(ns[i])+"s"+cls(nc[i])+"c")
				}
				if i < len(order)-1 {
					earlier += ns[i]
				}
			}
			obs.LastLean = len(order) > 1 && ns[len(order)-1] == 0 && earlier > 0
		}
		if strings.HasPrefix(loadErr, "target: ") {
			obs.Err = loadErr
			obs.Files, obs.Order = files, order
			enc.Encode(obs)
			continue
		}
		if loadErr != "" {
			obs.Err = "load: " + loadErr
			obs.Files, obs.Order = files, order
			enc.Encode(obs)
			continue
		}
		t := tg.t
		byKey := map[string]int{}
		for _, r := range rules {
			byKey[fmt.Sprintf("%s:%d", r.Group, r.Line)] = r.Idx
		}
		reps, pmsg := hutil.Run(e, t, 0, "", nil)
		if pmsg != "" {
			obs.Mismatch = "run failed: " + pmsg
		}
		ghostKey := map[string]int{}
		for _, g := range fp.ghosts {
			ghostKey[fmt.Sprintf("%s:%d", g.Group, g.Line)] = g.Idx
		}
		for _, r := range reps {
			key := fmt.Sprintf("%s:%d", r.Group, r.Line)
			idx, ok := byKey[key]
			// a rule of a rejected file: a group of its own, or the re-declared group (whose message no loaded rule has)
			if gi, isGhost := ghostKey[key]; isGhost && (!ok || strings.HasPrefix(r.Message, "redefined ") || (strings.HasPrefix(r.Message, "x") && !strings.HasPrefix(r.Message, "retry "))) {
				idx, ok = gi, true
			}
			if !ok {
				idx = -1
			}
			obs.Engine = append(obs.Engine, rep{idx, r.Pos, r.End})
		}
		// the oracle
		top, _, order2 := buildTree(t.File)
		obs.Nodes = len(order2)
		exp := expected(t.Info, order2, event{Func: -1})
		dead := map[int]bool{}
		for _, ev := range exp {
			dead[ev.ID] = ev.Dead
		}
		state := gogrep.NewMatcherState()
		state.Types = t.Info
		subState := gogrep.NewMatcherState() // the oracle's Contains() searches have a state of their own
		subState.Types = t.Info
		pairs := map[string]bool{}
		for _, tn := range order2 {
			tag := nodetag.FromNode(tn.n)
			if tag == nodetag.Unknown {
				continue
			}
			winners := 0
			stop := false
			for _, r := range rules {
				if r.Comment || r.pat == nil {
					continue
				}
				var cbs [][3]int
				r.pat.MatchNode(&state, tn.n, func(m gogrep.MatchData) {
					v := true
					switch r.Filter {
					case "dead":
						v = dead[tn.id]
					case "live":
						v = !dead[tn.id]
					case "cint":
						v = false
						if x, ok := m.CapturedByName("x"); ok {
							var ex ast.Expr
							switch x := x.(type) {
							case ast.Expr:
								ex = x
							case *ast.ExprStmt:
								ex = x.X
							}
							if ex != nil {
								// the type of the expression, or of the object an identifier defines / uses
								if typ := t.Info.TypeOf(ex); typ != nil && types.Unalias(typ).String() == "int" {
									v = true
								}
							}
						}
					case "const":
						v = false
						if x, ok := m.CapturedByName("x"); ok {
							var ex ast.Expr
							switch x := x.(type) {
							case ast.Expr:
								ex = x
							case *ast.ExprStmt:
								ex = x.X
							}
							if ex != nil {
								if tv, ok := t.Info.Types[ex]; ok && tv.Value != nil {
									v = true
								}
							}
						}
					}
					if r.sub != nil {
						root, ok := m.CapturedByName(r.subVar)
						v = ok && containsOracle(&subState, r.sub, root, m.Capture)
					}
					vi := 0
					if v {
						vi = 1
					}
					cbs = append(cbs, [3]int{t.Fset.Position(m.Node.Pos()).Offset, t.Fset.Position(m.Node.End()).Offset, vi})
				})
				if len(cbs) == 0 {
					continue
				}
				obs.M = append(obs.M, mEntry{tn.id, r.Idx, cbs})
				acc := false
				for _, c := range cbs {
					if c[2] == 1 {
						acc = true
						if !stop {
							obs.Oracle = append(obs.Oracle, rep{r.Idx, c[0], c[1]})
						}
					}
				}
				if acc {
					winners++
					pairs[fmt.Sprintf("%d/%d", int(tag), r.Tag)] = true
					if isPkgPat(r.Src) {
						// a package-qualified pattern reported: own imports or none, and what the group before it had
						own := "no-import"
						if len(r.Imports) > 0 {
							own = "own-import"
						}
						prev := "first-group"
						if r.After == "-" {
							prev = "after-import-less-group"
						} else if r.After != "" {
							prev = "after-importing-group"
						}
						part := "file"
						if r.Part > 0 {
							part = "bundle"
						}
						pairs["pkgpat:"+own+":"+prev+":"+part] = true
					}
					if r.sub != nil {
						pairs[fmt.Sprintf("contains:%d/%d/%d", int(tag), r.Tag, int(r.sub.NodeTag()))] = true
					}
					if !multiTagsOracle[tag] {
						stop = true
					}
				}
			}
			if winners > 1 {
				obs.Contested++
			}
		}
		// would the rules of the rejected files have reported on this target?
		for _, g := range fp.ghosts {
			if g.pat == nil {
				continue
			}
			hit := false
			for _, tn := range order2 {
				if hit {
					break
				}
				g.pat.MatchNode(&state, tn.n, func(gogrep.MatchData) { hit = true })
			}
			if hit {
				obs.GhostHits++
			}
		}
		// comment rules run after the walk: every comment in order, the first rule whose regexp matches reports the match
		for _, cg := range t.File.Comments {
			for _, cm := range cg.List {
				for _, r := range rules {
					if !r.Comment {
						continue
					}
					loc := r.re.FindStringIndex(cm.Text)
					if loc == nil {
						continue
					}
					off := t.Fset.Position(cm.Pos()).Offset
					obs.Oracle = append(obs.Oracle, rep{r.Idx, off + loc[0], off + loc[1]})
					pairs["comment"] = true
					break
				}
			}
		}
		for p := range pairs {
			obs.Pairs = append(obs.Pairs, p)
		}
		sort.Strings(obs.Pairs)
		for i := 0; (i < len(obs.Engine) || i < len(obs.Oracle)) && obs.Mismatch == ""; i++ {
			desc := func(r rep) string {
				if r.Rule >= len(rules) && r.Rule-len(rules) < len(fp.ghosts) {
					g := fp.ghosts[r.Rule-len(rules)]
					return fmt.Sprintf("rule %s:%d `%s` of %s, whose Load was rejected (%s), on offsets %d-%d", g.Group, g.Line, g.Src, g.File, fp.loads[g.Load].Fail, r.Pos, r.End)
				}
				if r.Rule < 0 || r.Rule >= len(rules) {
					return fmt.Sprintf("unknown rule at %d-%d", r.Pos, r.End)
				}
				txt := ""
				if r.Pos >= 0 && r.End <= len(t.Src) && r.Pos <= r.End {
					txt = string(t.Src[r.Pos:r.End])
					if len(txt) > 60 {
						txt = txt[:60] + "..."
					}
				}
				return fmt.Sprintf("rule #%d %s:%d `%s` [%s] on %q (%d-%d)", r.Rule, rules[r.Rule].Group, rules[r.Rule].Line, rules[r.Rule].Src, rules[r.Rule].Filter, txt, r.Pos, r.End)
			}
			switch {
			case i >= len(obs.Engine):
				obs.Mismatch = fmt.Sprintf("report #%d missing: expected %s", i, desc(obs.Oracle[i]))
			case i >= len(obs.Oracle):
				obs.Mismatch = fmt.Sprintf("report #%d not expected: %s", i, desc(obs.Engine[i]))
			case obs.Engine[i] != obs.Oracle[i]:
				obs.Mismatch = fmt.Sprintf("report #%d: expected %s, engine reported %s", i, desc(obs.Oracle[i]), desc(obs.Engine[i]))
			}
		}
		// re-entrant runs: the Report callback of a run over this target starts runs over this and other targets (nil / own /
		// pooled states; same or another goroutine; up to three levels); every run of the tree reports what it reports alone
		if pmsg == "" {
			cand := []tgt{tg, targets[rng.Intn(len(targets))], pkgTargets[rng.Intn(len(pkgTargets))]}
			var tl []*hutil.Target
			var names []string
			var lone [][]hReport
			for _, c := range cand {
				r, _, m := runOnce(e, c.t, c.t.File, 0, nil, -1)
				if m != "" {
					continue // a crash of a lone run over another target is that set's finding, not this one's
				}
				tl, names, lone = append(tl, c.t), append(names, c.name), append(lone, r)
			}
			if len(tl) > 0 && names[0] == tg.name && len(lone[0]) == len(reps) {
				nrep := make([]int, len(lone))
				for k := range lone {
					nrep[k] = len(lone[k])
				}
				plan := genPlan(rng, nrep, 0, []string{"nil", "nil", "own", "pool"}[rng.Intn(4)], 1+rng.Intn(3))
				plog := &planLog{}
				runPlanLogged(e, tl, plan, &statePool{e: e}, plog)
				mm, nruns, nnested := checkPlan(plan, func(k, _ int) ([]hReport, string) { return lone[k], "" })
				_ = nruns
				obs.NestedRuns = nnested
				if nnested > 0 {
					obs.Reentrant = describePlan(plan, names, "")
					if len(plog.Steps) < 3000 {
						obs.Schedule = plog.Steps
						var runs []struct {
							Path string
							P    *nestPlan
						}
						planRuns(plan, "0", &runs)
						for _, r := range runs {
							obs.RunCounts = append(obs.RunCounts, [2]int{r.P.id, len(r.P.reps)})
						}
					}
				}
				// ... and as one of six runs of this engine that are in progress at the same time on goroutines of their own
				// (Engine.Run is documented as safe for concurrent use; nil states and states of their own)
				{
					type res struct {
						reps []hReport
						msg  string
					}
					out := make([]res, 6)
					var wg sync.WaitGroup
					start := make(chan struct{})
					for k := range out {
						var st *ruleguard.RunnerState
						if k%3 == 2 {
							st = ruleguard.NewRunnerState(e)
						}
						wg.Add(1)
						go func(k int, st *ruleguard.RunnerState) {
							defer wg.Done()
							<-start
							t := tl[k%len(tl)]
							out[k].reps, _, out[k].msg = runOnce(e, t, t.File, 0, st, -1)
						}(k, st)
					}
					close(start)
					wg.Wait()
					obs.ParallelRuns = len(out)
					for k := range out {
						if mm != "" {
							break
						}
						if out[k].msg != "" {
							mm = fmt.Sprintf("six runs on goroutines of their own, at the same time: the run over %s: %s", names[k%len(tl)], out[k].msg)
						} else if d := diffReports(out[k].reps, lone[k%len(tl)]); d != "" {
							mm = fmt.Sprintf("six runs on goroutines of their own, at the same time: the run over %s gives %s (= the same run alone)", names[k%len(tl)], d)
						}
					}
				}
				if mm != "" && obs.Mismatch == "" {
					obs.Mismatch = "re-entrant runs: " + mm
					obs.Others = map[string]string{}
					for k := 1; k < len(tl); k++ {
						obs.Others[names[k]] = string(tl[k].Src)
					}
				}
			}
		}
		if obs.Mismatch != "" {
			obs.Files, obs.Order, obs.Src = files, order, string(t.Src)
		}
		if withModel && obs.Nodes <= 1300 {
			var sb strings.Builder
			top.coq(t.Info, &sb)
			obs.Tree = sb.String()
		} else {
			obs.M = nil
		}
		enc.Encode(obs)
	}
}
