package main

import (
	"encoding/json"
	"fmt"
	"go/ast"
	"go/token"
	"go/types"
	"math/rand"
	"os"
	"path/filepath"
	"regexp"
	"strconv"
	"strings"

	"verif/harness/internal/hutil"

	"github.com/quasilyte/go-ruleguard/ruleguard"
)

// ---------------------------------------------------------------------------- generated nestings

type sgen struct {
	rng   *rand.Rand
	sb    strings.Builder
	label int
	max   int // statement budget
	ret   []string // the return statement of the enclosing functions (innermost last); empty: "return"
}

// retStmt: a return statement that type-checks in the innermost enclosing function.
func (g *sgen) retStmt() string {
	if len(g.ret) == 0 {
		return "return"
	}
	return g.ret[len(g.ret)-1]
}

// inFunc generates body inside a function (literal) whose return statement is ret.
func (g *sgen) inFunc(ret string, body func()) {
	g.ret = append(g.ret, ret)
	body()
	g.ret = g.ret[:len(g.ret)-1]
}

var conds = []string{
	"true", "false", "ct", "cf", "!ct", "!cf", "(ct)", "ct && cf", "ct || cf", "1 < 2", "2 < 1", "ct == true", "cn > 3", "cn < 3",
	"x > 3", "b", "!b", "ct && b", "cf || b", "probe(%d) > 0", "x == cn", "len(s) > 0",
	"x > 3", "b", "!b", "x < cn", "probe(%d) > 0", "x != 0", "len(s) > 0", "b && x > 1", "b || cf", "x%2 == 0", "b",
	// constant conditions that contain call-shaped nodes: builtins on constants, conversions, typed constants
	`len("abc") == 3`, `len("abc") == 4`, "unsafe.Sizeof(int64(0)) == 4", "unsafe.Sizeof(int64(0)) == 8", "bool(flag(false))",
	"bool(flag(true))", "!(len(name) > 2)", "len(name) > 2", "int(cn) == 5", "float64(cn) < 1.5", "min(1, cn) == 1", "max(1, cn) == 1",
	"bool(tf)", "bool(tt)", "tt == true", "tf != false", `string(rune(65)) == "A"`, "real(complex(1, 2)) == 2", "len([3]int{}) == 3",
	// non-constant although a constant operand decides them (go/types does not fold across a call)
	"cf && probe(%d) > 0", "ct || probe(%d) > 0", "ct && cf || b",
	"(bool)(ct)", "!bool(cf)", `name[0] == 'a'`, "x > 3", "b", "len(s) > int(cn)", "bool(b)", "flag(b) == tt",
}

// aliasConds: conditions whose TYPE is an alias of bool (deadcode mode only, see aliasDecls). Under GODEBUG=gotypesalias=1 go/types
// records *types.Alias for them next to the constant value; under gotypesalias=0 they are plain bool. Constant ones (named
// constants, conversions, operators over them, an alias of the alias) and non-constant ones (a variable, a conversion of one).
var aliasConds = []string{
	"af", "at", "!af", "!at", "(af)", "(at)", "at && af", "at || af", "aflag(false)", "aflag(true)", "!aflag(cf)", "a2f", "a2t", "!a2f",
	"af", "at", "!af", "!at", "af == at", "bool(af)", "aflag(tt)",
	"av", "!av", "aflag(b)", "av || af", "at && aflag(b)", "a2flag(b)",
}

const aliasDecls = "type aflag = bool\n\ntype a2flag = aflag\n\nconst at aflag = true\nconst af aflag = false\nconst a2t a2flag = true\nconst a2f a2flag = false\n\nvar av aflag\n\n"

// condPool: the condition catalogue of this process (runDeadcode adds aliasConds; the other modes keep conds).
var condPool = conds

func (g *sgen) probe() string {
	g.label++
	return fmt.Sprintf("probe(%d)", g.label)
}

func (g *sgen) cond() string {
	c := condPool[g.rng.Intn(len(condPool))]
	if strings.Contains(c, "%d") {
		g.label++
		return fmt.Sprintf(c, g.label)
	}
	return c
}

func (g *sgen) ind(d int) string { return strings.Repeat("\t", d+1) }

func (g *sgen) block(depth, n int) {
	for i := 0; i < n && g.max > 0; i++ {
		g.stmt(depth)
	}
}

func (g *sgen) ifChain(depth int) {
	g.sb.WriteString("if ")
	if g.rng.Intn(4) == 0 {
		g.sb.WriteString("_ = " + g.probe() + "; ")
	}
	g.sb.WriteString(g.cond() + " {\n")
	g.block(depth+1, 1+g.rng.Intn(3))
	g.sb.WriteString(g.ind(depth) + "}")
	switch g.rng.Intn(5) {
	case 0, 1:
		g.sb.WriteString(" else {\n")
		g.block(depth+1, 1+g.rng.Intn(3))
		g.sb.WriteString(g.ind(depth) + "}")
	case 2, 3:
		if depth < 8 {
			g.sb.WriteString(" else ")
			g.ifChain(depth)
			return
		}
	}
	g.sb.WriteString("\n")
}

func (g *sgen) stmt(depth int) {
	g.max--
	in := g.ind(depth)
	k := g.rng.Intn(42)
	if depth >= 8 {
		k = 23
	}
	switch {
	case k < 8 || k >= 40:
		g.sb.WriteString(in)
		g.ifChain(depth)
	case k == 8:
		g.sb.WriteString(in + "func() {\n")
		g.inFunc("return", func() { g.block(depth+1, 1+g.rng.Intn(3)) })
		g.sb.WriteString(in + "}()\n")
	case k == 9:
		g.sb.WriteString(in + "for i := 0; i < " + g.probe() + "; i++ {\n")
		g.block(depth+1, 1+g.rng.Intn(2))
		g.sb.WriteString(in + "}\n")
	case k == 10:
		g.sb.WriteString(in + "switch {\n" + in + "case " + g.cond() + ":\n")
		g.block(depth+1, 1+g.rng.Intn(2))
		g.sb.WriteString(in + "default:\n")
		g.block(depth+1, 1)
		g.sb.WriteString(in + "}\n")
	case k == 11:
		g.sb.WriteString(in + "{\n")
		g.block(depth+1, 1+g.rng.Intn(2))
		g.sb.WriteString(in + "}\n")
	case k == 12:
		g.sb.WriteString(in + "defer func(v int) {\n")
		g.inFunc("return", func() { g.block(depth+1, 1) })
		g.sb.WriteString(in + "}(" + g.probe() + ")\n")
	case k == 13:
		g.sb.WriteString(in + "_ = func(q int) int {\n")
		g.inFunc("return q", func() { g.block(depth+1, 1+g.rng.Intn(2)) })
		g.sb.WriteString(in + "\treturn " + g.probe() + "\n" + in + "}\n")
	case k == 15:
		g.sb.WriteString(in + fmt.Sprintf("_ = (x + %d) * (cn + x)\n", g.rng.Intn(9)))
	case k == 16:
		g.sb.WriteString(in + "if len(s) > x && s[x] == int(x) {\n" + in + "\t" + g.probe() + "\n" + in + "\t" + g.probe() + "\n" + in + "}\n")
	case k == 17:
		g.sb.WriteString(in + "func() {\n" + in + "\tif b {\n" + in + "\t\treturn\n" + in + "\t}\n" + in + "\t" + g.probe() + "\n" + in + "}()\n")
	case k == 24 || k == 25:
		// comparisons over operands of several types (the custom-filter rules of the history mode look at them)
		g.sb.WriteString(in + "_ = " + []string{"x == cn", `name == "abcd"`, "b == ct", "float64(x) == 1.5", "s == nil", "x != 3", `name != "q"`,
			"b != cf", "s != nil", "float64(cn) != float64(x)", "s[0] == x"}[g.rng.Intn(11)] + "\n")
	case k == 27:
		g.label++
		l := fmt.Sprintf("L%d", g.label)
		g.sb.WriteString(in + l + ":\n" + in + "for range s {\n")
		g.block(depth+1, 1+g.rng.Intn(2))
		g.sb.WriteString(in + "\tif " + g.cond() + " {\n" + in + "\t\tcontinue " + l + "\n" + in + "\t}\n" + in + "}\n")
	case k == 26:
		g.sb.WriteString(in + "go func() {\n")
		g.inFunc("return", func() { g.block(depth+1, 1) })
		g.sb.WriteString(in + "}()\n")
	case k == 14:
		g.sb.WriteString(in + "for range s {\n")
		g.block(depth+1, 1)
		g.sb.WriteString(in + "}\n")
	// ---- statements with a condition / a tag that are NOT ifs: what their condition is, constant or not, makes nothing dead
	case k == 28:
		// condition-only loops (constant-false, constant-true, non-constant conditions; no condition at all)
		c := g.cond()
		if g.rng.Intn(6) == 0 {
			c = ""
		} else {
			c += " "
		}
		g.sb.WriteString(in + "for " + c + "{\n")
		g.block(depth+1, 1+g.rng.Intn(2))
		g.sb.WriteString(in + "}\n")
	case k == 29:
		// three-clause loops over the same conditions
		hdr := []string{"i := 0; %s; i++", "; %s; ", "i := " + g.probe() + "; %s; i--", "; %s; x++"}[g.rng.Intn(4)]
		g.sb.WriteString(in + "for " + fmt.Sprintf(hdr, g.cond()) + " {\n")
		g.block(depth+1, 1+g.rng.Intn(2))
		g.sb.WriteString(in + "}\n")
	case k == 30:
		// switches with a constant tag / constant case values
		tmpl := [][]string{
			{"switch cf {", "case true:", "case false:"},
			{"switch ct {", "case cf:", "default:", "case !cf:"},
			{"switch cn {", "case 4:", "case 5, 6:", "default:"},
			{"switch name {", `case "abcd":`, `case "x", "y":`},
			{"switch v := " + g.probe() + "; {", "case cf:", "case v > 0 && " + g.cond() + ":", "default:"},
			{"switch {", "case false:", "case ct:", "case b:"},
			{"switch tt {", "case tf:", "case tt:"},
			{"switch x {", "case cn:", "case 1, 2:", "default:"},
		}[g.rng.Intn(8)]
		g.sb.WriteString(in + tmpl[0] + "\n")
		for _, cs := range tmpl[1:] {
			g.sb.WriteString(in + cs + "\n")
			g.block(depth+1, 1+g.rng.Intn(2))
		}
		g.sb.WriteString(in + "}\n")
	case k == 31:
		g.sb.WriteString(in + "select {\n" + in + "case <-make(chan int):\n")
		g.block(depth+1, 1+g.rng.Intn(2))
		g.sb.WriteString(in + "case v := <-make(chan bool):\n" + in + "\t_ = v\n")
		g.block(depth+1, 1)
		if g.rng.Intn(2) == 0 {
			g.sb.WriteString(in + "default:\n")
			g.block(depth+1, 1)
		}
		g.sb.WriteString(in + "}\n")
	case k == 32:
		g.sb.WriteString(in + "switch any(x).(type) {\n" + in + "case int:\n")
		g.block(depth+1, 1+g.rng.Intn(2))
		g.sb.WriteString(in + "case string, bool:\n")
		g.block(depth+1, 1)
		g.sb.WriteString(in + "default:\n")
		g.block(depth+1, 1)
		g.sb.WriteString(in + "}\n")
	// ---- statements behind a statement that leaves the list (return, panic, break, continue, goto) in the SAME list: no if
	// branch, so as live / dead as the list itself
	case k == 33:
		// an early return / panic in the middle of a list (the rest of this list follows it)
		leave := g.retStmt()
		if g.rng.Intn(4) == 0 {
			leave = "panic(name)"
		}
		if g.rng.Intn(2) == 0 {
			g.sb.WriteString(in + "if " + g.cond() + " {\n")
			g.block(depth+1, 1)
			g.sb.WriteString(in + "\t" + leave + "\n" + in + "\t" + g.probe() + "\n")
			g.block(depth+1, 1)
			g.sb.WriteString(in + "}\n")
		} else {
			g.sb.WriteString(in + leave + "\n" + in + g.probe() + "\n")
		}
	case k == 34:
		// break / continue in the middle of a loop body
		g.sb.WriteString(in + []string{"for range s {", "for " + g.cond() + " {", "for i := 0; i < x; i++ {", "for {"}[g.rng.Intn(4)] + "\n")
		g.block(depth+1, 1)
		g.sb.WriteString(in + "\t" + []string{"break", "continue"}[g.rng.Intn(2)] + "\n" + in + "\t" + g.probe() + "\n")
		g.block(depth+1, 1)
		g.sb.WriteString(in + "}\n")
	case k == 35:
		// break / return in the middle of a case clause / a select clause
		leave := []string{"break", g.retStmt()}[g.rng.Intn(2)]
		if g.rng.Intn(3) == 0 {
			g.sb.WriteString(in + "select {\n" + in + "case <-make(chan int):\n")
		} else {
			g.sb.WriteString(in + "switch {\n" + in + "case " + g.cond() + ":\n")
		}
		g.block(depth+1, 1)
		g.sb.WriteString(in + "\t" + leave + "\n" + in + "\t" + g.probe() + "\n")
		g.block(depth+1, 1)
		g.sb.WriteString(in + "default:\n" + in + "\t" + g.probe() + "\n" + in + "}\n")
	case k == 36:
		// the `goto fail` idiom: the labelled tail follows a return in the same list
		g.label++
		l := fmt.Sprintf("fail%d", g.label)
		g.sb.WriteString(in + "if " + g.cond() + " {\n" + in + "\tgoto " + l + "\n" + in + "}\n")
		g.block(depth, 1+g.rng.Intn(2))
		g.sb.WriteString(in + g.retStmt() + "\n" + in[:len(in)-1] + l + ":\n" + in + g.probe() + "\n")
		g.block(depth, 1)
	case k == 37:
		// a forward goto over statements of the same list / a backward one
		g.label++
		l := fmt.Sprintf("G%d", g.label)
		if g.rng.Intn(2) == 0 {
			g.sb.WriteString(in + "goto " + l + "\n" + in + g.probe() + "\n")
			g.block(depth, 1)
			g.sb.WriteString(in[:len(in)-1] + l + ":\n" + in + g.probe() + "\n")
		} else {
			// the label stands on a probe or on an if chain of its own (a labelled if is an if)
			g.sb.WriteString(in[:len(in)-1] + l + ":\n" + in)
			if g.rng.Intn(2) == 0 {
				g.ifChain(depth)
			} else {
				g.sb.WriteString(g.probe() + "\n")
			}
			g.block(depth, 1)
			g.sb.WriteString(in + "if " + g.cond() + " {\n" + in + "\tgoto " + l + "\n" + in + "\t" + g.probe() + "\n" + in + "}\n")
		}
	case k == 38:
		// labelled break / continue out of nested loops, statements behind it
		g.label++
		l := fmt.Sprintf("B%d", g.label)
		g.sb.WriteString(in[:len(in)-1] + l + ":\n" + in + "for range s {\n" + in + "\tfor " + g.cond() + " {\n")
		g.block(depth+2, 1)
		g.sb.WriteString(in + "\t\t" + []string{"break ", "continue "}[g.rng.Intn(2)] + l + "\n" + in + "\t\t" + g.probe() + "\n" + in + "\t}\n")
		g.block(depth+1, 1)
		g.sb.WriteString(in + "}\n")
	case k == 39:
		// a block that ends in a return inside a loop, statements behind the loop; a bare block with a return in the middle
		g.sb.WriteString(in + "{\n" + in + "\t" + g.probe() + "\n" + in + "\t" + g.retStmt() + "\n")
		g.block(depth+1, 1)
		g.sb.WriteString(in + "}\n" + in + g.probe() + "\n")
	default:
		g.sb.WriteString(in + g.probe() + "\n")
	}
}

// genFile: a package of functions whose bodies are random nestings of if / else-if chains over constant-true,
// constant-false and non-constant conditions, with init statements, function literals, loops and switches.
func genFile(rng *rand.Rand, idx, size int) string {
	g := &sgen{rng: rng}
	fmt.Fprintf(&g.sb, "package target\n\nimport \"unsafe\"\n\nconst ct = true\nconst cf = false\nconst cn = 5\nconst name = \"abcd\"\n\ntype flag bool\n\nconst tt flag = true\nconst tf flag = false\n\nvar _ = unsafe.Sizeof(0)\n\ntype T struct{}\n\nfunc probe(n int) int { return n }\n\n")
	if len(condPool) != len(conds) {
		g.sb.WriteString(aliasDecls)
	}
	// function literals at package level: variable initialisers, map and slice literals of funcs
	g.max = size / 2
	fmt.Fprintf(&g.sb, "var h%d = func(x int, b bool, s []int) {\n", idx)
	g.block(0, 2+rng.Intn(3))
	g.sb.WriteString("}\n\n")
	g.max = size / 2
	fmt.Fprintf(&g.sb, "var tbl%d = map[string]func(x int, b bool, s []int){\n\t\"a\": func(x int, b bool, s []int) {\n", idx)
	g.block(1, 1+rng.Intn(3))
	g.sb.WriteString("\t},\n\t\"b\": func(x int, b bool, s []int) {\n")
	g.block(1, 1+rng.Intn(2))
	g.sb.WriteString("\t},\n}\n\n")
	g.max = size / 3
	fmt.Fprintf(&g.sb, "var fs%d = []func(x int, b bool, s []int) int{func(x int, b bool, s []int) int {\n", idx)
	g.inFunc("return 0", func() { g.block(0, 1+rng.Intn(3)) })
	g.sb.WriteString("\treturn " + g.probe() + "\n}}\n\n")
	g.max = size / 2
	fmt.Fprintf(&g.sb, "type GT%d[K comparable] struct{ k K }\n\nfunc gf%d[K comparable, V any](k K, v V, x int, b bool, s []int) {\n", idx, idx)
	g.block(0, 2+rng.Intn(3))
	fmt.Fprintf(&g.sb, "}\n\nfunc (GT%d[K]) gm(x int, b bool, s []int) {\n", idx)
	g.max = size / 2
	g.block(0, 1+rng.Intn(3))
	g.sb.WriteString("}\n\n")
	nf := 2 + rng.Intn(3)
	for i := 0; i < nf; i++ {
		g.max = size
		if i%2 == 1 {
			fmt.Fprintf(&g.sb, "func (T) m%d_%d(x int, b bool, s []int) {\n", idx, i)
		} else {
			fmt.Fprintf(&g.sb, "func f%d_%d(x int, b bool, s []int) {\n", idx, i)
		}
		g.block(0, 4+rng.Intn(5))
		g.sb.WriteString("}\n\n")
	}
	return g.sb.String()
}

// ---------------------------------------------------------------------------- kitchen sink

const kitchenSink = `// Package doc.
package sink

import (
	"fmt" // line comment
	str "strings"
)

// C doc.
const (
	ca, cb = 1, "s" // values
	cc     float64 = 2
)

var va, vb int

// S doc.
type S struct {
	// field doc
	A, B int    ` + "`json:\"a\"`" + ` // field comment
	C    string ` + "`x`" + `
	*S
	fmt.Stringer
}

type I interface {
	M(a int, rest ...string) (r error)
	fmt.Stringer
	~int | ~string
}

type G[T comparable, U any] struct {
	k T
	v map[T][]U
}

type (
	A1 [3]int
	A2 [...]int
	F1 func(int, ...string) (int, error)
	Ch chan<- int
	P[T any] *T
)

func gen[T comparable, U any](a T, b U) (T, U) { return a, b }

func (g *G[T, U]) m(x T) (res U) { return g.v[x][0] }

// f doc.
func f(x int, ss ...string) (n int, err error) {
	var g G[int, string]
	_ = gen[int, string]
	_, _ = gen[int, string](1, "a")
	_ = G[int, string]{k: 1}
	_ = []int{1, 2, 3}[0:2:3]
	_ = map[string]int{"a": 1}["a"]
	_ = (x + 1) * -x
	p := &x
	*p++
	x--
	var e interface{} = x
	if v, ok := e.(int); ok && v > 0 {
		n = v
	} else if true {
		n = 1
	} else {
		n = 2
	}
	switch y := e.(type) {
	case int, string:
		_ = y
	default:
	}
	switch z := x; z {
	case 1, 2:
		fallthrough
	case 3:
	default:
		break
	}
	ch := make(chan int, 1)
	select {
	case ch <- 1:
	case v := <-ch:
		_ = v
	default:
	}
L:
	for i := 0; i < 3; i++ {
		for k, v := range ss {
			_, _ = k, v
			continue L
		}
		for range ss {
		}
		goto M
	}
M:
	;
	go func() { defer fmt.Println(str.ToUpper("a")) }()
	{
		const local = false
		if local {
			n = 3
		}
		type T2 struct{ a int }
		var _ = T2{a: 1}
	}
	func(a ...int) {}(1, 2)
	_ = func() (int, string) { return 1, "" }
	for {
		break
	}
	return n, nil
}
`

// ---------------------------------------------------------------------------- engine-level dead code

const deadRules = `package gorules

import "github.com/quasilyte/go-ruleguard/dsl"

func dead(m dsl.Matcher) {
	m.Match(` + "`probe($x)`" + `).Where(m.Deadcode()).Report(` + "`dead $x`" + `)
}

func live(m dsl.Matcher) {
	m.Match(` + "`probe($x)`" + `).Where(!m.Deadcode()).Report(` + "`live $x`" + `)
}
`

type dcObs struct {
	K        string            `json:"k"`
	Name     string            `json:"name"`
	Probes   int               `json:"probes"`
	Dead     int               `json:"dead"`
	Sigs     []string          `json:"sigs"`
	Mismatch []string          `json:"mismatch,omitempty"`
	Src      string            `json:"src,omitempty"`
	Err      string            `json:"err,omitempty"`
	Config   string            `json:"config,omitempty"`  // the load history of the engine
	Files    map[string]string `json:"files,omitempty"`   // ... its rules files (on a mismatch)
	Order    []string          `json:"order,omitempty"`
	Poison   string            `json:"poison,omitempty"`  // what ran on the shared state right before
	DeadPanics int             `json:"dead_panics"`       // runs aborted by a panicking callback inside a dead branch before this one
	Alias    string            `json:"gotypesalias,omitempty"` // GODEBUG=gotypesalias=<0|1> while the target was type-checked
	Kinds    map[string]int    `json:"kinds,omitempty"`   // disturber rules of the history (k=catalogue) / judged reports and re-entrant runs (k=dc)
}

// rules files without any Deadcode() filter (merged before / after the ones that have it)
const deadOther = `package gorules

import "github.com/quasilyte/go-ruleguard/dsl"

func plus(m dsl.Matcher) {
	m.Match(` + "`$x + $y`" + `).Report(` + "`plus`" + `)
	m.MatchComment(` + "`doc`" + `).Report(` + "`doc comment`" + `)
}
`

const deadOther2 = `package gorules

import "github.com/quasilyte/go-ruleguard/dsl"

func eq(m dsl.Matcher) {
	m.Match(` + "`$x == $y`" + `).Where(m["y"].Const).Report(` + "`compared with a constant`" + `)
}

func blocks(m dsl.Matcher) {
	m.Match(` + "`{ $*_ }`" + `).Report(` + "`block`" + `)
}
`

func deadWithBundle(own, pkg string) string {
	body := own[strings.Index(own, "func "):]
	return "package gorules\n\nimport \"github.com/quasilyte/go-ruleguard/dsl\"\nimport \"example.com/" + pkg + "\"\n\nfunc init() {\n\tdsl.ImportRules(\"b\", " + pkg + ".Bundle)\n}\n\n" + body
}

// deadConfigs: load histories that all contain one Deadcode() and one !Deadcode() rule on probe($x) -- alone, loaded
// before / after / between files that have no such filter, next to imported bundles (own rules first, then the bundle's
// files), or inside a bundle whose later files have none. Every history but the first also loads a file of disturber
// rules (Do() handlers, Contains() searches, custom filters: code that runs between the walker's writes of the flag),
// in front of, between or behind the other files.
type deadConfig struct {
	Name  string
	Files map[string]string
	Order []string
	Kinds map[string]int // disturber kinds of the history
	Helpers []hkGroup    // the groups with local helper funcs of the history (helpers.go)
}

func deadConfigs(rng *rand.Rand, pool []disturber) []deadConfig {
	base := []deadConfig{
		{Name: "Load(deadcode rules)", Files: map[string]string{"dead.go": deadRules}, Order: []string{"dead.go"}},
		{Name: "Load(deadcode rules); Load(rules without Deadcode)", Files: map[string]string{"dead.go": deadRules, "other.go": deadOther}, Order: []string{"dead.go", "other.go"}},
		{Name: "Load(rules without Deadcode); Load(deadcode rules)", Files: map[string]string{"dead.go": deadRules, "other.go": deadOther}, Order: []string{"other.go", "dead.go"}},
		{Name: "Load(deadcode rules); Load(other); Load(other2)", Files: map[string]string{"dead.go": deadRules, "other.go": deadOther, "other2.go": deadOther2}, Order: []string{"dead.go", "other.go", "other2.go"}},
		{Name: "Load(other); Load(deadcode rules); Load(other2)", Files: map[string]string{"dead.go": deadRules, "other.go": deadOther, "other2.go": deadOther2}, Order: []string{"other.go", "dead.go", "other2.go"}},
		{Name: "Load(deadcode rules + import of bundle wb3, which has no Deadcode)", Files: map[string]string{"dead.go": deadWithBundle(deadRules, "wb3")}, Order: []string{"dead.go"}},
		{Name: "Load(deadcode rules + import of the comment-only bundle wb4)", Files: map[string]string{"dead.go": deadWithBundle(deadRules, "wb4")}, Order: []string{"dead.go"}},
		{Name: "Load(other + import of bundle wb2, whose first file has the Deadcode rules)", Files: map[string]string{"other.go": deadWithBundle(deadOther, "wb2")}, Order: []string{"other.go"}},
		{Name: "Load(other + import of bundle wb2); Load(other2)", Files: map[string]string{"other.go": deadWithBundle(deadOther, "wb2"), "other2.go": deadOther2}, Order: []string{"other.go", "other2.go"}},
	}
	if len(pool) == 0 {
		return base
	}
	for i := 1; i < len(base); i++ {
		c := &base[i]
		src, kinds := genDisturbFile(rng, pool, 7+rng.Intn(4), i)
		c.Files["disturb.go"] = src
		c.Kinds = kinds
		at := []int{0, len(c.Order), len(c.Order) / 2}[i%3]
		order := append([]string{}, c.Order[:at]...)
		order = append(order, "disturb.go")
		c.Order = append(order, c.Order[at:]...)
		c.Name += fmt.Sprintf("; disturber rules (Do / Contains / custom filters) loaded as file #%d of %d", at+1, len(c.Order))
		// ... and a file of groups that define equal-named local helper funcs with different bodies (helpers.go)
		hsrc, hgroups := genHelperFile(rng, 6+rng.Intn(4), i)
		c.Files["helpers.go"] = hsrc
		c.Helpers = hgroups
		at = rng.Intn(len(c.Order) + 1)
		order = append([]string{}, c.Order[:at]...)
		order = append(order, "helpers.go")
		c.Order = append(order, c.Order[at:]...)
		if i%2 == 0 {
			// a second file of such groups, loaded right behind or right in front of the first one (the lanes are shared: the
			// groups of the file loaded first come first)
			h2src, h2groups := genHelperFile(rng, 3+rng.Intn(3), i*10+5)
			c.Files["helpers2.go"] = h2src
			at2 := at + rng.Intn(2)
			order = append([]string{}, c.Order[:at2]...)
			order = append(order, "helpers2.go")
			c.Order = append(order, c.Order[at2:]...)
			if at2 == at {
				c.Helpers = append(h2groups, hgroups...)
			} else {
				c.Helpers = append(hgroups, h2groups...)
			}
			c.Kinds["helper-files-with-a-second-one"]++
		}
		// ... and a file of rules with type / constant-value filters on the conditions themselves (typeDisturbers)
		tsrc, tkinds, tdropped := genTypeFile(rng, 2+rng.Intn(3), i)
		if tsrc != "" {
			c.Files["typef.go"] = tsrc
			at = rng.Intn(len(c.Order) + 1)
			order = append([]string{}, c.Order[:at]...)
			order = append(order, "typef.go")
			c.Order = append(order, c.Order[at:]...)
			for k, v := range tkinds {
				c.Kinds[k] += v
			}
		}
		c.Kinds["type-templates-that-do-not-load"] = len(tdropped)
		c.Kinds["helper-groups"] += len(c.Helpers)
		c.Kinds["helper-name-clashes"] += hkStats(c.Helpers)
	}
	return base
}

// contextSig describes the enclosing ifs of a node: per if, constant-ness of the condition and the part entered.
func contextSig(t *tnode, condOfNode func(ast.Node) (bool, bool)) string {
	var parts []string
	for c, p := t, t.par; p != nil; c, p = p, p.par {
		ifs, ok := p.n.(*ast.IfStmt)
		if !ok {
			if _, ok := p.n.(*ast.FuncLit); ok {
				parts = append(parts, "fn")
			}
			continue
		}
		known, val := condOfNode(p.n)
		cs := "N"
		if known && val {
			cs = "T"
		} else if known {
			cs = "F"
		}
		part := "?"
		switch {
		case c.n == ast.Node(ifs.Body):
			part = "B"
		case ifs.Else != nil && c.n == ifs.Else:
			part = "E"
		case ifs.Init != nil && c.n == ifs.Init:
			part = "I"
		case c.n == ifs.Cond:
			part = "C"
		}
		parts = append(parts, cs+part)
	}
	return strings.Join(parts, ".")
}

var disturberGroupRe = regexp.MustCompile(`(^|/)q\d+_`)

func runDeadcode(enc *json.Encoder, rng *rand.Rand, nfiles, size int, tmp string) {
	type engCfg struct {
		name   string
		files  map[string]string
		order  []string
		e      *ruleguard.Engine
		shared *ruleguard.RunnerState
		pool   *statePool
		helpers []hkGroup
		prev   *hutil.Target // the file that ran on the shared state last
		// ... and the judge of its reports: every report of a *dead / *live group against the flag of its node
		prevJudge func(reps []hReport, how string) (probes map[int]string, mismatch []string, bad string)
	}
	condPool = append(append([]string{}, conds...), aliasConds...)
	dpool, dropped := usableDisturbers()
	if len(dpool) < 16 {
		enc.Encode(dcObs{K: "dc", Config: "disturber catalogue", Err: "disturber rules do not load: " + strings.Join(dropped, " | ")})
	}
	var cfgs []*engCfg
	allKinds := map[string]int{}
	for _, c := range deadConfigs(rng, dpool) {
		e, err := loadHistory(token.NewFileSet(), c.Files, c.Order, nil)
		if err != nil {
			enc.Encode(dcObs{K: "dc", Config: c.Name, Err: "load: " + err.Error(), Files: c.Files, Order: c.Order})
			continue
		}
		for k, v := range c.Kinds {
			allKinds[k] += v
		}
		cfgs = append(cfgs, &engCfg{name: c.Name, files: c.Files, order: c.Order, e: e, shared: ruleguard.NewRunnerState(e), pool: &statePool{e: e}, helpers: c.Helpers})
	}
	_, tdropped := usableTypeDisturbers()
	allKinds["type-templates-that-do-not-load"] = len(tdropped)
	enc.Encode(dcObs{K: "catalogue", Probes: len(dpool), Kinds: allKinds, Mismatch: append(dropped, tdropped...)})
	if len(cfgs) < 2 {
		return
	}
	isDist := func(group string) bool { return disturberGroupRe.MatchString(group) }
	isDead := func(group string) bool { return strings.HasSuffix(group, "dead") }
	isLive := func(group string) bool { return strings.HasSuffix(group, "live") }
	for i := 0; i < nfiles; i++ {
		src := genFile(rng, i, size)
		name := fmt.Sprintf("dc%d/target.go", i)
		// two files of three are type-checked with alias types materialised (GODEBUG=gotypesalias=1, the default of go >= 1.23
		// modules): the conditions of aliasConds then have a *types.Alias type next to their constant value
		aliasMode := "0"
		if i%3 != 0 {
			aliasMode = "1"
		}
		oldDebug, hadDebug := os.LookupEnv("GODEBUG")
		os.Setenv("GODEBUG", "gotypesalias="+aliasMode)
		t, err := hutil.CheckTarget(tmp, name, []byte(src))
		if hadDebug {
			os.Setenv("GODEBUG", oldDebug)
		} else {
			os.Unsetenv("GODEBUG")
		}
		if err != nil {
			enc.Encode(dcObs{K: "dc", Name: name, Err: err.Error(), Src: src})
			continue
		}
		// independent expectation + the hook's flag
		_, _, order := buildTree(t.File)
		aliasConst, aliasNonConst := 0, 0
		for _, tn := range order {
			if ifs, ok := tn.n.(*ast.IfStmt); ok {
				if tv, ok := t.Info.Types[ifs.Cond]; ok {
					if _, isAlias := tv.Type.(*types.Alias); isAlias && tv.Value != nil {
						aliasConst++
					} else if isAlias {
						aliasNonConst++
					}
				}
			}
		}
		exp := expected(t.Info, order, event{Func: -1})
		expDead := map[int]bool{}
		for _, ev := range exp {
			expDead[ev.ID] = ev.Dead
		}
		byRange := deadByRange(t, order, expDead)
		hookEvs, _, _ := ruleguard.VerifWalkEvents(t.Info, t.File, ruleguard.VerifWalkState{}, -1)
		hookDead := map[ast.Node]bool{}
		for _, ev := range hookEvs {
			hookDead[ev.Node] = ev.Dead
		}
		// every file under the single-file engine and under one of the other load histories
		for _, cfg := range []*engCfg{cfgs[0], cfgs[1+i%(len(cfgs)-1)]} {
			obs := dcObs{K: "dc", Name: name, Config: cfg.name, Kinds: map[string]int{}, Alias: aliasMode}
			obs.Kinds["files:gotypesalias="+aliasMode]++
			obs.Kinds["if-conditions:constant-of-alias-type"] += aliasConst
			obs.Kinds["if-conditions:non-constant-of-alias-type"] += aliasNonConst
			// engine verdicts on the probes: "dead" / "live" by the group of the plain probe rules that reported it; every
			// report of a disturber rule that ends in Deadcode() / !Deadcode() is judged by the flag of its node
			judge := func(reps []hReport, how string) (map[int]string, []string, string) {
				out := map[int]string{}
				var mism []string
				for _, r := range reps {
					if !isDead(r.Group) && !isLive(r.Group) {
						if isDist(r.Group) {
							obs.Kinds["reports:plain-disturber"]++
						}
						continue
					}
					if isDist(r.Group) {
						want, known := judgeByRange(byRange, r.Pos, r.End)
						if !known {
							obs.Kinds["reports:unjudged"]++
							continue
						}
						obs.Kinds["reports:disturber+deadcode"]++
						if strings.Contains(r.Group, "_ls_") {
							obs.Kinds["reports:list-rule+deadcode"]++
						}
						if want != isDead(r.Group) {
							txt := string(t.Src[r.Pos:r.End])
							if len(txt) > 50 {
								txt = txt[:50] + "..."
							}
							mism = append(mism, fmt.Sprintf("rule %s (line %d of its file) reported %q at line %d with the %s state: the node is %s",
								r.Group, r.Line, txt, 1+strings.Count(string(t.Src[:r.Pos]), "\n"), how, map[bool]string{true: "dead", false: "live"}[want]))
						}
						continue
					}
					lab, err := strconv.Atoi(string(t.Src[r.Pos+len("probe(") : r.End-1]))
					if err != nil {
						return nil, nil, "report on a non-probe node: " + string(t.Src[r.Pos:r.End])
					}
					v := "live"
					if isDead(r.Group) {
						v = "dead"
					}
					if prev, dup := out[lab]; dup {
						out[lab] = prev + "+" + v
					} else {
						out[lab] = v
					}
				}
				return out, mism, ""
			}
			verdict := func(state *ruleguard.RunnerState, how string) (map[int]string, []hReport, string) {
				reps, _, pmsg := runOnce(cfg.e, t, t.File, 0, state, -1)
				out, mism, bad := judge(reps, how)
				if bad != "" {
					return nil, nil, bad
				}
				obs.Mismatch = append(obs.Mismatch, mism...)
				if pmsg == "" {
					// a complete run: the groups with local helper funcs report exactly what their formulas say
					hm, decided := judgeHelpers(cfg.helpers, reps, t, order, expDead, how)
					obs.Mismatch = append(obs.Mismatch, hm...)
					obs.Kinds["reports:helper-group-decisions"] += decided
				}
				return out, reps, pmsg
			}
			// the probes of this file by label: expected verdicts (for runs that deliver only some of the reports)
			probeWant := map[int]string{}
			for _, tn := range order {
				if call, ok := tn.n.(*ast.CallExpr); ok {
					if id, ok := call.Fun.(*ast.Ident); ok && id.Name == "probe" && len(call.Args) == 1 {
						lab, _ := strconv.Atoi(call.Args[0].(*ast.BasicLit).Value)
						probeWant[lab] = map[bool]string{true: "dead", false: "live"}[expDead[tn.id]]
					}
				}
			}
			judgeAll := func(reps []hReport, how string) (map[int]string, []string, string) {
				out, mism, bad := judge(reps, how)
				for lab, v := range out {
					if v != probeWant[lab] {
						mism = append(mism, fmt.Sprintf("probe(%d): expected %s, reported as %q with the %s state", lab, probeWant[lab], v, how))
					}
				}
				return out, mism, bad
			}
			vFresh, freshReps, p2 := verdict(nil, "fresh")
			// the shared state has seen the earlier files of this engine; now and then the run right before this one is
			// aborted by a Report callback that panics while the walk is inside a dead branch (of the previous file or of
			// this one), the panic is recovered and the state used again
			if rng.Intn(2) == 0 {
				pt, preps := t, freshReps
				if cfg.prev != nil && rng.Intn(2) == 0 {
					pt = cfg.prev
					preps, _, _ = runOnce(cfg.e, pt, pt.File, 0, nil, -1)
				}
				var deadIdx []int
				for ri, r := range preps {
					if isDead(r.Group) {
						deadIdx = append(deadIdx, ri)
					}
				}
				if len(deadIdx) > 0 {
					at := deadIdx[rng.Intn(len(deadIdx))]
					areps, panicked, amsg := runOnce(cfg.e, pt, pt.File, 0, cfg.shared, at)
					obs.Poison = fmt.Sprintf("a run over %s on the same state whose Report callback panics at report #%d (%s at offset %d, inside a dead branch, function %s)",
						filepath.Base(filepath.Dir(pt.Path)), at, preps[at].Group, preps[at].Pos, preps[at].Func)
					if panicked {
						obs.DeadPanics++
						obs.Poison += "; the run ended with that panic, which the caller recovered"
					} else {
						obs.Poison += fmt.Sprintf("; Run returned (%q) after %d reports", amsg, len(areps))
					}
					// whatever that run delivered -- before the panic and, should the engine carry on after it, behind it -- is
					// judged like the reports of any run: a *dead / *live rule by the flag of its node
					pj := judgeAll
					if pt != t {
						pj = cfg.prevJudge
					}
					if pj != nil {
						_, mism, _ := pj(areps, "shared")
						for _, m := range mism {
							obs.Mismatch = append(obs.Mismatch, "in the run with the panicking Report callback (the callback panicked at report #"+strconv.Itoa(at)+" of "+strconv.Itoa(len(areps))+" delivered; Run: "+map[bool]string{true: "panic", false: "returned " + strconv.Quote(amsg)}[panicked]+"): "+m)
						}
						obs.Kinds["reports:judged-in-panicking-runs"] += len(areps)
						if len(areps) > at+1 {
							obs.Kinds["reports:delivered-after-a-callback-panic"] += len(areps) - at - 1
						}
					}
				}
			}
			vShared, _, p1 := verdict(cfg.shared, "shared")
			if p1 != "" || p2 != "" {
				obs.Mismatch = append(obs.Mismatch, "run failed: "+p1+p2)
			}
			// re-entrant runs: Report callbacks of this file's run start runs over this file / the previous one (nil, own and
			// pooled states, same goroutine or another one); every run of the tree must report what it reports alone
			if rng.Intn(2) == 0 && p2 == "" {
				targets, names := []*hutil.Target{t}, []string{"this file"}
				lone := [][]hReport{freshReps}
				if cfg.prev != nil {
					pr, _, pm := runOnce(cfg.e, cfg.prev, cfg.prev.File, 0, nil, -1)
					if pm == "" {
						targets, names, lone = append(targets, cfg.prev), append(names, "the previous file of this engine"), append(lone, pr)
					}
				}
				nrep := make([]int, len(lone))
				for k := range lone {
					nrep[k] = len(lone[k])
				}
				plan := genPlan(rng, nrep, 0, []string{"nil", "own", "pool"}[rng.Intn(3)], 2)
				runPlan(cfg.e, targets, plan, cfg.pool)
				mm, nruns, nnested := checkPlan(plan, func(k, _ int) ([]hReport, string) { return lone[k], "" })
				obs.Kinds["reentrant-plans"]++
				obs.Kinds["reentrant-runs"] += nruns
				obs.Kinds["nested-runs"] += nnested
				if mm != "" {
					obs.Mismatch = append(obs.Mismatch, "re-entrant runs: "+mm+"\n"+describePlan(plan, names, ""))
					if len(targets) > 1 {
						obs.Poison = "the previous file of this engine:\n" + string(cfg.prev.Src)
					}
				}
			}
			cfg.prev, cfg.prevJudge = t, judgeAll
			sigs := map[string]bool{}
			for _, tn := range order {
				call, ok := tn.n.(*ast.CallExpr)
				if !ok {
					continue
				}
				id, ok := call.Fun.(*ast.Ident)
				if !ok || id.Name != "probe" || len(call.Args) != 1 {
					continue
				}
				lab, _ := strconv.Atoi(call.Args[0].(*ast.BasicLit).Value)
				obs.Probes++
				want := "live"
				if expDead[tn.id] {
					want = "dead"
					obs.Dead++
				}
				sig := contextSig(tn, func(n ast.Node) (bool, bool) { return condOf(t.Info, n) })
				if sig != "" {
					sigs[want+":"+sig] = true
				}
				hk := "live"
				if hookDead[tn.n] {
					hk = "dead"
				}
				if vShared[lab] != want || vFresh[lab] != want || hk != want {
					pos := t.Fset.Position(call.Pos())
					obs.Mismatch = append(obs.Mismatch, fmt.Sprintf("probe(%d) at line %d [%s]: expected %s, engine(shared state)=%q engine(fresh)=%q walker-flag=%s",
						lab, pos.Line, sig, want, vShared[lab], vFresh[lab], hk))
				}
			}
			for s := range sigs {
				obs.Sigs = append(obs.Sigs, s)
			}
			if len(obs.Mismatch) > 0 {
				obs.Src, obs.Files, obs.Order = src, cfg.files, cfg.order
				if len(obs.Mismatch) > 8 {
					obs.Mismatch = obs.Mismatch[:8]
				}
			}
			enc.Encode(obs)
		}
	}
}

// kitchenSinkTyped: a type-correct file with (nearly) every construct, for engine-level runs.
const kitchenSinkTyped = `// Package doc.
package sink

import (
	"fmt" // line comment
	str "strings"
)

// C doc.
const (
	ca, cb = 1, "s" // values
	cc     float64 = 2
	ct     = true
)

var va, vb int

var x = 7

// S doc.
type S struct {
	// field doc
	A, B int    ` + "`json:\"a\"`" + ` // field comment
	C    string ` + "`x`" + `
	*T0
	fmt.Stringer
}

type T0 struct{}

type I interface {
	M(a int, rest ...string) (r error)
	fmt.Stringer
}

type Num interface {
	~int | ~string
}

type G[T comparable, U any] struct {
	k T
	v map[T][]U
}

type (
	A1 [3]int
	F1 func(int, ...string) (int, error)
	Ch chan<- int
	P[T any] *T
)

func gen[T comparable, U any](a T, b U) (T, U) { return a, b }

func (g *G[T, U]) m(x T) (res U) { return g.v[x][0] }

func probe(n int) int { return n }

func e1() {}
func e2() {}
func e3() {}

// f doc.
func f(foo int, ss ...string) (n int, err error) {
	var g G[int, string]
	_ = g
	_ = gen[int, string]
	_, _ = gen[int, string](1, "a")
	_ = G[int, string]{k: 1}
	_ = []int{1, 2, 3}[0:2:3]
	_ = []int{1, foo}[:]
	_ = map[string]int{"a": 1}["a"]
	_ = (foo + 1) * -foo
	_ = [...]int{1, 2}
	p := &foo
	*p++
	x--
	probe(1)
	probe(foo)
	probe(2)
	fmt.Println(1, foo, x+1)
	fmt.Println(1, 2, foo, foo)
	_ = []int{3, 4, foo, foo, 5, 6}
	va, vb = vb, va
	var e interface{} = foo
	if v, ok := e.(int); ok && v > 0 {
		n = v
	} else if ct {
		n = 1
		probe(3)
	} else {
		n = 2
		probe(4)
		probe(5)
	}
	switch y := e.(type) {
	case int, string:
		_ = y
	default:
	}
	switch e.(type) {
	}
	switch z := foo; z {
	case 1, 2:
		fallthrough
	case 3:
	default:
		break
	}
	switch {
	case foo > 1:
		va = 1
		vb = 2
	}
	ch := make(chan int, 1)
	select {
	case ch <- 1:
	case v := <-ch:
		_ = v
		va = 1
		vb = 2
	default:
	}
L:
	for i := 0; i < 3; i++ {
		for k, v := range ss {
			_, _ = k, v
			continue L
		}
		for range ss {
		}
		goto M
	}
M:
	;
	go func() { defer fmt.Println(str.ToUpper("a")) }()
	{
		const local = false
		if local {
			n = 3
			probe(6)
		}
		type T2 struct{ a int }
		var _ = T2{a: 1}
		var q1 int
		var q2 int
		_, _ = q1, q2
	}
	func(a ...int) {}(1, 2)
	_ = func() (int, string) { return 1, "" }
	for {
		break
	}
	return n, nil
}
`
