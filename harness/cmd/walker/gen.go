package main

import (
	"encoding/json"
	"fmt"
	"go/ast"
	"go/token"
	"math/rand"
	"strconv"
	"strings"

	"verif/harness/internal/hutil"

	"github.com/quasilyte/go-ruleguard/ruleguard"
)

// ---------------------------------------------------------------------------- generated nestings

type sgen struct {
	rng   *rand.Rand
	sb    strings.Builder
	label int
	max   int // statement budget
}

var conds = []string{
	"true", "false", "ct", "cf", "!ct", "!cf", "(ct)", "ct && cf", "ct || cf", "1 < 2", "2 < 1", "ct == true", "cn > 3", "cn < 3",
	"x > 3", "b", "!b", "ct && b", "cf || b", "probe(%d) > 0", "x == cn", "len(s) > 0",
	"x > 3", "b", "!b", "x < cn", "probe(%d) > 0", "x != 0", "len(s) > 0", "b && x > 1", "b || cf", "x%2 == 0", "b",
	// constant conditions that contain call-shaped nodes: builtins on constants, conversions, typed constants
	`len("abc") == 3`, `len("abc") == 4`, "unsafe.Sizeof(int64(0)) == 4", "unsafe.Sizeof(int64(0)) == 8", "bool(flag(false))",
	"bool(flag(true))", "!(len(name) > 2)", "len(name) > 2", "int(cn) == 5", "float64(cn) < 1.5", "min(1, cn) == 1", "max(1, cn) == 1",
	"bool(tf)", "bool(tt)", "tt == true", "tf != false", `string(rune(65)) == "A"`, "real(complex(1, 2)) == 2", "len([3]int{}) == 3",
	// non-constant although a constant operand decides them (go/types does not fold across a call)
	"cf && probe(%d) > 0", "ct || probe(%d) > 0", "ct && cf || b",
	"(bool)(ct)", "!bool(cf)", `name[0] == 'a'`, "x > 3", "b", "len(s) > int(cn)", "bool(b)", "flag(b) == tt",
}

func (g *sgen) probe() string {
	g.label++
	return fmt.Sprintf("probe(%d)", g.label)
}

func (g *sgen) cond() string {
	c := conds[g.rng.Intn(len(conds))]
	if strings.Contains(c, "%d") {
		g.label++
		return fmt.Sprintf(c, g.label)
	}
	return c
}

func (g *sgen) ind(d int) string { return strings.Repeat("\t", d+1) }

func (g *sgen) block(depth, n int) {
	for i := 0; i < n && g.max > 0; i++ {
		g.stmt(depth)
	}
}

func (g *sgen) ifChain(depth int) {
	g.sb.WriteString("if ")
	if g.rng.Intn(4) == 0 {
		g.sb.WriteString("_ = " + g.probe() + "; ")
	}
	g.sb.WriteString(g.cond() + " {\n")
	g.block(depth+1, 1+g.rng.Intn(3))
	g.sb.WriteString(g.ind(depth) + "}")
	switch g.rng.Intn(5) {
	case 0, 1:
		g.sb.WriteString(" else {\n")
		g.block(depth+1, 1+g.rng.Intn(3))
		g.sb.WriteString(g.ind(depth) + "}")
	case 2, 3:
		if depth < 8 {
			g.sb.WriteString(" else ")
			g.ifChain(depth)
			return
		}
	}
	g.sb.WriteString("\n")
}

func (g *sgen) stmt(depth int) {
	g.max--
	in := g.ind(depth)
	k := g.rng.Intn(28)
	if depth >= 8 {
		k = 23
	}
	switch {
	case k < 8:
		g.sb.WriteString(in)
		g.ifChain(depth)
	case k == 8:
		g.sb.WriteString(in + "func() {\n")
		g.block(depth+1, 1+g.rng.Intn(3))
		g.sb.WriteString(in + "}()\n")
	case k == 9:
		g.sb.WriteString(in + "for i := 0; i < " + g.probe() + "; i++ {\n")
		g.block(depth+1, 1+g.rng.Intn(2))
		g.sb.WriteString(in + "}\n")
	case k == 10:
		g.sb.WriteString(in + "switch {\n" + in + "case " + g.cond() + ":\n")
		g.block(depth+1, 1+g.rng.Intn(2))
		g.sb.WriteString(in + "default:\n")
		g.block(depth+1, 1)
		g.sb.WriteString(in + "}\n")
	case k == 11:
		g.sb.WriteString(in + "{\n")
		g.block(depth+1, 1+g.rng.Intn(2))
		g.sb.WriteString(in + "}\n")
	case k == 12:
		g.sb.WriteString(in + "defer func(v int) {\n")
		g.block(depth+1, 1)
		g.sb.WriteString(in + "}(" + g.probe() + ")\n")
	case k == 13:
		g.sb.WriteString(in + "_ = func(q int) int {\n")
		g.block(depth+1, 1+g.rng.Intn(2))
		g.sb.WriteString(in + "\treturn " + g.probe() + "\n" + in + "}\n")
	case k == 15:
		g.sb.WriteString(in + fmt.Sprintf("_ = (x + %d) * (cn + x)\n", g.rng.Intn(9)))
	case k == 16:
		g.sb.WriteString(in + "if len(s) > x && s[x] == int(x) {\n" + in + "\t" + g.probe() + "\n" + in + "\t" + g.probe() + "\n" + in + "}\n")
	case k == 17:
		g.sb.WriteString(in + "func() {\n" + in + "\tif b {\n" + in + "\t\treturn\n" + in + "\t}\n" + in + "\t" + g.probe() + "\n" + in + "}()\n")
	case k == 24 || k == 25:
		// comparisons over operands of several types (the custom-filter rules of the history mode look at them)
		g.sb.WriteString(in + "_ = " + []string{"x == cn", `name == "abcd"`, "b == ct", "float64(x) == 1.5", "s == nil", "x != 3", `name != "q"`,
			"b != cf", "s != nil", "float64(cn) != float64(x)", "s[0] == x"}[g.rng.Intn(11)] + "\n")
	case k == 27:
		g.label++
		l := fmt.Sprintf("L%d", g.label)
		g.sb.WriteString(in + l + ":\n" + in + "for range s {\n")
		g.block(depth+1, 1+g.rng.Intn(2))
		g.sb.WriteString(in + "\tif " + g.cond() + " {\n" + in + "\t\tcontinue " + l + "\n" + in + "\t}\n" + in + "}\n")
	case k == 26:
		g.sb.WriteString(in + "go func() {\n")
		g.block(depth+1, 1)
		g.sb.WriteString(in + "}()\n")
	case k == 14:
		g.sb.WriteString(in + "for range s {\n")
		g.block(depth+1, 1)
		g.sb.WriteString(in + "}\n")
	default:
		g.sb.WriteString(in + g.probe() + "\n")
	}
}

// genFile: a package of functions whose bodies are random nestings of if / else-if chains over constant-true,
// constant-false and non-constant conditions, with init statements, function literals, loops and switches.
func genFile(rng *rand.Rand, idx, size int) string {
	g := &sgen{rng: rng}
	fmt.Fprintf(&g.sb, "package target\n\nimport \"unsafe\"\n\nconst ct = true\nconst cf = false\nconst cn = 5\nconst name = \"abcd\"\n\ntype flag bool\n\nconst tt flag = true\nconst tf flag = false\n\nvar _ = unsafe.Sizeof(0)\n\ntype T struct{}\n\nfunc probe(n int) int { return n }\n\n")
	// function literals at package level: variable initialisers, map and slice literals of funcs
	g.max = size / 2
	fmt.Fprintf(&g.sb, "var h%d = func(x int, b bool, s []int) {\n", idx)
	g.block(0, 2+rng.Intn(3))
	g.sb.WriteString("}\n\n")
	g.max = size / 2
	fmt.Fprintf(&g.sb, "var tbl%d = map[string]func(x int, b bool, s []int){\n\t\"a\": func(x int, b bool, s []int) {\n", idx)
	g.block(1, 1+rng.Intn(3))
	g.sb.WriteString("\t},\n\t\"b\": func(x int, b bool, s []int) {\n")
	g.block(1, 1+rng.Intn(2))
	g.sb.WriteString("\t},\n}\n\n")
	g.max = size / 3
	fmt.Fprintf(&g.sb, "var fs%d = []func(x int, b bool, s []int) int{func(x int, b bool, s []int) int {\n", idx)
	g.block(0, 1+rng.Intn(3))
	g.sb.WriteString("\treturn " + g.probe() + "\n}}\n\n")
	g.max = size / 2
	fmt.Fprintf(&g.sb, "type GT%d[K comparable] struct{ k K }\n\nfunc gf%d[K comparable, V any](k K, v V, x int, b bool, s []int) {\n", idx, idx)
	g.block(0, 2+rng.Intn(3))
	fmt.Fprintf(&g.sb, "}\n\nfunc (GT%d[K]) gm(x int, b bool, s []int) {\n", idx)
	g.max = size / 2
	g.block(0, 1+rng.Intn(3))
	g.sb.WriteString("}\n\n")
	nf := 2 + rng.Intn(3)
	for i := 0; i < nf; i++ {
		g.max = size
		if i%2 == 1 {
			fmt.Fprintf(&g.sb, "func (T) m%d_%d(x int, b bool, s []int) {\n", idx, i)
		} else {
			fmt.Fprintf(&g.sb, "func f%d_%d(x int, b bool, s []int) {\n", idx, i)
		}
		g.block(0, 4+rng.Intn(5))
		g.sb.WriteString("}\n\n")
	}
	return g.sb.String()
}

// ---------------------------------------------------------------------------- kitchen sink

const kitchenSink = `// Package doc.
package sink

import (
	"fmt" // line comment
	str "strings"
)

// C doc.
const (
	ca, cb = 1, "s" // values
	cc     float64 = 2
)

var va, vb int

// S doc.
type S struct {
	// field doc
	A, B int    ` + "`json:\"a\"`" + ` // field comment
	C    string ` + "`x`" + `
	*S
	fmt.Stringer
}

type I interface {
	M(a int, rest ...string) (r error)
	fmt.Stringer
	~int | ~string
}

type G[T comparable, U any] struct {
	k T
	v map[T][]U
}

type (
	A1 [3]int
	A2 [...]int
	F1 func(int, ...string) (int, error)
	Ch chan<- int
	P[T any] *T
)

func gen[T comparable, U any](a T, b U) (T, U) { return a, b }

func (g *G[T, U]) m(x T) (res U) { return g.v[x][0] }

// f doc.
func f(x int, ss ...string) (n int, err error) {
	var g G[int, string]
	_ = gen[int, string]
	_, _ = gen[int, string](1, "a")
	_ = G[int, string]{k: 1}
	_ = []int{1, 2, 3}[0:2:3]
	_ = map[string]int{"a": 1}["a"]
	_ = (x + 1) * -x
	p := &x
	*p++
	x--
	var e interface{} = x
	if v, ok := e.(int); ok && v > 0 {
		n = v
	} else if true {
		n = 1
	} else {
		n = 2
	}
	switch y := e.(type) {
	case int, string:
		_ = y
	default:
	}
	switch z := x; z {
	case 1, 2:
		fallthrough
	case 3:
	default:
		break
	}
	ch := make(chan int, 1)
	select {
	case ch <- 1:
	case v := <-ch:
		_ = v
	default:
	}
L:
	for i := 0; i < 3; i++ {
		for k, v := range ss {
			_, _ = k, v
			continue L
		}
		for range ss {
		}
		goto M
	}
M:
	;
	go func() { defer fmt.Println(str.ToUpper("a")) }()
	{
		const local = false
		if local {
			n = 3
		}
		type T2 struct{ a int }
		var _ = T2{a: 1}
	}
	func(a ...int) {}(1, 2)
	_ = func() (int, string) { return 1, "" }
	for {
		break
	}
	return n, nil
}
`

// ---------------------------------------------------------------------------- engine-level dead code

const deadRules = `package gorules

import "github.com/quasilyte/go-ruleguard/dsl"

func dead(m dsl.Matcher) {
	m.Match(` + "`probe($x)`" + `).Where(m.Deadcode()).Report(` + "`dead $x`" + `)
}

func live(m dsl.Matcher) {
	m.Match(` + "`probe($x)`" + `).Where(!m.Deadcode()).Report(` + "`live $x`" + `)
}
`

type dcObs struct {
	K        string   `json:"k"`
	Name     string   `json:"name"`
	Probes   int      `json:"probes"`
	Dead     int      `json:"dead"`
	Sigs     []string `json:"sigs"`
	Mismatch []string `json:"mismatch,omitempty"`
	Src      string   `json:"src,omitempty"`
	Err      string   `json:"err,omitempty"`
}

// contextSig describes the enclosing ifs of a node: per if, constant-ness of the condition and the part entered.
func contextSig(t *tnode, condOfNode func(ast.Node) (bool, bool)) string {
	var parts []string
	for c, p := t, t.par; p != nil; c, p = p, p.par {
		ifs, ok := p.n.(*ast.IfStmt)
		if !ok {
			if _, ok := p.n.(*ast.FuncLit); ok {
				parts = append(parts, "fn")
			}
			continue
		}
		known, val := condOfNode(p.n)
		cs := "N"
		if known && val {
			cs = "T"
		} else if known {
			cs = "F"
		}
		part := "?"
		switch {
		case c.n == ast.Node(ifs.Body):
			part = "B"
		case ifs.Else != nil && c.n == ifs.Else:
			part = "E"
		case ifs.Init != nil && c.n == ifs.Init:
			part = "I"
		case c.n == ifs.Cond:
			part = "C"
		}
		parts = append(parts, cs+part)
	}
	return strings.Join(parts, ".")
}

func runDeadcode(enc *json.Encoder, rng *rand.Rand, nfiles, size int, tmp string) {
	fset := token.NewFileSet()
	e, err := hutil.LoadEngine(fset, map[string]string{"rules.go": deadRules}, []string{"rules.go"})
	if err != nil {
		enc.Encode(dcObs{K: "dc", Err: "load: " + err.Error()})
		return
	}
	shared := ruleguard.NewRunnerState(e)
	for i := 0; i < nfiles; i++ {
		src := genFile(rng, i, size)
		name := fmt.Sprintf("dc%d/target.go", i)
		t, err := hutil.CheckTarget(tmp, name, []byte(src))
		if err != nil {
			enc.Encode(dcObs{K: "dc", Name: name, Err: err.Error(), Src: src})
			continue
		}
		obs := dcObs{K: "dc", Name: name}
		// engine verdicts, once with a state shared by all files of this run and once with a fresh one
		verdict := func(state *ruleguard.RunnerState) (map[int]string, string) {
			reps, pmsg := hutil.Run(e, t, 0, "", state)
			out := map[int]string{}
			for _, r := range reps {
				lab, err := strconv.Atoi(string(t.Src[r.Pos+len("probe(") : r.End-1]))
				if err != nil {
					return nil, "report on a non-probe node: " + string(t.Src[r.Pos:r.End])
				}
				if prev, dup := out[lab]; dup {
					out[lab] = prev + "+" + r.Group
				} else {
					out[lab] = r.Group
				}
			}
			return out, pmsg
		}
		vShared, p1 := verdict(shared)
		vFresh, p2 := verdict(nil)
		if p1 != "" || p2 != "" {
			obs.Mismatch = append(obs.Mismatch, "run failed: "+p1+p2)
		}
		// independent expectation + the hook's flag
		_, ids, order := buildTree(t.File)
		_ = ids
		exp := expected(t.Info, order, event{Func: -1})
		expDead := map[int]bool{}
		for _, ev := range exp {
			expDead[ev.ID] = ev.Dead
		}
		hookEvs, _, _ := ruleguard.VerifWalkEvents(t.Info, t.File, ruleguard.VerifWalkState{}, -1)
		hookDead := map[ast.Node]bool{}
		for _, ev := range hookEvs {
			hookDead[ev.Node] = ev.Dead
		}
		sigs := map[string]bool{}
		for _, tn := range order {
			call, ok := tn.n.(*ast.CallExpr)
			if !ok {
				continue
			}
			id, ok := call.Fun.(*ast.Ident)
			if !ok || id.Name != "probe" || len(call.Args) != 1 {
				continue
			}
			lab, _ := strconv.Atoi(call.Args[0].(*ast.BasicLit).Value)
			obs.Probes++
			want := "live"
			if expDead[tn.id] {
				want = "dead"
				obs.Dead++
			}
			sig := contextSig(tn, func(n ast.Node) (bool, bool) { return condOf(t.Info, n) })
			if sig != "" {
				sigs[want+":"+sig] = true
			}
			hk := "live"
			if hookDead[tn.n] {
				hk = "dead"
			}
			if vShared[lab] != want || vFresh[lab] != want || hk != want {
				pos := t.Fset.Position(call.Pos())
				obs.Mismatch = append(obs.Mismatch, fmt.Sprintf("probe(%d) at line %d [%s]: expected %s, engine(shared state)=%q engine(fresh)=%q walker-flag=%s",
					lab, pos.Line, sig, want, vShared[lab], vFresh[lab], hk))
			}
		}
		for s := range sigs {
			obs.Sigs = append(obs.Sigs, s)
		}
		if len(obs.Mismatch) > 0 {
			obs.Src = src
			if len(obs.Mismatch) > 8 {
				obs.Mismatch = obs.Mismatch[:8]
			}
		}
		enc.Encode(obs)
	}
}

// kitchenSinkTyped: a type-correct file with (nearly) every construct, for engine-level runs.
const kitchenSinkTyped = `// Package doc.
package sink

import (
	"fmt" // line comment
	str "strings"
)

// C doc.
const (
	ca, cb = 1, "s" // values
	cc     float64 = 2
	ct     = true
)

var va, vb int

var x = 7

// S doc.
type S struct {
	// field doc
	A, B int    ` + "`json:\"a\"`" + ` // field comment
	C    string ` + "`x`" + `
	*T0
	fmt.Stringer
}

type T0 struct{}

type I interface {
	M(a int, rest ...string) (r error)
	fmt.Stringer
}

type Num interface {
	~int | ~string
}

type G[T comparable, U any] struct {
	k T
	v map[T][]U
}

type (
	A1 [3]int
	F1 func(int, ...string) (int, error)
	Ch chan<- int
	P[T any] *T
)

func gen[T comparable, U any](a T, b U) (T, U) { return a, b }

func (g *G[T, U]) m(x T) (res U) { return g.v[x][0] }

func probe(n int) int { return n }

func e1() {}
func e2() {}
func e3() {}

// f doc.
func f(foo int, ss ...string) (n int, err error) {
	var g G[int, string]
	_ = g
	_ = gen[int, string]
	_, _ = gen[int, string](1, "a")
	_ = G[int, string]{k: 1}
	_ = []int{1, 2, 3}[0:2:3]
	_ = []int{1, foo}[:]
	_ = map[string]int{"a": 1}["a"]
	_ = (foo + 1) * -foo
	_ = [...]int{1, 2}
	p := &foo
	*p++
	x--
	probe(1)
	probe(foo)
	probe(2)
	fmt.Println(1, foo, x+1)
	fmt.Println(1, 2, foo, foo)
	_ = []int{3, 4, foo, foo, 5, 6}
	va, vb = vb, va
	var e interface{} = foo
	if v, ok := e.(int); ok && v > 0 {
		n = v
	} else if ct {
		n = 1
		probe(3)
	} else {
		n = 2
		probe(4)
		probe(5)
	}
	switch y := e.(type) {
	case int, string:
		_ = y
	default:
	}
	switch e.(type) {
	}
	switch z := foo; z {
	case 1, 2:
		fallthrough
	case 3:
	default:
		break
	}
	switch {
	case foo > 1:
		va = 1
		vb = 2
	}
	ch := make(chan int, 1)
	select {
	case ch <- 1:
	case v := <-ch:
		_ = v
		va = 1
		vb = 2
	default:
	}
L:
	for i := 0; i < 3; i++ {
		for k, v := range ss {
			_, _ = k, v
			continue L
		}
		for range ss {
		}
		goto M
	}
M:
	;
	go func() { defer fmt.Println(str.ToUpper("a")) }()
	{
		const local = false
		if local {
			n = 3
			probe(6)
		}
		type T2 struct{ a int }
		var _ = T2{a: 1}
		var q1 int
		var q2 int
		_, _ = q1, q2
	}
	func(a ...int) {}(1, 2)
	_ = func() (int, string) { return 1, "" }
	for {
		break
	}
	return n, nil
}
`
