package main

import (
	"fmt"
	"go/ast"
	"math/rand"
	"sort"
	"strings"

	"verif/harness/internal/hutil"
)

// ---------------------------------------------------------------------------- rule groups with local helper funcs
//
// A rule group may define local funcs (`skip := func() bool { return m.Deadcode() }`); a call of one in Where() stands for its
// body, and the name means what THIS group defined. The helper files below have several groups that define parameterless local
// funcs of the same few names with different bodies -- matcher-level filters (Deadcode(), File().Name / PkgPath / Imports,
// GoVersion()), negations, conjunctions, calls of other helpers of the group -- so that the source text of a filter
// (`skip()`) says nothing about what it computes. Every group matches one identifier of the generated targets (a "lane":
// `probe`, `x`, `b`); nothing else in the histories matches identifiers of these names, so within a lane the first group (in file
// order) whose Where() holds reports the node. What holds is evaluated here, on the formula, with the independent dead-code flag.

type hkNode struct {
	Op   string // atom | call | not | and | or
	Atom int
	Call string
	X, Y *hkNode
}

// matcher-level filters and what they answer on the generated targets (dc<i>/target.go, package target, imports "unsafe",
// RunContext.GoVersion unset = any version).
var hkAtoms = []struct {
	Src  string
	Dead bool // answers the dead-code flag
	Val  bool // the constant answer otherwise
}{
	{"m.Deadcode()", true, false},
	{"m.File().Name.Matches(`^target`)", false, true},
	{"m.File().Name.Matches(`_test\\.go$`)", false, false},
	{"m.File().PkgPath.Matches(`target`)", false, true},
	{"m.File().PkgPath.Matches(`^main$`)", false, false},
	{"m.File().Imports(`unsafe`)", false, true},
	{"m.File().Imports(`fmt`)", false, false},
	{"m.GoVersion().GreaterEqThan(`1.16`)", false, true},
	{"m.GoVersion().LessThan(`1.1`)", false, true},
	{"m.GoVersion().Eq(`1.13`)", false, true},
}

func (n *hkNode) render() string {
	paren := func(x *hkNode) string {
		if x.Op == "and" || x.Op == "or" {
			return "(" + x.render() + ")"
		}
		return x.render()
	}
	switch n.Op {
	case "atom":
		return hkAtoms[n.Atom].Src
	case "call":
		return n.Call + "()"
	case "not":
		return "!" + paren(n.X)
	case "and":
		return paren(n.X) + " && " + paren(n.Y)
	}
	return paren(n.X) + " || " + paren(n.Y)
}

func (n *hkNode) eval(dead bool, defs map[string]*hkNode) bool {
	switch n.Op {
	case "atom":
		if hkAtoms[n.Atom].Dead {
			return dead
		}
		return hkAtoms[n.Atom].Val
	case "call":
		return defs[n.Call].eval(dead, defs)
	case "not":
		return !n.X.eval(dead, defs)
	case "and":
		return n.X.eval(dead, defs) && n.Y.eval(dead, defs)
	}
	return n.X.eval(dead, defs) || n.Y.eval(dead, defs)
}

func (n *hkNode) usesDead(defs map[string]*hkNode) bool {
	if n == nil {
		return false
	}
	switch n.Op {
	case "atom":
		return hkAtoms[n.Atom].Dead
	case "call":
		return defs[n.Call].usesDead(defs)
	}
	return n.X.usesDead(defs) || n.Y.usesDead(defs)
}

type hkGroup struct {
	Name  string
	Lane  string // the identifier the group's rule matches
	Names []string
	Defs  map[string]*hkNode
	Where *hkNode
}

var hkLanes = []string{"probe", "x", "b"}
var hkNames = []string{"skip", "ok", "gen"}

// genHelperFile: n groups, lanes in rotation. Helper bodies: mostly a single matcher-level filter (Deadcode() every other time).
func genHelperFile(rng *rand.Rand, n, serial int) (src string, groups []hkGroup) {
	atom := func() *hkNode {
		if rng.Intn(2) == 0 {
			return &hkNode{Op: "atom", Atom: 0}
		}
		return &hkNode{Op: "atom", Atom: 1 + rng.Intn(len(hkAtoms)-1)}
	}
	var sb strings.Builder
	sb.WriteString("package gorules\n\nimport \"github.com/quasilyte/go-ruleguard/dsl\"\n\n")
	for i := 0; i < n; i++ {
		g := hkGroup{Lane: hkLanes[i%len(hkLanes)], Defs: map[string]*hkNode{}}
		g.Name = fmt.Sprintf("hk%d_%s", serial*100+i, g.Lane)
		nh := 1 + rng.Intn(2)
		first := rng.Intn(len(hkNames))
		for h := 0; h < nh; h++ {
			name := hkNames[(first+h)%len(hkNames)]
			var body *hkNode
			switch k := rng.Intn(10); {
			case k < 6:
				body = atom()
			case k == 6:
				body = &hkNode{Op: "not", X: atom()}
			case k == 7:
				body = &hkNode{Op: []string{"and", "or"}[rng.Intn(2)], X: atom(), Y: atom()}
			case k == 8 && h > 0:
				body = &hkNode{Op: "not", X: &hkNode{Op: "call", Call: g.Names[0]}}
			default:
				body = atom()
			}
			g.Names = append(g.Names, name)
			g.Defs[name] = body
		}
		// every helper is called (Go rejects an unused local func)
		c := func(k int) *hkNode { return &hkNode{Op: "call", Call: g.Names[k]} }
		not := func(x *hkNode) *hkNode { return &hkNode{Op: "not", X: x} }
		bin := func(op string, x, y *hkNode) *hkNode { return &hkNode{Op: op, X: x, Y: y} }
		if nh == 1 {
			switch rng.Intn(7) {
			case 0, 1, 2:
				g.Where = c(0)
			case 3:
				g.Where = not(c(0))
			case 4:
				g.Where = bin("and", c(0), atom())
			case 5:
				g.Where = bin("and", atom(), not(c(0)))
			default:
				g.Where = bin("or", not(c(0)), atom())
			}
		} else {
			switch rng.Intn(6) {
			case 0:
				g.Where = bin("and", c(0), c(1))
			case 1:
				g.Where = bin("or", c(0), c(1))
			case 2:
				g.Where = bin("and", c(0), not(c(1)))
			case 3:
				g.Where = bin("or", not(c(0)), c(1))
			case 4:
				g.Where = not(bin("and", c(1), c(0)))
			default:
				g.Where = bin("and", atom(), bin("or", c(0), not(c(1))))
			}
		}
		fmt.Fprintf(&sb, "func %s(m dsl.Matcher) {\n", g.Name)
		for _, name := range g.Names {
			fmt.Fprintf(&sb, "\t%s := func() bool { return %s }\n", name, g.Defs[name].render())
		}
		fmt.Fprintf(&sb, "\tm.Match(`%s`).Where(%s).Report(`%s`)\n}\n\n", g.Lane, g.Where.render(), g.Name)
		groups = append(groups, g)
	}
	return sb.String(), groups
}

// hkStats: what a helper file exercises -- pairs of groups of one file that define a helper of the same name with different
// bodies (at least one of them reading the dead-code flag).
func hkStats(groups []hkGroup) (clashes int) {
	for i := range groups {
		for j := i + 1; j < len(groups); j++ {
			for name, bi := range groups[i].Defs {
				if bj, ok := groups[j].Defs[name]; ok && bi.render() != bj.render() && (bi.usesDead(groups[i].Defs) || bj.usesDead(groups[j].Defs)) {
					clashes++
				}
			}
		}
	}
	return clashes
}

// judgeHelpers compares the reports of the helper groups of a complete run with what the formulas say: per identifier node of a
// lane, the first group of the lane (file order) whose Where() holds on the node's dead-code flag reports it, nobody else does.
func judgeHelpers(groups []hkGroup, reps []hReport, t *hutil.Target, order []*tnode, expDead map[int]bool, how string) (mismatch []string, decided int) {
	if len(groups) == 0 {
		return nil, 0
	}
	isHK := map[string]bool{}
	for _, g := range groups {
		isHK[g.Name] = true
	}
	got := map[string]bool{}
	for _, r := range reps {
		if isHK[r.Group] {
			got[fmt.Sprintf("%d-%d %s", r.Pos, r.End, r.Group)] = true
		}
	}
	want := map[string]string{}
	for _, tn := range order {
		id, ok := tn.n.(*ast.Ident)
		if !ok {
			continue
		}
		dead, ok := expDead[tn.id]
		if !ok {
			continue
		}
		for _, g := range groups {
			if g.Lane != id.Name {
				continue
			}
			decided++
			if g.Where.eval(dead, g.Defs) {
				pos := t.Fset.Position(id.Pos())
				var defs []string
				for _, name := range g.Names {
					defs = append(defs, name+" := "+g.Defs[name].render())
				}
				want[fmt.Sprintf("%d-%d %s", pos.Offset, pos.Offset+len(id.Name), g.Name)] = fmt.Sprintf("`%s` at line %d (%s code), Where(%s) with %s",
					id.Name, pos.Line, map[bool]string{true: "dead", false: "live"}[dead], g.Where.render(), strings.Join(defs, "; "))
				break
			}
		}
	}
	var keys []string
	for k := range want {
		if !got[k] {
			keys = append(keys, k)
		}
	}
	sort.Strings(keys)
	for _, k := range keys {
		mismatch = append(mismatch, fmt.Sprintf("group %s (local helper funcs) did not report %s [%s state]", strings.SplitN(k, " ", 2)[1], want[k], how))
	}
	keys = keys[:0]
	for k := range got {
		if _, ok := want[k]; !ok {
			keys = append(keys, k)
		}
	}
	sort.Strings(keys)
	for _, k := range keys {
		p := strings.SplitN(k, " ", 2)
		var a, b int
		fmt.Sscanf(p[0], "%d-%d", &a, &b)
		mismatch = append(mismatch, fmt.Sprintf("group %s (local helper funcs) reported `%s` at line %d, which its Where() -- or an earlier group of its lane -- rules out [%s state]",
			p[1], t.Src[a:b], 1+strings.Count(string(t.Src[:a]), "\n"), how))
	}
	if len(mismatch) > 3 {
		mismatch = mismatch[:3]
	}
	return mismatch, decided
}
