package main

import (
	"fmt"
	"strings"
)

// deepNest: a type-correct file whose AST is nested far deeper than hand-written code ever is -- the shapes generated code has:
// left-nested binary expressions with n operands (string concatenations of raw descriptors; sums), else-if chains of n arms,
// fluent call chains, nested parentheses / unary operators / blocks / function literals / composite literals /
// index expressions. The innermost node of every nest is a leaf that occurs nowhere else ("needle ..." literals, probe calls
// with their own labels), and every level has a node of its own, so a walk that gives up below some depth loses reports of
// rules for the leaf, for the level nodes, or both. One arm of the else-if chain has a constant-false condition half way down
// (its body and nothing else is dead code).
const deepNestName = "deepnest.go"

func deepNest(n int) string {
	var sb strings.Builder
	sb.WriteString("// Package deep doc.\npackage deep\n\nconst cf = false\n\nfunc probe(n int) int { return n }\n\ntype chain struct{ k int }\n\nfunc (c chain) next() chain { return c }\n\nfunc (c chain) val(n int) int { return n + c.k }\n\n")
	// left-nested concatenation / sum: ((("needle" + "chunk 1") + "chunk 2") + ...)
	sb.WriteString("const rawDesc = \"needle concat\"")
	for i := 1; i < n; i++ {
		fmt.Fprintf(&sb, " +\n\t\"chunk %d\"", i)
	}
	sb.WriteString("\n\nvar sum = probe(1000)")
	for i := 1; i < n/2; i++ {
		fmt.Fprintf(&sb, " + %d", i)
	}
	// right-nested: a && (b && (c ...)) through parentheses
	sb.WriteString("\n\nfunc conj(b bool) bool {\n\treturn ")
	for i := 0; i < n/2; i++ {
		sb.WriteString("b && (")
	}
	sb.WriteString("probe(1001) > 0" + strings.Repeat(")", n/2) + "\n}\n\n")
	// else-if chain: IfStmt.Else nests
	sb.WriteString("func elseIfs(x int) {\n\t")
	for i := 0; i < n; i++ {
		c := fmt.Sprintf("x == %d", i)
		if i == n/2 {
			c = "cf"
		}
		body := ""
		if i%8 == 0 || i == n/2 || i == n-1 {
			body = fmt.Sprintf("\t\tprobe(%d)\n", i)
		}
		fmt.Fprintf(&sb, "if %s {\n%s\t} else ", c, body)
	}
	fmt.Fprintf(&sb, "{\n\t\tprobe(%d)\n\t}\n}\n\n", n)
	// fluent chain: CallExpr.Fun -> SelectorExpr.X -> CallExpr ...
	sb.WriteString("func calls() int {\n\treturn chain{k: probe(1002)}" + strings.Repeat(".\n\t\tnext()", n/2) + ".val(7)\n}\n\n")
	sb.WriteString("func parens(x int) int {\n\treturn " + strings.Repeat("(", n/2) + "probe(1003)" + strings.Repeat(")", n/2) + "\n}\n\n")
	sb.WriteString("func nots(b bool) bool {\n\treturn " + strings.Repeat("!", n/2) + "(probe(1004) > 0)\n}\n\n")
	sb.WriteString("func blocks() {\n" + strings.Repeat("{", n/2) + "\n\tprobe(1005)\n" + strings.Repeat("}", n/2) + "\n}\n\n")
	sb.WriteString("func lits() {\n" + strings.Repeat("func() {\n", n/4) + "\tprobe(1006)\n" + strings.Repeat("}()\n", n/4) + "}\n\n")
	sb.WriteString("func loops(s []int) {\n" + strings.Repeat("for range s {\n", n/4) + "\tprobe(1007)\n" + strings.Repeat("}\n", n/4) + "}\n\n")
	sb.WriteString("type cell struct{ in *cell }\n\nvar cells = " + strings.Repeat("&cell{in: ", n/4) + "nil" + strings.Repeat("}", n/4) + "\n\n")
	sb.WriteString("func index(m map[int]int) int {\n\treturn " + strings.Repeat("m[", n/4) + "probe(1008)" + strings.Repeat("]", n/4) + "\n}\n")
	return sb.String()
}

// deepSets: targeted rule sets for the deep target (theme "deep"): the leaves at the bottom of the nests, the nodes every level
// consists of, and both next to each other.
var deepSets = []struct {
	Theme string
	Rules []tRule
}{
	{"deep", []tRule{{`"needle concat"`, "", "a", nil}, {"probe($x)", "", "b", nil}, {"nil", "", "c", nil}, {"cf", "", "d", nil}}},
	{"deep", []tRule{{"$x + $y", "", "a", nil}, {"$x && $y", "", "b", nil}, {"$x.next()", "", "c", nil}, {"($x)", "", "d", nil}, {"!$x", "", "e", nil},
		{"$x == $y", "const", "f", nil}, {"{ $*_ }", "live", "g", nil}, {"{ $*_ }", "", "h", nil}, {"func() { $*_ }", "", "i", nil}, {"for range $_ { $*_ }", "", "j", nil},
		{"&$x", "", "k", nil}, {"$m[$k]", "", "l", nil}, {"probe($x)", "dead", "m", nil}, {"$k: $v", "", "n", nil}}},
	{"deep", []tRule{{"$f($*args)", "", "a", nil}, {"$x.$y", "", "b", nil}, {"$x > $y", "", "c", nil}, {"return $*_", "", "d", nil}}},
}
