package main

// -mode history (C09), third part:
//   * a type-pattern family: Type.Is / Underlying.Is patterns whose variables a FAILED match can leave bound (`[$n]T`,
//     repeated $t, `$*_` runs), all on sink($x) so that every rule is tried on every argument until one accepts, over
//     values of many array lengths / element types / map, func and struct shapes in shuffled orders;
//   * a comment-rule family: MatchComment rules whose regexps name their groups alike, earlier ones rejected by their
//     filters, over comments that several of the regexps match;
//   * rule locality: what a rule reports must not depend on the rules loaded next to it -- every report of the whole rule
//     set is, word for word, a report of the engine that has only this group; and the first group (in load order) that
//     reports a node alone is not silenced in the whole set;
//   * re-entrant calls in the histories: Report callbacks that start runs on states nobody is using.

import (
	"encoding/json"
	"fmt"
	"math/rand"
	"sort"
	"strings"
	"sync"

	"verif/harness/internal/hutil"

	"github.com/quasilyte/go-ruleguard/ruleguard"
)

// ---------------------------------------------------------------------------- type patterns

var typePatterns = []struct{ Method, Pat string }{
	{"Type.Is", "[$n]string"}, {"Type.Is", "[$n]int"}, {"Type.Is", "[$n][$n]int"}, {"Type.Is", "[$n][]string"},
	{"Type.Is", "map[$t]$t"}, {"Type.Is", "map[$k][]$k"}, {"Type.Is", "map[$t][$n]$t"},
	{"Type.Is", "func($t) $t"}, {"Type.Is", "func($t, $t)"}, {"Type.Is", "func($t, $t) $t"}, {"Type.Is", "func($*_) $t"},
	{"Type.Is", "func($t, $*_) $t"}, {"Type.Is", "func($*_, $t, $t)"},
	{"Type.Is", "struct{$t; $t}"}, {"Type.Is", "struct{$*_; $t; $t}"}, {"Type.Is", "struct{$t; $*_; $t}"}, {"Type.Is", "struct{$*_; $t; $*_; $t}"},
	{"Type.Is", "chan $t"}, {"Type.Is", "*[$n]$t"}, {"Type.Is", "[][$n]string"},
	{"Type.Underlying().Is", "[$n]string"}, {"Type.Underlying().Is", "map[$t]$t"}, {"Type.Underlying().Is", "struct{$t; $t}"},
}

// genTypeGroups: k rules on sink($x), in random order; an argument is offered to every one of them until one accepts.
func genTypeGroups(rng *rand.Rand, vi, k int) (groups []string, kinds []string, dropped []string) {
	perm := rng.Perm(len(typePatterns))
	for _, pi := range perm {
		if len(groups) >= k {
			break
		}
		tp := typePatterns[pi]
		name := fmt.Sprintf("ht%d_%d", vi, pi)
		src := fmt.Sprintf("func %s(m dsl.Matcher) {\n\tm.Match(`sink($x)`).Where(m[\"x\"].%s(`%s`)).Report(`%s: $x is %s`)\n}\n", name, tp.Method, tp.Pat, name, tp.Pat)
		if _, err := loadRules(historyHeader(src)); err != nil {
			dropped = append(dropped, name+": "+err.Error())
			continue
		}
		groups = append(groups, src)
		kind := "typepattern/other"
		switch {
		case strings.Contains(tp.Pat, "[$n]"):
			kind = "typepattern/array-length-variable"
		case strings.Count(tp.Pat, "$t") > 1 || strings.Count(tp.Pat, "$k") > 1:
			kind = "typepattern/repeated-variable"
		}
		if strings.Contains(tp.Pat, "$*_") {
			kind += "+seq"
		}
		kinds = append(kinds, kind)
	}
	return groups, kinds, dropped
}

// typeSinkTarget: sink(v) calls over values whose types bind the variables of the patterns above and then fail (or
// succeed), in a seed-dependent order, in several functions; some inside loops, dead branches and function literals.
func typeSinkTarget(rng *rand.Rand) string {
	types := []string{
		"[2]int", "[3]int", "[2]string", "[3]string", "[4]string", "[2]bool", "[2][2]int", "[2][3]int", "[3][3]int", "[3][]string", "[2][]string",
		"map[string]int", "map[int]int", "map[string]string", "map[string][]string", "map[int][]string", "map[int][]int", "map[int][2]int", "map[string][3]int",
		"func(int) int", "func(int) string", "func(string) string", "func(int, int)", "func(int, string)", "func(int, int) int", "func(int, int) string",
		"func(string, int, int)", "func(bool, string, string)", "func() int", "func(int, bool) int",
		"struct{ a, b int }", "struct {\n\t\ta int\n\t\tb string\n\t}", "struct {\n\t\tx bool\n\t\ta, b string\n\t}", "struct {\n\t\ta int\n\t\tx bool\n\t\tb int\n\t}",
		"struct {\n\t\ta bool\n\t\tb [2]int\n\t\tc string\n\t}", "chan int", "chan [2]int", "*[2]int", "*[5]string", "[][2]string", "[][3]string", "[][2]int",
		"Names", "Pairs", "Rec2", "Ints",
	}
	var sb strings.Builder
	sb.WriteString("package target\n\nconst cf = false\n\ntype Names [3]string\n\ntype Ints [2]int\n\ntype Pairs map[string]string\n\ntype Rec2 struct{ a, b int }\n\nfunc sink(v interface{}) {}\n\nfunc probe(n int) int { return n }\n\n")
	nfn := 4 + rng.Intn(3)
	for fi := 0; fi < nfn; fi++ {
		fmt.Fprintf(&sb, "func types%d(x int) {\n", fi)
		perm := rng.Perm(len(types))
		n := 8 + rng.Intn(10)
		for i := 0; i < n; i++ {
			fmt.Fprintf(&sb, "\tvar v%d %s\n", i, types[perm[i%len(perm)]])
		}
		order := rng.Perm(n)
		for j, i := range order {
			switch {
			case j%7 == 3:
				fmt.Fprintf(&sb, "\tif x > %d {\n\t\tsink(v%d)\n\t}\n", j, i)
			case j%7 == 5:
				fmt.Fprintf(&sb, "\tif cf {\n\t\tsink(v%d)\n\t\tprobe(%d)\n\t}\n", i, fi*100+j)
			case j%11 == 6:
				fmt.Fprintf(&sb, "\tfunc() { sink(v%d) }()\n", i)
			default:
				fmt.Fprintf(&sb, "\tsink(v%d)\n", i)
			}
		}
		sb.WriteString("}\n\n")
	}
	return sb.String()
}

// ---------------------------------------------------------------------------- comment rules

var commentKinds = []string{"TODO", "FIXME", "NOTE"}
var commentNames = []string{"who", "what"}
var commentPeople = []string{"alice", "bob", "nobody", "Carol", "dave7", "x"}

// genCommentGroups: k MatchComment groups; capture-group names come from a small pool (so they collide: the groups come
// in pairs that use one name for regexps of different kinds), most rules have a filter on the capture that rejects most
// of the texts, so that later rules are tried on a comment an earlier regexp matched; a report shows the capture.
func genCommentGroups(rng *rand.Rand, vi, k int) (groups []string, dropped []string) {
	nm := "who"
	for gi := 0; gi < k; gi++ {
		kind := commentKinds[(gi+vi)%len(commentKinds)]
		if gi%2 == 0 {
			nm = commentNames[rng.Intn(len(commentNames))]
			if rng.Intn(2) == 0 {
				nm = "who"
			}
		}
		var re string
		switch rng.Intn(5) {
		case 0, 1:
			re = fmt.Sprintf(`%s\((?P<%s>\w+)\)`, kind, nm)
		case 2:
			re = fmt.Sprintf(`%s\((?P<%s>\w+)\): (?P<rest>\w+)`, kind, nm)
		case 3:
			re = fmt.Sprintf(`(?P<%s>\w+) was here`, nm)
		default:
			re = fmt.Sprintf(`%s\((?P<first>\w+)\).*\((?P<%s>\w+)\)`, kind, nm)
		}
		where := ""
		switch rng.Intn(6) {
		case 0, 1:
			where = fmt.Sprintf(".Where(m[%q].Text == %q)", nm, commentPeople[rng.Intn(len(commentPeople))])
		case 2:
			where = fmt.Sprintf(".Where(m[%q].Text != %q && m[%q].Text != %q)", nm, commentPeople[rng.Intn(len(commentPeople))], nm, commentPeople[rng.Intn(len(commentPeople))])
		case 3:
			where = fmt.Sprintf(".Where(m[%q].Text.Matches(`^[A-Z]`))", nm)
		case 4:
			where = fmt.Sprintf(".Where(m[%q].Text.Matches(`[0-9]$`) || m[%q].Text == \"x\")", nm, nm)
		}
		if gi == k-1 {
			where = "" // the last one takes what the others left
		}
		name := fmt.Sprintf("hk%d_%d", vi, gi)
		tail := fmt.Sprintf(".Report(`%s: $%s`)", name, nm)
		if rng.Intn(3) == 0 {
			tail = fmt.Sprintf(".At(m[%q]).Report(`%s at $%s`)", nm, name, nm)
		}
		src := fmt.Sprintf("func %s(m dsl.Matcher) {\n\tm.MatchComment(`%s`)%s%s\n}\n", name, re, where, tail)
		if _, err := loadRules(historyHeader(src)); err != nil {
			dropped = append(dropped, name+": "+err.Error())
			continue
		}
		groups = append(groups, src)
	}
	return groups, dropped
}

// commentTarget: comments that several of the generated regexps match at once, in every order of the kinds.
func commentTarget(rng *rand.Rand) string {
	var sb strings.Builder
	sb.WriteString("// Package target: TODO(alice): tidy FIXME(bob): later\npackage target\n\nfunc probe(n int) int { return n }\n\n")
	person := func() string { return commentPeople[rng.Intn(len(commentPeople))] }
	for fi := 0; fi < 5; fi++ {
		n := 3 + rng.Intn(5)
		fmt.Fprintf(&sb, "// fc%d doc: %s was here\nfunc fc%d() {\n", fi, person(), fi)
		for i := 0; i < n; i++ {
			var parts []string
			for k, m := 0, 2+rng.Intn(3); k < m; k++ {
				kind := commentKinds[rng.Intn(len(commentKinds))]
				switch rng.Intn(3) {
				case 0:
					parts = append(parts, fmt.Sprintf("%s(%s)", kind, person()))
				case 1:
					parts = append(parts, fmt.Sprintf("%s(%s): %s", kind, person(), person()))
				default:
					parts = append(parts, fmt.Sprintf("%s was here", person()))
				}
			}
			fmt.Fprintf(&sb, "\t// %s\n\tprobe(%d)\n", strings.Join(parts, " "), fi*10+i)
			if rng.Intn(4) == 0 {
				fmt.Fprintf(&sb, "\tprobe(%d) /* %s(%s) */\n", fi*10+i, commentKinds[rng.Intn(len(commentKinds))], person())
			}
		}
		sb.WriteString("}\n\n")
	}
	return sb.String()
}

// ---------------------------------------------------------------------------- rule locality

type anchorKey struct {
	comment  bool
	pos, end int
}

// anchorOf: a syntax report is anchored at its source range; a report inside a comment at that comment (comment rules
// stop at the first accepting rule per comment, whatever part of it a rule reports).
func anchorOf(t *hutil.Target, r hReport) anchorKey {
	for _, cg := range t.File.Comments {
		for _, cm := range cg.List {
			lo, hi := t.Fset.Position(cm.Pos()).Offset, t.Fset.Position(cm.End()).Offset
			if r.Pos >= lo && r.End <= hi {
				return anchorKey{true, lo, hi}
			}
		}
	}
	return anchorKey{false, r.Pos, r.End}
}

// runRuleLocality: per (variant, file) the whole rule set against the engines that have one group each.
func runRuleLocality(enc *json.Encoder, variants []hVariant, pool []*hutil.Target, srcs []string, whole func(vi, fi int) ([]hReport, string)) {
	for vi, v := range variants {
		// one engine per group, loaded in parallel (groups whose filters import fmt cost 0.4 s each)
		engs := make([]*ruleguard.Engine, len(v.groups))
		errs := make([]error, len(v.groups))
		var wg sync.WaitGroup
		sem := make(chan struct{}, 8)
		for gi := range v.groups {
			wg.Add(1)
			go func(gi int) {
				defer wg.Done()
				sem <- struct{}{}
				defer func() { <-sem }()
				engs[gi], errs[gi] = loadRules(historyHeader(v.groups[gi]))
			}(gi)
		}
		wg.Wait()
		names := make([]string, len(v.groups))
		for gi, g := range v.groups {
			names[gi] = groupName(g)
		}
		for fi, t := range pool {
			obs := hObs{K: "rulelocal", Variant: vi, Calls: []hCall{{File: fi, State: "nil", PanicAt: -1}}, Kinds: map[string]int{}}
			full, msg := whole(vi, fi)
			if msg != "" {
				continue // reported by the locality runs
			}
			obs.Reports = len(full)
			// the line of a rule in its file differs between the whole file and the one-group file
			full = stripLines(full)
			alone := make([][]hReport, len(v.groups))
			for gi := range v.groups {
				if errs[gi] != nil {
					if !strings.Contains(errs[gi].Error(), importFlake) {
						obs.Err = fmt.Sprintf("group %s does not load alone: %v", names[gi], errs[gi])
					}
					continue
				}
				r, _, emsg := runOnce(engs[gi], t, t.File, 0, nil, -1)
				if emsg != "" && obs.Mismatch == "" {
					obs.Mismatch = fmt.Sprintf("the engine that has only group %s: %s", names[gi], emsg)
				}
				alone[gi] = stripLines(r)
			}
			if obs.Err != "" {
				enc.Encode(obs)
				continue
			}
			idx := map[string]int{}
			for gi, n := range names {
				idx[n] = gi
			}
			// (1) every report of the whole set is a report of its group alone
			inAlone := make([]map[hReport]bool, len(v.groups))
			for gi := range alone {
				inAlone[gi] = map[hReport]bool{}
				for _, r := range alone[gi] {
					inAlone[gi][r] = true
				}
			}
			inFull := map[hReport]bool{}
			for _, r := range full {
				inFull[r] = true
				gi, ok := idx[r.Group]
				if !ok || errs[gi] != nil {
					continue
				}
				obs.Kinds[v.kind[r.Group]]++
				if !inAlone[gi][r] && obs.Mismatch == "" {
					var same []hReport
					for _, a := range alone[gi] {
						if a.Pos == r.Pos && a.End == r.End {
							same = append(same, a)
						}
					}
					obs.Mismatch = fmt.Sprintf("the whole rule set reports %+v; the engine that has only group %s reports %+v there", r, r.Group, same)
				}
			}
			// (2) the first group (load order) that reports an anchor alone is heard in the whole set
			first := map[anchorKey]int{}
			for gi := range alone {
				for _, r := range alone[gi] {
					a := anchorOf(t, r)
					if _, ok := first[a]; !ok {
						first[a] = gi
					}
				}
			}
			for gi := range alone {
				for _, r := range alone[gi] {
					if first[anchorOf(t, r)] == gi && !inFull[r] && obs.Mismatch == "" {
						obs.Mismatch = fmt.Sprintf("group %s alone reports %+v and no group loaded before it reports that node / comment alone; the whole rule set does not report it", names[gi], r)
					}
				}
			}
			if obs.Mismatch != "" {
				obs.Rules = v.rules
				obs.Srcs = []string{srcs[fi]}
			}
			enc.Encode(obs)
		}
	}
}

func stripLines(rs []hReport) []hReport {
	out := make([]hReport, len(rs))
	for i, r := range rs {
		r.Line = 0
		out[i] = r
	}
	return out
}

// ---------------------------------------------------------------------------- re-entrant calls inside histories

// genHistoryPlan: the call (file, trunc, its own state) as the root of a tree of runs; nested runs use nil, own or pooled
// states (never a state an enclosing run is using).
func genHistoryPlan(rng *rand.Rand, nrep []int, file, trunc int, st *ruleguard.RunnerState, stName string) *nestPlan {
	p := genPlan(rng, nrep, file, stName, 1+rng.Intn(2))
	p.Trunc, p.given = trunc, st
	return p
}

var _ = sort.Ints
