package main

// -mode history (C09): random sequences of Run calls over a pool of files and contexts on ONE engine with a shared /
// nil / pooled RunnerState, including Report callbacks that panic mid-file and states into which stale left-overs
// were put; every call's report sequence is compared with the same call on a fresh engine + fresh state.

import (
	"encoding/json"
	"fmt"
	"go/ast"
	"go/token"
	"go/types"
	"math/rand"
	"strings"

	"verif/harness/internal/hutil"

	"github.com/quasilyte/go-ruleguard/ruleguard"
)

var historyGroups = []string{
	"func hdead(m dsl.Matcher) {\n\tm.Match(`probe($x)`).Where(m.Deadcode()).Report(`dead $x`)\n}\n",
	"func hlive(m dsl.Matcher) {\n\tm.Match(`probe($x)`).Where(!m.Deadcode() && m[\"x\"].Const).Report(`live const $x`)\n}\n",
	"func hparent(m dsl.Matcher) {\n\tm.Match(`$x + $y`).Where(m[\"$$\"].Node.Parent().Is(`ParenExpr`)).Report(`in parens: $$`)\n}\n",
	"func hcontains(m dsl.Matcher) {\n\tm.Match(`for $i := 0; $i < $n; $i++ { $*body }`).Where(m[\"body\"].Contains(`$i`)).Report(`loop uses $i`)\n}\n",
	"func htype(m dsl.Matcher) {\n\tm.Match(`$x[$i]`).Where(m[\"x\"].Type.Is(`[]$t`) && m[\"i\"].Type.Is(`$t`)).Report(`self-typed index $x[$i]`)\n}\n",
	"func hcustom(m dsl.Matcher) {\n\tm.Match(`$x == $y`).Where(m[\"x\"].Filter(wide)).Report(`wide compare $x`)\n}\n\nfunc wide(ctx *dsl.VarFilterContext) bool {\n\treturn ctx.Type.String() == `int`\n}\n",
	"func hret(m dsl.Matcher) {\n\tm.Match(`return $*_`).Report(`return`)\n}\n",
	"func hlist(m dsl.Matcher) {\n\tm.Match(`probe($a); probe($b)`).Report(`two probes $a $b`)\n}\n",
	"func hswitch(m dsl.Matcher) {\n\tm.Match(`switch { $*_ }`).Where(m.Deadcode()).Report(`dead switch`)\n}\n",
}

type hReport struct {
	Group string `json:"g"`
	Line  int    `json:"l"`
	Pos   int    `json:"p"`
	End   int    `json:"e"`
	Msg   string `json:"m"`
	Func  string `json:"f"`
}

type hCall struct {
	File    int    `json:"file"`
	Trunc   int    `json:"trunc"`
	State   string `json:"state"` // shared | nil | poolA | poolB
	PanicAt int    `json:"panic_at"`
	Dirty   bool   `json:"dirty"`
}

type hObs struct {
	K        string   `json:"k"`
	History  int      `json:"history"`
	Calls    []hCall  `json:"calls"`
	Reports  int      `json:"reports"`
	Panics   int      `json:"panics"`
	Groups   []string `json:"groups,omitempty"` // groups that reported somewhere in this history
	Mismatch string   `json:"mismatch,omitempty"`
	Rules    string   `json:"rules,omitempty"`
	Srcs     []string `json:"srcs,omitempty"`
	Err      string   `json:"err,omitempty"`
}

func runOnce(e *ruleguard.Engine, t *hutil.Target, trunc int, st *ruleguard.RunnerState, panicAt int) (reps []hReport, panicked bool, errMsg string) {
	defer func() {
		if r := recover(); r != nil {
			if s, ok := r.(string); ok && s == "verif: report callback panic" {
				panicked = true
				return
			}
			errMsg = fmt.Sprint("engine panic: ", r)
		}
	}()
	ctx := &ruleguard.RunContext{
		Pkg: t.Pkg, Types: t.Info, Sizes: types.SizesFor("gc", "amd64"), Fset: t.Fset, TruncateLen: trunc, State: st,
		Report: func(d *ruleguard.ReportData) {
			r := hReport{Line: d.RuleInfo.Line, Msg: d.Message}
			if d.RuleInfo.Group != nil {
				r.Group = d.RuleInfo.Group.Name
			}
			if d.Node != nil {
				r.Pos, r.End = t.Fset.Position(d.Node.Pos()).Offset, t.Fset.Position(d.Node.End()).Offset
			}
			if d.Func != nil {
				r.Func = d.Func.Name.Name
			}
			reps = append(reps, r)
			if panicAt >= 0 && len(reps)-1 == panicAt {
				panic("verif: report callback panic")
			}
		},
	}
	if err := e.Run(ctx, t.File); err != nil {
		errMsg = "run error: " + err.Error()
	}
	return reps, false, errMsg
}

func runHistory(enc *json.Encoder, rng *rand.Rand, nhist, size int, tmp string) {
	// rules: keep the groups that load
	header := "package gorules\n\nimport \"github.com/quasilyte/go-ruleguard/dsl\"\n\n"
	var groups []string
	var dropped []string
	for _, g := range historyGroups {
		if _, err := hutil.LoadEngine(token.NewFileSet(), map[string]string{"r.go": header + g}, []string{"r.go"}); err != nil {
			dropped = append(dropped, err.Error())
			continue
		}
		groups = append(groups, g)
	}
	rules := header + strings.Join(groups, "\n")
	enc.Encode(hObs{K: "rules", Reports: len(groups), Err: strings.Join(dropped, " | ")})
	if len(groups) < 6 {
		return
	}
	// file pool
	var pool []*hutil.Target
	var srcs []string
	add := func(name, src string) {
		t, err := hutil.CheckTarget(tmp, name, []byte(src))
		if err != nil {
			enc.Encode(hObs{K: "hist", Err: "target " + name + ": " + err.Error(), Srcs: []string{src}})
			return
		}
		pool = append(pool, t)
		srcs = append(srcs, src)
	}
	add("hsink/target.go", kitchenSinkTyped)
	for i := 0; i < 5; i++ {
		add(fmt.Sprintf("h%d/target.go", i), genFile(rng, i, size))
	}
	if len(pool) < 3 {
		return
	}
	// reference: the same call on a fresh engine and a fresh (nil) state, computed once per (file, TruncateLen)
	type refKey struct{ file, trunc int }
	ref := map[refKey][]hReport{}
	reference := func(file, trunc int) ([]hReport, string) {
		k := refKey{file, trunc}
		if r, ok := ref[k]; ok {
			return r, ""
		}
		e, err := hutil.LoadEngine(token.NewFileSet(), map[string]string{"r.go": rules}, []string{"r.go"})
		if err != nil {
			return nil, err.Error()
		}
		r, _, msg := runOnce(e, pool[file], trunc, nil, -1)
		ref[k] = r
		return r, msg
	}
	for hi := 0; hi < nhist; hi++ {
		e, err := hutil.LoadEngine(token.NewFileSet(), map[string]string{"r.go": rules}, []string{"r.go"})
		if err != nil {
			enc.Encode(hObs{K: "hist", History: hi, Err: "load: " + err.Error(), Rules: rules})
			continue
		}
		states := map[string]*ruleguard.RunnerState{"shared": ruleguard.NewRunnerState(e), "poolA": ruleguard.NewRunnerState(e), "poolB": ruleguard.NewRunnerState(e), "nil": nil}
		obs := hObs{K: "hist", History: hi}
		seen := map[string]bool{}
		ncalls := 3 + rng.Intn(10)
		var last *hCall
		for ci := 0; ci < ncalls && obs.Mismatch == ""; ci++ {
			call := hCall{File: rng.Intn(len(pool)), Trunc: []int{0, 0, 12}[rng.Intn(3)], State: []string{"shared", "shared", "shared", "nil", "poolA", "poolB"}[rng.Intn(6)], PanicAt: -1}
			if last != nil && rng.Intn(5) == 0 {
				call = *last // repeat the same call
				call.Dirty = false
			}
			want, msg := reference(call.File, call.Trunc)
			if msg != "" {
				obs.Err = "reference: " + msg
				break
			}
			if len(want) > 0 && rng.Intn(3) == 0 {
				call.PanicAt = rng.Intn(len(want))
			}
			st := states[call.State]
			if st != nil && rng.Intn(4) == 0 {
				call.Dirty = true
				var fn *ast.FuncDecl
				for _, d := range pool[call.File].File.Decls {
					if f, ok := d.(*ast.FuncDecl); ok {
						fn = f
					}
				}
				ruleguard.VerifDirtyRunnerState(st, pool[(call.File+1)%len(pool)].File, fn)
			}
			got, panicked, emsg := runOnce(e, pool[call.File], call.Trunc, st, call.PanicAt)
			obs.Calls = append(obs.Calls, call)
			c := call
			last = &c
			if call.PanicAt >= 0 {
				want = want[:call.PanicAt+1]
				obs.Panics++
			}
			obs.Reports += len(got)
			for _, r := range got {
				seen[r.Group] = true
			}
			switch {
			case emsg != "":
				obs.Mismatch = fmt.Sprintf("call #%d %+v: %s", ci, call, emsg)
			case panicked != (call.PanicAt >= 0):
				obs.Mismatch = fmt.Sprintf("call #%d %+v: callback panic expected=%v observed=%v (reports %d, fresh run has %d)", ci, call, call.PanicAt >= 0, panicked, len(got), len(want))
			case len(got) != len(want):
				obs.Mismatch = fmt.Sprintf("call #%d %+v: %d reports, the same call on a fresh engine and state gives %d", ci, call, len(got), len(want))
			default:
				for i := range got {
					if got[i] != want[i] {
						obs.Mismatch = fmt.Sprintf("call #%d %+v: report #%d is %+v, on a fresh engine and state it is %+v", ci, call, i, got[i], want[i])
						break
					}
				}
			}
		}
		for g := range seen {
			obs.Groups = append(obs.Groups, g)
		}
		if obs.Mismatch != "" {
			obs.Rules = rules
			obs.Srcs = srcs
		}
		enc.Encode(obs)
	}
}
