package main

// -mode history (C09): random sequences of Run calls over a pool of files and contexts on ONE engine with a shared /
// nil / pooled RunnerState, including Report callbacks that panic mid-file and states into which stale left-overs
// were put; every call's report sequence is compared with the same call on a fresh engine + fresh state.
//
// The rule sets are generated (several variants per run, one per history):
//   * fixed groups for the walk-scoped context (Deadcode, Parent(), typed pattern variables, lists, ReportData.Func);
//   * a Contains() family: outer patterns that bind {no, some, all} of the variables of the sub-pattern, in random
//     rule order -- a sub-pattern variable that the outer pattern does not bind must be free at every evaluation;
//   * a custom-filter family: bytecode functions with variadic native calls (fmt.Sprintf of arity 0..3) inside
//     branches that are taken for some operand types only (if / else / && / || / loop body / helper function),
//     followed by an unconditional variadic call of the same or another arity; several such filters compete for
//     the same nodes, so the operand-stack registers see every interleaving of arities.
// Besides the history oracle, every (rule set, file) pair is checked for locality inside one run: the reports
// inside a top-level declaration (a top-level statement of a function body) must be those of a run over a file that
// has only this declaration (only this statement in its function).

import (
	"encoding/json"
	"fmt"
	"go/ast"
	"go/token"
	"go/types"
	"math/rand"
	"os"
	"strings"
	"time"

	"verif/harness/internal/hutil"

	"github.com/quasilyte/go-ruleguard/ruleguard"
)

var historyGroups = []string{
	"func hdead(m dsl.Matcher) {\n\tm.Match(`probe($x)`).Where(m.Deadcode()).Report(`dead $x`)\n}\n",
	"func hlive(m dsl.Matcher) {\n\tm.Match(`probe($x)`).Where(!m.Deadcode() && m[\"x\"].Const).Report(`live const $x`)\n}\n",
	"func hparent(m dsl.Matcher) {\n\tm.Match(`$x + $y`).Where(m[\"$$\"].Node.Parent().Is(`ParenExpr`)).Report(`in parens: $$`)\n}\n",
	"func hcontains(m dsl.Matcher) {\n\tm.Match(`for $i := 0; $i < $n; $i++ { $*body }`).Where(m[\"body\"].Contains(`$i`)).Report(`loop uses $i`)\n}\n",
	"func htype(m dsl.Matcher) {\n\tm.Match(`$x[$i]`).Where(m[\"x\"].Type.Is(`[]$t`) && m[\"i\"].Type.Is(`$t`)).Report(`self-typed index $x[$i]`)\n}\n",
	"func hcustom(m dsl.Matcher) {\n\tm.Match(`$x > $y`).Where(m[\"x\"].Filter(wide)).Report(`wide compare $x`)\n}\n\nfunc wide(ctx *dsl.VarFilterContext) bool {\n\treturn ctx.Type.String() == `int`\n}\n",
	"func hret(m dsl.Matcher) {\n\tm.Match(`return $*_`).Report(`return`)\n}\n",
	"func hlist(m dsl.Matcher) {\n\tm.Match(`probe($a); probe($b)`).Report(`two probes $a $b`)\n}\n",
	"func hswitch(m dsl.Matcher) {\n\tm.Match(`switch { $*_ }`).Where(m.Deadcode()).Report(`dead switch`)\n}\n",
	"func hpkg(m dsl.Matcher) {\n\tm.Match(`fmt.Println($*_)`, `strings.ToUpper($_)`).Report(`package symbol $$`)\n}\n",
	"func hpkgsub(m dsl.Matcher) {\n\tm.Match(`go func() { $*_ }()`).Where(m[\"$$\"].Contains(`fmt.Println($*_)`)).Report(`goroutine prints`)\n}\n",
	"func hptr(m dsl.Matcher) {\n\tm.Match(`sinkp($x)`).Where(m[\"x\"].Type.HasPointers()).Report(`has pointers: $x`)\n}\n",
	"func hsize(m dsl.Matcher) {\n\tm.Match(`sinkq($x)`).Where(!m[\"x\"].Type.HasPointers() && m[\"x\"].Type.Size >= 16).Report(`wide and pointer-free: $x`)\n}\n",
	"func hcmp(m dsl.Matcher) {\n\tm.Match(`sinkr($x)`).Where(m[\"x\"].Comparable && m[\"x\"].Type.Underlying().Is(`struct{$*_}`)).Report(`comparable struct: $x`)\n}\n",
	"func himports(m dsl.Matcher) {\n\tm.Match(`_ = $x`).Where(m.File().Imports(`unsafe`) && !m.File().Imports(`sync`)).Report(`blank in a file that imports unsafe`)\n}\n",
}

// ---------------------------------------------------------------------------- the Do() family
// Do functions that set the report / the suggestion for some operand types only: what one match put into the
// per-match strings (or the captures it saw) must not show in the next one.
func genDoGroup(rng *rand.Rand, idx int) (src, kind string) {
	t1 := vfTypes[rng.Intn(len(vfTypes))].Name
	t2 := vfTypes[rng.Intn(len(vfTypes))].Name
	op := []string{"<", ">", "=="}[rng.Intn(3)]
	name := fmt.Sprintf("hd%d", idx)
	var body strings.Builder
	body.WriteString("\tts := ctx.Var(\"x\").Type().String()\n")
	switch rng.Intn(3) {
	case 0:
		fmt.Fprintf(&body, "\tif ts == %q {\n\t\tctx.SetReport(\"%s sees \" + ctx.Var(\"x\").Text())\n\t}\n\tif ts == %q {\n\t\tctx.SetSuggest(ctx.Var(\"y\").Text())\n\t}\n", t1, name, t2)
	case 1:
		fmt.Fprintf(&body, "\tif ts != %q {\n\t\tctx.SetReport(\"%s: \" + ts)\n\t} else {\n\t\tctx.SetSuggest(ctx.Var(\"x\").Text())\n\t}\n", t1, name)
	default:
		fmt.Fprintf(&body, "\tif ts == %q {\n\t\tctx.SetSuggest(\"(\" + ctx.Var(\"y\").Text() + \")\")\n\t}\n", t2)
	}
	src = fmt.Sprintf("func %s(m dsl.Matcher) {\n\tm.Match(`$x %s $y`).Do(%sf)\n}\n\nfunc %sf(ctx *dsl.DoContext) {\n%s}\n", name, op, name, name, body.String())
	return src, "do/conditional-report-or-suggest"
}



// ---------------------------------------------------------------------------- the Contains() family

// outer patterns: %[1]s, %[2]s are variable names; Caps lists the names the pattern binds; Var is the searched capture
var containsOuters = []struct {
	Pat  string
	Caps int // how many of the two names the pattern binds
	Var  string
}{
	{"for $%[1]s := 0; $%[1]s < $%[2]s; $%[1]s++ { $*body }", 2, "body"},
	{"defer func(v int) { $*_ }($%[1]s)", 1, "$$"},
	{"s[$%[1]s] == $%[2]s", 2, "$$"},
	{"if $%[1]s { $*_ }", 1, "$$"},
	{"func() { $*_ }()", 0, "$$"},
	{"for range s { $*_ }", 0, "$$"},
	{"_ = func(q int) int { $*_ }", 0, "$$"},
	{"go func() { $*_ }()", 0, "$$"},
	{"switch { $*_ }", 0, "$$"},
}

var containsSubs = []string{"probe($%[1]s)", "$%[1]s > $%[2]s", "probe($%[1]s) > $%[2]s", "$%[1]s.Lock()", "$%[1]s + $%[2]s", "x == $%[1]s", "return $%[1]s"}

var containsNames = []string{"x", "i", "n", "y"}

func genContainsGroup(rng *rand.Rand, idx int) (src, kind string) {
	o := containsOuters[rng.Intn(len(containsOuters))]
	a, b := containsNames[rng.Intn(len(containsNames))], containsNames[rng.Intn(len(containsNames))]
	for b == a {
		b = containsNames[rng.Intn(len(containsNames))]
	}
	// the sub-pattern's variables: the same names (bound as far as the outer pattern binds them) or other ones (free)
	sa, sb := a, b
	if rng.Intn(3) == 0 {
		sa = containsNames[rng.Intn(len(containsNames))]
	}
	if rng.Intn(3) == 0 {
		sb = containsNames[rng.Intn(len(containsNames))]
	}
	sub := fmt.Sprintf(containsSubs[rng.Intn(len(containsSubs))], sa, sb)
	pat := o.Pat
	if strings.Contains(pat, "%") {
		pat = fmt.Sprintf(pat, a, b)
	}
	neg := ""
	if rng.Intn(4) == 0 {
		neg = "!"
	}
	name := fmt.Sprintf("hc%d", idx)
	kind = fmt.Sprintf("contains/outer-binds-%d", o.Caps)
	return fmt.Sprintf("func %s(m dsl.Matcher) {\n\tm.Match(`%s`).Where(%sm[\"%s\"].Contains(`%s`)).Report(`%s`)\n}\n", name, pat, neg, o.Var, sub, name), kind
}

// binders: outer patterns that bind $V (and $W) and evaluate some Contains(), so that the captures of an unrelated
// match are what the sub-matcher saw last
var containsBinders = []struct{ Pat, Var, Sub string }{
	{"probe($%[1]s)", "%[1]s", "$%[1]s"},
	{"probe($%[1]s)", "%[1]s", "$%[1]s + 1"},
	{"for $%[1]s := 0; $%[1]s < $%[2]s; $%[1]s++ { $*body }", "body", "$%[1]s"},
	{"s[$%[1]s] == $%[2]s", "$$", "$%[2]s"},
	{"defer func(v int) { $*_ }($%[1]s)", "$$", "$%[1]s"},
	{"_ = $%[1]s", "%[1]s", "$%[2]s == $_"},
	{"$%[1]s == $%[2]s", "%[1]s", "$%[1]s"},
}

// frees: outer patterns that do not bind $V (they bind nothing, or only $W); the sub-pattern's $V must be free
var containsFrees = []struct{ Pat, Sub string }{
	{"func() { $*_ }()", "probe($%[1]s)"},
	{"go func() { $*_ }()", "$%[1]s.Lock()"},
	{"go func() { $*_ }()", "probe($%[1]s)"},
	{"for range s { $*_ }", "probe($%[1]s)"},
	{"for range s { $*_ }", "$%[1]s == $_"},
	{"_ = func(q int) int { $*_ }", "return $%[1]s"},
	{"switch { $*_ }", "probe($%[1]s)"},
	{"func() { $*_ }()", "$%[1]s > $_"},
	{"if $%[2]s { $*_ }", "probe($%[1]s)"},
	{"defer func(v int) { $*_ }($%[2]s)", "$%[1]s + $%[2]s"},
	{"defer func(v int) { $*_ }($%[2]s)", "probe($%[1]s)"},
}

// genContainsPair: for one variable name, a rule that binds it and one whose Contains() sub-pattern uses it unbound.
func genContainsPair(rng *rand.Rand, idx int) (binder, free string) {
	v, w := containsNames[rng.Intn(len(containsNames))], containsNames[rng.Intn(len(containsNames))]
	for w == v {
		w = containsNames[rng.Intn(len(containsNames))]
	}
	bd := containsBinders[rng.Intn(len(containsBinders))]
	fr := containsFrees[rng.Intn(len(containsFrees))]
	f := func(t string) string {
		if strings.Contains(t, "%") {
			return fmt.Sprintf(t, v, w)
		}
		return t
	}
	bn, fn := fmt.Sprintf("hb%d", idx), fmt.Sprintf("hf%d", idx)
	binder = fmt.Sprintf("func %s(m dsl.Matcher) {\n\tm.Match(`%s`).Where(m[\"%s\"].Contains(`%s`)).Report(`%s`)\n}\n", bn, f(bd.Pat), f(bd.Var), f(bd.Sub), bn)
	free = fmt.Sprintf("func %s(m dsl.Matcher) {\n\tm.Match(`%s`).Where(m[\"$$\"].Contains(`%s`)).Report(`%s`)\n}\n", fn, f(fr.Pat), f(fr.Sub), fn)
	return binder, free
}

// ---------------------------------------------------------------------------- the custom-filter family

var vfTypes = []struct {
	Name string
	Size int
}{{"int", 8}, {"string", 16}, {"bool", 1}, {"float64", 8}, {"[]int", 24}}

type vfArg int // 0: ts   1: "c"   2: sz (int)   3: acc

func vfFormat(arity int) string {
	return []string{"k", "<%v>", "%v:%v", "%v/%v/%v"}[arity]
}

func vfArgSrc(a vfArg) string { return []string{"ts", `"c"`, "sz", "acc"}[a] }

func vfArgVal(a vfArg, ts string, sz int, acc string) interface{} {
	switch a {
	case 0:
		return ts
	case 1:
		return "c"
	case 2:
		return sz
	}
	return acc
}

type vfCall struct {
	Arity int
	Args  []vfArg
}

func (c vfCall) src() string {
	parts := []string{fmt.Sprintf("%q", vfFormat(c.Arity))}
	for _, a := range c.Args {
		parts = append(parts, vfArgSrc(a))
	}
	return "fmt.Sprintf(" + strings.Join(parts, ", ") + ")"
}

func (c vfCall) eval(ts string, sz int, acc string) string {
	var xs []interface{}
	for _, a := range c.Args {
		xs = append(xs, vfArgVal(a, ts, sz, acc))
	}
	return fmt.Sprintf(vfFormat(c.Arity), xs...)
}

func genVfCall(rng *rand.Rand, arity int, withAcc bool) vfCall {
	c := vfCall{Arity: arity}
	for i := 0; i < arity; i++ {
		n := 3
		if withAcc {
			n = 4
		}
		c.Args = append(c.Args, vfArg(rng.Intn(n)))
	}
	if arity > 0 && rng.Intn(2) == 0 {
		c.Args[0] = 0 // the operand type shows in the result more often than not
	}
	return c
}

// genVfGroup renders one custom filter function (plus a helper for the "call" shape) and the rule that uses it.
// The function's Go semantics are evaluated natively for the accepted operand type to obtain the expected string.
func genVfGroup(rng *rand.Rand, idx int) (src, kind string) {
	shape := []string{"if", "if", "else", "and", "or", "loop", "call"}[rng.Intn(7)]
	a1 := rng.Intn(4)
	a2 := a1
	if rng.Intn(2) == 0 {
		a2 = rng.Intn(4)
	}
	t1 := vfTypes[rng.Intn(len(vfTypes))] // the type for which the branch is taken
	t2 := vfTypes[rng.Intn(len(vfTypes))] // the type the filter is meant to accept
	c1 := genVfCall(rng, a1, false)
	c2 := genVfCall(rng, a2, true)
	name := fmt.Sprintf("vf%d", idx)
	var body, helper strings.Builder
	body.WriteString("\tts := ctx.Type.String()\n\tsz := ctx.SizeOf(ctx.Type)\n\tacc := \"-\"\n")
	// native evaluation for ts = t2
	ts, sz, acc := t2.Name, t2.Size, "-"
	switch shape {
	case "if":
		fmt.Fprintf(&body, "\tif ts == %q {\n\t\tacc = %s\n\t}\n", t1.Name, c1.src())
		if ts == t1.Name {
			acc = c1.eval(ts, sz, acc)
		}
	case "else":
		fmt.Fprintf(&body, "\tif ts != %q {\n\t\tacc = \"e\"\n\t} else {\n\t\tacc = %s\n\t}\n", t1.Name, c1.src())
		if ts != t1.Name {
			acc = "e"
		} else {
			acc = c1.eval(ts, sz, acc)
		}
	case "and":
		fmt.Fprintf(&body, "\tif ts == %q && %s != \"\" {\n\t\tacc = \"a\"\n\t}\n", t1.Name, c1.src())
		if ts == t1.Name && c1.eval(ts, sz, acc) != "" {
			acc = "a"
		}
	case "or":
		fmt.Fprintf(&body, "\tif ts != %q || %s == \"\" {\n\t\tacc = \"o\"\n\t}\n", t1.Name, c1.src())
		if ts != t1.Name || c1.eval(ts, sz, acc) == "" {
			acc = "o"
		}
	case "loop":
		// the body runs for operands wider than 8 bytes
		fmt.Fprintf(&body, "\tj := 8\n\tfor j < sz {\n\t\tacc = %s\n\t\tj = j + 8\n\t}\n", c1.src())
		for j := 8; j < sz; j += 8 {
			acc = c1.eval(ts, sz, acc)
		}
	case "call":
		// a helper that formats with its own arity runs between the two calls of this function
		ah := rng.Intn(4)
		ch := genVfCall(rng, ah, false)
		fmt.Fprintf(&helper, "func %sh(ts string, sz int) string {\n\treturn %s\n}\n\n", name, ch.src())
		fmt.Fprintf(&body, "\tif ts == %q {\n\t\tacc = %s\n\t}\n\tacc = acc + %sh(ts, sz)\n", t1.Name, c1.src(), name)
		if ts == t1.Name {
			acc = c1.eval(ts, sz, acc)
		}
		acc = acc + ch.eval(ts, sz, acc)
	}
	fmt.Fprintf(&body, "\tacc = acc + %s\n", c2.src())
	acc = acc + c2.eval(ts, sz, acc)
	fmt.Fprintf(&body, "\treturn acc == %q && ts != \"\" && sz > 0\n", acc)
	op := []string{"==", "==", "!="}[rng.Intn(3)]
	kind = fmt.Sprintf("variadic/%s/same-arity=%v", shape, a1 == a2)
	src = fmt.Sprintf("func %s(m dsl.Matcher) {\n\tm.Match(`$x %s $y`).Where(m[\"x\"].Filter(%sf)).Report(`%s $x`)\n}\n\n%sfunc %sf(ctx *dsl.VarFilterContext) bool {\n%s}\n",
		name, op, name, name, helper.String(), name, body.String())
	return src, kind
}

// historySink: the statements the generated families look at, in both orders, in several functions.
const historySink = `package target

import (
	"fmt"
	"sync"
)

const ct = true
const cn = 5
const name = "abcd"

var mu sync.Mutex

func probe(n int) int { return n }

func cmpA(x int, b bool, s []int, f float64, str string) {
	_ = str == name
	_ = x == cn
	_ = b == ct
	_ = f == 1.5
	_ = s == nil
	_ = x != 3
	_ = str != "q"
}

func closuresA(x int, b bool, s []int) {
	func() { probe(1) }()
	go func() { mu.Lock() }()
	go func() { fmt.Println(x) }()
	fmt.Println(b)
	for range s { probe(2) }
	_ = func(q int) int { return q }
	defer func(v int) { probe(v) }(x)
	switch { case b: probe(3) }
}

func loopsA(x int, b bool, s []int) {
	for i := 0; i < x; i++ { probe(i) }
	for n := 0; n < cn; n++ { probe(x) }
	if len(s) > x && s[x] == x { probe(4) }
	if b { _ = probe(5) > x }
	defer func(v int) { _ = v + x }(cn)
}

func closuresB(x int, b bool, s []int) {
	go func() { mu.Lock() }()
	func() { _ = probe(6) > x }()
	for range s { _ = x == 1 }
	_ = func(q int) int { return probe(q) }
	switch { case b: _ = x + 1 }
	func() { probe(7) }()
	go func() { fmt.Println(probe(10), mu.TryLock()) }()
}

func cmpB(x int, b bool, s []int, f float64, str string) {
	_ = s == nil
	_ = f != 2.5
	_ = b != ct
	_ = x == 1
	_ = str == "a"
	_ = b == b
	_ = str == str
	_ = x == x
}

func loopsB(x int, b bool, s []int) {
	if b { probe(8) }
	for y := 0; y < x; y++ { _ = y + x }
	for i := 0; i < probe(9); i++ { _ = s[i] == i }
}
`

type hReport struct {
	Group string `json:"g"`
	Line  int    `json:"l"`
	Pos   int    `json:"p"`
	End   int    `json:"e"`
	Msg   string `json:"m"`
	Func  string `json:"f"`
	Sugg  string `json:"s,omitempty"`
}

type hCall struct {
	File    int    `json:"file"`
	Trunc   int    `json:"trunc"`
	State   string `json:"state"` // shared | nil | poolA | poolB
	PanicAt int    `json:"panic_at"`
	Dirty   bool   `json:"dirty"`
	Nested  string `json:"nested,omitempty"` // the runs started from inside this run's Report callback
}

type hObs struct {
	K        string         `json:"k"`
	History  int            `json:"history"`
	Variant  int            `json:"variant"`
	Calls    []hCall        `json:"calls"`
	Reports  int            `json:"reports"`
	Panics   int            `json:"panics"`
	Nested   int            `json:"nested"` // runs started from inside Report callbacks
	Groups   []string       `json:"groups,omitempty"` // groups that reported somewhere in this history
	Kinds    map[string]int `json:"kinds,omitempty"`  // rule kinds of this variant (k=rules) / kinds that reported (k=hist, k=local)
	Mismatch string         `json:"mismatch,omitempty"`
	Rules    string         `json:"rules,omitempty"`
	Srcs     []string       `json:"srcs,omitempty"`
	Err      string         `json:"err,omitempty"`
}

func runOnce(e *ruleguard.Engine, t *hutil.Target, f *ast.File, trunc int, st *ruleguard.RunnerState, panicAt int) (reps []hReport, panicked bool, errMsg string) {
	return runOnceHook(e, t, f, trunc, st, panicAt, nil)
}

// runOnceHook: hook (if any) is called from inside the Report callback after report #idx has been recorded (and before
// the callback panics, if it is to panic there): user code that runs while the walk is in progress.
func runOnceHook(e *ruleguard.Engine, t *hutil.Target, f *ast.File, trunc int, st *ruleguard.RunnerState, panicAt int, hook func(idx int)) (reps []hReport, panicked bool, errMsg string) {
	defer func() {
		if r := recover(); r != nil {
			if s, ok := r.(string); ok && s == "verif: report callback panic" {
				panicked = true
				return
			}
			errMsg = fmt.Sprint("engine panic: ", r)
		}
	}()
	ctx := &ruleguard.RunContext{
		Pkg: t.Pkg, Types: t.Info, Sizes: types.SizesFor("gc", "amd64"), Fset: t.Fset, TruncateLen: trunc, State: st,
		Report: func(d *ruleguard.ReportData) {
			r := hReport{Line: d.RuleInfo.Line, Msg: d.Message}
			if d.RuleInfo.Group != nil {
				r.Group = d.RuleInfo.Group.Name
			}
			if d.Node != nil {
				r.Pos, r.End = t.Fset.Position(d.Node.Pos()).Offset, t.Fset.Position(d.Node.End()).Offset
			}
			if d.Func != nil {
				r.Func = d.Func.Name.Name
			}
			if d.Suggestion != nil {
				r.Sugg = fmt.Sprintf("%d-%d:%s", t.Fset.Position(d.Suggestion.From).Offset, t.Fset.Position(d.Suggestion.To).Offset, d.Suggestion.Replacement)
			}
			reps = append(reps, r)
			if hook != nil {
				hook(len(reps) - 1)
			}
			if panicAt >= 0 && len(reps)-1 == panicAt {
				panic("verif: report callback panic")
			}
		},
	}
	if err := e.Run(ctx, f); err != nil {
		errMsg = "run error: " + err.Error()
	}
	return reps, false, errMsg
}

const importFlake = "could not import github.com/quasilyte/go-ruleguard/dsl"

// loadRules loads one rules file into a fresh engine (retrying the sporadic `go list` failure of the source importer).
func loadRules(src string) (e *ruleguard.Engine, err error) {
	for try := 0; try < 4; try++ {
		func() {
			defer func() {
				if r := recover(); r != nil {
					e, err = nil, fmt.Errorf("load panics: %v", r)
				}
			}()
			e, err = hutil.LoadEngine(token.NewFileSet(), map[string]string{"r.go": src}, []string{"r.go"})
		}()
		if err == nil || !strings.Contains(err.Error(), importFlake) {
			break
		}
		time.Sleep(200 * time.Millisecond)
	}
	return e, err
}

type hVariant struct {
	groups []string // the groups of the file, in file order
	rules string
	fmt   bool // has custom filters that import fmt: engines are expensive and re-used
	kind  map[string]string // group name -> kind
}

// historyHeader: the file header for the given groups (fmt is imported only when a custom filter formats)
func historyHeader(groups string) string {
	if strings.Contains(groups, "fmt.Sprintf(") {
		return "package gorules\n\nimport (\n\t\"fmt\"\n\n\t\"github.com/quasilyte/go-ruleguard/dsl\"\n)\n\n" + groups
	}
	return "package gorules\n\nimport \"github.com/quasilyte/go-ruleguard/dsl\"\n\n" + groups
}

func groupName(src string) string {
	return strings.TrimPrefix(src[:strings.Index(src, "(")], "func ")
}

// genVariant builds one rules file: the fixed groups plus generated Contains() and custom-filter groups, shuffled.
func genVariant(rng *rand.Rand, vi int, fixed []string) (v hVariant, dropped []string) {
	v.kind = map[string]string{}
	groups := append([]string(nil), fixed...)
	for _, g := range fixed {
		v.kind[groupName(g)] = "fixed"
	}
	// random Contains() combinations are load-tested one by one (cheap); the custom filters are generated from
	// templates of the bytecode subset and tested with the whole file (importing fmt from source costs ~0.4 s per engine)
	for got, try := 0, 0; got < 3 && try < 12; try++ {
		src, kind := genContainsGroup(rng, vi*100+try)
		if _, err := loadRules(historyHeader(src)); err != nil {
			dropped = append(dropped, groupName(src)+": "+err.Error())
			continue
		}
		groups = append(groups, src)
		v.kind[groupName(src)] = kind
		got++
	}
	for got, try := 0, 0; got < 3 && try < 12; try++ {
		bsrc, fsrc := genContainsPair(rng, vi*100+20+try)
		_, err := loadRules(historyHeader(bsrc + "\n" + fsrc))
		if err != nil {
			dropped = append(dropped, groupName(bsrc)+": "+err.Error())
			continue
		}
		groups = append(groups, bsrc, fsrc)
		v.kind[groupName(bsrc)] = "contains/binder"
		v.kind[groupName(fsrc)] = "contains/free-variable"
		got++
	}
	for i := 0; i < 2; i++ {
		src, kind := genDoGroup(rng, vi*100+80+i)
		if _, err := loadRules(historyHeader(src)); err != nil {
			dropped = append(dropped, groupName(src)+": "+err.Error())
			continue
		}
		groups = append(groups, src)
		v.kind[groupName(src)] = kind
	}
	// type patterns whose variables a failed match can leave bound; comment rules whose regexps name groups alike
	tg, tk, tdr := genTypeGroups(rng, vi, 6)
	dropped = append(dropped, tdr...)
	for i, g := range tg {
		groups = append(groups, g)
		v.kind[groupName(g)] = tk[i]
	}
	cg, cdr := genCommentGroups(rng, vi, 6)
	dropped = append(dropped, cdr...)
	for _, g := range cg {
		groups = append(groups, g)
		v.kind[groupName(g)] = "comment/named-groups"
	}
	if vi%2 == 0 {
		v.fmt = true
		for i := 0; i < 6; i++ {
			src, kind := genVfGroup(rng, vi*100+50+i)
			groups = append(groups, src)
			v.kind[groupName(src)] = kind
		}
	}
	rng.Shuffle(len(groups), func(i, j int) { groups[i], groups[j] = groups[j], groups[i] })
	v.groups = groups
	v.rules = historyHeader(strings.Join(groups, "\n"))
	return v, dropped
}

func declFile(f *ast.File, d ast.Decl) *ast.File {
	g := *f
	g.Decls = []ast.Decl{d}
	g.Comments = nil
	return &g
}

// commentsFile: a copy of f that has no declaration but all the comments (comment rules run after the walk).
func commentsFile(f *ast.File) *ast.File {
	g := *f
	g.Decls = nil
	return &g
}

// syntaxOnly drops the reports that lie inside a comment.
func syntaxOnly(t *hutil.Target, rs []hReport) []hReport {
	var out []hReport
	for _, r := range rs {
		if !anchorOf(t, r).comment {
			out = append(out, r)
		}
	}
	return out
}

// stmtFile: a copy of f that has only the function d, whose body has only the statement st (nodes are shared).
func stmtFile(f *ast.File, d *ast.FuncDecl, st ast.Stmt) *ast.File {
	body := *d.Body
	body.List = []ast.Stmt{st}
	fd := *d
	fd.Body = &body
	return declFile(f, &fd)
}

// inside keeps the reports whose node lies inside [lo, hi].
func inside(rs []hReport, lo, hi int) []hReport {
	var out []hReport
	for _, r := range rs {
		if r.Pos >= lo && r.End <= hi && r.End > r.Pos {
			out = append(out, r)
		}
	}
	return out
}

func diffReports(got, want []hReport) string {
	if len(got) != len(want) {
		for i := 0; i < len(got) && i < len(want); i++ {
			if got[i] != want[i] {
				return fmt.Sprintf("%d reports instead of %d; first difference at #%d: %+v instead of %+v", len(got), len(want), i, got[i], want[i])
			}
		}
		if len(got) > len(want) {
			return fmt.Sprintf("%d reports instead of %d; first extra: %+v", len(got), len(want), got[len(want)])
		}
		return fmt.Sprintf("%d reports instead of %d; first missing: %+v", len(got), len(want), want[len(got)])
	}
	for i := range got {
		if got[i] != want[i] {
			return fmt.Sprintf("report #%d is %+v instead of %+v", i, got[i], want[i])
		}
	}
	return ""
}

func runHistory(enc *json.Encoder, rng *rand.Rand, nhist, size int, tmp string) {
	// rules: keep the fixed groups that load
	var fixed []string
	var dropped []string
	for _, g := range historyGroups {
		if _, err := loadRules(historyHeader(g)); err != nil {
			dropped = append(dropped, err.Error())
			continue
		}
		fixed = append(fixed, g)
	}
	nvar := 3 + nhist/100
	if nvar > 16 {
		nvar = 16
	}
	var variants []hVariant
	kinds := map[string]int{}
	// engines: a variant without custom filters gets a fresh engine wherever one is asked for; for the others one engine
	// per role (reference / locality / histories) is loaded once and shared (the property is about shared engines anyway)
	type engKey struct {
		variant int
		role    string
	}
	engines := map[engKey]*ruleguard.Engine{}
	engineFor := func(vi int, role string) (*ruleguard.Engine, error) {
		if !variants[vi].fmt {
			return loadRules(variants[vi].rules)
		}
		k := engKey{vi, role}
		if e, ok := engines[k]; ok {
			return e, nil
		}
		e, err := loadRules(variants[vi].rules)
		if err == nil {
			engines[k] = e
		}
		return e, err
	}
	for vi := 0; vi < nvar; vi++ {
		v, dr := genVariant(rng, vi, fixed)
		dropped = append(dropped, dr...)
		e, err := loadRules(v.rules)
		if err != nil {
			enc.Encode(hObs{K: "hist", Variant: vi, Err: "a generated rules file does not load: " + err.Error(), Rules: v.rules})
			continue
		}
		variants = append(variants, v)
		if v.fmt {
			engines[engKey{len(variants) - 1, "reference"}] = e
		}
		for _, k := range v.kind {
			kinds[k]++
		}
	}
	enc.Encode(hObs{K: "rules", Reports: len(fixed), Variant: len(variants), Kinds: kinds, Err: strings.Join(dropped, " | ")})
	if len(fixed) < 6 || len(variants) == 0 {
		return
	}
	// file pool
	var pool []*hutil.Target
	var srcs []string
	add := func(name, src string) {
		t, err := hutil.CheckTarget(tmp, name, []byte(src))
		if err != nil {
			enc.Encode(hObs{K: "hist", Err: "target " + name + ": " + err.Error(), Srcs: []string{src}})
			return
		}
		pool = append(pool, t)
		srcs = append(srcs, src)
	}
	add("hsink/target.go", kitchenSinkTyped)
	add("hsink2/target.go", historySink)
	for i := 0; i < 4; i++ {
		add(fmt.Sprintf("h%d/target.go", i), genFile(rng, i, size))
	}
	// two packages with the same path whose equal-named types disagree (pointers, size, comparability), each with
	// functions that declare a local type T of their own
	add("hta/target.go", sameNameTarget(0))
	add("htb/target.go", sameNameTarget(1))
	// values of many array lengths / map, func and struct shapes handed to sink() in shuffled orders; comments that
	// several comment rules match
	add("hty0/target.go", typeSinkTarget(rng))
	add("hty1/target.go", typeSinkTarget(rng))
	add("hcm/target.go", commentTarget(rng))
	// files that exist only in memory (parsed from a buffer; nothing to read at the file name of their positions),
	// shorter than the files on disk
	onDisk := len(pool)
	add("hm0/target.go", genFile(rng, 8, size/3+2))
	add("hm1/target.go", memSink)
	for _, t := range pool[onDisk:] {
		os.Remove(t.Path)
	}
	if len(pool) < 3 {
		return
	}
	if historyColdChild {
		runColdChild(enc, variants, engineFor, pool)
		return
	}
	cold := startColdChild(nhist, size, tmp)
	// reference: the same call on a fresh engine and a fresh (nil) state, computed once per (variant, file, TruncateLen)
	type refKey struct{ variant, file, trunc int }
	ref := map[refKey][]hReport{}
	reference := func(variant, file, trunc int) ([]hReport, string) {
		k := refKey{variant, file, trunc}
		if r, ok := ref[k]; ok {
			return r, ""
		}
		e, err := engineFor(variant, "reference")
		if err != nil {
			return nil, err.Error()
		}
		r, _, msg := runOnce(e, pool[file], pool[file].File, trunc, nil, -1)
		ref[k] = r
		return r, msg
	}
	// locality inside one run: the reports inside a top-level declaration are those of a run that sees only it
	for vi := range variants {
		for fi := range pool {
			obs := hObs{K: "local", Variant: vi, Calls: []hCall{{File: fi, State: "nil", PanicAt: -1}}, Kinds: map[string]int{}}
			want, msg := reference(vi, fi, 0)
			if msg != "" {
				obs.Mismatch = "the run on a fresh engine and state fails: " + msg
			}
			e, err := engineFor(vi, "locality")
			if err != nil {
				obs.Err = "load: " + err.Error()
				enc.Encode(obs)
				continue
			}
			var got []hReport
			for di, d := range pool[fi].File.Decls {
				if obs.Mismatch != "" {
					break
				}
				r, _, emsg := runOnce(e, pool[fi], declFile(pool[fi].File, d), 0, nil, -1)
				if emsg != "" {
					obs.Mismatch = fmt.Sprintf("run over declaration #%d alone: %s", di, emsg)
				}
				got = append(got, r...)
			}
			if obs.Mismatch == "" && len(pool[fi].File.Comments) > 0 {
				// ... followed by what a run over a file that has only the comments reports
				r, _, emsg := runOnce(e, pool[fi], commentsFile(pool[fi].File), 0, nil, -1)
				if emsg != "" {
					obs.Mismatch = "run over the comments alone: " + emsg
				}
				got = append(got, r...)
			}
			obs.Reports = len(want)
			for _, r := range want {
				obs.Kinds[variants[vi].kind[r.Group]]++
			}
			if obs.Mismatch == "" {
				if d := diffReports(want, got); d != "" {
					obs.Mismatch = "the run over the whole file gives " + d + " (= what runs over each top-level declaration alone, then over the comments alone, give)"
				}
			}
			// one level down: the reports inside a top-level statement of a function body are those of a run over a
			// file that has only this function with only this statement
			for _, d := range pool[fi].File.Decls {
				fd, ok := d.(*ast.FuncDecl)
				if !ok || fd.Body == nil || len(fd.Body.List) < 2 {
					continue
				}
				for si, st := range fd.Body.List {
					if obs.Mismatch != "" {
						break
					}
					lo, hi := pool[fi].Fset.Position(st.Pos()).Offset, pool[fi].Fset.Position(st.End()).Offset
					r, _, emsg := runOnce(e, pool[fi], stmtFile(pool[fi].File, fd, st), 0, nil, -1)
					if emsg != "" {
						obs.Mismatch = fmt.Sprintf("run over statement #%d of %s alone: %s", si, fd.Name.Name, emsg)
						break
					}
					obs.Panics++ // counts the statement-level runs of this observation
					if d := diffReports(inside(syntaxOnly(pool[fi], want), lo, hi), inside(r, lo, hi)); d != "" {
						obs.Mismatch = fmt.Sprintf("inside statement #%d of %s (offsets %d-%d) the run over the whole file gives %s (= what a run over this statement alone gives)", si, fd.Name.Name, lo, hi, d)
					}
				}
			}
			if obs.Mismatch != "" {
				obs.Rules = variants[vi].rules
				obs.Srcs = []string{srcs[fi]}
			}
			enc.Encode(obs)
		}
	}
	runRuleLocality(enc, variants, pool, srcs, func(vi, fi int) ([]hReport, string) { return reference(vi, fi, 0) })
	for hi := 0; hi < nhist; hi++ {
		vi := hi % len(variants)
		e, err := engineFor(vi, "histories")
		if err != nil {
			enc.Encode(hObs{K: "hist", History: hi, Variant: vi, Err: "load: " + err.Error(), Rules: variants[vi].rules})
			continue
		}
		states := map[string]*ruleguard.RunnerState{"shared": ruleguard.NewRunnerState(e), "poolA": ruleguard.NewRunnerState(e), "poolB": ruleguard.NewRunnerState(e), "nil": nil}
		spare := &statePool{e: e} // the states re-entrant runs borrow for their duration
		obs := hObs{K: "hist", History: hi, Variant: vi, Kinds: map[string]int{}}
		seen := map[string]bool{}
		ncalls := 3 + rng.Intn(10)
		var last *hCall
		for ci := 0; ci < ncalls && obs.Mismatch == ""; ci++ {
			call := hCall{File: rng.Intn(len(pool)), Trunc: []int{0, 0, 12}[rng.Intn(3)], State: []string{"shared", "shared", "shared", "nil", "poolA", "poolB"}[rng.Intn(6)], PanicAt: -1}
			if last != nil && rng.Intn(5) == 0 {
				call = *last // repeat the same call
				call.Dirty = false
			}
			want, msg := reference(vi, call.File, call.Trunc)
			if msg != "" {
				obs.Mismatch = fmt.Sprintf("call %+v on a fresh engine and state: %s", call, msg)
				break
			}
			if len(want) > 0 && rng.Intn(3) == 0 {
				call.PanicAt = rng.Intn(len(want))
				// more often than not the callback panics while the walk is inside a dead branch / inside a function
				var inDead []int
				for ri, r := range want {
					if strings.Contains(r.Group, "dead") && r.Func != "" {
						inDead = append(inDead, ri)
					}
				}
				if len(inDead) > 0 && rng.Intn(2) == 0 {
					call.PanicAt = inDead[rng.Intn(len(inDead))]
				}
			}
			st := states[call.State]
			if st != nil && rng.Intn(4) == 0 {
				call.Dirty = true
				var fn *ast.FuncDecl
				for _, d := range pool[call.File].File.Decls {
					if f, ok := d.(*ast.FuncDecl); ok {
						fn = f
					}
				}
				ruleguard.VerifDirtyRunnerState(st, pool[(call.File+1)%len(pool)].File, fn)
			}
			if call.PanicAt < 0 && len(want) > 0 && rng.Intn(4) == 0 {
				// a re-entrant call: the Report callback of this run starts further runs (on nil / own / pooled states)
				nrep := make([]int, len(pool))
				for fi := range pool {
					r, _ := reference(vi, fi, 0)
					nrep[fi] = len(r)
				}
				nrep[call.File] = len(want)
				plan := genHistoryPlan(rng, nrep, call.File, call.Trunc, st, call.State)
				runPlan(e, pool, plan, spare)
				names := make([]string, len(pool))
				for fi := range pool {
					names[fi] = fmt.Sprintf("file %d", fi)
				}
				call.Nested = describePlan(plan, names, "")
				obs.Calls = append(obs.Calls, call)
				c := call
				last = &c
				mm, nruns, _ := checkPlan(plan, func(fi, trunc int) ([]hReport, string) { return reference(vi, fi, trunc) })
				obs.Nested += nruns - 1
				obs.Reports += len(plan.reps)
				for _, r := range plan.reps {
					seen[r.Group] = true
				}
				if mm != "" {
					obs.Mismatch = fmt.Sprintf("call #%d %+v, re-entrant: %s", ci, call, mm)
				}
				continue
			}
			got, panicked, emsg := runOnce(e, pool[call.File], pool[call.File].File, call.Trunc, st, call.PanicAt)
			obs.Calls = append(obs.Calls, call)
			c := call
			last = &c
			if call.PanicAt >= 0 {
				want = want[:call.PanicAt+1]
				obs.Panics++
			}
			obs.Reports += len(got)
			for _, r := range got {
				seen[r.Group] = true
			}
			switch {
			case emsg != "":
				obs.Mismatch = fmt.Sprintf("call #%d %+v: %s", ci, call, emsg)
			case panicked != (call.PanicAt >= 0):
				obs.Mismatch = fmt.Sprintf("call #%d %+v: callback panic expected=%v observed=%v (reports %d, fresh run has %d)", ci, call, call.PanicAt >= 0, panicked, len(got), len(want))
			default:
				if d := diffReports(got, want); d != "" {
					obs.Mismatch = fmt.Sprintf("call #%d %+v: %s (= the same call on a fresh engine and state)", ci, call, d)
				}
			}
		}
		for g := range seen {
			obs.Groups = append(obs.Groups, g)
			obs.Kinds[variants[vi].kind[g]]++
		}
		if obs.Mismatch != "" {
			obs.Rules = variants[vi].rules
			obs.Srcs = srcs
		}
		enc.Encode(obs)
	}
	runGrowHistories(enc, rng, variants, pool, srcs, 4+nhist/8)
	// run-time lookups by name that fail (history4.go): the outcome of a run -- reports, then the failure -- on a used engine
	runFailingLookups(enc, rng, 3+nhist/300, tmp)
	// the same (rule set, file) in a process that did everything in the opposite order
	finishColdChild(enc, cold, variants, srcs, func(vi, fi int) ([]hReport, bool) {
		r, ok := ref[refKey{vi, fi, 0}]
		return r, ok
	})
}
