package main

// -mode rules (C01), third part: Load calls that FAIL between the ones that succeed. The caller carries on after the
// error (an embedder with a tolerant failure policy); the engine must then hold exactly the rules of the files whose
// Load returned nil -- none of the rejected file's rules may report or take part in first-rule-wins.
//
// Rejected files:
//   redef-first / -middle / -last   re-declares an enabled group of an earlier file, with new groups after / around /
//                                   in front of the clashing one
//   redef-bundle                    imports a bundle under a prefix an earlier file used for the same bundle
//   parse                           does not parse
//   badpattern                      its last group has a pattern gogrep rejects
//   undefined                       its last group does not type-check
// After a redef-* file a "retry" file may follow at the end of the history: it declares the new groups of the rejected
// file once more (without the clashing one) and must be accepted -- nothing of the rejected file is registered.
// The new groups of a rejected file ("ghost" rules) use popular patterns, so that they would report on every target
// and shadow rules of files loaded later.

import (
	"fmt"
	"math/rand"
	"regexp"
	"strings"
)

type loadDesc struct {
	Name   string   `json:"name"`
	Fail   string   `json:"fail,omitempty"`
	Err    string   `json:"err,omitempty"`    // the error the rejected Load returned
	Groups []string `json:"groups"`           // enabled groups the file declares (own names, then imported ones with their prefix)
}

type failPlan struct {
	extra    []ruleDesc // rules of the retry files (accepted; loaded last): appended to the loaded rules
	order    []string
	parts    []int
	loads    []loadDesc
	mustFail map[int]bool
	ghosts   []ruleDesc // Idx continues after the loaded rules
	remap    []int      // old Load index -> new one
}

var ghostPatterns = []string{"probe($x)", "$f($*args)", "$x + $y", "{ $*_ }", "$x; $y", "x", "$x = $y", "return $*_", "$x > $y", "foo", "_ = $x"}
var ghostPkgPatterns = []string{"rand.Int($*_)", "util.F()", "rand.Intn($x)", "util.G($x)", "util.F(); $y"}

var bundleImportCallRe = regexp.MustCompile(`dsl\.ImportRules\("(b\d+)", (wb\d)\.Bundle\)`)

// groupsOfLoads: per Load call of the successful history, the enabled groups in declaration order.
func groupsOfLoads(nloads int, rules []ruleDesc) [][]string {
	out := make([][]string, nloads)
	seen := map[string]bool{}
	for _, r := range rules {
		k := fmt.Sprintf("%d|%s", r.Load, r.Group)
		if !seen[k] {
			seen[k] = true
			out[r.Load] = append(out[r.Load], r.Group)
		}
	}
	return out
}

// addFailingLoads inserts 1-2 rejected files into a history. nrules: number of loaded rules (ghost indices follow).
func addFailingLoads(rng *rand.Rand, setIdx int, files map[string]string, order []string, rules []ruleDesc, parts []int, pkgTheme bool, pc patCache, bundles map[string][]bundleFile) *failPlan {
	groups := groupsOfLoads(len(order), rules)
	type ins struct {
		at   int // inserted in front of the old Load #at (len(order): at the end)
		name string
		kind string
		grps []string
	}
	type retry struct {
		name   string
		groups []string
		rules  []ruleDesc
	}
	var retries []retry
	var inserted []ins
	var ghosts []ruleDesc
	nins := 1 + rng.Intn(2)
	for k := 0; k < nins; k++ {
		at := rng.Intn(len(order) + 1)
		if rng.Intn(3) != 0 && len(order) > 1 {
			at = 1 + rng.Intn(len(order)-1) // between successful loads more often than not
		}
		// what can clash in front of `at`
		var victims []string
		var bundleUses [][2]string
		for li := 0; li < at; li++ {
			for _, g := range groups[li] {
				if !strings.Contains(g, "/") {
					victims = append(victims, g)
				}
			}
			for _, m := range bundleImportCallRe.FindAllStringSubmatch(files[order[li]], -1) {
				if parts[li] > 0 {
					bundleUses = append(bundleUses, [2]string{m[1], m[2]})
				}
			}
		}
		kinds := []string{"parse", "badpattern", "undefined"}
		if len(victims) > 0 {
			kinds = []string{"redef-first", "redef-middle", "redef-last", "redef-first", "redef-middle", "redef-last", "parse", "badpattern", "undefined"}
		}
		if len(bundleUses) > 0 {
			kinds = append(kinds, "redef-bundle", "redef-bundle")
		}
		kind := kinds[rng.Intn(len(kinds))]
		name := fmt.Sprintf("rules%d_x%d.go", setIdx, k)
		var sb strings.Builder
		line := 1
		w := func(s string) { sb.WriteString(s); line += strings.Count(s, "\n") }
		w("package gorules\n\nimport \"github.com/quasilyte/go-ruleguard/dsl\"\n")
		var declared []string
		ghostGroup := func(tag string) {
			g := fmt.Sprintf("x%d_%d_%s", setIdx, k, tag)
			declared = append(declared, g)
			w("func " + g + "(m dsl.Matcher) {\n")
			for mi, n := 0, 1+rng.Intn(2); mi < n; mi++ {
				pat := ghostPatterns[rng.Intn(len(ghostPatterns))]
				if pkgTheme && rng.Intn(2) == 0 {
					pat = ghostPkgPatterns[rng.Intn(len(ghostPkgPatterns))]
				}
				r := ruleDesc{Group: g, Line: line, File: name, Src: pat}
				if p, err := pc.compile(pat, nil); err == nil {
					r.pat, r.Tag = p, int(p.NodeTag())
				}
				ghosts = append(ghosts, r)
				w("\tm.Match(`" + pat + "`).Report(`" + g + "`)\n")
			}
			w("}\n\n")
		}
		switch kind {
		case "redef-first", "redef-middle", "redef-last":
			victim := victims[rng.Intn(len(victims))]
			w("\n")
			if kind != "redef-first" {
				ghostGroup("a")
			}
			declared = append(declared, victim)
			// the clashing group has a rule of its own as well
			r := ruleDesc{Group: victim, Line: line + 1, File: name, Src: "probe($x)"}
			if p, err := pc.compile("probe($x)", nil); err == nil {
				r.pat, r.Tag = p, int(p.NodeTag())
			}
			ghosts = append(ghosts, r)
			w("func " + victim + "(m dsl.Matcher) {\n\tm.Match(`probe($x)`).Report(`redefined " + victim + "`)\n}\n\n")
			if kind != "redef-last" {
				ghostGroup("b")
				if rng.Intn(2) == 0 {
					ghostGroup("c")
				}
			}
		case "redef-bundle":
			u := bundleUses[rng.Intn(len(bundleUses))]
			w("import \"example.com/" + u[1] + "\"\n\nfunc init() {\n\tdsl.ImportRules(\"" + u[0] + "\", " + u[1] + ".Bundle)\n}\n\n")
			ghostGroup("a")
			if rng.Intn(2) == 0 {
				ghostGroup("b")
			}
			seenG := map[string]bool{}
			for _, bf := range bundles[u[1]] {
				for _, r := range bf.Rules {
					if groupEnabled(r.Group) && !seenG[r.Group] {
						seenG[r.Group] = true
						declared = append(declared, u[0]+"/"+r.Group)
					}
				}
			}
		case "parse":
			w("\n")
			ghostGroup("a")
			w("func broken(m dsl.Matcher) {\n\tm.Match(`probe($x)`).Report(`broken`\n}\n")
		case "badpattern":
			w("\n")
			ghostGroup("a")
			ghostGroup("b")
			w("func " + fmt.Sprintf("x%d_%d_bad", setIdx, k) + "(m dsl.Matcher) {\n\tm.Match(`if {`).Report(`bad`)\n}\n")
		case "undefined":
			w("\n")
			ghostGroup("a")
			w("func " + fmt.Sprintf("x%d_%d_undef", setIdx, k) + "(m dsl.Matcher) {\n\tm.Match(`probe($x)`).Where(noSuchFilter(m)).Report(`undef`)\n}\n")
		}
		files[name] = sb.String()
		inserted = append(inserted, ins{at, name, kind, declared})
		// the retry: the rejected file's own new groups once more, in a file of their own at the end of the history
		if strings.HasPrefix(kind, "redef-") && kind != "redef-bundle" && rng.Intn(2) == 0 {
			rname := fmt.Sprintf("rules%d_r%d.go", setIdx, k)
			var rb strings.Builder
			rline := 1
			rw := func(s string) { rb.WriteString(s); rline += strings.Count(s, "\n") }
			rw("package gorules\n\nimport \"github.com/quasilyte/go-ruleguard/dsl\"\n\n")
			var rgroups []string
			var rrules []ruleDesc
			for _, g := range declared {
				if !strings.HasPrefix(g, fmt.Sprintf("x%d_%d_", setIdx, k)) {
					continue // the clashing group stays out
				}
				pat := ghostPatterns[rng.Intn(len(ghostPatterns))]
				p, err := pc.compile(pat, nil)
				if err != nil {
					continue
				}
				rgroups = append(rgroups, g)
				rw("func " + g + "(m dsl.Matcher) {\n")
				rrules = append(rrules, ruleDesc{Group: g, Line: rline, File: rname, Src: pat, Tag: int(p.NodeTag()), pat: p})
				rw("\tm.Match(`" + pat + "`).Report(`retry " + g + "`)\n}\n\n")
			}
			if len(rgroups) > 0 {
				files[rname] = rb.String()
				retries = append(retries, retry{rname, rgroups, rrules})
			}
		}
	}
	// build the new order (stable: an inserted file goes in front of old Load #at; two with the same `at` keep their order)
	fp := &failPlan{mustFail: map[int]bool{}, ghosts: ghosts, remap: make([]int, len(order))}
	for old := 0; old <= len(order); old++ {
		for _, in := range inserted {
			if in.at == old {
				fp.mustFail[len(fp.order)] = true
				fp.loads = append(fp.loads, loadDesc{Name: in.name, Fail: in.kind, Groups: in.grps})
				fp.order = append(fp.order, in.name)
				fp.parts = append(fp.parts, 0)
			}
		}
		if old < len(order) {
			fp.remap[old] = len(fp.order)
			fp.loads = append(fp.loads, loadDesc{Name: order[old], Groups: groups[old]})
			fp.order = append(fp.order, order[old])
			fp.parts = append(fp.parts, parts[old])
		}
	}
	for _, rt := range retries {
		li := len(fp.order)
		fp.loads = append(fp.loads, loadDesc{Name: rt.name, Groups: rt.groups})
		fp.order = append(fp.order, rt.name)
		fp.parts = append(fp.parts, 0)
		for _, r := range rt.rules {
			r.Idx, r.Load = len(rules)+len(fp.extra), li
			fp.extra = append(fp.extra, r)
		}
	}
	for gi := range fp.ghosts {
		fp.ghosts[gi].Idx = len(rules) + len(fp.extra) + gi
		for li, l := range fp.loads {
			if l.Name == fp.ghosts[gi].File {
				fp.ghosts[gi].Load = li
			}
		}
	}
	return fp
}
