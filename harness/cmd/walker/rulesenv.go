package main

// -mode rules (C01), second part: what a rule's pattern means depends on more than its text.
//
//   * the import table of the rule's OWN group (Matcher.Import): `rand.Int()` is math/rand's unless the group says
//     m.Import("crypto/rand"); `util.F()` is any selector on an identifier named util unless the group imports a
//     package with that base name. The oracle compiles every pattern (and every Contains() sub-pattern) with exactly
//     the import map of the group the rule stands in; the targets call equal-named functions of several packages
//     under the packages' own names, under aliases, and on local variables that shadow the names.
//   * filters that run a second matcher while the first one is still enumerating the matches of a node:
//     m["v"].Contains(sub). The oracle evaluates the sub-pattern with a matcher state of its own over ast.Inspect of
//     the captured node(s).

import (
	"fmt"
	"go/ast"
	"go/importer"
	"go/parser"
	"go/token"
	"go/types"
	"math/rand"
	"os"
	"path"
	"path/filepath"
	"reflect"
	"sort"
	"strings"

	"verif/harness/internal/hutil"

	"github.com/quasilyte/gogrep"
)

// ---------------------------------------------------------------------------- packages

// packages a group may import; base names collide with each other and (rand) with gogrep's default for the name
var importPool = []string{"crypto/rand", "math/rand", "math/rand/v2", "example.com/wk/rand", "example.com/wk/a/util", "example.com/wk/b/util"}

// third-party packages exist only in memory (the engine never resolves a Matcher.Import path at load time, and the
// matcher compares the path of the *types.PkgName the target's type-checker produced)
var fakePkgSrc = map[string]string{
	"example.com/wk/rand":   "package rand\n\nfunc Int() int { return 0 }\n\nfunc Intn(n int) int { return n }\n\nfunc Read(p []byte) (int, error) { return 0, nil }\n",
	"example.com/wk/a/util": "package util\n\nfunc F() {}\n\nfunc G(n int) int { return n }\n",
	"example.com/wk/b/util": "package util\n\nfunc F() {}\n\nfunc G(n int) int { return n }\n",
}

type memImporter struct {
	fset  *token.FileSet
	std   types.Importer
	cache map[string]*types.Package
}

func (m *memImporter) Import(p string) (*types.Package, error) {
	if pkg, ok := m.cache[p]; ok {
		return pkg, nil
	}
	src, ok := fakePkgSrc[p]
	if !ok {
		return m.std.Import(p)
	}
	f, err := parser.ParseFile(m.fset, p+"/fake.go", src, 0)
	if err != nil {
		return nil, err
	}
	pkg, err := (&types.Config{Importer: m}).Check(p, m.fset, []*ast.File{f}, nil)
	if err != nil {
		return nil, err
	}
	m.cache[p] = pkg
	return pkg, nil
}

func newMemImporter() *memImporter {
	fset := token.NewFileSet()
	return &memImporter{fset: fset, std: importer.ForCompiler(fset, "source", nil), cache: map[string]*types.Package{}}
}

// checkTargetMem is hutil.CheckTarget with the in-memory packages in front of the source importer (imp is shared by
// the targets of a run: the standard packages are type-checked from source once).
func checkTargetMem(imp *memImporter, dir, name string, src []byte) (*hutil.Target, error) {
	p := filepath.Join(dir, name)
	if err := os.MkdirAll(filepath.Dir(p), 0o755); err != nil {
		return nil, err
	}
	if err := os.WriteFile(p, src, 0o644); err != nil {
		return nil, err
	}
	fset := imp.fset
	f, err := parser.ParseFile(fset, p, src, parser.ParseComments)
	if err != nil {
		return nil, err
	}
	info := hutil.NewInfo()
	pkg, err := (&types.Config{Importer: imp}).Check(f.Name.Name, fset, []*ast.File{f}, info)
	if err != nil {
		return nil, fmt.Errorf("typecheck %s: %v", name, err)
	}
	return &hutil.Target{Fset: fset, File: f, Info: info, Pkg: pkg, Src: src, Path: p}, nil
}

// pkgTarget: calls of equal-named functions of the pool's packages. Variant v decides which package of each base name
// is imported under its own name (the others get aliases); plain identifiers named like the packages occur as local
// variables too. Statement lists, call arguments and loop bodies give list patterns and Contains() something to do.
func pkgTarget(v int) string {
	rands := []string{"math/rand", "crypto/rand", "math/rand/v2", "example.com/wk/rand"}
	utils := []string{"example.com/wk/a/util", "example.com/wk/b/util"}
	alias := map[string]string{"math/rand": "mrand", "crypto/rand": "crand", "math/rand/v2": "rand2", "example.com/wk/rand": "wrand",
		"example.com/wk/a/util": "autil", "example.com/wk/b/util": "butil"}
	alias[rands[v%len(rands)]] = "rand"
	alias[utils[v%len(utils)]] = "util"
	var sb strings.Builder
	sb.WriteString("// Package doc.\npackage pkgs\n\nimport (\n")
	for _, p := range append(append([]string{}, rands...), utils...) {
		if alias[p] == path.Base(p) && p != "math/rand/v2" {
			fmt.Fprintf(&sb, "\t%q\n", p)
		} else {
			fmt.Fprintf(&sb, "\t%s %q\n", alias[p], p)
		}
	}
	sb.WriteString(")\n\nfunc probe(n int) int { return n }\n\ntype local struct{}\n\nfunc (local) F()              {}\nfunc (local) G(n int) int     { return n }\nfunc (local) Int() int        { return 0 }\nfunc (local) Intn(n int) int  { return n }\n\nconst cn = 5\n\n")
	m, c, r2, w, a, b := alias["math/rand"], alias["crypto/rand"], alias["math/rand/v2"], alias["example.com/wk/rand"], alias["example.com/wk/a/util"], alias["example.com/wk/b/util"]
	fmt.Fprintf(&sb, `// calls doc.
func calls(buf []byte, x int) {
	%[1]s.Int()
	%[2]s.Int(%[2]s.Reader, nil)
	%[3]s.Int()
	%[4]s.Int()
	%[1]s.Read(buf)
	%[2]s.Read(buf)
	%[4]s.Read(buf)
	_ = %[1]s.Intn(3)
	_ = %[4]s.Intn(x)
	_ = %[4]s.Intn(cn)
	_ = %[1]s.Intn(x)
	probe(%[1]s.Intn(1))
	probe(%[4]s.Intn(2))
	%[5]s.F()
	%[6]s.F()
	_ = %[5]s.G(1)
	_ = %[6]s.G(x)
	_ = %[6]s.G(2)
	probe(%[5]s.G(x))
	probe(%[6]s.G(4))
	probe(probe(%[6]s.G(5)) + %[5]s.G(6))
}

func blocks(buf []byte, x int) {
	%[5]s.F()
	for {
		probe(1)
		%[6]s.F()
		for {
			%[1]s.Int()
			%[5]s.F()
			probe(2)
		}
		%[5]s.F()
		probe(3)
	}
	%[6]s.F()
	if x > 1 {
		%[2]s.Int(nil, nil)
		%[6]s.F()
		%[4]s.Int()
	}
	%[5]s.F()
	for i := 0; i < x; i++ {
		%[3]s.Int()
		%[1]s.Int()
	}
	%[6]s.F()
	probe(%[4]s.Intn(7))
	switch {
	case x > 2:
		%[5]s.F()
		%[1]s.Read(buf)
		%[6]s.F()
		%[2]s.Read(buf)
	default:
		%[6]s.F()
		%[5]s.F()
	}
	func() {
		%[4]s.Read(buf)
		%[5]s.F()
		%[6]s.F()
	}()
}

func shadows(x int) {
	{
		util := local{}
		util.F()
		_ = util.G(1)
		probe(util.G(x))
		util.F()
		for {
			util.F()
		}
	}
	{
		rand := local{}
		rand.Int()
		_ = rand.Intn(2)
		probe(rand.Intn(x))
	}
	%[5]s.F()
	%[1]s.Int()
}
`, m, c, r2, w, a, b)
	return sb.String()
}

// patterns with a package-qualified callee (gogrep resolves such a callee through CompileConfig.Imports, then through
// its table of standard packages, and otherwise treats the qualifier as a plain identifier)
var pkgPatCatalogue = []struct {
	Src string
	X   bool
}{
	{"rand.Int($*_)", false}, {"rand.Read($*_)", false}, {"rand.Intn($x)", true}, {"_ = rand.Intn($x)", true}, {"probe(rand.Intn($x))", true},
	{"util.F()", false}, {"util.G($x)", true}, {"_ = util.G($x)", true}, {"probe(util.G($*_))", false},
	{"util.F(); $y", false}, {"rand.Int($*_); util.F()", false}, {"util.F(); $*_; util.F()", false}, {"$_, rand.Intn($x)", true},
}

func isPkgPat(src string) bool { return strings.Contains(src, "rand.") || strings.Contains(src, "util.") }

// importMap is what Matcher.Import calls amount to: base name -> path (nil without imports).
func importMap(paths []string) map[string]string {
	if len(paths) == 0 {
		return nil
	}
	m := map[string]string{}
	for _, p := range paths {
		m[path.Base(p)] = p
	}
	return m
}

type patCache map[string]*gogrep.Pattern

// compile compiles src with the import map of one group; the oracle's patterns come from here and nowhere else.
func (pc patCache) compile(src string, imports []string) (*gogrep.Pattern, error) {
	sorted := append([]string{}, imports...)
	sort.Strings(sorted)
	key := strings.Join(sorted, ",") + "|" + src
	if p, ok := pc[key]; ok {
		return p, nil
	}
	p, _, err := gogrep.Compile(gogrep.CompileConfig{Fset: token.NewFileSet(), Src: src, Strict: false, WithTypes: true, Imports: importMap(imports)})
	if err != nil {
		return nil, err
	}
	pc[key] = p
	return p, nil
}

// genImports: 1-2 packages with distinct base names.
func genImports(rng *rand.Rand) []string {
	a := importPool[rng.Intn(len(importPool))]
	out := []string{a}
	if rng.Intn(3) == 0 {
		b := importPool[rng.Intn(len(importPool))]
		if path.Base(b) != path.Base(a) {
			out = append(out, b)
		}
	}
	return out
}

// ---------------------------------------------------------------------------- Contains()

// outer patterns with the capture that is searched; list patterns (several sub-matches per node) first
var containsOuterCatalogue = []struct{ Pat, Var string }{
	{"probe($x); $next", "next"}, {"$x; $y", "y"}, {"$x; $y", "x"}, {"probe($a); $*rest", "rest"}, {"_ = $x; $*rest", "rest"},
	{"$x, $y", "y"}, {"$x, $y", "x"}, {"1, $x", "x"}, {"$a, $b, $c", "c"}, {"$head; $*_; probe($z)", "head"},
	{"util.F(); $next", "next"}, {"$first; util.F()", "first"},
	{"$f($*args)", "args"}, {"{ $*body }", "body"}, {"if $c { $*body }", "body"}, {"for $*_ { $*body }", "body"}, {"$x = $y", "y"},
	{"probe($x)", "x"}, {"func($*_) $*_ { $*body }", "body"}, {"case $*_: $*body", "body"}, {"return $*xs", "xs"}, {"[]int{$*xs}", "xs"},
}

// sub-patterns: most of them match lists themselves (block bodies, arguments, statement sequences)
var containsSubCatalogue = []string{
	"for { $*_ }", "for $*_ { $*_ }", "{ $*_ }", "if $*_ { $*_ }", "$a; $b", "probe($a); probe($b)", "probe($_); $*_", "$_($*_)", "probe($*_)",
	"$_, $_", "1, $_", "$_ + $_", "return $*_", "func($*_) $*_ { $*_ }", "[]int{$*_}", "case $*_: $*_", "foo", "1", "probe($x)", "$x",
	"util.F()", "rand.Int($*_)", "util.F(); $*_", "util.G($*_)", "rand.Intn($*_)",
}

// containsOracle: is there a node inside root (every element of a captured list, the node itself included) that sub
// matches, the sub-pattern's variables that the outer match has bound standing for the captured nodes. Own matcher state.
func containsOracle(st *gogrep.MatcherState, sub *gogrep.Pattern, root ast.Node, caps []gogrep.CapturedNode) bool {
	var elems []ast.Node
	if ns, ok := root.(*gogrep.NodeSlice); ok {
		for i := 0; i < ns.Len(); i++ {
			elems = append(elems, ns.At(i))
		}
	} else if root != nil && !(reflect.ValueOf(root).Kind() == reflect.Ptr && reflect.ValueOf(root).IsNil()) {
		elems = []ast.Node{root}
	}
	st.CapturePreset = append([]gogrep.CapturedNode(nil), caps...)
	found := false
	for _, e := range elems {
		ast.Inspect(e, func(n ast.Node) bool {
			if n == nil || found {
				return false
			}
			sub.MatchNode(st, n, func(gogrep.MatchData) { found = true })
			return !found
		})
	}
	return found
}
