package main

// history4.go: runs whose custom filters ask the engine for types BY NAME at run time -- ctx.GetType / ctx.GetInterface -- and
// do not always get an answer: the package can be imported but does not declare the name, the name is not an interface, the
// package cannot be imported, the string is no qualified name at all. Such a filter ends the run with a panic (the caller
// recovers, as drivers do per package); the engine keeps what it learned from lookups (types by name) between runs, so what it
// keeps after a lookup that FAILED is part of the state a later run starts from.
//
// The outcome of a call -- the reports delivered up to the failure, and the failure itself -- must be the outcome of the same
// call on a fresh engine, whatever ran on this engine before: the same call again, the same file after another one, files whose
// package depends on the asked package (the name is looked up among the dependencies: an answer for that package only) and
// files whose package does not (the engine's own importer answers).

import (
	"encoding/json"
	"fmt"
	"math/rand"
	"strings"
	"sync"

	"verif/harness/internal/hutil"

	"github.com/quasilyte/go-ruleguard/ruleguard"
)

// names asked at run time: answered / not answered
var lookupTypesOK = []string{"strings.Builder", "bytes.Buffer", "strings.Reader", "io.Reader", "sort.IntSlice"}
var lookupIfacesOK = []string{"io.Reader", "fmt.Stringer", "io.Writer", "sort.Interface"}
var lookupBad = []string{
	"strings.NoSuchType", "io.NoSuchIface", "bytes.Nope", "sort.Missing", "strings.builder", // importable package, name not declared
	"no/such/pkg.T", "example.com/nowhere.Iface", // package that cannot be imported
	"nodot", "", // not a qualified name
}

// operand types the guarded filters single out (as printed by types.Type.String())
var lookupGuards = []string{"string", "int", "float64", "[]int", "*strings.Reader", "*bytes.Buffer", "untyped nil", "bool"}

const lookupTargetA = `package ta

func sink(xs ...interface{}) {}

type local struct{ n int }

func a1() {
	sink(1)
	sink("s")
}

func a2(b bool, l local) {
	sink(2.5)
	sink([]int{1})
	if false {
		sink(b)
	}
	sink(l)
}

var _ = func() int { sink("t"); sink(7); return 0 }()

func a3() {
	sink(true)
	sink(nil)
	sink("u")
}
`

const lookupTargetB = `package tb

import (
	"bytes"
	"io"
	"sort"
	"strings"
)

func sink(xs ...interface{}) {}

func b1(r io.Reader) {
	sink(strings.NewReader(""))
	sink("s")
	sink(r)
}

func b2() {
	sink(&bytes.Buffer{})
	sink(1)
	sink(sort.IntSlice(nil))
	sink(strings.Builder{})
}

func b3() {
	sink(2.5)
	sink("v")
}
`

const lookupTargetC = `package tc

import "io"

func sink(xs ...interface{}) {}

func c1(w io.Writer) {
	sink(w)
	sink(1)
	sink("s")
}

func c2() {
	sink([]int{2})
	sink(3.5)
	sink("w")
	sink(false)
}
`

type lookupRule struct {
	kind  string // type | iface
	fqn   string
	guard string // "" = the lookup happens for every operand
	bad   bool
}

// genLookupRules: a rules file of n groups on sink($x), each with a custom filter that looks a name up. Groups whose lookup
// fails are guarded more often than not, so that a run gets past some of them.
func genLookupRules(rng *rand.Rand, vi, n int) (src string, rules []lookupRule) {
	var sb strings.Builder
	sb.WriteString("package gorules\n\nimport (\n\t\"github.com/quasilyte/go-ruleguard/dsl\"\n\t\"github.com/quasilyte/go-ruleguard/dsl/types\"\n)\n\n")
	for i := 0; i < n; i++ {
		r := lookupRule{kind: []string{"type", "iface"}[rng.Intn(2)]}
		switch {
		case i == n-1 || rng.Intn(5) < 2:
			r.bad = true
			r.fqn = lookupBad[rng.Intn(len(lookupBad))]
			if i == n-1 {
				r.fqn = lookupBad[(vi+i)%5] // every variant ends with "importable package, name not declared"
			}
			if rng.Intn(8) != 0 {
				r.guard = lookupGuards[rng.Intn(len(lookupGuards))]
			}
		case r.kind == "type":
			r.fqn = lookupTypesOK[rng.Intn(len(lookupTypesOK))]
		default:
			r.fqn = lookupIfacesOK[rng.Intn(len(lookupIfacesOK))]
			if rng.Intn(4) == 0 {
				r.fqn = lookupTypesOK[rng.Intn(3)] // a struct type asked for as an interface: a nil interface comes back
				r.guard = lookupGuards[rng.Intn(len(lookupGuards))]
			}
		}
		if vi == 0 && (r.guard != "" || r.bad) {
			// the first variant: its failing lookups but one happen for operands that no file has ...
			r.guard = "complex128"
		}
		if vi == 0 && i == 0 {
			// ... and its first rule asks for strings.NoSuchType when the operand is a []int: files ta and tc (whose packages do
			// not depend on strings) have one, file tb has none -- runs ended by a failed lookup and runs that come through
			// meet on one engine
			r = lookupRule{kind: "type", fqn: "strings.NoSuchType", guard: "[]int", bad: true}
		}
		if !r.bad && r.guard == "" && rng.Intn(3) == 0 {
			r.guard = lookupGuards[rng.Intn(len(lookupGuards))]
		}
		name := fmt.Sprintf("lk%d_%d", vi, i)
		call := "types.Identical(ctx.Type, ctx.GetType(`" + r.fqn + "`))"
		if r.kind == "iface" {
			call = "types.Implements(ctx.Type, ctx.GetInterface(`" + r.fqn + "`))"
		}
		fmt.Fprintf(&sb, "func %sf(ctx *dsl.VarFilterContext) bool {\n", name)
		if r.guard != "" {
			fmt.Fprintf(&sb, "\tif ctx.Type.String() != `%s` {\n\t\treturn false\n\t}\n", r.guard)
		}
		fmt.Fprintf(&sb, "\treturn %s\n}\n\n", call)
		fmt.Fprintf(&sb, "func %s(m dsl.Matcher) {\n\tm.Match(`sink($x)`).Where(m[\"x\"].Filter(%sf)).Report(`%s $x`)\n}\n\n", name, name, name)
		rules = append(rules, r)
	}
	// a rule behind all of them, without a lookup: what a run reports when no filter in front of it accepts or fails
	fmt.Fprintf(&sb, "func lk%d_rest(m dsl.Matcher) {\n\tm.Match(`sink($x)`).Report(`rest $x`)\n}\n", vi)
	return sb.String(), rules
}

type lookupOutcome struct {
	reps []hReport
	fail string
}

func (o lookupOutcome) String() string {
	if o.fail == "" {
		return fmt.Sprintf("%d reports", len(o.reps))
	}
	return fmt.Sprintf("%d reports, then %s", len(o.reps), o.fail)
}

func lookupRun(e *ruleguard.Engine, t *hutil.Target, st *ruleguard.RunnerState) lookupOutcome {
	reps, _, emsg := runOnce(e, t, t.File, 0, st, -1)
	return lookupOutcome{reps, emsg}
}

func runFailingLookups(enc *json.Encoder, rng *rand.Rand, nvar int, tmp string) {
	var pool []*hutil.Target
	var srcs []string
	for i, src := range []string{lookupTargetA, lookupTargetB, lookupTargetC} {
		t, err := hutil.CheckTarget(tmp, fmt.Sprintf("lk%c/target.go", 'a'+i), []byte(src))
		if err != nil {
			enc.Encode(hObs{K: "lookup", Err: "target: " + err.Error(), Srcs: []string{src}})
			return
		}
		pool = append(pool, t)
		srcs = append(srcs, src)
	}
	for vi := 0; vi < nvar; vi++ {
		rules, descr := genLookupRules(rng, vi, 4+rng.Intn(3))
		obs := hObs{K: "lookup", Variant: vi, Kinds: map[string]int{}}
		// the engine of the history and one fresh engine per file for the reference, loaded side by side
		engs := make([]*ruleguard.Engine, len(pool)+1)
		errs := make([]error, len(pool)+1)
		var wg sync.WaitGroup
		for k := range engs {
			wg.Add(1)
			go func(k int) {
				defer wg.Done()
				engs[k], errs[k] = loadRules(rules)
			}(k)
		}
		wg.Wait()
		for _, err := range errs {
			if err != nil && obs.Err == "" {
				obs.Err = "the lookup rules do not load: " + err.Error()
				obs.Rules = rules
			}
		}
		if obs.Err != "" {
			enc.Encode(obs)
			continue
		}
		ref := make([]lookupOutcome, len(pool))
		for fi := range pool {
			ref[fi] = lookupRun(engs[1+fi], pool[fi], nil)
			obs.Groups = append(obs.Groups, fmt.Sprintf("fresh engine, file %s: %s", pool[fi].Pkg.Name(), ref[fi]))
			if ref[fi].fail != "" {
				obs.Kinds["reference-runs-ended-by-a-failed-lookup"]++
			} else {
				obs.Kinds["reference-runs-without-failure"]++
			}
		}
		for _, r := range descr {
			k := "lookup/" + r.kind
			if r.bad {
				k += "/fails"
			}
			if r.guard != "" {
				k += "/guarded"
			}
			obs.Kinds[k]++
		}
		e := engs[0]
		states := map[string]*ruleguard.RunnerState{"shared": ruleguard.NewRunnerState(e), "poolA": ruleguard.NewRunnerState(e), "nil": nil}
		// every file at least three times, in a shuffled order, with direct repetitions
		var seq []int
		for k := 0; k < 3; k++ {
			seq = append(seq, rng.Perm(len(pool))...)
		}
		seq = append(seq, seq[len(seq)-1], rng.Intn(len(pool)))
		for ci, fi := range seq {
			call := hCall{File: fi, State: []string{"shared", "nil", "poolA"}[rng.Intn(3)], PanicAt: -1}
			obs.Calls = append(obs.Calls, call)
			got := lookupRun(e, pool[fi], states[call.State])
			obs.Reports += len(got.reps)
			if got.fail != "" {
				obs.Panics++
			}
			if got.fail != ref[fi].fail {
				obs.Mismatch = fmt.Sprintf("call #%d %+v (file %s): %s; the same call on a fresh engine: %s", ci, call, pool[fi].Pkg.Name(), got, ref[fi])
			} else if d := diffReports(got.reps, ref[fi].reps); d != "" {
				obs.Mismatch = fmt.Sprintf("call #%d %+v (file %s): %s (= the same call on a fresh engine; both end with %q)", ci, call, pool[fi].Pkg.Name(), d, got.fail)
			}
			if obs.Mismatch != "" {
				break
			}
		}
		if obs.Mismatch != "" {
			obs.Rules, obs.Srcs = rules, srcs
		}
		enc.Encode(obs)
	}
}
