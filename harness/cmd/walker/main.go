// walker: observations for the walker family (C01 C09 C16).
//
//   -mode events    for every input file: the AST serialised in ast.Inspect order (field of each child found by
//                   reflection), the visits recorded by the engine's own walker (hook VerifWalkEvents) and the
//                   independent expectation computed from ast.Inspect + nodetag.FromNode + Info.Types[cond].Value
//   -mode deadcode  generated nestings of if / else-if chains: Match(probe($x)).Where(m.Deadcode()) and its
//                   negation through Engine.Run vs. the same independent expectation
//
// Output: one JSON object per line on stdout.
package main

import (
	"encoding/json"
	"flag"
	"fmt"
	"go/ast"
	"go/constant"
	"go/parser"
	"go/token"
	"go/types"
	"math/rand"
	"os"
	"path/filepath"
	"reflect"
	"strings"

	"verif/harness/internal/hutil"

	"github.com/quasilyte/go-ruleguard/ruleguard"
	"github.com/quasilyte/gogrep/nodetag"
)

type event struct {
	ID   int   `json:"id"`
	Tag  int   `json:"tag"`
	Dead bool  `json:"dead"`
	Func int   `json:"func"` // -1 = nil
	Path []int `json:"path"`
}

type fileObs struct {
	K        string   `json:"k"`
	Name     string   `json:"name"`
	Nodes    int      `json:"nodes"`
	Tree     string   `json:"tree,omitempty"` // Coq term with K<Kind> / F<Field> placeholders
	Init     *event   `json:"init,omitempty"` // walk-scoped context the walk started from (id unused)
	Events   []event  `json:"events"`
	After    *event   `json:"after,omitempty"`
	Panicked bool     `json:"panicked"`
	PanicAt  int      `json:"panic_at"`
	Oracle   string   `json:"oracle,omitempty"` // first disagreement between hook and independent expectation
	OracleDead string `json:"oracle_dead,omitempty"` // first disagreement on the dead-code flag of a commonly visited node / its restoration
	OracleCtx  string `json:"oracle_ctx,omitempty"`  // ... on current function / node path / their restoration
	Kinds    []string `json:"kinds,omitempty"`  // (kind.field) pairs with a tagged child, for coverage
	IDs      []nodeInfo `json:"ids,omitempty"`
	Src      string   `json:"src,omitempty"`
	Err      string   `json:"err,omitempty"`
}

type nodeInfo struct {
	Pos  int    `json:"pos"`
	End  int    `json:"end"`
	Kind string `json:"kind"`
}

type nullImporter struct{}

func (nullImporter) Import(path string) (*types.Package, error) {
	return nil, fmt.Errorf("imports are not resolved in this mode")
}

// parseLoose parses and type-checks a single file in isolation, ignoring errors (partial types.Info is enough:
// the walker only reads the constant value of `if` conditions).
func parseLoose(fset *token.FileSet, path string, src []byte) (*ast.File, *types.Info, error) {
	f, err := parser.ParseFile(fset, path, src, parser.ParseComments)
	if err != nil {
		return nil, nil, err
	}
	info := hutil.NewInfo()
	conf := types.Config{Importer: nullImporter{}, Error: func(error) {}, FakeImportC: true}
	func() {
		defer func() { recover() }()
		conf.Check(f.Name.Name, fset, []*ast.File{f}, info)
	}()
	return f, info, nil
}

func kindName(n ast.Node) string {
	return strings.TrimPrefix(reflect.TypeOf(n).String(), "*ast.")
}

// fieldOf finds the struct field of parent that holds child (first match in declaration order).
func fieldOf(parent, child ast.Node) string {
	pv := reflect.ValueOf(parent).Elem()
	cp := reflect.ValueOf(child).Pointer()
	for i := 0; i < pv.NumField(); i++ {
		fv := pv.Field(i)
		switch fv.Kind() {
		case reflect.Ptr:
			if !fv.IsNil() && fv.Pointer() == cp && fv.Type() == reflect.TypeOf(child) {
				return pv.Type().Field(i).Name
			}
		case reflect.Interface:
			if !fv.IsNil() && fv.Elem().Kind() == reflect.Ptr && fv.Elem().Pointer() == cp && fv.Elem().Type() == reflect.TypeOf(child) {
				return pv.Type().Field(i).Name
			}
		case reflect.Slice:
			for j := 0; j < fv.Len(); j++ {
				ev := fv.Index(j)
				if ev.Kind() == reflect.Interface {
					if ev.IsNil() {
						continue
					}
					ev = ev.Elem()
				}
				if ev.Kind() == reflect.Ptr && !ev.IsNil() && ev.Pointer() == cp && ev.Type() == reflect.TypeOf(child) {
					return pv.Type().Field(i).Name
				}
			}
		}
	}
	return "?"
}

type tnode struct {
	n     ast.Node
	id    int
	field string
	ch    []*tnode
	par   *tnode
}

// buildTree serialises root in ast.Inspect order.
func buildTree(root ast.Node) (*tnode, map[ast.Node]int, []*tnode) {
	ids := map[ast.Node]int{}
	var order []*tnode
	var stack []*tnode
	var top *tnode
	ast.Inspect(root, func(n ast.Node) bool {
		if n == nil {
			stack = stack[:len(stack)-1]
			return true
		}
		t := &tnode{n: n, id: len(order)}
		ids[n] = t.id
		order = append(order, t)
		if len(stack) > 0 {
			p := stack[len(stack)-1]
			t.par = p
			t.field = fieldOf(p.n, n)
			p.ch = append(p.ch, t)
		} else {
			top = t
		}
		stack = append(stack, t)
		return true
	})
	return top, ids, order
}

func condOf(info *types.Info, n ast.Node) (known, val bool) {
	ifs, ok := n.(*ast.IfStmt)
	if !ok || info == nil {
		return false, false
	}
	tv, ok := info.Types[ifs.Cond]
	if !ok || tv.Value == nil || tv.Value.Kind() != constant.Bool {
		return false, false
	}
	return true, constant.BoolVal(tv.Value)
}

func (t *tnode) coq(info *types.Info, sb *strings.Builder) {
	cond := "None"
	if known, val := condOf(info, t.n); known {
		cond = fmt.Sprintf("(Some %v)", val)
	}
	fmt.Fprintf(sb, "Node K<%s> %d %s [", kindName(t.n), t.id, cond)
	for i, c := range t.ch {
		if i > 0 {
			sb.WriteString(";")
		}
		fmt.Fprintf(sb, "(F<%s>,", c.field)
		c.coq(info, sb)
		sb.WriteString(")")
	}
	sb.WriteString("]")
}

// expected computes, independently of the engine (ast.Inspect order, nodetag.FromNode, a stack), the visits
// the property demands: every tagged node once, in source order, with the dead flag of its position.
func expected(info *types.Info, order []*tnode, init event) []event {
	var out []event
	dead := map[*tnode]bool{}
	fn := map[*tnode]int{}
	for _, t := range order {
		d, f := init.Dead, init.Func
		if t.par != nil {
			d, f = dead[t.par], fn[t.par]
			if known, val := condOf(info, t.par.n); known {
				ifs := t.par.n.(*ast.IfStmt)
				if (t.n == ast.Node(ifs.Body) && !val) || (ifs.Else != nil && t.n == ifs.Else && val) {
					d = true
				}
			}
			if _, ok := t.par.n.(*ast.FuncDecl); ok {
				f = t.par.id
			}
		}
		dead[t], fn[t] = d, f
		tag := nodetag.FromNode(t.n)
		if tag == nodetag.Unknown {
			continue
		}
		path := append([]int(nil), init.Path...)
		var anc []int
		for p := t; p != nil; p = p.par {
			anc = append(anc, p.id)
		}
		for i := len(anc) - 1; i >= 0; i-- {
			path = append(path, anc[i])
		}
		out = append(out, event{ID: t.id, Tag: int(tag), Dead: d, Func: f, Path: path})
	}
	return out
}

func eventsEqual(a, b event) bool {
	if a.ID != b.ID || a.Tag != b.Tag || a.Dead != b.Dead || a.Func != b.Func || len(a.Path) != len(b.Path) {
		return false
	}
	for i := range a.Path {
		if a.Path[i] != b.Path[i] {
			return false
		}
	}
	return true
}

// observe runs hook and expectation over one parsed file.
func observe(name string, fset *token.FileSet, f *ast.File, info *types.Info, src []byte, init event, panicAt int, withTree bool) fileObs {
	top, ids, order := buildTree(f)
	obs := fileObs{K: "file", Name: name, Nodes: len(order), PanicAt: panicAt}
	if withTree {
		var sb strings.Builder
		top.coq(info, &sb)
		obs.Tree = sb.String()
	}
	// initial context: ids beyond the tree denote foreign nodes
	foreign := map[int]ast.Node{}
	nodeOf := func(id int) ast.Node {
		if id < 0 {
			return nil
		}
		if id < len(order) {
			return order[id].n
		}
		if n, ok := foreign[id]; ok {
			return n
		}
		n := &ast.FuncDecl{Name: ast.NewIdent(fmt.Sprintf("foreign%d", id))}
		foreign[id] = n
		ids[n] = id
		return n
	}
	st := ruleguard.VerifWalkState{Dead: init.Dead}
	if init.Func >= 0 {
		st.Func = nodeOf(init.Func).(*ast.FuncDecl)
	}
	for _, p := range init.Path {
		st.Path = append(st.Path, nodeOf(p))
	}
	obs.Init = &init
	evs, after, panicked := ruleguard.VerifWalkEvents(info, f, st, panicAt)
	conv := func(dead bool, fn *ast.FuncDecl, path []ast.Node) event {
		e := event{Dead: dead, Func: -1}
		if fn != nil {
			e.Func = ids[fn]
		}
		for _, p := range path {
			if p == nil {
				e.Path = append(e.Path, -1)
			} else if id, ok := ids[p]; ok {
				e.Path = append(e.Path, id)
			} else {
				e.Path = append(e.Path, -2)
			}
		}
		return e
	}
	for _, e := range evs {
		c := conv(e.Dead, e.Func, e.Path)
		c.Tag = e.Tag
		if id, ok := ids[e.Node]; ok {
			c.ID = id
		} else {
			c.ID = -2
		}
		obs.Events = append(obs.Events, c)
	}
	a := conv(after.Dead, after.Func, after.Path)
	obs.After = &a
	obs.Panicked = panicked
	// independent expectation
	exp := expected(info, order, init)
	if panicAt >= 0 && panicAt < len(exp) {
		exp = exp[:panicAt+1]
	}
	describe := func(e event) string {
		if e.ID >= 0 && e.ID < len(order) {
			n := order[e.ID].n
			p := fset.Position(n.Pos())
			return fmt.Sprintf("%s at %s:%d:%d tag=%d dead=%v func=%d path=%v", kindName(n), filepath.Base(p.Filename), p.Line, p.Column, e.Tag, e.Dead, e.Func, e.Path)
		}
		return fmt.Sprintf("%+v", e)
	}
	for i := 0; i < len(exp) || i < len(obs.Events); i++ {
		switch {
		case i >= len(obs.Events):
			obs.Oracle = fmt.Sprintf("visit #%d missing: expected %s", i, describe(exp[i]))
		case i >= len(exp):
			obs.Oracle = fmt.Sprintf("visit #%d unexpected: %s", i, describe(obs.Events[i]))
		case !eventsEqual(exp[i], obs.Events[i]):
			obs.Oracle = fmt.Sprintf("visit #%d: expected %s, walker did %s", i, describe(exp[i]), describe(obs.Events[i]))
		}
		if obs.Oracle != "" {
			break
		}
	}
	if obs.Oracle == "" {
		wantAfter := event{Dead: init.Dead, Func: init.Func, Path: init.Path}
		if panicAt < 0 || panicAt >= len(expected(info, order, init)) {
			if a.Dead != wantAfter.Dead || a.Func != wantAfter.Func || !eventsEqual(event{Path: a.Path}, event{Path: wantAfter.Path}) {
				obs.Oracle = fmt.Sprintf("context not restored after the walk: before %+v after %+v", wantAfter, a)
			}
		} else if !eventsEqual(event{Path: a.Path}, event{Path: wantAfter.Path}) {
			obs.Oracle = fmt.Sprintf("node path not unwound after a callback panic: before %v after %v", wantAfter.Path, a.Path)
		}
	}
	// per-aspect comparison on the nodes both sides visit
	fullExp := map[int]event{}
	for _, e := range expected(info, order, init) {
		fullExp[e.ID] = e
	}
	for _, e := range obs.Events {
		x, ok := fullExp[e.ID]
		if !ok {
			continue
		}
		if obs.OracleDead == "" && x.Dead != e.Dead {
			obs.OracleDead = fmt.Sprintf("dead-code flag at %s: expected %v", describe(e), x.Dead)
		}
		if obs.OracleCtx == "" && (x.Func != e.Func || !eventsEqual(event{Path: x.Path}, event{Path: e.Path})) {
			obs.OracleCtx = fmt.Sprintf("context at %s: expected func=%d path=%v", describe(e), x.Func, x.Path)
		}
	}
	if !panicked {
		if obs.OracleDead == "" && a.Dead != init.Dead {
			obs.OracleDead = fmt.Sprintf("dead-code flag not restored after the walk: before %v after %v", init.Dead, a.Dead)
		}
		if obs.OracleCtx == "" && a.Func != init.Func {
			obs.OracleCtx = fmt.Sprintf("current function not restored after the walk: before %d after %d", init.Func, a.Func)
		}
	}
	if obs.OracleCtx == "" && !eventsEqual(event{Path: a.Path}, event{Path: init.Path}) {
		obs.OracleCtx = fmt.Sprintf("node path not restored: before %v after %v", init.Path, a.Path)
	}
	if (obs.Oracle != "" || obs.OracleDead != "" || obs.OracleCtx != "") && len(src) < 20000 {
		obs.Src = string(src)
	}
	seen := map[string]bool{}
	for _, t := range order {
		if t.par != nil && nodetag.FromNode(t.n) != nodetag.Unknown {
			k := kindName(t.par.n) + "." + t.field
			if !seen[k] {
				seen[k] = true
				obs.Kinds = append(obs.Kinds, k)
			}
		}
	}
	if withTree {
		for _, t := range order {
			obs.IDs = append(obs.IDs, nodeInfo{Pos: fset.Position(t.n.Pos()).Offset, End: fset.Position(t.n.End()).Offset, Kind: kindName(t.n)})
		}
	}
	return obs
}

func main() {
	mode := flag.String("mode", "events", "events | deadcode | rules | history | tags")
	files := flag.String("files", "", "comma separated Go files (events mode)")
	ngen := flag.Int("gen", 0, "number of generated files")
	size := flag.Int("size", 40, "statements per generated function")
	seed := flag.Int64("seed", 1, "PRNG seed")
	tmp := flag.String("tmp", "", "scratch directory")
	maxNodes := flag.Int("maxnodes", 6000, "skip the Coq tree for files with more nodes (oracle still runs)")
	variants := flag.Int("variants", 2, "extra walks per file from a non-initial context / with a panicking callback")
	flag.BoolVar(&historyColdChild, "coldchild", false, "history mode, child process: per (rule set, file) the runs over each declaration alone, everything in reverse order")
	flag.Parse()
	historySeed = *seed
	enc := json.NewEncoder(os.Stdout)
	rng := rand.New(rand.NewSource(*seed))

	switch *mode {
	case "tags":
		nb, sl, el, dl := ruleguard.VerifNodeTags()
		enc.Encode(map[string]int{"NumBuckets": nb, "StmtList": sl, "ExprList": el, "DeclList": dl})
	case "events":
		type input struct {
			name string
			src  []byte
		}
		var inputs []input
		for _, p := range strings.Split(*files, ",") {
			if p == "" {
				continue
			}
			b, err := os.ReadFile(p)
			if err != nil {
				enc.Encode(fileObs{K: "file", Name: p, Err: err.Error()})
				continue
			}
			inputs = append(inputs, input{p, b})
		}
		for i := 0; i < *ngen; i++ {
			inputs = append(inputs, input{fmt.Sprintf("gen%d.go", i), []byte(genFile(rng, i, *size))})
		}
		inputs = append(inputs, input{"kitchensink.go", []byte(kitchenSink)})
		// one fixed file that is nested far deeper than hand-written code (generated code is): every level must be visited
		// (oracle only: the visits of such a file carry node paths of a few hundred entries each)
		inputs = append(inputs, input{deepNestName, []byte(deepNest(280))})
		for _, in := range inputs {
			fset := token.NewFileSet()
			f, info, err := parseLoose(fset, in.name, in.src)
			if err != nil {
				enc.Encode(fileObs{K: "file", Name: in.name, Err: err.Error()})
				continue
			}
			init0 := event{Func: -1}
			o := observe(in.name, fset, f, info, in.src, init0, -1, true)
			withTree := o.Nodes <= *maxNodes && in.name != deepNestName
			if !withTree {
				o.Tree, o.IDs = "", nil
			}
			enc.Encode(o)
			for v := 0; v < *variants && (withTree || (in.name == deepNestName && v < 2)); v++ {
				// a walk that starts from an arbitrary context, and one whose callback panics somewhere
				init := event{Dead: rng.Intn(2) == 0, Func: -1, Path: []int{o.Nodes + 5, o.Nodes + 6}[:rng.Intn(3)]}
				if rng.Intn(2) == 0 {
					init.Func = o.Nodes + 7
				}
				panicAt := -1
				if v%2 == 1 && len(o.Events) > 0 {
					panicAt = rng.Intn(len(o.Events))
				}
				ov := observe(in.name, fset, f, info, in.src, init, panicAt, false)
				ov.K = "variant"
				ov.Kinds = nil
				enc.Encode(ov)
			}
		}
	case "deadcode":
		runDeadcode(enc, rng, *ngen, *size, *tmp)
	case "history":
		runHistory(enc, rng, *ngen, *size, *tmp)
	case "rules":
		var extra []string
		for _, p := range strings.Split(*files, ",") {
			if p != "" {
				extra = append(extra, p)
			}
		}
		runRulesMode(enc, rng, *ngen, *size, *tmp, *variants > 0, extra)
	default:
		fmt.Fprintln(os.Stderr, "unknown mode")
		os.Exit(2)
	}
}
