package main

// Round-5 additions: list patterns (the node a rule is tried on is the HOLDER of the list, the node it reports is a slice of
// it), types a rules file declares itself under a name every file uses, and the measurement of a rule on an engine that has a
// load history.

import (
	"fmt"
	"go/ast"
	"strings"

	"github.com/quasilyte/gogrep"
	"github.com/quasilyte/gogrep/nodetag"
)

// markerFilters: the indices of the filters that name the type `marker`, which every generated file declares for itself
// (one spelling -- "gorules.marker" -- and another interface in every file)
var markerFilters = func() []int {
	var out []int
	for i, f := range filters {
		if strings.Contains(f, "gorules.marker") {
			out = append(out, i)
		}
	}
	return out
}()

func isMarkerFilter(i int) bool {
	for _, k := range markerFilters {
		if k == i {
			return true
		}
	}
	return false
}

// markerArg: the parameter type of the method Mark in the interface a file with Marker == k declares
func markerArg(k int) string { return fmt.Sprintf("int%d", 8*k) }

// listPats: the indices of the patterns that are lists (statements, expressions, declarations): they have no node of their
// own, the loader files them under every kind of node that holds such a list
var listPats = func() []int {
	var out []int
	for i, p := range syntaxPats {
		switch nodetag.Value(rootTag(p)) {
		case nodetag.StmtList, nodetag.ExprList, nodetag.DeclList:
			out = append(out, i)
		}
	}
	return out
}()

func isListPat(i int) bool {
	for _, k := range listPats {
		if k == i {
			return true
		}
	}
	return false
}

// listOnly: every syntax rule of the file has a list pattern (and there is one); comment rules do not count
func listOnly(sf *SFile) bool {
	n := 0
	for _, g := range sf.Groups {
		for _, r := range g.Rules {
			switch r.Kind {
			case "syntax":
				if !isListPat(r.Pat) {
					return false
				}
				n++
			case "bad":
				return false
			}
		}
	}
	return n > 0
}

// ballast: a rules file that reports nothing on the probe file; loading it first gives an engine a load history
const ballast = "package gorules\n\nimport \"github.com/quasilyte/go-ruleguard/dsl\"\n\nfunc ballast(m dsl.Matcher) {\n" +
	"\tm.MatchComment(`NO-SUCH-TEXT-IN-THE-PROBE-FILE`).Report(`ballast`)\n}\n"

// holderOf: the node of the probe file whose list the slice is a part of -- the node the engine tried the rule on
// (BlockStmt / CaseClause / CommClause for statements, CallExpr / CompositeLit / ReturnStmt for expressions, File for
// declarations). Reports of list patterns are keyed by it: "first accepting rule per node" is about that node.
func (w *world) holderOf(s *gogrep.NodeSlice) ast.Node {
	var found []ast.Node
	covers := func(n int, at func(i int) ast.Node) bool {
		for i := 0; i < n; i++ {
			if at(i).Pos() != s.Pos() {
				continue
			}
			for j := i; j < n; j++ {
				if at(j).End() == s.End() {
					return true
				}
			}
		}
		return false
	}
	stmts := func(l []ast.Stmt) bool { return covers(len(l), func(i int) ast.Node { return l[i] }) }
	exprs := func(l []ast.Expr) bool { return covers(len(l), func(i int) ast.Node { return l[i] }) }
	ast.Inspect(w.t.File, func(n ast.Node) bool {
		ok := false
		switch s.Kind {
		case gogrep.StmtNodeSlice:
			switch n := n.(type) {
			case *ast.BlockStmt:
				ok = stmts(n.List)
			case *ast.CaseClause:
				ok = stmts(n.Body)
			case *ast.CommClause:
				ok = stmts(n.Body)
			}
		case gogrep.ExprNodeSlice:
			switch n := n.(type) {
			case *ast.CallExpr:
				ok = exprs(n.Args)
			case *ast.CompositeLit:
				ok = exprs(n.Elts)
			case *ast.ReturnStmt:
				ok = exprs(n.Results)
			}
		case gogrep.DeclNodeSlice:
			if n, isFile := n.(*ast.File); isFile {
				ok = covers(len(n.Decls), func(i int) ast.Node { return n.Decls[i] })
			}
		}
		if ok {
			found = append(found, n)
		}
		return true
	})
	if len(found) != 1 {
		return nil
	}
	return found[0]
}
