// c13: load histories. One abstract description of a pool of rules files (groups with colliding names, bundle imports with
// and without prefix, custom functions with equal names, rules that fail to load, GroupFilters) is rendered to DSL source;
// every rule alternative is measured alone (which probe nodes it reports); random histories of Load / LoadFromIR calls are
// executed on one engine and after every call the returned error, LoadedGroups() and the reports on the probe file (with a
// fresh RunnerState and with two RunnerStates created earlier in the history) are printed. Output: one JSON document.
package main

import (
	"encoding/json"
	"flag"
	"fmt"
	"go/ast"
	"go/token"
	"go/types"
	"math/rand"
	"os"
	"path/filepath"
	"regexp"
	"sort"
	"strings"
	"time"

	"verif/harness/internal/hutil"

	"github.com/quasilyte/go-ruleguard/ruleguard"
	"github.com/quasilyte/gogrep"
	"github.com/quasilyte/gogrep/nodetag"
)

// ------------------------------------------------------------------ abstract description

type Fn struct {
	Name  string   `json:"name"`
	Body  int      `json:"body"` // 1: calls Calls[0] on the size of the variable's type; 10+k: n == k; 20+k: size == k
	Calls []string `json:"calls"`
}

type Rule struct {
	UID     int    `json:"uid"`
	Kind    string `json:"kind"` // syntax | comment | bad
	Pat     int    `json:"pat"`
	Filter  int    `json:"filter"`
	Fn      string `json:"fn"`
	RootTag int    `json:"root_tag"`
	Bad     int    `json:"bad"`
}

type Group struct {
	Name  string `json:"name"`
	Rules []Rule `json:"rules"`
}

type SFile struct {
	ID     int     `json:"id"`
	Name   string  `json:"name"`
	Fns    []Fn    `json:"fns"`
	Groups []Group `json:"groups"`
	// the value this file gives the constant kSize (0: the file does not declare it): filters spelled alike over it mean something
	// else in every file -- what a rule means is what its own file says, whatever was loaded before under the same spelling
	KSize int `json:"ksize,omitempty"`
	// the interface this file declares as `marker` (0: none; k: interface{ Mark(int<8k>) }): filters that name "gorules.marker"
	// are spelled alike in every file and mean the file's own type
	Marker int `json:"marker,omitempty"`
	// every syntax rule of the file has a list pattern (computed)
	ListOnly bool `json:"list_only,omitempty"`
}

type Bundle struct {
	Prefix string   `json:"prefix"`
	Pkg    string   `json:"pkg"`
	Files  []*SFile `json:"files"`
}

type RFile struct {
	Main    *SFile   `json:"main"`
	Bundles []Bundle `json:"bundles"`
	Broken  bool     `json:"broken"` // does not type-check: rejected before LoadFile
}

var syntaxPats = []string{
	"$x + $y", "$x - $y", "$x * $y", "use($x)", "-$x", "$x[$_]", "($x)", "return $x",
	"if $x { $*_ }", "{ $*_; use($x) }", "{ $x := $_; $*_ }", "$_ = $x",
	// list patterns: statements, expressions, declarations (no node of their own: tried on every node that holds such a list)
	// (each matches at most once in any one list of the probe file: one report per rule and node, as for the other patterns)
	"$x := $_; use($x)", "$x, $_", "func ($x) Mark(int8) {}; type $_ struct{}", "$_ = $_; use($x)",
}
var commentPats = []string{`TODO`, `FIXME|TODO`, `\((alice|bob)\)`}
var filters = []string{
	"", `m["x"].Type.Size == 8`, `m["x"].Type.Size <= 2`, `m["x"].Type.Is("int32")`, `m["x"].Text == "a8"`, "FN",
	`!m["x"].Type.Is("int64")`,
	// names resolved through the engine-wide type lookup at load time
	`!m["x"].Type.Implements("io.Reader")`, `!m["x"].Type.HasMethod("io.Writer.Write")`, `!m["x"].Type.Implements("error")`,
	// one spelling over the constant kSize, to which every file gives its own value
	`m["x"].Type.Size == kSize`, `m["x"].Type.Size != kSize && m["x"].Type.Size >= kSize/2`,
	// one spelling of a type every file declares for itself
	`m["x"].Type.Implements("gorules.marker")`, `!m["x"].Type.HasMethod("gorules.marker.Mark")`,
}

// kSizeFilters: the indices of the filters that are spelled over the constant of the file
var kSizeFilters = func() []int {
	var out []int
	for i, f := range filters {
		if strings.Contains(f, "kSize") {
			out = append(out, i)
		}
	}
	return out
}()

func renderFn(f Fn) string {
	switch {
	case f.Body == 1:
		return fmt.Sprintf("func %s(ctx *dsl.VarFilterContext) bool { return %s(ctx.SizeOf(ctx.Type)) }\n", f.Name, f.Calls[0])
	case f.Body >= 20:
		return fmt.Sprintf("func %s(ctx *dsl.VarFilterContext) bool { return ctx.SizeOf(ctx.Type) == %d }\n", f.Name, f.Body-20)
	default:
		return fmt.Sprintf("func %s(n int) bool { return n == %d }\n", f.Name, f.Body-10)
	}
}

func renderRule(r Rule) string {
	msg := fmt.Sprintf("R%d", r.UID)
	switch r.Kind {
	case "comment":
		return fmt.Sprintf("\tm.MatchComment(`%s`).Report(`%s`)\n", commentPats[r.Pat], msg)
	case "bad":
		switch r.Bad {
		case 0:
			return fmt.Sprintf("\tm.Match(`$x +`).Report(`%s`)\n", msg)
		case 1:
			return fmt.Sprintf("\tm.Match(`%s`).Where(m[\"nosuch\"].Pure).Report(`%s`)\n", syntaxPats[r.Pat], msg)
		case 2:
			return fmt.Sprintf("\tm.MatchComment(`(`).Report(`%s`)\n", msg)
		case 3:
			return fmt.Sprintf("\tm.Match(`%s`).Where(m[\"x\"].Type.Is(\"[\")).Report(`%s`)\n", syntaxPats[r.Pat], msg)
		default: // a name the engine-wide type lookup cannot resolve: known package without the name, unknown package, not a type name
			arg := []string{`Implements("io.NoSuchInterface")`, `HasMethod("io.NoSuchInterface.Write")`, `Implements("nosuch/pkg.T")`,
				`HasMethod("nosuchpkg.T.M")`, `Implements("io.PipeReader")`, `HasMethod("io.Reader.NoSuchMethod")`}[(r.Bad-4)%6]
			return fmt.Sprintf("\tm.Match(`%s`).Where(m[\"x\"].Type.%s).Report(`%s`)\n", syntaxPats[r.Pat], arg, msg)
		}
	}
	w := filters[r.Filter]
	if w == "FN" {
		w = fmt.Sprintf(`m["x"].Filter(%s)`, r.Fn)
	}
	if w != "" {
		w = ".Where(" + w + ")"
	}
	return fmt.Sprintf("\tm.Match(`%s`)%s.Report(`%s`)\n", syntaxPats[r.Pat], w, msg)
}

func renderSFile(pkg string, sf *SFile, bundles []Bundle, broken bool, declBundle bool) string {
	var sb strings.Builder
	fmt.Fprintf(&sb, "package %s\n\nimport \"github.com/quasilyte/go-ruleguard/dsl\"\n", pkg)
	imported := map[string]bool{}
	for _, b := range bundles {
		if !imported[b.Pkg] { // one bundle may be imported under several prefixes (or twice under one)
			fmt.Fprintf(&sb, "import \"example.com/%s\"\n", b.Pkg)
		}
		imported[b.Pkg] = true
	}
	if declBundle {
		sb.WriteString("\nvar Bundle = dsl.Bundle{}\n")
	}
	if sf.KSize != 0 {
		fmt.Fprintf(&sb, "\nconst kSize = %d\n", sf.KSize)
	}
	if sf.Marker != 0 {
		fmt.Fprintf(&sb, "\ntype marker interface{ Mark(%s) }\n", markerArg(sf.Marker))
	}
	if len(bundles) != 0 {
		sb.WriteString("\nfunc init() {\n")
		for _, b := range bundles {
			fmt.Fprintf(&sb, "\tdsl.ImportRules(%q, %s.Bundle)\n", b.Prefix, b.Pkg)
		}
		sb.WriteString("}\n")
	}
	sb.WriteString("\n")
	for _, f := range sf.Fns {
		sb.WriteString(renderFn(f))
	}
	for _, g := range sf.Groups {
		fmt.Fprintf(&sb, "\nfunc %s(m dsl.Matcher) {\n", g.Name)
		for _, r := range g.Rules {
			sb.WriteString(renderRule(r))
		}
		sb.WriteString("}\n")
	}
	if broken {
		sb.WriteString("\nfunc brokenGroup(m dsl.Matcher) {\n\tm.Match(`$x`).Report(undefinedIdentifier)\n}\n")
	}
	return sb.String()
}

// static bundle packages (harness/fake/rb1, rb2): their abstract description; the files on disk must equal the rendering
func bundlePackages(uid *int) map[string][]*SFile {
	next := func() int { *uid++; return *uid }
	rb1 := &SFile{ID: 101, Name: "rb1_rules.go", Groups: []Group{
		{Name: "g1", Rules: []Rule{{UID: next(), Kind: "syntax", Pat: 1, Filter: 0}}},
		{Name: "bx", Rules: []Rule{{UID: next(), Kind: "syntax", Pat: 2, Filter: 3}, {UID: next(), Kind: "comment", Pat: 2}}},
	}}
	rb2a := &SFile{ID: 102, Name: "rb2_a.go",
		Fns: []Fn{{Name: "helper", Body: 12}, {Name: "check", Body: 1, Calls: []string{"helper"}}},
		Groups: []Group{
			{Name: "g2", Rules: []Rule{{UID: next(), Kind: "syntax", Pat: 0, Filter: 5, Fn: "check"}}},
		}}
	rb2b := &SFile{ID: 103, Name: "rb2_b.go", KSize: 4, Groups: []Group{
		{Name: "by", Rules: []Rule{{UID: next(), Kind: "syntax", Pat: 3, Filter: 1}, {UID: next(), Kind: "syntax", Pat: 9, Filter: 0},
			{UID: next(), Kind: "syntax", Pat: 1, Filter: kSizeFilters[0]}}},
	}}
	return map[string][]*SFile{"rb1": {rb1}, "rb2": {rb2a, rb2b}}
}

const target = `package target

func use(xs ...interface{}) {}

// TODO(alice): first
func f(a8, b8 int64, a4, b4 int32, a2, b2 int16, a1, b1 int8, xs []int64, ok bool) int64 {
	_ = a8 + b8
	_ = a4 + b4
	_ = a2 - b2
	_ = a1 * b1
	_ = a8 * b8
	_ = a4 - b4
	_ = a2 + b2
	use(a8)
	use(a4)
	_ = -a8
	_ = -a2
	_ = xs[a8]
	_ = (a8)
	_ = (a4)
	// FIXME(bob): second
	if ok {
		c8 := a8
		use(c8)
	}
	if a4 > 0 { /* TODO later */
		c4 := a4
		_ = c4
		use(a1)
	}
	return a8
}

func g(a4 int32) int32 { return (a4) }

type t1 struct{}

func (t1) Mark(int8) {}

type t2 struct{}

func (t2) Mark(int16) {}

type t4 struct{}

func (t4) Mark(int32) {}

type t8 struct{}

func (t8) Mark(int64) {}

func h(a8 int64, a4 int32, ok bool) int64 {
	use(t1{})
	use(t2{})
	use(t4{})
	use(t8{})
	_ = (t4{})
	_ = (t1{})
	use(a8, a4)
	use(a4, a8)
	_ = [2]int64{a8, 2}
	switch {
	case ok:
		d4 := a4
		use(d4)
	}
	return a8
}
`

// ------------------------------------------------------------------ running

type Rep struct {
	UID int    `json:"uid"`
	Key string `json:"key"`
}

type GroupObs struct {
	Name string `json:"name"`
	File string `json:"file"`
	Line int    `json:"line"`
}

var uidRe = regexp.MustCompile(`^R(\d+)$`)

type world struct {
	t        *hutil.Target
	comments []*ast.Comment
	nodeTags map[string]int
}

func (w *world) key(n ast.Node) string {
	if c, ok := n.(*ast.Comment); ok {
		for i, cc := range w.comments {
			if c.Pos() >= cc.Pos() && c.Pos() <= cc.End() {
				return fmt.Sprintf("c%d", i)
			}
		}
		return "c?"
	}
	if s, ok := n.(*gogrep.NodeSlice); ok {
		if h := w.holderOf(s); h != nil {
			return w.key(h)
		}
	}
	k := fmt.Sprintf("%d:%d:%T", w.t.Fset.Position(n.Pos()).Offset, w.t.Fset.Position(n.End()).Offset, n)
	if _, ok := w.nodeTags[k]; !ok {
		w.nodeTags[k] = int(nodetag.FromNode(n))
	}
	return k
}

func (w *world) run(e *ruleguard.Engine, st *ruleguard.RunnerState) (reps []Rep, problem string) {
	defer func() {
		if r := recover(); r != nil {
			problem = "panic: " + fmt.Sprint(r)
		}
	}()
	ctx := &ruleguard.RunContext{
		Pkg: w.t.Pkg, Types: w.t.Info, Sizes: types.SizesFor("gc", "amd64"), Fset: w.t.Fset, State: st,
		Report: func(d *ruleguard.ReportData) {
			uid := -1
			if m := uidRe.FindStringSubmatch(d.Message); m != nil {
				fmt.Sscan(m[1], &uid)
			}
			k := "nil"
			if d.Node != nil {
				k = w.key(d.Node)
			}
			reps = append(reps, Rep{UID: uid, Key: k})
		},
	}
	if err := e.Run(ctx, w.t.File); err != nil {
		return reps, "error: " + err.Error()
	}
	return reps, ""
}

func groupsOf(e *ruleguard.Engine) (gs []GroupObs, problem string) {
	defer func() {
		if r := recover(); r != nil {
			problem = "panic: " + fmt.Sprint(r)
		}
	}()
	gs = []GroupObs{}
	for _, g := range e.LoadedGroups() {
		gs = append(gs, GroupObs{Name: g.Name, File: filepath.Base(g.Filename), Line: g.Line})
	}
	return gs, ""
}

type loadObs struct {
	OK      bool   `json:"ok"`
	Err     string `json:"err"`
	Located bool   `json:"located"`
	Panic   string `json:"panic,omitempty"`
}

var locRe = regexp.MustCompile(`[\w./-]+\.go:\d+`)

const importFlake = "could not import github.com/quasilyte/go-ruleguard/dsl"

const hangMark = "Load does not return"

func load(e *ruleguard.Engine, fset *token.FileSet, name, src string, via string, accept map[string]bool) (o loadObs) {
	for try := 0; try < 4; try++ {
		// a call that does not come back (a lock left behind by an earlier call) must not take the whole run with it
		ch := make(chan loadObs, 1)
		go func() { ch <- load1(e, fset, name, src, via, accept) }()
		select {
		case o = <-ch:
		case <-time.After(90 * time.Second):
			return loadObs{Panic: hangMark + " within 90 s (the engine cannot be used any more; the history ends here)"}
		}
		if !strings.Contains(o.Err, importFlake) {
			break
		}
	}
	return o
}

func load1(e *ruleguard.Engine, fset *token.FileSet, name, src string, via string, accept map[string]bool) (o loadObs) {
	defer func() {
		if r := recover(); r != nil {
			o = loadObs{Panic: fmt.Sprint(r)}
		}
	}()
	ctx := &ruleguard.LoadContext{Fset: fset}
	if accept != nil {
		ctx.GroupFilter = func(g *ruleguard.GoRuleGroup) bool { return accept[g.Name] }
	}
	var err error
	if via == "ir" {
		irf, cerr := ruleguard.VerifConvertAST(e, ctx, name, []byte(src))
		if cerr != nil {
			err = cerr
		} else {
			err = e.LoadFromIR(ctx, name, irf)
		}
	} else {
		err = e.Load(ctx, name, strings.NewReader(src))
	}
	if err != nil {
		return loadObs{Err: err.Error(), Located: locRe.MatchString(err.Error())}
	}
	return loadObs{OK: true}
}

// ------------------------------------------------------------------ generation

type Op struct {
	File   int    `json:"file"`
	Via    string `json:"via"`
	Filter int    `json:"filter"` // index into Filters, -1 = nil
}

type Step struct {
	Load       loadObs    `json:"load"`
	Groups     []GroupObs `json:"groups"`
	GroupsProb string     `json:"groups_problem,omitempty"`
	Reports    []Rep      `json:"reports"`
	RunProb    string     `json:"run_problem,omitempty"`
	State0     []Rep      `json:"state0_reports"`
	State0Prob string     `json:"state0_problem,omitempty"`
	State1     []Rep      `json:"state1_reports"`
	State1Prob string     `json:"state1_problem,omitempty"`
	HasState1  bool       `json:"has_state1"`
}

type History struct {
	Ops   []Op   `json:"ops"`
	Init  Step   `json:"init"` // the engine before any call
	Steps []Step `json:"steps"`
}

type Single struct {
	File    int        `json:"file"`
	Filter  int        `json:"filter"`
	Load    loadObs    `json:"load"`
	Groups  []GroupObs `json:"groups"`
	Reports []Rep      `json:"reports"`
}

type Output struct {
	NumBuckets int                 `json:"num_buckets"`
	TagValues  map[string]int      `json:"tag_values"`
	Files      []*RFile            `json:"files"`
	Sources    []string            `json:"sources"`
	Filters    [][]string          `json:"filters"`
	Acc        map[string][]string `json:"acc"`       // uid -> node keys the rule reports when loaded alone
	// uid -> node keys the rule (the same stand-alone file) reports on an engine that loaded another file before
	AccAfter      map[string][]string `json:"acc_after"`
	MarkerFilters []int               `json:"marker_filters"`
	ListPats      []int               `json:"list_pats"`
	SyntaxPats    []string            `json:"syntax_pats"`
	AccErr     map[string]string   `json:"acc_err"`   // uid -> load error of the stand-alone file (bad rules)
	NodeTags   map[string]int      `json:"node_tags"` // node key -> bucket tag (comments: not listed)
	Singles    []Single            `json:"singles"`
	Histories  []History           `json:"histories"`
	Problems   []string            `json:"problems"`
}

func rootTag(pat string) int {
	p, _, err := gogrep.Compile(gogrep.CompileConfig{Fset: token.NewFileSet(), Src: pat, WithTypes: true})
	if err != nil {
		return -1
	}
	return int(p.NodeTag())
}

func genRule(rng *rand.Rand, uid *int, fns []Fn, closedFns bool) Rule {
	*uid++
	r := Rule{UID: *uid}
	switch x := rng.Intn(12); {
	case x == 0:
		r.Kind = "comment"
		r.Pat = rng.Intn(len(commentPats))
		return r
	default:
		r.Kind = "syntax"
		r.Pat = rng.Intn(len(syntaxPats))
		r.Filter = rng.Intn(len(filters))
		if rng.Intn(5) == 0 {
			r.Filter = kSizeFilters[rng.Intn(len(kSizeFilters))] // spelled over the constant of the file
		}
		if rng.Intn(4) == 0 {
			// names the type of the file: on the nodes whose types tell the files' interfaces apart
			r.Filter = markerFilters[rng.Intn(len(markerFilters))]
			r.Pat = []int{3, 3, 6, 13}[rng.Intn(4)]
		}
		if r.Pat == 8 && r.Filter != 4 {
			// the condition of an if statement may have an untyped type; size/type predicates on it are C07's business
			r.Filter = 0
		}
		if filters[r.Filter] == "FN" {
			var cands []string
			for _, f := range fns {
				if f.Body == 1 || f.Body >= 20 {
					cands = append(cands, f.Name)
				}
			}
			if len(cands) == 0 {
				r.Filter = 0
			} else {
				r.Fn = cands[rng.Intn(len(cands))]
			}
		}
		r.RootTag = rootTag(syntaxPats[r.Pat])
		return r
	}
}

func genFns(rng *rand.Rand) []Fn {
	switch rng.Intn(6) {
	case 0, 1:
		return nil
	case 2: // closed: helper before its caller
		return []Fn{{Name: "helper", Body: 10 + []int{1, 2, 4, 8}[rng.Intn(4)]}, {Name: "check", Body: 1, Calls: []string{"helper"}}}
	case 3: // the caller precedes the declaration of helper
		return []Fn{{Name: "check", Body: 1, Calls: []string{"helper"}}, {Name: "helper", Body: 10 + []int{1, 2, 4, 8}[rng.Intn(4)]}}
	case 4:
		return []Fn{{Name: "check", Body: 20 + []int{1, 2, 4, 8}[rng.Intn(4)]}}
	default: // a chain, and a second user of helper
		k := 10 + []int{1, 2, 4, 8}[rng.Intn(4)]
		return []Fn{{Name: "helper", Body: k}, {Name: "check", Body: 1, Calls: []string{"helper"}}, {Name: "check2", Body: 1, Calls: []string{"helper"}}}
	}
}

func genFile(rng *rand.Rand, id int, uid *int, pkgs map[string][]*SFile) *RFile {
	names := []string{"g1", "g2", "g3", "g4", "by"}
	rng.Shuffle(len(names), func(i, j int) { names[i], names[j] = names[j], names[i] })
	sf := &SFile{ID: id, Name: fmt.Sprintf("f%d.go", id)}
	sf.Fns = genFns(rng)
	sf.KSize = []int{1, 2, 4, 8}[(id+rng.Intn(2))%4]
	sf.Marker = []int{1, 2, 4, 8}[(id/2+rng.Intn(3))%4]
	for id >= 7 && len(sf.Fns) == 2 && sf.Fns[0].Body == 1 {
		sf.Fns = genFns(rng) // not the variant that is rejected (a function used before its declaration)
	}
	if id == 8 || id == 9 {
		// files 8 and 9 of every pool load, alone and together (no group name in common), and declare different types
		if id == 8 {
			names = []string{"g1", "g2", "by"}
		} else {
			names = []string{"g3", "g4", "g5"}
		}
		sf.Marker = []int{1, 2, 4, 8}[(id+rng.Intn(2)*2)%4]
	}
	ng := 1 + rng.Intn(3)
	badAt := -1
	if rng.Intn(4) == 0 || id <= 3 {
		badAt = rng.Intn(ng)
	}
	if id >= 7 {
		badAt = -1
	}
	for gi := 0; gi < ng; gi++ {
		g := Group{Name: names[gi]}
		nr := 1 + rng.Intn(2)
		for ri := 0; ri < nr; ri++ {
			g.Rules = append(g.Rules, genRule(rng, uid, sf.Fns, true))
		}
		if gi == 0 && id != 7 && g.Rules[0].Kind != "syntax" && (id <= 3 || id >= 8) {
			g.Rules = append([]Rule{genRule(rng, uid, nil, true)}, g.Rules...)
			if g.Rules[0].Kind != "syntax" {
				g.Rules[0] = Rule{UID: g.Rules[0].UID, Kind: "syntax"}
			}
		}
		if gi == 0 && id != 7 && (id <= 3 || id >= 8 || rng.Intn(3) != 0) && g.Rules[0].Kind == "syntax" {
			// most files begin with a rule that names the file's own type (the files that fail to load: always)
			g.Rules[0].Filter = markerFilters[rng.Intn(len(markerFilters))]
			g.Rules[0].Fn = ""
			g.Rules[0].Pat = []int{3, 3, 6, 13}[rng.Intn(4)]
			g.Rules[0].RootTag = rootTag(syntaxPats[g.Rules[0].Pat])
		}
		if id == 7 { // file 7 of every pool: every syntax rule has a list pattern
			for ri := range g.Rules {
				if r := &g.Rules[ri]; r.Kind == "syntax" {
					r.Pat = listPats[rng.Intn(len(listPats))]
					if isMarkerFilter(r.Filter) && r.Pat != 13 {
						r.Filter = 0
					}
					r.RootTag = rootTag(syntaxPats[r.Pat])
				}
			}
		}
		if gi == badAt {
			*uid++
			bad := Rule{UID: *uid, Kind: "bad", Bad: rng.Intn(10), Pat: rng.Intn(len(syntaxPats))}
			switch id { // the first three files of every pool fail in one way of each class
			case 1:
				bad.Bad = 4 + rng.Intn(2) // a package that can be imported, without the name
			case 2:
				bad.Bad = 6 + rng.Intn(4) // unknown package / not an interface / no such method
			case 3:
				bad.Bad = rng.Intn(4) // pattern, variable, regexp, type pattern
			}
			pos := rng.Intn(len(g.Rules) + 1)
			g.Rules = append(g.Rules[:pos], append([]Rule{bad}, g.Rules[pos:]...)...)
		}
		sf.Groups = append(sf.Groups, g)
	}
	rf := &RFile{Main: sf}
	shape := rng.Intn(10)
	if id >= 7 { // ... alone in its file: no bundle, nothing that fails
		shape = 5
	}
	if id >= 4 && id <= 6 { // files 4-6 of every pool import one bundle more than once, in each of the three ways
		shape = id + 3
	}
	switch shape {
	case 7: // one bundle under two prefixes: every group of it twice, under both names
		rf.Bundles = []Bundle{{Prefix: "p1", Pkg: "rb1", Files: pkgs["rb1"]}, {Prefix: "p2", Pkg: "rb1", Files: pkgs["rb1"]}}
	case 8: // ... one of them the empty prefix
		rf.Bundles = []Bundle{{Prefix: "p2", Pkg: "rb2", Files: pkgs["rb2"]}, {Prefix: "", Pkg: "rb2", Files: pkgs["rb2"]}}
	case 9: // one bundle twice under the same prefix: every group is a redefinition
		rf.Bundles = []Bundle{{Prefix: "p1", Pkg: "rb1", Files: pkgs["rb1"]}, {Prefix: "p1", Pkg: "rb1", Files: pkgs["rb1"]}}
	case 0:
		rf.Bundles = []Bundle{{Prefix: "p1", Pkg: "rb1", Files: pkgs["rb1"]}}
	case 1:
		rf.Bundles = []Bundle{{Prefix: "", Pkg: "rb1", Files: pkgs["rb1"]}}
	case 2:
		rf.Bundles = []Bundle{{Prefix: "p2", Pkg: "rb2", Files: pkgs["rb2"]}}
	case 3:
		rf.Bundles = []Bundle{{Prefix: "p1", Pkg: "rb2", Files: pkgs["rb2"]}, {Prefix: "p1", Pkg: "rb1", Files: pkgs["rb1"]}}
	}
	if rng.Intn(14) == 0 && id < 7 {
		rf.Broken = true
	}
	sf.ListOnly = listOnly(sf)
	return rf
}

func allNames(files []*RFile) []string {
	set := map[string]bool{}
	for _, rf := range files {
		for _, g := range rf.Main.Groups {
			set[g.Name] = true
		}
		for _, b := range rf.Bundles {
			for _, sf := range b.Files {
				for _, g := range sf.Groups {
					n := g.Name
					if b.Prefix != "" {
						n = b.Prefix + "/" + n
					}
					set[n] = true
				}
			}
		}
	}
	var out []string
	for n := range set {
		out = append(out, n)
	}
	sort.Strings(out)
	return out
}

func main() {
	seed := flag.Int64("seed", 1, "PRNG seed")
	nfiles := flag.Int("files", 9, "rules files in the pool")
	nhist := flag.Int("histories", 40, "number of histories")
	maxlen := flag.Int("maxlen", 7, "maximal history length")
	tmp := flag.String("tmp", "", "scratch directory")
	fakeDir := flag.String("fake", "fake", "directory of the static bundle packages")
	flag.Parse()
	rng := rand.New(rand.NewSource(*seed))
	out := &Output{NumBuckets: int(nodetag.NumBuckets), AccAfter: map[string][]string{}, MarkerFilters: markerFilters, ListPats: listPats, SyntaxPats: syntaxPats,
		Acc: map[string][]string{}, AccErr: map[string]string{}, TagValues: map[string]int{}}
	for _, n := range []string{"BlockStmt", "CaseClause", "CommClause", "File", "CallExpr", "CompositeLit", "ReturnStmt", "BinaryExpr",
		"UnaryExpr", "IndexExpr", "ParenExpr", "IfStmt", "AssignStmt", "FuncDecl", "Ident", "BasicLit", "ExprStmt"} {
		out.TagValues[n] = int(nodetag.FromString(n))
	}
	problem := func(format string, args ...interface{}) {
		out.Problems = append(out.Problems, fmt.Sprintf(format, args...))
	}

	uid := 0
	pkgs := bundlePackages(&uid)
	// the static bundle files must be the rendering of their description
	for pkg, sfs := range pkgs {
		for i, sf := range sfs {
			want := renderSFile(pkg, sf, nil, false, i == 0)
			got, err := os.ReadFile(filepath.Join(*fakeDir, pkg, sf.Name))
			if err != nil || string(got) != want {
				if os.Getenv("C13_WRITE_FAKE") != "" {
					os.WriteFile(filepath.Join(*fakeDir, pkg, sf.Name), []byte(want), 0o644)
					continue
				}
				problem("bundle file %s/%s differs from its description (err=%v)", pkg, sf.Name, err)
			}
			for gi := range sf.Groups {
				for ri := range sf.Groups[gi].Rules {
					r := &sf.Groups[gi].Rules[ri]
					if r.Kind == "syntax" {
						r.RootTag = rootTag(syntaxPats[r.Pat])
					}
				}
			}
		}
	}

	t, err := hutil.CheckTarget(*tmp, "target/target.go", []byte(target))
	if err != nil {
		fmt.Fprintln(os.Stderr, err)
		os.Exit(3)
	}
	w := &world{t: t, nodeTags: map[string]int{}}
	for _, cg := range t.File.Comments {
		w.comments = append(w.comments, cg.List...)
	}

	for i := 0; i < *nfiles; i++ {
		rf := genFile(rng, i+1, &uid, pkgs)
		out.Files = append(out.Files, rf)
		out.Sources = append(out.Sources, renderSFile("gorules", rf.Main, rf.Bundles, rf.Broken, false))
	}
	// GroupFilters: subsets of the final names
	names := allNames(out.Files)
	for i := 0; i < 6; i++ {
		var sel []string
		for _, n := range names {
			if rng.Intn(3) != 0 {
				sel = append(sel, n)
			}
		}
		out.Filters = append(out.Filters, sel)
	}
	out.Filters = append(out.Filters, []string{}) // rejects everything
	acceptOf := func(fi int) map[string]bool {
		if fi < 0 {
			return nil
		}
		m := map[string]bool{}
		for _, n := range out.Filters[fi] {
			m[n] = true
		}
		return m
	}

	// stand-alone measurement of every rule alternative: its own file's functions + the rule alone in one group
	measure := func(sf *SFile) {
		for _, g := range sf.Groups {
			for _, r := range g.Rules {
				one := &SFile{ID: sf.ID, Name: "single.go", Fns: sf.Fns, KSize: sf.KSize, Marker: sf.Marker, Groups: []Group{{Name: "single", Rules: []Rule{r}}}}
				e := ruleguard.NewEngine()
				o := load(e, t.Fset, "single.go", renderSFile("gorules", one, nil, false, false), "src", nil)
				k := fmt.Sprint(r.UID)
				if o.Panic != "" {
					problem("stand-alone load of rule %d panics: %s", r.UID, o.Panic)
					continue
				}
				if !o.OK {
					out.AccErr[k] = o.Err
					continue
				}
				reps, prob := w.run(e, nil)
				if prob != "" {
					problem("stand-alone run of rule %d: %s", r.UID, prob)
				}
				keys := []string{}
				for _, rp := range reps {
					keys = append(keys, rp.Key)
				}
				out.Acc[k] = keys
				seenKey := map[string]bool{}
				for _, key := range keys {
					if seenKey[key] {
						problem("rule %d reports node %s twice when loaded alone (the probe file must give a list pattern one match per list)", r.UID, key)
					}
					seenKey[key] = true
				}
				// the same file on an engine with a load history: what a rule reports is not a matter of being first
				e2 := ruleguard.NewEngine()
				if o2 := load(e2, t.Fset, "ballast.go", ballast, "src", nil); !o2.OK {
					problem("the ballast file does not load: %s%s", o2.Err, o2.Panic)
					continue
				}
				keys2 := []string{}
				if o2 := load(e2, t.Fset, "single.go", renderSFile("gorules", one, nil, false, false), "src", nil); !o2.OK {
					keys2 = append(keys2, "load: "+o2.Err+o2.Panic)
				} else {
					reps2, prob2 := w.run(e2, nil)
					if prob2 != "" {
						keys2 = append(keys2, "run: "+prob2)
					}
					for _, rp := range reps2 {
						keys2 = append(keys2, rp.Key)
					}
				}
				out.AccAfter[k] = keys2
			}
		}
	}
	for _, sfs := range pkgs {
		for _, sf := range sfs {
			measure(sf)
		}
	}
	for _, rf := range out.Files {
		measure(rf.Main)
	}

	// histories
	singleSeen := map[[2]int]bool{}
	for h := 0; h < *nhist; h++ {
		n := 2 + rng.Intn(*maxlen-1)
		hist := History{}
		e := ruleguard.NewEngine()
		st0 := ruleguard.NewRunnerState(e)
		var st1 *ruleguard.RunnerState
		observe := func(s *Step) {
			s.Groups, s.GroupsProb = groupsOf(e)
			s.Reports, s.RunProb = w.run(e, nil)
			s.State0, s.State0Prob = w.run(e, st0)
			if st1 != nil {
				s.HasState1 = true
				s.State1, s.State1Prob = w.run(e, st1)
			}
		}
		observe(&hist.Init)
		for i := 0; i < n; i++ {
			op := Op{File: rng.Intn(len(out.Files)), Via: "src", Filter: -1}
			if rng.Intn(3) == 0 {
				op.Via = "ir"
			}
			if rng.Intn(3) == 0 {
				op.Filter = rng.Intn(len(out.Filters))
			}
			if i == 0 && h%5 == 0 && len(out.Files) >= 7 {
				// the file whose rules are all list patterns is the first thing the engine loads, with every group accepted
				op.File, op.Filter = 6, -1
			}
			if i < 2 && (h%5 == 1 || h%5 == 2) && len(out.Files) >= 9 {
				// two files that declare a type of the same name, one after the other on one engine (h%5 == 1: both load;
				// h%5 == 2: the first one is a file that fails after it resolved its type)
				op.File, op.Filter = 7+(h/5+i)%2, -1
				if i == 0 && h%5 == 2 {
					op.File = (h / 5) % 3
				}
			}
			hist.Ops = append(hist.Ops, op)
			var s Step
			s.Load = load(e, t.Fset, out.Files[op.File].Main.Name, out.Sources[op.File], op.Via, acceptOf(op.Filter))
			if strings.HasPrefix(s.Load.Panic, hangMark) {
				s.Groups, s.Reports, s.State0, s.State1 = []GroupObs{}, []Rep{}, []Rep{}, []Rep{}
				hist.Steps = append(hist.Steps, s)
				break
			}
			if s.Load.OK && st1 == nil {
				st1 = ruleguard.NewRunnerState(e)
			}
			observe(&s)
			hist.Steps = append(hist.Steps, s)
			singleSeen[[2]int{op.File, op.Filter}] = true
		}
		out.Histories = append(out.Histories, hist)
	}
	// single-file measurements for the (file, filter) pairs that occurred
	var pairs [][2]int
	for p := range singleSeen {
		pairs = append(pairs, p)
	}
	sort.Slice(pairs, func(i, j int) bool {
		return pairs[i][0] < pairs[j][0] || pairs[i][0] == pairs[j][0] && pairs[i][1] < pairs[j][1]
	})
	for _, p := range pairs {
		e := ruleguard.NewEngine()
		s := Single{File: p[0], Filter: p[1]}
		s.Load = load(e, t.Fset, out.Files[p[0]].Main.Name, out.Sources[p[0]], "src", acceptOf(p[1]))
		s.Groups, _ = groupsOf(e)
		if s.Load.OK {
			s.Reports, _ = w.run(e, nil)
		}
		out.Singles = append(out.Singles, s)
	}
	out.NodeTags = w.nodeTags
	enc := json.NewEncoder(os.Stdout)
	if err := enc.Encode(out); err != nil {
		fmt.Fprintln(os.Stderr, err)
		os.Exit(3)
	}
}
