// c04: observations for "custom filter / Do functions run with Go semantics".
//
// For every generated program (typed grammar, see gen.go) the harness
//   - type-checks it with go/types and serialises the typed AST as a Coq term (ser.go),
//   - compiles every function with the real quasigo compiler (fresh Env set up like the engine's) and dumps
//     code bytes, constant pools and parameter counts through the verif hook,
//   - runs every function on argument tuples with quasigo.Call (panics and time-outs recorded, native calls traced),
//   - emits the same functions as ordinary Go into one `package main` batch, builds and runs it with the Go
//     toolchain and records what the real compiler's code returns.
//
// Output: one JSON object per line on stdout.
package main

import (
	"context"
	"bufio"
	"bytes"
	"encoding/hex"
	"encoding/json"
	"flag"
	"fmt"
	"go/ast"
	"go/constant"
	"go/importer"
	"go/parser"
	"go/token"
	"go/types"
	"math/rand"
	"os"
	"os/exec"
	"path/filepath"
	"regexp"
	"sort"
	"strconv"
	"strings"
	"time"

	"github.com/quasilyte/go-ruleguard/ruleguard/quasigo"
	"github.com/quasilyte/go-ruleguard/ruleguard/quasigo/stdlib/qfmt"
	"github.com/quasilyte/go-ruleguard/ruleguard/quasigo/stdlib/qstrconv"
	"github.com/quasilyte/go-ruleguard/ruleguard/quasigo/stdlib/qstrings"
)

type dump struct {
	Code    []int    `json:"code"`
	Consts  []string `json:"consts"` // Coq terms of the object constants
	IConsts []string `json:"iconsts"`
	NObj    int      `json:"nobj"`
	NInt    int      `json:"nint"`
}

type callObs struct {
	F       int    `json:"f"`
	ArgsGo  string `json:"args_go"`
	ArgsCoq string `json:"args_coq"`
	Res     string `json:"res"`             // quasigo: i:<n> | s:<hex> | b:<bool> | v | P:<msg> | T
	Oracle  string `json:"oracle"`          // go toolchain, same encoding
	Trace   string `json:"trace"`           // Coq list of (native id, args, results) observed during the quasigo run
	VL0     int    `json:"vl0"`             // variadicLen left in the EvalEnv by earlier evaluations (set before the call)
	Where   string `json:"where,omitempty"` // histories: which unit's function, called after which unit was compiled
}

type progObs struct {
	K          string         `json:"k"`
	I          int            `json:"i"`
	Src        string         `json:"src"`
	Funs       []string       `json:"funs"` // Coq terms, one per function (in compile order)
	ResTys     []string       `json:"restys"`
	Dumps      []dump         `json:"dumps"`
	CompileErr string         `json:"compile_err,omitempty"`
	ErrFunc    int            `json:"err_func"`
	Calls      []callObs      `json:"calls"`
	Feat       map[string]int `json:"feat"`
}

var evalEnvSetup = func(env *quasigo.Env) {
	// same order as ruleguard.newEngineState
	qstrings.ImportAll(env)
	qstrconv.ImportAll(env)
	qfmt.ImportAll(env)
}

// nativeSig: parameter kinds (i = int stack, o = object stack, v = variadic tail) and result kinds.
var nativeSigs = map[string][2]string{
	"strings.Replace":    {"oooi", "o"},
	"strings.ReplaceAll": {"ooo", "o"},
	"strings.TrimPrefix": {"oo", "o"},
	"strings.TrimSuffix": {"oo", "o"},
	"strings.HasPrefix":  {"oo", "o"},
	"strings.HasSuffix":  {"oo", "o"},
	"strings.Contains":   {"oo", "o"},
	"strconv.Atoi":       {"o", "io"},
	"strconv.Itoa":       {"i", "o"},
	"fmt.Sprintf":        {"ov", "o"},
}

func coqValue(x interface{}) string {
	switch x := x.(type) {
	case nil:
		return "VNil"
	case string:
		return "(VStr " + coqBytes(x) + ")"
	case bool:
		if x {
			return "(VBool true)"
		}
		return "(VBool false)"
	case int:
		return "(VInt " + coqZ(int64(x)) + ")"
	case error:
		return "(VErr " + coqBytes(x.Error()) + ")"
	}
	return fmt.Sprintf("(VOpaque %s)", coqBytes(fmt.Sprintf("%T", x)))
}

// calls whose native trace is longer than this are not recorded (neither for the model nor for the oracle)
const maxTraceEntries = 400

type tracer struct {
	entries []string
}

func (t *tracer) wrap(id int, name string, f func(*quasigo.ValueStack)) func(*quasigo.ValueStack) {
	sig, known := nativeSigs[name]
	return func(st *quasigo.ValueStack) {
		if !known {
			f(st)
			return
		}
		objs, ints, vl := quasigo.VerifStackSnapshot(st)
		// arguments in declaration order
		var args []string
		no, ni := 0, 0
		for _, k := range sig[0] {
			switch k {
			case 'o':
				no++
			case 'i':
				ni++
			case 'v':
				no += vl
			}
		}
		ok := no <= len(objs) && ni <= len(ints)
		if ok {
			oi, ii := len(objs)-no, len(ints)-ni
			for _, k := range sig[0] {
				switch k {
				case 'o':
					args = append(args, coqValue(objs[oi]))
					oi++
				case 'i':
					args = append(args, "(VInt "+coqZ(int64(ints[ii]))+")")
					ii++
				case 'v':
					for j := 0; j < vl; j++ {
						args = append(args, coqValue(objs[oi]))
						oi++
					}
				}
			}
		}
		f(st)
		if !ok {
			return
		}
		objs2, ints2, _ := quasigo.VerifStackSnapshot(st)
		var res []string
		oi, ii := len(objs)-no, len(ints)-ni
		for _, k := range sig[1] {
			switch k {
			case 'o':
				if oi < len(objs2) {
					res = append(res, coqValue(objs2[oi]))
				}
				oi++
			case 'i':
				if ii < len(ints2) {
					res = append(res, "(VInt "+coqZ(int64(ints2[ii]))+")")
				}
				ii++
			}
		}
		t.entries = append(t.entries, fmt.Sprintf("(%d, %s, %s)", id, coqList(args), coqList(res)))
	}
}

func encodeResult(res gty, r quasigo.CallResult) string {
	switch res {
	case gInt:
		return "i:" + strconv.Itoa(r.IntValue())
	case gStr:
		s, ok := r.Value().(string)
		if !ok {
			return fmt.Sprintf("?:%T", r.Value())
		}
		return "s:" + hex.EncodeToString([]byte(s))
	case gBool:
		b, ok := r.Value().(bool)
		if !ok {
			return fmt.Sprintf("?:%T", r.Value())
		}
		return "b:" + strconv.FormatBool(b)
	}
	return "v"
}

type argTuple struct {
	goText  string
	coqText string
	push    func(*quasigo.ValueStack)
}

// argsFor: the t-th argument tuple of f - enumerated by the generator (data programs) or drawn at random.
func argsFor(r *rand.Rand, f *gfunc, t int) argTuple {
	if f.tuples != nil {
		return mkArgVals(f.tuples[t%len(f.tuples)])
	}
	if f.smallInts {
		var vals []argval
		for _, p := range f.params {
			switch p.ty {
			case gInt:
				v := int64(r.Intn(14) - 3)
				if len(f.dictI) > 0 && r.Intn(2) == 0 {
					if d := f.dictI[r.Intn(len(f.dictI))]; d > -1000 && d < 1000 {
						v = d
					}
				}
				vals = append(vals, aI(v))
			case gStr:
				vals = append(vals, aS(strPool[r.Intn(len(strPool))]))
			default:
				vals = append(vals, aB(r.Intn(2) == 0))
			}
		}
		return mkArgVals(vals)
	}
	if len(f.dictS)+len(f.dictI) > 0 && r.Intn(2) == 0 {
		var vals []argval
		for _, p := range f.params {
			switch {
			case p.ty == gInt && len(f.dictI) > 0 && r.Intn(4) != 0:
				vals = append(vals, aI(f.dictI[r.Intn(len(f.dictI))]))
			case p.ty == gInt:
				vals = append(vals, aI(int64(r.Intn(14)-3)))
			case p.ty == gStr && len(f.dictS) > 0 && r.Intn(4) != 0:
				vals = append(vals, aS(f.dictS[r.Intn(len(f.dictS))]))
			case p.ty == gStr:
				vals = append(vals, aS(strPool[r.Intn(len(strPool))]))
			default:
				vals = append(vals, aB(r.Intn(2) == 0))
			}
		}
		return mkArgVals(vals)
	}
	return mkArgs(r, f.params)
}

// setDict fills the argument dictionaries of the functions of a type-checked program: every string / int constant
// go/types recorded for an expression of the file (literals, named constants, folded constant expressions) and the
// values next to it.
func setDict(chk *checked, funcs []*gfunc) {
	seenS, seenI := map[string]bool{}, map[int64]bool{}
	var ds []string
	var di []int64
	addS := func(s string) {
		// (no `*`: as a format it would take a width - a length of the result - from whatever int comes next)
		if !seenS[s] && len(s) < 400 && !strings.Contains(s, "*") {
			seenS[s] = true
			ds = append(ds, s)
		}
	}
	addI := func(i int64) {
		if !seenI[i] {
			seenI[i] = true
			di = append(di, i)
		}
	}
	var exprs []ast.Expr
	for e, tv := range chk.info.Types {
		if tv.Value != nil {
			exprs = append(exprs, e)
		}
	}
	sort.Slice(exprs, func(i, j int) bool {
		if exprs[i].Pos() != exprs[j].Pos() {
			return exprs[i].Pos() < exprs[j].Pos()
		}
		return exprs[i].End() < exprs[j].End()
	})
	for _, e := range exprs {
		switch v := chk.info.Types[e].Value; v.Kind() {
		case constant.String:
			s := constant.StringVal(v)
			addS(s)
			for _, n := range nearStrings(s) {
				addS(n)
			}
		case constant.Int:
			if i, ok := constant.Int64Val(v); ok {
				addI(i)
				addI(i - 1)
				addI(i + 1)
				addI(-i)
			}
		}
	}
	for _, f := range funcs {
		f.dictS, f.dictI = ds, di
	}
}

func mkArgs(r *rand.Rand, params []gvar) argTuple {
	var vals []argval
	for _, p := range params {
		switch p.ty {
		case gInt:
			if r.Intn(3) == 0 {
				vals = append(vals, aI(intPool[r.Intn(len(intPool))]))
			} else {
				vals = append(vals, aI(int64(r.Intn(14)-3)))
			}
		case gStr:
			vals = append(vals, aS(strPool[r.Intn(len(strPool))]))
		case gBool:
			vals = append(vals, aB(r.Intn(2) == 0))
		}
	}
	return mkArgVals(vals)
}

func mkArgVals(vals []argval) argTuple {
	var goArgs, coqArgs []string
	var pushes []func(*quasigo.ValueStack)
	for _, p := range vals {
		switch p.ty {
		case gInt:
			v := p.i
			goArgs = append(goArgs, strconv.FormatInt(v, 10))
			coqArgs = append(coqArgs, "(VInt "+coqZ(v)+")")
			vv := int(v)
			pushes = append(pushes, func(s *quasigo.ValueStack) { s.PushInt(vv) })
		case gStr:
			v := p.s
			goArgs = append(goArgs, strconv.Quote(v))
			coqArgs = append(coqArgs, "(VStr "+coqBytes(v)+")")
			pushes = append(pushes, func(s *quasigo.ValueStack) { s.Push(v) })
		case gBool:
			v := p.b
			goArgs = append(goArgs, strconv.FormatBool(v))
			coqArgs = append(coqArgs, coqValue(v))
			pushes = append(pushes, func(s *quasigo.ValueStack) { s.Push(v) })
		}
	}
	return argTuple{strings.Join(goArgs, ", "), coqList(coqArgs), func(s *quasigo.ValueStack) {
		for _, p := range pushes {
			p(s)
		}
	}}
}

func header(src string) string {
	var imps []string
	for _, p := range []string{"strings", "strconv", "fmt"} {
		if strings.Contains(src, p+".") {
			imps = append(imps, strconv.Quote(p))
		}
	}
	h := "package gen\n"
	if len(imps) > 0 {
		h += "import (" + strings.Join(imps, "; ") + ")\n"
	}
	return h
}

// qfRe: the package-level names of a generated unit (functions qf<n>, constants qk<n>, named types qt<n>); they are
// prefixed per program in the batch built by the Go toolchain.
var qfRe = regexp.MustCompile(`\bq([fkt])(\d+)\b`)

func renameSyms(body, prefix string) string { return qfRe.ReplaceAllString(body, prefix+"q${1}${2}") }

type checked struct {
	fset *token.FileSet
	file *ast.File
	info *types.Info
	pkg  *types.Package
}

var sharedImporter types.Importer

func typecheck(src string) (*checked, error) {
	fset := token.NewFileSet()
	f, err := parser.ParseFile(fset, "gen.go", src, 0)
	if err != nil {
		return nil, err
	}
	if sharedImporter == nil {
		sharedImporter = importer.ForCompiler(token.NewFileSet(), "source", nil)
	}
	info := &types.Info{
		Types: map[ast.Expr]types.TypeAndValue{},
		Uses:  map[*ast.Ident]types.Object{},
		Defs:  map[*ast.Ident]types.Object{},
	}
	conf := types.Config{Importer: sharedImporter}
	pkg, err := conf.Check("gen", fset, []*ast.File{f}, info)
	if err != nil {
		return nil, err
	}
	return &checked{fset, f, info, pkg}, nil
}

func callWithTimeout(env *quasigo.EvalEnv, fn *quasigo.Func, res gty, at argTuple, vl0 int, d time.Duration) string {
	done := make(chan string, 1)
	go func() {
		defer func() {
			if r := recover(); r != nil {
				done <- "P:" + fmt.Sprint(r)
			}
		}()
		env.Stack.Reset()
		// the EvalEnv outlives a call (it lives in the RunnerState): start from what an earlier evaluation left
		quasigo.VerifSetVariadicLen(&env.Stack, vl0)
		at.push(&env.Stack)
		r := quasigo.Call(env, fn)
		done <- encodeResult(res, r)
	}()
	select {
	case s := <-done:
		return s
	case <-time.After(d):
		return "T"
	}
}

func main() {
	seed := flag.Int64("seed", 1, "PRNG seed")
	n := flag.Int("n", 100, "number of programs")
	ntup := flag.Int("tuples", 8, "argument tuples per function")
	tmp := flag.String("tmp", "", "scratch directory")
	featStr := flag.String("feat", "logic,ifinit,blank,rejects", "comma separated feature switches: logic,ifnested,ifinit,compound,shadow,blank,forclauses")
	noOracle := flag.Bool("nooracle", false, "skip the go toolchain batch")
	corpusDir := flag.String("corpus", "", "directory of hand-written programs (*.go, functions qf0..qfN) run before the generated ones")
	nhist := flag.Int("hist", 0, "number of histories (several units compiled into one Env, see hist.go)")
	ndata := flag.Int("data", 0, "number of data programs (constant families, natives at their borders, see data.go)")
	flag.Parse()
	if *tmp == "" {
		fmt.Fprintln(os.Stderr, "need -tmp")
		os.Exit(2)
	}
	os.MkdirAll(*tmp, 0o755)
	var feat features
	for _, f := range strings.Split(*featStr, ",") {
		switch strings.TrimSpace(f) {
		case "logic":
			feat.logicInArgs = true
		case "ifnested":
			feat.ifNested = true
		case "ifinit":
			feat.ifInit = true
		case "compound":
			feat.compound = true
		case "shadow":
			feat.shadowParam = true
		case "blank":
			feat.blankParams = true
		case "forclauses":
			feat.forClauses = true
		case "rejects":
			feat.rejects = true
		}
	}
	r := rand.New(rand.NewSource(*seed))
	g := &gen{r: r, feat: feat, counts: map[string]int{}}
	dg := &dgen{r: r}
	g.data = dg
	out := bufio.NewWriterSize(os.Stdout, 1<<20)
	defer out.Flush()
	enc := json.NewEncoder(out)

	var progs []*progObs
	var batch bytes.Buffer
	var mains []string
	discarded := 0
	timeouts := 0
	const maxTimeouts = 12
	totalCounts := map[string]int{}
	nativeNames := []string(nil)

	var corpus []string
	if *corpusDir != "" {
		files, _ := filepath.Glob(filepath.Join(*corpusDir, "*.go"))
		sort.Strings(files)
		for _, f := range files {
			b, err := os.ReadFile(f)
			if err != nil {
				fmt.Fprintln(os.Stderr, "corpus:", err)
				os.Exit(1)
			}
			corpus = append(corpus, string(b))
		}
	}
	total := *n + len(corpus) + *ndata
	for len(progs) < total {
		g.counts = map[string]int{}
		var funcs []*gfunc
		var body strings.Builder
		fromCorpus := len(progs) < len(corpus)
		isData := len(progs) >= len(corpus)+*n
		if fromCorpus {
			body.WriteString(corpus[len(progs)])
			g.counts["corpus"] = 1
		} else {
			if isData {
				dg.counts = g.counts
				if k := len(progs) - len(corpus) - *n; k < numSweeps {
					funcs = dg.sweepProgram(k)
				} else {
					funcs = dg.program()
				}
			} else {
				funcs = g.program()
			}
			for _, f := range funcs {
				body.WriteString(f.src)
				body.WriteString("\n")
			}
		}
		src := header(body.String()) + body.String()
		chk, err := typecheck(src)
		if err != nil {
			if fromCorpus {
				fmt.Fprintln(os.Stderr, "corpus program does not type-check:", err, "\n", src)
				os.Exit(1)
			}
			discarded++
			if discarded > 50**n+1000 {
				fmt.Fprintln(os.Stderr, "generator produces too many ill-typed programs; last error:", err, "\n", src)
				os.Exit(1)
			}
			continue
		}
		if fromCorpus {
			funcs = funcsOf(chk)
		}
		setDict(chk, funcs)
		if fromCorpus {
			// hand-written programs may loop up to an argument: no huge ints
			for _, f := range funcs {
				f.smallInts = true
			}
		}
		pi := len(progs)
		po := &progObs{K: "prog", I: pi, Src: src, ErrFunc: -1, Feat: g.counts}
		for k, v := range g.counts {
			totalCounts[k] += v
		}
		env := quasigo.NewEnv()
		evalEnvSetup(env)
		tr := &tracer{}
		quasigo.VerifWrapNatives(env, tr.wrap)
		if nativeNames == nil {
			nativeNames = quasigo.VerifNativeNames(env)
		}
		ser := newSerializer(chk.info, env, chk.pkg)
		var compiled []*quasigo.Func
		fi := 0
		for _, decl := range chk.file.Decls {
			fd, ok := decl.(*ast.FuncDecl)
			if !ok {
				continue
			}
			po.Funs = append(po.Funs, ser.fundecl(fd))
			po.ResTys = append(po.ResTys, funcs[fi].res.String())
			ctx := &quasigo.CompileContext{Env: env, Package: chk.pkg, Types: chk.info, Fset: chk.fset}
			fn, err := safeCompile(ctx, fd)
			if err != nil {
				po.CompileErr = err.Error()
				po.ErrFunc = fi
				break
			}
			d := quasigo.VerifDumpFunc(fn)
			dd := dump{NObj: d.NumObjectParams, NInt: d.NumIntParams}
			for _, b := range d.Code {
				dd.Code = append(dd.Code, int(b))
			}
			for _, c := range d.Constants {
				dd.Consts = append(dd.Consts, coqValue(c))
			}
			for _, c := range d.IntConstants {
				dd.IConsts = append(dd.IConsts, coqZ(int64(c)))
			}
			po.Dumps = append(po.Dumps, dd)
			env.AddFunc(chk.pkg.Path(), fd.Name.String(), fn)
			compiled = append(compiled, fn)
			fi++
		}
		if po.CompileErr == "" {
			evalEnv := env.GetEvalEnv()
			var mainBody strings.Builder
			for fi, f := range funcs {
				nt := *ntup
				if len(f.params) == 0 {
					nt = 1 // no parameters: one call is enough
				}
				if f.tuples != nil {
					nt = len(f.tuples)
				}
				for t := 0; t < nt; t++ {
					at := argsFor(r, f, t)
					tr.entries = nil
					vl0 := []int{0, 3, 1, 2, 7}[(len(po.Calls)+t)%5]
					if timeouts >= maxTimeouts {
						break // enough non-terminating calls were observed; every one keeps a CPU busy
					}
					res := callWithTimeout(evalEnv, compiled[fi], f.res, at, vl0, 300*time.Millisecond)
					if res == "T" {
						// the abandoned goroutine still owns evalEnv; a loaded machine can make a healthy call slow,
						// so only a second, much longer wait counts as non-termination
						evalEnv = env.GetEvalEnv()
						tr.entries = nil
						res = callWithTimeout(evalEnv, compiled[fi], f.res, at, vl0, 3*time.Second)
					}
					if res == "T" {
						evalEnv = env.GetEvalEnv()
						timeouts++
						nt = t + 1 // no further tuples for this function
					}
					if len(tr.entries) > maxTraceEntries {
						// nested loops over user calls multiplied the native calls into the thousands: the Coq evaluation of the
						// trace would cost minutes; the call is not recorded
						g.counts["skipped:long-native-trace"]++
						continue
					}
					ci := len(po.Calls)
					po.Calls = append(po.Calls, callObs{F: fi, ArgsGo: at.goText, ArgsCoq: at.coqText, Res: res, Trace: coqList(tr.entries), VL0: vl0})
					call := fmt.Sprintf("P%d_qf%d(%s)", pi, fi, at.goText)
					switch f.res {
					case gInt:
						fmt.Fprintf(&mainBody, "\trun(%d, %d, func() string { return \"i:\" + strconv.Itoa(int(%s)) })\n", pi, ci, call)
					case gStr:
						fmt.Fprintf(&mainBody, "\trun(%d, %d, func() string { return \"s:\" + hex.EncodeToString([]byte(%s)) })\n", pi, ci, call)
					case gBool:
						fmt.Fprintf(&mainBody, "\trun(%d, %d, func() string { return \"b:\" + strconv.FormatBool(bool(%s)) })\n", pi, ci, call)
					default:
						fmt.Fprintf(&mainBody, "\trun(%d, %d, func() string { %s; return \"v\" })\n", pi, ci, call)
					}
				}
			}
			batch.WriteString(renameSyms(body.String(), fmt.Sprintf("P%d_", pi)))
			fmt.Fprintf(&batch, "func mainP%d() {\n%s}\n\n", pi, mainBody.String())
			mains = append(mains, fmt.Sprintf("\tmainP%d()\n", pi))
		}
		progs = append(progs, po)
	}

	// ---- histories: several units compiled into one Env
	var hists []*histObs
	hr := &histRunner{g: g, r: r, ntup: 3, timeouts: &timeouts, batch: &batch, mains: &mains}
	for tries := 0; len(hists) < *nhist && tries < 20**nhist+100; tries++ {
		mark, nm := batch.Len(), len(mains)
		ho := hr.history(len(hists))
		if ho == nil {
			batch.Truncate(mark)
			mains = mains[:nm]
			discarded++
			continue
		}
		for k, v := range ho.Feat {
			totalCounts[k] += v
		}
		hists = append(hists, ho)
	}

	// ---- oracle: the Go toolchain
	oracle := map[[2]int]string{}
	oracleErr := ""
	if !*noOracle {
		dir := filepath.Join(*tmp, "oracle")
		os.RemoveAll(dir)
		os.MkdirAll(dir, 0o755)
		var file bytes.Buffer
		file.WriteString("package main\n\nimport (\n\t\"encoding/hex\"\n\t\"fmt\"\n\t\"os\"\n\t\"bufio\"\n\t\"strconv\"\n\t\"strings\"\n\t\"time\"\n)\n\n")
		file.WriteString("var _ = strings.HasPrefix\nvar _ = strconv.Itoa\nvar _ = fmt.Sprintf\nvar _ = hex.EncodeToString\n\n")
		file.WriteString("var out = bufio.NewWriter(os.Stdout)\n\n")
		// every call runs under a watchdog: a call that does not return (a loop bounded by a huge argument) is
		// reported as T like on the quasigo side; the spinning goroutine is abandoned, after 12 of them the run stops
		file.WriteString(`var abandoned int

func run(p, c int, f func() string) {
	done := make(chan string, 1)
	go func() {
		defer func() {
			if r := recover(); r != nil {
				done <- "P:" + strings.ReplaceAll(fmt.Sprint(r), "\n", " ")
			}
		}()
		done <- f()
	}()
	select {
	case s := <-done:
		fmt.Fprintf(out, "%d %d %s\n", p, c, s)
	case <-time.After(3 * time.Second):
		fmt.Fprintf(out, "%d %d T\n", p, c)
		abandoned++
		if abandoned >= 12 {
			out.Flush()
			os.Exit(0)
		}
	}
}

`)
		file.Write(batch.Bytes())
		// hard stop: an oracle process never outlives its run (an abandoned call may spin; a killed parent would orphan it)
		file.WriteString("func main() {\n\tdefer out.Flush()\n\ttime.AfterFunc(180*time.Second, func() { os.Exit(0) })\n")
		for _, m := range mains {
			file.WriteString(m)
		}
		file.WriteString("}\n")
		os.WriteFile(filepath.Join(dir, "main.go"), file.Bytes(), 0o644)
		os.WriteFile(filepath.Join(dir, "go.mod"), []byte("module oracle\n\ngo 1.22\n"), 0o644)
		env := []string{}
		for _, e := range os.Environ() {
			if strings.HasPrefix(e, "GOFLAGS=") {
				continue
			}
			env = append(env, e)
		}
		env = append(env, "GOFLAGS=-mod=mod")
		build := exec.Command("go", "build", "-gcflags=-N -l", "-o", filepath.Join(dir, "oracle.bin"), ".")
		build.Dir = dir
		build.Env = env
		if outb, err := build.CombinedOutput(); err != nil {
			oracleErr = "go build: " + err.Error() + ": " + string(outb)
		} else {
			octx, ocancel := context.WithTimeout(context.Background(), 240*time.Second)
			runc := exec.CommandContext(octx, filepath.Join(dir, "oracle.bin"))
			runc.Dir = dir
			outb, err := runc.Output()
			ocancel()
			if err != nil {
				oracleErr = "oracle run: " + err.Error()
			}
			sc := bufio.NewScanner(bytes.NewReader(outb))
			sc.Buffer(make([]byte, 1<<20), 1<<26)
			for sc.Scan() {
				parts := strings.SplitN(sc.Text(), " ", 3)
				if len(parts) != 3 {
					continue
				}
				p, _ := strconv.Atoi(parts[0])
				c, _ := strconv.Atoi(parts[1])
				oracle[[2]int{p, c}] = parts[2]
			}
		}
	}
	for _, po := range progs {
		for ci := range po.Calls {
			po.Calls[ci].Oracle = oracle[[2]int{po.I, ci}]
		}
		enc.Encode(po)
	}
	for _, ho := range hists {
		for ci := range ho.Calls {
			ho.Calls[ci].Oracle = oracle[[2]int{ho.I, ci}]
		}
		enc.Encode(ho)
	}
	keys := make([]string, 0, len(totalCounts))
	for k := range totalCounts {
		keys = append(keys, k)
	}
	sort.Strings(keys)
	enc.Encode(map[string]interface{}{"k": "summary", "programs": len(progs), "histories": len(hists), "discarded_illtyped": discarded,
		"constructs": totalCounts, "timeouts": timeouts, "natives": nativeNames, "oracle_err": oracleErr, "max_locals": quasigo.VerifMaxFuncLocals})
}

// safeCompile turns a crash of the compiler (a panic that is not a compile error) into an error that
// starts with "CRASH:" so that the run can go on and report it.
func safeCompile(ctx *quasigo.CompileContext, fd *ast.FuncDecl) (fn *quasigo.Func, err error) {
	defer func() {
		if r := recover(); r != nil {
			err = fmt.Errorf("CRASH: %v", r)
		}
	}()
	return quasigo.Compile(ctx, fd)
}

// funcsOf derives the generator's function descriptions from a type-checked corpus program.
func funcsOf(chk *checked) []*gfunc {
	var out []*gfunc
	for _, decl := range chk.file.Decls {
		fd, ok := decl.(*ast.FuncDecl)
		if !ok {
			continue
		}
		sig := chk.info.ObjectOf(fd.Name).Type().(*types.Signature)
		kind := func(t types.Type) gty {
			if b, ok := t.Underlying().(*types.Basic); ok {
				switch {
				case b.Kind() == types.Int:
					return gInt
				case b.Info()&types.IsString != 0:
					return gStr
				case b.Kind() == types.Bool:
					return gBool
				}
			}
			return gErr
		}
		f := &gfunc{name: fd.Name.Name, res: gVoid}
		if sig.Results().Len() > 0 {
			f.res = kind(sig.Results().At(0).Type())
		}
		for i := 0; i < sig.Params().Len(); i++ {
			f.params = append(f.params, gvar{name: sig.Params().At(i).Name(), ty: kind(sig.Params().At(i).Type())})
		}
		out = append(out, f)
	}
	return out
}
