package main

// Histories: several compilation units (rules files; all of them the same package path, all of them declaring
// qf0, qf1, ...) compiled one after the other into ONE quasigo.Env the way ruleguard/ir_loader.go does it
// (unbind every name the unit declares, then compile and bind the declarations in order), with functions of
// earlier units called after later units were compiled - through the *Func pointers taken when they were
// compiled, which is what the rules of an earlier file hold. Every unit alone is an ordinary Go package for the
// Go toolchain, which says what each of its functions means whatever else was loaded.
//
// Unit kinds: generated programs (gen.go), templates whose helper qf0 differs from unit to unit only in a constant
// (a caller of "its own" helper), the same source loaded again (re-declaration), a unit with its declarations in
// reverse order (calls of functions declared later in the file: legal Go, a load error for quasigo - never a call of
// an equal-named function of an earlier unit), units the compiler rejects halfway (names unbound, nothing rebound).

import (
	"bytes"
	"fmt"
	"go/ast"
	"math/rand"
	"strings"
	"time"

	"github.com/quasilyte/go-ruleguard/ruleguard/quasigo"
)

type unitObs struct {
	Kind       string   `json:"kind"`
	Src        string   `json:"src"`
	Decls      []string `json:"decls"` // Coq terms (name id, fundecl with callee names), every declaration of the unit
	Dumps      []dump   `json:"dumps"` // declarations the real compiler accepted, in order
	CompileErr string   `json:"compile_err,omitempty"`
	First      int      `json:"first"` // slot of the unit's first compiled function
}

type histObs struct {
	K     string         `json:"k"`
	I     int            `json:"i"`
	Src   string         `json:"src"`
	Units []unitObs      `json:"units"`
	Dumps []dump         `json:"dumps"` // all compiled functions in compile order (slot order)
	Slots []string       `json:"slots"` // "unit <u> <name>" per slot
	Table []dump         `json:"table"` // env.userFuncs after the whole history, by function ID
	Names [][2]int       `json:"names"` // (name id, bound function ID or -1) after the whole history
	Calls []callObs      `json:"calls"`
	Feat  map[string]int `json:"feat"`
	// compile_err of a history = a crash of the compiler (reported as in single programs)
	CompileErr string `json:"compile_err,omitempty"`
}

const histBase = 100000

func dumpOf(fn *quasigo.Func) dump {
	d := quasigo.VerifDumpFunc(fn)
	dd := dump{NObj: d.NumObjectParams, NInt: d.NumIntParams}
	for _, b := range d.Code {
		dd.Code = append(dd.Code, int(b))
	}
	for _, c := range d.Constants {
		dd.Consts = append(dd.Consts, coqValue(c))
	}
	for _, c := range d.IntConstants {
		dd.IConsts = append(dd.IConsts, coqZ(int64(c)))
	}
	return dd
}

// templateUnit: a helper and callers of it; the helper's constant is the only thing that differs between the
// units of a history made from the same template.
func templateUnit(r *rand.Rand, shape, k int) ([]*gfunc, string) {
	var fs []*gfunc
	add := func(name string, res gty, params []gvar, src string) {
		fs = append(fs, &gfunc{name: name, res: res, params: params, src: src})
	}
	pi := func(n string) gvar { return gvar{name: n, ty: gInt} }
	ps := func(n string) gvar { return gvar{name: n, ty: gStr} }
	switch shape % 5 {
	case 0: // the shape of a filter with a threshold helper
		add("qf0", gInt, nil, fmt.Sprintf("func qf0() int {\n\treturn %d\n}\n", k))
		add("qf1", gBool, []gvar{ps("p0")}, "func qf1(p0 string) bool {\n\treturn len(p0) >= qf0()\n}\n")
	case 1: // helper with parameters called twice (two frames on the stack)
		add("qf0", gInt, []gvar{pi("p0")}, fmt.Sprintf("func qf0(p0 int) int {\n\treturn p0 + %d\n}\n", k))
		add("qf1", gInt, []gvar{pi("p0"), pi("p1")}, "func qf1(p0 int, p1 int) int {\n\treturn qf0(p0) + qf0(p1)\n}\n")
		add("qf2", gInt, []gvar{pi("p0")}, "func qf2(p0 int) int {\n\tif qf1(p0, 1) > 10 {\n\t\treturn qf0(qf0(p0))\n\t}\n\treturn qf1(p0, p0)\n}\n")
	case 2: // string helper
		add("qf0", gStr, []gvar{ps("p0")}, fmt.Sprintf("func qf0(p0 string) string {\n\treturn p0 + %q\n}\n", fmt.Sprint("k", k)))
		add("qf1", gStr, []gvar{ps("p0"), pi("p1")}, "func qf1(p0 string, p1 int) string {\n\tv0 := qf0(p0)\n\tfor len(v0) < p1 {\n\t\tif len(v0) > 40 {\n\t\t\tbreak\n\t\t}\n\t\tv0 = qf0(v0)\n\t}\n\treturn v0\n}\n")
	case 3: // bool helper and a chain of three
		add("qf0", gBool, []gvar{pi("p0")}, fmt.Sprintf("func qf0(p0 int) bool {\n\treturn p0 > %d\n}\n", k))
		add("qf1", gBool, []gvar{pi("p0"), pi("p1")}, "func qf1(p0 int, p1 int) bool {\n\tif qf0(p0) {\n\t\treturn qf0(p1)\n\t}\n\treturn !qf0(p1)\n}\n")
		add("qf2", gInt, []gvar{pi("p0")}, "func qf2(p0 int) int {\n\tv0 := 0\n\tif qf1(p0, p0+1) {\n\t\tv0++\n\t}\n\tif qf1(p0, 3) {\n\t\tv0++\n\t}\n\treturn v0\n}\n")
	default: // helpers of two kinds (the int call and the object call opcode), one function without calls
		add("qf0", gInt, nil, fmt.Sprintf("func qf0() int {\n\treturn %d\n}\n", k))
		add("qf1", gStr, nil, fmt.Sprintf("func qf1() string {\n\treturn %q\n}\n", fmt.Sprint("u", k)))
		add("qf2", gInt, []gvar{ps("p0")}, "func qf2(p0 string) int {\n\treturn len(p0)\n}\n")
		add("qf3", gBool, []gvar{ps("p0")}, "func qf3(p0 string) bool {\n\treturn qf2(p0+qf1()) == qf0()\n}\n")
	}
	var sb strings.Builder
	for _, f := range fs {
		sb.WriteString(f.src + "\n")
	}
	return fs, sb.String()
}

type histRunner struct {
	g        *gen
	r        *rand.Rand
	ntup     int
	timeouts *int
	batch    *bytes.Buffer
	mains    *[]string
}

const maxHistTimeouts = 12

// history generates, compiles and runs one history. Returns nil when a generated unit does not type-check.
func (hr *histRunner) history(hi int) *histObs {
	g, r := hr.g, hr.r
	g.counts = map[string]int{}
	ho := &histObs{K: "hist", I: histBase + hi}
	pi := ho.I

	env := quasigo.NewEnv()
	evalEnvSetup(env)
	tr := &tracer{}
	quasigo.VerifWrapNatives(env, tr.wrap)
	fnames := map[string]int{}
	fname := func(key string) int {
		if id, ok := fnames[key]; ok {
			return id
		}
		id := 1000 + len(fnames)
		fnames[key] = id
		return id
	}

	// the RunnerState of a caller may be older than every Load (refreshed by UpdateEvalEnv before each run) or fresh
	evalEnv := env.GetEvalEnv()
	refresh := hi%2 == 0

	type slot struct {
		fn   *quasigo.Func
		f    *gfunc
		unit int
	}
	var slots []slot
	var unitSrcs []string
	var unitFuncs [][]*gfunc
	nu := 2 + r.Intn(3)
	shape := r.Intn(5)
	var allSrc strings.Builder
	for u := 0; u < nu; u++ {
		var funcs []*gfunc
		var body string
		kind := "generated"
		switch k := r.Intn(10); {
		case k < 3:
			kind = "template"
			funcs, body = templateUnit(r, shape, 1+r.Intn(9)+10*u)
		case k == 3 && u > 0:
			kind = "reload"
			j := r.Intn(u)
			funcs, body = unitFuncs[j], unitSrcs[j]
		case k == 4:
			kind = "template-reversed"
			funcs, _ = templateUnit(r, shape, 1+r.Intn(9)+10*u)
			funcs = reversed(funcs)
			body = joinSrc(funcs)
		case k == 5:
			kind = "generated-reversed"
			funcs = reversed(g.program())
			body = joinSrc(funcs)
		default:
			funcs = g.program()
			body = joinSrc(funcs)
		}
		g.note("unit:" + kind)
		src := header(body) + body
		chk, err := typecheck(src)
		if err != nil {
			return nil
		}
		if kind != "reload" {
			setDict(chk, funcs)
		}
		unitSrcs = append(unitSrcs, body)
		unitFuncs = append(unitFuncs, funcs)
		uo := unitObs{Kind: kind, Src: src, First: len(slots)}
		fmt.Fprintf(&allSrc, "// ---- unit %d (%s), compiled into the same Env after the units above\n%s\n", u, kind, src)

		// ruleguard/ir_loader.go compileFilterFuncs: unbind the names this file declares ...
		var decls []*ast.FuncDecl
		for _, decl := range chk.file.Decls {
			if fd, ok := decl.(*ast.FuncDecl); ok {
				decls = append(decls, fd)
				env.RemoveFunc(chk.pkg.Path(), fd.Name.String())
			}
		}
		// ... the model is given every declaration with its calls by name
		ser := newSerializer(chk.info, env, chk.pkg)
		ser.fname = fname
		for _, fd := range decls {
			uo.Decls = append(uo.Decls, fmt.Sprintf("(%d, %s)", fname(chk.pkg.Path()+"."+fd.Name.String()), ser.fundecl(fd)))
		}
		// ... then compile and bind them in order
		byName := map[string]*gfunc{}
		for _, f := range funcs {
			byName[f.name] = f
		}
		for _, fd := range decls {
			ctx := &quasigo.CompileContext{Env: env, Package: chk.pkg, Types: chk.info, Fset: chk.fset}
			fn, err := safeCompile(ctx, fd)
			if err != nil {
				uo.CompileErr = err.Error()
				if strings.HasPrefix(uo.CompileErr, "CRASH") {
					ho.CompileErr = uo.CompileErr
				}
				g.note("unit-rejected")
				break
			}
			d := dumpOf(fn)
			uo.Dumps = append(uo.Dumps, d)
			ho.Dumps = append(ho.Dumps, d)
			ho.Slots = append(ho.Slots, fmt.Sprintf("unit %d %s", u, fd.Name.String()))
			env.AddFunc(chk.pkg.Path(), fd.Name.String(), fn)
			slots = append(slots, slot{fn, byName[fd.Name.String()], u})
		}
		ho.Units = append(ho.Units, uo)

		// the unit for the Go toolchain
		hr.batch.WriteString(renameSyms(body, fmt.Sprintf("H%dU%d_", hi, u)))

		// ---- calls: every function compiled so far, the new unit's with more argument tuples
		if refresh {
			env.UpdateEvalEnv(evalEnv)
		} else {
			evalEnv = env.GetEvalEnv()
		}
		var mainBody strings.Builder
		for si, s := range slots {
			nt := 2
			if s.unit == u {
				nt = hr.ntup
			}
			if len(s.f.params) == 0 {
				nt = 1
			}
			for t := 0; t < nt; t++ {
				if *hr.timeouts >= maxHistTimeouts {
					break
				}
				at := argsFor(r, s.f, r.Intn(64))
				tr.entries = nil
				vl0 := []int{0, 3, 1, 2, 7}[(len(ho.Calls)+t)%5]
				res := callWithTimeout(evalEnv, s.fn, s.f.res, at, vl0, 300*time.Millisecond)
				if res == "T" {
					evalEnv = env.GetEvalEnv()
					tr.entries = nil
					res = callWithTimeout(evalEnv, s.fn, s.f.res, at, vl0, 3*time.Second)
				}
				if res == "T" {
					evalEnv = env.GetEvalEnv()
					*hr.timeouts++
					nt = t + 1
				}
				if len(tr.entries) > maxTraceEntries {
					g.note("skipped:long-native-trace")
					continue
				}
				ci := len(ho.Calls)
				ho.Calls = append(ho.Calls, callObs{F: si, ArgsGo: at.goText, ArgsCoq: at.coqText, Res: res, Trace: coqList(tr.entries), VL0: vl0,
					Where: fmt.Sprintf("unit %d %s (slot %d), called after unit %d was compiled", s.unit, s.f.name, si, u)})
				if s.unit != u {
					g.note("call-of-earlier-unit")
				}
				call := fmt.Sprintf("H%dU%d_%s(%s)", hi, s.unit, s.f.name, at.goText)
				switch s.f.res {
				case gInt:
					fmt.Fprintf(&mainBody, "\trun(%d, %d, func() string { return \"i:\" + strconv.Itoa(int(%s)) })\n", pi, ci, call)
				case gStr:
					fmt.Fprintf(&mainBody, "\trun(%d, %d, func() string { return \"s:\" + hex.EncodeToString([]byte(%s)) })\n", pi, ci, call)
				case gBool:
					fmt.Fprintf(&mainBody, "\trun(%d, %d, func() string { return \"b:\" + strconv.FormatBool(bool(%s)) })\n", pi, ci, call)
				default:
					fmt.Fprintf(&mainBody, "\trun(%d, %d, func() string { %s; return \"v\" })\n", pi, ci, call)
				}
			}
		}
		fmt.Fprintf(hr.batch, "func mainH%dU%d() {\n%s}\n\n", hi, u, mainBody.String())
		*hr.mains = append(*hr.mains, fmt.Sprintf("\tmainH%dU%d()\n", hi, u))
	}
	ho.Src = allSrc.String()
	ho.Feat = g.counts // (the generator replaces the map when it backtracks)
	for _, fn := range quasigo.VerifUserFuncs(env) {
		ho.Table = append(ho.Table, dumpOf(fn))
	}
	for key, id := range fnames {
		i := strings.LastIndexByte(key, '.')
		bound := -1
		if fid, ok := quasigo.VerifLookupFunc(env, key[:i], key[i+1:]); ok {
			bound = fid
		}
		ho.Names = append(ho.Names, [2]int{id, bound})
	}
	sortPairs(ho.Names)
	return ho
}

func sortPairs(xs [][2]int) {
	for i := 1; i < len(xs); i++ {
		for j := i; j > 0 && xs[j][0] < xs[j-1][0]; j-- {
			xs[j], xs[j-1] = xs[j-1], xs[j]
		}
	}
}

func reversed(fs []*gfunc) []*gfunc {
	out := make([]*gfunc, len(fs))
	for i, f := range fs {
		out[len(fs)-1-i] = f
	}
	return out
}

func joinSrc(fs []*gfunc) string {
	var sb strings.Builder
	for _, f := range fs {
		sb.WriteString(f.src)
		sb.WriteString("\n")
	}
	return sb.String()
}
