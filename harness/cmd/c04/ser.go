package main

// Serialiser: type-checked go/ast function -> Coq term of RG.Quasigo.Source.fundecl.
// It is deliberately "dumb": it copies syntax, go/types' types and constant values, and the environment's
// symbol lookups; every decision the compiler takes on them is made by the Coq model.

import (
	"fmt"
	"go/ast"
	"go/constant"
	"go/token"
	"go/types"
	"strings"

	"github.com/quasilyte/go-ruleguard/ruleguard/quasigo"
	"golang.org/x/tools/go/ast/astutil"
)

type serializer struct {
	info  *types.Info
	env   *quasigo.Env
	pkg   *types.Package
	names map[string]int
	// fname != nil: calls of user functions are serialised by *name* (the number of FUser is the id fname gives to the
	// symbol `qualifier.name`); binding the name to a function ID is then the business of the Coq model of the Env
	fname func(key string) int
}

func newSerializer(info *types.Info, env *quasigo.Env, pkg *types.Package) *serializer {
	return &serializer{info: info, env: env, pkg: pkg,
		names: map[string]int{"nil": 0, "true": 1, "false": 2, "_": 3}}
}

func (s *serializer) name(n string) int {
	if id, ok := s.names[n]; ok {
		return id
	}
	id := len(s.names) + 6
	s.names[n] = id
	return id
}

func coqZ(n int64) string {
	if n < 0 {
		return fmt.Sprintf("(%d)", n)
	}
	return fmt.Sprintf("%d", n)
}

func coqBytes(b string) string {
	var sb strings.Builder
	sb.WriteString("[")
	for i := 0; i < len(b); i++ {
		if i > 0 {
			sb.WriteString(";")
		}
		fmt.Fprintf(&sb, "%d", b[i])
	}
	sb.WriteString("]")
	return sb.String()
}

func coqList(xs []string) string { return "[" + strings.Join(xs, "; ") + "]" }

func coqOpt(x string, ok bool) string {
	if !ok {
		return "None"
	}
	return "(Some " + x + ")"
}

func (s *serializer) ty(t types.Type) string {
	if t == nil {
		return "TBad"
	}
	if tup, ok := t.(*types.Tuple); ok {
		if tup.Len() == 0 {
			return "TVoid"
		}
		return "TBad"
	}
	switch u := t.Underlying().(type) {
	case *types.Basic:
		switch {
		case u.Kind() == types.Int || u.Kind() == types.UntypedInt:
			return "TInt"
		case u.Info()&types.IsString != 0:
			return "TStr"
		case u.Kind() == types.Bool || u.Kind() == types.UntypedBool:
			return "TBool"
		}
		return "TBad"
	case *types.Interface:
		return "TIface"
	case *types.Pointer:
		if _, ok := u.Elem().Underlying().(*types.Struct); ok {
			return "TPtr"
		}
		return "TBad"
	}
	return "TBad"
}

func (s *serializer) constv(cv constant.Value) string {
	switch cv.Kind() {
	case constant.Bool:
		if constant.BoolVal(cv) {
			return "(CBool true)"
		}
		return "(CBool false)"
	case constant.String:
		return "(CStr " + coqBytes(constant.StringVal(cv)) + ")"
	case constant.Int:
		v, exact := constant.Int64Val(cv)
		if !exact {
			return "CUnsupported"
		}
		return "(CInt " + coqZ(v) + ")"
	}
	return "CUnsupported"
}

func (s *serializer) optExpr(e ast.Expr) string {
	if e == nil {
		return "None"
	}
	return "(Some " + s.expr(e) + ")"
}

func (s *serializer) expr(e ast.Expr) string {
	if tv, ok := s.info.Types[e]; ok && tv.Value != nil {
		id := int64(-1)
		if ident, ok := e.(*ast.Ident); ok {
			id = int64(s.name(ident.Name))
		}
		return "(EConst " + coqZ(id) + " " + s.constv(tv.Value) + ")"
	}
	switch e := e.(type) {
	case *ast.ParenExpr:
		return "(EParen " + s.expr(e.X) + ")"
	case *ast.Ident:
		return fmt.Sprintf("(EIdent %d %s)", s.name(e.Name), s.ty(s.info.TypeOf(e)))
	case *ast.SelectorExpr:
		typ := s.info.TypeOf(e.X)
		id := -1
		if typ != nil {
			if nid, ok := quasigo.VerifLookupNative(s.env, typ.String(), e.Sel.String()); ok {
				id = nid
			}
		}
		return "(ESelector " + coqZ(int64(id)) + " " + s.ty(s.info.TypeOf(e)) + " " + s.expr(e.X) + ")"
	case *ast.UnaryExpr:
		if e.Op == token.NOT {
			return "(ENot " + s.expr(e.X) + ")"
		}
		return "EUnaryBad"
	case *ast.SliceExpr:
		three := "false"
		if e.Slice3 {
			three = "true"
		}
		return "(ESlice " + s.ty(s.info.TypeOf(e.X)) + " " + s.expr(e.X) + " " + s.optExpr(e.Low) + " " + s.optExpr(e.High) + " " + three + ")"
	case *ast.BinaryExpr:
		op := "OBad"
		switch e.Op {
		case token.LOR:
			op = "OLor"
		case token.LAND:
			op = "OLand"
		case token.NEQ:
			op = "ONeq"
		case token.EQL:
			op = "OEql"
		case token.GTR:
			op = "OGtr"
		case token.GEQ:
			op = "OGeq"
		case token.LSS:
			op = "OLss"
		case token.LEQ:
			op = "OLeq"
		case token.ADD:
			op = "OAdd"
		case token.SUB:
			op = "OSub"
		}
		return "(EBinary " + op + " " + s.ty(s.info.TypeOf(e.X)) + " " + s.expr(e.X) + " " + s.expr(e.Y) + ")"
	case *ast.CallExpr:
		return s.call(e)
	}
	return "EBad"
}

// call mirrors only the *symbol resolution* of compileCallExpr (which table knows the callee); argument
// handling, the variadic split and opcode selection are the model's business.
func (s *serializer) call(call *ast.CallExpr) string {
	var args []string
	for _, a := range call.Args {
		args = append(args, s.expr(a))
	}
	rt := s.ty(s.info.TypeOf(call))
	mk := func(callee string, recv ast.Expr) string {
		return "(ECall " + callee + " " + rt + " " + s.optExpr(recv) + " " + coqList(args) + ")"
	}
	if id, ok := astutil.Unparen(call.Fun).(*ast.Ident); ok {
		if _, isBuiltin := s.info.ObjectOf(id).(*types.Builtin); isBuiltin {
			if id.Name == "len" {
				return mk("FLen", nil)
			}
			return mk("FBuiltin", nil)
		}
	}
	// same resolution as goutil.ResolveFunc
	var recv ast.Expr
	var fn *types.Func
	switch callable := astutil.Unparen(call.Fun).(type) {
	case *ast.Ident:
		fn, _ = s.info.ObjectOf(callable).(*types.Func)
	case *ast.SelectorExpr:
		fn, _ = s.info.ObjectOf(callable.Sel).(*types.Func)
		if fn != nil {
			isMethod := fn.Type().(*types.Signature).Recv() != nil
			if _, ok := callable.X.(*ast.Ident); !(ok && !isMethod) {
				recv = callable.X
			}
		}
	}
	if fn == nil {
		return mk("FUnresolved", nil)
	}
	sig := fn.Type().(*types.Signature)
	qualifier := ""
	if sig.Recv() != nil {
		qualifier = sig.Recv().Type().String()
	} else {
		qualifier = fn.Pkg().Path()
	}
	variadic := 0
	if sig.Variadic() {
		variadic = sig.Params().Len() - 1
	}
	if id, ok := quasigo.VerifLookupNative(s.env, qualifier, fn.Name()); ok {
		return mk(fmt.Sprintf("(FNative %d %d)", id, variadic), recv)
	}
	if s.fname != nil {
		if sig.Variadic() {
			return mk("FUnresolved", recv)
		}
		res := "TVoid"
		if sig.Results().Len() > 0 {
			res = s.ty(sig.Results().At(0).Type())
		}
		return mk(fmt.Sprintf("(FUser %d %s)", s.fname(qualifier+"."+fn.Name()), res), recv)
	}
	if id, ok := quasigo.VerifLookupFunc(s.env, qualifier, fn.Name()); ok && !sig.Variadic() {
		res := "TVoid"
		if sig.Results().Len() > 0 {
			res = s.ty(sig.Results().At(0).Type())
		}
		return mk(fmt.Sprintf("(FUser %d %s)", id, res), recv)
	}
	return mk("FUnresolved", recv)
}

func (s *serializer) optStmt(st ast.Stmt) string {
	if st == nil {
		return "None"
	}
	return "(Some " + s.stmt(st) + ")"
}

func (s *serializer) block(b *ast.BlockStmt) string {
	var xs []string
	if b != nil {
		for _, st := range b.List {
			xs = append(xs, s.stmt(st))
		}
	}
	return coqList(xs)
}

func (s *serializer) stmt(st ast.Stmt) string {
	switch st := st.(type) {
	case *ast.ReturnStmt:
		var xs []string
		for _, r := range st.Results {
			xs = append(xs, s.expr(r))
		}
		return "(SReturn " + coqList(xs) + ")"
	case *ast.AssignStmt:
		var lhs []string
		for _, l := range st.Lhs {
			id, ok := l.(*ast.Ident)
			if !ok {
				return "SBad"
			}
			lhs = append(lhs, fmt.Sprintf("(%d, %s)", s.name(id.Name), s.ty(s.info.TypeOf(id))))
		}
		tok := "AOtherAssign"
		switch st.Tok {
		case token.DEFINE:
			tok = "ADefine"
		case token.ASSIGN:
			tok = "AAssign"
		case token.ADD_ASSIGN:
			tok = "AAddAssign"
		case token.SUB_ASSIGN:
			tok = "ASubAssign"
		}
		if len(st.Rhs) == 0 {
			return "SBad"
		}
		return fmt.Sprintf("(SAssign %s %s %d %s)", tok, coqList(lhs), len(st.Rhs), s.expr(st.Rhs[0]))
	case *ast.IncDecStmt:
		id, ok := st.X.(*ast.Ident)
		if !ok {
			return "SBad"
		}
		inc := "false"
		if st.Tok == token.INC {
			inc = "true"
		}
		return fmt.Sprintf("(SIncDec %d %s)", s.name(id.Name), inc)
	case *ast.IfStmt:
		return "(SIf " + s.optStmt(st.Init) + " " + s.expr(st.Cond) + " " + s.block(st.Body) + " " + s.optStmt(st.Else) + ")"
	case *ast.ForStmt:
		return "(SFor " + s.optStmt(st.Init) + " " + s.optExpr(st.Cond) + " " + s.optStmt(st.Post) + " " + s.block(st.Body) + ")"
	case *ast.BranchStmt:
		if st.Label == nil && st.Tok == token.BREAK {
			return "SBreak"
		}
		return "SBad"
	case *ast.ExprStmt:
		return "(SExpr " + s.expr(st.X) + ")"
	case *ast.BlockStmt:
		return "(SBlock " + s.block(st) + ")"
	}
	return "SBad"
}

func (s *serializer) fundecl(fn *ast.FuncDecl) string {
	sig := s.info.ObjectOf(fn.Name).Type().(*types.Signature)
	var ps, rs []string
	for i := 0; i < sig.Params().Len(); i++ {
		p := sig.Params().At(i)
		ps = append(ps, fmt.Sprintf("(%d, %s)", s.name(p.Name()), s.ty(p.Type())))
	}
	for i := 0; i < sig.Results().Len(); i++ {
		rs = append(rs, s.ty(sig.Results().At(i).Type()))
	}
	return "(mkfun " + coqList(ps) + " " + coqList(rs) + " " + s.block(fn.Body) + ")"
}
