package main

// data.go: programs that are heavy on DATA rather than on control flow.
//
// The typed grammar of gen.go draws its literals from small pools of short, early-differing values; that leaves the
// data paths of the compiler and of the natives nearly untested: the constant pools (interning by value, in emission
// order, one pool per function), constant folding done by go/types before the compiler sees an expression, the
// spelling of a literal (decimal / hex / rune / raw string / named constant / constant expression), and the natives at
// the borders of their domains (no variadic argument at all, formats with `%%` and stray verbs, empty needles, -1 and
// 0 replacement counts, numbers at the ends of the int range, invalid UTF-8, NUL bytes).
//
// A data program is 1..3 small functions, each built around a FAMILY of constants designed to be near-collisions of
// one another under some plausible (wrong) notion of equality:
//   - long strings sharing a prefix of 30..260 bytes (printed forms truncated at any length coincide),
//   - strings whose quoted form is longer than the value (quotes, backslashes, control bytes, non-ASCII, invalid UTF-8),
//   - strings equal up to case / surrounding blanks / a trailing NUL / Unicode normalisation,
//   - strings spelling a number or a keyword next to the int / bool constant of the same text,
//   - ints equal modulo 2^8, 2^16, 2^31, 2^32; the ends of the int range; -0,
// every member used several times and spelled differently at every use (interpreted / raw literal, split into a
// constant concatenation, named constant - typed and untyped -, hex / octal / binary / rune / shift / len(...) forms).
// Functions select a member by an int parameter, compare a string parameter with every member, or mix members with
// parameters; their argument tuples are enumerated (gfunc.tuples), not drawn at random, so every member is reached.
// The native functions are called with 0..4 variadic arguments whatever the format asks for, with constant and with
// parameter formats, and with needles / counts / numerals from pools of border values.

import (
	"fmt"
	"math"
	"math/rand"
	"strconv"
	"strings"
	"unicode/utf8"
)

type argval struct {
	ty gty
	i  int64
	s  string
	b  bool
}

func aI(i int64) argval  { return argval{ty: gInt, i: i} }
func aS(s string) argval { return argval{ty: gStr, s: s} }
func aB(b bool) argval   { return argval{ty: gBool, b: b} }

// nearStrings: values that differ from s as little as possible - one letter in the other case, one byte more or less,
// a blank or a NUL at an end, the last byte changed.
func nearStrings(s string) []string {
	flip := func(i int) string {
		c := s[i]
		switch {
		case c >= 'a' && c <= 'z':
			c -= 32
		case c >= 'A' && c <= 'Z':
			c += 32
		default:
			c ^= 1
		}
		return s[:i] + string([]byte{c}) + s[i+1:]
	}
	out := []string{s + "x", s + " ", s + "\x00", " " + s}
	if len(s) > 0 {
		out = append(out, flip(0), flip(len(s)-1), s[:len(s)-1], s[1:], s[:len(s)-1]+string([]byte{s[len(s)-1] + 1}))
	}
	if len(s) > 2 {
		out = append(out, flip(len(s)/2))
	}
	return out
}

type dgen struct {
	r      *rand.Rand
	counts map[string]int
	pre    []string // package-level constant / type declarations of the current program
	nconst int
	ntype  int
	// the types typed named constants are declared with in the function being generated: `int` / `string` or a named
	// type with that underlying type (the compiler looks at underlying types only; there are no conversions)
	intTy, strTy string
}

// namedType declares `type qt<n> <under>` now and then and returns the type to use.
func (d *dgen) namedType(under string) string {
	if d.r.Intn(3) != 0 {
		return under
	}
	d.note("data:named-type")
	name := fmt.Sprintf("qt%d", d.ntype)
	d.ntype++
	d.pre = append(d.pre, "type "+name+" "+under)
	return name
}

func (d *dgen) note(k string) { d.counts[k]++ }

const dataText = "the argument of this call is evaluated twice, consider storing it in a local variable; " +
	"suspicious self-assignment of a field that is also passed to the constructor below; "

// prefix: n bytes of message-like text.
func (d *dgen) prefix(n int) string {
	off := d.r.Intn(len(dataText))
	var sb strings.Builder
	for sb.Len() < n {
		sb.WriteString(dataText[off:])
		off = 0
	}
	return sb.String()[:n]
}

var prefixLens = []int{30, 60, 64, 65, 66, 67, 68, 69, 70, 71, 72, 73, 74, 80, 100, 127, 128, 150, 255, 256, 260}
var tails = []string{"", "local variable", "package-level variable", "l", "local variablf", "local variable ", "...", "local variable...", "\"", "p"}
var specials = []string{"\"", "\\", "\n", "\t", "é", "\x00", "\x7f", "世", "\xff", "'", "`", "%", "\r", " ", "\U0001F600"}

var shortNear = []string{"abc", "ABC", " abc", "abc ", "abc\x00", "abc\n", "Abc", "abd", "ab", "abcc", "", " ", "\t", "\x00", "a\x00", "abc\x00\x00"}
var numericText = []string{"0", "-0", "+0", "00", "42", "-1", "1", "true", "false", "nil", "0x2a", "4_2", "9223372036854775807", "-9223372036854775808", "1e3", "2.0"}
var unicodeForms = []string{"é", "é", "\xc3\xa9", "\xc3", "\xa9", "\xff", "�", "É", "e", "é́", "ｅ", "\xe9"}
var percentText = []string{"%", "%%", "%d", "100%% done", "100% done", "%!d(MISSING)", "%s%s", "%%d", "%v", "%!", "%!(NOVERB)"}

// strFamily returns 3..7 distinct string values that are near-collisions of one another.
func (d *dgen) strFamily() []string {
	var cand []string
	switch k := d.r.Intn(10); {
	case k < 4:
		d.note("family:long-prefix")
		p := d.prefix(prefixLens[d.r.Intn(len(prefixLens))])
		for _, t := range tails {
			cand = append(cand, p+t)
		}
		cand = append(cand, p[:len(p)-1], p[:len(p)-1]+"...")
	case k < 6:
		d.note("family:long-quoted")
		// the quoted form is longer than the value: printed forms reach a length limit earlier than the values do
		p := d.prefix(24 + d.r.Intn(50))
		n := 1 + d.r.Intn(6)
		for i := 0; i < n; i++ {
			at := d.r.Intn(len(p) + 1)
			p = p[:at] + specials[d.r.Intn(len(specials))] + p[at:]
		}
		for _, t := range tails[:7] {
			cand = append(cand, p+t)
		}
		cand = append(cand, p+specials[d.r.Intn(len(specials))], p+specials[d.r.Intn(len(specials))]+"x")
	case k == 6:
		d.note("family:short-near")
		cand = append(cand, shortNear...)
	case k == 7:
		d.note("family:numeric-text")
		cand = append(cand, numericText...)
	case k == 8:
		d.note("family:unicode-forms")
		cand = append(cand, unicodeForms...)
	default:
		d.note("family:percent")
		cand = append(cand, percentText...)
	}
	d.r.Shuffle(len(cand), func(i, j int) { cand[i], cand[j] = cand[j], cand[i] })
	seen := map[string]bool{}
	var out []string
	want := 3 + d.r.Intn(5)
	for _, c := range cand {
		if !seen[c] && len(out) < want {
			seen[c] = true
			out = append(out, c)
		}
	}
	return out
}

// intFamily returns 3..7 distinct ints that are near-collisions of one another.
func (d *dgen) intFamily() []int64 {
	var cand []int64
	switch d.r.Intn(3) {
	case 0:
		d.note("family:int-low-bits")
		b := []int64{0, 5, -1, 127, 255, 1}[d.r.Intn(6)]
		for _, sh := range []uint{8, 16, 31, 32, 33, 40, 62} {
			cand = append(cand, b+int64(1)<<sh, b-int64(1)<<sh)
		}
		cand = append(cand, b, b, b) // the base value is (nearly) always a member
	case 1:
		d.note("family:int-extremes")
		cand = []int64{math.MaxInt64, math.MaxInt64 - 1, math.MinInt64, math.MinInt64 + 1, -math.MaxInt64, 0, 1, -1, math.MaxInt32, math.MinInt32,
			math.MaxInt32 + 1, math.MaxUint32, math.MaxUint32 + 1}
	default:
		d.note("family:int-small")
		cand = []int64{0, 1, 2, 3, 10, 100, 127, 128, 255, 256, 257, 65535, 65536, -128, -129, -255, -256}
	}
	d.r.Shuffle(len(cand), func(i, j int) { cand[i], cand[j] = cand[j], cand[i] })
	seen := map[int64]bool{}
	var out []int64
	want := 3 + d.r.Intn(5)
	for _, c := range cand {
		if !seen[c] && len(out) < want {
			seen[c] = true
			out = append(out, c)
		}
	}
	return out
}

func rawable(s string) bool {
	if !utf8.ValidString(s) || s == "" {
		return false
	}
	for _, c := range s {
		if c == '`' || c == '\r' || c == 0 || c == 0xfeff || (c < 0x20 && c != '\n' && c != '\t') || c == 0x7f {
			return false
		}
	}
	return true
}

func (d *dgen) named(typ, spelling string) string {
	name := fmt.Sprintf("qk%d", d.nconst)
	d.nconst++
	if typ != "" {
		typ = " " + typ
	}
	d.pre = append(d.pre, "const "+name+typ+" = "+spelling)
	return name
}

// str spells the string constant v as a Go expression (always one operand: composite spellings are parenthesised).
func (d *dgen) str(v string) string {
	switch d.r.Intn(8) {
	case 0, 1:
		if rawable(v) {
			d.note("spell:raw-string")
			return "`" + v + "`"
		}
	case 2:
		if len(v) >= 2 {
			// a constant concatenation: go/types folds it, the compiler sees one constant
			d.note("spell:folded-concat")
			k := 1 + d.r.Intn(len(v)-1)
			return "(" + strconv.Quote(v[:k]) + " + " + strconv.Quote(v[k:]) + ")"
		}
	case 3:
		d.note("spell:named-const")
		return d.named("", strconv.Quote(v))
	case 4:
		d.note("spell:named-typed-const")
		return d.named(d.strTy, strconv.Quote(v))
	case 5:
		if utf8.ValidString(v) {
			d.note("spell:ascii-quoted")
			return strconv.QuoteToASCII(v)
		}
	}
	return strconv.Quote(v)
}

// num spells the int constant v as a Go expression of type int (in an int context).
func (d *dgen) num(v int64) string { return d.numIn(v, true) }

// numIn: allowRune = false where the constant's default type matters (an interface-typed variadic argument: a rune
// literal would be an int32 there, a type quasigo does not have).
func (d *dgen) numIn(v int64, allowRune bool) string {
	abs := func() (string, uint64) {
		if v < 0 {
			return "-", uint64(-(v + 1)) + 1
		}
		return "", uint64(v)
	}
	switch d.r.Intn(14) {
	case 0:
		d.note("spell:hex")
		s, u := abs()
		return s + "0x" + strconv.FormatUint(u, 16)
	case 1:
		d.note("spell:octal")
		s, u := abs()
		return s + "0o" + strconv.FormatUint(u, 8)
	case 2:
		d.note("spell:binary")
		s, u := abs()
		return s + "0b" + strconv.FormatUint(u, 2)
	case 3:
		s, u := abs()
		if u >= 1000 {
			d.note("spell:underscores")
			t := strconv.FormatUint(u, 10)
			return s + t[:len(t)-3] + "_" + t[len(t)-3:]
		}
	case 4:
		// a constant expression in arbitrary precision: (v - k) + k
		d.note("spell:folded-sum")
		k := int64(d.r.Intn(1000)) - 500
		a := decimalDiff(v, k)
		return "(" + a + " + " + strconv.FormatInt(k, 10) + ")"
	case 5:
		if v > 0 && v&(v-1) == 0 {
			d.note("spell:shift")
			n := 0
			for x := v; x > 1; x >>= 1 {
				n++
			}
			return "(1 << " + strconv.Itoa(n) + ")"
		}
	case 6:
		if allowRune && v >= 32 && v < 127 && v != '\'' && v != '\\' {
			d.note("spell:rune")
			return "'" + string(rune(v)) + "'"
		}
	case 7:
		if v >= 0 && v <= 12 {
			d.note("spell:len-const")
			return "len(" + strconv.Quote(strings.Repeat("x", int(v))) + ")"
		}
	case 8:
		d.note("spell:named-const")
		return d.named("", strconv.FormatInt(v, 10))
	case 9:
		d.note("spell:named-typed-const")
		return d.named(d.intTy, strconv.FormatInt(v, 10))
	case 10:
		if v == 0 {
			d.note("spell:minus-zero")
			return []string{"-0", "+0", "00", "0x0", "(1 - 1)", "-0x0"}[d.r.Intn(6)]
		}
	}
	return strconv.FormatInt(v, 10)
}

// decimalDiff: just enough arbitrary precision to spell v - k (int64 v, small k) as a decimal literal, parenthesised when negative.
func decimalDiff(v, k int64) string {
	// v - k may leave the int64 range by at most 500: compute in two limbs
	hi, lo := v/1000, v%1000 // v = hi*1000 + lo, lo has the sign of v
	lo -= k
	for lo >= 1000 {
		lo -= 1000
		hi++
	}
	for lo <= -1000 {
		lo += 1000
		hi--
	}
	// bring both limbs to the same sign
	if hi > 0 && lo < 0 {
		hi--
		lo += 1000
	}
	if hi < 0 && lo > 0 {
		hi++
		lo -= 1000
	}
	if hi == 0 {
		if lo < 0 {
			return "(" + strconv.FormatInt(lo, 10) + ")"
		}
		return strconv.FormatInt(lo, 10)
	}
	if lo < 0 {
		lo = -lo
	}
	s := strconv.FormatInt(hi, 10) + fmt.Sprintf("%03d", lo)
	if hi < 0 {
		return "(" + s + ")"
	}
	return s
}

var boolSpellings = map[bool][]string{
	true:  {"true", "1 < 2", `"a" != "b"`, "!false", "true || false", `len("ab") == 2`, `"abc" == "ab" + "c"`, "0 == -0"},
	false: {"false", "2 < 1", `"a" == "b"`, "!true", "true && false", `len("ab") == 3`, `"" != ""`, "1<<32 == 0"},
}

func (d *dgen) boolean(v bool) string {
	d.note("spell:bool-const-expr")
	xs := boolSpellings[v]
	return xs[d.r.Intn(len(xs))]
}

type fbuf struct {
	strings.Builder
}

func (b *fbuf) l(format string, args ...interface{}) {
	fmt.Fprintf(&b.Builder, format, args...)
	b.WriteString("\n")
}

// ---------------------------------------------------------------- functions built around a family of constants

// fnStrTable: selects a member of a string family by an int parameter.
func (d *dgen) fnStrTable(idx int) *gfunc {
	d.note("data:str-table")
	fam := d.strFamily()
	f := &gfunc{name: fmt.Sprintf("qf%d", idx), res: gStr, params: []gvar{{name: "p0", ty: gInt}, {name: "p1", ty: gStr}}}
	d.strTy = d.namedType("string")
	var b fbuf
	b.l("func %s(p0 int, p1 %s) %s {", f.name, d.strTy, d.strTy)
	for i, c := range fam {
		b.l("\tif p0 == %d {", i)
		switch d.r.Intn(4) {
		case 0:
			// both operands are constants: folded by go/types into one more member of the family
			b.l("\t\treturn %s + %s", d.str(c), d.str(fam[d.r.Intn(len(fam))]))
		case 1:
			b.l("\t\treturn %s + p1 + %s", d.str(c), d.str(fam[d.r.Intn(len(fam))]))
		default:
			b.l("\t\treturn %s", d.str(c))
		}
		b.l("\t}")
	}
	// every member once more, in another order and another spelling: must hit the slots interned above
	b.l("\tv0 := p1")
	for _, j := range d.r.Perm(len(fam)) {
		b.l("\tif p0 == %d {", 100+j)
		b.l("\t\tv0 = v0 + %s", d.str(fam[j]))
		b.l("\t}")
	}
	b.l("\treturn v0 + %s", d.str(fam[0]))
	b.l("}")
	f.src = b.String()
	for i := -1; i <= len(fam); i++ {
		f.tuples = append(f.tuples, []argval{aI(int64(i)), aS([]string{"", "|", fam[0]}[d.r.Intn(3)])})
	}
	for j := range fam {
		f.tuples = append(f.tuples, []argval{aI(int64(100 + j)), aS("<")})
	}
	return f
}

// fnStrCompare: compares a string parameter with every member of a family.
func (d *dgen) fnStrCompare(idx int) *gfunc {
	d.note("data:str-compare")
	fam := d.strFamily()
	f := &gfunc{name: fmt.Sprintf("qf%d", idx), res: gInt, params: []gvar{{name: "p0", ty: gStr}}}
	d.strTy = d.namedType("string")
	var b fbuf
	b.l("func %s(p0 %s) int {", f.name, d.strTy)
	b.l("\tv0 := 0")
	for i, c := range fam {
		switch d.r.Intn(3) {
		case 0:
			b.l("\tif p0 == %s {\n\t\treturn %d\n\t}", d.str(c), i+1)
		case 1:
			b.l("\tif %s != p0 {\n\t\tv0 = v0 + %d\n\t}", d.str(c), 1<<uint(i))
		default:
			b.l("\tif len(p0) > len(%s) {\n\t\tv0 = v0 + %d\n\t}", d.str(c), 1000*(i+1))
		}
	}
	b.l("\treturn 0 - v0")
	b.l("}")
	f.src = b.String()
	for _, c := range fam {
		f.tuples = append(f.tuples, []argval{aS(c)})
	}
	f.tuples = append(f.tuples, []argval{aS("")}, []argval{aS(fam[len(fam)-1][:len(fam[len(fam)-1])/2])})
	for _, c := range fam {
		near := nearStrings(c)
		for _, j := range d.r.Perm(len(near))[:3] {
			f.tuples = append(f.tuples, []argval{aS(near[j])})
		}
	}
	return f
}

// fnStrMix: members mixed with parameters and locals; members repeat.
func (d *dgen) fnStrMix(idx int) *gfunc {
	d.note("data:str-mix")
	fam := d.strFamily()
	c := func() string { return d.str(fam[d.r.Intn(len(fam))]) }
	f := &gfunc{name: fmt.Sprintf("qf%d", idx), res: gStr, params: []gvar{{name: "p0", ty: gStr}, {name: "p1", ty: gInt}}}
	var b fbuf
	b.l("func %s(p0 string, p1 int) string {", f.name)
	b.l("\tv0 := %s + p0", c())
	b.l("\tif p1 > 0 {\n\t\tv0 = v0 + %s\n\t}", c())
	b.l("\tif p1 > 1 {\n\t\tv0 = %s + v0 + %s\n\t}", c(), c())
	b.l("\tif v0 == %s + p0 + %s {\n\t\treturn %s\n\t}", c(), c(), c())
	b.l("\tif len(v0) == len(%s) {\n\t\tv0 = v0 + strconv.Itoa(len(%s))\n\t}", c(), c())
	b.l("\treturn v0 + %s", c())
	b.l("}")
	f.src = b.String()
	for _, s := range []string{"", "x", fam[0]} {
		for p1 := int64(0); p1 <= 2; p1++ {
			f.tuples = append(f.tuples, []argval{aS(s), aI(p1)})
		}
	}
	return f
}

// fnIntTable: selects / compares members of an int family.
func (d *dgen) fnIntTable(idx int) *gfunc {
	d.note("data:int-table")
	fam := d.intFamily()
	f := &gfunc{name: fmt.Sprintf("qf%d", idx), res: gInt, params: []gvar{{name: "p0", ty: gInt}, {name: "p1", ty: gInt}}}
	d.intTy = d.namedType("int")
	var b fbuf
	b.l("func %s(p0 int, p1 %s) %s {", f.name, d.intTy, d.intTy)
	for i, c := range fam {
		b.l("\tif p0 == %d {\n\t\treturn %s\n\t}", i, d.num(c))
	}
	b.l("\tv0 := p1 - p1")
	for j, i := range d.r.Perm(len(fam)) {
		ops := []string{"==", "!=", "<", "<=", ">", ">="}
		b.l("\tif p1 %s %s {\n\t\tv0 = v0 + %d\n\t}", ops[d.r.Intn(len(ops))], d.num(fam[i]), 1<<uint(j))
	}
	b.l("\tif p0 == 50 {\n\t\treturn p1 + %s\n\t}", d.num(fam[0]))
	b.l("\tif p0 == 51 {\n\t\treturn %s - p1\n\t}", d.num(fam[len(fam)-1]))
	b.l("\treturn v0")
	b.l("}")
	f.src = b.String()
	for i := range fam {
		f.tuples = append(f.tuples, []argval{aI(int64(i)), aI(0)})
	}
	for _, c := range fam {
		f.tuples = append(f.tuples, []argval{aI(-1), aI(c)}, []argval{aI(50 + int64(d.r.Intn(2))), aI(c)})
	}
	f.tuples = append(f.tuples, []argval{aI(-1), aI(fam[0] + 1)}, []argval{aI(-1), aI(fam[0] - 1)}, []argval{aI(51), aI(-1)})
	return f
}

// fnBoolTable: constant boolean expressions (folded by go/types) in return and condition position.
func (d *dgen) fnBoolTable(idx int) *gfunc {
	d.note("data:bool-table")
	f := &gfunc{name: fmt.Sprintf("qf%d", idx), res: gBool, params: []gvar{{name: "p0", ty: gInt}}}
	var b fbuf
	b.l("func %s(p0 int) bool {", f.name)
	n := 3 + d.r.Intn(4)
	for i := 0; i < n; i++ {
		v := d.r.Intn(2) == 0
		if d.r.Intn(3) == 0 {
			b.l("\tif p0 == %d {\n\t\tif %s {\n\t\t\treturn %s\n\t\t}\n\t\treturn %s\n\t}", i, d.boolean(v), d.boolean(d.r.Intn(2) == 0), d.boolean(d.r.Intn(2) == 0))
		} else {
			b.l("\tif p0 == %d {\n\t\treturn %s\n\t}", i, d.boolean(v))
		}
	}
	b.l("\tv0 := %s", d.boolean(d.r.Intn(2) == 0))
	b.l("\tif p0 > 50 {\n\t\tv0 = %s\n\t}", d.boolean(d.r.Intn(2) == 0))
	b.l("\treturn v0")
	b.l("}")
	f.src = b.String()
	for i := -1; i <= n; i++ {
		f.tuples = append(f.tuples, []argval{aI(int64(i))})
	}
	f.tuples = append(f.tuples, []argval{aI(77)})
	return f
}

// ---------------------------------------------------------------- natives at the borders of their domains

var formats = []string{
	"", "lit", "%", "%%", "100%% done", "%%%%", "%%%", "%d", "%s", "%v", "%d%%", "%!", "%!d", "%z", "%5d|", "%-5s|", "%05d", "%q", "%x", "%X",
	"%t", "%c", "%U", "%+d", "%[1]d", "%[2]v %[1]v", "%[3]v", "%[0]d", "%.2s", "%d %d", "%s %s %s", "%v|%v|%v", "%%%d", "é%sé", "\x00%d", "%\n",
	"%v %", "% d", "%08.3f", "%e", "%T", "%T %T %T", "%#v", "%+v", "%6.2v|", "%-8q|", "%#x", "% x", "%o", "%b", "%s%%s", "%d%s%d", "%v%v", "%!(EXTRA)",
	"%w", "%.0d", "%+q", "%#q", "%#U", "%x%X", "\xff%s", "%\xff", "%é", "%10%|", "%-%", "%v\x00%v",
}

var sprintfStrs = []string{"", "a", "%", "%d", "%%", "é", "\xff", "a\x00b", "x y", "100%% done", "%s", "\n"}
var sprintfInts = []int64{0, 1, -1, 7, 65, 1000, 255, -255, math.MaxInt64, math.MinInt64, 0x1F600, 1 << 40}

func (d *dgen) fnSprintf(idx int) *gfunc {
	d.note("data:sprintf")
	f := &gfunc{name: fmt.Sprintf("qf%d", idx), res: gStr, params: []gvar{{name: "p0", ty: gStr}, {name: "p1", ty: gInt}, {name: "p2", ty: gBool}}}
	arg := func() string {
		switch d.r.Intn(9) {
		case 0, 1:
			return "p0"
		case 2, 3:
			return "p1"
		case 4:
			return "p2"
		case 5:
			return d.str(sprintfStrs[d.r.Intn(len(sprintfStrs))])
		case 6:
			return d.numIn(sprintfInts[d.r.Intn(len(sprintfInts))], false)
		case 7:
			return "len(p0)"
		default:
			return []string{"true", "false"}[d.r.Intn(2)]
		}
	}
	call := func() string {
		var format string
		switch d.r.Intn(12) {
		case 0, 1:
			d.note("sprintf:format-from-parameter")
			format = "p0"
		case 2:
			// width / precision taken from the arguments: only with small literal widths (a width is a length of the result)
			d.note("sprintf:star-width")
			w := strconv.Itoa(d.r.Intn(9))
			switch d.r.Intn(3) {
			case 0:
				return "fmt.Sprintf(" + d.str("%*d|") + ", " + w + ", p1)"
			case 1:
				return "fmt.Sprintf(" + d.str("%-*s|%.*s") + ", " + w + ", p0, " + strconv.Itoa(d.r.Intn(4)) + ", p0)"
			default:
				return "fmt.Sprintf(" + d.str("%[2]*[1]d|%*d") + ", p1, " + w + ")"
			}
		default:
			format = d.str(formats[d.r.Intn(len(formats))])
		}
		n := []int{0, 0, 0, 1, 1, 2, 2, 3, 4}[d.r.Intn(9)]
		d.note(fmt.Sprintf("sprintf:%d-variadic", n))
		args := []string{format}
		for i := 0; i < n; i++ {
			args = append(args, arg())
		}
		return "fmt.Sprintf(" + strings.Join(args, ", ") + ")"
	}
	var b fbuf
	b.l("func %s(p0 string, p1 int, p2 bool) string {", f.name)
	b.l("\tv0 := %s", call())
	n := 1 + d.r.Intn(3)
	for i := 0; i < n; i++ {
		switch d.r.Intn(3) {
		case 0:
			b.l("\tv0 = v0 + \"|\" + %s", call())
		case 1:
			b.l("\tif p2 {\n\t\tv0 = %s + v0\n\t}", call())
		default:
			b.l("\tv0 = fmt.Sprintf(%s, v0) + %s", d.str([]string{"<%s>", "%q", "%v%%", "%5s", "%%"}[d.r.Intn(5)]), call())
		}
	}
	b.l("\treturn v0")
	b.l("}")
	f.src = b.String()
	for i := 0; i < 10; i++ {
		s := sprintfStrs[d.r.Intn(len(sprintfStrs))]
		if d.r.Intn(2) == 0 {
			s = formats[d.r.Intn(len(formats))]
		}
		f.tuples = append(f.tuples, []argval{aS(s), aI(sprintfInts[d.r.Intn(len(sprintfInts))]), aB(i%2 == 0)})
	}
	return f
}

var hayPool = []string{"", "a", "aa", "aaa", "abab", "abcabc", "é", "ééé", "\xff", "a\x00b", "%", "aXbXc", "世界", "\xc3\xa9\xc3", "ab", "ba", " a ", "AbAB"}
var needlePool = []string{"", "a", "ab", "b", "é", "\xc3", "abcabc", "x", "aa", "\x00", "\xa9", "abc", "A", " ", "世", "bc"}
var countPool = []int64{-1, 0, 1, 2, 3, 100, math.MinInt64, math.MaxInt64, -2}

func (d *dgen) fnStrings(idx int) *gfunc {
	d.note("data:strings")
	f := &gfunc{name: fmt.Sprintf("qf%d", idx), res: gStr, params: []gvar{{name: "p0", ty: gStr}, {name: "p1", ty: gStr}, {name: "p2", ty: gInt}}}
	hay := func() string {
		if d.r.Intn(3) == 0 {
			return d.str(hayPool[d.r.Intn(len(hayPool))])
		}
		return "p0"
	}
	needle := func() string {
		if d.r.Intn(3) == 0 {
			return d.str(needlePool[d.r.Intn(len(needlePool))])
		}
		return "p1"
	}
	count := func() string {
		if d.r.Intn(3) == 0 {
			return d.num(countPool[d.r.Intn(len(countPool))])
		}
		return "p2"
	}
	strv := func() string {
		switch d.r.Intn(4) {
		case 0:
			d.note("native:strings.Replace")
			return "strings.Replace(" + hay() + ", " + needle() + ", " + d.str(needlePool[d.r.Intn(len(needlePool))]) + ", " + count() + ")"
		case 1:
			d.note("native:strings.ReplaceAll")
			return "strings.ReplaceAll(" + hay() + ", " + needle() + ", " + d.str(needlePool[d.r.Intn(len(needlePool))]) + ")"
		case 2:
			d.note("native:strings.TrimPrefix")
			return "strings.TrimPrefix(" + hay() + ", " + needle() + ")"
		default:
			d.note("native:strings.TrimSuffix")
			return "strings.TrimSuffix(" + hay() + ", " + needle() + ")"
		}
	}
	boolv := func() string {
		switch d.r.Intn(3) {
		case 0:
			d.note("native:strings.HasPrefix")
			return "strings.HasPrefix(" + hay() + ", " + needle() + ")"
		case 1:
			d.note("native:strings.HasSuffix")
			return "strings.HasSuffix(" + hay() + ", " + needle() + ")"
		default:
			d.note("native:strings.Contains")
			return "strings.Contains(" + hay() + ", " + needle() + ")"
		}
	}
	var b fbuf
	b.l("func %s(p0 string, p1 string, p2 int) string {", f.name)
	b.l("\tv0 := %s", strv())
	n := 2 + d.r.Intn(3)
	for i := 0; i < n; i++ {
		if d.r.Intn(2) == 0 {
			b.l("\tif %s {\n\t\tv0 = v0 + \"|T%d\"\n\t}", boolv(), i)
		} else {
			b.l("\tv0 = v0 + \"|\" + %s", strv())
		}
	}
	b.l("\treturn v0")
	b.l("}")
	f.src = b.String()
	for i := 0; i < 12; i++ {
		f.tuples = append(f.tuples, []argval{aS(hayPool[d.r.Intn(len(hayPool))]), aS(needlePool[d.r.Intn(len(needlePool))]), aI(countPool[d.r.Intn(len(countPool))])})
	}
	return f
}

var numeralPool = []string{"", "0", "-0", "+7", "007", "0x1f", "1_0", "9223372036854775807", "9223372036854775808", "-9223372036854775808",
	"-9223372036854775809", " 1", "1 ", "१२", "1e3", "12a", "+", "-", "--1", "+-1", "42", "-42", "00000000000000000000000000001", "1\x00", "٣", "4294967296",
	"99999999999999999999", "-99999999999999999999", "0b11", "0o17", "1.0", "½"}

func (d *dgen) fnStrconv(idx int) *gfunc {
	d.note("data:strconv")
	f := &gfunc{name: fmt.Sprintf("qf%d", idx), res: gStr, params: []gvar{{name: "p0", ty: gStr}, {name: "p1", ty: gInt}}}
	var b fbuf
	b.l("func %s(p0 string, p1 int) string {", f.name)
	d.note("native:strconv.Atoi")
	d.note("native:strconv.Itoa")
	b.l("\tv0, v1 := strconv.Atoi(p0)")
	b.l("\tv2 := strconv.Itoa(v0) + \"|\" + strconv.Itoa(p1) + \"|\" + strconv.Itoa(%s)", d.num(sprintfInts[d.r.Intn(len(sprintfInts))]))
	b.l("\tif v1 != nil {\n\t\tv2 = v2 + \"|err\"\n\t}")
	b.l("\tv3, v4 := strconv.Atoi(%s)", d.str(numeralPool[d.r.Intn(len(numeralPool))]))
	b.l("\tif v4 == nil {\n\t\tv2 = v2 + \"|ok\" + strconv.Itoa(v3 + p1)\n\t}")
	if d.r.Intn(2) == 0 {
		// two error values alive at once, printed after both calls were made
		d.note("native:fmt.Sprintf")
		d.note("strconv:errors-held")
		b.l("\tv2 = v2 + fmt.Sprintf(%s, v1, v4)", d.str([]string{"|%v|%v", "|%s;%v", "|%v", "|%[2]v|%[1]v", "|%q|%T"}[d.r.Intn(5)]))
	}
	if d.r.Intn(2) == 0 {
		b.l("\tv5, v6 := strconv.Atoi(strconv.Itoa(p1))")
		b.l("\tif nil != v6 {\n\t\treturn \"roundtrip failed\"\n\t}")
		b.l("\tif v5 != p1 {\n\t\treturn \"roundtrip differs\"\n\t}")
	}
	b.l("\treturn v2")
	b.l("}")
	f.src = b.String()
	for i := 0; i < 12; i++ {
		f.tuples = append(f.tuples, []argval{aS(numeralPool[d.r.Intn(len(numeralPool))]), aI(sprintfInts[d.r.Intn(len(sprintfInts))])})
	}
	return f
}

// program generates one data program: 1..3 functions, the named constants they use declared before the first one.
func (d *dgen) program() []*gfunc {
	d.pre, d.nconst, d.ntype = nil, 0, 0
	n := 1 + d.r.Intn(3)
	var fs []*gfunc
	for i := 0; i < n; i++ {
		var f *gfunc
		d.intTy, d.strTy = "int", "string"
		switch d.r.Intn(12) {
		case 0, 1, 2:
			f = d.fnStrTable(i)
		case 3:
			f = d.fnStrCompare(i)
		case 4:
			f = d.fnStrMix(i)
		case 5, 6:
			f = d.fnIntTable(i)
		case 7:
			f = d.fnBoolTable(i)
		case 8, 9:
			f = d.fnSprintf(i)
		case 10:
			f = d.fnStrings(i)
		default:
			f = d.fnStrconv(i)
		}
		fs = append(fs, f)
	}
	if len(d.pre) > 0 {
		fs[0].src = strings.Join(d.pre, "\n") + "\n\n" + fs[0].src
	}
	return fs
}

// ---------------------------------------------------------------- native sweeps
// Every run starts its data programs with one program per group of natives whose functions do nothing but call the
// native on their parameters; the argument tuples are drawn from the pools of border values, so each native sees
// a few dozen border combinations in every run whatever the PRNG does to the other programs.

const numSweeps = 11 // 7 native sweeps + 4 update sweeps (updateProgram: ints / strings and loops, plain / spelled constants)

func (d *dgen) sweepProgram(k int) []*gfunc {
	d.pre, d.nconst, d.ntype = nil, 0, 0
	d.intTy, d.strTy = "int", "string"
	if k%numSweeps >= 7 {
		fs := d.updateProgram((k%numSweeps-7)/2 == 0, (k%numSweeps-7)%2 == 1)
		if len(d.pre) > 0 {
			fs[0].src = strings.Join(d.pre, "\n") + "\n\n" + fs[0].src
		}
		return fs
	}
	d.note("data:native-sweep")
	ps := func(n string) gvar { return gvar{name: n, ty: gStr} }
	pi := func(n string) gvar { return gvar{name: n, ty: gInt} }
	pb := func(n string) gvar { return gvar{name: n, ty: gBool} }
	// a haystack and a needle that is, half of the time, a piece of it (a prefix, a suffix, something inside, all of
	// it, nothing) - cut at any byte, also inside a multi-byte character
	var lastHay string
	hay := func() argval {
		lastHay = hayPool[d.r.Intn(len(hayPool))]
		return aS(lastHay)
	}
	needle := func() argval {
		if h := lastHay; d.r.Intn(2) == 0 {
			i := d.r.Intn(len(h) + 1)
			j := i + d.r.Intn(len(h)-i+1)
			switch d.r.Intn(4) {
			case 0:
				return aS(h[:j])
			case 1:
				return aS(h[i:])
			default:
				return aS(h[i:j])
			}
		}
		return aS(needlePool[d.r.Intn(len(needlePool))])
	}
	ncount := 0
	count := func() argval {
		ncount++
		return aI(countPool[ncount%len(countPool)])
	}
	format := func() argval { return aS(formats[d.r.Intn(len(formats))]) }
	sint := func() argval { return aI(sprintfInts[d.r.Intn(len(sprintfInts))]) }
	sstr := func() argval { return aS(sprintfStrs[d.r.Intn(len(sprintfStrs))]) }
	var fs []*gfunc
	add := func(res gty, params []gvar, ret string, n int, gens ...func() argval) {
		f := &gfunc{name: fmt.Sprintf("qf%d", len(fs)), res: res, params: params}
		var sig []string
		for _, p := range params {
			sig = append(sig, p.name+" "+p.ty.String())
		}
		f.src = fmt.Sprintf("func %s(%s) %s {\n\treturn %s\n}\n", f.name, strings.Join(sig, ", "), res.String(), ret)
		for i := 0; i < n; i++ {
			var t []argval
			for _, g := range gens {
				t = append(t, g())
			}
			f.tuples = append(f.tuples, t)
		}
		fs = append(fs, f)
	}
	switch k % numSweeps {
	case 0:
		d.note("native:strings.Replace")
		add(gStr, []gvar{ps("p0"), ps("p1"), ps("p2"), pi("p3")}, "strings.Replace(p0, p1, p2, p3)", 40, hay, needle, needle, count)
	case 1:
		d.note("native:strings.ReplaceAll")
		add(gStr, []gvar{ps("p0"), ps("p1"), ps("p2")}, "strings.ReplaceAll(p0, p1, p2)", 30, hay, needle, needle)
	case 2:
		d.note("native:strings.TrimPrefix")
		d.note("native:strings.TrimSuffix")
		add(gStr, []gvar{ps("p0"), ps("p1")}, "strings.TrimPrefix(p0, p1)", 24, hay, needle)
		add(gStr, []gvar{ps("p0"), ps("p1")}, "strings.TrimSuffix(p0, p1)", 24, hay, needle)
	case 3:
		d.note("native:strings.HasPrefix")
		d.note("native:strings.HasSuffix")
		d.note("native:strings.Contains")
		add(gBool, []gvar{ps("p0"), ps("p1")}, "strings.HasPrefix(p0, p1)", 20, hay, needle)
		add(gBool, []gvar{ps("p0"), ps("p1")}, "strings.HasSuffix(p0, p1)", 20, hay, needle)
		add(gBool, []gvar{ps("p0"), ps("p1")}, "strings.Contains(p0, p1)", 20, hay, needle)
	case 4:
		d.note("native:strconv.Atoi")
		f := &gfunc{name: "qf0", res: gStr, params: []gvar{ps("p0")}}
		f.src = "func qf0(p0 string) string {\n\tv0, v1 := strconv.Atoi(p0)\n\tif v1 != nil {\n\t\treturn strconv.Itoa(v0) + \"!\"\n\t}\n\treturn strconv.Itoa(v0)\n}\n"
		for _, s := range numeralPool {
			f.tuples = append(f.tuples, []argval{aS(s)})
		}
		fs = append(fs, f)
	case 5:
		d.note("native:strconv.Itoa")
		add(gStr, []gvar{pi("p0")}, "strconv.Itoa(p0)", 16, sint)
		f := fs[0]
		for _, v := range []int64{math.MaxInt64, math.MinInt64, 0, -1, 10, -10, 1 << 32, -(1 << 31)} {
			f.tuples = append(f.tuples, []argval{aI(v)})
		}
	default:
		d.note("native:fmt.Sprintf")
		add(gStr, []gvar{ps("p0")}, "fmt.Sprintf(p0)", 24, format)
		add(gStr, []gvar{ps("p0"), ps("p1")}, "fmt.Sprintf(p0, p1)", 20, format, sstr)
		add(gStr, []gvar{ps("p0"), pi("p1")}, "fmt.Sprintf(p0, p1)", 20, format, sint)
		add(gStr, []gvar{ps("p0"), pb("p1")}, "fmt.Sprintf(p0, p1)", 10, format, func() argval { return aB(d.r.Intn(2) == 0) })
		add(gStr, []gvar{ps("p0"), ps("p1"), pi("p2")}, "fmt.Sprintf(p0, p1, p2)", 20, format, sstr, sint)
		add(gStr, []gvar{ps("p0"), pi("p1"), ps("p2"), pi("p3")}, "fmt.Sprintf(p0, p1, p2, p3)", 16, format, sint, sstr, sint)
	}
	return fs
}

// ---------------------------------------------------------------- update sweeps
// Assignments whose right-hand side mentions the assigned local: `x = c op x`, `x = x op c`, `x = x op x`, `x = x op y`,
// `x = y op x` for every binary operator of the type, the constants 0, 1, -1, 2 (the operands an "optimised" spelling of an
// assignment -- increment, decrement, no-op, doubling, negation -- would look for) on EITHER side of the operator, with and
// without parentheses, as plain decimal literals in one program and under random spellings (hex, named constant, folded
// expression, ...) in another; the same right-hand sides assigned to ANOTHER local; the idioms in loops (toggle `x = 1 - x`,
// countdown, accumulation, alternating sign). One statement is selected by an int parameter (eight statements per function),
// the argument tuples enumerate every statement x a few start values, so every run executes every form whatever the PRNG does.
func (d *dgen) updateProgram(ints, spelled bool) []*gfunc {
	d.note("data:update-sweep")
	num := func(c int64) string {
		if spelled {
			return d.num(c)
		}
		return strconv.FormatInt(c, 10)
	}
	str := func(c string) string {
		if spelled {
			return d.str(c)
		}
		return strconv.Quote(c)
	}
	par := func(x string) string {
		if d.r.Intn(3) == 0 {
			return "(" + x + ")"
		}
		return x
	}
	var fs []*gfunc
	const perFunc = 8
	// selector: one function per perFunc statements; p1 selects the statement
	selector := func(stmts []string, res gty, p0ty, prologue, epilogue string, starts []argval) {
		for lo := 0; lo < len(stmts); lo += perFunc {
			hi := lo + perFunc
			if hi > len(stmts) {
				hi = len(stmts)
			}
			f := &gfunc{name: fmt.Sprintf("qf%d", len(fs)), res: res, params: []gvar{{name: "p0", ty: starts[0].ty}, {name: "p1", ty: gInt}}}
			var b fbuf
			b.l("func %s(p0 %s, p1 int) %s {", f.name, p0ty, res.String())
			b.l("%s", prologue)
			for k, st := range stmts[lo:hi] {
				b.l("\tif p1 == %d {\n\t\t%s\n\t}", k, st)
			}
			b.l("%s", epilogue)
			b.l("}")
			f.src = b.String()
			for k := range stmts[lo:hi] {
				for _, a := range starts {
					f.tuples = append(f.tuples, []argval{a, aI(int64(k))})
				}
			}
			f.tuples = append(f.tuples, []argval{starts[0], aI(-1)})
			fs = append(fs, f)
		}
	}

	if ints {
		var stmts []string
		for _, op := range []string{"+", "-"} {
			for _, c := range []int64{0, 1, -1, 2} {
				stmts = append(stmts,
					fmt.Sprintf("v0 = %s %s %s", par(num(c)), op, par("v0")),
					fmt.Sprintf("v0 = %s %s %s", par("v0"), op, par(num(c))),
					fmt.Sprintf("v0 = (%s %s v0)", num(c), op),
					fmt.Sprintf("v1 = %s %s v0", num(c), op),
					fmt.Sprintf("v1 = v0 %s %s", op, num(c)),
					fmt.Sprintf("v0 = %s %s v1", num(c), op),
					fmt.Sprintf("v0 = v1 %s %s", op, num(c)))
			}
			stmts = append(stmts,
				fmt.Sprintf("v0 = v0 %s v0", op), fmt.Sprintf("v0 = v0 %s v1", op), fmt.Sprintf("v0 = v1 %s v0", op),
				fmt.Sprintf("v0 = p0 %s v0", op), fmt.Sprintf("v0 = v0 %s p0", op), fmt.Sprintf("v1 = v1 %s v0", op),
				fmt.Sprintf("v0 = %s %s v0 %s %s", num(1), op, op, num(1)), fmt.Sprintf("v0 = %s %s (v0 %s %s)", num(1), op, op, num(1)),
				fmt.Sprintf("v0 = v0 %s %s %s v0", op, num(1), op))
		}
		stmts = append(stmts, "v0 = v0", "v0 = (v0)", "v0 = v1", "v1 = v0", "v0 = "+num(0)+" - (0 - v0)", "v0 = len(\"x\") - v0",
			"v0 = "+num(1)+" - v0\n\t\tv0 = "+num(1)+" - v0", "v0 = v0 - "+num(1)+"\n\t\tv0 = "+num(1)+" + v0", "v0++", "v0--")
		selector(stmts, gInt, "int", "\tv0 := p0\n\tv1 := p0 + 10", "\treturn v0 + v1 + v1",
			[]argval{aI(0), aI(1), aI(-1), aI(2), aI(7), aI(math.MaxInt64), aI(math.MinInt64)})
		return fs
	}

	// ---- strings
	var sst []string
	for _, c := range []string{"", "a", "ab"} {
		sst = append(sst,
			fmt.Sprintf("v0 = %s + %s", par(str(c)), par("v0")), fmt.Sprintf("v0 = %s + %s", par("v0"), par(str(c))),
			fmt.Sprintf("v1 = %s + v0", str(c)), fmt.Sprintf("v1 = v0 + %s", str(c)),
			fmt.Sprintf("v0 = %s + v1", str(c)), fmt.Sprintf("v0 = v1 + %s", str(c)),
			fmt.Sprintf("v0 = %s + v0 + %s", str(c), str(c)))
	}
	sst = append(sst, "v0 = v0 + v0", "v0 = v0 + v1", "v0 = v1 + v0", "v0 = p0 + v0", "v0 = v0 + p0", "v1 = v1 + v0", "v0 = v0", "v0 = (v0)",
		"v0 = v0[1:]", "v0 = v0[:1]", "v0 = v0[:len(v0)-1]", "v0 = v0[len(v0)-1:]", "v0 = v0[:]", "v0 = v0[0:len(v0)]", "v0 = v0[1:] + v0[:1]",
		"v0 = v1\n\t\tv1 = v0", "v0 = v0 + strconv.Itoa(len(v0))")
	selector(sst, gStr, "string", "\tv0 := p0\n\tv1 := p0 + \"|\"", "\treturn v0 + \"/\" + v1", []argval{aS(""), aS("a"), aS("xyz"), aS("a\x00é")})

	// ---- the idioms in loops: p1 selects the loop, p0 is the number of rounds
	loops := []string{
		"v0 = " + num(1) + " - v0",                       // toggle 0 / 1
		"v0 = " + num(0) + " - v0",                       // alternating sign
		"v0 = v0 + v2\n\t\t\tv0 = " + num(-1) + " - v0", // ... of a growing value
		"v0 = v0 + v0\n\t\t\tv0 = v0 + " + num(1),       // doubling
		"v0 = " + num(2) + " + v0\n\t\t\tv3 = v0 - v3",  // two locals updating from each other
		"v3 = v3 - " + num(1) + "\n\t\t\tv0 = v0 - v3",  // countdown feeding an accumulator
		"v0 = v3\n\t\t\tv3 = " + num(1) + " + v0",       // value handed back and forth
		"if v0 == " + num(0) + " {\n\t\t\t\tv0 = " + num(1) + " - v0\n\t\t\t} else {\n\t\t\t\tv0 = v0 - " + num(1) + "\n\t\t\t}",
	}
	f := &gfunc{name: fmt.Sprintf("qf%d", len(fs)), res: gInt, params: []gvar{{name: "p0", ty: gInt}, {name: "p1", ty: gInt}}}
	var b fbuf
	b.l("func %s(p0 int, p1 int) int {", f.name)
	b.l("\tv0 := p1 - p1")
	b.l("\tv3 := p0")
	b.l("\tv2 := 0")
	for k, body := range loops {
		b.l("\tif p1 == %d {\n\t\tfor v2 < p0 {\n\t\t\t%s\n\t\t\tv2 = v2 + 1\n\t\t}\n\t}", k, body)
	}
	b.l("\treturn v0 + v3 + v3 + v3")
	b.l("}")
	f.src = b.String()
	for k := range loops {
		for a := int64(0); a <= 5; a++ {
			f.tuples = append(f.tuples, []argval{aI(a), aI(int64(k))})
		}
	}
	fs = append(fs, f)
	return fs
}
