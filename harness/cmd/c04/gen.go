package main

// Typed generator of quasigo programs. A program is a list of functions qf0..qfN (later ones may call
// earlier ones). The grammar deliberately *combines* constructs: nested if/else ending in returns, calls in
// every operand position, short-circuit operators in every expression position, loops with break, natives.
// All loops are bounded by a dedicated counter, so every generated function terminates under Go semantics.

import (
	"fmt"
	"math/rand"
	"strconv"
	"strings"
)

type gty int

const (
	gInt gty = iota
	gStr
	gBool
	gVoid
	gErr
)

func (t gty) String() string {
	switch t {
	case gInt:
		return "int"
	case gStr:
		return "string"
	case gBool:
		return "bool"
	case gErr:
		return "error"
	}
	return ""
}

type gvar struct {
	name     string
	ty       gty
	readonly bool // params and loop counters are never assigned by generated statements
	used     bool
}

type gfunc struct {
	name   string
	params []gvar
	res    gty
	src    string
	tuples [][]argval // data programs: the argument tuples to call the function with (nil: drawn at random)
	// the literals of the program the function belongs to and values next to them: half of the random argument
	// tuples are drawn from here, so that comparisons of a parameter with a literal see equal and nearly equal operands
	dictS     []string
	dictI     []int64
	smallInts bool // int arguments stay small (hand-written programs whose loops are bounded by an argument)
}

// Features switch on constructs that exercise specific (possibly defective) compiler paths.
type features struct {
	logicInArgs bool // || / && inside call arguments and under other operands
	callCombine bool // results of user calls combined with other operands
	ifNested    bool // if/else whose then-branch ends in a nested if / loop
	ifInit      bool // if with an init statement
	compound    bool // x += e / x -= e
	shadowParam bool // a local in a nested block named like a parameter
	blankParams bool // several blank parameters
	forClauses  bool // for loops with only init+cond or cond+post
	rejects     bool // now and then a construct the compiler must reject
	manyConsts  bool // > 256 distinct constants in one function
}

type gen struct {
	r     *rand.Rand
	feat  features
	funcs []*gfunc // already generated functions of the current program

	// per function
	cur      *gfunc
	scopes   [][]*gvar
	nlocals  int
	nameSeq  int
	loopDep  int
	depthCap int
	pend     int // >0 while an object-stack operand of an enclosing operation is pending
	sb       strings.Builder
	counts   map[string]int
	data     *dgen // generator of data programs (data.go); units of histories are data programs now and then
}

var strPool = []string{"", "a", "ab", "abc", "b", "foo", "bar", "foobar", "42", "-7", "x y", "0", "9223372036854775807", "aXb", "é",
	"100%", "%d", "a\x00b", "\xff", "abab", "+5", " 42", "A", "Ab", "世界"}
var intPool = []int64{0, 1, 2, 3, -1, 5, 7, 10, 11, 42, 100, -100, 255, 256, 1000, 1 << 40, -(1 << 40), 9223372036854775807, -9223372036854775808, 9223372036854775806}

func (g *gen) note(k string) { g.counts[k]++ }

func (g *gen) vars(t gty) []*gvar {
	var out []*gvar
	for _, sc := range g.scopes {
		for _, v := range sc {
			if v.ty == t {
				out = append(out, v)
			}
		}
	}
	return out
}

func (g *gen) pickVar(t gty) *gvar {
	vs := g.vars(t)
	if len(vs) == 0 {
		return nil
	}
	// prefer variables not read yet (Go rejects unused locals)
	var unused []*gvar
	for _, v := range vs {
		if !v.used {
			unused = append(unused, v)
		}
	}
	if len(unused) > 0 && g.r.Intn(3) != 0 {
		vs = unused
	}
	v := vs[g.r.Intn(len(vs))]
	v.used = true
	return v
}

func (g *gen) intLit() string {
	if g.r.Intn(4) == 0 {
		return strconv.FormatInt(intPool[g.r.Intn(len(intPool))], 10)
	}
	return strconv.Itoa(g.r.Intn(13) - 2)
}

func (g *gen) strLit() string {
	return strconv.Quote(strPool[g.r.Intn(len(strPool))])
}

func (g *gen) userFuncs(res gty) []*gfunc {
	var out []*gfunc
	for _, f := range g.funcs {
		if f.res == res {
			out = append(out, f)
		}
	}
	return out
}

func (g *gen) callArgs(f *gfunc, d int) string {
	var args []string
	added := 0
	for _, p := range f.params {
		args = append(args, g.expr(p.ty, d-1))
		if p.ty != gInt && added == 0 {
			g.pend++
			added = 1
		}
	}
	g.pend -= added
	return strings.Join(args, ", ")
}

// seq generates the operands of one operation in evaluation order; once an operand that lives on the object
// stack (string/bool) has been generated, the remaining ones are generated as "pending" operands.
func (g *gen) seq(d int, tys ...gty) []string {
	var out []string
	added := 0
	for _, t := range tys {
		out = append(out, g.expr(t, d))
		if t != gInt && added == 0 {
			g.pend++
			added = 1
		}
	}
	g.pend -= added
	return out
}

func (g *gen) userCall(res gty, d int) (string, bool) {
	fs := g.userFuncs(res)
	if len(fs) == 0 {
		return "", false
	}
	f := fs[g.r.Intn(len(fs))]
	g.note("usercall")
	return f.name + "(" + g.callArgs(f, d) + ")", true
}

// operand generates an operand of a binary operator; when callCombine is off, user calls are excluded so the
// result of a call is never combined with a value pushed before the call.
func (g *gen) expr(t gty, d int) string {
	if d <= 0 {
		return g.leaf(t)
	}
	switch t {
	case gInt:
		switch g.r.Intn(9) {
		case 0, 1:
			return g.leaf(t)
		case 2:
			g.note("add")
			return g.expr(gInt, d-1) + " + " + g.expr(gInt, d-1)
		case 3:
			g.note("sub")
			return g.expr(gInt, d-1) + " - " + g.operandParen(gInt, d-1)
		case 4:
			g.note("len")
			return "len(" + g.expr(gStr, d-1) + ")"
		case 5, 6:
			if s, ok := g.userCall(gInt, d); ok {
				return s
			}
			return g.leaf(t)
		case 7:
			return "(" + g.expr(gInt, d-1) + ")"
		default:
			return g.leaf(t)
		}
	case gStr:
		switch g.r.Intn(12) {
		case 0, 1:
			return g.leaf(t)
		case 2:
			g.note("concat")
			xs := g.seq(d-1, gStr, gStr)
			return xs[0] + " + " + xs[1]
		case 3:
			g.note("slice")
			s := g.sliceBase(d - 1)
			g.pend++
			defer func() { g.pend-- }()
			switch g.r.Intn(4) {
			case 0:
				return s + "[" + g.smallIdx(d-1) + ":]"
			case 1:
				return s + "[:" + g.smallIdx(d-1) + "]"
			case 2:
				return s + "[" + g.smallIdx(d-1) + ":" + g.smallIdx(d-1) + "]"
			default:
				return s + "[:]"
			}
		case 4, 5:
			if s, ok := g.userCall(gStr, d); ok {
				return s
			}
			return g.leaf(t)
		case 6:
			g.note("native:strconv.Itoa")
			return "strconv.Itoa(" + g.expr(gInt, d-1) + ")"
		case 7:
			switch g.r.Intn(4) {
			case 0:
				g.note("native:strings.TrimPrefix")
				return "strings.TrimPrefix(" + strings.Join(g.seq(d-1, gStr, gStr), ", ") + ")"
			case 1:
				g.note("native:strings.TrimSuffix")
				return "strings.TrimSuffix(" + strings.Join(g.seq(d-1, gStr, gStr), ", ") + ")"
			case 2:
				g.note("native:strings.ReplaceAll")
				return "strings.ReplaceAll(" + strings.Join(g.seq(d-1, gStr, gStr, gStr), ", ") + ")"
			default:
				g.note("native:strings.Replace")
				return "strings.Replace(" + strings.Join(g.seq(d-1, gStr, gStr, gStr, gInt), ", ") + ")"
			}
		case 8:
			g.note("native:fmt.Sprintf")
			g.pend++ // the format string is pending under every variadic argument
			defer func() { g.pend-- }()
			switch g.r.Intn(5) {
			case 0:
				return `fmt.Sprintf("lit")`
			case 1:
				return `fmt.Sprintf("%d", ` + g.expr(gInt, d-1) + ")"
			case 2:
				return `fmt.Sprintf("%s:%d", ` + g.expr(gStr, d-1) + ", " + g.expr(gInt, d-1) + ")"
			case 3:
				return `fmt.Sprintf("%v|%v|%v", ` + g.expr(gBool, d-1) + ", " + g.expr(gStr, d-1) + ", " + g.expr(gInt, d-1) + ")"
			default:
				return `fmt.Sprintf("%d%s%d", ` + g.expr(gInt, d-1) + ", " + g.expr(gStr, d-1) + ", " + g.expr(gInt, d-1) + ")"
			}
		case 9:
			return "(" + g.expr(gStr, d-1) + ")"
		default:
			return g.leaf(t)
		}
	case gBool:
		switch g.r.Intn(14) {
		case 0:
			return g.leaf(t)
		case 1:
			g.note("not")
			return "!" + g.operandParen(gBool, d-1)
		case 2, 3:
			if g.pend > 0 && !g.feat.logicInArgs {
				return g.cmp(d)
			}
			g.note("or")
			if g.pend > 0 {
				g.note("logic-under-pending-operand")
			}
			return g.operandParen(gBool, d-1) + " || " + g.operandParen(gBool, d-1)
		case 4, 5:
			if g.pend > 0 && !g.feat.logicInArgs {
				return g.cmp(d)
			}
			g.note("and")
			if g.pend > 0 {
				g.note("logic-under-pending-operand")
			}
			return g.operandParen(gBool, d-1) + " && " + g.operandParen(gBool, d-1)
		case 6, 7:
			return g.cmp(d)
		case 8:
			g.note("streq")
			op := " == "
			if g.r.Intn(2) == 0 {
				op = " != "
			}
			xs := g.seq(d-1, gStr, gStr)
			return xs[0] + op + xs[1]
		case 9:
			if v := g.pickVar(gErr); v != nil {
				g.note("nilcmp")
				switch g.r.Intn(4) {
				case 0:
					return v.name + " == nil"
				case 1:
					return v.name + " != nil"
				case 2:
					return "nil == " + v.name
				default:
					return "nil != " + v.name
				}
			}
			return g.cmp(d)
		case 10:
			switch g.r.Intn(3) {
			case 0:
				g.note("native:strings.HasPrefix")
				return "strings.HasPrefix(" + strings.Join(g.seq(d-1, gStr, gStr), ", ") + ")"
			case 1:
				g.note("native:strings.HasSuffix")
				return "strings.HasSuffix(" + strings.Join(g.seq(d-1, gStr, gStr), ", ") + ")"
			default:
				g.note("native:strings.Contains")
				return "strings.Contains(" + strings.Join(g.seq(d-1, gStr, gStr), ", ") + ")"
			}
		case 11, 12:
			if s, ok := g.userCall(gBool, d); ok {
				return s
			}
			return g.cmp(d)
		default:
			return "(" + g.expr(gBool, d-1) + ")"
		}
	}
	return g.leaf(t)
}

func (g *gen) cmp(d int) string {
	ops := []string{"==", "!=", "<", "<=", ">", ">="}
	g.note("intcmp")
	return g.expr(gInt, d-1) + " " + ops[g.r.Intn(len(ops))] + " " + g.expr(gInt, d-1)
}

// operandParen wraps lower-precedence operands in parentheses so the text parses as intended.
func (g *gen) operandParen(t gty, d int) string {
	s := g.expr(t, d)
	if strings.ContainsAny(s, " ") {
		return "(" + s + ")"
	}
	return s
}

func (g *gen) sliceBase(d int) string {
	if v := g.pickVar(gStr); v != nil && g.r.Intn(3) != 0 {
		return v.name
	}
	s := g.expr(gStr, d)
	if strings.HasPrefix(s, `"`) || strings.ContainsAny(s, " ") {
		// slicing a constant string with constant indices is checked at compile time; go through a call-free paren
		return "(" + s + ")"
	}
	return s
}

func (g *gen) smallIdx(d int) string {
	switch g.r.Intn(5) {
	case 0:
		return g.expr(gInt, d)
	case 1:
		if v := g.pickVar(gInt); v != nil {
			return v.name
		}
	}
	return strconv.Itoa(g.r.Intn(4))
}

func (g *gen) leaf(t gty) string {
	if g.r.Intn(3) != 0 {
		if v := g.pickVar(t); v != nil {
			return v.name
		}
	}
	switch t {
	case gInt:
		return g.intLit()
	case gStr:
		return g.strLit()
	case gBool:
		if g.r.Intn(2) == 0 {
			return "true"
		}
		return "false"
	}
	return "nil"
}

func (g *gen) zero(t gty) string {
	switch t {
	case gInt:
		return g.intLit()
	case gStr:
		return g.strLit()
	case gBool:
		if g.r.Intn(2) == 0 {
			return "true"
		}
		return "false"
	}
	return ""
}

func (g *gen) ind(n int) string { return strings.Repeat("\t", n) }

func (g *gen) newLocal(t gty, readonly bool) *gvar {
	v := &gvar{name: fmt.Sprintf("v%d", g.nameSeq), ty: t, readonly: readonly}
	g.nameSeq++
	g.nlocals++
	g.scopes[len(g.scopes)-1] = append(g.scopes[len(g.scopes)-1], v)
	return v
}

func (g *gen) retStmt(d int) string {
	if g.cur.res == gVoid {
		return "return"
	}
	if g.cur.res == gBool && g.r.Intn(3) == 0 {
		if g.r.Intn(2) == 0 {
			return "return true"
		}
		return "return false"
	}
	return "return " + g.expr(g.cur.res, d)
}

// useStmt reads v so that Go's unused-variable check is satisfied.
func (g *gen) useStmt(v *gvar) string {
	v.used = true
	var c string
	switch v.ty {
	case gInt:
		c = v.name + " == 123456"
	case gStr:
		c = v.name + ` == "unused"`
	case gBool:
		c = v.name + " && !" + v.name
	case gErr:
		c = v.name + " != nil && " + v.name + " == nil"
	}
	if g.cur.res == gVoid {
		return "if " + c + " { return }"
	}
	return "if " + c + " { return " + g.zero(g.cur.res) + " }"
}

// block generates the statements of one block (a new scope). It returns the lines and whether the block
// ends in a terminating statement.
func (g *gen) block(indent, depth int, mustReturn bool, n int) ([]string, bool) {
	g.scopes = append(g.scopes, nil)
	var lines []string
	terminated := false
	for i := 0; i < n && !terminated; i++ {
		ls, term := g.stmt(indent, depth)
		lines = append(lines, ls...)
		terminated = term
	}
	// make sure every local of this scope is read
	var uses []string
	for _, v := range g.scopes[len(g.scopes)-1] {
		if !v.used {
			uses = append(uses, g.ind(indent)+g.useStmt(v))
		}
	}
	if mustReturn && !terminated {
		uses = append(uses, g.ind(indent)+g.retStmt(2))
		terminated = true
		lines = append(lines, uses...)
	} else if terminated && len(uses) > 0 {
		// the terminator is the single-line return/break generated last: read the locals before it
		last := lines[len(lines)-1]
		lines = append(append(lines[:len(lines)-1:len(lines)-1], uses...), last)
	} else {
		lines = append(lines, uses...)
	}
	g.scopes = g.scopes[:len(g.scopes)-1]
	return lines, terminated
}

func (g *gen) assignable(t gty) *gvar {
	var vs []*gvar
	for _, v := range g.vars(t) {
		if !v.readonly {
			vs = append(vs, v)
		}
	}
	if len(vs) == 0 {
		return nil
	}
	return vs[g.r.Intn(len(vs))]
}

func (g *gen) stmt(indent, depth int) ([]string, bool) {
	in := g.ind(indent)
	ed := 2 + g.r.Intn(2)
	for tries := 0; tries < 8; tries++ {
		switch g.r.Intn(16) {
		case 0, 1, 2:
			if g.nlocals >= 8 {
				continue
			}
			t := gty(g.r.Intn(3))
			e := g.expr(t, ed)
			v := g.newLocal(t, false)
			g.note("define")
			return []string{in + v.name + " := " + e}, false
		case 3:
			if g.nlocals < 8 && g.r.Intn(3) == 0 {
				// two variadic calls of the same arity, the first one in a branch that may be skipped
				g.note("sprintf-pair")
				v := g.newLocal(gStr, false)
				v.used = true
				var a1, a2 string
				g.pend++
				switch g.r.Intn(3) {
				case 0:
					a1 = `fmt.Sprintf("%d", ` + g.expr(gInt, 1) + ")"
					a2 = `fmt.Sprintf("<%s>", ` + g.expr(gStr, 1) + ")"
				case 1:
					a1 = `fmt.Sprintf("%s:%d", ` + g.expr(gStr, 1) + ", " + g.expr(gInt, 1) + ")"
					a2 = `fmt.Sprintf("%d/%v", ` + g.expr(gInt, 1) + ", " + g.expr(gBool, 1) + ")"
				default:
					a1 = `fmt.Sprintf("%v%v%v", ` + g.expr(gInt, 1) + ", " + g.expr(gStr, 1) + ", " + g.expr(gInt, 1) + ")"
					a2 = `fmt.Sprintf("%s-%d-%s", ` + g.expr(gStr, 1) + ", " + g.expr(gInt, 1) + ", " + g.expr(gStr, 1) + ")"
				}
				g.pend--
				cond := g.expr(gBool, 2)
				return []string{in + v.name + " := " + g.strLit(),
					in + "if " + cond + " {", in + "\t" + v.name + " = " + a1, in + "}",
					in + v.name + " = " + v.name + " + " + a2}, false
			}
			if g.nlocals >= 7 {
				continue
			}
			e := g.expr(gStr, ed-1)
			v := g.newLocal(gInt, false)
			ev := g.newLocal(gErr, false)
			g.note("native:strconv.Atoi")
			return []string{in + v.name + ", " + ev.name + " := strconv.Atoi(" + e + ")"}, false
		case 4, 5:
			t := gty(g.r.Intn(3))
			v := g.assignable(t)
			if v == nil {
				continue
			}
			if g.feat.compound && t != gBool && g.r.Intn(3) == 0 {
				g.note("compound-assign")
				op := " += "
				if t == gInt && g.r.Intn(2) == 0 {
					op = " -= "
				}
				return []string{in + v.name + op + g.expr(t, ed)}, false
			}
			g.note("assign")
			return []string{in + v.name + " = " + g.expr(t, ed)}, false
		case 6:
			v := g.assignable(gInt)
			if v == nil {
				continue
			}
			g.note("incdec")
			if g.r.Intn(2) == 0 {
				return []string{in + v.name + "++"}, false
			}
			return []string{in + v.name + "--"}, false
		case 7, 8, 9, 10:
			if depth <= 0 {
				continue
			}
			return g.ifStmt(indent, depth), false
		case 11, 12:
			if depth <= 0 || g.loopDep >= 2 || g.nlocals >= 8 {
				continue
			}
			return g.forStmt(indent, depth), false
		case 13:
			if g.loopDep == 0 {
				continue
			}
			g.note("break")
			return []string{in + "break"}, true
		case 14:
			g.note("return")
			return []string{in + g.retStmt(ed)}, true
		case 15:
			fs := g.userFuncs(gVoid)
			if len(fs) == 0 {
				if depth > 0 && g.r.Intn(3) == 0 {
					g.note("bare-block")
					ls, _ := g.block(indent+1, depth-1, false, 1+g.r.Intn(2))
					return append(append([]string{in + "{"}, ls...), in+"}"), false
				}
				continue
			}
			f := fs[g.r.Intn(len(fs))]
			g.note("voidcall")
			return []string{in + f.name + "(" + g.callArgs(f, ed) + ")"}, false
		}
	}
	// fallback: a harmless statement
	if v := g.assignable(gInt); v != nil {
		return []string{in + v.name + "++"}, false
	}
	return []string{in + g.retStmt(1)}, true
}

func (g *gen) ifStmt(indent, depth int) []string {
	in := g.ind(indent)
	cond := g.expr(gBool, 2+g.r.Intn(2))
	head := "if " + cond + " {"
	scoped := false
	if g.feat.ifInit && g.r.Intn(4) == 0 {
		if v := g.assignable(gInt); v != nil && g.r.Intn(2) == 0 {
			g.note("if-init-assign")
			head = "if " + v.name + " = " + g.expr(gInt, 1) + "; " + cond + " {"
		} else if g.nlocals < 8 {
			// the variable is in scope in the condition and in every branch of the statement
			g.note("if-init-define")
			e := g.expr(gInt, 2)
			g.scopes = append(g.scopes, nil)
			scoped = true
			v := g.newLocal(gInt, false)
			v.used = true
			ops := []string{"==", "!=", "<", "<=", ">", ">="}
			c2 := v.name + " " + ops[g.r.Intn(len(ops))] + " " + g.expr(gInt, 1)
			if g.r.Intn(2) == 0 {
				c2 = c2 + " || " + g.operandParen(gBool, 1)
			}
			head = "if " + v.name + " := " + e + "; " + c2 + " {"
		}
	}
	defer func() {
		if scoped {
			g.scopes = g.scopes[:len(g.scopes)-1]
		}
	}()
	var out []string
	out = append(out, in+head)
	thenLines, _ := g.thenBlock(indent+1, depth-1)
	out = append(out, thenLines...)
	switch g.r.Intn(4) {
	case 0: // no else
		g.note("if")
		out = append(out, in+"}")
	case 1, 2:
		g.note("if-else")
		out = append(out, in+"} else {")
		ls, _ := g.block(indent+1, depth-1, false, 1+g.r.Intn(3))
		out = append(out, ls...)
		out = append(out, in+"}")
	default:
		g.note("if-else-if")
		rest := g.ifStmt(indent, depth-1)
		rest[0] = in + "} else " + strings.TrimPrefix(rest[0], in)
		out = append(out, rest...)
	}
	return out
}

// thenBlock generates a then-branch; unless ifNested is on, it never ends in a nested if / for statement
// (the shape on which the lastOp peephole of compileIfStmt misfires).
func (g *gen) thenBlock(indent, depth int) ([]string, bool) {
	for tries := 0; ; tries++ {
		saveScopes := len(g.scopes)
		saveLocals, saveSeq := g.nlocals, g.nameSeq
		saveCounts := map[string]int{}
		for k, v := range g.counts {
			saveCounts[k] = v
		}
		usedSnapshot := g.snapshotUsed()
		ls, term := g.block(indent, depth, false, 1+g.r.Intn(3))
		if g.feat.ifNested || tries > 20 || len(ls) == 0 {
			if len(ls) > 0 && endsCompound(ls) {
				g.note("then-ends-compound")
			}
			return ls, term
		}
		if !endsCompound(ls) {
			return ls, term
		}
		// retry
		g.scopes = g.scopes[:saveScopes]
		g.nlocals, g.nameSeq = saveLocals, saveSeq
		g.counts = saveCounts
		g.restoreUsed(usedSnapshot)
	}
}

func endsCompound(ls []string) bool {
	last := strings.TrimSpace(ls[len(ls)-1])
	return last == "}"
}

func (g *gen) snapshotUsed() map[*gvar]bool {
	m := map[*gvar]bool{}
	for _, sc := range g.scopes {
		for _, v := range sc {
			m[v] = v.used
		}
	}
	return m
}

func (g *gen) restoreUsed(m map[*gvar]bool) {
	for v, u := range m {
		v.used = u
	}
}

func (g *gen) forStmt(indent, depth int) []string {
	in := g.ind(indent)
	cnt := g.newLocal(gInt, true)
	cnt.used = true
	bound := 1 + g.r.Intn(5)
	var out []string
	out = append(out, in+cnt.name+" := 0")
	g.loopDep++
	kind := g.r.Intn(3)
	switch kind {
	case 0:
		g.note("for-cond")
		cond := cnt.name + " < " + strconv.Itoa(bound)
		if g.r.Intn(3) == 0 {
			cond = cond + " && " + g.operandParen(gBool, 1)
		}
		out = append(out, in+"for "+cond+" {")
		// the counter is advanced first so that no path through the body skips it
		out = append(out, g.ind(indent+1)+cnt.name+"++")
		ls, _ := g.block(indent+1, depth-1, false, 1+g.r.Intn(3))
		out = append(out, ls...)
		out = append(out, in+"}")
	case 1:
		g.note("for-ever")
		out = append(out, in+"for {")
		out = append(out, g.ind(indent+1)+"if "+cnt.name+" >= "+strconv.Itoa(bound)+" {")
		out = append(out, g.ind(indent+2)+"break")
		out = append(out, g.ind(indent+1)+"}")
		out = append(out, g.ind(indent+1)+cnt.name+"++")
		ls, _ := g.block(indent+1, depth-1, false, 1+g.r.Intn(3))
		out = append(out, ls...)
		out = append(out, in+"}")
	default:
		g.note("for-cond-break")
		out = append(out, in+"for "+cnt.name+" < "+strconv.Itoa(bound+2)+" {")
		out = append(out, g.ind(indent+1)+cnt.name+"++")
		ls, _ := g.block(indent+1, depth-1, false, 1+g.r.Intn(2))
		out = append(out, ls...)
		out = append(out, g.ind(indent+1)+"if "+g.expr(gBool, 2)+" {")
		out = append(out, g.ind(indent+2)+"break")
		out = append(out, g.ind(indent+1)+"}")
		out = append(out, in+"}")
	}
	g.loopDep--
	return out
}

func (g *gen) function(idx int, res gty) *gfunc {
	f := &gfunc{name: fmt.Sprintf("qf%d", idx), res: res}
	g.cur = f
	g.scopes = [][]*gvar{nil}
	g.nlocals, g.nameSeq, g.loopDep, g.pend = 0, 0, 0, 0
	np := g.r.Intn(5)
	var ps []string
	for i := 0; i < np; i++ {
		t := gty(g.r.Intn(3))
		v := &gvar{name: fmt.Sprintf("p%d", i), ty: t, readonly: true, used: true}
		if g.feat.blankParams && g.r.Intn(8) == 0 {
			// a blank parameter: counted on its stack, never read
			g.note("blank-param")
			v.name = "_"
			f.params = append(f.params, *v)
			ps = append(ps, "_ "+t.String())
			continue
		}
		f.params = append(f.params, *v)
		g.scopes[0] = append(g.scopes[0], v)
		ps = append(ps, v.name+" "+t.String())
	}
	lines, _ := g.block(1, 3, true, 2+g.r.Intn(5))
	if g.feat.rejects && g.r.Intn(25) == 0 {
		// constructs the compiler has to reject (it used to accept and miscompile them)
		ret := "return"
		if res != gVoid {
			ret = "return " + g.zero(res)
		}
		var pre []string
		switch k := g.r.Intn(4); {
		case k == 0:
			g.note("reject:compound-assign")
			pre = []string{"\tvr := 1", "\tvr += 2", "\tif vr == 123456 { " + ret + " }"}
		case k == 1:
			g.note("reject:c-style-for")
			pre = []string{"\tfor vr := 0; vr < 2; vr++ {", "\t}"}
		case k == 2:
			g.note("reject:for-init-cond")
			pre = []string{"\tvr := 0", "\tfor vr = 1; vr < 3; {", "\t\tvr++", "\t}"}
		case len(f.params) > 0:
			g.note("reject:param-shadow")
			p := f.params[0]
			pre = []string{"\tif true {", "\t\t" + p.name + " := " + g.zero(p.ty), "\t\tif " + p.name + " == " + g.zero(p.ty) + " { " + ret + " }", "\t}"}
		}
		lines = append(pre, lines...)
	}
	var sb strings.Builder
	fmt.Fprintf(&sb, "func %s(%s) %s {\n", f.name, strings.Join(ps, ", "), res.String())
	for _, l := range lines {
		sb.WriteString(l)
		sb.WriteString("\n")
	}
	sb.WriteString("}\n")
	f.src = sb.String()
	return f
}

// program generates one program of 1..4 functions.
func (g *gen) program() []*gfunc {
	g.funcs = nil
	if g.data != nil && g.r.Intn(7) == 0 {
		g.data.counts = g.counts
		return g.data.program()
	}
	n := 1 + g.r.Intn(4)
	for i := 0; i < n; i++ {
		res := gty(g.r.Intn(3))
		if i < n-1 && g.r.Intn(6) == 0 {
			res = gVoid
		}
		f := g.function(i, res)
		g.funcs = append(g.funcs, f)
	}
	return g.funcs
}
