// c17: observations for "Where() connectives and comparisons form the expected algebra".
//
// One type-checked target file holds N probe sites for each of W probe functions p0..p<W-1> (`pJ(x, y, rest...)`).
// Rules are loaded in batches of W groups, group k of a batch matching `pK($x, $y, $*zs)`, so that every rule sees
// every site shape exactly once and no rule shadows another (the engine stops at the first accepting rule per node).
//
// Output (JSON lines): site facts computed directly with go/types (line, size, constant value, text per capture),
// the verdict vector of every atomic predicate, and for every generated filter tree: its DSL source, its Coq dexpr,
// irconv's IR as a Coq fexpr, and the observed per-site verdicts (or load error / panic).
package main

import (
	"bytes"
	"encoding/json"
	"flag"
	"fmt"
	"go/ast"
	"go/constant"
	"go/printer"
	"go/token"
	"go/types"
	"math/rand"
	"os"
	"path/filepath"
	"sort"
	"strconv"
	"strings"

	"verif/harness/internal/filt"
	"verif/harness/internal/hutil"

	"github.com/quasilyte/go-ruleguard/ruleguard"
)

const W = 64

type siteSpec struct {
	x, y  string
	rest  []string
	multi bool // y on the next line
	// pre / post: statements in front of and behind the row of probe calls (a block with local declarations around the row)
	pre, post string
}

var siteSpecs = []siteSpec{
	{"1", "2", nil, false, "", ""},
	{"7", "7", []string{"1", "2", "3"}, false, "", ""},
	{"K", "gv", []string{"gv"}, false, "", ""},
	{"gv", "K", []string{"5", "gv"}, true, "", ""},
	{"-3", "1 << 40", []string{"8"}, false, "", ""},
	{"1 << 40", "-3", nil, true, "", ""},
	{"'a'", "uint8(200)", []string{"'b'", "'c'"}, false, "", ""},
	{"uint8(200)", "'a'", nil, false, "", ""},
	{"\"abc\"", "\"abd\"", nil, false, "", ""},
	{"\"abd\"", "\"abc\"", []string{"\"x\""}, true, "", ""},
	{"gs", "\"abc\"", nil, false, "", ""},
	{"KS", "gs", nil, false, "", ""},
	{"s", "s.a", []string{"s.a", "s.b"}, false, "", ""},
	{"s.a", "s", nil, true, "", ""},
	{"Big{}", "s", []string{"Big{}", "int64(1)"}, false, "", ""},
	{"&s", "Big{}", nil, false, "", ""},
	{"t", "u", []string{"t"}, false, "", ""},
	{"u", "t", []string{"u", "1"}, true, "", ""},
	{"u", "u", nil, false, "", ""},
	{"arr", "len(arr)", []string{"arr[0]"}, false, "", ""},
	{"arr[0]", "arr", nil, false, "", ""},
	{"len(arr)", "cap(arr)", []string{"len(arr)", "3"}, false, "", ""},
	{"2.5", "1", []string{"2.5"}, false, "", ""},
	{"true", "2.0", nil, false, "", ""},
	{"MyInt(8)", "8", []string{"MyInt(8)", "8"}, false, "", ""},
	{"int8(1)", "int64(1)", []string{"int8(1)", "int16(1)"}, false, "", ""},
	{"int64(1)", "int8(1)", []string{"int64(9)", "int64(10)", "int64(11)"}, true, "", ""},
	{"K + 1", "K - 7", []string{"K", "K + 1"}, false, "", ""},
	{"(gv)", "(7)", nil, false, "", ""},
	{"f0()", "7", []string{"f0()"}, false, "", ""},
	{"[2]int32{}", "[3]string{}", []string{"[2]int32{}"}, false, "", ""},
	{"struct{}{}", "0", []string{"0", "0"}, false, "", ""},
	{"x0", "x0", []string{"x0", "x0"}, false, "", ""},
	{"97", "'a'", []string{"97"}, false, "", ""},
	{"\"ab\" + \"c\"", "KS", nil, false, "", ""},
	{"\"\"", "\"a\"", nil, false, "", ""},
	{"uint64(1 << 63)", "int64(-1 << 63)", []string{"uint64(1 << 63)"}, false, "", ""},
	{"200", "uint8(200)", []string{"199", "200", "201"}, true, "", ""},
	{"[2]T{}", "struct{ v U }{}", []string{"[1]int{}", "[1][1]T{}"}, false, "", ""},
	{"struct{ a [2]U }{}", "[2]T{}", nil, false, "", ""},
	{"[2]string{\n\t\t\"q\",\n\t}", "gv", nil, false, "", ""},
	{"gv", "func() int {\n\t\treturn 1\n\t}()", []string{"1"}, false, "", ""},
	// distinct types that PRINT alike (types.Type.String()) and differ in size: equally named types declared in different
	// blocks, a local type that shadows a package-level one, arrays and structs of them -- in both source orders (the smaller
	// one first, the larger one first) and both in one call
	{"l", "[2]L{}", []string{"l", "&l"}, false, "{\n\ttype L struct{ a int64 }\n\tvar l L\n", "\t_ = l\n\t}\n"},
	{"l", "[2]L{}", []string{"l", "L{}", "struct{ v L }{}"}, false, "{\n\ttype L struct{ a, b int64 }\n\tvar l L\n", "\t_ = l\n\t}\n"},
	{"m1", "m2", []string{"m2", "m1", "[2]M{}"}, false, "{\n\ttype M [3]int64\n\tvar m1 M\n\t{\n\ttype M [1]int64\n\tvar m2 M\n", "\t_, _ = m1, m2\n\t}\n\t}\n"},
	{"Hdr{}", "[3]Hdr{}", []string{"Hdr{}"}, true, "{\n\ttype Hdr [2]int64\n", "\t}\n"},
	{"Hdr{}", "[3]Hdr{}", []string{"Hdr{}", "&Hdr{}"}, false, "", ""},
	{"Big{}", "s", []string{"Big{}", "[2]Big{}"}, false, "{\n\ttype Big [4]int64\n", "\t}\n"},
}

// detachedSpecs: the probe sites of the targets whose bytes the engine cannot (fully) read back from the file system.
// The captures are spelled the way gofmt would not spell them, so that a capture's Text -- which is then what go/printer
// makes of the node, the same string the report message interpolates -- differs from the source extent of the node in
// length and in content; gofmt-shaped twins stand next to them.
var detachedSpecs = []siteSpec{
	{"g( 1,2 )", "g(1, 2)", nil, false, "", ""},
	{"a+b", "a  +  b", []string{"a+b", "a  +  b"}, false, "", ""},
	{"a + b", "a +b", nil, false, "", ""},
	{"gv", "( gv )", []string{"( 7 )", "gv"}, false, "", ""},
	{"[]int{1,2}", "[]int{ 1, 2 }", nil, false, "", ""},
	{"K+1", "8", []string{"K +1", "8"}, false, "", ""},
	{"- 3", "-3", nil, false, "", ""},
	{"a\t+ b", "a + b", nil, false, "", ""},
	{"struct{}{}", "[ 0 ]int{}", []string{"struct{ }{ }"}, false, "", ""},
	{"f0( )", "7", []string{"f0( )"}, false, "", ""},
	{"\"abc\"", "KS", nil, false, "", ""},
	{"s . a", "s.a", nil, true, "", ""},
	{"g(1,\n\t\t2)", "gv", nil, false, "", ""},
	{"'a'", "97", []string{"'a'", "0x61"}, false, "", ""},
	{"uint8( 200 )", "200", nil, false, "", ""},
	{"1<<40", "1 << 40", nil, false, "", ""},
}

// targetSource renders a target file: one row of W probe calls per site spec. rowStart[i] is the byte offset at which
// the rows of site i begin. A detached target also spells the probe calls themselves in two non-gofmt ways.
func targetSource(specs []siteSpec, detached bool) (string, []int) {
	var sb strings.Builder
	sb.WriteString("package target\n\ntype S struct {\n\ta int\n\tb string\n}\ntype Big [40]int64\ntype Hdr [4]int64\ntype MyInt int\n\nvar gv = 3\nvar gs = \"abc\"\n\nconst K = 7\nconst KS = \"abc\"\n\nfunc f0() int { return gv }\n\nfunc g(a, b int) int { return a + b }\n\n")
	for j := 0; j < W; j++ {
		fmt.Fprintf(&sb, "func p%d(a, b interface{}, rest ...interface{}) {}\n", j)
	}
	sb.WriteString("\nfunc sites[T any, U ~int64](t T, u U, arr []int, s S) {\n\tx0 := 5\n\t_ = x0\n\ta, b := 1, 2\n\t_, _ = a, b\n")
	var rowStart []int
	for i, sp := range specs {
		rowStart = append(rowStart, sb.Len())
		if detached && i == len(specs)-3 {
			// the rest of the file says it comes from elsewhere: Line is the line a position is REPORTED at
			sb.WriteString("//line relocated.go:5000\n")
		}
		sb.WriteString(sp.pre)
		open, sep, close := "(", ", ", ")"
		if detached {
			if i%2 == 0 {
				sep = ","
			} else {
				open, sep, close = "( ", " , ", " )"
			}
		}
		for j := 0; j < W; j++ {
			args := sp.x + sep
			if sp.multi {
				args = sp.x + ",\n\t\t"
			}
			args += sp.y
			for _, r := range sp.rest {
				args += sep + r
			}
			if j%8 == 0 {
				sb.WriteString("\n\t")
			} else {
				sb.WriteString("; ")
			}
			fmt.Fprintf(&sb, "p%d%s%s%s", j, open, args, close)
		}
		sb.WriteString("\n")
		sb.WriteString(sp.post)
	}
	rowStart = append(rowStart, sb.Len())
	sb.WriteString("}\n")
	return sb.String(), rowStart
}

// tgt: one analysed file. Site indices are global: the sites of a later target follow those of the earlier ones.
type tgt struct {
	name  string // disk: the file system holds the analysed bytes; mem: nothing at that path; stale: a shorter, older version
	t     *hutil.Target
	specs []siteSpec
	base  int
	sizes types.Sizes // the RunContext's Sizes for this file (Type.Size must follow them)
	gover string      // the RunContext's GoVersion for this file ("": not set -- every GoVersion() predicate holds)
	byPos map[int]*filt.Site
	byJ   map[int][]*filt.Site
}

// ---------------------------------------------------------------- facts (the independent oracle: go/types + source text)

type val struct {
	Size *int64  `json:"size"` // nil: type parameter
	Int  *string `json:"int"`  // nil: not an integer constant
}

type siteFacts struct {
	K     string `json:"k"`
	I     int    `json:"i"`
	J     int    `json:"j"`
	LineX int    `json:"line_x"`
	LineY int    `json:"line_y"`
	X     val    `json:"x"`
	Y     val    `json:"y"`
	TextX string `json:"text_x"`
	TextY string `json:"text_y"`
	LineM int    `json:"line_m"` // the whole match ($$): the probe call
	TextM string `json:"text_m"`
	Rest  []val  `json:"rest"`
	// Text*: the text the engine itself reports for the capture (`$x` in a report message). Src*: the bytes of the node's
	// source extent; they differ where the engine cannot read the file back and prints the node instead.
	Target string `json:"target"`
	SrcX   string `json:"src_x"`
	SrcY   string `json:"src_y"`
	SrcM   string `json:"src_m"`
	// column 0 only: the byte extents of the three nodes and what go/printer makes of them (computed here, not by the engine)
	Ext   []int    `json:"ext,omitempty"`   // from_x to_x from_y to_y from_m to_m
	Print []string `json:"print,omitempty"` // x y m
}

func valOf(t *hutil.Target, sizes types.Sizes, e ast.Expr) val {
	var v val
	tv := t.Info.Types[e]
	typ := tv.Type
	if typ == nil {
		typ = types.Typ[types.Invalid]
	}
	if sizeKnown(typ) {
		sz := sizes.Sizeof(typ)
		v.Size = &sz
	}
	if tv.Value != nil && tv.Value.Kind() == constant.Int {
		s := tv.Value.ExactString()
		v.Int = &s
	}
	return v
}

// sizeKnown: the size of a type is a fact of the platform unless a type parameter decides it (a type parameter itself, an
// array of or a struct with one): then it has no value
func sizeKnown(typ types.Type) bool {
	switch t := types.Unalias(typ).(type) {
	case *types.TypeParam:
		return false
	case *types.Array:
		return sizeKnown(t.Elem())
	case *types.Struct:
		for i := 0; i < t.NumFields(); i++ {
			if !sizeKnown(t.Field(i).Type()) {
				return false
			}
		}
	case *types.Named:
		if _, ok := t.Underlying().(*types.Interface); !ok {
			return sizeKnown(t.Underlying())
		}
	}
	return true
}

// ---------------------------------------------------------------- atoms and trees

type atom struct {
	d      *filt.DExpr
	panics bool
	// a predicate that is only defined behind a guard: it panics where the atom `defined` rejects and answers like the atom
	// `value` elsewhere (both are measured on their own)
	defined, value *filt.DExpr
}

const prelude = `
func longName(ctx *dsl.VarFilterContext) bool {
	s := ctx.Type.String()
	return len(s) > 3
}

func boom(ctx *dsl.VarFilterContext) bool {
	t := ctx.GetType("nosuchtype")
	return ctx.SizeOf(t) > 0
}

func elemIsInt(ctx *dsl.VarFilterContext) bool {
	// only defined for slices: the caller guards it with Type.Is("[]$_")
	return types.Identical(types.AsSlice(ctx.Type).Elem(), ctx.GetType("int"))
}
`

// the guard, the guarded predicate and what it answers where it is defined
var (
	guardAtom   = filt.Call("Type.Is", "x", filt.Str("[]$_"))
	guardedAtom = filt.Call("Filter", "x", filt.Ident("elemIsInt"))
	guardedIs   = filt.Call("Type.Is", "x", filt.Str("[]int"))
)

func atomPool() []atom {
	pool := baseAtoms()
	seen := map[string]bool{}
	for _, a := range pool {
		seen[a.d.Coq()] = true
	}
	pool = append(pool, atom{d: guardAtom}, atom{d: guardedIs}, atom{d: guardedAtom, panics: true, defined: guardAtom, value: guardedIs})
	seen[guardAtom.Coq()], seen[guardedIs.Coq()], seen[guardedAtom.Coq()] = true, true, true
	// the literal spelling of every predicate the shared-spelling families use under a constant name
	for _, na := range namedAtoms {
		for _, v := range na.values {
			d := filt.Call(na.path, na.v, filt.Str(v))
			if !seen[d.Coq()] {
				seen[d.Coq()] = true
				pool = append(pool, atom{d: d})
			}
		}
	}
	return pool
}

func baseAtoms() []atom {
	return append([]atom{
		{d: filt.Sel("Pure", "x"), panics: false},
		{d: filt.Sel("Const", "x"), panics: false},
		{d: filt.Sel("Const", "y"), panics: false},
		{d: filt.Sel("Addressable", "x"), panics: false},
		{d: filt.Sel("Comparable", "y"), panics: false},
		{d: filt.Call("Type.Is", "x", filt.Str("int")), panics: false},
		{d: filt.Call("Type.Is", "y", filt.Str("string")), panics: false},
		{d: filt.Call("Type.Underlying.Is", "x", filt.Str("int")), panics: false},
		{d: filt.Call("Text.Matches", "x", filt.Str("^[a-z]")), panics: false},
		{d: filt.Call("Type.ConvertibleTo", "y", filt.Str("string")), panics: false},
		{d: filt.Call("Filter", "x", filt.Ident("longName")), panics: false},
		{d: filt.Call("Filter", "y", filt.Ident("boom")), panics: true},
	}, fileAtoms()...)
}

// fileAtoms: predicates about the FILE (its imports, its name, its package path) and about the Go version of the run -- the same
// answer for every match of a file, and another one in the next file: the three analysed files are run with no Go version (every
// GoVersion() predicate holds), 1.18 and 1.21; none of them imports anything; one is called never_saved.go
func fileAtoms() []atom {
	return []atom{
		{d: filt.Call("File.Imports", "", filt.Str("fmt"))},
		{d: filt.Call("GoVersion.GreaterEqThan", "", filt.Str("1.20"))},
		{d: filt.Call("GoVersion.LessThan", "", filt.Str("1.20"))},
		{d: filt.Call("GoVersion.Eq", "", filt.Str("1.30"))},
		{d: filt.Call("File.Name.Matches", "", filt.Str("never_saved"))},
		{d: filt.Call("File.PkgPath.Matches", "", filt.Str("nosuchpkg"))},
	}
}

type gen struct {
	rng   *rand.Rand
	nbase int // the first nbase atoms are the ones random trees draw from
	atoms []atom
	lines []int
	texts []string
}

var cmpToks = []string{"EQL", "NEQ", "LSS", "LEQ", "GTR", "GEQ"}
var intConsts = []int64{-4, -3, -2, 0, 1, 2, 3, 5, 6, 7, 8, 9, 16, 24, 96, 97, 98, 199, 200, 201, 320, 1 << 40, (1 << 40) + 1}
var sizeConsts = []int64{0, 1, 2, 4, 7, 8, 9, 16, 24, 32, 48, 320}

func (g *gen) pick(l []int64) int64 { return l[g.rng.Intn(len(l))] }

func operand(kind int, v string) *filt.DExpr {
	switch kind {
	case 0:
		return filt.Sel("Line", v)
	case 1:
		return filt.Sel("Type.Size", v)
	case 2:
		return filt.Call("Value.Int", v)
	default:
		return filt.Sel("Text", v)
	}
}

func (g *gen) constFor(kind int) *filt.DExpr {
	switch kind {
	case 0:
		return filt.Int(int64(g.lines[g.rng.Intn(len(g.lines))] + g.rng.Intn(3) - 1))
	case 1:
		if c := g.pick(sizeConsts); g.rng.Intn(4) == 0 {
			return g.foldedInt(c)
		} else {
			return filt.Int(c)
		}
	case 2:
		c := g.pick(intConsts)
		if g.rng.Intn(3) == 0 {
			return g.foldedInt(c)
		}
		return filt.Int(c)
	default:
		s := g.texts[g.rng.Intn(len(g.texts))]
		if g.rng.Intn(3) == 0 {
			return g.foldedStr(s)
		}
		return filt.Str(s)
	}
}

// foldedInt: a constant expression of value c that go/types folds before irconv sees it -- every way of spelling an integer
// literal, arithmetic, shifts, conversions, len of a constant string, a named constant of the rules file
func (g *gen) foldedInt(c int64) *filt.DExpr {
	var forms []string
	if c >= 0 {
		for st := 1; st < nIntStyles; st++ {
			forms = append(forms, spellInt(c, st, g.rng))
		}
		forms = append(forms, fmt.Sprintf("%d << 0", c), fmt.Sprintf("+%d", c), fmt.Sprintf("%d.0", c), fmt.Sprintf("1e0 * %d", c))
		if c <= 12 {
			forms = append(forms, fmt.Sprintf("len(%q)", strings.Repeat("z", int(c))))
		}
		if c%8 == 0 {
			forms = append(forms, fmt.Sprintf("%d << 3", c/8))
		}
	} else {
		forms = append(forms, fmt.Sprintf("-(%d)", -c), fmt.Sprintf("0 - %s", spellInt(-c, 1+g.rng.Intn(5), g.rng)), fmt.Sprintf("-%s", spellInt(-c, 4, g.rng)))
	}
	forms = append(forms, fmt.Sprintf("(%d + 1)", c-1), fmt.Sprintf("int(%d)", c), fmt.Sprintf("(%d)", c), fmt.Sprintf("%d * 2 / 2", c))
	if name, ok := ruleFileIntConsts[c]; ok {
		forms = append(forms, name)
	}
	return filt.RawInt(forms[g.rng.Intn(len(forms))], c)
}

// foldedStr: a constant expression of value s
func (g *gen) foldedStr(s string) *filt.DExpr {
	forms := []string{spellStr(s, 1), spellStr(s, 2), "(" + strconv.Quote(s) + ")", "dsl.MatchedText(" + strconv.Quote(s) + ")", strconv.Quote(s) + " + \"\""}
	if len(s) > 1 {
		forms = append(forms, fmt.Sprintf("%q + %q", s[:1], s[1:]), fmt.Sprintf("%s + %s", spellStr(s[:len(s)-1], 1), spellStr(s[len(s)-1:], 2)))
	}
	if name, ok := ruleFileStrConsts[s]; ok {
		forms = append(forms, name)
	}
	return filt.RawStr(forms[g.rng.Intn(len(forms))], s)
}

// named constants declared at the top of every rules file of the random trees / law families (typed, untyped, iota)
var ruleFileIntConsts = map[int64]string{8: "kEight", 7: "kSeven", 0: "kZero", 1: "kOne", 2: "kTwo", 97: "kRune", 16: "kTyped16", -3: "kMinus3"}
var ruleFileStrConsts = map[string]string{"abc": "kAbc", "": "kEmpty", "gv": "kGv"}

const constPrelude = `
const kEight = 8
const kSeven, kRune = 7, 'a'
const (
	kZero = iota
	kOne
	kTwo
)
const kTyped16 int = 1 << 4
const kMinus3 = -3
const kAbc, kEmpty = "abc", ""
const kGv dsl.MatchedText = "g" + "v"
`

// cmpLeaf: a comparison over x, y or zs
func (g *gen) cmpLeaf() *filt.DExpr {
	kind := g.rng.Intn(4)
	tok := cmpToks[g.rng.Intn(6)]
	v := g.cmpVar(kind)
	switch r := g.rng.Intn(10); {
	case r < 5: // var op const
		if (kind == 1 || kind == 2) && g.rng.Intn(4) == 0 {
			v = "zs"
		}
		return filt.Bin(tok, operand(kind, v), g.constFor(kind))
	case r < 7: // const ==/!= var
		tok = cmpToks[g.rng.Intn(2)]
		return filt.Bin(tok, g.constFor(kind), operand(kind, v))
	default: // var op var
		w := g.cmpVar(kind)
		return filt.Bin(tok, operand(kind, v), operand(kind, w))
	}
}

// cmpVar: the capture a comparison reads; for Line and Text also the whole match `$$`
func (g *gen) cmpVar(kind int) string {
	if (kind == 0 || kind == 3) && g.rng.Intn(5) == 0 {
		return "$$"
	}
	return []string{"x", "y"}[g.rng.Intn(2)]
}

func (g *gen) leaf(allowPanic bool) *filt.DExpr {
	if g.rng.Intn(2) == 0 {
		return g.cmpLeaf()
	}
	for {
		a := g.atoms[g.rng.Intn(g.nbase)]
		if a.panics && !allowPanic {
			continue
		}
		return a.d
	}
}

func (g *gen) tree(depth int, allowPanic bool) *filt.DExpr {
	if depth <= 1 || g.rng.Intn(5) == 0 {
		return g.leaf(allowPanic)
	}
	switch g.rng.Intn(7) {
	case 0, 1:
		return filt.Not(g.sub(depth-1, allowPanic))
	case 2, 3:
		return filt.And(g.sub(depth-1, allowPanic), g.sub(depth-1, allowPanic))
	case 4, 5:
		return filt.Or(g.sub(depth-1, allowPanic), g.sub(depth-1, allowPanic))
	default:
		return filt.Paren(g.tree(depth-1, allowPanic))
	}
}

// sub: an operand; binary operands are parenthesised so that the Go precedence cannot regroup the tree
func (g *gen) sub(depth int, allowPanic bool) *filt.DExpr {
	t := g.tree(depth, allowPanic)
	if t.K == "binary" {
		return filt.Paren(t)
	}
	return t
}

func hasPanicAtom(d *filt.DExpr) bool {
	if d == nil {
		return false
	}
	if d.K == "call" && d.Path == "Filter" && len(d.Args) == 1 && (d.Args[0].S == "boom" || d.Args[0].S == "elemIsInt") {
		return true
	}
	return hasPanicAtom(d.X) || hasPanicAtom(d.Y)
}

type cmpInfo struct {
	Kind  int     `json:"kind"` // 0 Line, 1 Type.Size, 2 Value.Int(), 3 Text
	Var   string  `json:"var"`
	Int   *int64  `json:"int,omitempty"`
	Str   *string `json:"str,omitempty"`
	Other int     `json:"other"` // mixed: kind of the rhs (on y)
}

type ruleCase struct {
	K       string   `json:"k"`
	Idx     int      `json:"idx"`
	Family  string   `json:"family"` // law family tag
	Role    string   `json:"role"`   // role within the family
	Src     string   `json:"src"`
	Coq     string   `json:"coq"`
	J       int      `json:"j"`
	IR      string   `json:"ir,omitempty"` // irconv result as Coq fexpr
	LoadErr string   `json:"load_err,omitempty"`
	Panic   string   `json:"panic,omitempty"`
	Accept  []int    `json:"accept"`        // site indices (I) reported, in report order
	Atom    int      `json:"atom"`          // index into the atom pool, or -1
	Cmp     *cmpInfo `json:"cmp,omitempty"` // comparison families: what is compared
	// shared-spelling families: the group's local constant declarations, the file it lives in (and that file's
	// file-level constants), the instantiated tree for the oracle, and the result of loading the group alone
	Locals     string            `json:"locals,omitempty"`
	FileNo     int               `json:"file_no"`
	FileConsts string            `json:"file_consts,omitempty"`
	Tree       *otree            `json:"tree,omitempty"`
	Alone      *aloneRes         `json:"alone,omitempty"`
	Values     map[string]string `json:"values,omitempty"`
	// MayRefuse: a literal of the group's macro body is not a decimal number / a plainly quoted string: the group means the
	// literal's Go value or is refused at load. Left: refused alone, so left out of the family's common engine.
	MayRefuse bool      `json:"may_refuse,omitempty"`
	Lits      []litInfo `json:"lits,omitempty"` // the literals of the macro body: token kind, spelling, Go value
	Left      bool      `json:"left_out,omitempty"`
	// ArgMacro: the constants are arguments of the macro call (the calls of the family's groups differ in them)
	ArgMacro bool `json:"arg_macro,omitempty"`
	// Dbg: the same engine run again with RunContext.Debug set (to this rule's group, to another group of the engine, to no
	// group of the engine) and DebugPrint collecting
	Dbg      []dbgRes `json:"dbg,omitempty"`
	d        *filt.DExpr
	whereSrc string // the Where() argument as written, when it is not d.Go() (a call of a group-local macro)
	solo     bool   // run in its own engine (may panic or may fail to load)
	wantJ    int    // probe function the rule is bound to (members of a law family share it: same site facts)
	group    string // rules with the same group key share an engine
}

// ---------------------------------------------------------------- shared-spelling families
//
// One rules file (or two files loaded into one engine) holds several groups whose Where() expressions are spelled
// identically over named constants (`m["x"].Type.Size > limit`, `m["x"].Text.Matches(pat)`); every group gives the names
// its own values through function-local constant declarations, some names are file-level constants that only some groups
// shadow. irconv folds the values into the IR, so the groups mean different filters although their source text is equal.

// dbgRes: one run with RunContext.Debug set
type dbgRes struct {
	Debug   string `json:"debug"` // own | other | none-of-the-engine
	Group   string `json:"group"` // the value of RunContext.Debug
	Accept  []int  `json:"accept"`
	Panic   string `json:"panic,omitempty"`
	Rejects int    `json:"rejects"` // "rejected by" lines printed for this rule's group
	// Reasons: the distinct reject reasons printed for this rule's group (each names a part of the filter)
	Reasons []string `json:"reasons,omitempty"`
}

type aloneRes struct {
	Accept  []int  `json:"accept"`
	LoadErr string `json:"load_err,omitempty"`
	Panic   string `json:"panic,omitempty"`
}

// otree: the instantiated tree in the form the check's oracle evaluates (comparisons by the Go operator on go/types
// values, other predicates by their separately measured verdict vectors)
type otree struct {
	K    string  `json:"k"` // not and or cmp atom
	X    *otree  `json:"x,omitempty"`
	Y    *otree  `json:"y,omitempty"`
	Kind int     `json:"kind"`
	Var  string  `json:"var,omitempty"`
	Tok  string  `json:"tok,omitempty"` // the operator as written: <var value> Tok <constant> after mirroring a constant on the left
	Int  *int64  `json:"int,omitempty"`
	Str  *string `json:"str,omitempty"`
	Atom int     `json:"atom"`
	// cmp2: two captures compared with one another: <Kind of Var> Tok <Kind2 of Var2>
	Kind2 int    `json:"kind2"`
	Var2  string `json:"var2,omitempty"`
}

type namedAtom struct {
	path, v, name string
	values        []string
}

var namedAtoms = []namedAtom{
	{"Text.Matches", "x", "pat", []string{"^[a-z]", "^[0-9]", "^\"", "a"}},
	{"Text.Matches", "y", "pat", []string{"^[a-z]", "^[0-9]", "^\"", "a"}},
	{"Type.Is", "x", "typ", []string{"int", "string", "int64", "uint8"}},
	{"Type.Is", "y", "typ", []string{"int", "string", "int64", "uint8"}},
	{"Type.ConvertibleTo", "x", "typ", []string{"int", "string", "int64", "uint8"}},
	{"Type.Underlying.Is", "y", "typ", []string{"int", "string", "int64", "uint8"}},
	{"Type.OfKind", "x", "kind", []string{"integer", "unsigned", "numeric", "signed"}},
	{"Node.Is", "x", "tag", []string{"Ident", "BasicLit", "CallExpr", "SelectorExpr"}},
	{"Node.Is", "y", "tag", []string{"Ident", "BasicLit", "CallExpr", "SelectorExpr"}},
	{"Contains", "x", "sub", []string{"gv", "K", "s", "1"}},
}

var cmpConstName = []string{"ln", "limit", "num", "name"}

// typedConst: names handed to predicates whose argument irconv reads with toStringValue (needs the type `string`)
var typedConst = map[string]bool{"pat": true, "typ": true, "kind": true, "tag": true, "sub": true}

type nval struct {
	z   int64
	s   string
	str bool
}

func (v nval) golit() string {
	if v.str {
		return fmt.Sprintf("%q", v.s)
	}
	return fmt.Sprint(v.z)
}

// namedLeaf: a comparison or predicate whose constant is spelled as a name
func (g *gen) namedLeaf() *filt.DExpr {
	if g.rng.Intn(10) < 6 {
		kind := g.rng.Intn(4)
		tok := cmpToks[g.rng.Intn(6)]
		v := g.cmpVar(kind)
		var c *filt.DExpr
		if kind == 3 {
			c = filt.RawStr(cmpConstName[kind], "")
		} else {
			c = filt.RawInt(cmpConstName[kind], 0)
		}
		if g.rng.Intn(5) == 0 {
			return filt.Bin(cmpToks[g.rng.Intn(2)], c, operand(kind, v))
		}
		if (kind == 1 || kind == 2) && g.rng.Intn(4) == 0 {
			v = "zs"
		}
		return filt.Bin(tok, operand(kind, v), c)
	}
	a := namedAtoms[g.rng.Intn(len(namedAtoms))]
	return filt.Call(a.path, a.v, filt.RawStr(a.name, ""))
}

func (g *gen) namedTree(depth int) *filt.DExpr {
	if depth <= 1 {
		return g.namedLeaf()
	}
	sub := func() *filt.DExpr {
		t := g.namedTree(depth - 1 - g.rng.Intn(2))
		if t.K == "binary" {
			return filt.Paren(t)
		}
		return t
	}
	switch g.rng.Intn(5) {
	case 0:
		return filt.Not(sub())
	case 1, 2:
		return filt.And(sub(), sub())
	default:
		return filt.Or(sub(), sub())
	}
}

func namesOf(d *filt.DExpr, into map[string]bool) {
	if d == nil {
		return
	}
	if d.Raw != "" {
		into[d.Raw] = true
	}
	namesOf(d.X, into)
	namesOf(d.Y, into)
	for _, a := range d.Args {
		namesOf(a, into)
	}
}

// inst: the template with every named constant replaced by the group's value (the spelling stays the name)
func inst(d *filt.DExpr, vals map[string]nval) *filt.DExpr {
	if d == nil {
		return nil
	}
	c := *d
	if d.Raw != "" {
		c.Z, c.S = vals[d.Raw].z, vals[d.Raw].s
	}
	c.X, c.Y = inst(d.X, vals), inst(d.Y, vals)
	c.Args = nil
	for _, a := range d.Args {
		c.Args = append(c.Args, inst(a, vals))
	}
	return &c
}

// literal: the same expression with the values written out (the key under which a predicate's verdicts were measured)
func literal(d *filt.DExpr) *filt.DExpr {
	if d == nil {
		return nil
	}
	c := *d
	c.Raw = ""
	c.X, c.Y = literal(d.X), literal(d.Y)
	c.Args = nil
	for _, a := range d.Args {
		c.Args = append(c.Args, literal(a))
	}
	return &c
}

// ---- literal spellings inside a local macro body
//
// irconv expands a group-local predicate function by copying its body; go/types knows nothing about the copy, so the
// constant value of every literal in it is re-created from the literal's spelling. Whatever the spelling, the literal must
// mean its Go value (or the group must be refused): 0644 is 420, 0x1F is 31, 1_000 is 1000, 'a' is 97, `a\d` is a\d.

const nIntStyles = 7

// spellInt: a Go literal of value z >= 0. 0 decimal, 1 legacy octal, 2 0o octal, 3 binary, 4 hexadecimal, 5 with
// underscores, 6 a character literal.
func spellInt(z int64, style int, rng *rand.Rand) string {
	switch style {
	case 1:
		return "0" + strconv.FormatInt(z, 8)
	case 2:
		return []string{"0o", "0O"}[rng.Intn(2)] + strconv.FormatInt(z, 8)
	case 3:
		return []string{"0b", "0B"}[rng.Intn(2)] + strconv.FormatInt(z, 2)
	case 4:
		h := strconv.FormatInt(z, 16)
		if rng.Intn(2) == 0 {
			return "0X" + strings.ToUpper(h)
		}
		return "0x" + h
	case 5:
		if d := strconv.FormatInt(z, 10); len(d) >= 2 {
			k := 1 + rng.Intn(len(d)-1)
			return d[:k] + "_" + d[k:]
		}
		k := rng.Intn(4)
		return []string{"0x_", "0_", "0o_", "0b_"}[k] + strconv.FormatInt(z, []int{16, 8, 8, 2}[k])
	case 6:
		switch {
		case z >= 32 && z < 127 && z != '\'' && z != '\\' && rng.Intn(3) > 0:
			return "'" + string(rune(z)) + "'"
		case z < 256 && rng.Intn(2) == 0:
			return fmt.Sprintf("'\\x%02x'", z)
		case z < 256:
			return fmt.Sprintf("'\\%03o'", z)
		case z < 0xD800 || z >= 0xE000 && z < 0x10000:
			return fmt.Sprintf("'\\u%04x'", z)
		case z >= 0x10000 && z < 0x110000:
			return fmt.Sprintf("'\\U%08x'", z)
		}
		return "0x" + strconv.FormatInt(z, 16) // not a character
	}
	return strconv.FormatInt(z, 10)
}

// spellStr: a Go string literal of value v. 0 interpreted, plain; 1 raw; 2 interpreted, with escapes.
func spellStr(v string, style int) string {
	switch style {
	case 1:
		if !strings.ContainsAny(v, "`\r") {
			return "`" + v + "`"
		}
	case 2:
		var sb strings.Builder
		sb.WriteByte('"')
		for i := 0; i < len(v); i++ {
			switch {
			case i%3 == 0:
				fmt.Fprintf(&sb, "\\x%02x", v[i])
			case i%3 == 1 && v[i] < 0x80:
				fmt.Fprintf(&sb, "\\u%04x", v[i])
			default:
				fmt.Fprintf(&sb, "\\%03o", v[i])
			}
		}
		sb.WriteByte('"')
		return sb.String()
	}
	return strconv.Quote(v)
}

type litInfo struct {
	Kind  string `json:"kind"` // INT CHAR STRING
	Lit   string `json:"lit"`
	Int   *int64 `json:"int,omitempty"`
	Plain bool   `json:"plain"`
}

// paramize: the instantiated tree with every constant replaced by a parameter name of name's choosing; text tells whether
// the constant is compared with a Text (its parameter then has the type of Text)
func paramize(d *filt.DExpr, text bool, name func(c *filt.DExpr, text bool) string) *filt.DExpr {
	if d == nil {
		return nil
	}
	c := *d
	if d.K == "int" || d.K == "str" {
		c.Raw = name(d, text)
		return &c
	}
	cmp := d.K == "binary" && (kindOfOperandOf(d.X) == 3 || kindOfOperandOf(d.Y) == 3)
	c.X = paramize(d.X, cmp, name)
	c.Y = paramize(d.Y, cmp, name)
	c.Args = nil
	for _, a := range d.Args {
		c.Args = append(c.Args, paramize(a, false, name))
	}
	return &c
}

func kindOfOperandOf(d *filt.DExpr) int {
	if d == nil || (d.K != "sel" && d.K != "call") {
		return -1
	}
	return kindOfOperand(d)
}

// respell: the instantiated tree with every constant written as a literal in a style of pick's choosing; spelled receives
// name -> literal for the constants that came from a name. plain: every literal is decimal resp. plainly quoted.
func respell(d *filt.DExpr, rng *rand.Rand, pick func(isStr bool) int, spelled map[string]string, lits *[]litInfo) (out *filt.DExpr, plain bool) {
	if d == nil {
		return nil, true
	}
	c := *d
	plain = true
	if d.K == "int" || d.K == "str" {
		lit := ""
		if d.K == "int" {
			lit = spellInt(d.Z, pick(false), rng)
			plain = lit == strconv.FormatInt(d.Z, 10)
			kind, tok := "INT", token.INT
			if lit[0] == '\'' {
				kind, tok = "CHAR", token.CHAR
			}
			// the value by construction must be the value Go gives the literal
			if v, ok := constant.Int64Val(constant.ToInt(constant.MakeFromLiteral(lit, tok, 0))); !ok || v != d.Z {
				fmt.Fprintf(os.Stderr, "literal %s does not have the value %d\n", lit, d.Z)
				os.Exit(3)
			}
			z := d.Z
			*lits = append(*lits, litInfo{Kind: kind, Lit: lit, Int: &z, Plain: plain})
		} else {
			lit = spellStr(d.S, pick(true))
			plain = lit == strconv.Quote(d.S)
			if v := constant.MakeFromLiteral(lit, token.STRING, 0); v.Kind() != constant.String || constant.StringVal(v) != d.S {
				fmt.Fprintf(os.Stderr, "literal %s does not have the value %q\n", lit, d.S)
				os.Exit(3)
			}
			*lits = append(*lits, litInfo{Kind: "STRING", Lit: lit, Plain: plain})
		}
		if d.Raw != "" {
			spelled[d.Raw] = lit
		}
		c.Raw = lit
		return &c, plain
	}
	var p bool
	c.X, p = respell(d.X, rng, pick, spelled, lits)
	plain = plain && p
	c.Y, p = respell(d.Y, rng, pick, spelled, lits)
	plain = plain && p
	c.Args = nil
	for _, a := range d.Args {
		ra, p := respell(a, rng, pick, spelled, lits)
		plain = plain && p
		c.Args = append(c.Args, ra)
	}
	return &c, plain
}

var mirrorTok = map[string]string{"LSS": "GTR", "GTR": "LSS", "LEQ": "GEQ", "GEQ": "LEQ", "EQL": "EQL", "NEQ": "NEQ"}

func kindOfOperand(d *filt.DExpr) int {
	switch d.Path {
	case "Line":
		return 0
	case "Type.Size":
		return 1
	case "Value.Int":
		return 2
	case "Text":
		return 3
	}
	return -1
}

func oracleTree(d *filt.DExpr, atomIndex map[string]int) *otree {
	switch d.K {
	case "paren":
		return oracleTree(d.X, atomIndex)
	case "unary":
		return &otree{K: "not", X: oracleTree(d.X, atomIndex)}
	case "binary":
		if d.Tok == "LAND" || d.Tok == "LOR" {
			k := "and"
			if d.Tok == "LOR" {
				k = "or"
			}
			return &otree{K: k, X: oracleTree(d.X, atomIndex), Y: oracleTree(d.Y, atomIndex)}
		}
		if kindOfOperandOf(d.X) >= 0 && kindOfOperandOf(d.Y) >= 0 {
			return &otree{K: "cmp2", Kind: kindOfOperand(d.X), Var: d.X.Var, Tok: d.Tok, Kind2: kindOfOperand(d.Y), Var2: d.Y.Var}
		}
		op, c, tok := d.X, d.Y, d.Tok
		if d.X.K == "int" || d.X.K == "str" {
			op, c, tok = d.Y, d.X, mirrorTok[d.Tok]
		}
		o := &otree{K: "cmp", Kind: kindOfOperand(op), Var: op.Var, Tok: tok}
		if c.K == "int" {
			z := c.Z
			o.Int = &z
		} else {
			sv := c.S
			o.Str = &sv
		}
		return o
	default:
		i, ok := atomIndex[literal(d).Coq()]
		if !ok {
			fmt.Fprintf(os.Stderr, "no measured atom for %s\n", literal(d).Go())
			os.Exit(3)
		}
		return &otree{K: "atom", Atom: i}
	}
}

func main() {
	seed := flag.Int64("seed", 1, "PRNG seed")
	ntrees := flag.Int("trees", 300, "random trees")
	nfam := flag.Int("families", 24, "law families")
	nshared := flag.Int("shared", 8, "random-tree shared-spelling families (groups with equally spelled filters over differently valued named constants), on top of one family per kind of constant-carrying filter")
	tmp := flag.String("tmp", "", "scratch directory")
	flag.Parse()
	enc := json.NewEncoder(os.Stdout)
	rng := rand.New(rand.NewSource(*seed))

	// ---- the analysed files: one whose bytes are on disk, one that exists in memory only, one whose saved version is an
	// older, shorter one (the engine slices the captures that lie inside it and prints the others)
	var tgts []*tgt
	nSites := 0
	addTarget := func(name string, specs []siteSpec, sizes types.Sizes, gover string, t *hutil.Target, err error) {
		if err != nil {
			fmt.Fprintln(os.Stderr, err)
			os.Exit(3)
		}
		tg := &tgt{name: name, t: t, specs: specs, base: nSites, sizes: sizes, gover: gover}
		tg.byPos, tg.byJ = filt.IndexSites(t)
		for j := 0; j < W; j++ {
			if len(tg.byJ[j]) != len(specs) {
				fmt.Fprintf(os.Stderr, "site index broken: %s p%d has %d sites\n", name, j, len(tg.byJ[j]))
				os.Exit(3)
			}
		}
		nSites += len(specs)
		tgts = append(tgts, tg)
	}
	diskSrc, _ := targetSource(siteSpecs, false)
	t, err := hutil.CheckTarget(*tmp, "target/target.go", []byte(diskSrc))
	amd64, i386 := types.SizesFor("gc", "amd64"), types.SizesFor("gc", "386")
	addTarget("disk", siteSpecs, amd64, "", t, err)
	detSrc, rowStart := targetSource(detachedSpecs, true)
	mt, err := filt.CheckDetachedTarget(filepath.Join(*tmp, "detached", "never_saved.go"), []byte(detSrc), nil)
	addTarget("mem", detachedSpecs, i386, "1.18", mt, err) // analysed for a 32-bit platform: other sizes of int, pointers, slices, strings
	st, err := filt.CheckDetachedTarget(filepath.Join(*tmp, "detached", "older_on_disk.go"), []byte(detSrc), []byte(detSrc[:rowStart[len(detachedSpecs)/2]]))
	addTarget("stale", detachedSpecs, amd64, "1.21", st, err)

	// runTargets runs the engine over the targets in order (one sequence of matches: a panic ends it)
	var runTargetsDebug func(e *ruleguard.Engine, debug string, sink func(r hutil.Report, j, site int)) (string, []string)
	runTargets := func(e *ruleguard.Engine, sink func(r hutil.Report, j, site int)) string {
		pmsg, _ := runTargetsDebug(e, "", sink)
		return pmsg
	}
	// runTargetsDebug: the same with RunContext.Debug = debug and DebugPrint collecting the lines
	runTargetsDebug = func(e *ruleguard.Engine, debug string, sink func(r hutil.Report, j, site int)) (string, []string) {
		var lines []string
		for _, tg := range tgts {
			reports, pmsg := runWithSizes(e, tg.t, tg.sizes, tg.gover, debug, &lines)
			for _, r := range reports {
				s := tg.byPos[r.Pos]
				if s == nil {
					fmt.Fprintf(os.Stderr, "report cannot be attributed: %s %+v\n", tg.name, r)
					os.Exit(3)
				}
				sink(r, s.J, tg.base+s.I)
			}
			if pmsg != "" {
				return pmsg, lines
			}
		}
		return "", lines
	}

	// what the engine itself says the text of each capture is: `$x`, `$y`, `$$` interpolated into a report message
	const textSep = " <|> "
	engineText := map[[2]int][]string{}
	{
		rules := make([]filt.Rule, W)
		for j := range rules {
			rules[j] = filt.Rule{Name: fmt.Sprintf("t%d", j), Pattern: fmt.Sprintf("p%d($x, $y, $*zs)", j), Report: "$x" + textSep + "$y" + textSep + "$$"}
		}
		e, lerr := filt.Load(t.Fset, filt.RulesFile("", rules))
		if lerr != nil {
			fmt.Fprintln(os.Stderr, "text probe rules:", lerr)
			os.Exit(3)
		}
		pmsg := runTargets(e, func(r hutil.Report, j, site int) {
			parts := strings.Split(r.Message, textSep)
			if len(parts) != 3 || r.Group != fmt.Sprintf("t%d", j) {
				fmt.Fprintf(os.Stderr, "text probe: unexpected report %+v\n", r)
				os.Exit(3)
			}
			engineText[[2]int{site, j}] = parts
		})
		if pmsg != "" {
			fmt.Fprintln(os.Stderr, "text probe rules panic:", pmsg)
			os.Exit(3)
		}
	}

	lineSet := map[int]bool{}
	textSet := map[string]bool{}
	factsAt := map[[2]int]siteFacts{}
	type respelt struct {
		v, text string
	}
	var respelled []respelt // captures whose Text is not their source spelling
	for _, tg := range tgts {
		t, sizes := tg.t, tg.sizes
		// the bytes the file system holds at the target's path
		disk, _ := os.ReadFile(t.Path)
		enc.Encode(map[string]interface{}{"k": "file", "target": tg.name, "first_site": tg.base, "sites": len(tg.specs), "disk": string(disk)})
		for j := 0; j < W; j++ {
			for _, s := range tg.byJ[j] {
				x, y := s.Call.Args[0], s.Call.Args[1]
				et := engineText[[2]int{tg.base + s.I, j}]
				if et == nil {
					fmt.Fprintf(os.Stderr, "text probe: no report for site %d of %s p%d\n", s.I, tg.name, j)
					os.Exit(3)
				}
				f := siteFacts{K: "site", I: tg.base + s.I, J: j, LineX: t.Fset.Position(x.Pos()).Line, LineY: t.Fset.Position(y.Pos()).Line,
					X: valOf(t, sizes, x), Y: valOf(t, sizes, y), TextX: et[0], TextY: et[1], Rest: []val{},
					LineM: t.Fset.Position(s.Call.Pos()).Line, TextM: et[2],
					Target: tg.name, SrcX: filt.Text(t, x), SrcY: filt.Text(t, y), SrcM: filt.Text(t, s.Call)}
				for _, r := range s.Call.Args[2:] {
					f.Rest = append(f.Rest, valOf(t, sizes, r))
				}
				if j == 0 {
					for _, n := range []ast.Node{x, y, s.Call} {
						f.Ext = append(f.Ext, t.Fset.Position(n.Pos()).Offset, t.Fset.Position(n.End()).Offset)
						var buf bytes.Buffer
						if err := printer.Fprint(&buf, t.Fset, n); err != nil {
							fmt.Fprintln(os.Stderr, "go/printer:", err)
							os.Exit(3)
						}
						f.Print = append(f.Print, buf.String())
					}
				}
				enc.Encode(f)
				factsAt[[2]int{f.I, j}] = f
				lineSet[f.LineX] = true
				textSet[f.TextX] = true
				textSet[f.TextY] = true
				if j == 0 {
					// the source spellings are constants too: where the Text is something else they must not compare equal
					textSet[f.SrcX] = true
					textSet[f.SrcY] = true
					if f.TextX != f.SrcX && !strings.ContainsAny(f.TextX, "`\n") {
						respelled = append(respelled, respelt{"x", f.TextX})
					}
					if f.TextY != f.SrcY && !strings.ContainsAny(f.TextY, "`\n") {
						respelled = append(respelled, respelt{"y", f.TextY})
					}
				}
			}
		}
	}
	g := &gen{rng: rng, atoms: atomPool(), nbase: len(baseAtoms())}
	for l := range lineSet {
		g.lines = append(g.lines, l)
	}
	sort.Ints(g.lines)
	for s := range textSet {
		if !strings.ContainsAny(s, "`\n") {
			g.texts = append(g.texts, s)
		}
	}
	sort.Strings(g.texts)
	g.texts = append(g.texts, "ab", "abcd", "zzz", "")

	// ---- the rule list
	var cases []*ruleCase
	famIndex := -1
	atomIndex := map[string]int{}
	for i, a := range g.atoms {
		atomIndex[a.d.Coq()] = i
	}
	add := func(family, role string, d *filt.DExpr, atomIdx int) {
		c := &ruleCase{K: "rule", Idx: len(cases), Family: family, Role: role, Src: d.Go(), Coq: d.Coq(), Atom: atomIdx, d: d, Accept: []int{}}
		if family != "atom" {
			// every generated filter in the form the check's own evaluator reads (Go's operators over the go/types facts)
			c.Tree = oracleTree(d, atomIndex)
		}
		c.wantJ = len(cases) % W
		c.group = fmt.Sprintf("b%d", len(cases)/W)
		if famIndex >= 0 {
			c.wantJ = famIndex % W
			c.group = fmt.Sprintf("%s-%s-%d", family[:3], role, famIndex/W)
		}
		cases = append(cases, c)
	}
	for i, a := range g.atoms {
		add("atom", fmt.Sprint(i), a.d, i)
	}
	for i := 0; i < *ntrees; i++ {
		depth := 2 + rng.Intn(4)
		add("tree", "", g.tree(depth, rng.Intn(5) == 0), -1)
	}
	for f := 0; f < *nfam; f++ {
		fam := fmt.Sprintf("conn%d", f)
		famIndex = f
		F := g.sub(1+rng.Intn(3), false)
		G := g.sub(1+rng.Intn(3), false)
		add(fam, "F", F, -1)
		add(fam, "G", G, -1)
		add(fam, "notF", filt.Not(F), -1)
		add(fam, "and", filt.And(F, G), -1)
		add(fam, "or", filt.Or(F, G), -1)
		add(fam, "not_and", filt.Not(filt.Paren(filt.And(F, G))), -1)
		add(fam, "or_not", filt.Or(filt.Not(F), filt.Not(G)), -1)
		add(fam, "notnotF", filt.Not(filt.Not(F)), -1)
		// short circuit: the right operand panics whenever it is consulted
		boom := filt.Call("Filter", "y", filt.Ident("boom"))
		add(fam, "and_boom", filt.And(F, boom), -1)
		add(fam, "or_boom", filt.Or(F, boom), -1)
	}
	// ---- file-level operands FIRST: a predicate about the file (or the Go version) as the leftmost operand of a filter, under `||`
	// as well as under `&&`, nested on either side: the files in which it is false still have the matches the other operands
	// accept (an engine that decides per file from the first operand may only do so when every operator above it is `&&`)
	for f, fa := range fileAtoms() {
		fam := fmt.Sprintf("filelead%d", f)
		famIndex = f
		F := fa.d
		// A, B: operands over the captures that accept some sites and reject others (redrawn per family)
		A, B := g.sub(1, false), g.sub(1+rng.Intn(2), false)
		add(fam, "F_or_A", filt.Or(F, A), -1)
		add(fam, "F_or_AaB", filt.Or(F, filt.And(A, B)), -1)
		add(fam, "pFoA_and_B", filt.And(filt.Paren(filt.Or(F, A)), B), -1)
		add(fam, "pFaA_or_B", filt.Or(filt.Paren(filt.And(F, A)), B), -1)
		add(fam, "FaA_or_B", filt.Or(filt.And(F, A), B), -1)
		add(fam, "FoA_or_B", filt.Or(filt.Or(F, A), B), -1)
		add(fam, "ppFoA_or_B", filt.Or(filt.Paren(filt.Paren(filt.Or(F, A))), B), -1)
		add(fam, "pF_or_A", filt.Or(filt.Paren(F), A), -1)
		add(fam, "not_FaA", filt.Not(filt.Paren(filt.And(F, A))), -1)
		add(fam, "notF_or_A", filt.Or(filt.Not(F), A), -1)
		add(fam, "A_or_F", filt.Or(A, F), -1)
		add(fam, "F_and_A", filt.And(F, A), -1)
		add(fam, "F_and_pAoB", filt.And(F, filt.Paren(filt.Or(A, B))), -1)
		add(fam, "F_or_notA", filt.Or(F, filt.Not(A)), -1)
		add(fam, "F_or_F2", filt.Or(F, fileAtoms()[(f+1)%len(fileAtoms())].d), -1)
	}
	// ---- guard families: a predicate that is only defined behind its guard (it dereferences the slice type the guard established)
	// must never be consulted where the guard decides
	for f := 0; f < (*nfam+5)/6; f++ {
		fam := fmt.Sprintf("guard%d", f)
		famIndex = f
		F := g.sub(1+rng.Intn(2), false)
		guarded := filt.And(guardAtom, guardedAtom)
		add(fam, "guarded", guarded, -1)
		add(fam, "guarded_or", filt.Or(filt.Not(guardAtom), guardedAtom), -1)
		add(fam, "not_guarded", filt.Not(filt.Paren(guarded)), -1)
		if f%2 == 0 {
			add(fam, "guarded_more", filt.And(filt.Paren(guarded), F), -1)
		} else {
			add(fam, "guarded_more", filt.Or(F, filt.Paren(filt.And(guardAtom, filt.Not(guardedAtom)))), -1)
		}
		add(fam, "three", filt.And(filt.And(guardAtom, guardedAtom), filt.Not(F)), -1)
		// without the guard the run ends on the first match that reaches the predicate with something that is not a slice
		add(fam, "unguarded", filt.And(F, guardedAtom), -1)
	}
	for f := 0; f < *nfam; f++ {
		fam := fmt.Sprintf("cmp%d", f)
		famIndex = f
		kind := f % 4
		v := []string{"x", "y"}[rng.Intn(2)]
		if kind == 3 && f%8 == 7 {
			v = "$$"
		}
		c := g.constFor(kind)
		if kind == 3 && (f/4)%2 == 0 && len(respelled) > 0 {
			// a capture whose Text is not its source spelling (the engine printed the node); the constant is that Text
			r := respelled[rng.Intn(len(respelled))]
			v, c = r.v, filt.Str(r.text)
		}
		if kind == 0 {
			// a line of this family's own probe column; every third family aims at a capture spanning several lines
			si := rng.Intn(len(siteSpecs))
			delta := rng.Intn(3) - 1
			if f%3 == 0 {
				// the multi-line x (second to last site) resp. the multi-line y (last site); constant inside the span
				si = len(siteSpecs) - 2
				v = "x"
				if f%6 != 0 {
					si = len(siteSpecs) - 1
					v = "y"
				}
				delta = rng.Intn(2)
			}
			if f%3 != 0 && f%5 == 4 {
				v = "$$"
			}
			fa := factsAt[[2]int{si, f % W}]
			ln := fa.LineX
			if v == "y" {
				ln = fa.LineY
			}
			if v == "$$" {
				ln = fa.LineM
			}
			c = filt.Int(int64(ln + delta))
		}
		first := len(cases)
		for _, tok := range cmpToks {
			add(fam, "v"+tok, filt.Bin(tok, operand(kind, v), c), -1)
			add(fam, "c"+tok, filt.Bin(tok, c, operand(kind, v)), -1) // constant on the left
			add(fam, "w"+tok, filt.Bin(tok, operand(kind, "x"), operand(kind, "y")), -1)
		}
		add(fam, "notGEQ", filt.Not(filt.Paren(filt.Bin("GEQ", operand(kind, v), c))), -1)
		add(fam, "notLEQ", filt.Not(filt.Paren(filt.Bin("LEQ", operand(kind, v), c))), -1)
		add(fam, "notEQL", filt.Not(filt.Paren(filt.Bin("EQL", operand(kind, v), c))), -1)
		// comparing values of different kinds
		other := (kind + 1) % 3
		if kind == 3 {
			other = 3
		}
		ci := &cmpInfo{Kind: kind, Var: v, Other: other}
		if c.K == "int" {
			z := c.Z
			ci.Int = &z
		} else {
			sv := c.S
			ci.Str = &sv
		}
		if other != kind {
			add(fam, "mixed", filt.Bin("EQL", operand(kind, "x"), operand(other, "y")), -1)
		}
		for _, rc := range cases[first:] {
			rc.Cmp = ci
		}
	}
	// ---- chains of look-alike operands over different captures (chains.go): every kind x operator x connective each run,
	// each also negated as a whole; then chains of one predicate
	famIndex = -1
	cg := &chainGen{g: g, rng: rng, factsAt: factsAt, nSites: nSites}
	nchain := 0
	for kind := 0; kind < 4; kind++ {
		for ti, tok := range cmpToks {
			for ci, conn := range []string{"LOR", "LAND"} {
				n := 3 + rng.Intn(3)
				assoc := (kind + ti + ci) % 3
				mixed := (kind*12+ti*2+ci)%5 == 4
				d := cg.cmpChain(kind, tok, conn, n, len(cases)%W, assoc, mixed)
				add(fmt.Sprintf("chain%d", nchain), "chain", d, -1)
				d2 := cg.cmpChain(kind, tok, conn, n, len(cases)%W, (assoc+1)%3, false)
				add(fmt.Sprintf("chain%d", nchain), "not_chain", filt.Not(filt.Paren(d2)), -1)
				nchain++
			}
		}
	}
	for k := 0; k < 8; k++ {
		add(fmt.Sprintf("chain%d", nchain), "chain", cg.predChain([]string{"LOR", "LAND"}[k%2], 3+rng.Intn(2), k%3), -1)
		nchain++
	}

	// ---- shared-spelling families
	famIndex = -1
	const G = 6
	type sharedFam struct {
		members  []*ruleCase
		fileSrc  [2]string // file-level constant declarations per file
		twoFiles bool
	}
	var sharedFams []*sharedFam
	// values that occur at the probe sites (so that == hits something and orderings split the sites)
	var sizePool, numPool []int64
	{
		ss, ns := map[int64]bool{}, map[int64]bool{}
		for i := 0; i < nSites; i++ {
			fa := factsAt[[2]int{i, 0}]
			for _, v := range []val{fa.X, fa.Y} {
				if v.Size != nil {
					ss[*v.Size] = true
				}
				if v.Int != nil {
					if z, err := strconv.ParseInt(*v.Int, 10, 64); err == nil {
						ns[z] = true
					}
				}
			}
		}
		for z := range ss {
			sizePool = append(sizePool, z)
		}
		for z := range ns {
			numPool = append(numPool, z)
		}
		sort.Slice(sizePool, func(a, b int) bool { return sizePool[a] < sizePool[b] })
		sort.Slice(numPool, func(a, b int) bool { return numPool[a] < numPool[b] })
	}
	valueFor := func(name string, j int) nval {
		switch name {
		case "ln":
			fa := factsAt[[2]int{rng.Intn(nSites), j}]
			return nval{z: int64(fa.LineX + rng.Intn(3) - 1)}
		case "limit":
			return nval{z: sizePool[rng.Intn(len(sizePool))]}
		case "num":
			return nval{z: numPool[rng.Intn(len(numPool))]}
		case "name":
			if len(respelled) > 0 && rng.Intn(2) == 0 {
				return nval{s: respelled[rng.Intn(len(respelled))].text, str: true}
			}
			return nval{s: g.texts[rng.Intn(len(g.texts))], str: true}
		}
		for _, na := range namedAtoms {
			if na.name == name {
				return nval{s: na.values[rng.Intn(len(na.values))], str: true}
			}
		}
		panic("unknown constant name " + name)
	}
	declare := func(name string, v nval) string {
		if typedConst[name] {
			return fmt.Sprintf("const %s string = %s\n", name, v.golit())
		}
		return fmt.Sprintf("const %s = %s\n", name, v.golit())
	}
	// every kind of filter whose IR carries a folded constant, bare (constant on either side for comparisons, a list
	// capture for the two kinds that lift), then random trees over them
	var bare []*filt.DExpr
	for kind := 0; kind < 4; kind++ {
		c := filt.RawInt(cmpConstName[kind], 0)
		if kind == 3 {
			c = filt.RawStr(cmpConstName[kind], "")
		}
		v := []string{"x", "y"}[rng.Intn(2)]
		bare = append(bare, filt.Bin(cmpToks[rng.Intn(6)], operand(kind, v), c), filt.Bin(cmpToks[rng.Intn(2)], c, operand(kind, v)))
		if kind == 1 || kind == 2 {
			bare = append(bare, filt.Bin(cmpToks[2+rng.Intn(4)], operand(kind, "zs"), c))
		}
	}
	for _, a := range namedAtoms {
		bare = append(bare, filt.Call(a.path, a.v, filt.RawStr(a.name, "")))
	}
	// families whose groups reach the filter through a local macro and spell its literals in the six non-decimal ways
	// (member k in style k) resp. as raw / escaped strings; every other one negates the macro call
	maclit := []*filt.DExpr{
		filt.Bin("EQL", operand(2, "x"), filt.RawInt("num", 0)),
		filt.Bin("EQL", operand(1, "y"), filt.RawInt("limit", 0)),
		filt.Bin("LEQ", operand(0, "x"), filt.RawInt("ln", 0)),
		filt.Bin("NEQ", filt.RawInt("num", 0), operand(2, "y")),
		filt.Bin("EQL", operand(3, "x"), filt.RawStr("name", "")),
		filt.Call("Text.Matches", "y", filt.RawStr("pat", "")),
		filt.And(filt.Bin("GEQ", operand(2, "zs"), filt.RawInt("num", 0)), filt.Not(filt.Paren(filt.Bin("LSS", operand(1, "x"), filt.RawInt("limit", 0))))),
	}
	// families whose groups hand the constants to the local macro as ARGUMENTS (literals in every spelling, parenthesised, or
	// the name of a local constant): an argument comes from the type-checked file, so every spelling must load and mean its value,
	// and it must land in the parameter it is written for
	argmac := []*filt.DExpr{
		filt.And(filt.Bin("EQL", operand(2, "x"), filt.RawInt("num", 0)), filt.Bin("GEQ", operand(1, "y"), filt.RawInt("limit", 0))),
		filt.Or(filt.Bin("EQL", operand(3, "x"), filt.RawStr("name", "")), filt.Call("Text.Matches", "y", filt.RawStr("pat", ""))),
		filt.Bin("LSS", operand(1, "x"), filt.RawInt("limit", 0)),
		filt.Or(filt.Bin("LEQ", operand(0, "x"), filt.RawInt("ln", 0)), filt.Not(filt.Paren(filt.Bin("NEQ", filt.RawInt("num", 0), operand(2, "zs"))))),
	}
	styledInt := []int{1, 2, 4, 3, 5, 6}
	styledStr := []int{1, 2, 1, 2, 0, 1}
	for f := 0; f < len(bare)+len(maclit)+len(argmac)+*nshared; f++ {
		fam := fmt.Sprintf("shared%d", f)
		var tmpl *filt.DExpr
		styled, argMode := false, false
		switch {
		case f < len(bare):
			tmpl = bare[f]
		case f < len(bare)+len(maclit):
			tmpl = maclit[f-len(bare)]
			styled = true
		case f < len(bare)+len(maclit)+len(argmac):
			tmpl = argmac[f-len(bare)-len(maclit)]
			argMode = true
		default:
			tmpl = g.namedTree(2 + rng.Intn(2))
			argMode = f%8 == 6
		}
		used := map[string]bool{}
		namesOf(tmpl, used)
		var names []string
		for n := range used {
			names = append(names, n)
		}
		sort.Strings(names)
		sf := &sharedFam{twoFiles: f%2 == 1}
		// every fourth family reaches the filter through a group-local macro function `cond` (expanded by irconv):
		// the call is spelled identically in all groups, the bodies differ in their literal constants
		macro := f%4 == 2 || styled || argMode
		negated := styled && f%2 == 1
		// which names are file-level constants (shadowed by some groups only)
		fileLevel := map[string]bool{}
		fileVals := [2]map[string]nval{{}, {}}
		for _, n := range names {
			if n != "ln" && rng.Intn(3) == 0 { // (a line constant is only meaningful for one probe column)
				fileLevel[n] = true
				for fi := 0; fi < 2; fi++ {
					v := valueFor(n, (f*G)%W)
					fileVals[fi][n] = v
					sf.fileSrc[fi] += declare(n, v)
				}
			}
		}
		var prevVals map[string]nval
		for k := 0; k < G; k++ {
			j := (f*G + k) % W
			fileNo := 0
			if sf.twoFiles && k >= G/2 {
				fileNo = 1
			}
			var vals map[string]nval
			var locals string
			for try := 0; try < 6; try++ {
				vals = map[string]nval{}
				locals = ""
				for _, n := range names {
					if !macro && fileLevel[n] && rng.Intn(2) == 0 {
						vals[n] = fileVals[fileNo][n]
						continue
					}
					v := valueFor(n, j)
					for macro && !v.str && v.z < 0 {
						// irconv's macro expansion copies the body and re-creates constant values for literals only:
						// a negative constant (`-3`: a unary expression) inside a macro body is refused at load
						v = valueFor(n, j)
					}
					vals[n] = v
					locals += "\t" + declare(n, v)
				}
				// neighbouring groups get different values (a line constant alone differs anyway: other column)
				differs := k == 0
				if k > 0 {
					for _, n := range names {
						if n != "ln" && prevVals[n] != vals[n] {
							differs = true
						}
					}
				}
				if differs {
					break
				}
			}
			prevVals = vals
			d := inst(tmpl, vals)
			whereSrc := ""
			spelled := map[string]string{}
			plain := true
			var lits []litInfo
			if argMode {
				var params, args []string
				consts := ""
				body := paramize(d, false, func(c *filt.DExpr, text bool) string {
					name := fmt.Sprintf("c%d", len(params))
					var arg string
					switch {
					case c.K == "int":
						params = append(params, name+" int")
						arg = spellInt(c.Z, rng.Intn(nIntStyles), rng)
					case text:
						params = append(params, name+" dsl.MatchedText")
						arg = spellStr(c.S, rng.Intn(3))
					default:
						params = append(params, name+" string")
						arg = spellStr(c.S, rng.Intn(3))
					}
					switch rng.Intn(4) {
					case 0:
						arg = "(" + arg + ")"
					case 1:
						// the name of a constant of the group
						kn := fmt.Sprintf("k%s", name)
						if c.K == "str" && !text {
							consts += fmt.Sprintf("\tconst %s string = %s\n", kn, arg)
						} else {
							consts += fmt.Sprintf("\tconst %s = %s\n", kn, arg)
						}
						arg = kn
					}
					if c.Raw != "" {
						spelled[c.Raw] = arg
					}
					args = append(args, arg)
					return name
				})
				src := strings.NewReplacer(`m["x"]`, "x", `m["y"]`, "y", `m["zs"]`, "zs").Replace(body.Go())
				locals = consts + "\tcond := func(x, y, zs dsl.Var, " + strings.Join(params, ", ") + ") bool { return " + src + " }\n"
				whereSrc = `cond(m["x"], m["y"], m["zs"], ` + strings.Join(args, ", ") + ")"
				d = literal(d)
			} else if macro {
				// (irconv cannot see constant values of identifiers inside a macro body: the body spells the literals)
				d, plain = respell(d, rng, func(isStr bool) int {
					switch {
					case styled && isStr:
						return styledStr[k]
					case styled:
						return styledInt[k]
					case isStr:
						return []int{0, 0, 1, 2}[rng.Intn(4)]
					case rng.Intn(5) < 2:
						return 0
					}
					return 1 + rng.Intn(nIntStyles-1)
				}, spelled, &lits)
				body := strings.NewReplacer(`m["x"]`, "x", `m["y"]`, "y", `m["zs"]`, "zs").Replace(d.Go())
				locals = "\tcond := func(x, y, zs dsl.Var) bool { return " + body + " }\n"
				whereSrc = `cond(m["x"], m["y"], m["zs"])`
				if negated {
					d = filt.Not(filt.Paren(d))
					whereSrc = "!" + whereSrc
				}
			}
			c := &ruleCase{K: "rule", Idx: len(cases), Family: fam, Role: fmt.Sprintf("g%d", k), Src: d.Go(), Coq: d.Coq(), Atom: -1, d: d, whereSrc: whereSrc,
				Accept: []int{}, Locals: locals, FileNo: fileNo, FileConsts: sf.fileSrc[fileNo], Tree: oracleTree(d, atomIndex),
				Values: map[string]string{}, wantJ: j, group: "shared", solo: false, MayRefuse: !plain, Lits: lits, ArgMacro: argMode}
			for n, v := range vals {
				c.Values[n] = v.golit()
				if lit, ok := spelled[n]; ok && lit != v.golit() {
					c.Values[n] = lit + "  (= " + v.golit() + ")"
				}
			}
			if macro {
				c.Src = whereSrc
			}
			cases = append(cases, c)
			sf.members = append(sf.members, c)
		}
		sharedFams = append(sharedFams, sf)
	}

	for _, c := range cases {
		if c.group == "shared" {
			continue
		}
		if hasPanicAtom(c.d) || strings.HasPrefix(c.Role, "c") && c.Role != "cEQL" && c.Role != "cNEQ" && strings.HasPrefix(c.Family, "cmp") || c.Role == "mixed" {
			c.solo = true
		}
	}

	// ---- run: one engine per group key (solo rules alone); members keep their probe function
	runBatch := func(batch []*ruleCase) {
		rules := make([]filt.Rule, len(batch))
		for k, c := range batch {
			c.J = c.wantJ
			rules[k] = filt.Rule{Name: fmt.Sprintf("g%d", c.Idx), Pattern: fmt.Sprintf("p%d($x, $y, $*zs)", c.J), Where: c.d}
		}
		src := filt.RulesFile(prelude+constPrelude, rules)
		irf, cerr := filt.ConvertRules(src)
		if cerr == nil {
			byName := map[string]int{}
			for gi, grp := range irf.RuleGroups {
				byName[grp.Name] = gi
			}
			for _, c := range batch {
				if gi, ok := byName[fmt.Sprintf("g%d", c.Idx)]; ok && len(irf.RuleGroups[gi].Rules) == 1 {
					c.IR = filt.CoqFExpr(irf.RuleGroups[gi].Rules[0].WhereExpr)
				}
			}
		}
		e, lerr := filt.Load(t.Fset, src)
		if lerr != nil {
			if len(batch) == 1 {
				batch[0].LoadErr = lerr.Error()
				return
			}
			// isolate the offender(s)
			for _, c := range batch {
				runBatchOne(c)
			}
			return
		}
		idx := map[string]*ruleCase{}
		for _, c := range batch {
			idx[fmt.Sprintf("g%d", c.Idx)] = c
		}
		pmsg := runTargets(e, func(r hutil.Report, j, site int) {
			c := idx[r.Group]
			if c == nil || j != c.J {
				fmt.Fprintf(os.Stderr, "report cannot be attributed: %+v\n", r)
				os.Exit(3)
			}
			c.Accept = append(c.Accept, site)
		})
		if pmsg != "" {
			for _, c := range batch {
				c.Panic = pmsg
			}
		}
		// ---- the same engine with RunContext.Debug set: a solo rule with its own group and with a group the engine does not
		// have; a batch with the group of one member (its neighbours are then run "while another group is being debugged")
		type dbgRun struct{ kind, group string }
		var runs []dbgRun
		own := fmt.Sprintf("g%d", batch[debugPick%len(batch)].Idx)
		debugPick++
		if len(batch) == 1 {
			runs = []dbgRun{{"own", own}, {"none-of-the-engine", "nosuchgroup"}}
		} else if debugBatches {
			runs = []dbgRun{{"other", own}}
		}
		for _, dr := range runs {
			acc := map[int][]int{}
			dpmsg, lines := runTargetsDebug(e, dr.group, func(r hutil.Report, j, site int) {
				c := idx[r.Group]
				if c == nil || j != c.J {
					fmt.Fprintf(os.Stderr, "report cannot be attributed: %+v\n", r)
					os.Exit(3)
				}
				acc[c.Idx] = append(acc[c.Idx], site)
			})
			// the lines DebugPrint received: "<file>:<line>: [rules.go:<line>] rejected by <reason>" per rejected match of the group
			rejects := 0
			reasons := map[string]bool{}
			for _, ln := range lines {
				if k := strings.Index(ln, "] rejected by "); k >= 0 && !strings.HasPrefix(ln, "  $") {
					rejects++
					reasons[ln[k+len("] rejected by "):]] = true
				}
			}
			for _, c := range batch {
				res := dbgRes{Debug: dr.kind, Group: dr.group, Accept: append([]int{}, acc[c.Idx]...), Panic: dpmsg}
				if fmt.Sprintf("g%d", c.Idx) == dr.group {
					res.Debug = "own"
					res.Rejects = rejects
					for r := range reasons {
						res.Reasons = append(res.Reasons, r)
					}
					sort.Strings(res.Reasons)
				} else {
					res.Rejects = -1
				}
				c.Dbg = append(c.Dbg, res)
			}
		}
	}
	runBatchOne = func(c *ruleCase) {
		c.Accept = []int{}
		c.Dbg = nil
		runBatch([]*ruleCase{c})
	}
	groups := map[string][]*ruleCase{}
	var order []string
	for _, c := range cases {
		if c.solo || c.group == "shared" {
			continue
		}
		if _, ok := groups[c.group]; !ok {
			order = append(order, c.group)
		}
		groups[c.group] = append(groups[c.group], c)
	}
	for _, k := range order {
		used := map[int]bool{}
		for _, c := range groups[k] {
			if used[c.wantJ] {
				fmt.Fprintf(os.Stderr, "group %s binds p%d twice\n", k, c.wantJ)
				os.Exit(3)
			}
			used[c.wantJ] = true
		}
		runBatch(groups[k])
	}
	for _, c := range cases {
		if c.solo {
			runBatch([]*ruleCase{c})
		}
	}
	// ---- shared-spelling families: all groups of a family in one engine (one or two rules files), then each group alone
	runFiles := func(members []*ruleCase, fileSrc [2]string) (accept map[int][]int, loadErr, panicMsg string) {
		accept = map[int][]int{}
		var perFile [2][]filt.Rule
		idx := map[string]*ruleCase{}
		for _, c := range members {
			c.J = c.wantJ
			name := fmt.Sprintf("g%d", c.Idx)
			idx[name] = c
			perFile[c.FileNo] = append(perFile[c.FileNo], filt.Rule{Name: name, Pattern: fmt.Sprintf("p%d($x, $y, $*zs)", c.J), Where: c.d, WhereSrc: c.whereSrc, Locals: c.Locals})
		}
		var names []string
		srcs := map[string]string{}
		for fi := 0; fi < 2; fi++ {
			if len(perFile[fi]) == 0 {
				continue
			}
			name := fmt.Sprintf("rules%d.go", fi)
			names = append(names, name)
			srcs[name] = filt.RulesFile("\n"+fileSrc[fi], perFile[fi])
			if irf, cerr := filt.ConvertRules(srcs[name]); cerr == nil {
				for gi := range irf.RuleGroups {
					if c := idx[irf.RuleGroups[gi].Name]; c != nil && len(irf.RuleGroups[gi].Rules) == 1 && c.IR == "" {
						c.IR = filt.CoqFExpr(irf.RuleGroups[gi].Rules[0].WhereExpr)
					}
				}
			}
		}
		e, lerr := filt.LoadFiles(t.Fset, names, srcs)
		if lerr != nil {
			return accept, lerr.Error(), ""
		}
		pmsg := runTargets(e, func(r hutil.Report, j, site int) {
			c := idx[r.Group]
			if c == nil || j != c.J {
				fmt.Fprintf(os.Stderr, "report cannot be attributed: %+v\n", r)
				os.Exit(3)
			}
			accept[c.Idx] = append(accept[c.Idx], site)
		})
		return accept, "", pmsg
	}
	for _, sf := range sharedFams {
		var together []*ruleCase
		for _, c := range sf.members {
			a, le, pm := runFiles([]*ruleCase{c}, sf.fileSrc)
			c.Alone = &aloneRes{Accept: append([]int{}, a[c.Idx]...), LoadErr: le, Panic: pm}
			if le != "" && c.MayRefuse {
				// a literal spelling the engine does not take: the group is refused, the others share the engine without it
				c.Left, c.LoadErr = true, le
				continue
			}
			together = append(together, c)
		}
		acc, lerr, pmsg := runFiles(together, sf.fileSrc)
		for _, c := range together {
			c.Accept = append([]int{}, acc[c.Idx]...)
			c.LoadErr, c.Panic = lerr, pmsg
		}
	}

	for _, c := range cases {
		enc.Encode(c)
	}
	type meta struct {
		K      string `json:"k"`
		Sites  int    `json:"sites"`
		W      int    `json:"w"`
		Rules  int    `json:"rules"`
		Atoms  int    `json:"atoms"`
		Panics []int  `json:"panic_atoms"`
		// Partial: atom -> (the atom whose verdict says where it is defined, the atom whose verdict it has there)
		Partial map[string][2]int `json:"partial_atoms"`
	}
	m := meta{K: "meta", Sites: nSites, W: W, Rules: len(cases), Atoms: len(g.atoms), Partial: map[string][2]int{}}
	for i, a := range g.atoms {
		if a.panics {
			m.Panics = append(m.Panics, i)
		}
		if a.defined != nil {
			m.Partial[fmt.Sprint(i)] = [2]int{atomIndex[a.defined.Coq()], atomIndex[a.value.Coq()]}
		}
	}
	enc.Encode(m)
}

var runBatchOne func(c *ruleCase)

// debugPick rotates the member of a batch whose group is being debugged; debugBatches: batches get a Debug run too
var debugPick int
var debugBatches = true

// runWithSizes: hutil.Run with the platform sizes of the RunContext chosen by the caller; the reports delivered before a
// panic are kept.
func runWithSizes(e *ruleguard.Engine, t *hutil.Target, sizes types.Sizes, gover, debug string, debugLines *[]string) (reports []hutil.Report, panicMsg string) {
	defer func() {
		if r := recover(); r != nil {
			panicMsg = fmt.Sprint(r)
		}
	}()
	ctx := &ruleguard.RunContext{Pkg: t.Pkg, Types: t.Info, Sizes: sizes, Fset: t.Fset, Debug: debug,
		DebugPrint: func(s string) { *debugLines = append(*debugLines, s) },
		Report: func(data *ruleguard.ReportData) {
			r := hutil.Report{Message: data.Message, Line: data.RuleInfo.Line}
			if data.RuleInfo.Group != nil {
				r.Group = data.RuleInfo.Group.Name
			}
			if data.Node == nil {
				r.NilNode = true
			} else {
				r.Pos = t.Fset.Position(data.Node.Pos()).Offset
				r.End = t.Fset.Position(data.Node.End()).Offset
			}
			reports = append(reports, r)
		}}
	if gover != "" {
		v, err := ruleguard.ParseGoVersion(gover)
		if err != nil {
			return nil, "harness: " + err.Error()
		}
		ctx.GoVersion = v
	}
	if err := e.Run(ctx, t.File); err != nil {
		return reports, "run error: " + err.Error()
	}
	return reports, ""
}
