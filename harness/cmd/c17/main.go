// c17: observations for "Where() connectives and comparisons form the expected algebra".
//
// One type-checked target file holds N probe sites for each of W probe functions p0..p<W-1> (`pJ(x, y, rest...)`).
// Rules are loaded in batches of W groups, group k of a batch matching `pK($x, $y, $*zs)`, so that every rule sees
// every site shape exactly once and no rule shadows another (the engine stops at the first accepting rule per node).
//
// Output (JSON lines): site facts computed directly with go/types (line, size, constant value, text per capture),
// the verdict vector of every atomic predicate, and for every generated filter tree: its DSL source, its Coq dexpr,
// irconv's IR as a Coq fexpr, and the observed per-site verdicts (or load error / panic).
package main

import (
	"encoding/json"
	"flag"
	"fmt"
	"go/ast"
	"go/constant"
	"go/types"
	"math/rand"
	"os"
	"sort"
	"strconv"
	"strings"

	"verif/harness/internal/filt"
	"verif/harness/internal/hutil"
)

const W = 64

type siteSpec struct {
	x, y  string
	rest  []string
	multi bool // y on the next line
}

var siteSpecs = []siteSpec{
	{"1", "2", nil, false},
	{"7", "7", []string{"1", "2", "3"}, false},
	{"K", "gv", []string{"gv"}, false},
	{"gv", "K", []string{"5", "gv"}, true},
	{"-3", "1 << 40", []string{"8"}, false},
	{"1 << 40", "-3", nil, true},
	{"'a'", "uint8(200)", []string{"'b'", "'c'"}, false},
	{"uint8(200)", "'a'", nil, false},
	{"\"abc\"", "\"abd\"", nil, false},
	{"\"abd\"", "\"abc\"", []string{"\"x\""}, true},
	{"gs", "\"abc\"", nil, false},
	{"KS", "gs", nil, false},
	{"s", "s.a", []string{"s.a", "s.b"}, false},
	{"s.a", "s", nil, true},
	{"Big{}", "s", []string{"Big{}", "int64(1)"}, false},
	{"&s", "Big{}", nil, false},
	{"t", "u", []string{"t"}, false},
	{"u", "t", []string{"u", "1"}, true},
	{"u", "u", nil, false},
	{"arr", "len(arr)", []string{"arr[0]"}, false},
	{"arr[0]", "arr", nil, false},
	{"len(arr)", "cap(arr)", []string{"len(arr)", "3"}, false},
	{"2.5", "1", []string{"2.5"}, false},
	{"true", "2.0", nil, false},
	{"MyInt(8)", "8", []string{"MyInt(8)", "8"}, false},
	{"int8(1)", "int64(1)", []string{"int8(1)", "int16(1)"}, false},
	{"int64(1)", "int8(1)", []string{"int64(9)", "int64(10)", "int64(11)"}, true},
	{"K + 1", "K - 7", []string{"K", "K + 1"}, false},
	{"(gv)", "(7)", nil, false},
	{"f0()", "7", []string{"f0()"}, false},
	{"[2]int32{}", "[3]string{}", []string{"[2]int32{}"}, false},
	{"struct{}{}", "0", []string{"0", "0"}, false},
	{"x0", "x0", []string{"x0", "x0"}, false},
	{"97", "'a'", []string{"97"}, false},
	{"\"ab\" + \"c\"", "KS", nil, false},
	{"\"\"", "\"a\"", nil, false},
	{"uint64(1 << 63)", "int64(-1 << 63)", []string{"uint64(1 << 63)"}, false},
	{"200", "uint8(200)", []string{"199", "200", "201"}, true},
	{"[2]string{\n\t\t\"q\",\n\t}", "gv", nil, false},
	{"gv", "func() int {\n\t\treturn 1\n\t}()", []string{"1"}, false},
}

func targetSource() string {
	var sb strings.Builder
	sb.WriteString("package target\n\ntype S struct {\n\ta int\n\tb string\n}\ntype Big [40]int64\ntype MyInt int\n\nvar gv = 3\nvar gs = \"abc\"\n\nconst K = 7\nconst KS = \"abc\"\n\nfunc f0() int { return gv }\n\n")
	for j := 0; j < W; j++ {
		fmt.Fprintf(&sb, "func p%d(a, b interface{}, rest ...interface{}) {}\n", j)
	}
	sb.WriteString("\nfunc sites[T any, U ~int64](t T, u U, arr []int, s S) {\n\tx0 := 5\n\t_ = x0\n")
	for _, sp := range siteSpecs {
		for j := 0; j < W; j++ {
			args := sp.x + ", "
			if sp.multi {
				args = sp.x + ",\n\t\t"
			}
			args += sp.y
			for _, r := range sp.rest {
				args += ", " + r
			}
			if j%8 == 0 {
				sb.WriteString("\n\t")
			} else {
				sb.WriteString("; ")
			}
			fmt.Fprintf(&sb, "p%d(%s)", j, args)
		}
		sb.WriteString("\n")
	}
	sb.WriteString("}\n")
	return sb.String()
}

// ---------------------------------------------------------------- facts (the independent oracle: go/types + source text)

type val struct {
	Size *int64  `json:"size"` // nil: type parameter
	Int  *string `json:"int"`  // nil: not an integer constant
}

type siteFacts struct {
	K     string `json:"k"`
	I     int    `json:"i"`
	J     int    `json:"j"`
	LineX int    `json:"line_x"`
	LineY int    `json:"line_y"`
	X     val    `json:"x"`
	Y     val    `json:"y"`
	TextX string `json:"text_x"`
	TextY string `json:"text_y"`
	LineM int    `json:"line_m"` // the whole match ($$): the probe call
	TextM string `json:"text_m"`
	Rest  []val  `json:"rest"`
}

func valOf(t *hutil.Target, sizes types.Sizes, e ast.Expr) val {
	var v val
	tv := t.Info.Types[e]
	typ := tv.Type
	if typ == nil {
		typ = types.Typ[types.Invalid]
	}
	if _, isTP := typ.(*types.TypeParam); !isTP {
		sz := sizes.Sizeof(typ)
		v.Size = &sz
	}
	if tv.Value != nil && tv.Value.Kind() == constant.Int {
		s := tv.Value.ExactString()
		v.Int = &s
	}
	return v
}

// ---------------------------------------------------------------- atoms and trees

type atom struct {
	d      *filt.DExpr
	panics bool
}

const prelude = `
func longName(ctx *dsl.VarFilterContext) bool {
	s := ctx.Type.String()
	return len(s) > 3
}

func boom(ctx *dsl.VarFilterContext) bool {
	t := ctx.GetType("nosuchtype")
	return ctx.SizeOf(t) > 0
}
`

func atomPool() []atom {
	pool := baseAtoms()
	seen := map[string]bool{}
	for _, a := range pool {
		seen[a.d.Coq()] = true
	}
	// the literal spelling of every predicate the shared-spelling families use under a constant name
	for _, na := range namedAtoms {
		for _, v := range na.values {
			d := filt.Call(na.path, na.v, filt.Str(v))
			if !seen[d.Coq()] {
				seen[d.Coq()] = true
				pool = append(pool, atom{d, false})
			}
		}
	}
	return pool
}

func baseAtoms() []atom {
	return []atom{
		{filt.Sel("Pure", "x"), false},
		{filt.Sel("Const", "x"), false},
		{filt.Sel("Const", "y"), false},
		{filt.Sel("Addressable", "x"), false},
		{filt.Sel("Comparable", "y"), false},
		{filt.Call("Type.Is", "x", filt.Str("int")), false},
		{filt.Call("Type.Is", "y", filt.Str("string")), false},
		{filt.Call("Type.Underlying.Is", "x", filt.Str("int")), false},
		{filt.Call("Text.Matches", "x", filt.Str("^[a-z]")), false},
		{filt.Call("Type.ConvertibleTo", "y", filt.Str("string")), false},
		{filt.Call("Filter", "x", filt.Ident("longName")), false},
		{filt.Call("Filter", "y", filt.Ident("boom")), true},
	}
}

type gen struct {
	rng   *rand.Rand
	nbase int // the first nbase atoms are the ones random trees draw from
	atoms []atom
	lines []int
	texts []string
}

var cmpToks = []string{"EQL", "NEQ", "LSS", "LEQ", "GTR", "GEQ"}
var intConsts = []int64{-4, -3, -2, 0, 1, 2, 3, 5, 6, 7, 8, 9, 16, 24, 96, 97, 98, 199, 200, 201, 320, 1 << 40, (1 << 40) + 1}
var sizeConsts = []int64{0, 1, 2, 4, 7, 8, 9, 16, 24, 32, 48, 320}

func (g *gen) pick(l []int64) int64 { return l[g.rng.Intn(len(l))] }

func operand(kind int, v string) *filt.DExpr {
	switch kind {
	case 0:
		return filt.Sel("Line", v)
	case 1:
		return filt.Sel("Type.Size", v)
	case 2:
		return filt.Call("Value.Int", v)
	default:
		return filt.Sel("Text", v)
	}
}

func (g *gen) constFor(kind int) *filt.DExpr {
	switch kind {
	case 0:
		return filt.Int(int64(g.lines[g.rng.Intn(len(g.lines))] + g.rng.Intn(3) - 1))
	case 1:
		return filt.Int(g.pick(sizeConsts))
	case 2:
		c := g.pick(intConsts)
		if g.rng.Intn(6) == 0 {
			// a constant expression that is folded by go/types before irconv sees it
			return filt.RawInt(fmt.Sprintf("(%d + 1)", c-1), c)
		}
		return filt.Int(c)
	default:
		s := g.texts[g.rng.Intn(len(g.texts))]
		if g.rng.Intn(6) == 0 && len(s) > 1 {
			return filt.RawStr(fmt.Sprintf("%q + %q", s[:1], s[1:]), s)
		}
		return filt.Str(s)
	}
}

// cmpLeaf: a comparison over x, y or zs
func (g *gen) cmpLeaf() *filt.DExpr {
	kind := g.rng.Intn(4)
	tok := cmpToks[g.rng.Intn(6)]
	v := g.cmpVar(kind)
	switch r := g.rng.Intn(10); {
	case r < 5: // var op const
		if (kind == 1 || kind == 2) && g.rng.Intn(4) == 0 {
			v = "zs"
		}
		return filt.Bin(tok, operand(kind, v), g.constFor(kind))
	case r < 7: // const ==/!= var
		tok = cmpToks[g.rng.Intn(2)]
		return filt.Bin(tok, g.constFor(kind), operand(kind, v))
	default: // var op var
		w := g.cmpVar(kind)
		return filt.Bin(tok, operand(kind, v), operand(kind, w))
	}
}

// cmpVar: the capture a comparison reads; for Line and Text also the whole match `$$`
func (g *gen) cmpVar(kind int) string {
	if (kind == 0 || kind == 3) && g.rng.Intn(5) == 0 {
		return "$$"
	}
	return []string{"x", "y"}[g.rng.Intn(2)]
}

func (g *gen) leaf(allowPanic bool) *filt.DExpr {
	if g.rng.Intn(2) == 0 {
		return g.cmpLeaf()
	}
	for {
		a := g.atoms[g.rng.Intn(g.nbase)]
		if a.panics && !allowPanic {
			continue
		}
		return a.d
	}
}

func (g *gen) tree(depth int, allowPanic bool) *filt.DExpr {
	if depth <= 1 || g.rng.Intn(5) == 0 {
		return g.leaf(allowPanic)
	}
	switch g.rng.Intn(7) {
	case 0, 1:
		return filt.Not(g.sub(depth-1, allowPanic))
	case 2, 3:
		return filt.And(g.sub(depth-1, allowPanic), g.sub(depth-1, allowPanic))
	case 4, 5:
		return filt.Or(g.sub(depth-1, allowPanic), g.sub(depth-1, allowPanic))
	default:
		return filt.Paren(g.tree(depth-1, allowPanic))
	}
}

// sub: an operand; binary operands are parenthesised so that the Go precedence cannot regroup the tree
func (g *gen) sub(depth int, allowPanic bool) *filt.DExpr {
	t := g.tree(depth, allowPanic)
	if t.K == "binary" {
		return filt.Paren(t)
	}
	return t
}

func hasPanicAtom(d *filt.DExpr) bool {
	if d == nil {
		return false
	}
	if d.K == "call" && d.Path == "Filter" && len(d.Args) == 1 && d.Args[0].S == "boom" {
		return true
	}
	return hasPanicAtom(d.X) || hasPanicAtom(d.Y)
}

type cmpInfo struct {
	Kind  int     `json:"kind"` // 0 Line, 1 Type.Size, 2 Value.Int(), 3 Text
	Var   string  `json:"var"`
	Int   *int64  `json:"int,omitempty"`
	Str   *string `json:"str,omitempty"`
	Other int     `json:"other"` // mixed: kind of the rhs (on y)
}

type ruleCase struct {
	K       string   `json:"k"`
	Idx     int      `json:"idx"`
	Family  string   `json:"family"` // law family tag
	Role    string   `json:"role"`   // role within the family
	Src     string   `json:"src"`
	Coq     string   `json:"coq"`
	J       int      `json:"j"`
	IR      string   `json:"ir,omitempty"` // irconv result as Coq fexpr
	LoadErr string   `json:"load_err,omitempty"`
	Panic   string   `json:"panic,omitempty"`
	Accept  []int    `json:"accept"`        // site indices (I) reported, in report order
	Atom    int      `json:"atom"`          // index into the atom pool, or -1
	Cmp     *cmpInfo `json:"cmp,omitempty"` // comparison families: what is compared
	// shared-spelling families: the group's local constant declarations, the file it lives in (and that file's
	// file-level constants), the instantiated tree for the oracle, and the result of loading the group alone
	Locals     string            `json:"locals,omitempty"`
	FileNo     int               `json:"file_no"`
	FileConsts string            `json:"file_consts,omitempty"`
	Tree       *otree            `json:"tree,omitempty"`
	Alone      *aloneRes         `json:"alone,omitempty"`
	Values     map[string]string `json:"values,omitempty"`
	d          *filt.DExpr
	whereSrc   string // the Where() argument as written, when it is not d.Go() (a call of a group-local macro)
	solo       bool   // run in its own engine (may panic or may fail to load)
	wantJ      int    // probe function the rule is bound to (members of a law family share it: same site facts)
	group      string // rules with the same group key share an engine
}

// ---------------------------------------------------------------- shared-spelling families
//
// One rules file (or two files loaded into one engine) holds several groups whose Where() expressions are spelled
// identically over named constants (`m["x"].Type.Size > limit`, `m["x"].Text.Matches(pat)`); every group gives the names
// its own values through function-local constant declarations, some names are file-level constants that only some groups
// shadow. irconv folds the values into the IR, so the groups mean different filters although their source text is equal.

type aloneRes struct {
	Accept  []int  `json:"accept"`
	LoadErr string `json:"load_err,omitempty"`
	Panic   string `json:"panic,omitempty"`
}

// otree: the instantiated tree in the form the check's oracle evaluates (comparisons by the Go operator on go/types
// values, other predicates by their separately measured verdict vectors)
type otree struct {
	K    string  `json:"k"` // not and or cmp atom
	X    *otree  `json:"x,omitempty"`
	Y    *otree  `json:"y,omitempty"`
	Kind int     `json:"kind"`
	Var  string  `json:"var,omitempty"`
	Tok  string  `json:"tok,omitempty"` // the operator as written: <var value> Tok <constant> after mirroring a constant on the left
	Int  *int64  `json:"int,omitempty"`
	Str  *string `json:"str,omitempty"`
	Atom int     `json:"atom"`
}

type namedAtom struct {
	path, v, name string
	values        []string
}

var namedAtoms = []namedAtom{
	{"Text.Matches", "x", "pat", []string{"^[a-z]", "^[0-9]", "^\"", "a"}},
	{"Text.Matches", "y", "pat", []string{"^[a-z]", "^[0-9]", "^\"", "a"}},
	{"Type.Is", "x", "typ", []string{"int", "string", "int64", "uint8"}},
	{"Type.Is", "y", "typ", []string{"int", "string", "int64", "uint8"}},
	{"Type.ConvertibleTo", "x", "typ", []string{"int", "string", "int64", "uint8"}},
	{"Type.Underlying.Is", "y", "typ", []string{"int", "string", "int64", "uint8"}},
	{"Type.OfKind", "x", "kind", []string{"integer", "unsigned", "numeric", "signed"}},
	{"Node.Is", "x", "tag", []string{"Ident", "BasicLit", "CallExpr", "SelectorExpr"}},
	{"Node.Is", "y", "tag", []string{"Ident", "BasicLit", "CallExpr", "SelectorExpr"}},
	{"Contains", "x", "sub", []string{"gv", "K", "s", "1"}},
}

var cmpConstName = []string{"ln", "limit", "num", "name"}

// typedConst: names handed to predicates whose argument irconv reads with toStringValue (needs the type `string`)
var typedConst = map[string]bool{"pat": true, "typ": true, "kind": true, "tag": true, "sub": true}

type nval struct {
	z   int64
	s   string
	str bool
}

func (v nval) golit() string {
	if v.str {
		return fmt.Sprintf("%q", v.s)
	}
	return fmt.Sprint(v.z)
}

// namedLeaf: a comparison or predicate whose constant is spelled as a name
func (g *gen) namedLeaf() *filt.DExpr {
	if g.rng.Intn(10) < 6 {
		kind := g.rng.Intn(4)
		tok := cmpToks[g.rng.Intn(6)]
		v := g.cmpVar(kind)
		var c *filt.DExpr
		if kind == 3 {
			c = filt.RawStr(cmpConstName[kind], "")
		} else {
			c = filt.RawInt(cmpConstName[kind], 0)
		}
		if g.rng.Intn(5) == 0 {
			return filt.Bin(cmpToks[g.rng.Intn(2)], c, operand(kind, v))
		}
		if (kind == 1 || kind == 2) && g.rng.Intn(4) == 0 {
			v = "zs"
		}
		return filt.Bin(tok, operand(kind, v), c)
	}
	a := namedAtoms[g.rng.Intn(len(namedAtoms))]
	return filt.Call(a.path, a.v, filt.RawStr(a.name, ""))
}

func (g *gen) namedTree(depth int) *filt.DExpr {
	if depth <= 1 {
		return g.namedLeaf()
	}
	sub := func() *filt.DExpr {
		t := g.namedTree(depth - 1 - g.rng.Intn(2))
		if t.K == "binary" {
			return filt.Paren(t)
		}
		return t
	}
	switch g.rng.Intn(5) {
	case 0:
		return filt.Not(sub())
	case 1, 2:
		return filt.And(sub(), sub())
	default:
		return filt.Or(sub(), sub())
	}
}

func namesOf(d *filt.DExpr, into map[string]bool) {
	if d == nil {
		return
	}
	if d.Raw != "" {
		into[d.Raw] = true
	}
	namesOf(d.X, into)
	namesOf(d.Y, into)
	for _, a := range d.Args {
		namesOf(a, into)
	}
}

// inst: the template with every named constant replaced by the group's value (the spelling stays the name)
func inst(d *filt.DExpr, vals map[string]nval) *filt.DExpr {
	if d == nil {
		return nil
	}
	c := *d
	if d.Raw != "" {
		c.Z, c.S = vals[d.Raw].z, vals[d.Raw].s
	}
	c.X, c.Y = inst(d.X, vals), inst(d.Y, vals)
	c.Args = nil
	for _, a := range d.Args {
		c.Args = append(c.Args, inst(a, vals))
	}
	return &c
}

// literal: the same expression with the values written out (the key under which a predicate's verdicts were measured)
func literal(d *filt.DExpr) *filt.DExpr {
	if d == nil {
		return nil
	}
	c := *d
	c.Raw = ""
	c.X, c.Y = literal(d.X), literal(d.Y)
	c.Args = nil
	for _, a := range d.Args {
		c.Args = append(c.Args, literal(a))
	}
	return &c
}

var mirrorTok = map[string]string{"LSS": "GTR", "GTR": "LSS", "LEQ": "GEQ", "GEQ": "LEQ", "EQL": "EQL", "NEQ": "NEQ"}

func kindOfOperand(d *filt.DExpr) int {
	switch d.Path {
	case "Line":
		return 0
	case "Type.Size":
		return 1
	case "Value.Int":
		return 2
	case "Text":
		return 3
	}
	return -1
}

func oracleTree(d *filt.DExpr, atomIndex map[string]int) *otree {
	switch d.K {
	case "paren":
		return oracleTree(d.X, atomIndex)
	case "unary":
		return &otree{K: "not", X: oracleTree(d.X, atomIndex)}
	case "binary":
		if d.Tok == "LAND" || d.Tok == "LOR" {
			k := "and"
			if d.Tok == "LOR" {
				k = "or"
			}
			return &otree{K: k, X: oracleTree(d.X, atomIndex), Y: oracleTree(d.Y, atomIndex)}
		}
		op, c, tok := d.X, d.Y, d.Tok
		if d.X.K == "int" || d.X.K == "str" {
			op, c, tok = d.Y, d.X, mirrorTok[d.Tok]
		}
		o := &otree{K: "cmp", Kind: kindOfOperand(op), Var: op.Var, Tok: tok}
		if c.K == "int" {
			z := c.Z
			o.Int = &z
		} else {
			sv := c.S
			o.Str = &sv
		}
		return o
	default:
		i, ok := atomIndex[literal(d).Coq()]
		if !ok {
			fmt.Fprintf(os.Stderr, "no measured atom for %s\n", literal(d).Go())
			os.Exit(3)
		}
		return &otree{K: "atom", Atom: i}
	}
}

func main() {
	seed := flag.Int64("seed", 1, "PRNG seed")
	ntrees := flag.Int("trees", 300, "random trees")
	nfam := flag.Int("families", 24, "law families")
	nshared := flag.Int("shared", 8, "random-tree shared-spelling families (groups with equally spelled filters over differently valued named constants), on top of one family per kind of constant-carrying filter")
	tmp := flag.String("tmp", "", "scratch directory")
	flag.Parse()
	enc := json.NewEncoder(os.Stdout)
	rng := rand.New(rand.NewSource(*seed))

	t, err := hutil.CheckTarget(*tmp, "target/target.go", []byte(targetSource()))
	if err != nil {
		fmt.Fprintln(os.Stderr, err)
		os.Exit(3)
	}
	_, byJ := filt.IndexSites(t)
	byPos, _ := filt.IndexSites(t)
	sizes := types.SizesFor("gc", "amd64")
	lineSet := map[int]bool{}
	textSet := map[string]bool{}
	factsAt := map[[2]int]siteFacts{}
	for j := 0; j < W; j++ {
		if len(byJ[j]) != len(siteSpecs) {
			fmt.Fprintf(os.Stderr, "site index broken: p%d has %d sites\n", j, len(byJ[j]))
			os.Exit(3)
		}
		for _, s := range byJ[j] {
			x, y := s.Call.Args[0], s.Call.Args[1]
			f := siteFacts{K: "site", I: s.I, J: j, LineX: t.Fset.Position(x.Pos()).Line, LineY: t.Fset.Position(y.Pos()).Line,
				X: valOf(t, sizes, x), Y: valOf(t, sizes, y), TextX: filt.Text(t, x), TextY: filt.Text(t, y), Rest: []val{},
				LineM: t.Fset.Position(s.Call.Pos()).Line, TextM: filt.Text(t, s.Call)}
			for _, r := range s.Call.Args[2:] {
				f.Rest = append(f.Rest, valOf(t, sizes, r))
			}
			enc.Encode(f)
			factsAt[[2]int{s.I, j}] = f
			lineSet[f.LineX] = true
			textSet[f.TextX] = true
			textSet[f.TextY] = true
		}
	}
	g := &gen{rng: rng, atoms: atomPool(), nbase: len(baseAtoms())}
	for l := range lineSet {
		g.lines = append(g.lines, l)
	}
	sort.Ints(g.lines)
	for s := range textSet {
		if !strings.ContainsAny(s, "`\n") {
			g.texts = append(g.texts, s)
		}
	}
	sort.Strings(g.texts)
	g.texts = append(g.texts, "ab", "abcd", "zzz", "")

	// ---- the rule list
	var cases []*ruleCase
	famIndex := -1
	add := func(family, role string, d *filt.DExpr, atomIdx int) {
		c := &ruleCase{K: "rule", Idx: len(cases), Family: family, Role: role, Src: d.Go(), Coq: d.Coq(), Atom: atomIdx, d: d, Accept: []int{}}
		c.wantJ = len(cases) % W
		c.group = fmt.Sprintf("b%d", len(cases)/W)
		if famIndex >= 0 {
			c.wantJ = famIndex % W
			c.group = fmt.Sprintf("%s-%s-%d", family[:3], role, famIndex/W)
		}
		cases = append(cases, c)
	}
	for i, a := range g.atoms {
		add("atom", fmt.Sprint(i), a.d, i)
	}
	for i := 0; i < *ntrees; i++ {
		depth := 2 + rng.Intn(4)
		add("tree", "", g.tree(depth, rng.Intn(5) == 0), -1)
	}
	for f := 0; f < *nfam; f++ {
		fam := fmt.Sprintf("conn%d", f)
		famIndex = f
		F := g.sub(1+rng.Intn(3), false)
		G := g.sub(1+rng.Intn(3), false)
		add(fam, "F", F, -1)
		add(fam, "G", G, -1)
		add(fam, "notF", filt.Not(F), -1)
		add(fam, "and", filt.And(F, G), -1)
		add(fam, "or", filt.Or(F, G), -1)
		add(fam, "not_and", filt.Not(filt.Paren(filt.And(F, G))), -1)
		add(fam, "or_not", filt.Or(filt.Not(F), filt.Not(G)), -1)
		add(fam, "notnotF", filt.Not(filt.Not(F)), -1)
		// short circuit: the right operand panics whenever it is consulted
		boom := filt.Call("Filter", "y", filt.Ident("boom"))
		add(fam, "and_boom", filt.And(F, boom), -1)
		add(fam, "or_boom", filt.Or(F, boom), -1)
	}
	for f := 0; f < *nfam; f++ {
		fam := fmt.Sprintf("cmp%d", f)
		famIndex = f
		kind := f % 4
		v := []string{"x", "y"}[rng.Intn(2)]
		if kind == 3 && f%8 == 7 {
			v = "$$"
		}
		c := g.constFor(kind)
		if kind == 0 {
			// a line of this family's own probe column; every third family aims at a capture spanning several lines
			si := rng.Intn(len(siteSpecs))
			delta := rng.Intn(3) - 1
			if f%3 == 0 {
				// the multi-line x (second to last site) resp. the multi-line y (last site); constant inside the span
				si = len(siteSpecs) - 2
				v = "x"
				if f%6 != 0 {
					si = len(siteSpecs) - 1
					v = "y"
				}
				delta = rng.Intn(2)
			}
			if f%3 != 0 && f%5 == 4 {
				v = "$$"
			}
			fa := factsAt[[2]int{si, f % W}]
			ln := fa.LineX
			if v == "y" {
				ln = fa.LineY
			}
			if v == "$$" {
				ln = fa.LineM
			}
			c = filt.Int(int64(ln + delta))
		}
		first := len(cases)
		for _, tok := range cmpToks {
			add(fam, "v"+tok, filt.Bin(tok, operand(kind, v), c), -1)
			add(fam, "c"+tok, filt.Bin(tok, c, operand(kind, v)), -1) // constant on the left
			add(fam, "w"+tok, filt.Bin(tok, operand(kind, "x"), operand(kind, "y")), -1)
		}
		add(fam, "notGEQ", filt.Not(filt.Paren(filt.Bin("GEQ", operand(kind, v), c))), -1)
		add(fam, "notLEQ", filt.Not(filt.Paren(filt.Bin("LEQ", operand(kind, v), c))), -1)
		add(fam, "notEQL", filt.Not(filt.Paren(filt.Bin("EQL", operand(kind, v), c))), -1)
		// comparing values of different kinds
		other := (kind + 1) % 3
		if kind == 3 {
			other = 3
		}
		ci := &cmpInfo{Kind: kind, Var: v, Other: other}
		if c.K == "int" {
			z := c.Z
			ci.Int = &z
		} else {
			sv := c.S
			ci.Str = &sv
		}
		if other != kind {
			add(fam, "mixed", filt.Bin("EQL", operand(kind, "x"), operand(other, "y")), -1)
		}
		for _, rc := range cases[first:] {
			rc.Cmp = ci
		}
	}
	// ---- shared-spelling families
	famIndex = -1
	atomIndex := map[string]int{}
	for i, a := range g.atoms {
		atomIndex[a.d.Coq()] = i
	}
	const G = 6
	type sharedFam struct {
		members  []*ruleCase
		fileSrc  [2]string // file-level constant declarations per file
		twoFiles bool
	}
	var sharedFams []*sharedFam
	// values that occur at the probe sites (so that == hits something and orderings split the sites)
	var sizePool, numPool []int64
	{
		ss, ns := map[int64]bool{}, map[int64]bool{}
		for i := range siteSpecs {
			fa := factsAt[[2]int{i, 0}]
			for _, v := range []val{fa.X, fa.Y} {
				if v.Size != nil {
					ss[*v.Size] = true
				}
				if v.Int != nil {
					if z, err := strconv.ParseInt(*v.Int, 10, 64); err == nil {
						ns[z] = true
					}
				}
			}
		}
		for z := range ss {
			sizePool = append(sizePool, z)
		}
		for z := range ns {
			numPool = append(numPool, z)
		}
		sort.Slice(sizePool, func(a, b int) bool { return sizePool[a] < sizePool[b] })
		sort.Slice(numPool, func(a, b int) bool { return numPool[a] < numPool[b] })
	}
	valueFor := func(name string, j int) nval {
		switch name {
		case "ln":
			fa := factsAt[[2]int{rng.Intn(len(siteSpecs)), j}]
			return nval{z: int64(fa.LineX + rng.Intn(3) - 1)}
		case "limit":
			return nval{z: sizePool[rng.Intn(len(sizePool))]}
		case "num":
			return nval{z: numPool[rng.Intn(len(numPool))]}
		case "name":
			return nval{s: g.texts[rng.Intn(len(g.texts))], str: true}
		}
		for _, na := range namedAtoms {
			if na.name == name {
				return nval{s: na.values[rng.Intn(len(na.values))], str: true}
			}
		}
		panic("unknown constant name " + name)
	}
	declare := func(name string, v nval) string {
		if typedConst[name] {
			return fmt.Sprintf("const %s string = %s\n", name, v.golit())
		}
		return fmt.Sprintf("const %s = %s\n", name, v.golit())
	}
	// every kind of filter whose IR carries a folded constant, bare (constant on either side for comparisons, a list
	// capture for the two kinds that lift), then random trees over them
	var bare []*filt.DExpr
	for kind := 0; kind < 4; kind++ {
		c := filt.RawInt(cmpConstName[kind], 0)
		if kind == 3 {
			c = filt.RawStr(cmpConstName[kind], "")
		}
		v := []string{"x", "y"}[rng.Intn(2)]
		bare = append(bare, filt.Bin(cmpToks[rng.Intn(6)], operand(kind, v), c), filt.Bin(cmpToks[rng.Intn(2)], c, operand(kind, v)))
		if kind == 1 || kind == 2 {
			bare = append(bare, filt.Bin(cmpToks[2+rng.Intn(4)], operand(kind, "zs"), c))
		}
	}
	for _, a := range namedAtoms {
		bare = append(bare, filt.Call(a.path, a.v, filt.RawStr(a.name, "")))
	}
	for f := 0; f < len(bare)+*nshared; f++ {
		fam := fmt.Sprintf("shared%d", f)
		var tmpl *filt.DExpr
		if f < len(bare) {
			tmpl = bare[f]
		} else {
			tmpl = g.namedTree(2 + rng.Intn(2))
		}
		used := map[string]bool{}
		namesOf(tmpl, used)
		var names []string
		for n := range used {
			names = append(names, n)
		}
		sort.Strings(names)
		sf := &sharedFam{twoFiles: f%2 == 1}
		// every fourth family reaches the filter through a group-local macro function `cond` (expanded by irconv):
		// the call is spelled identically in all groups, the bodies differ in their literal constants
		macro := f%4 == 2
		// which names are file-level constants (shadowed by some groups only)
		fileLevel := map[string]bool{}
		fileVals := [2]map[string]nval{{}, {}}
		for _, n := range names {
			if n != "ln" && rng.Intn(3) == 0 { // (a line constant is only meaningful for one probe column)
				fileLevel[n] = true
				for fi := 0; fi < 2; fi++ {
					v := valueFor(n, (f*G)%W)
					fileVals[fi][n] = v
					sf.fileSrc[fi] += declare(n, v)
				}
			}
		}
		var prevVals map[string]nval
		for k := 0; k < G; k++ {
			j := (f*G + k) % W
			fileNo := 0
			if sf.twoFiles && k >= G/2 {
				fileNo = 1
			}
			var vals map[string]nval
			var locals string
			for try := 0; try < 6; try++ {
				vals = map[string]nval{}
				locals = ""
				for _, n := range names {
					if !macro && fileLevel[n] && rng.Intn(2) == 0 {
						vals[n] = fileVals[fileNo][n]
						continue
					}
					v := valueFor(n, j)
					for macro && !v.str && v.z < 0 {
						// irconv's macro expansion copies the body and re-creates constant values for literals only:
						// a negative constant (`-3`: a unary expression) inside a macro body is refused at load
						v = valueFor(n, j)
					}
					vals[n] = v
					locals += "\t" + declare(n, v)
				}
				// neighbouring groups get different values (a line constant alone differs anyway: other column)
				differs := k == 0
				if k > 0 {
					for _, n := range names {
						if n != "ln" && prevVals[n] != vals[n] {
							differs = true
						}
					}
				}
				if differs {
					break
				}
			}
			prevVals = vals
			d := inst(tmpl, vals)
			whereSrc := ""
			if macro {
				// (irconv cannot see constant values of identifiers inside a macro body: the body spells the literals)
				d = literal(d)
				body := strings.NewReplacer(`m["x"]`, "x", `m["y"]`, "y", `m["zs"]`, "zs").Replace(d.Go())
				locals = "\tcond := func(x, y, zs dsl.Var) bool { return " + body + " }\n"
				whereSrc = `cond(m["x"], m["y"], m["zs"])`
			}
			c := &ruleCase{K: "rule", Idx: len(cases), Family: fam, Role: fmt.Sprintf("g%d", k), Src: d.Go(), Coq: d.Coq(), Atom: -1, d: d, whereSrc: whereSrc,
				Accept: []int{}, Locals: locals, FileNo: fileNo, FileConsts: sf.fileSrc[fileNo], Tree: oracleTree(d, atomIndex),
				Values: map[string]string{}, wantJ: j, group: "shared", solo: false}
			for n, v := range vals {
				c.Values[n] = v.golit()
			}
			if macro {
				c.Src = whereSrc
			}
			cases = append(cases, c)
			sf.members = append(sf.members, c)
		}
		sharedFams = append(sharedFams, sf)
	}

	for _, c := range cases {
		if c.group == "shared" {
			continue
		}
		if hasPanicAtom(c.d) || strings.HasPrefix(c.Role, "c") && c.Role != "cEQL" && c.Role != "cNEQ" && strings.HasPrefix(c.Family, "cmp") || c.Role == "mixed" {
			c.solo = true
		}
	}

	// ---- run: one engine per group key (solo rules alone); members keep their probe function
	runBatch := func(batch []*ruleCase) {
		rules := make([]filt.Rule, len(batch))
		for k, c := range batch {
			c.J = c.wantJ
			rules[k] = filt.Rule{Name: fmt.Sprintf("g%d", c.Idx), Pattern: fmt.Sprintf("p%d($x, $y, $*zs)", c.J), Where: c.d}
		}
		src := filt.RulesFile(prelude, rules)
		irf, cerr := filt.ConvertRules(src)
		if cerr == nil {
			byName := map[string]int{}
			for gi, grp := range irf.RuleGroups {
				byName[grp.Name] = gi
			}
			for _, c := range batch {
				if gi, ok := byName[fmt.Sprintf("g%d", c.Idx)]; ok && len(irf.RuleGroups[gi].Rules) == 1 {
					c.IR = filt.CoqFExpr(irf.RuleGroups[gi].Rules[0].WhereExpr)
				}
			}
		}
		e, lerr := filt.Load(t.Fset, src)
		if lerr != nil {
			if len(batch) == 1 {
				batch[0].LoadErr = lerr.Error()
				return
			}
			// isolate the offender(s)
			for _, c := range batch {
				runBatchOne(c)
			}
			return
		}
		reports, pmsg := hutil.Run(e, t, 0, "", nil)
		idx := map[string]*ruleCase{}
		for _, c := range batch {
			idx[fmt.Sprintf("g%d", c.Idx)] = c
		}
		for _, r := range reports {
			c := idx[r.Group]
			s := byPos[r.Pos]
			if c == nil || s == nil || s.J != c.J {
				fmt.Fprintf(os.Stderr, "report cannot be attributed: %+v\n", r)
				os.Exit(3)
			}
			c.Accept = append(c.Accept, s.I)
		}
		if pmsg != "" {
			for _, c := range batch {
				c.Panic = pmsg
			}
		}
	}
	runBatchOne = func(c *ruleCase) {
		c.Accept = []int{}
		runBatch([]*ruleCase{c})
	}
	groups := map[string][]*ruleCase{}
	var order []string
	for _, c := range cases {
		if c.solo || c.group == "shared" {
			continue
		}
		if _, ok := groups[c.group]; !ok {
			order = append(order, c.group)
		}
		groups[c.group] = append(groups[c.group], c)
	}
	for _, k := range order {
		used := map[int]bool{}
		for _, c := range groups[k] {
			if used[c.wantJ] {
				fmt.Fprintf(os.Stderr, "group %s binds p%d twice\n", k, c.wantJ)
				os.Exit(3)
			}
			used[c.wantJ] = true
		}
		runBatch(groups[k])
	}
	for _, c := range cases {
		if c.solo {
			runBatch([]*ruleCase{c})
		}
	}
	// ---- shared-spelling families: all groups of a family in one engine (one or two rules files), then each group alone
	runFiles := func(members []*ruleCase, fileSrc [2]string) (accept map[int][]int, loadErr, panicMsg string) {
		accept = map[int][]int{}
		var perFile [2][]filt.Rule
		idx := map[string]*ruleCase{}
		for _, c := range members {
			c.J = c.wantJ
			name := fmt.Sprintf("g%d", c.Idx)
			idx[name] = c
			perFile[c.FileNo] = append(perFile[c.FileNo], filt.Rule{Name: name, Pattern: fmt.Sprintf("p%d($x, $y, $*zs)", c.J), Where: c.d, WhereSrc: c.whereSrc, Locals: c.Locals})
		}
		var names []string
		srcs := map[string]string{}
		for fi := 0; fi < 2; fi++ {
			if len(perFile[fi]) == 0 {
				continue
			}
			name := fmt.Sprintf("rules%d.go", fi)
			names = append(names, name)
			srcs[name] = filt.RulesFile("\n"+fileSrc[fi], perFile[fi])
			if irf, cerr := filt.ConvertRules(srcs[name]); cerr == nil {
				for gi := range irf.RuleGroups {
					if c := idx[irf.RuleGroups[gi].Name]; c != nil && len(irf.RuleGroups[gi].Rules) == 1 && c.IR == "" {
						c.IR = filt.CoqFExpr(irf.RuleGroups[gi].Rules[0].WhereExpr)
					}
				}
			}
		}
		e, lerr := filt.LoadFiles(t.Fset, names, srcs)
		if lerr != nil {
			return accept, lerr.Error(), ""
		}
		reports, pmsg := hutil.Run(e, t, 0, "", nil)
		for _, r := range reports {
			c := idx[r.Group]
			s := byPos[r.Pos]
			if c == nil || s == nil || s.J != c.J {
				fmt.Fprintf(os.Stderr, "report cannot be attributed: %+v\n", r)
				os.Exit(3)
			}
			accept[c.Idx] = append(accept[c.Idx], s.I)
		}
		return accept, "", pmsg
	}
	for _, sf := range sharedFams {
		acc, lerr, pmsg := runFiles(sf.members, sf.fileSrc)
		for _, c := range sf.members {
			c.Accept = append([]int{}, acc[c.Idx]...)
			c.LoadErr, c.Panic = lerr, pmsg
		}
		for _, c := range sf.members {
			a, le, pm := runFiles([]*ruleCase{c}, sf.fileSrc)
			c.Alone = &aloneRes{Accept: append([]int{}, a[c.Idx]...), LoadErr: le, Panic: pm}
		}
	}

	for _, c := range cases {
		enc.Encode(c)
	}
	type meta struct {
		K      string `json:"k"`
		Sites  int    `json:"sites"`
		W      int    `json:"w"`
		Rules  int    `json:"rules"`
		Atoms  int    `json:"atoms"`
		Panics []int  `json:"panic_atoms"`
	}
	m := meta{K: "meta", Sites: len(siteSpecs), W: W, Rules: len(cases), Atoms: len(g.atoms)}
	for i, a := range g.atoms {
		if a.panics {
			m.Panics = append(m.Panics, i)
		}
	}
	enc.Encode(m)
}

var runBatchOne func(c *ruleCase)
