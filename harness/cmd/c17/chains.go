package main

// Chains: n >= 3 operands of ONE shape -- the same kind of comparison (Line / Type.Size / Value.Int() / Text), the same
// operator, a constant each -- joined by one connective, reading DIFFERENT captures (x, y, the whole match), with the constant
// on either side where the loader takes it, flat (`a || b || c`) or grouped by parentheses, now and then with one operand of
// another shape in some position; and chains of one predicate (Type.Is, Node.Is, Text.Matches ...) over different captures and
// arguments. This is the input class of any loader rewrite that recognises a run of look-alike operands and folds it into one
// test (a set lookup, a range, a switch): F || G || H must stay the union of what F, G and H accept, F && G && H the
// intersection, operand by operand. The constants are values the captures have at some site of the rule's own probe column, so
// that every operand accepts something and the operands disagree.

import (
	"math/rand"
	"strconv"
	"strings"

	"verif/harness/internal/filt"
)

type chainGen struct {
	g       *gen
	rng     *rand.Rand
	factsAt map[[2]int]siteFacts
	nSites  int
}

// valueAt: a constant that capture v has, as a value of `kind`, at some site of column j
func (cg *chainGen) valueAt(kind int, v string, j int) *filt.DExpr {
	for try := 0; try < 8; try++ {
		fa := cg.factsAt[[2]int{cg.rng.Intn(cg.nSites), j}]
		switch kind {
		case 0:
			ln := map[string]int{"x": fa.LineX, "y": fa.LineY, "$$": fa.LineM}[v]
			return filt.Int(int64(ln + cg.rng.Intn(3)/2)) // mostly the line itself
		case 1:
			val := fa.X
			if v == "y" {
				val = fa.Y
			}
			if val.Size != nil {
				return filt.Int(*val.Size)
			}
		case 2:
			val := fa.X
			if v == "y" {
				val = fa.Y
			}
			if val.Int != nil {
				if z, err := strconv.ParseInt(*val.Int, 10, 64); err == nil {
					return filt.Int(z)
				}
			}
		default:
			txt := map[string]string{"x": fa.TextX, "y": fa.TextY, "$$": fa.TextM}[v]
			if !strings.ContainsAny(txt, "`\n") {
				return filt.Str(txt)
			}
		}
	}
	return cg.g.constFor(kind)
}

// join builds the chain: assoc 0 left-nested without parentheses (the way `a || b || c` parses), 1 right-nested, 2 split in the middle
func join(conn string, ops []*filt.DExpr, assoc int) *filt.DExpr {
	if len(ops) == 1 {
		return ops[0]
	}
	wrap := func(d *filt.DExpr) *filt.DExpr {
		if d.K == "binary" {
			return filt.Paren(d)
		}
		return d
	}
	switch assoc {
	case 0:
		acc := ops[0]
		for _, o := range ops[1:] {
			acc = filt.Bin(conn, acc, wrapCmp(o))
		}
		return acc
	case 1:
		return filt.Bin(conn, wrapCmp(ops[0]), wrap(join(conn, ops[1:], 1)))
	}
	k := len(ops) / 2
	return filt.Bin(conn, wrap(join(conn, ops[:k], 0)), wrap(join(conn, ops[k:], 0)))
}

// wrapCmp: comparisons bind tighter than && and ||: no parentheses needed; a connective operand of another kind is wrapped
func wrapCmp(d *filt.DExpr) *filt.DExpr {
	if d.K == "binary" && (d.Tok == "LAND" || d.Tok == "LOR") {
		return filt.Paren(d)
	}
	return d
}

// cmpChain: n comparisons of one (kind, tok) over different captures; mixed: one operand is replaced by a leaf of another shape
func (cg *chainGen) cmpChain(kind int, tok, conn string, n, j, assoc int, mixed bool) *filt.DExpr {
	vars := []string{"x", "y"}
	if kind == 0 || kind == 3 {
		vars = append(vars, "$$")
	}
	vs := make([]string, n)
	same := true
	for i := range vs {
		vs[i] = vars[cg.rng.Intn(len(vars))]
		if vs[i] != vs[0] {
			same = false
		}
	}
	if same { // at least two captures: the middle operand reads another one
		for vs[n/2] == vs[0] {
			vs[n/2] = vars[cg.rng.Intn(len(vars))]
		}
	}
	ops := make([]*filt.DExpr, n)
	var prev *filt.DExpr
	for i, v := range vs {
		c := cg.valueAt(kind, v, j)
		if prev != nil && cg.rng.Intn(3) == 0 {
			c = prev // the same constant as the operand before, mostly about another capture
		}
		prev = c
		if cg.rng.Intn(6) == 0 {
			// a comparison of two captures among the constant ones (the same kind and operator)
			ops[i] = filt.Bin(tok, operand(kind, v), operand(kind, vars[cg.rng.Intn(2)]))
			continue
		}
		if (tok == "EQL" || tok == "NEQ") && cg.rng.Intn(3) == 0 {
			ops[i] = filt.Bin(tok, c, operand(kind, v))
		} else {
			ops[i] = filt.Bin(tok, operand(kind, v), c)
		}
	}
	if mixed {
		ops[cg.rng.Intn(n)] = cg.g.leaf(false)
	}
	return join(conn, ops, assoc)
}

// predChain: n applications of one predicate path to different captures / arguments
func (cg *chainGen) predChain(conn string, n, assoc int) *filt.DExpr {
	na := namedAtoms[cg.rng.Intn(len(namedAtoms))]
	var same []namedAtom
	for _, o := range namedAtoms {
		if o.path == na.path {
			same = append(same, o)
		}
	}
	ops := make([]*filt.DExpr, n)
	for i := range ops {
		o := same[(i+cg.rng.Intn(2))%len(same)]
		ops[i] = filt.Call(o.path, o.v, filt.Str(o.values[cg.rng.Intn(len(o.values))]))
	}
	return join(conn, ops, assoc)
}
