package main

// Character classes: every way Go's regexp lets a class be spelled (Perl classes, POSIX classes, \p{..} with one-letter
// and long names, negations, brackets), put behind `^` and into the other shapes near the prefix-class fast path; inputs
// that begin with runes on both sides of every boundary of the class; the table of prefix classes of the current source
// (read off the source by go2coq, handed over with -table) checked entry by entry for EVERY rune; an exhaustive sweep
// over all runes for every pattern textmatch answers with a rune predicate.

import (
	"encoding/base64"
	"encoding/json"
	"fmt"
	"hash/fnv"
	"math/rand"
	"regexp"
	"regexp/syntax"
	"sort"
	"strings"
	"unicode"
	"unicode/utf8"

	"github.com/quasilyte/go-ruleguard/ruleguard/textmatch"
)

// the func(rune) bool predicates of package unicode, by name (the harness's own list; the hook has another)
var unicodePreds = []struct {
	name string
	fn   func(rune) bool
}{
	{"IsUpper", unicode.IsUpper}, {"IsLower", unicode.IsLower}, {"IsTitle", unicode.IsTitle}, {"IsLetter", unicode.IsLetter},
	{"IsDigit", unicode.IsDigit}, {"IsNumber", unicode.IsNumber}, {"IsSpace", unicode.IsSpace}, {"IsPunct", unicode.IsPunct},
	{"IsSymbol", unicode.IsSymbol}, {"IsMark", unicode.IsMark}, {"IsControl", unicode.IsControl}, {"IsGraphic", unicode.IsGraphic},
	{"IsPrint", unicode.IsPrint},
}

func predByName(name string) func(rune) bool {
	for _, p := range unicodePreds {
		if p.name == name {
			return p.fn
		}
	}
	return nil
}

// sweepLimit: every value a rune can take when it comes out of the decoder, and a little beyond
const sweepLimit = unicode.MaxRune + 16

// predRanges: the set a predicate accepts, as maximal runs (canonical: sorted, neither overlapping nor adjacent)
func predRanges(fn func(rune) bool) [][2]rune {
	var out [][2]rune
	start := rune(-1)
	for r := rune(0); r <= sweepLimit+1; r++ {
		in := r <= sweepLimit && fn(r)
		if in && start < 0 {
			start = r
		}
		if !in && start >= 0 {
			out = append(out, [2]rune{start, r - 1})
			start = -1
		}
	}
	return out
}

func coqRanges(rs [][2]rune) string {
	parts := make([]string, len(rs))
	for i, r := range rs {
		parts[i] = fmt.Sprintf("(%d,%d)", r[0], r[1])
	}
	return "[" + strings.Join(parts, ";") + "]"
}

// ---- classes named once (a class of several hundred ranges occurs in many trees)

var classDefs = map[string]string{}

const inlineClassMax = 6

func coqClass(re *syntax.Regexp) string {
	parts := make([]string, 0, len(re.Rune)/2)
	for i := 0; i+1 < len(re.Rune); i += 2 {
		parts = append(parts, fmt.Sprintf("(%d,%d)", re.Rune[i], re.Rune[i+1]))
	}
	body := "[" + strings.Join(parts, ";") + "]"
	if len(parts) <= inlineClassMax || !dedupeClasses {
		return body
	}
	h := fnv.New64a()
	h.Write([]byte(body))
	name := fmt.Sprintf("cls_%016x", h.Sum64())
	classDefs[name] = body
	return name
}

var dedupeClasses = true

// ---- class spellings

func classAtoms(rng *rand.Rand, all bool) (atoms, core []string) {
	core = []string{`\d`, `\D`, `\s`, `\S`, `\w`, `\W`, `[[:upper:]]`, `[[:space:]]`, `[[:digit:]]`, `\p{L}`, `\p{Lu}`, `\p{Ll}`, `\p{Lt}`, `\p{N}`, `\p{Nd}`,
		`\p{Zs}`, `\pL`, `\pN`, `[0-9]`, `[\d]`, `.`}
	atoms = append(atoms, core...)
	for _, n := range []string{"alnum", "alpha", "ascii", "blank", "cntrl", "digit", "graph", "lower", "print", "punct", "space", "upper", "word", "xdigit"} {
		atoms = append(atoms, "[[:"+n+":]]", "[[:^"+n+":]]", "[^[:"+n+":]]")
	}
	var cats []string
	for k := range unicode.Categories {
		cats = append(cats, k)
	}
	sort.Strings(cats)
	for _, k := range cats {
		atoms = append(atoms, `\p{`+k+`}`, `\P{`+k+`}`)
		if len(k) == 1 {
			atoms = append(atoms, `\p`+k, `\P`+k, `\p{^`+k+`}`, `\P{^`+k+`}`)
		} else if all {
			atoms = append(atoms, `\p{^`+k+`}`, `[\p{`+k+`}]`, `[^\p{`+k+`}]`)
		}
	}
	var scripts []string
	for k := range unicode.Scripts {
		scripts = append(scripts, k)
	}
	sort.Strings(scripts)
	pick := []string{"Latin", "Greek", "Cyrillic", "Han", "Arabic", "Common"}
	n := 3
	if all {
		n = 30
	}
	for i := 0; i < n; i++ {
		pick = append(pick, scripts[rng.Intn(len(scripts))])
	}
	for _, k := range pick {
		atoms = append(atoms, `\p{`+k+`}`, `\P{`+k+`}`)
	}
	atoms = append(atoms, `\p{Any}`, `[^\d]`, `[\s\d]`, `[^\s]`, `[\w]`, `[^\w-]`, `[\p{Lu}]`, `[^\p{Lu}]`, `[\p{Lu}\p{Lt}]`, `[[:upper:]\p{Lt}]`, `[\P{Ll}]`, `[\d\p{Nd}]`,
		`[٠-٩]`, `[0-9٠-٩]`, `[\t\n\f\r ]`, `[\t\n\v\f\r ]`, `[A-Z]`, `[a-zA-Z0-9_]`, `(?s:.)`, `[^\n]`, `[\x00-\x{10FFFF}]`, `[^a]`, `\x{FFFD}`, `[\x{FFFD}]`, `[^\x{FFFD}]`)
	return atoms, core
}

func classPatterns(rng *rand.Rand, all bool) []string {
	atoms, core := classAtoms(rng, all)
	shapes := []string{`%s`, `^%s$`, `%s$`, `\A%s`, `(?i)^%s`, `(?m)^%s`, `(?s)^%s`, `^%s+`, `^%s*`, `^(?:%s)`, `^(%s)`, `^%s.`, `.*%s.*`, `^%s|x`, `^[%s]`, `^%sx`, `^^%s`, ` ^%s`}
	var out []string
	seen := map[string]bool{}
	add := func(p string) {
		if !seen[p] {
			seen[p] = true
			out = append(out, p)
		}
	}
	for _, a := range atoms {
		add(`^` + a)
	}
	full := core
	if all {
		full = atoms
	}
	for _, a := range full {
		for _, sh := range shapes {
			if strings.Contains(sh, "[%s]") && (strings.HasPrefix(a, "[") || a == "." || strings.HasPrefix(a, "(")) {
				continue
			}
			add(strings.ReplaceAll(sh, "%s", a))
		}
	}
	return out
}

// ---- inputs for a tree with character classes: runes on both sides of every boundary, and runes on which a plausible but
// wrong rune predicate would differ from the class (non-ASCII digits and spaces, title-case and modifier letters, ...)

var interestingRunes = []rune{0, '\t', '\n', '\v', '\f', '\r', ' ', '!', '-', '/', '0', '5', '9', ':', '@', 'A', 'Z', '[', '_', '`', 'a', 'f', 'z', '{', 0x7f,
	0x80, 0x85, 0xa0, 0xaa, 0xad, 0xb2, 0xb5, 0xbd, 0xdf, 0xf7, 0x130, 0x131, 0x17f, 0x1c5, 0x1c8, 0x2b0, 0x300, 0x345, 0x37e, 0x3a3, 0x3c2, 0x660, 0x663, 0x669,
	0x6f0, 0x966, 0x1680, 0x180e, 0x1f88, 0x2000, 0x2003, 0x200b, 0x2028, 0x2029, 0x202f, 0x205f, 0x2060, 0x20ac, 0x2167, 0x2177, 0x212a, 0x24b6, 0x3000, 0x3007,
	0x4e00, 0xd7ff, 0xe000, 0xfeff, 0xff10, 0xff13, 0xff21, 0xfffd, 0xfffe, 0x10000, 0x10400, 0x1d7ce, 0x1f600, 0xe0001, 0x10ffff}

var predSampleRunes []rune

// a few runes of every unicode predicate's set beyond ASCII (first ones and seeded samples)
func initPredSamples(rng *rand.Rand) {
	for _, p := range unicodePreds {
		rs := predRanges(p.fn)
		k := 0
		for _, r := range rs {
			if r[0] > 0x7f && k < 3 {
				predSampleRunes = append(predSampleRunes, r[0], r[1])
				k++
			}
		}
		for i := 0; i < 3 && len(rs) > 0; i++ {
			r := rs[rng.Intn(len(rs))]
			predSampleRunes = append(predSampleRunes, r[0]+rune(rng.Intn(int(r[1]-r[0])+1)))
		}
	}
}

func hasClass(re *syntax.Regexp) bool {
	switch re.Op {
	case syntax.OpCharClass, syntax.OpAnyChar, syntax.OpAnyCharNotNL:
		return true
	}
	for _, s := range re.Sub {
		if hasClass(s) {
			return true
		}
	}
	return false
}

func classInputs(re *syntax.Regexp, rng *rand.Rand, add func(string)) {
	var ranges [][2]rune
	var walk func(r *syntax.Regexp)
	walk = func(r *syntax.Regexp) {
		if r.Op == syntax.OpCharClass {
			for i := 0; i+1 < len(r.Rune); i += 2 {
				ranges = append(ranges, [2]rune{r.Rune[i], r.Rune[i+1]})
			}
		}
		for _, s := range r.Sub {
			walk(s)
		}
	}
	walk(re)
	const maxRanges = 16
	if len(ranges) > maxRanges {
		sel := append([][2]rune{}, ranges[:5]...)
		sel = append(sel, ranges[len(ranges)-3:]...)
		for len(sel) < maxRanges {
			sel = append(sel, ranges[rng.Intn(len(ranges))])
		}
		ranges = sel
	}
	emit := func(r rune, alone bool) {
		if r < 0 || r > unicode.MaxRune || (0xd800 <= r && r <= 0xdfff) {
			return
		}
		if alone {
			add(string(r))
		}
		add(string(r) + "1 a")
	}
	for _, rg := range ranges {
		emit(rg[0]-1, true)
		emit(rg[0], true)
		emit(rg[1], true)
		emit(rg[1]+1, true)
	}
	for _, r := range interestingRunes {
		emit(r, r < 0x80 || r == 0x663 || r == 0xa0 || r == 0x1c5)
	}
	for _, r := range predSampleRunes {
		emit(r, false)
	}
	add("\xed\xa0\x80x")
	add("\xf4\x90\x80\x80")
	add("\xc0\x80")
}

// ---- the table of prefix classes of the current source

type tableEntryObs struct {
	Pat       []byte `json:"pat"`
	Pred      string `json:"pred"`
	Known     bool   `json:"known"`    // the predicate is one of package unicode's
	ParseErr  string `json:"parse_err,omitempty"`
	Ast       string `json:"ast,omitempty"` // the tree syntax.Parse returns, classes written out
	ShapeOK   bool   `json:"shape_ok"`      // Concat[BeginText; CharClass]
	Bad       []int  `json:"bad"`           // runes (first few) on which the predicate and the class differ
	NBad      int    `json:"nbad"`
	PredError bool   `json:"pred_error"` // the predicate accepts U+FFFD (what the matcher decodes the empty input to)
}

type tableObs struct {
	K       string            `json:"k"`
	Entries []tableEntryObs   `json:"entries"`
	Preds   map[string]string `json:"preds"` // unicode predicate -> its range table (Coq list), from calling it on every rune
	Runes   int               `json:"runes"`
}

func classHas(re *syntax.Regexp, r rune) bool {
	for i := 0; i+1 < len(re.Rune); i += 2 {
		if re.Rune[i] <= r && r <= re.Rune[i+1] {
			return true
		}
	}
	return false
}

func tableCheck(table [][2]string) tableObs {
	o := tableObs{K: "table", Preds: map[string]string{}, Runes: int(sweepLimit) + 1}
	for _, p := range unicodePreds {
		o.Preds[p.name] = coqRanges(predRanges(p.fn))
	}
	for _, e := range table {
		eo := tableEntryObs{Pat: []byte(e[0]), Pred: e[1]}
		fn := predByName(e[1])
		eo.Known = fn != nil
		re, err := syntax.Parse(e[0], syntax.Perl)
		if err != nil {
			eo.ParseErr = err.Error()
			o.Entries = append(o.Entries, eo)
			continue
		}
		dedupeClasses = false
		eo.Ast, _ = coqRegex(re)
		dedupeClasses = true
		eo.ShapeOK = re.Op == syntax.OpConcat && len(re.Sub) == 2 && re.Sub[0].Op == syntax.OpBeginText && re.Sub[1].Op == syntax.OpCharClass
		if eo.ShapeOK && fn != nil {
			for r := rune(0); r <= sweepLimit; r++ {
				if fn(r) != classHas(re.Sub[1], r) {
					eo.NBad++
					if len(eo.Bad) < 8 {
						eo.Bad = append(eo.Bad, int(r))
					}
				}
			}
			eo.PredError = fn(utf8.RuneError)
		}
		o.Entries = append(o.Entries, eo)
	}
	return o
}

func parseTableFlag(s string) ([][2]string, error) {
	if s == "" {
		return nil, nil
	}
	var raw [][2]string
	if err := json.Unmarshal([]byte(s), &raw); err != nil {
		return nil, err
	}
	for i := range raw {
		b, err := base64.StdEncoding.DecodeString(raw[i][0])
		if err != nil {
			return nil, err
		}
		raw[i][0] = string(b)
	}
	return raw, nil
}

// ---- exhaustive sweep: a pattern answered by a rune predicate is compared with regexp on every rune as the first
// character of the input (alone and followed by text), on the empty input and on invalid first bytes

type sweepObs struct {
	K     string   `json:"k"`
	Pat   []byte   `json:"pat"`
	Kind  string   `json:"kind"`
	Runes int      `json:"runes"`
	NBad  int      `json:"nbad"`
	Bad   [][]byte `json:"bad"`    // first few inputs with a wrong answer
	BadTM []bool   `json:"bad_tm"` // textmatch's answers on them (regexp's is the opposite)
}

func sweep(pat string) sweepObs {
	o := sweepObs{K: "sweep", Pat: []byte(pat)}
	tm, err := textmatch.Compile(pat)
	re, err2 := regexp.Compile(pat)
	if err != nil || err2 != nil {
		return o
	}
	o.Kind, _, _ = textmatch.VerifDescribe(tm)
	try := func(in string) {
		o.Runes++
		w := re.MatchString(in)
		a, b := tm.MatchString(in), tm.Match([]byte(in))
		if a != w || b != w {
			o.NBad++
			if len(o.Bad) < 8 {
				o.Bad = append(o.Bad, []byte(in))
				o.BadTM = append(o.BadTM, a && b)
			}
		}
	}
	for r := rune(0); r <= unicode.MaxRune; r++ {
		if 0xd800 <= r && r <= 0xdfff {
			continue
		}
		s := string(r)
		try(s)
		try(s + "1 a")
	}
	for _, in := range []string{"", "\xff", "\xc3", "\xed\xa0\x80", "\xf4\x90\x80\x80", "\xe2\x82", "\xc0\x80", "\xffA", "\x80 "} {
		try(in)
	}
	return o
}
