package main

// Engine level: Text.Matches / File().Name.Matches / File().PkgPath.Matches through ONE loaded engine, observed over a
// HISTORY of runs -- several packages, file names and versions of the file text (same offsets, other texts; same path,
// other package) -- once through one reused RunnerState (what the analyzer's pool of states does) and once with a nil
// state (control). Every run is judged on its own: regexp on the text / base name / package path of THAT run.

import (
	"encoding/json"
	"fmt"
	"go/token"
	"math/rand"
	"os"
	"path/filepath"
	"regexp"
	"strconv"
	"strings"

	"verif/harness/internal/hutil"

	"github.com/quasilyte/go-ruleguard/ruleguard"
	"github.com/quasilyte/go-ruleguard/ruleguard/textmatch"
)

type engineObs struct {
	K       string `json:"k"`
	Pred    string `json:"pred"` // text | name | pkgpath | whole | list | cgroup-g | cgroup-opt
	Neg     bool   `json:"neg"`
	Pat     []byte `json:"pat"`
	Input   []byte `json:"input"`
	Got     bool   `json:"got"`  // a report was produced
	Want    bool   `json:"want"` // regexp's verdict on the same text
	Run     int    `json:"run"`  // index in the history of runs
	Mode    string `json:"mode"` // shared: one RunnerState for the whole history; nil: RunContext.State == nil
	Prev    string `json:"prev,omitempty"`
	LoadErr string `json:"load_err,omitempty"`
	Panic   string `json:"panic,omitempty"`
}

// engineRunObs summarises a run whose sites are not listed one by one (they were, for the same version, in an earlier run)
type engineRunObs struct {
	K       string `json:"k"`
	Run     int    `json:"run"`
	Mode    string `json:"mode"`
	Version string `json:"version"`
	Sites   int    `json:"sites"`
	Hits    int    `json:"hits"`
	Bad     int    `json:"bad"`
}

// rotSameLen: variant v of a list of source fragments -- every fragment is replaced by another one of the same byte length
// (rotation inside the classes of equal length), so that all offsets of the generated file stay what they were
func rotSameLen(args []string, v int) []string {
	out := append([]string{}, args...)
	if v == 0 {
		return out
	}
	byLen := map[int][]int{}
	for i, a := range args {
		byLen[len(a)] = append(byLen[len(a)], i)
	}
	for _, idx := range byLen {
		for k, i := range idx {
			out[i] = args[idx[(k+v)%len(idx)]]
		}
	}
	return out
}

type egroup struct {
	pred string
	neg  bool
	pat  string
	expr *bexpr // pred "bool": a boolean combination of Text.Matches atoms over $x and $y
}

// bexpr: a Where() expression built from Text.Matches atoms; every atom means regexp.MatchString of ITS OWN pattern on the
// text of ITS variable, whatever stands next to it
type bexpr struct {
	op   string // atom not and or
	v    string // atom: "x" | "y"
	pat  string
	a, b *bexpr
}

func (e *bexpr) dsl() string {
	switch e.op {
	case "atom":
		q := strconv.Quote(e.pat)
		if !strings.Contains(e.pat, "`") && len(e.pat)%2 == 0 {
			q = "`" + e.pat + "`"
		}
		return fmt.Sprintf("m[%q].Text.Matches(%s)", e.v, q)
	case "not":
		return "!" + e.a.dsl()
	case "and":
		return "(" + e.a.dsl() + " && " + e.b.dsl() + ")"
	}
	return "(" + e.a.dsl() + " || " + e.b.dsl() + ")"
}

func (e *bexpr) eval(x, y string) bool {
	switch e.op {
	case "atom":
		in := x
		if e.v == "y" {
			in = y
		}
		return regexp.MustCompile(e.pat).MatchString(in)
	case "not":
		return !e.a.eval(x, y)
	case "and":
		return e.a.eval(x, y) && e.b.eval(x, y)
	}
	return e.a.eval(x, y) || e.b.eval(x, y)
}

func atom(v, pat string) *bexpr { return &bexpr{op: "atom", v: v, pat: pat} }
func bnot(a *bexpr) *bexpr      { return &bexpr{op: "not", a: a} }
func band(a, b *bexpr) *bexpr   { return &bexpr{op: "and", a: a, b: b} }
func bor(a, b *bexpr) *bexpr    { return &bexpr{op: "or", a: a, b: b} }

// patterns whose meaning would change if they were pasted next to another pattern: top-level flag groups, an unterminated
// \Q, alternations, anchors -- and plain ones
var boolPats = []string{"(?i)^\"foo", "^\"Bar", "(?s)a.b", "x.y", "(?m)^bar\"$", "^foo$", "\\Qa.b", "xyz", "(?i)FOO", "bar\"$", "a|b", "^\"", "(?U)fo+", "fo+x", "(?i:q)", "^\"[A-Z]"}

// boolExprs: disjunctions / conjunctions / negations of Text.Matches atoms on the same and on different variables
func boolExprs(rng *rand.Rand, n int) []*bexpr {
	out := []*bexpr{
		bor(atom("x", "(?i)^\"foo"), atom("x", "^\"Bar")),
		bor(atom("x", "(?s)a.b"), atom("x", "x.y")),
		bor(atom("x", "(?m)^bar\"$"), atom("x", "^foo$")),
		bor(atom("x", "\\Qa.b"), atom("x", "xyz")),
		bor(atom("x", "^\"Bar"), atom("x", "(?i)^\"foo")),
		bor(atom("x", "(?i)^\"foo"), atom("y", "^\"Bar")),
		band(atom("x", "(?i)^\"foo"), atom("x", "o\"$")),
		bor(bnot(atom("x", "(?i)^\"foo")), atom("x", "^\"Bar")),
		bor(bor(atom("x", "(?i)q"), atom("x", "^\"Bar")), atom("x", "xyz")),
		band(bor(atom("x", "(?s)a.b"), atom("x", "x.y")), atom("y", "^\"[a-z]")),
		bor(atom("x", "(?i)^\"foo"), bnot(atom("x", "^\"Bar"))),
		bor(atom("x", "(?U)fo+"), atom("x", "fo+x")),
	}
	for len(out) < n {
		var gen func(d int) *bexpr
		gen = func(d int) *bexpr {
			if d == 0 || rng.Intn(3) == 0 {
				return atom([]string{"x", "x", "y"}[rng.Intn(3)], boolPats[rng.Intn(len(boolPats))])
			}
			switch rng.Intn(4) {
			case 0:
				return bnot(gen(d - 1))
			case 1:
				return band(gen(d-1), gen(d-1))
			}
			return bor(gen(d-1), gen(d-1))
		}
		e := gen(2)
		if e.op == "atom" {
			continue
		}
		out = append(out, e)
	}
	return out
}

type esite struct {
	group int
	pos   int
	arg   string // the text the predicate must see (node-text predicates)
	arg2  string // pred "bool": the text of $y
}

var cgroupRe = regexp.MustCompile(`cg\d+:(\w*)(-opt)?`)

func engineRules(rng *rand.Rand, npat int) (rules string, groups []egroup, pats []string) {
	all := systematicPatterns()
	for _, p := range []string{`foo`, `.*foo.*`, `^"foo`, `foo"$`, `^"foo"$`, `(?i)foo`, `^"[Ff]`, `\x{FFFD}`, `^"\p{Lu}`, `o{2}`, `^$`, `ø`, `\\n`,
		// an anchor next to a dot-star against node texts of several lines (`.` stops at a newline unless (?s) says otherwise)
		`^.*foo`, `foo.*$`, `^.*foo.*$`, `^.*foo` + "`$", "^`foo.*$", `(?s)^.*foo`, `(?m)foo.*$`, `.*foo.*`,
		// parentheses that are literals (bracket expression, \Q..\E, escaped) against texts in which `:` / `?` / `(` decide
		`^[^()]*$`, `[()]`, `\Q(\E`, `\(x\)`, `[(?]`, `^"[^(:]*"$`,
		// two literals with a dot-star in between ("later on the same line") against texts of several lines
		`foo.*bar`, `foo.*foo`, `bar.*foo`, `o.*o bar`} {
		pats = append(pats, p)
	}
	for len(pats) < npat {
		p := all[rng.Intn(len(all))]
		if _, err := regexp.Compile(p); err != nil || p == "" {
			continue
		}
		pats = append(pats, p)
	}
	// every group matches calls of its own function p<gi>(...): within one node the first accepting rule wins,
	// so groups must not compete for a node
	var rb, consts strings.Builder
	rb.WriteString("package gorules\n\nimport \"github.com/quasilyte/go-ruleguard/dsl\"\n\n")
	addGroup := func(pred string, neg bool, pat string) {
		bang := ""
		if neg {
			bang = "!"
		}
		gi := len(groups)
		// the pattern argument in every spelling a rules file may use: interpreted literal, raw literal, a named constant,
		// a constant expression -- the predicate must be compiled from the STRING VALUE
		q := strconv.Quote(pat)
		local := "" // declarations at the top of the group function
		switch gi % 6 {
		case 1:
			if !strings.Contains(pat, "`") && !strings.Contains(pat, "\r") {
				q = "`" + pat + "`"
			}
		case 2:
			fmt.Fprintf(&consts, "const pat%d = %s\n", gi, q)
			q = fmt.Sprintf("pat%d", gi)
		case 3:
			rs := []rune(pat)
			if len(rs) >= 2 {
				q = strconv.Quote(string(rs[:len(rs)/2])) + " + " + strconv.Quote(string(rs[len(rs)/2:]))
			}
		case 4:
			// a constant local to the group function: the SAME name in every such group, another value in each
			local = "\tconst pat = " + q + "\n"
			q = "pat"
		case 5:
			// a group-local constant that shadows a package-level one inside a constant expression: the same expression
			// text in every such group
			rs := []rune(pat)
			local = "\tconst pfx = " + strconv.Quote(string(rs[:len(rs)/2])) + "\n\tconst sfx = " + strconv.Quote(string(rs[len(rs)/2:])) + "\n"
			q = "pfx + sfx"
		}
		var cond string
		switch pred {
		case "text":
			cond = fmt.Sprintf("%sm[\"x\"].Text.Matches(%s)", bang, q)
		case "name":
			cond = fmt.Sprintf("%sm.File().Name.Matches(%s)", bang, q)
		case "pkgpath":
			cond = fmt.Sprintf("%sm.File().PkgPath.Matches(%s)", bang, q)
		case "whole":
			cond = fmt.Sprintf("%sm[\"$$\"].Text.Matches(%s)", bang, q)
		case "list":
			cond = fmt.Sprintf("%sm[\"xs\"].Text.Matches(%s)", bang, q)
		case "cgroup-g":
			cond = fmt.Sprintf("%sm[\"g\"].Text.Matches(%s)", bang, q)
		case "cgroup-opt":
			cond = fmt.Sprintf("%sm[\"opt\"].Text.Matches(%s)", bang, q)
		case "ident":
			cond = fmt.Sprintf("%sm[\"x\"].Text.Matches(%s)", bang, q)
		case "cany":
			cond = fmt.Sprintf("%sm[\"g\"].Text.Matches(%s)", bang, q)
		}
		var fn string
		switch pred {
		case "list":
			// the text of a $*xs capture: the source from the first to the last argument, empty when it matched nothing
			fn = fmt.Sprintf("func g%d(m dsl.Matcher) {\n\tm.Match(`p%d($*xs)`).Where(%s).Report(`hit`)\n}\n", gi, gi, cond)
		case "cgroup-g", "cgroup-opt":
			// a comment group that captured the empty string (g) or did not participate at all (opt) has the empty text
			fn = fmt.Sprintf("func g%d(m dsl.Matcher) {\n\tm.MatchComment(`cg%d:(?P<g>\\w*)(?P<opt>-opt)?`).Where(%s).Report(`hit`)\n}\n", gi, gi, cond)
		case "cany":
			// a comment group that captures the rest of the line: a text that may begin with any rune (spaces, digits of any script)
			fn = fmt.Sprintf("func g%d(m dsl.Matcher) {\n\tm.MatchComment(`ca%d:(?P<g>.*)`).Where(%s).Report(`hit`)\n}\n", gi, gi, cond)
		default:
			fn = fmt.Sprintf("func g%d(m dsl.Matcher) {\n\tm.Match(`p%d($x)`).Where(%s).Report(`hit`)\n}\n", gi, gi, cond)
		}
		rb.WriteString(strings.Replace(fn, "{\n", "{\n"+local, 1))
		groups = append(groups, egroup{pred: pred, neg: neg, pat: pat})
	}
	// boolean combinations of several Text.Matches predicates, on the same and on different variables
	for _, e := range boolExprs(rng, 30) {
		gi := len(groups)
		fmt.Fprintf(&rb, "func g%d(m dsl.Matcher) {\n\tm.Match(`p%d($x, $y)`).Where(%s).Report(`hit`)\n}\n", gi, gi, e.dsl())
		groups = append(groups, egroup{pred: "bool", pat: e.dsl(), expr: e})
	}
	// patterns that tell a base name from a path, an anchored from a floating match, and a package path from a name
	filePats := []string{`^foo`, `^foo\.go$`, `^[^/]*$`, `/`, `_test\.go$`, `^Upper`, `^\p{Lu}`, `^lower_`, `^x/`, `^example\.com/foo$`, `^foo$`,
		`(?i)^FOO`, `ø`, `^f.*\.go$`, `^t[0-9]`, `tmp`, `^/`, `\.go$`, `^Foo/bar$`, `^(foo|Foo)`, `^example\.com/(foo|bar)$`, `^\p{Ll}`, `foo`, `^.{3}$`}
	for i, p := range pats {
		for _, neg := range []bool{false, true} {
			addGroup("text", neg, p)
			if i%3 == 0 {
				addGroup("name", neg, p)
				addGroup("pkgpath", neg, p)
			}
		}
	}
	for _, p := range filePats {
		pats = append(pats, p)
		for _, neg := range []bool{false, true} {
			addGroup("name", neg, p)
			addGroup("pkgpath", neg, p)
		}
	}
	// patterns that match the empty string (and some that do not) against texts that can be empty
	emptyPats := []string{`^$`, `^\s*$`, `x*`, `(?s)^.*$`, `^`, `$`, `a?`, `.*`, `^.+$`, `foo`, `^"a"`, `-opt`, `^abc$`, `.`, `^\w*$`, `\S`, `(?i)^$`, `^\z`}
	for _, p := range emptyPats {
		pats = append(pats, p)
		for _, neg := range []bool{false, true} {
			addGroup("list", neg, p)
			addGroup("cgroup-g", neg, p)
			addGroup("cgroup-opt", neg, p)
			addGroup("text", neg, p)
		}
	}
	// texts that begin with a letter of any case (identifiers) or with any rune at all (the rest of a comment line) against
	// patterns that begin with a character class -- where the rune-predicate fast path is (and every spelling near it)
	for _, p := range []string{`^\p{Lu}`, `^\p{Ll}`, `^\p{Lt}`, `^\p{L}`, `^\pL`, `^[[:upper:]]`, `^\w`, `^\d`, `^[A-Z]`, `^_`, `\p{Lu}`, `(?i)^\p{Lu}`, `^\P{Lu}`, `^\p{Lu}$`, `^\p{Greek}`} {
		pats = append(pats, p)
		for _, neg := range []bool{false, true} {
			addGroup("ident", neg, p)
		}
	}
	for _, p := range []string{`^\s`, `^\d`, `^\S`, `^\D`, `^\w`, `^\p{Nd}`, `^\p{N}`, `^\p{Zs}`, `^\pZ`, `^[[:space:]]`, `^[[:digit:]]`, `^\p{Lu}`, `^\p{Ll}`, `^\p{Lt}`, `^\p{L}`, `^$`, `\s`, `^.`} {
		pats = append(pats, p)
		for _, neg := range []bool{false, true} {
			addGroup("cany", neg, p)
		}
	}
	// the whole match ($$) as the text
	for _, p := range []string{`^p\d+\("foo"\)$`, `foo`, `^"`, `\)$`, `^$`, `(?i)FOO`, `^p`} {
		pats = append(pats, p)
		for _, neg := range []bool{false, true} {
			addGroup("whole", neg, p)
		}
	}
	// package-level constants that the group-local ones of the same name shadow
	consts.WriteString("const pfx = \"^never-\"\nconst sfx = \"-this$\"\nconst pat = \"^nor-that$\"\n")
	return rb.String() + "\n" + consts.String(), groups, pats
}

// engineTarget: the file text of one variant. Variant v > 0 has, in every slot, another text of the same length: all node
// offsets are those of variant 0 while (almost) every text differs.
func engineTarget(groups []egroup, variant int) (string, []esite) {
	texts := []string{"", "foo", "FOO", "Foo", "xfoo", "foox", "fo", "føö", "bar", "foo bar", "Upper", "lower", "ünï", "a\nb", "�", "K", "K", "😀foo", "1", "oof bar", "x", "a:b", "why?", "f(x)"}
	var textArgs []string
	for _, t := range texts {
		textArgs = append(textArgs, strconv.Quote(t))
	}
	textArgs = append(textArgs, "`foo\nbar`", "`x\nfoo`", "`bar\nfoo`", "`foo\nfoo bar`", "`foo bar\nfoo`", "`bar foo\nbar`", "`foo\nbar\nfoo bar`", "`foo\nbar foo\nbar`")
	var tb strings.Builder
	tb.WriteString("package target\n\n")
	tb.WriteString("var x int\n\n")
	idents := []string{"Upper", "lower", "Ünï", "ünï", "ǅx", "ǆx", "ǄX", "_x", "x1", "σ", "Σ", "X1", "ʰx", "ªx", "Ω_"}
	tb.WriteString("var " + strings.Join(idents, ", ") + " string\n\n")
	for gi, g := range groups {
		switch g.pred {
		case "list":
			fmt.Fprintf(&tb, "func p%d(args ...interface{}) {}\n", gi)
		case "cgroup-g", "cgroup-opt", "cany":
		case "bool":
			fmt.Fprintf(&tb, "func p%d(string, string) {}\n", gi)
		default:
			fmt.Fprintf(&tb, "func p%d(string) {}\n", gi)
		}
	}
	tb.WriteString("\nfunc f() {\n")
	boolX := []string{`"bar"`, `"Bar"`, `"foo"`, `"FOO"`, "`x\ny`", "`a\nb`", `"xyz"`, `"a.b"`, `"a.b|xyz"`, "`foo\nbar`", `"fooox"`, `"q"`, `"Q"`, `"b"`, `""`, "`a\nfoo`"}
	boolY := []string{`"Bar"`, `"bar"`, `"Foo"`, `"x"`, `"xyz"`, `"a"`, `"B"`, `""`}
	var sites []esite
	for gi, g := range groups {
		switch g.pred {
		case "list":
			for _, a := range rotSameLen([]string{``, `"a"`, `"a", "b"`, `x,  1`, `"foo"`, `" "`, "x,\n\t\tx", `"b", "a"`, `"bar"`}, variant) {
				tb.WriteString("\t")
				sites = append(sites, esite{group: gi, pos: tb.Len(), arg: a})
				fmt.Fprintf(&tb, "p%d(%s)\n", gi, a)
			}
		case "cgroup-g", "cgroup-opt":
			for _, body := range rotSameLen([]string{"", "abc", "xyz", "abc-opt", "foo-opt", "-opt", "_opt", "foo x", "fo-ox"}, variant) {
				tb.WriteString("\t// ")
				pos := tb.Len()
				text := fmt.Sprintf("cg%d:%s", gi, body)
				m := cgroupRe.FindStringSubmatch(text)
				want := m[1]
				if g.pred == "cgroup-opt" {
					want = m[2]
				}
				sites = append(sites, esite{group: gi, pos: pos, arg: want})
				tb.WriteString(text + "\n")
			}
		case "cany":
			for _, body := range rotSameLen([]string{"\u00a0x", "\vx", "٣ items", "３", " x", "\tx", "ǅ", "Upper", "lower", "1a", "", "\u2003", "\u0085x", "Ⅷ", "²"}, variant) {
				tb.WriteString("\t// ")
				pos := tb.Len()
				sites = append(sites, esite{group: gi, pos: pos, arg: body})
				fmt.Fprintf(&tb, "ca%d:%s\n", gi, body)
			}
		case "ident":
			for _, a := range rotSameLen(idents, variant) {
				tb.WriteString("\t")
				sites = append(sites, esite{group: gi, pos: tb.Len(), arg: a})
				fmt.Fprintf(&tb, "p%d(%s)\n", gi, a)
			}
		case "whole":
			for _, a := range rotSameLen([]string{`"foo"`, `"FOO"`, `""`, "`a\nfoo`", "`foo\na`"}, variant) {
				tb.WriteString("\t")
				sites = append(sites, esite{group: gi, pos: tb.Len(), arg: fmt.Sprintf("p%d(%s)", gi, a)})
				fmt.Fprintf(&tb, "p%d(%s)\n", gi, a)
			}
		case "bool":
			xs, ys := rotSameLen(boolX, variant), rotSameLen(boolY, variant)
			for i, a := range xs {
				b := ys[(i+gi)%len(ys)]
				tb.WriteString("\t")
				sites = append(sites, esite{group: gi, pos: tb.Len(), arg: a, arg2: b})
				fmt.Fprintf(&tb, "p%d(%s, %s)\n", gi, a, b)
			}
		case "text":
			for _, a := range rotSameLen(textArgs, variant) {
				tb.WriteString("\t")
				sites = append(sites, esite{group: gi, pos: tb.Len(), arg: a})
				fmt.Fprintf(&tb, "p%d(%s)\n", gi, a)
			}
		default: // name, pkgpath: one site
			tb.WriteString("\t")
			sites = append(sites, esite{group: gi, pos: tb.Len(), arg: `""`})
			fmt.Fprintf(&tb, "p%d(\"\")\n", gi)
		}
	}
	tb.WriteString("}\n")
	return tb.String(), sites
}

type eversion struct {
	name    string // directory/file below the scratch directory
	pkgPath string
	variant int
	t       *hutil.Target
	sites   []esite
	src     string
}

func engineLevel(enc *json.Encoder, tmp string, rng *rand.Rand, npat int) {
	rules, groups, pats := engineRules(rng, npat)
	res := map[string]*regexp.Regexp{}
	for _, p := range pats {
		res[p] = regexp.MustCompile(p)
	}
	// which matcher Text.Matches gets for each pattern (the File() predicates are compiled by regexp directly)
	kinds := map[string]int{}
	for _, g := range groups {
		if g.pred == "name" || g.pred == "pkgpath" || g.pred == "bool" {
			continue
		}
		if tm, err := textmatch.Compile(g.pat); err == nil {
			k, _, _ := textmatch.VerifDescribe(tm)
			kinds[k]++
		}
	}
	enc.Encode(struct {
		K     string         `json:"k"`
		Kinds map[string]int `json:"kinds"`
	}{"engine-kinds", kinds})
	e, err := hutil.LoadEngine(token.NewFileSet(), map[string]string{"rules.go": rules}, []string{"rules.go"})
	if err != nil {
		enc.Encode(engineObs{K: "engine", LoadErr: err.Error()})
		return
	}
	// versions: five files in five directories and packages; two more AT THE PATH of an earlier one with the other text
	// variant and another package (what a driver sees when a file changes or a package is re-checked under another path)
	versions := []*eversion{
		{name: "t0/foo.go", pkgPath: "example.com/foo", variant: 0},
		{name: "t1/foo_test.go", pkgPath: "foo", variant: 1},
		{name: "t2/Upper.go", pkgPath: "Foo/bar", variant: 0},
		{name: "t3/x/føö.go", pkgPath: "x/føö", variant: 1},
		{name: "t4/lower_foo.go", pkgPath: "example.com/bar", variant: 0},
		{name: "t0/foo.go", pkgPath: "foo", variant: 1},
		{name: "t1/foo_test.go", pkgPath: "example.com/foo", variant: 0},
	}
	var pos0 []esite
	for _, v := range versions {
		v.src, v.sites = engineTarget(groups, v.variant)
		if pos0 == nil {
			pos0 = v.sites
		}
		for i := range v.sites {
			if v.sites[i].pos != pos0[i].pos {
				fmt.Fprintln(os.Stderr, "c11: the variants of the target do not share their offsets")
				os.Exit(3)
			}
		}
		t, err := hutil.CheckTargetPkg(tmp, v.name, []byte(v.src), v.pkgPath)
		if err != nil {
			fmt.Fprintln(os.Stderr, err)
			os.Exit(3)
		}
		v.t = t
	}
	// the history: every version, then the versions backwards (every adjacent pair occurs in both orders), then a seeded walk
	var history []int
	for i := range versions {
		history = append(history, i)
	}
	for i := len(versions) - 1; i >= 0; i-- {
		history = append(history, i)
	}
	for i := 0; i < 4; i++ {
		history = append(history, rng.Intn(len(versions)))
	}
	for _, mode := range []string{"shared", "nil"} {
		var state *ruleguard.RunnerState
		if mode == "shared" {
			state = ruleguard.NewRunnerState(e)
		}
		listed := map[int]bool{}
		var prev []string
		for run, vi := range history {
			v := versions[vi]
			// the engine reads the file bytes from disk: the version analysed now is the one on disk now
			if err := os.WriteFile(v.t.Path, []byte(v.src), 0o644); err != nil {
				fmt.Fprintln(os.Stderr, err)
				os.Exit(3)
			}
			reports, pmsg := hutil.Run(e, v.t, 0, "", state)
			if pmsg != "" {
				enc.Encode(engineObs{K: "engine", Panic: pmsg, Run: run, Mode: mode})
				return
			}
			got := map[[2]int]bool{} // (group, pos)
			for _, r := range reports {
				var gi int
				fmt.Sscanf(r.Group, "g%d", &gi)
				got[[2]int{gi, r.Pos}] = true
			}
			full := mode == "shared" && !listed[vi]
			listed[vi] = true
			sum := engineRunObs{K: "engine-run", Run: run, Mode: mode, Version: v.name + " pkg " + v.pkgPath + " variant " + strconv.Itoa(v.variant)}
			for _, s := range v.sites {
				g := groups[s.group]
				in := s.arg // the node text is the literal as written in the source
				switch g.pred {
				case "name":
					in = filepath.Base(v.name)
				case "pkgpath":
					in = v.pkgPath
				}
				var want bool
				if g.pred == "bool" {
					want = g.expr.eval(s.arg, s.arg2)
					in = "x = " + s.arg + ", y = " + s.arg2
				} else {
					want = res[g.pat].MatchString(in) != g.neg
				}
				have := got[[2]int{s.group, s.pos}]
				sum.Sites++
				if want {
					sum.Hits++
				}
				if have != want {
					sum.Bad++
				}
				if full || have != want {
					o := engineObs{K: "engine", Pred: g.pred, Neg: g.neg, Pat: []byte(g.pat), Input: []byte(in), Got: have, Want: want, Run: run, Mode: mode}
					if have != want {
						o.Prev = strings.Join(prev, "; ")
					}
					enc.Encode(o)
				}
			}
			if !full {
				enc.Encode(sum)
			}
			prev = append(prev, sum.Version)
		}
	}
	// what Load rejects: an empty Text.Matches pattern and a pattern regexp rejects
	for _, bad := range []string{``, `(`, `a{2,1}`} {
		rules := "package gorules\n\nimport \"github.com/quasilyte/go-ruleguard/dsl\"\n\nfunc g(m dsl.Matcher) {\n\tm.Match(`probe($x)`).Where(m[\"x\"].Text.Matches(" + strconv.Quote(bad) + ")).Report(`hit`)\n}\n"
		t, _ := hutil.CheckTargetPkg(tmp, "bad/t.go", []byte("package target\n"), "target")
		_, err := hutil.LoadEngine(t.Fset, map[string]string{"rules.go": rules}, []string{"rules.go"})
		o := engineObs{K: "engine-reject", Pat: []byte(bad), Got: err != nil, Want: true}
		if err != nil {
			o.LoadErr = err.Error()
		}
		enc.Encode(o)
	}
}
