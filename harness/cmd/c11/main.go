// c11: observations for "regexp-taking predicates follow Go regexp semantics; fast paths never change the answer".
//
//	pat    : per pattern: syntax.Parse tree (as a Coq term), matcher chosen by textmatch.Compile (hook), compile
//	         errors of textmatch vs regexp, capture-group detection (hook) vs NumSubexp, and for a list of inputs the
//	         verdicts of textmatch.Match / MatchString / regexp.Match
//	unicode: unicode.IsUpper / IsLower against the classes syntax.Parse builds for ^\p{Lu} / ^\p{Ll}, every rune
//	engine : Text.Matches / File().Name.Matches / File().PkgPath.Matches through a loaded engine vs regexp on the
//	         node text / file name / package path
//
// Output: one JSON object per line on stdout.
package main

import (
	"encoding/json"
	"flag"
	"fmt"
	"math/rand"
	"os"
	"path/filepath"
	"regexp"
	"regexp/syntax"
	"sort"
	"strconv"
	"strings"
	"unicode"

	"verif/harness/internal/hutil"

	"github.com/quasilyte/go-ruleguard/ruleguard"
	"github.com/quasilyte/go-ruleguard/ruleguard/textmatch"
)

type patObs struct {
	K        string   `json:"k"`
	I        int      `json:"i"`
	Pat      []byte   `json:"pat"`
	Err      bool     `json:"err"`
	ReErr    bool     `json:"re_err"`
	ParseErr bool     `json:"parse_err"`
	Ast      string   `json:"ast,omitempty"`
	Kind     string   `json:"kind,omitempty"`
	LitS     []byte   `json:"lit_s"`
	LitB     []byte   `json:"lit_b"`
	HasCap   bool     `json:"hascap"`
	NumSub   int      `json:"numsub"`
	Inputs   [][]byte `json:"inputs,omitempty"`
	TM       string   `json:"tm,omitempty"`
	TMS      string   `json:"tms,omitempty"`
	RE       string   `json:"re,omitempty"`
	Panic    string   `json:"panic,omitempty"`
}

func coqRunes(rs []rune) string {
	parts := make([]string, len(rs))
	for i, r := range rs {
		parts[i] = strconv.Itoa(int(r))
	}
	return "[" + strings.Join(parts, ";") + "]"
}

// coqRegex serialises a syntax tree as a term of RG.Regex.Regex.regex; ok=false for ops outside the model.
func coqRegex(re *syntax.Regexp) (string, bool) {
	subs := func() (string, bool) {
		parts := make([]string, len(re.Sub))
		for i, s := range re.Sub {
			t, ok := coqRegex(s)
			if !ok {
				return "", false
			}
			parts[i] = t
		}
		return "[" + strings.Join(parts, ";") + "]", true
	}
	one := func(ctor string) (string, bool) {
		t, ok := coqRegex(re.Sub[0])
		return "(" + ctor + " " + t + ")", ok
	}
	switch re.Op {
	case syntax.OpNoMatch:
		return "NoMatch", true
	case syntax.OpEmptyMatch:
		return "EmptyMatch", true
	case syntax.OpLiteral:
		fold := "false"
		if re.Flags&syntax.FoldCase != 0 {
			fold = "true"
		}
		return "(Literal " + fold + " " + coqRunes(re.Rune) + ")", true
	case syntax.OpCharClass:
		parts := make([]string, 0, len(re.Rune)/2)
		for i := 0; i+1 < len(re.Rune); i += 2 {
			parts = append(parts, fmt.Sprintf("(%d,%d)", re.Rune[i], re.Rune[i+1]))
		}
		return "(CharClass [" + strings.Join(parts, ";") + "])", true
	case syntax.OpAnyCharNotNL:
		return "AnyCharNotNL", true
	case syntax.OpAnyChar:
		return "AnyChar", true
	case syntax.OpBeginLine:
		return "BeginLine", true
	case syntax.OpEndLine:
		return "EndLine", true
	case syntax.OpBeginText:
		return "BeginText", true
	case syntax.OpEndText:
		return "EndText", true
	case syntax.OpWordBoundary:
		return "WordBoundary", true
	case syntax.OpNoWordBoundary:
		return "NoWordBoundary", true
	case syntax.OpCapture:
		return one("Capture")
	case syntax.OpStar:
		return one("Star")
	case syntax.OpPlus:
		return one("Plus")
	case syntax.OpQuest:
		return one("Quest")
	case syntax.OpRepeat:
		t, ok := coqRegex(re.Sub[0])
		mx := "None"
		if re.Max >= 0 {
			mx = fmt.Sprintf("(Some %d%%nat)", re.Max)
		}
		return fmt.Sprintf("(Repeat %d%%nat %s %s)", re.Min, mx, t), ok
	case syntax.OpConcat:
		t, ok := subs()
		return "(Concat " + t + ")", ok
	case syntax.OpAlternate:
		t, ok := subs()
		return "(Alternate " + t + ")", ok
	}
	return "", false
}

func bits(bs []bool) string {
	var sb strings.Builder
	for _, b := range bs {
		if b {
			sb.WriteByte('1')
		} else {
			sb.WriteByte('0')
		}
	}
	return sb.String()
}

var baseInputs = []string{
	"", "foo", "FOO", "Foo", "fOO", "xfoo", "foox", "xfoox", "fo", "oo", "f", "foo\n", "\nfoo", "x\nfoo", "foo\nx", "a\nfoo\nb",
	"foofoo", "fofoo", "foo foo", "føö", "xføöx", "FØÖ", "\xfffoo", "foo\xff", "f\xffoo", "\xff", "\xef\xbf\xbd", "a\xef\xbf\xbdb",
	"\xc3", "\xc3\xb8", "f\xc3", "\xb8foo", "bar", "Ünïcode", "élan", "1foo", "ſoo", "K", "k", "K", "\xed\xa0\x80", "Upper", "lower",
	"ǅ", "Σ", "σ", "ς", "a", "A", " ", "\n", "\n\n", "fo\no", "x", "\x00", "\xf0\x9f\x98\x80", "\xf0\x9f\x98", "😀foo", "foo😀",
}

// inputs for one pattern: the base pool plus strings derived from the literals in the pattern's syntax tree
func inputsFor(re *syntax.Regexp, rng *rand.Rand) [][]byte {
	var out [][]byte
	seen := map[string]bool{}
	add := func(s string) {
		if !seen[s] {
			seen[s] = true
			out = append(out, []byte(s))
		}
	}
	for _, s := range baseInputs {
		add(s)
	}
	var lits []string
	var walk func(r *syntax.Regexp)
	walk = func(r *syntax.Regexp) {
		if r.Op == syntax.OpLiteral {
			lits = append(lits, string(r.Rune))
		}
		for _, s := range r.Sub {
			walk(s)
		}
	}
	if re != nil {
		walk(re)
	}
	for _, l := range lits {
		add(l)
		add("x" + l)
		add(l + "x")
		add("x" + l + "y")
		add(l + "\n")
		add("\n" + l)
		add("a\n" + l + "\nb")
		add(strings.ToUpper(l))
		add(strings.ToLower(l))
		for _, v := range foldVariants(l) {
			add(v)
			add("x" + v + "y")
		}
		add("\xff" + l)
		add(l + "\xff")
		add("\xc3" + l)
		add(l + "\xb8")
		if len(l) > 1 {
			add(l[:len(l)-1])
			add(l[1:])
			add(l[:1] + "\xff" + l[1:])
		}
		add(l + l)
	}
	frags := []string{"foo", "FOO", "f", "o", "\n", "\xff", "ø", "x", " ", "\xc3", "K", "K", "bar", "\xef\xbf\xbd", "A", "a"}
	frags = append(frags, lits...)
	for i := 0; i < 6; i++ {
		var sb strings.Builder
		n := rng.Intn(6)
		for j := 0; j < n; j++ {
			sb.WriteString(frags[rng.Intn(len(frags))])
		}
		add(sb.String())
	}
	return out
}

// foldVariants: the literal with one rune, and with every rune, replaced by the other members of its unicode.SimpleFold
// orbit -- what a case-insensitive regexp accepts besides the literal itself (not only letters have such variants)
func foldVariants(l string) []string {
	rs := []rune(l)
	var out []string
	all := append([]rune{}, rs...)
	for i, r := range rs {
		for r1 := unicode.SimpleFold(r); r1 != r; r1 = unicode.SimpleFold(r1) {
			v := append([]rune{}, rs...)
			v[i] = r1
			out = append(out, string(v))
		}
		all[i] = unicode.SimpleFold(r)
	}
	if len(rs) > 1 {
		out = append(out, string(all))
	}
	return out
}

// foldingRunes: every rune that has a case variant, split into letters and non-letters (Roman numerals, circled letters,
// combining ypogegrammeni, ...); a seeded sample of both classes is put under (?i) in every fast-path shape
func foldingRunes() (letters, others []rune) {
	for r := rune(0); r <= unicode.MaxRune; r++ {
		if unicode.SimpleFold(r) == r {
			continue
		}
		if unicode.IsLetter(r) {
			letters = append(letters, r)
		} else {
			others = append(others, r)
		}
	}
	return
}

func foldPatterns(rng *rand.Rand, perClass int) []string {
	letters, others := foldingRunes()
	pick := func(rs []rune, fixed []rune) []rune {
		out := append([]rune{}, fixed...)
		for i := 0; i < perClass && len(rs) > 0; i++ {
			out = append(out, rs[rng.Intn(len(rs))])
		}
		return out
	}
	var out []string
	for _, r := range append(pick(letters, []rune{'k', 0x17f, 0x3c3, 0x1c5}), pick(others, []rune{0x2167, 0x2177, 0x24b6, 0x24d0, 0x345})...) {
		q := regexp.QuoteMeta(string(r))
		for _, sh := range []string{"%s", ".*%s.*", "^%s", "%s$", "^%s$", "^1%s2$", "%s-%s"} {
			body := strings.ReplaceAll(sh, "%s", q)
			out = append(out, "(?i)"+body, body)
		}
		// the parser turns a two-element class of a fold pair into a case-folded literal as well
		if r1 := unicode.SimpleFold(r); unicode.SimpleFold(r1) == r {
			out = append(out, "["+q+regexp.QuoteMeta(string(r1))+"]", "^["+q+regexp.QuoteMeta(string(r1))+"]$")
		}
	}
	return out
}

func systematicPatterns() []string {
	lits := []string{`foo`, `(?i:foo)`, `[Ff]oo`, `f`, `føö`, `\x{FFFD}`, `a\x{D800}`, `fo\no`, `\.go`, `Foo`}
	anys := []string{`.*`, `(?s:.*)`, `.+`, `.*?`, `.`, `(?s:.)*`, `.{0,}`, `[^\n]*`}
	begins := []string{`^`, `(?m:^)`, `\A`, ``}
	ends := []string{`$`, `(?m:$)`, `\z`, ``}
	others := []string{`\b`, `[a-z]`, `\p{Lu}`, `\d+`, `(foo)`, `foo|bar`, `(?:foo)`, `x*`}
	var out []string
	seen := map[string]bool{}
	add := func(p string) {
		if !seen[p] {
			seen[p] = true
			out = append(out, p)
		}
	}
	pool := append(append(append(append([]string{}, lits...), anys...), begins...), append(ends, others...)...)
	for _, a := range pool {
		add(a)
	}
	for _, a := range pool {
		for _, b := range pool {
			add(a + b)
		}
	}
	// three-element shapes around a literal: every begin/any x literal x end/any, plus "other" intruders
	left := append(append([]string{}, anys...), begins...)
	left = append(left, others[:3]...)
	right := append(append([]string{}, anys...), ends...)
	right = append(right, others[:3]...)
	for _, l := range left {
		for _, m := range append(append([]string{}, lits...), others...) {
			for _, r := range right {
				add(l + m + r)
			}
		}
	}
	// global flags in front of every fast-path shape
	for _, fl := range []string{`(?i)`, `(?s)`, `(?m)`, `(?U)`, `(?is)`, `(?im)`, `(?sm)`, `(?-s)`, `(?i-i)`} {
		for _, sh := range []string{`foo`, `.*foo.*`, `^foo`, `foo$`, `^foo$`, `^\p{Lu}`, `^\p{Ll}`, `føö`, `^1$`, `.*1.*`} {
			add(fl + sh)
		}
	}
	for _, p := range []string{`^\p{Lu}`, `^\p{Ll}`, `^\p{Lu}$`, `\p{Lu}`, `^\p{Lt}`, `^\pL`, `^[\p{Lu}]`, `\A\p{Lu}`, `^\p{Ll}+`, `^\P{Lu}`, `^[[:upper:]]`,
		`(`, `[`, `a{2,1}`, `\`, `(?P<n>foo)`, `(?P<n>a)|(b)`, `((a))`,
		// named groups in the short spelling (Go >= 1.22), alone, mixed with the long one, nested, optional, inside every fast-path shape
		`(?<n>foo)`, `(?<n>a)|(b)`, `a(?<x>b)?c`, `(?<o>(?<i>a))`, `(?P<a>x)(?<b>y)`, `^(?<n>foo)$`, `.*(?<n>foo).*`, `^(?<n>foo)`, `(?<n>foo)$`, `(?i)(?<n>k)`,
		`(?<n>)`, `(?:(?<n>a)|b)*`, `\((?<n>a)`, `(?<`, `(?<n`, `(?<n>`, `(?<1n>a)`, `\(?<n>a)`, `[(?<n>a)]`, `\Q(?<n>a)\E`, `(?P<`, `\Q(?P<n>a)\E`, `[(?P<n>]a`, `a(?:b)c`, `(?i)(a)`, `a**`, `\x{110000}`, "\xff", `\C`, `(?z)`, `a{1001}`,
		`fo{2}`, `fo{1,}`, `(?:.*)foo(?:.*)`, `.*(foo).*`, `^(?:foo)$`, `foo\z`, `\Afoo\z`, `^foo\z`, `\Afoo$`, `(?m)^foo$`, `(?m:^)foo(?m:$)`, `^^foo`, `foo$$`,
		`\Qfoo\E`, `\Q.*foo.*\E`, `^\Qa.b\E$`, `[f]oo`, `[f][o][o]`, `f[o]o`, `[Ff]`, `^[Ff]`, `[Ff]$`, `^[Ff]$`, `.*[Kk].*`, `(?i)k`, `(?i)^k$`, `(?i)ſ`, `(?i)σ`, `(?i)ǆ`,
		`\x{FFFD}`, `^\x{FFFD}`, `\x{FFFD}$`, `^\x{FFFD}$`, `.*\x{FFFD}.*`, `\x{D800}`, `^\x{DFFF}`, `\x{D7FF}`, `\x{E000}`, `\x{10FFFF}`, `^\x{10FFFF}$`, "�", "a�b",
		`\n`, `^\n`, `\n$`, `^\n$`, `.*\n.*`, `a\nb`, `\x00`, `^\x00$`, `😀`, `^😀`, `😀$`, `.*😀.*`, `^😀$`} {
		add(p)
	}
	return out
}

func randomPattern(rng *rand.Rand, depth int) string {
	atoms := []string{`foo`, `f`, `o`, `.`, `.*`, `^`, `$`, `\A`, `\z`, `\b`, `\B`, `[a-z]`, `[^f]`, `\d`, `\w+`, `ø`, `F`, `\n`, `\pL`, ``, `x`, ` `}
	if depth <= 0 || rng.Intn(3) == 0 {
		return atoms[rng.Intn(len(atoms))]
	}
	switch rng.Intn(9) {
	case 0:
		return randomPattern(rng, depth-1) + randomPattern(rng, depth-1)
	case 1:
		return randomPattern(rng, depth-1) + randomPattern(rng, depth-1) + randomPattern(rng, depth-1)
	case 2:
		return "(?:" + randomPattern(rng, depth-1) + "|" + randomPattern(rng, depth-1) + ")"
	case 3:
		return "(" + randomPattern(rng, depth-1) + ")"
	case 4:
		return "(?:" + randomPattern(rng, depth-1) + ")" + []string{"*", "+", "?", "{2}", "{0,2}", "{1,}", "*?", "+?"}[rng.Intn(8)]
	case 5:
		return []string{"(?i)", "(?s)", "(?m)", "(?U)", "(?i:", "(?s:", "(?m:"}[rng.Intn(7)] + randomPattern(rng, depth-1) + func() string { return "" }()
	case 6:
		return []string{"(?P<g", "(?<g"}[rng.Intn(2)] + strconv.Itoa(rng.Intn(3)) + ">" + randomPattern(rng, depth-1) + ")"
	case 7:
		return "(?i:" + randomPattern(rng, depth-1) + ")"
	default:
		return "(?:" + randomPattern(rng, depth-1) + ")"
	}
}

// foldRunes collects the runes of case-folded literals; their unicode.SimpleFold orbits are what regexp matches them against
var foldRunes = map[rune]bool{}

func collectFold(re *syntax.Regexp) {
	if re.Op == syntax.OpLiteral && re.Flags&syntax.FoldCase != 0 {
		for _, r := range re.Rune {
			foldRunes[r] = true
		}
	}
	for _, s := range re.Sub {
		collectFold(s)
	}
}

func observe(i int, pat string, rng *rand.Rand, withInputs bool) patObs {
	o := patObs{K: "pat", I: i, Pat: []byte(pat)}
	defer func() {
		if r := recover(); r != nil {
			o.Panic = fmt.Sprint(r)
		}
	}()
	tree, perr := syntax.Parse(pat, syntax.Perl)
	o.ParseErr = perr != nil
	if perr == nil {
		if t, ok := coqRegex(tree); ok {
			o.Ast = t
		}
		collectFold(tree)
	}
	re, rerr := regexp.Compile(pat)
	o.ReErr = rerr != nil
	tm, terr := textmatch.Compile(pat)
	o.Err = terr != nil
	o.HasCap = ruleguard.VerifRegexpHasCaptureGroups(pat)
	if re != nil {
		o.NumSub = re.NumSubexp()
	}
	if tm != nil {
		o.Kind, _, _ = textmatch.VerifDescribe(tm)
		_, s, b := textmatch.VerifDescribe(tm)
		o.LitS, o.LitB = []byte(s), b
	}
	if tm == nil || re == nil || !withInputs {
		return o
	}
	o.Inputs = inputsFor(tree, rng)
	a, b, c := make([]bool, len(o.Inputs)), make([]bool, len(o.Inputs)), make([]bool, len(o.Inputs))
	for k, in := range o.Inputs {
		a[k] = tm.Match(in)
		b[k] = tm.MatchString(string(in))
		c[k] = re.Match(in)
	}
	o.TM, o.TMS, o.RE = bits(a), bits(b), bits(c)
	return o
}

type unicodeObs struct {
	K        string `json:"k"`
	UpperAst string `json:"upper_ast"`
	LowerAst string `json:"lower_ast"`
	UpperBad []int  `json:"upper_bad"`
	LowerBad []int  `json:"lower_bad"`
	Runes    int    `json:"runes"`
	ErrorUp  bool   `json:"error_upper"`
	ErrorLow bool   `json:"error_lower"`
}

func classHas(re *syntax.Regexp, r rune) bool {
	for i := 0; i+1 < len(re.Rune); i += 2 {
		if re.Rune[i] <= r && r <= re.Rune[i+1] {
			return true
		}
	}
	return false
}

func unicodeCheck() unicodeObs {
	o := unicodeObs{K: "unicode"}
	up, _ := syntax.Parse(`^\p{Lu}`, syntax.Perl)
	lo, _ := syntax.Parse(`^\p{Ll}`, syntax.Perl)
	o.UpperAst, _ = coqRegex(up)
	o.LowerAst, _ = coqRegex(lo)
	okShape := func(re *syntax.Regexp) bool {
		return re.Op == syntax.OpConcat && len(re.Sub) == 2 && re.Sub[0].Op == syntax.OpBeginText && re.Sub[1].Op == syntax.OpCharClass
	}
	if !okShape(up) || !okShape(lo) {
		o.UpperBad, o.LowerBad = []int{-1}, []int{-1}
		return o
	}
	for r := rune(0); r <= unicode.MaxRune+16; r++ {
		o.Runes++
		if unicode.IsUpper(r) != classHas(up.Sub[1], r) && len(o.UpperBad) < 10 {
			o.UpperBad = append(o.UpperBad, int(r))
		}
		if unicode.IsLower(r) != classHas(lo.Sub[1], r) && len(o.LowerBad) < 10 {
			o.LowerBad = append(o.LowerBad, int(r))
		}
	}
	o.ErrorUp, o.ErrorLow = unicode.IsUpper(0xFFFD), unicode.IsLower(0xFFFD)
	return o
}

// ---- engine level

type engineObs struct {
	K       string `json:"k"`
	Pred    string `json:"pred"` // text | name | pkgpath
	Neg     bool   `json:"neg"`
	Pat     []byte `json:"pat"`
	Input   []byte `json:"input"`
	Got     bool   `json:"got"`  // a report was produced
	Want    bool   `json:"want"` // regexp's verdict on the same text
	LoadErr string `json:"load_err,omitempty"`
	Panic   string `json:"panic,omitempty"`
}

func engineLevel(enc *json.Encoder, tmp string, rng *rand.Rand, npat int) {
	all := systematicPatterns()
	var pats []string
	for _, p := range []string{`foo`, `.*foo.*`, `^"foo`, `foo"$`, `^"foo"$`, `(?i)foo`, `^"[Ff]`, `\x{FFFD}`, `^"\p{Lu}`, `o{2}`, `^$`, `ø`, `\\n`} {
		pats = append(pats, p)
	}
	for len(pats) < npat {
		p := all[rng.Intn(len(all))]
		if _, err := regexp.Compile(p); err != nil || p == "" {
			continue
		}
		pats = append(pats, p)
	}
	texts := []string{"", "foo", "FOO", "Foo", "xfoo", "foox", "fo", "føö", "bar", "foo bar", "Upper", "lower", "ünï", "a\nb", "�", "K", "K", "😀foo", "1"}
	rawTexts := []string{"`foo\nbar`", "`x\nfoo`"}
	fileNames := []string{"foo.go", "foo_test.go", "Upper.go", "x/føö.go", "lower_foo.go"}
	pkgPaths := []string{"example.com/foo", "foo", "Foo/bar", "x/føö"}

	// every group matches calls of its own function p<gi>(...): within one node the first accepting rule wins,
	// so groups must not compete for a node
	var rb strings.Builder
	rb.WriteString("package gorules\n\nimport \"github.com/quasilyte/go-ruleguard/dsl\"\n\n")
	type grp struct {
		pred string
		neg  bool
		pat  string
	}
	var groups []grp
	addGroup := func(pred string, neg bool, pat string) {
		bang := ""
		if neg {
			bang = "!"
		}
		gi := len(groups)
		q := strconv.Quote(pat)
		var cond string
		switch pred {
		case "text":
			cond = fmt.Sprintf("%sm[\"x\"].Text.Matches(%s)", bang, q)
		case "name":
			cond = fmt.Sprintf("%sm.File().Name.Matches(%s)", bang, q)
		case "pkgpath":
			cond = fmt.Sprintf("%sm.File().PkgPath.Matches(%s)", bang, q)
		case "whole":
			cond = fmt.Sprintf("%sm[\"$$\"].Text.Matches(%s)", bang, q)
		case "list":
			cond = fmt.Sprintf("%sm[\"xs\"].Text.Matches(%s)", bang, q)
		case "cgroup-g":
			cond = fmt.Sprintf("%sm[\"g\"].Text.Matches(%s)", bang, q)
		case "cgroup-opt":
			cond = fmt.Sprintf("%sm[\"opt\"].Text.Matches(%s)", bang, q)
		}
		switch pred {
		case "list":
			// the text of a $*xs capture: the source from the first to the last argument, empty when it matched nothing
			fmt.Fprintf(&rb, "func g%d(m dsl.Matcher) {\n\tm.Match(`p%d($*xs)`).Where(%s).Report(`hit`)\n}\n", gi, gi, cond)
		case "cgroup-g", "cgroup-opt":
			// a comment group that captured the empty string (g) or did not participate at all (opt) has the empty text
			fmt.Fprintf(&rb, "func g%d(m dsl.Matcher) {\n\tm.MatchComment(`cg%d:(?P<g>\\w*)(?P<opt>-opt)?`).Where(%s).Report(`hit`)\n}\n", gi, gi, cond)
		default:
			fmt.Fprintf(&rb, "func g%d(m dsl.Matcher) {\n\tm.Match(`p%d($x)`).Where(%s).Report(`hit`)\n}\n", gi, gi, cond)
		}
		groups = append(groups, grp{pred, neg, pat})
	}
	// patterns that tell a base name from a path, an anchored from a floating match, and a package path from a name
	filePats := []string{`^foo`, `^foo\.go$`, `^[^/]*$`, `/`, `_test\.go$`, `^Upper`, `^\p{Lu}`, `^lower_`, `^x/`, `^example\.com/foo$`, `^foo$`,
		`(?i)^FOO`, `ø`, `^f.*\.go$`, `^t[0-9]`, `tmp`, `^/`, `\.go$`, `^Foo/bar$`, `^(foo|Foo)`}
	for i, p := range pats {
		for _, neg := range []bool{false, true} {
			addGroup("text", neg, p)
			if i%3 == 0 {
				addGroup("name", neg, p)
				addGroup("pkgpath", neg, p)
			}
		}
	}
	for _, p := range filePats {
		pats = append(pats, p)
		for _, neg := range []bool{false, true} {
			addGroup("name", neg, p)
			addGroup("pkgpath", neg, p)
		}
	}
	// patterns that match the empty string (and some that do not) against texts that can be empty
	emptyPats := []string{`^$`, `^\s*$`, `x*`, `(?s)^.*$`, `^`, `$`, `a?`, `.*`, `^.+$`, `foo`, `^"a"`, `-opt`, `^abc$`, `.`, `^\w*$`, `\S`, `(?i)^$`, `^\z`}
	for _, p := range emptyPats {
		pats = append(pats, p)
		for _, neg := range []bool{false, true} {
			addGroup("list", neg, p)
			addGroup("cgroup-g", neg, p)
			addGroup("cgroup-opt", neg, p)
			addGroup("text", neg, p)
		}
	}
	// the whole match ($$) as the text
	for _, p := range []string{`^p\d+\("foo"\)$`, `foo`, `^"`, `\)$`, `^$`, `(?i)FOO`, `^p`} {
		pats = append(pats, p)
		for _, neg := range []bool{false, true} {
			addGroup("whole", neg, p)
		}
	}
	var tb strings.Builder
	tb.WriteString("package target\n\n")
	tb.WriteString("var x int\n\n")
	for gi, g := range groups {
		switch g.pred {
		case "list":
			fmt.Fprintf(&tb, "func p%d(args ...interface{}) {}\n", gi)
		case "cgroup-g", "cgroup-opt":
		default:
			fmt.Fprintf(&tb, "func p%d(string) {}\n", gi)
		}
	}
	tb.WriteString("\nfunc f() {\n")
	type site struct {
		group int
		pos   int
		arg   string // the text the predicate must see
	}
	var sites []site
	for gi, g := range groups {
		switch g.pred {
		case "list":
			for _, a := range []string{``, `"a"`, `"a", "b"`, `x,  1`, `"foo"`, `" "`, "x,\n\t\tx"} {
				tb.WriteString("\t")
				sites = append(sites, site{group: gi, pos: tb.Len(), arg: a})
				fmt.Fprintf(&tb, "p%d(%s)\n", gi, a)
			}
			continue
		case "cgroup-g", "cgroup-opt":
			for _, c := range [][3]string{{"", "", ""}, {"abc", "abc", ""}, {"abc-opt", "abc", "-opt"}, {"-opt", "", "-opt"}, {"foo x", "foo", ""}} {
				tb.WriteString("\t// ")
				want := c[1]
				if g.pred == "cgroup-opt" {
					want = c[2]
				}
				sites = append(sites, site{group: gi, pos: tb.Len(), arg: want})
				fmt.Fprintf(&tb, "cg%d:%s\n", gi, c[0])
			}
			continue
		}
		args := []string{`""`}
		if g.pred == "whole" {
			for _, a := range []string{`"foo"`, `"FOO"`, `""`, "`a\nfoo`"} {
				tb.WriteString("\t")
				sites = append(sites, site{group: gi, pos: tb.Len(), arg: fmt.Sprintf("p%d(%s)", gi, a)})
				fmt.Fprintf(&tb, "p%d(%s)\n", gi, a)
			}
			continue
		}
		if g.pred == "text" {
			args = nil
			for _, t := range texts {
				args = append(args, strconv.Quote(t))
			}
			args = append(args, rawTexts...)
		}
		for _, a := range args {
			tb.WriteString("\t")
			sites = append(sites, site{group: gi, pos: tb.Len(), arg: a})
			fmt.Fprintf(&tb, "p%d(%s)\n", gi, a)
		}
	}
	tb.WriteString("}\n")
	res := map[string]*regexp.Regexp{}
	for _, p := range pats {
		res[p] = regexp.MustCompile(p)
	}
	for fi, fname := range fileNames {
		pkgPath := pkgPaths[fi%len(pkgPaths)]
		t, err := hutil.CheckTargetPkg(tmp, filepath.Join("t"+strconv.Itoa(fi), fname), []byte(tb.String()), pkgPath)
		if err != nil {
			fmt.Fprintln(os.Stderr, err)
			os.Exit(3)
		}
		e, err := hutil.LoadEngine(t.Fset, map[string]string{"rules.go": rb.String()}, []string{"rules.go"})
		if err != nil {
			enc.Encode(engineObs{K: "engine", LoadErr: err.Error()})
			return
		}
		reports, pmsg := hutil.Run(e, t, 0, "", nil)
		if pmsg != "" {
			enc.Encode(engineObs{K: "engine", Panic: pmsg})
			return
		}
		got := map[[2]int]bool{} // (group, pos)
		for _, r := range reports {
			var gi int
			fmt.Sscanf(r.Group, "g%d", &gi)
			got[[2]int{gi, r.Pos}] = true
		}
		if fi > 0 {
			// the node texts do not depend on the file name: only the File() predicates are re-observed
			for _, s := range sites {
				g := groups[s.group]
				if g.pred != "name" && g.pred != "pkgpath" {
					continue
				}
				in := filepath.Base(fname)
				if g.pred == "pkgpath" {
					in = pkgPath
				}
				want := res[g.pat].MatchString(in) != g.neg
				enc.Encode(engineObs{K: "engine", Pred: g.pred, Neg: g.neg, Pat: []byte(g.pat), Input: []byte(in), Got: got[[2]int{s.group, s.pos}], Want: want})
			}
			continue
		}
		for _, s := range sites {
			g := groups[s.group]
			in := s.arg // the node text is the literal as written in the source
			switch g.pred {
			case "name":
				in = filepath.Base(fname)
			case "pkgpath":
				in = pkgPath
			}
			want := res[g.pat].MatchString(in) != g.neg
			enc.Encode(engineObs{K: "engine", Pred: g.pred, Neg: g.neg, Pat: []byte(g.pat), Input: []byte(in), Got: got[[2]int{s.group, s.pos}], Want: want})
		}
	}
	// what Load rejects: an empty Text.Matches pattern and a pattern regexp rejects
	for _, bad := range []string{``, `(`, `a{2,1}`} {
		rules := "package gorules\n\nimport \"github.com/quasilyte/go-ruleguard/dsl\"\n\nfunc g(m dsl.Matcher) {\n\tm.Match(`probe($x)`).Where(m[\"x\"].Text.Matches(" + strconv.Quote(bad) + ")).Report(`hit`)\n}\n"
		t, _ := hutil.CheckTargetPkg(tmp, "bad/t.go", []byte("package target\n"), "target")
		_, err := hutil.LoadEngine(t.Fset, map[string]string{"rules.go": rules}, []string{"rules.go"})
		o := engineObs{K: "engine-reject", Pat: []byte(bad), Got: err != nil, Want: true}
		if err != nil {
			o.LoadErr = err.Error()
		}
		enc.Encode(o)
	}
}

// decodeObs: Go's own decoding (what regexp's input stepping sees: an invalid byte is U+FFFD and consumes one byte) and
// string([]rune) encoding, to be compared with the Coq functions decode / encode
type decodeObs struct {
	K      string   `json:"k"`
	Inputs [][]byte `json:"inputs"`
	Runes  [][]int  `json:"runes"`
	Encs   [][]int  `json:"encs"`   // rune lists
	EncOut [][]byte `json:"encout"` // string([]rune)
}

func decodeCheck(rng *rand.Rand, n int) decodeObs {
	o := decodeObs{K: "decode"}
	alphabet := []byte{0x00, 'a', 0x7f, 0x80, 0x8f, 0x90, 0x9f, 0xa0, 0xbf, 0xc0, 0xc1, 0xc2, 0xdf, 0xe0, 0xe1, 0xec, 0xed, 0xee, 0xef, 0xf0, 0xf1, 0xf3, 0xf4, 0xf5, 0xff, 0xbd, 0xbe}
	add := func(b []byte) {
		o.Inputs = append(o.Inputs, b)
		rs := []int{}
		for _, r := range string(b) {
			rs = append(rs, int(r))
		}
		o.Runes = append(o.Runes, rs)
	}
	for _, s := range baseInputs {
		add([]byte(s))
	}
	for i := 0; i < n; i++ {
		b := make([]byte, rng.Intn(7))
		for j := range b {
			if rng.Intn(5) == 0 {
				b[j] = byte(rng.Intn(256))
			} else {
				b[j] = alphabet[rng.Intn(len(alphabet))]
			}
		}
		add(b)
	}
	special := []rune{0, 0x7f, 0x80, 0x7ff, 0x800, 0xd7ff, 0xd800, 0xdfff, 0xe000, 0xfffd, 0xffff, 0x10000, 0x10ffff, 0x110000, -1}
	for i := 0; i < n/4; i++ {
		rs := make([]rune, rng.Intn(4))
		ints := make([]int, len(rs))
		for j := range rs {
			if rng.Intn(2) == 0 {
				rs[j] = special[rng.Intn(len(special))]
			} else {
				rs[j] = rune(rng.Intn(0x110000))
			}
			ints[j] = int(rs[j])
		}
		o.Encs = append(o.Encs, ints)
		o.EncOut = append(o.EncOut, []byte(string(rs)))
	}
	return o
}

func main() {
	seed := flag.Int64("seed", 1, "PRNG seed")
	nrand := flag.Int("rand", 300, "random patterns")
	nengine := flag.Int("engine", 40, "patterns used at engine level")
	nfold := flag.Int("fold", 12, "sampled runes per class (letters / non-letters) with case variants, put under (?i)")
	tmp := flag.String("tmp", "", "scratch directory")
	flag.Parse()
	rng := rand.New(rand.NewSource(*seed))
	enc := json.NewEncoder(os.Stdout)
	enc.SetEscapeHTML(false)

	enc.Encode(unicodeCheck())
	enc.Encode(decodeCheck(rng, 1500))
	pats := systematicPatterns()
	pats = append(pats, foldPatterns(rng, *nfold)...)
	for i := 0; i < *nrand; i++ {
		pats = append(pats, randomPattern(rng, 3))
	}
	seen := map[string]bool{}
	i := 0
	for _, p := range pats {
		if seen[p] {
			continue
		}
		seen[p] = true
		enc.Encode(observe(i, p, rng, true))
		i++
	}
	// orbits of the folded literal runes (emitted after the patterns that use them)
	type foldRec struct {
		K     string  `json:"k"`
		Table [][]int `json:"table"` // [rune, orbit...]
	}
	fr := foldRec{K: "folds"}
	var keys []int
	for r := range foldRunes {
		keys = append(keys, int(r))
	}
	sort.Ints(keys)
	for _, k := range keys {
		row := []int{k}
		for r1 := unicode.SimpleFold(rune(k)); r1 != rune(k); r1 = unicode.SimpleFold(r1) {
			row = append(row, int(r1))
		}
		fr.Table = append(fr.Table, row)
	}
	enc.Encode(fr)
	engineLevel(enc, *tmp, rng, *nengine)
}
