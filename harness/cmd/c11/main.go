// c11: observations for "regexp-taking predicates follow Go regexp semantics; fast paths never change the answer".
//
//	pat    : per pattern: syntax.Parse tree (as a Coq term), matcher chosen by textmatch.Compile (hook), compile
//	         errors of textmatch vs regexp, capture-group detection (hook) vs NumSubexp, and for a list of inputs the
//	         verdicts of textmatch.Match / MatchString / regexp.Match
//	unicode: unicode.IsUpper / IsLower against the classes syntax.Parse builds for ^\p{Lu} / ^\p{Ll}, every rune
//	engine : Text.Matches / File().Name.Matches / File().PkgPath.Matches through a loaded engine vs regexp on the
//	         node text / file name / package path
//
// Output: one JSON object per line on stdout.
package main

import (
	"encoding/json"
	"flag"
	"fmt"
	"math/rand"
	"os"
	"regexp"
	"regexp/syntax"
	"sort"
	"strconv"
	"strings"
	"unicode"

	"github.com/quasilyte/go-ruleguard/ruleguard"
	"github.com/quasilyte/go-ruleguard/ruleguard/textmatch"
)

type patObs struct {
	K        string   `json:"k"`
	I        int      `json:"i"`
	Pat      []byte   `json:"pat"`
	Err      bool     `json:"err"`
	ReErr    bool     `json:"re_err"`
	ParseErr bool     `json:"parse_err"`
	Ast      string   `json:"ast,omitempty"`
	Kind     string   `json:"kind,omitempty"`
	LitS     []byte   `json:"lit_s"`
	LitB     []byte   `json:"lit_b"`
	HasCap   bool     `json:"hascap"`
	NumSub   int      `json:"numsub"`
	Inputs   [][]byte `json:"inputs,omitempty"`
	TM       string   `json:"tm,omitempty"`
	TMS      string   `json:"tms,omitempty"`
	RE       string   `json:"re,omitempty"`
	Panic    string   `json:"panic,omitempty"`
	Unstable []int    `json:"unstable,omitempty"` // inputs on which a second pass (other order) answers differently
}

func coqRunes(rs []rune) string {
	parts := make([]string, len(rs))
	for i, r := range rs {
		parts[i] = strconv.Itoa(int(r))
	}
	return "[" + strings.Join(parts, ";") + "]"
}

// coqRegex serialises a syntax tree as a term of RG.Regex.Regex.regex; ok=false for ops outside the model.
func coqRegex(re *syntax.Regexp) (string, bool) {
	subs := func() (string, bool) {
		parts := make([]string, len(re.Sub))
		for i, s := range re.Sub {
			t, ok := coqRegex(s)
			if !ok {
				return "", false
			}
			parts[i] = t
		}
		return "[" + strings.Join(parts, ";") + "]", true
	}
	one := func(ctor string) (string, bool) {
		t, ok := coqRegex(re.Sub[0])
		return "(" + ctor + " " + t + ")", ok
	}
	switch re.Op {
	case syntax.OpNoMatch:
		return "NoMatch", true
	case syntax.OpEmptyMatch:
		return "EmptyMatch", true
	case syntax.OpLiteral:
		fold := "false"
		if re.Flags&syntax.FoldCase != 0 {
			fold = "true"
		}
		return "(Literal " + fold + " " + coqRunes(re.Rune) + ")", true
	case syntax.OpCharClass:
		return "(CharClass " + coqClass(re) + ")", true
	case syntax.OpAnyCharNotNL:
		return "AnyCharNotNL", true
	case syntax.OpAnyChar:
		return "AnyChar", true
	case syntax.OpBeginLine:
		return "BeginLine", true
	case syntax.OpEndLine:
		return "EndLine", true
	case syntax.OpBeginText:
		return "BeginText", true
	case syntax.OpEndText:
		return "EndText", true
	case syntax.OpWordBoundary:
		return "WordBoundary", true
	case syntax.OpNoWordBoundary:
		return "NoWordBoundary", true
	case syntax.OpCapture:
		return one("Capture")
	case syntax.OpStar:
		return one("Star")
	case syntax.OpPlus:
		return one("Plus")
	case syntax.OpQuest:
		return one("Quest")
	case syntax.OpRepeat:
		t, ok := coqRegex(re.Sub[0])
		mx := "None"
		if re.Max >= 0 {
			mx = fmt.Sprintf("(Some %d%%nat)", re.Max)
		}
		return fmt.Sprintf("(Repeat %d%%nat %s %s)", re.Min, mx, t), ok
	case syntax.OpConcat:
		t, ok := subs()
		return "(Concat " + t + ")", ok
	case syntax.OpAlternate:
		t, ok := subs()
		return "(Alternate " + t + ")", ok
	}
	return "", false
}

func bits(bs []bool) string {
	var sb strings.Builder
	for _, b := range bs {
		if b {
			sb.WriteByte('1')
		} else {
			sb.WriteByte('0')
		}
	}
	return sb.String()
}

var baseInputs = []string{
	"", "foo", "FOO", "Foo", "fOO", "xfoo", "foox", "xfoox", "fo", "oo", "f", "foo\n", "\nfoo", "x\nfoo", "foo\nx", "a\nfoo\nb",
	"foofoo", "fofoo", "foo foo", "føö", "xføöx", "FØÖ", "\xfffoo", "foo\xff", "f\xffoo", "\xff", "\xef\xbf\xbd", "a\xef\xbf\xbdb",
	"\xc3", "\xc3\xb8", "f\xc3", "\xb8foo", "bar", "Ünïcode", "élan", "1foo", "ſoo", "K", "k", "K", "\xed\xa0\x80", "Upper", "lower",
	"ǅ", "Σ", "σ", "ς", "a", "A", " ", "\n", "\n\n", "fo\no", "x", "\x00", "\xf0\x9f\x98\x80", "\xf0\x9f\x98", "😀foo", "foo😀",
}

// inputs for one pattern: the base pool plus strings derived from the literals in the pattern's syntax tree
func inputsFor(re *syntax.Regexp, rng *rand.Rand, pool []string) [][]byte {
	var out [][]byte
	seen := map[string]bool{}
	add := func(s string) {
		if !seen[s] {
			seen[s] = true
			out = append(out, []byte(s))
		}
	}
	for _, s := range baseInputs {
		add(s)
	}
	for _, s := range pool {
		add(s)
	}
	var lits []string
	var walk func(r *syntax.Regexp)
	walk = func(r *syntax.Regexp) {
		if r.Op == syntax.OpLiteral {
			lits = append(lits, string(r.Rune))
		}
		for _, s := range r.Sub {
			walk(s)
		}
	}
	if re != nil {
		walk(re)
	}
	for _, l := range lits {
		add(l)
		add("x" + l)
		add(l + "x")
		add("x" + l + "y")
		add(l + "\n")
		add("\n" + l)
		add("a\n" + l + "\nb")
		// texts of several lines with the literal on the first / a middle / the last line, alone on its line and inside it:
		// `.` stops at a newline, `^` / `$` (without flags) do not see one
		for _, ml := range multiLine(l) {
			add(ml)
		}
		add(strings.ToUpper(l))
		add(strings.ToLower(l))
		for _, v := range foldVariants(l) {
			add(v)
			add("x" + v + "y")
		}
		add("\xff" + l)
		add(l + "\xff")
		add("\xc3" + l)
		add(l + "\xb8")
		if len(l) > 1 {
			add(l[:len(l)-1])
			add(l[1:])
			add(l[:1] + "\xff" + l[1:])
		}
		add(l + l)
	}
	if re != nil && hasClass(re) {
		classInputs(re, rng, add)
	}
	frags := []string{"foo", "FOO", "f", "o", "\n", "\xff", "ø", "x", " ", "\xc3", "K", "K", "bar", "\xef\xbf\xbd", "A", "a"}
	frags = append(frags, lits...)
	for i := 0; i < 6; i++ {
		var sb strings.Builder
		n := rng.Intn(6)
		for j := 0; j < n; j++ {
			sb.WriteString(frags[rng.Intn(len(frags))])
		}
		add(sb.String())
	}
	return out
}

func multiLine(l string) []string {
	return []string{l + "\nz", "z\n" + l, "z\n" + l + "\nw", "x" + l + "y\nz", "z\nx" + l + "y", "z\nx" + l + "y\nw", "z\n" + l + "\n", "\n" + l + "\n", l + "\r\nz", "z\n\n" + l}
}

// anchoredAnyPatterns: an anchor next to a dot-star (in every spelling of either) around a literal -- `^.*foo` is "foo on the
// FIRST line", `foo.*$` "foo on the LAST line" unless the flags say otherwise; a bare `.*foo.*` is plain containment. The full
// product for one literal, the core of it under every flag prefix and for other literals.
func anchoredAnyPatterns() []string {
	begins := []string{`^`, `\A`, `(?m:^)`, ``}
	ends := []string{`$`, `\z`, `(?m:$)`, ``}
	anys := []string{`.*`, `(?s:.*)`, `.+`, `[^\n]*`, `.*?`, ``}
	var out []string
	for _, b := range begins {
		for _, al := range anys {
			for _, ar := range anys {
				for _, e := range ends {
					out = append(out, b+al+`foo`+ar+e)
				}
			}
		}
	}
	core := func(lit string) (ps []string) {
		for _, b := range []string{`^`, ``} {
			for _, al := range []string{`.*`, ``} {
				for _, ar := range []string{`.*`, ``} {
					for _, e := range []string{`$`, ``} {
						ps = append(ps, b+al+lit+ar+e)
					}
				}
			}
		}
		return ps
	}
	for _, fl := range []string{`(?s)`, `(?m)`, `(?sm)`, `(?i)`, `(?U)`, `(?-s)`} {
		for _, p := range core(`foo`) {
			out = append(out, fl+p)
		}
	}
	for _, lit := range []string{`\.go`, `f`, `"foo"`, `føö`, `(foo)`, `(?:foo)`, `fo\no`} {
		out = append(out, core(lit)...)
	}
	// the same shapes one step away: two dot-stars, an anchor on the wrong side, a group around the anchored part
	out = append(out, `^.*.*foo`, `foo.*.*$`, `^(?:.*foo)`, `(?:foo.*)$`, `(^.*)foo`, `foo(.*$)`, `^.*foo|bar`, `bar|foo.*$`, `.*^foo`, `foo$.*`, `^.*$`, `^.*`, `.*$`, `^.*\nfoo`, `foo\n.*$`)
	return out
}

// orderedLiteralPatterns: TWO literals with something that cannot cross a line break (or can: `(?s:.*)`) in between --
// `foo.*bar` is "foo and, later ON THE SAME LINE, bar"; whoever answers it with two substring searches has to get the line
// structure of the input right. Pairs of different, equal and overlapping literals (the second contains the first, the
// first ends with what the second begins with), every spelling of the separator, anchors / outer dot-stars / flags around
// the shape, three literals. Returns the patterns and, per pattern, the two literals as plain text (for orderedPool).
func orderedLiteralPatterns() (pats []string, lits map[string][2]string) {
	lits = map[string][2]string{}
	add := func(p string, a, b string) {
		if _, ok := lits[p]; !ok {
			pats = append(pats, p)
			lits[p] = [2]string{a, b}
		}
	}
	seps := []string{`.*`, `.+`, `.*?`, `(?s:.*)`, `[^\n]*`, `.`, `.?`, `.{0,3}`, `\s*`, `\S*`}
	pairs := [][2]string{{"foo", "bar"}, {"foo", "foo"}, {"Lock()", "Unlock()"}, {"aba", "ba"},
		{"defer ", ".Unlock()"}, {"(", ")"}, {"f", "f"}, {"ab", "b"}, {"a", "ab"}, {"føö", "ø"}, {"bar", "foo"}, {"foo", "\nbar"}, {"o\n", "bar"}}
	for pi, pr := range pairs {
		a, b := regexp.QuoteMeta(pr[0]), regexp.QuoteMeta(pr[1])
		for si, sep := range seps {
			if pi >= 4 && si != 0 && si != 1 && si != 3 {
				continue
			}
			core := a + sep + b
			add(core, pr[0], pr[1])
			if pi < 4 {
				add(`^`+core, pr[0], pr[1])
				add(core+`$`, pr[0], pr[1])
				add(`.*`+core+`.*`, pr[0], pr[1])
				add(`^`+core+`$`, pr[0], pr[1])
			}
		}
		if pi < 4 {
			core := a + `.*` + b
			for _, fl := range []string{`(?s)`, `(?m)`, `(?i)`, `(?U)`, `(?-s)`} {
				add(fl+core, pr[0], pr[1])
			}
			add(`(`+a+`).*`+b, pr[0], pr[1])
			add(`(?:`+a+`.*)`+b, pr[0], pr[1])
			add(a+`(?:.*)`+b, pr[0], pr[1])
			add(a+`.*`+b+`|x`, pr[0], pr[1])
			add(a+`.*.*`+b, pr[0], pr[1])
			add(a+`.*`+b+`.*`+a, pr[0], pr[1])
			add(a+`.*`+a+`.*`+b, pr[0], pr[1])
		}
	}
	return pats, lits
}

// orderedPool: the two literals and line breaks in every order -- every sequence of up to four items drawn from
// {first, second, "\n"}, glued together and separated by blanks -- so that first / second lie on the same line, on
// different lines in either order, several times, with and without a pair on one line; CRLF, too.
func orderedPool(a, b string) []string {
	var out []string
	items := []string{a, b, "\n"}
	var rec func(prefix []string, n int)
	rec = func(prefix []string, n int) {
		if len(prefix) > 0 {
			out = append(out, strings.Join(prefix, ""), strings.Join(prefix, " "))
		}
		if n == 0 {
			return
		}
		for _, it := range items {
			rec(append(append([]string{}, prefix...), it), n-1)
		}
	}
	rec(nil, 4)
	out = append(out, a+"\r\n"+a+" "+b, a+"\r\n"+b, a+" "+b+"\r\n", b+"\n"+b+" "+a+"\n"+a+" "+b, a+"\n\n"+a+"x"+b, a+"\n"+b+"\n"+a+"\n"+b+" "+a+b)
	return out
}

// metaLiteralPatterns: metacharacters in positions where they are LITERALS -- inside a bracket expression, inside \Q..\E,
// behind a backslash -- next to real groups. Whoever reads a pattern as text (not as syntax) takes them for operators.
func metaLiteralPatterns() []string {
	var out []string
	for _, m := range []string{"(", ")", "[", "]", "{", "}", "|", "*", "+", "?", ".", "^", "$", "-", ":", "\\", "<", ">", "!", "=", ","} {
		e := regexp.QuoteMeta(m)
		out = append(out, e, "["+e+"]", "["+m+"]", "[^"+e+"]", "^[^"+e+"]*$", "["+m+",]", "[a"+m+"]", "[^a"+m+"]+", `\Q`+m+`\E`, `x\Q`+m+`\Ey`, `\Q`+m,
			"[[:alpha:]"+m+"]", "("+e+")", "(?:"+e+")", "["+e+"]+(a)", "(a)["+e+"]", "(["+e+"])",
			// an escaped metacharacter under a quantifier / next to an anchor: `x\.*` does not end with a dot-star, `^\^` begins with one anchor
			"x"+e+"*", e+"+y", "x"+e+"?y", "^"+e, e+"$", "^"+e+"$", ".*"+e+".*")
	}
	out = append(out, `[()]`, `^[^()]*$`, `[(][)]`, `[)(]`, `\Q(\E`, `\Q(a)\E`, `\Q()\E`, `\(a\)`, `(\()`, `[(](a)`, `(a)[)]`, `\\(a)`, `[\\(]`, `\Q\(\E`, `\Q(?:\E`, `[(?:)]`,
		`[(?]`, `[(?i)]k`, `\Q(?i)\Ek`, `(?i)[(]k`, `[(](?i)k`, `([(])`, `[^(]*\(`, `\Q[\E(a)`, `[\Q(\E]`, `[(,]`, `[[:alpha:](]`, `^[^():?]*$`, `[(]*:`, `a[(]?b`,
		`[|]`, `a[|]b`, `\Qa|b\E`, `a\|b`, `[*]+`, `\Qa*\E`, `[.]`, `\Q.\E`, `[$]$`, `^[\^]`, `\Q^a$\E`, `[{]1,2}`, `\Qa{2}\E`, `a\{2}`)
	return out
}

// asciiPool: every printable ASCII character alone and inside a word, and strings in which punctuation decides
func asciiPool(pat string) []string {
	var out []string
	for c := byte(0x20); c < 0x7f; c++ {
		out = append(out, string([]byte{c}), "a"+string([]byte{c})+"b")
	}
	out = append(out, "(?:", "(?:)", "a:b", "why?", "T{k: 1}", "s[1:2]", "f(x)", "()", "(a)", "[(]", "a|b", "a*", "a{2}", "^a$", "x(y", "x)y", "aa", "\\(a)", "\\a", pat)
	if len(pat) > 1 {
		out = append(out, pat[1:], pat[:len(pat)-1])
	}
	return out
}

// foldVariants: the literal with one rune, and with every rune, replaced by the other members of its unicode.SimpleFold
// orbit -- what a case-insensitive regexp accepts besides the literal itself (not only letters have such variants)
func foldVariants(l string) []string {
	rs := []rune(l)
	var out []string
	all := append([]rune{}, rs...)
	for i, r := range rs {
		for r1 := unicode.SimpleFold(r); r1 != r; r1 = unicode.SimpleFold(r1) {
			v := append([]rune{}, rs...)
			v[i] = r1
			out = append(out, string(v))
		}
		all[i] = unicode.SimpleFold(r)
	}
	if len(rs) > 1 {
		out = append(out, string(all))
	}
	return out
}

// foldingRunes: every rune that has a case variant, split into letters and non-letters (Roman numerals, circled letters,
// combining ypogegrammeni, ...); a seeded sample of both classes is put under (?i) in every fast-path shape
func foldingRunes() (letters, others []rune) {
	for r := rune(0); r <= unicode.MaxRune; r++ {
		if unicode.SimpleFold(r) == r {
			continue
		}
		if unicode.IsLetter(r) {
			letters = append(letters, r)
		} else {
			others = append(others, r)
		}
	}
	return
}

func foldPatterns(rng *rand.Rand, perClass int) []string {
	letters, others := foldingRunes()
	pick := func(rs []rune, fixed []rune) []rune {
		out := append([]rune{}, fixed...)
		for i := 0; i < perClass && len(rs) > 0; i++ {
			out = append(out, rs[rng.Intn(len(rs))])
		}
		return out
	}
	var out []string
	for _, r := range append(pick(letters, []rune{'k', 0x17f, 0x3c3, 0x1c5}), pick(others, []rune{0x2167, 0x2177, 0x24b6, 0x24d0, 0x345})...) {
		q := regexp.QuoteMeta(string(r))
		for _, sh := range []string{"%s", ".*%s.*", "^%s", "%s$", "^%s$", "^1%s2$", "%s-%s"} {
			body := strings.ReplaceAll(sh, "%s", q)
			out = append(out, "(?i)"+body, body)
		}
		// the parser turns a two-element class of a fold pair into a case-folded literal as well
		if r1 := unicode.SimpleFold(r); unicode.SimpleFold(r1) == r {
			out = append(out, "["+q+regexp.QuoteMeta(string(r1))+"]", "^["+q+regexp.QuoteMeta(string(r1))+"]$")
		}
	}
	return out
}

func systematicPatterns() []string {
	lits := []string{`foo`, `(?i:foo)`, `[Ff]oo`, `f`, `føö`, `\x{FFFD}`, `a\x{D800}`, `fo\no`, `\.go`, `Foo`}
	anys := []string{`.*`, `(?s:.*)`, `.+`, `.*?`, `.`, `(?s:.)*`, `.{0,}`, `[^\n]*`}
	begins := []string{`^`, `(?m:^)`, `\A`, ``}
	ends := []string{`$`, `(?m:$)`, `\z`, ``}
	others := []string{`\b`, `[a-z]`, `\p{Lu}`, `\d+`, `(foo)`, `foo|bar`, `(?:foo)`, `x*`}
	var out []string
	seen := map[string]bool{}
	add := func(p string) {
		if !seen[p] {
			seen[p] = true
			out = append(out, p)
		}
	}
	pool := append(append(append(append([]string{}, lits...), anys...), begins...), append(ends, others...)...)
	for _, a := range pool {
		add(a)
	}
	for _, a := range pool {
		for _, b := range pool {
			add(a + b)
		}
	}
	// three-element shapes around a literal: every begin/any x literal x end/any, plus "other" intruders
	left := append(append([]string{}, anys...), begins...)
	left = append(left, others[:3]...)
	right := append(append([]string{}, anys...), ends...)
	right = append(right, others[:3]...)
	for _, l := range left {
		for _, m := range append(append([]string{}, lits...), others...) {
			for _, r := range right {
				add(l + m + r)
			}
		}
	}
	// global flags in front of every fast-path shape
	for _, fl := range []string{`(?i)`, `(?s)`, `(?m)`, `(?U)`, `(?is)`, `(?im)`, `(?sm)`, `(?-s)`, `(?i-i)`} {
		for _, sh := range []string{`foo`, `.*foo.*`, `^foo`, `foo$`, `^foo$`, `^\p{Lu}`, `^\p{Ll}`, `føö`, `^1$`, `.*1.*`} {
			add(fl + sh)
		}
	}
	for _, p := range []string{`^\p{Lu}`, `^\p{Ll}`, `^\p{Lu}$`, `\p{Lu}`, `^\p{Lt}`, `^\pL`, `^[\p{Lu}]`, `\A\p{Lu}`, `^\p{Ll}+`, `^\P{Lu}`, `^[[:upper:]]`,
		`(`, `[`, `a{2,1}`, `\`, `(?P<n>foo)`, `(?P<n>a)|(b)`, `((a))`,
		// named groups in the short spelling (Go >= 1.22), alone, mixed with the long one, nested, optional, inside every fast-path shape
		`(?<n>foo)`, `(?<n>a)|(b)`, `a(?<x>b)?c`, `(?<o>(?<i>a))`, `(?P<a>x)(?<b>y)`, `^(?<n>foo)$`, `.*(?<n>foo).*`, `^(?<n>foo)`, `(?<n>foo)$`, `(?i)(?<n>k)`,
		`(?<n>)`, `(?:(?<n>a)|b)*`, `\((?<n>a)`, `(?<`, `(?<n`, `(?<n>`, `(?<1n>a)`, `\(?<n>a)`, `[(?<n>a)]`, `\Q(?<n>a)\E`, `(?P<`, `\Q(?P<n>a)\E`, `[(?P<n>]a`, `a(?:b)c`, `(?i)(a)`, `a**`, `\x{110000}`, "\xff", `\C`, `(?z)`, `a{1001}`,
		`fo{2}`, `fo{1,}`, `(?:.*)foo(?:.*)`, `.*(foo).*`, `^(?:foo)$`, `foo\z`, `\Afoo\z`, `^foo\z`, `\Afoo$`, `(?m)^foo$`, `(?m:^)foo(?m:$)`, `^^foo`, `foo$$`,
		`\Qfoo\E`, `\Q.*foo.*\E`, `^\Qa.b\E$`, `[f]oo`, `[f][o][o]`, `f[o]o`, `[Ff]`, `^[Ff]`, `[Ff]$`, `^[Ff]$`, `.*[Kk].*`, `(?i)k`, `(?i)^k$`, `(?i)ſ`, `(?i)σ`, `(?i)ǆ`,
		`\x{FFFD}`, `^\x{FFFD}`, `\x{FFFD}$`, `^\x{FFFD}$`, `.*\x{FFFD}.*`, `\x{D800}`, `^\x{DFFF}`, `\x{D7FF}`, `\x{E000}`, `\x{10FFFF}`, `^\x{10FFFF}$`, "�", "a�b",
		`\n`, `^\n`, `\n$`, `^\n$`, `.*\n.*`, `a\nb`, `\x00`, `^\x00$`, `😀`, `^😀`, `😀$`, `.*😀.*`, `^😀$`} {
		add(p)
	}
	return out
}

func randomPattern(rng *rand.Rand, depth int) string {
	atoms := []string{`foo`, `f`, `o`, `.`, `.*`, `^`, `$`, `\A`, `\z`, `\b`, `\B`, `[a-z]`, `[^f]`, `\d`, `\w+`, `ø`, `F`, `\n`, `\pL`, ``, `x`, ` `}
	if depth <= 0 || rng.Intn(3) == 0 {
		return atoms[rng.Intn(len(atoms))]
	}
	switch rng.Intn(9) {
	case 0:
		return randomPattern(rng, depth-1) + randomPattern(rng, depth-1)
	case 1:
		return randomPattern(rng, depth-1) + randomPattern(rng, depth-1) + randomPattern(rng, depth-1)
	case 2:
		return "(?:" + randomPattern(rng, depth-1) + "|" + randomPattern(rng, depth-1) + ")"
	case 3:
		return "(" + randomPattern(rng, depth-1) + ")"
	case 4:
		return "(?:" + randomPattern(rng, depth-1) + ")" + []string{"*", "+", "?", "{2}", "{0,2}", "{1,}", "*?", "+?"}[rng.Intn(8)]
	case 5:
		return []string{"(?i)", "(?s)", "(?m)", "(?U)", "(?i:", "(?s:", "(?m:"}[rng.Intn(7)] + randomPattern(rng, depth-1) + func() string { return "" }()
	case 6:
		return []string{"(?P<g", "(?<g"}[rng.Intn(2)] + strconv.Itoa(rng.Intn(3)) + ">" + randomPattern(rng, depth-1) + ")"
	case 7:
		return "(?i:" + randomPattern(rng, depth-1) + ")"
	default:
		return "(?:" + randomPattern(rng, depth-1) + ")"
	}
}

// foldRunes collects the runes of case-folded literals; their unicode.SimpleFold orbits are what regexp matches them against
var foldRunes = map[rune]bool{}

func collectFold(re *syntax.Regexp) {
	if re.Op == syntax.OpLiteral && re.Flags&syntax.FoldCase != 0 {
		for _, r := range re.Rune {
			foldRunes[r] = true
		}
	}
	for _, s := range re.Sub {
		collectFold(s)
	}
}

func observe(i int, pat string, rng *rand.Rand, withInputs bool, pool []string) patObs {
	o := patObs{K: "pat", I: i, Pat: []byte(pat)}
	defer func() {
		if r := recover(); r != nil {
			o.Panic = fmt.Sprint(r)
		}
	}()
	tree, perr := syntax.Parse(pat, syntax.Perl)
	o.ParseErr = perr != nil
	if perr == nil {
		if t, ok := coqRegex(tree); ok {
			o.Ast = t
		}
		collectFold(tree)
	}
	re, rerr := regexp.Compile(pat)
	o.ReErr = rerr != nil
	tm, terr := textmatch.Compile(pat)
	o.Err = terr != nil
	o.HasCap = ruleguard.VerifRegexpHasCaptureGroups(pat)
	if re != nil {
		o.NumSub = re.NumSubexp()
	}
	if tm != nil {
		o.Kind, _, _ = textmatch.VerifDescribe(tm)
		_, s, b := textmatch.VerifDescribe(tm)
		o.LitS, o.LitB = []byte(s), b
	}
	if tm == nil || re == nil || !withInputs {
		return o
	}
	o.Inputs = inputsFor(tree, rng, pool)
	a, b, c := make([]bool, len(o.Inputs)), make([]bool, len(o.Inputs)), make([]bool, len(o.Inputs))
	for k, in := range o.Inputs {
		a[k] = tm.Match(in)
		b[k] = tm.MatchString(string(in))
		c[k] = re.Match(in)
	}
	o.TM, o.TMS, o.RE = bits(a), bits(b), bits(c)
	// a compiled pattern is used many times: a second pass in the other order, string entry point first, must repeat the answers
	for k := len(o.Inputs) - 1; k >= 0; k-- {
		in := o.Inputs[k]
		if tm.MatchString(string(in)) != b[k] || tm.Match(in) != a[k] {
			o.Unstable = append(o.Unstable, k)
		}
	}
	return o
}

// decodeObs: Go's own decoding (what regexp's input stepping sees: an invalid byte is U+FFFD and consumes one byte) and
// string([]rune) encoding, to be compared with the Coq functions decode / encode
type decodeObs struct {
	K      string   `json:"k"`
	Inputs [][]byte `json:"inputs"`
	Runes  [][]int  `json:"runes"`
	Encs   [][]int  `json:"encs"`   // rune lists
	EncOut [][]byte `json:"encout"` // string([]rune)
}

func decodeCheck(rng *rand.Rand, n int) decodeObs {
	o := decodeObs{K: "decode"}
	alphabet := []byte{0x00, 'a', 0x7f, 0x80, 0x8f, 0x90, 0x9f, 0xa0, 0xbf, 0xc0, 0xc1, 0xc2, 0xdf, 0xe0, 0xe1, 0xec, 0xed, 0xee, 0xef, 0xf0, 0xf1, 0xf3, 0xf4, 0xf5, 0xff, 0xbd, 0xbe}
	add := func(b []byte) {
		o.Inputs = append(o.Inputs, b)
		rs := []int{}
		for _, r := range string(b) {
			rs = append(rs, int(r))
		}
		o.Runes = append(o.Runes, rs)
	}
	for _, s := range baseInputs {
		add([]byte(s))
	}
	for i := 0; i < n; i++ {
		b := make([]byte, rng.Intn(7))
		for j := range b {
			if rng.Intn(5) == 0 {
				b[j] = byte(rng.Intn(256))
			} else {
				b[j] = alphabet[rng.Intn(len(alphabet))]
			}
		}
		add(b)
	}
	special := []rune{0, 0x7f, 0x80, 0x7ff, 0x800, 0xd7ff, 0xd800, 0xdfff, 0xe000, 0xfffd, 0xffff, 0x10000, 0x10ffff, 0x110000, -1}
	for i := 0; i < n/4; i++ {
		rs := make([]rune, rng.Intn(4))
		ints := make([]int, len(rs))
		for j := range rs {
			if rng.Intn(2) == 0 {
				rs[j] = special[rng.Intn(len(special))]
			} else {
				rs[j] = rune(rng.Intn(0x110000))
			}
			ints[j] = int(rs[j])
		}
		o.Encs = append(o.Encs, ints)
		o.EncOut = append(o.EncOut, []byte(string(rs)))
	}
	return o
}

func main() {
	seed := flag.Int64("seed", 1, "PRNG seed")
	nrand := flag.Int("rand", 300, "random patterns")
	nengine := flag.Int("engine", 40, "patterns used at engine level")
	nfold := flag.Int("fold", 12, "sampled runes per class (letters / non-letters) with case variants, put under (?i)")
	tmp := flag.String("tmp", "", "scratch directory")
	tableFlag := flag.String("table", "", "the table of prefix classes read off the source: JSON [[base64 pattern, unicode predicate], ...]")
	allClasses := flag.Bool("allclasses", false, "every class spelling in every shape; sweep every ^class pattern over all runes")
	flag.Parse()
	rng := rand.New(rand.NewSource(*seed))
	enc := json.NewEncoder(os.Stdout)
	enc.SetEscapeHTML(false)

	table, err := parseTableFlag(*tableFlag)
	if err != nil {
		fmt.Fprintln(os.Stderr, "c11: bad -table:", err)
		os.Exit(3)
	}
	initPredSamples(rng)
	enc.Encode(tableCheck(table))
	enc.Encode(decodeCheck(rng, 1500))
	pats := systematicPatterns()
	for _, e := range table {
		pats = append(pats, e[0])
	}
	cps := classPatterns(rng, *allClasses)
	isClassPat := map[string]bool{}
	for _, p := range cps {
		isClassPat[p] = true
	}
	pats = append(pats, cps...)
	pats = append(pats, foldPatterns(rng, *nfold)...)
	pats = append(pats, anchoredAnyPatterns()...)
	isMeta := map[string]bool{}
	for _, p := range metaLiteralPatterns() {
		isMeta[p] = true
		pats = append(pats, p)
	}
	ordPats, ordLits := orderedLiteralPatterns()
	pats = append(pats, ordPats...)
	for i := 0; i < *nrand; i++ {
		pats = append(pats, randomPattern(rng, 3))
	}
	seen := map[string]bool{}
	i := 0
	var toSweep []string
	for _, p := range pats {
		if seen[p] {
			continue
		}
		seen[p] = true
		var pool []string
		if isMeta[p] {
			pool = asciiPool(p)
		}
		if l, ok := ordLits[p]; ok {
			pool = append(pool, orderedPool(l[0], l[1])...)
		}
		o := observe(i, p, rng, true, pool)
		enc.Encode(o)
		// whatever textmatch answers with a rune predicate is compared with regexp on every rune
		if o.Kind == "pred" || (*allClasses && isClassPat[p] && strings.HasPrefix(p, "^") && o.Kind != "regexp" && o.Kind != "") {
			toSweep = append(toSweep, p)
		}
		i++
	}
	for _, p := range toSweep {
		enc.Encode(sweep(p))
	}
	// classes named once
	type classRec struct {
		K    string            `json:"k"`
		Defs map[string]string `json:"defs"`
	}
	enc.Encode(classRec{K: "classes", Defs: classDefs})
	// orbits of the folded literal runes (emitted after the patterns that use them)
	type foldRec struct {
		K     string  `json:"k"`
		Table [][]int `json:"table"` // [rune, orbit...]
	}
	fr := foldRec{K: "folds"}
	var keys []int
	for r := range foldRunes {
		keys = append(keys, int(r))
	}
	sort.Ints(keys)
	for _, k := range keys {
		row := []int{k}
		for r1 := unicode.SimpleFold(rune(k)); r1 != rune(k); r1 = unicode.SimpleFold(r1) {
			row = append(row, int(r1))
		}
		fr.Table = append(fr.Table, row)
	}
	enc.Encode(fr)
	engineLevel(enc, *tmp, rng, *nengine)
}
