// c12: observations for "comment rules report the matched span and its named groups precisely; first accepting
// comment rule wins".
// A rules file with MatchComment rules (named / unnamed / optional / nested / alternative groups, no groups, filters,
// At(), Suggest(), two alternatives) is run over a generated file whose comments sit at offsets known by construction
// (line and block comments, multi-line, multi-byte prefixes, adjacent comments, CRLF inside block comments, a comment
// at EOF). For every comment: the submatch indices regexp returns on comment.Text (the model's regexp oracle) and on
// the comment's SOURCE bytes (the property's oracle), the observed report(s) and the expected report.
package main

import (
	"encoding/json"
	"flag"
	"fmt"
	"go/ast"
	"math/rand"
	"os"
	"regexp"
	"strings"

	"verif/harness/internal/hutil"

	"github.com/quasilyte/go-ruleguard/ruleguard"
)

type ruleSpec struct {
	Pat    string     `json:"pat"`
	Names  []string   `json:"names"`  // regexp.SubexpNames()
	Groups bool       `json:"groups"` // regexpHasCaptureGroups (hook)
	Filter *[2]string `json:"filter"` // Where(m[name].Text == lit)
	Msg    string     `json:"msg"`
	Sugg   string     `json:"sugg"`
	At     string     `json:"at"`
	Line   int        `json:"line"`
	Group  string     `json:"group"`
	re     *regexp.Regexp
}

type report struct {
	Pos      int    `json:"pos"`
	End      int    `json:"end"`
	Msg      []byte `json:"msg"`
	HasSugg  bool   `json:"has_sugg"`
	SuggFrom int    `json:"sugg_from"`
	SuggTo   int    `json:"sugg_to"`
	Sugg     []byte `json:"sugg"`
	Line     int    `json:"line"`
	Group    string `json:"group"`
	Rule     int    `json:"rule"` // index into the flattened rule list (expected side only)
}

type commentObs struct {
	K      string   `json:"k"`
	L      int      `json:"L"`
	Off    int      `json:"off"`
	Src    []byte   `json:"src"`  // the comment's bytes in the file
	Text   []byte   `json:"text"` // ast.Comment.Text
	HasCR  bool     `json:"has_cr"`
	Idx    [][]int  `json:"idx"`     // per rule: FindStringSubmatchIndex(comment.Text) or null
	IdxSrc [][]int  `json:"idx_src"` // per rule: FindSubmatchIndex(source bytes) or null
	Obs    []report `json:"obs"`
	Want   *report  `json:"want"`
	Panic  string   `json:"panic,omitempty"`
}

func truncSpec(s []byte, l int) []byte {
	e := l
	if e == 0 {
		e = 60
	}
	if len(s) <= e {
		return s
	}
	if e < 5 {
		if e < 0 {
			e = 0
		}
		return s[:e]
	}
	m := e - 5
	lft := m / 2
	rgt := m - lft
	out := append([]byte{}, s[:lft]...)
	out = append(out, "<...>"...)
	return append(out, s[len(s)-rgt:]...)
}

type capText struct {
	name string
	text []byte
}

func interpSpec(msg string, caps []capText, whole []byte, trunc bool, l int) []byte {
	var out []byte
	show := func(t []byte) []byte {
		if trunc {
			return truncSpec(t, l)
		}
		return t
	}
	for i := 0; i < len(msg); {
		if msg[i] != '$' {
			out = append(out, msg[i])
			i++
			continue
		}
		rest := msg[i+1:]
		if strings.HasPrefix(rest, "$") {
			out = append(out, show(whole)...)
			i += 2
			continue
		}
		best := -1
		for k, c := range caps {
			if strings.HasPrefix(rest, c.name) && (best < 0 || len(c.name) > len(caps[best].name)) {
				best = k
			}
		}
		if best < 0 {
			out = append(out, '$')
			i++
			continue
		}
		out = append(out, show(caps[best].text)...)
		i += 1 + len(caps[best].name)
	}
	return out
}

type ruleDef struct {
	pats   []string
	filter *[2]string
	msg    string
	sugg   string
	at     string
}

var fixedRules = []ruleDef{
	{pats: []string{`TODO\((?P<who>\w+)\):\s*(?P<what>.*)`}, msg: "todo $who: $what [$$]"},
	{pats: []string{`(?P<key>\w+)=(?P<val>\w*)`}, filter: &[2]string{"key", "mode"}, msg: "kv $key=$val", sugg: "$val=$key"},
	{pats: []string{`(\w+)=(?P<val>\w*)`}, msg: "anykv $val of $$ ($nope $)", at: "val"},
	{pats: []string{`(?P<a>foo)|(?P<b>bar)`}, msg: "alt a=[$a] b=[$b] $$", sugg: "<$a$b>"},
	{pats: []string{`FIXME`}, msg: "fixme $$", sugg: "TODO"},
	{pats: []string{`x(?P<opt>y)?z`}, msg: "opt=[$opt] in $$"},
	{pats: []string{`((?P<in>a+)b)+c`}, msg: "nested $in|$$|$", sugg: "$in$"},
	{pats: []string{`ø(?P<g>.)`}, msg: "mb $g", at: "g", sugg: "<$g>"},
	{pats: []string{`(?P<n>\d+)-(?P<nn>\d+)`}, msg: "$nn/$n", sugg: "$nn-$n"},
	{pats: []string{`beta\s+(?P<w>\w+)`}, msg: "w=$w", at: "w", sugg: "W"},
	{pats: []string{`(?s)BEGIN(?P<body>.*)END`}, msg: "body=$body"},
	{pats: []string{`alt1-(?P<v>\d)`, `alt2-(?P<v>\d)(?P<rest>\w*)`}, msg: "v=$v"},
	{pats: []string{`(?P<first>\w+) (?P<second>\w+)$`}, filter: &[2]string{"second", "end"}, msg: "pair $first+$second", at: "first"},
	{pats: []string{`^//\s*(?P<all>.+)$`}, filter: &[2]string{"all", "whole line"}, msg: "line:$all"},
}

var randomPieces = []string{`(?P<p>\w+)`, `(\d+)`, `(?P<q>[a-z]*)`, `-`, `\s*`, `(?P<r>x)?`, `=`, `(?:ab)+`, `.`, `(?P<s>ø+)`, `!`}

func main() {
	seed := flag.Int64("seed", 1, "PRNG seed")
	nrand := flag.Int("rand", 6, "random extra comment rules")
	ncomments := flag.Int("comments", 60, "random extra comments")
	tmp := flag.String("tmp", "", "scratch directory")
	flag.Parse()
	rng := rand.New(rand.NewSource(*seed))
	enc := json.NewEncoder(os.Stdout)
	enc.SetEscapeHTML(false)

	defs := append([]ruleDef{}, fixedRules...)
	for i := 0; i < *nrand; i++ {
		var sb strings.Builder
		used := map[string]bool{}
		n := 2 + rng.Intn(4)
		var names []string
		for j := 0; j < n; j++ {
			p := randomPieces[rng.Intn(len(randomPieces))]
			if strings.HasPrefix(p, "(?P<") {
				nm := p[4:5]
				if used[nm] {
					continue
				}
				used[nm] = true
				names = append(names, nm)
			}
			sb.WriteString(p)
		}
		d := ruleDef{pats: []string{sb.String()}, msg: "r" + fmt.Sprint(i) + " $$ $ $zz"}
		for _, nm := range names {
			d.msg += " " + nm + "=[$" + nm + "]"
		}
		if len(names) > 0 && rng.Intn(2) == 0 {
			d.at = names[rng.Intn(len(names))]
		}
		if rng.Intn(2) == 0 {
			d.sugg = "S$$"
		}
		if _, err := regexp.Compile(d.pats[0]); err != nil || d.pats[0] == "" || regexp.MustCompile(d.pats[0]).MatchString("") {
			continue // a pattern matching the empty string would fire on every comment first
		}
		// random rules go in front of / between the fixed ones
		k := rng.Intn(len(defs) + 1)
		defs = append(defs[:k], append([]ruleDef{d}, defs[k:]...)...)
	}

	// ---- rules file, flattened rule list in load order
	var rb strings.Builder
	line := 1
	w := func(s string) {
		rb.WriteString(s)
		line += strings.Count(s, "\n")
	}
	w("package gorules\n\nimport \"github.com/quasilyte/go-ruleguard/dsl\"\n\n")
	var rules []ruleSpec
	for di, d := range defs {
		group := fmt.Sprintf("c%d", di)
		w(fmt.Sprintf("func %s(m dsl.Matcher) {\n\tm.MatchComment(\n", group))
		var altLines []int
		for k, p := range d.pats {
			altLines = append(altLines, line)
			w("\t\t`" + p + "`,\n")
			if k == 0 && len(d.pats) > 1 {
				w("\n")
			}
		}
		w("\t)")
		if d.filter != nil {
			w(fmt.Sprintf(".\n\t\tWhere(m[%q].Text == %q)", d.filter[0], d.filter[1]))
		}
		if d.at != "" {
			w(fmt.Sprintf(".\n\t\tAt(m[%q])", d.at))
		}
		w(".\n\t\tReport(`" + d.msg + "`)")
		if d.sugg != "" {
			w(".\n\t\tSuggest(`" + d.sugg + "`)")
		}
		w("\n}\n\n")
		for k, p := range d.pats {
			re := regexp.MustCompile(p)
			rules = append(rules, ruleSpec{Pat: p, Names: re.SubexpNames(), Groups: ruleguard.VerifRegexpHasCaptureGroups(p), Filter: d.filter,
				Msg: d.msg, Sugg: d.sugg, At: d.at, Line: altLines[k], Group: group, re: re})
		}
	}

	// ---- target file with comments at known offsets
	type cm struct {
		off int
		src string
	}
	var tb strings.Builder
	var comments []cm
	addc := func(prefix, c, suffix string) {
		tb.WriteString(prefix)
		comments = append(comments, cm{off: tb.Len(), src: c})
		tb.WriteString(c)
		tb.WriteString(suffix)
	}
	tb.WriteString("package target\n\n")
	addc("", "// TODO(bob): fix this", "\n")
	addc("", "// whole line", "\n")
	tb.WriteString("func f() {\n")
	addc("\tx := 1 ", "// TODO(alice):   second   ", "\n")
	addc("\t", "/* mode=fast */", "\n")
	addc("\t", "// speed=3", "\n")
	addc("\t_ = x ", "// foo", "\n")
	addc("\t", "// a bar b foo", "\n")
	addc("\t", "// FIXME later FIXME again", "\n")
	addc("\t", "// xz then xyz", "\n")
	addc("\t", "// aabaaabc", "\n")
	addc("\t", "// søren øl!", "\n")
	addc("\ts := \"héé日本\" ", "// mode=slow", "\n")
	addc("\t_ = s ", "// 12-345 and 6-7", "\n")
	addc("\t", "/* beta  word */", "\n")
	addc("\t", "/* BEGIN\n\t line1\n\t line2 END */", "\n")
	addc("\t", "/*a=1*/", "")
	addc("", "/*mode=2*/", "\n")
	addc("\t", "// alt2-7xy alt1-3", "\n")
	addc("\t", "// alt1-9", "\n")
	addc("\t", "// the end", "\n")
	addc("\t", "// ø", "\n")
	addc("\t", "//", "\n")
	addc("\t", "/**/", "\n")
	// CRLF: go/scanner strips \r from the comment text
	addc("\t", "/* ab\r\ncd FIXME */", "\n")
	addc("\t", "/* k=1\r\n mode=crlf\r\n*/", "\n")
	addc("\t", "// FIXME crlf line", "\r\n")
	addc("\t", "/* foo\r*/", "\n")
	frags := []string{"foo", "bar", "FIXME", "k=v", "mode=x", "12-3", "xyz", "xz", "aab", "c", "ø", "øl", " ", "TODO(x): y", "beta w", "alt1-1", "end", "the", "=", "é", "ab", "!", "x-", "1"}
	for i := 0; i < *ncomments; i++ {
		var sb strings.Builder
		n := 1 + rng.Intn(5)
		for j := 0; j < n; j++ {
			sb.WriteString(frags[rng.Intn(len(frags))])
			if rng.Intn(3) == 0 {
				sb.WriteByte(' ')
			}
		}
		body := sb.String()
		switch rng.Intn(4) {
		case 0:
			addc("\t", "/* "+body+" */", "\n")
		case 1:
			addc("\t", "/*"+strings.ReplaceAll(body, " ", "\n")+"*/", "\n")
		case 2:
			addc("\t_ = \"ü\" ", "//"+body, "\n")
		default:
			addc("\t", "// "+body, "\n")
		}
	}
	tb.WriteString("}\n\n")
	addc("", "// FIXME at eof", "") // no trailing newline
	src := []byte(tb.String())

	t, err := hutil.CheckTarget(*tmp, "c12/target.go", src)
	if err != nil {
		fmt.Fprintln(os.Stderr, "target:", err)
		os.Exit(3)
	}
	e, err := hutil.LoadEngine(t.Fset, map[string]string{"rules.go": rb.String()}, []string{"rules.go"})
	if err != nil {
		fmt.Fprintln(os.Stderr, "load:", err)
		fmt.Fprintln(os.Stderr, rb.String())
		os.Exit(3)
	}
	// comment texts as the parser delivers them, by offset
	texts := map[int]string{}
	ncom := 0
	for _, cg := range t.File.Comments {
		for _, c := range cg.List {
			texts[t.Fset.Position(c.Pos()).Offset] = c.Text
			ncom++
		}
	}
	var _ ast.Node
	enc.Encode(map[string]interface{}{"k": "rules", "rules": rules})
	enc.Encode(map[string]interface{}{"k": "file", "src": src, "srcn": len(src), "parser_comments": ncom, "built_comments": len(comments)})

	for _, L := range []int{0, 15} {
		reports, pmsg := hutil.Run(e, t, L, "", nil)
		if pmsg != "" {
			enc.Encode(commentObs{K: "comment", L: L, Panic: pmsg})
			continue
		}
		for ci, c := range comments {
			o := commentObs{K: "comment", L: L, Off: c.off, Src: []byte(c.src), HasCR: strings.Contains(c.src, "\r")}
			text, ok := texts[c.off]
			if !ok {
				o.Panic = "the parser has no comment at this offset"
				enc.Encode(o)
				continue
			}
			o.Text = []byte(text)
			for _, r := range rules {
				o.Idx = append(o.Idx, r.re.FindStringSubmatchIndex(text))
				o.IdxSrc = append(o.IdxSrc, r.re.FindSubmatchIndex([]byte(c.src)))
			}
			// observed: reports whose node starts inside the comment's source span
			for _, r := range reports {
				// a report belongs to the comment that contains its start; a zero-width node sitting exactly at the end of
				// the comment (an empty group selected by At()) belongs to it too, unless the next comment starts right there
				// and the node is not zero-width
				inside := r.Pos >= c.off && r.Pos < c.off+len(c.src)
				atEnd := r.Pos == c.off+len(c.src) && r.End == r.Pos
				if inside && r.End == r.Pos && r.Pos == c.off && ci > 0 && comments[ci-1].off+len(comments[ci-1].src) == c.off {
					inside = false // zero-width at the seam of two adjacent comments: attributed to the earlier one
				}
				if inside || atEnd {
					o.Obs = append(o.Obs, report{Pos: r.Pos, End: r.End, Msg: []byte(r.Message), HasSugg: r.HasSugg, SuggFrom: r.SuggFrom,
						SuggTo: r.SuggTo, Sugg: []byte(r.Sugg), Line: r.Line, Group: r.Group})
				}
			}
			// expected, from the SOURCE bytes of the comment: first rule (load order) that matches and accepts
			for ri, r := range rules {
				idx := o.IdxSrc[ri]
				if idx == nil {
					continue
				}
				var caps []capText
				pos := map[string][2]int{}
				for i, name := range r.Names {
					if i == 0 || name == "" {
						continue
					}
					b, en := idx[2*i], idx[2*i+1]
					if b < 0 || en < 0 {
						caps = append(caps, capText{name, nil})
						pos[name] = [2]int{c.off, c.off}
						continue
					}
					caps = append(caps, capText{name, []byte(c.src[b:en])})
					pos[name] = [2]int{c.off + b, c.off + en}
				}
				if r.Filter != nil {
					okf := false
					for _, cp := range caps {
						if cp.name == r.Filter[0] {
							okf = string(cp.text) == r.Filter[1]
							break
						}
					}
					if !okf {
						continue
					}
				}
				whole := []byte(c.src[idx[0]:idx[1]])
				wnt := report{Pos: c.off + idx[0], End: c.off + idx[1], Line: r.Line, Group: r.Group, Rule: ri}
				if r.At != "" {
					p := pos[r.At]
					wnt.Pos, wnt.End = p[0], p[1]
				}
				wnt.Msg = interpSpec(r.Msg, caps, whole, true, L)
				if r.Sugg != "" {
					wnt.Sugg = interpSpec(r.Sugg, caps, whole, false, L)
					wnt.HasSugg = true
					wnt.SuggFrom, wnt.SuggTo = wnt.Pos, wnt.End
				}
				o.Want = &wnt
				break
			}
			enc.Encode(o)
		}
	}
}
